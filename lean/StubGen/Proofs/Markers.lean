/-
Helper lemmas for `StubGen.Theorems.C20` (TODO markers).

* a small calculus for successful runs of the generator monad `G`: the `_ok` characterisations of
  the primitives and `wp x Q st` ("every successful run of `x` from `st` ends in `Q`") with its rules;
* `createTodoMsg` (`createTodoMsg_ok`: exact text and final state);
* the relation `Grows K b st st'`: `st'` has the keys `K` added to the pending set (and the
  state-dependent key only if `b`), nothing but `todos`, `imports`, `outside` changed; its algebra;
* `Grows` for `addToImports`, the `typeStr` family (mutual structural recursion), `createParameter(s)`,
  `createParameterString`, `createResults`/`createResultString`, `typeVarStrings`, `typeParamStrings`;
* flushing (`…_flushed`) and `Keeps` (started with an empty pending set, ends with one) for every
  declaration-emitting function up to `createModuleString`;
* `rendersEmptyM`: exactly the types the model renders as `""` (`typeStr_empty`), and the key sets
  `resultKeysM`, `functionKeysM`, `attributeKeysM` built on it, with their relation to `Spec.*`:
  `rendersEmptyM = Spec.rendersEmpty` on `mk_tvNonempty` types (no type variable with an empty
  converted name under unions / `Final`s), in particular on types without type variables;
* `mk_createResultString_eq`: `createResultString` is `""` without any effect when the only result is
  `None`, and `mk_resultStringBody` (all typed results rendered) otherwise;
* marker-iff-feature for `createFunctionString`, `createAttribute`, `createClassString`, and the
  lemmas that the text after a marker block does not start with the marker prefix.

`functionBody` / `classBody` are copies of the model text after the early return of
`createFunctionString` / `createClassString`; `createFunctionString_eq` / `createClassString_eq`
(both `rfl`) tie them to the model.
-/
import StubGen.Model.Gen
import StubGen.Spec.Markers
import Mathlib.Data.List.Nodup
import Mathlib.Data.List.Perm.Basic
import Mathlib.Data.String.Basic

namespace StubGen

open List

/-! ### sets as duplicate-free lists -/

theorem mem_insertSet_mk (a : String) (l : List String) (x : String) :
    x ∈ insertSet a l ↔ x ∈ l ∨ x = a := by
  unfold insertSet
  split
  · rename_i h
    have : a ∈ l := by simpa using h
    constructor
    · exact Or.inl
    · rintro (h | rfl) <;> assumption
  · simp

theorem nodup_insertSet_mk (a : String) (l : List String) (h : l.Nodup) : (insertSet a l).Nodup := by
  unfold insertSet
  split
  · exact h
  · rename_i hc
    have : a ∉ l := by simpa using hc
    exact List.nodup_append.2 ⟨h, List.nodup_singleton a, by
      intro x hx y hy
      simp at hy
      subst hy
      intro hxy
      subst hxy
      exact this hx⟩

/-! ### successful runs of `G` computations -/

section Monad
variable {α β : Type}

theorem bind_apply (x : G α) (f : α → G β) (st : St) :
    (x >>= f) st = match x st with
      | .ok (a, s1) => f a s1
      | .error e => .error e := by
  show (StateT.bind x f) st = _
  unfold StateT.bind
  cases h : x st with
  | error e => simp [bind, Except.bind]
  | ok v => cases v; simp [bind, Except.bind]

theorem bind_ok {x : G α} {f : α → G β} {st : St} {r : β × St} :
    (x >>= f) st = .ok r ↔ ∃ a s1, x st = .ok (a, s1) ∧ f a s1 = .ok r := by
  rw [bind_apply]
  cases h : x st with
  | error e => simp
  | ok v =>
    obtain ⟨a, s1⟩ := v
    constructor
    · intro h'
      exact ⟨a, s1, rfl, h'⟩
    · rintro ⟨a', s1', h1, h2⟩
      cases h1
      exact h2

theorem pure_ok {a : α} {st : St} {r : α × St} : (pure a : G α) st = .ok r ↔ r = (a, st) := by
  show Except.ok (a, st) = Except.ok r ↔ _
  constructor
  · intro h; cases h; rfl
  · intro h; rw [h]

theorem throwG_ok {e : PyErr} {st : St} {r : α × St} : (throwG e : G α) st = .ok r ↔ False := by
  simp [throwG]

theorem get_ok {st : St} {r : St × St} : (get : G St) st = .ok r ↔ r = (st, st) := by
  show Except.ok (st, st) = Except.ok r ↔ _
  constructor
  · intro h; cases h; rfl
  · intro h; rw [h]

theorem set_ok {s st : St} {r : PUnit × St} : (set s : G PUnit) st = .ok r ↔ r = (⟨⟩, s) := by
  show Except.ok (PUnit.unit, s) = Except.ok r ↔ _
  constructor
  · intro h; cases h; rfl
  · intro h; rw [h]

theorem modify_ok {f : St → St} {st : St} {r : PUnit × St} :
    (modify f : G PUnit) st = .ok r ↔ r = (⟨⟩, f st) := by
  show Except.ok (PUnit.unit, f st) = Except.ok r ↔ _
  constructor
  · intro h; cases h; rfl
  · intro h; rw [h]

theorem addTodo_ok {k : String} {st : St} {r : Unit × St} :
    addTodo k st = .ok r ↔ r = ((), { st with todos := insertSet k st.todos }) := by
  unfold addTodo
  exact modify_ok

theorem logEmit_ok {kind id : String} {st : St} {r : Unit × St} :
    logEmit kind id st = .ok r ↔ r = ((), { st with log := st.log ++ [(kind, id)] }) := by
  unfold logEmit
  exact modify_ok

theorem ite_run {c : Prop} [Decidable c] (x y : G α) (st : St) :
    (if c then x else y) st = if c then x st else y st := by
  split <;> rfl

end Monad

/-! ### `createTodoMsg` -/

/-- the marker line of one key (the table lookup, with `""` for a key outside the table) -/
def todoMsgOf (k : String) : String :=
  Generated.todoPrefix ++ (assocGet? Generated.todoMessages k).getD ""

/-- the marker block `createTodoMsg` prints for a pending set -/
def renderTodos (indent : String) (keys : List String) : String :=
  if keys = [] then "" else indent ++ joinWith ("\n" ++ indent) (sortStrings (keys.map todoMsgOf)) ++ "\n"

def todoLookup (k : String) : G String :=
  match assocGet? Generated.todoMessages k with
  | some m => pure (Generated.todoPrefix ++ m)
  | none => throwG .keyError

theorem mapM_todoLookup_ok (l : List String) (st : St) (r : List String × St) :
    l.mapM todoLookup st = .ok r ↔
      (∀ k ∈ l, (assocGet? Generated.todoMessages k).isSome) ∧ r = (l.map todoMsgOf, st) := by
  induction l generalizing st r with
  | nil => simp [pure_ok]
  | cons k ks ih =>
    rw [List.mapM_cons]
    simp only [bind_ok, pure_ok, ih]
    constructor
    · rintro ⟨a, s1, h1, l', s2, ⟨h2, h3⟩, rfl⟩
      unfold todoLookup at h1
      cases hk : assocGet? Generated.todoMessages k with
      | none => simp [hk, throwG_ok] at h1
      | some m =>
        simp only [hk, pure_ok] at h1
        cases h1; cases h3
        refine ⟨?_, ?_⟩
        · intro k' hk'
          rcases List.mem_cons.1 hk' with rfl | hk'
          · simp [hk]
          · exact h2 k' hk'
        · simp [todoMsgOf, hk]
    · rintro ⟨h1, rfl⟩
      have hk := h1 k (by simp)
      cases hk' : assocGet? Generated.todoMessages k with
      | none => simp [hk'] at hk
      | some m =>
        refine ⟨Generated.todoPrefix ++ m, st, ?_, ks.map todoMsgOf, st, ⟨fun k' h' => h1 k' (by simp [h']), rfl⟩, ?_⟩
        · simp [todoLookup, hk', pure_ok]
        · simp [todoMsgOf, hk']

theorem createTodoMsg_ok (indent : String) (st : St) (r : String × St) :
    createTodoMsg indent st = .ok r ↔
      (∀ k ∈ st.todos, (assocGet? Generated.todoMessages k).isSome) ∧
        r = (renderTodos indent st.todos, { st with todos := [] }) := by
  unfold createTodoMsg
  simp only [bind_ok, get_ok]
  constructor
  · rintro ⟨a, s1, h1, h2⟩
    cases h1
    rw [ite_run] at h2
    split at h2
    · rename_i he
      have : st.todos = [] := by simpa using he
      rw [pure_ok] at h2
      subst h2
      refine ⟨by simp [this], ?_⟩
      simp [renderTodos, this]
      cases st; simp_all
    · rename_i he
      have hne : st.todos ≠ [] := by simpa using he
      simp only [bind_ok, set_ok, pure_ok] at h2
      obtain ⟨msgs, s1, h3, _, s2, h4, rfl⟩ := h2
      cases h4
      have := (mapM_todoLookup_ok st.todos st (msgs, s1)).1 h3
      obtain ⟨h5, h6⟩ := this
      cases h6
      exact ⟨h5, by simp [renderTodos, hne]⟩
  · rintro ⟨h1, rfl⟩
    refine ⟨st, st, rfl, ?_⟩
    rw [ite_run]
    split
    · rename_i he
      have : st.todos = [] := by simpa using he
      rw [pure_ok]
      simp [renderTodos, this]
      cases st; simp_all
    · rename_i he
      have hne : st.todos ≠ [] := by simpa using he
      simp only [bind_ok, set_ok, pure_ok]
      exact ⟨st.todos.map todoMsgOf, st, (mapM_todoLookup_ok _ _ _).2 ⟨h1, rfl⟩, ⟨⟩, _, rfl, by simp [renderTodos, hne]⟩

/-! ### weakest preconditions for successful runs -/

section WP
variable {α β : Type}

/-- every successful run of `x` from `st` ends in a result and state satisfying `Q` -/
def wp (x : G α) (Q : α → St → Prop) (st : St) : Prop := ∀ a st', x st = .ok (a, st') → Q a st'

theorem wp_bind {x : G α} {f : α → G β} {Q : β → St → Prop} {st : St} :
    wp (x >>= f) Q st ↔ wp x (fun a s1 => wp (f a) Q s1) st := by
  unfold wp
  simp only [bind_ok]
  constructor
  · intro h a s1 h1 b s2 h2
    exact h b s2 ⟨a, s1, h1, h2⟩
  · rintro h b s2 ⟨a, s1, h1, h2⟩
    exact h a s1 h1 b s2 h2

theorem wp_pure {a : α} {Q : α → St → Prop} {st : St} : wp (pure a : G α) Q st ↔ Q a st := by
  unfold wp
  simp only [pure_ok]
  constructor
  · intro h; exact h a st rfl
  · intro h a' st' h'; cases h'; exact h

theorem wp_throwG {e : PyErr} {Q : α → St → Prop} {st : St} : wp (throwG e : G α) Q st ↔ True := by
  unfold wp
  simp [throwG_ok]

theorem wp_get {Q : St → St → Prop} {st : St} : wp (get : G St) Q st ↔ Q st st := by
  unfold wp
  simp only [get_ok]
  constructor
  · intro h; exact h st st rfl
  · intro h a' st' h'; cases h'; exact h

theorem wp_set {s : St} {Q : PUnit → St → Prop} {st : St} : wp (set s : G PUnit) Q st ↔ Q ⟨⟩ s := by
  unfold wp
  simp only [set_ok]
  constructor
  · intro h; exact h _ _ rfl
  · intro h a' st' h'; cases h'; exact h

theorem wp_modify {f : St → St} {Q : PUnit → St → Prop} {st : St} :
    wp (modify f : G PUnit) Q st ↔ Q ⟨⟩ (f st) := by
  unfold wp
  simp only [modify_ok]
  constructor
  · intro h; exact h _ _ rfl
  · intro h a' st' h'; cases h'; exact h

theorem wp_addTodo {k : String} {Q : Unit → St → Prop} {st : St} :
    wp (addTodo k) Q st ↔ Q () { st with todos := insertSet k st.todos } := by
  unfold addTodo
  exact wp_modify

theorem wp_logEmit {kind id : String} {Q : Unit → St → Prop} {st : St} :
    wp (logEmit kind id) Q st ↔ Q () { st with log := st.log ++ [(kind, id)] } := by
  unfold logEmit
  exact wp_modify

theorem wp_ite {c : Prop} [Decidable c] {x y : G α} {Q : α → St → Prop} {st : St} :
    wp (if c then x else y) Q st ↔ (c → wp x Q st) ∧ (¬c → wp y Q st) := by
  split <;> simp [*]

theorem wp_conseq {x : G α} {Q R : α → St → Prop} {st : St} (h : wp x Q st)
    (hQR : ∀ a s, Q a s → R a s) : wp x R st :=
  fun a s' hx => hQR a s' (h a s' hx)

theorem wp_of_ok {x : G α} {Q : α → St → Prop} {st : St} {a : α} {st' : St}
    (h : wp x Q st) (hx : x st = .ok (a, st')) : Q a st' := h a st' hx

end WP

/-- `s` differs from `st` at most in `imports` and `outside` -/
def OnlyIO (st s : St) : Prop :=
  s.log = st.log ∧ s.todos = st.todos ∧ s.reexports = st.reexports ∧ s.classGenerics = st.classGenerics ∧
    s.moduleId = st.moduleId ∧ s.reexportModuleId = st.reexportModuleId ∧ s.creatingReexport = st.creatingReexport

theorem OnlyIO.refl (st : St) : OnlyIO st st := ⟨rfl, rfl, rfl, rfl, rfl, rfl, rfl⟩

theorem OnlyIO.ite {st a b : St} {c : Prop} [Decidable c] (ha : OnlyIO st a) (hb : OnlyIO st b) :
    OnlyIO st (if c then a else b) := by
  split <;> assumption

theorem OnlyIO.imports {st s : St} (x : List String) (h : OnlyIO st s) :
    OnlyIO st { s with imports := x } := h

theorem OnlyIO.outside {st s : St} (x : List String) (h : OnlyIO st s) :
    OnlyIO st { s with outside := x } := h

theorem addToImports_wp (env : Env) (q : String) (st : St) :
    wp (addToImports env q) (fun _ st' => OnlyIO st st') st := by
  unfold addToImports
  simp only [wp_ite, wp_bind, wp_pure, wp_get, wp_set, wp_throwG]
  refine ⟨?_, ?_⟩
  · intro _; trivial
  intro _
  refine ⟨?_, ?_⟩
  · intro _; exact OnlyIO.refl st
  intro _
  refine ⟨?_, ?_⟩
  · intro _; exact OnlyIO.refl st
  intro _
  refine ⟨?_, ?_⟩
  · intro _
    apply OnlyIO.ite
    · apply OnlyIO.imports
      apply OnlyIO.ite
      · exact OnlyIO.outside _ (OnlyIO.refl st)
      · exact OnlyIO.refl st
    · apply OnlyIO.ite
      · exact OnlyIO.outside _ (OnlyIO.refl st)
      · exact OnlyIO.refl st
  · intro _; exact OnlyIO.refl st

/-! ### the `Grows` relation -/

/-- `st'` arises from `st` by adding the keys `K` to the pending markers (and, only if `b`, possibly
    the state-dependent key `"internal class as type"`), touching nothing but `todos`, `imports`,
    `outside`. -/
structure Grows (K : List String) (b : Bool) (st st' : St) : Prop where
  log : st'.log = st.log
  reexports : st'.reexports = st.reexports
  classGenerics : st'.classGenerics = st.classGenerics
  moduleId : st'.moduleId = st.moduleId
  reexportModuleId : st'.reexportModuleId = st.reexportModuleId
  creatingReexport : st'.creatingReexport = st.creatingReexport
  nodup : st.todos.Nodup → st'.todos.Nodup
  mem : ∀ k, k ≠ "internal class as type" → (k ∈ st'.todos ↔ k ∈ st.todos ∨ k ∈ K)
  internal : "internal class as type" ∈ st'.todos → "internal class as type" ∈ st.todos ∨ b = true

theorem Grows.refl (st : St) : Grows [] false st st :=
  ⟨rfl, rfl, rfl, rfl, rfl, rfl, id, by simp, Or.inl⟩

theorem Grows.trans {K1 K2 : List String} {b1 b2 : Bool} {s0 s1 s2 : St}
    (h1 : Grows K1 b1 s0 s1) (h2 : Grows K2 b2 s1 s2) : Grows (K1 ++ K2) (b1 || b2) s0 s2 := by
  refine ⟨h2.log.trans h1.log, h2.reexports.trans h1.reexports, h2.classGenerics.trans h1.classGenerics,
    h2.moduleId.trans h1.moduleId, h2.reexportModuleId.trans h1.reexportModuleId,
    h2.creatingReexport.trans h1.creatingReexport, fun h => h2.nodup (h1.nodup h), ?_, ?_⟩
  · intro k hk
    rw [h2.mem k hk, h1.mem k hk, List.mem_append, or_assoc]
  · intro h
    rcases h2.internal h with h | h
    · rcases h1.internal h with h | h
      · exact Or.inl h
      · exact Or.inr (by simp [h])
    · exact Or.inr (by simp [h])

theorem Grows.mono {K K' : List String} {b b' : Bool} {st st' : St} (h : Grows K b st st')
    (hK : ∀ k, k ∈ K ↔ k ∈ K') (hb : b = true → b' = true) : Grows K' b' st st' :=
  ⟨h.log, h.reexports, h.classGenerics, h.moduleId, h.reexportModuleId, h.creatingReexport, h.nodup,
    fun k hk => by rw [h.mem k hk, hK], fun hi => (h.internal hi).imp id hb⟩

theorem Grows.addTodo {k : String} (hk : k ≠ "internal class as type") (st : St) :
    Grows [k] false st { st with todos := insertSet k st.todos } :=
  ⟨rfl, rfl, rfl, rfl, rfl, rfl, nodup_insertSet_mk k _, fun k' _ => by simp [mem_insertSet_mk],
    fun h => by
      rcases (mem_insertSet_mk _ _ _).1 h with h | h
      · exact Or.inl h
      · exact absurd h.symm hk⟩

theorem Grows.addInternal (st : St) :
    Grows [] true st { st with todos := insertSet "internal class as type" st.todos } :=
  ⟨rfl, rfl, rfl, rfl, rfl, rfl, nodup_insertSet_mk _ _, fun k' hk => by simp [mem_insertSet_mk, hk],
    fun _ => Or.inr rfl⟩

theorem Grows.of_onlyIO {st s : St} (h : OnlyIO st s) : Grows [] false st s := by
  obtain ⟨h1, h2, h3, h4, h5, h6, h7⟩ := h
  exact ⟨h1, h3, h4, h5, h6, h7, by rw [h2]; exact id, by simp [h2], by rw [h2]; exact Or.inl⟩

theorem addToImports_grows (env : Env) (q : String) (st : St) :
    wp (addToImports env q) (fun _ st' => Grows [] false st st') st :=
  wp_conseq (addToImports_wp env q st) fun _ _ h => Grows.of_onlyIO h

/-! ### the `typeStr` family -/

theorem typeKeys_of_isLiteral {t : AType} (h : isLiteral t = true) : Spec.typeKeys t = [] := by
  cases t <;> simp [isLiteral] at h
  simp [Spec.typeKeys]

theorem typeKeys_of_isNoneNamed {t : AType} (h : isNoneNamed t = true) : Spec.typeKeys t = [] := by
  cases t <;> simp [isNoneNamed] at h
  simp [Spec.typeKeys]

theorem not_isLiteral_of_isNoneNamed {t : AType} (h : isNoneNamed t = true) : isLiteral t = false := by
  cases t <;> simp [isNoneNamed] at h
  simp [isLiteral]

theorem typeKeysL_eq_nil {ts : List AType} (h : ∀ t ∈ ts, isLiteral t = true ∨ isNoneNamed t = true) :
    Spec.typeKeysL ts = [] := by
  induction ts with
  | nil => simp [Spec.typeKeysL]
  | cons t ts ih =>
    have ht : Spec.typeKeys t = [] := by
      rcases h t (by simp) with h | h
      · exact typeKeys_of_isLiteral h
      · exact typeKeys_of_isNoneNamed h
    simp [Spec.typeKeysL, ht, ih (fun t' h' => h t' (by simp [h']))]

/-- first literal shortcut of the union rendering: one non-literal member, which is `None` -/
theorem union_case1 {ts : List AType}
    (h : ((ts.filter (fun t => !isLiteral t)).length == 1 &&
      (ts.filter (fun t => !isLiteral t)).any isNoneNamed) = true) : Spec.typeKeysL ts = [] := by
  simp only [Bool.and_eq_true, beq_iff_eq] at h
  obtain ⟨h1, h2⟩ := h
  apply typeKeysL_eq_nil
  intro t ht
  cases hl : isLiteral t with
  | true => exact Or.inl rfl
  | false =>
    right
    have hm : t ∈ ts.filter (fun t => !isLiteral t) := by simp [ht, hl]
    match hf : ts.filter (fun t => !isLiteral t), h1 with
    | [x], _ =>
      rw [hf] at hm h2
      simp at hm h2
      rw [hm]; exact h2

/-- second literal shortcut: exactly two members, one literal, one `None` -/
theorem union_case2 {ts : List AType}
    (h : (ts.length == 2 && (ts.filter isLiteral).length == 1 && ts.any isNoneNamed) = true) :
    Spec.typeKeysL ts = [] := by
  simp only [Bool.and_eq_true, beq_iff_eq] at h
  obtain ⟨⟨h1, h2⟩, h3⟩ := h
  match ts, h1 with
  | [a, b], _ =>
    apply typeKeysL_eq_nil
    simp only [List.any_cons, List.any_nil, Bool.or_false, Bool.or_eq_true] at h3
    simp only [List.filter_cons, List.filter_nil] at h2
    intro t ht
    simp only [List.mem_cons, List.not_mem_nil, or_false] at ht
    cases ha : isLiteral a <;> cases hb : isLiteral b <;> simp [ha, hb] at h2
    · rcases h3 with h3 | h3
      · have := not_isLiteral_of_isNoneNamed h3
        rcases ht with rfl | rfl
        · exact Or.inr h3
        · exact Or.inl hb
      · have := not_isLiteral_of_isNoneNamed h3
        simp [hb] at this
    · rcases h3 with h3 | h3
      · have := not_isLiteral_of_isNoneNamed h3
        simp [ha] at this
      · rcases ht with rfl | rfl
        · exact Or.inl ha
        · exact Or.inr h3

mutual
theorem typeStr_grows (env : Env) : (t : AType) → ∀ st,
    wp (typeStr env t) (fun _ st' => Grows (Spec.typeKeys t) (Spec.mentionsInternal t) st st') st
  | .named name qname, st => by
    rw [typeStr]
    split
    · rw [wp_pure]; exact (Grows.refl st).mono (by simp [Spec.typeKeys]) (by simp)
    · rw [wp_bind]
      refine wp_conseq (addToImports_grows env qname st) ?_; intro _ s1 h1
      split
      · exact wp_throwG.2 trivial
      · rename_i c tl hc
        simp only [wp_bind, wp_get, wp_ite, wp_addTodo, wp_pure]
        constructor
        · intro hcond
          refine (h1.trans (Grows.addInternal s1)).mono (by simp [Spec.typeKeys]) ?_
          intro _
          simp only [Bool.and_eq_true, beq_iff_eq] at hcond
          simp [Spec.mentionsInternal, hc, hcond.1]
        · intro _
          exact h1.mono (by simp [Spec.typeKeys]) (by simp)
  | .final t, st => by
    rw [typeStr]
    exact wp_conseq (typeStr_grows env t st) fun _ _ h => h.mono (by simp [Spec.typeKeys]) (by simp [Spec.mentionsInternal])
  | .callable params ret, st => by
    rw [typeStr, wp_bind]
    refine wp_conseq (typeStrsNamed_grows env "param_" 1 params st) ?_; intro ps s1 h1
    split
    · rename_i ts
      rw [wp_bind]
      refine wp_conseq (typeStrsNamed_grows env "result_" 1 ts s1) ?_; intro rs s2 h2
      rw [wp_pure]
      exact (h1.trans h2).mono (by simp [Spec.typeKeys]) (by simp [Spec.mentionsInternal])
    · rename_i hnt
      have hk : Spec.typeKeys (.callable params ret) = Spec.typeKeysL params ++ Spec.typeKeys ret := by
        cases ret <;> simp [Spec.typeKeys] at hnt ⊢
      simp only [wp_ite, wp_bind, wp_pure]
      refine ⟨?_, ?_⟩
      · intro hn
        have : Spec.typeKeys ret = [] := by
          cases ret <;> simp [namedNone] at hn
          simp [Spec.typeKeys]
        exact h1.mono (by simp [hk, this]) (by simp [Spec.mentionsInternal]; tauto)
      · intro _
        refine wp_conseq (typeStr_grows env ret s1) ?_; intro r s2 h2
        exact (h1.trans h2).mono (by simp [hk]) (by simp [Spec.mentionsInternal])
  | .set ts, st => by
    rw [typeStr, wp_bind]
    refine wp_conseq (typeStrs_grows env ts st) ?_; intro types s1 ⟨h1, hlen⟩
    simp only [wp_bind, wp_addTodo, wp_ite, wp_pure]
    have h2 := h1.trans (Grows.addTodo (k := "no set support") (by decide) s1)
    refine ⟨?_, ?_⟩
    · intro he
      have : ts.length = 0 := by rw [← hlen]; simpa using he
      exact h2.mono (by intro k; simp [Spec.typeKeys, this]; tauto) (by simp [Spec.mentionsInternal])
    · intro _
      refine ⟨?_, ?_⟩
      · intro hge
        refine (h2.trans (Grows.addTodo (k := "Set") (by decide) _)).mono ?_ (by simp [Spec.mentionsInternal])
        intro k; rw [hlen] at hge; simp [Spec.typeKeys, hge]; tauto
      · intro hge
        refine h2.mono ?_ (by simp [Spec.mentionsInternal])
        intro k; rw [hlen] at hge; simp [Spec.typeKeys, hge]; tauto
  | .list ts, st => by
    rw [typeStr, wp_bind]
    refine wp_conseq (typeStrs_grows env ts st) ?_; intro types s1 ⟨h1, hlen⟩
    simp only [wp_bind, wp_addTodo, wp_ite, wp_pure]
    refine ⟨?_, ?_⟩
    · intro he
      have : ts.length = 0 := by rw [← hlen]; simpa using he
      exact h1.mono (by intro k; simp [Spec.typeKeys, this]) (by simp [Spec.mentionsInternal])
    · intro _
      refine ⟨?_, ?_⟩
      · intro hge
        refine (h1.trans (Grows.addTodo (k := "List") (by decide) _)).mono ?_ (by simp [Spec.mentionsInternal])
        intro k; rw [hlen] at hge; simp [Spec.typeKeys, hge]; tauto
      · intro hge
        refine h1.mono ?_ (by simp [Spec.mentionsInternal])
        intro k; rw [hlen] at hge; simp [Spec.typeKeys, hge]
  | .namedSeq name q ts, st => by
    rw [typeStr, wp_bind]
    refine wp_conseq (typeStrs_grows env ts st) ?_; intro types s0 ⟨h0, hlen⟩
    rw [wp_bind]
    refine wp_conseq (addToImports_grows env q s0) ?_; intro _ s1 hi
    have h1 : Grows (Spec.typeKeysL ts) (Spec.mentionsInternalL ts) st s1 :=
      (h0.trans hi).mono (by simp) (by simp)
    simp only [wp_bind, wp_addTodo, wp_ite, wp_pure]
    refine ⟨?_, ?_⟩
    · intro he
      have : ts.length = 0 := by rw [← hlen]; simpa using he
      exact h1.mono (by intro k; simp [Spec.typeKeys, this]) (by simp [Spec.mentionsInternal])
    · intro _
      refine ⟨?_, ?_⟩
      · intro hge
        have hn : name ≠ "internal class as type" := by
          simp only [Bool.and_eq_true, Bool.or_eq_true, beq_iff_eq] at hge
          rcases hge.2 with h | h <;> rw [h] <;> decide
        refine (h1.trans (Grows.addTodo (k := name) hn _)).mono ?_ (by simp [Spec.mentionsInternal])
        intro k; rw [hlen] at hge; simp [Spec.typeKeys, hge]; tauto
      · intro hge
        refine h1.mono ?_ (by simp [Spec.mentionsInternal])
        intro k; rw [hlen] at hge; simp [Spec.typeKeys, hge]
  | .unknown, st => by
    rw [typeStr]
    simp only [wp_bind, wp_addTodo, wp_pure]
    exact (Grows.addTodo (by decide) st).mono (by simp [Spec.typeKeys]) (by simp)
  | .union ts, st => by
    rw [typeStr]
    simp only [wp_ite, wp_bind, wp_pure]
    refine ⟨fun _ => ⟨?_, ?_⟩, fun _ => ⟨?_, ?_⟩⟩
    · intro h
      exact (Grows.refl st).mono (by simp [Spec.typeKeys, union_case1 h]) (by simp)
    · intro _
      refine wp_conseq (typeStrsSkipLit_grows env ts st) ?_; intro rs s1 h1
      exact h1.mono (by simp [Spec.typeKeys]) (by simp [Spec.mentionsInternal])
    · intro h
      exact (Grows.refl st).mono (by simp [Spec.typeKeys, union_case2 h]) (by simp)
    · intro _
      refine wp_conseq (typeStrs_grows env ts st) ?_; intro rs s1 h1
      exact h1.1.mono (by simp [Spec.typeKeys]) (by simp [Spec.mentionsInternal])
  | .tuple ts, st => by
    rw [typeStr]
    simp only [wp_bind, wp_addTodo]
    refine wp_conseq (typeStrs_grows env ts _) ?_; intro types s1 ⟨h1, _⟩
    rw [wp_pure]
    exact ((Grows.addTodo (k := "no tuple support") (by decide) st).trans h1).mono
      (by simp [Spec.typeKeys]) (by simp [Spec.mentionsInternal])
  | .dict k v, st => by
    rw [typeStr, wp_bind]
    refine wp_conseq (typeStr_grows env k st) ?_; intro ks s1 h1
    rw [wp_bind]
    refine wp_conseq (typeStr_grows env v s1) ?_; intro vs s2 h2
    rw [wp_pure]
    exact (h1.trans h2).mono (by simp [Spec.typeKeys]) (by simp [Spec.mentionsInternal])
  | .literal ls, st => by
    rw [typeStr, wp_pure]; exact (Grows.refl st).mono (by simp [Spec.typeKeys]) (by simp)
  | .typeVar name, st => by
    rw [typeStr, wp_pure]; exact (Grows.refl st).mono (by simp [Spec.typeKeys]) (by simp)
  | .typeVarB name _, st => by
    rw [typeStr, wp_pure]; exact (Grows.refl st).mono (by simp [Spec.typeKeys]) (by simp)
  | .enum _, st => by
    rw [typeStr]; exact wp_throwG.2 trivial
  | .boundary .., st => by
    rw [typeStr]; exact wp_throwG.2 trivial
theorem typeStrs_grows (env : Env) : (ts : List AType) → ∀ st,
    wp (typeStrs env ts) (fun l st' =>
      Grows (Spec.typeKeysL ts) (Spec.mentionsInternalL ts) st st' ∧ l.length = ts.length) st
  | [], st => by
    rw [typeStrs, wp_pure]
    exact ⟨(Grows.refl st).mono (by simp [Spec.typeKeysL]) (by simp), rfl⟩
  | t :: ts, st => by
    rw [typeStrs, wp_bind]
    refine wp_conseq (typeStr_grows env t st) ?_; intro a s1 h1
    rw [wp_bind]
    refine wp_conseq (typeStrs_grows env ts s1) ?_; intro as s2 ⟨h2, hlen⟩
    rw [wp_pure]
    exact ⟨(h1.trans h2).mono (by simp [Spec.typeKeysL]) (by simp [Spec.mentionsInternalL]), by simp [hlen]⟩
theorem typeStrsSkipLit_grows (env : Env) : (ts : List AType) → ∀ st,
    wp (typeStrsSkipLit env ts) (fun _ st' =>
      Grows (Spec.typeKeysL ts) (Spec.mentionsInternalL ts) st st') st
  | [], st => by
    rw [typeStrsSkipLit, wp_pure]
    exact (Grows.refl st).mono (by simp [Spec.typeKeysL]) (by simp)
  | t :: ts, st => by
    rw [typeStrsSkipLit]
    split
    · rename_i hl
      refine wp_conseq (typeStrsSkipLit_grows env ts st) ?_; intro _ s1 h1
      cases t <;> simp [isLiteral] at hl
      exact h1.mono (by simp [Spec.typeKeysL, Spec.typeKeys]) (by simp [Spec.mentionsInternalL, Spec.mentionsInternal])
    · rw [wp_bind]
      refine wp_conseq (typeStr_grows env t st) ?_; intro a s1 h1
      rw [wp_bind]
      refine wp_conseq (typeStrsSkipLit_grows env ts s1) ?_; intro as s2 h2
      rw [wp_pure]
      exact (h1.trans h2).mono (by simp [Spec.typeKeysL]) (by simp [Spec.mentionsInternalL])
theorem typeStrsNamed_grows (env : Env) (pre : String) (i : Nat) : (ts : List AType) → ∀ st,
    wp (typeStrsNamed env pre i ts) (fun _ st' =>
      Grows (Spec.typeKeysL ts) (Spec.mentionsInternalL ts) st st') st
  | [], st => by
    rw [typeStrsNamed, wp_pure]
    exact (Grows.refl st).mono (by simp [Spec.typeKeysL]) (by simp)
  | t :: ts, st => by
    rw [typeStrsNamed, wp_bind]
    refine wp_conseq (typeStr_grows env t st) ?_; intro a s1 h1
    rw [wp_bind]
    refine wp_conseq (typeStrsNamed_grows env pre (i + 1) ts s1) ?_; intro as s2 h2
    rw [wp_pure]
    exact (h1.trans h2).mono (by simp [Spec.typeKeysL]) (by simp [Spec.mentionsInternalL])
end

/-! ### parameters -/

theorem wp_true {α : Type} (x : G α) (st : St) : wp x (fun _ _ => True) st := fun _ _ _ => trivial

/-- `if c then addTodo k` followed by a continuation -/
theorem wp_condTodo {α : Type} {c : Prop} [Decidable c] {k : String} {f : Unit → G α}
    {Q : α → St → Prop} {st : St} :
    wp (if c then addTodo k >>= f else f ()) Q st ↔
      wp (f ()) Q (if c then { st with todos := insertSet k st.todos } else st) := by
  split <;> simp [wp_bind, wp_addTodo]

theorem Grows.condTodo {k : String} (hk : k ≠ "internal class as type") (c : Prop) [Decidable c] (st : St) :
    Grows (if c then [k] else []) false st (if c then { st with todos := insertSet k st.todos } else st) := by
  split
  · exact Grows.addTodo hk st
  · exact Grows.refl st

theorem defaultString_grows (a : Assign) (d : DefaultVal) (st : St) :
    wp (defaultString a d) (fun _ st' => Grows (if d = .unknown then ["unknown value"] else []) false st st') st := by
  cases d <;> simp only [defaultString, wp_pure, wp_bind, wp_addTodo, wp_ite]
  case unknown => exact (Grows.addTodo (by decide) st).mono (by simp) (by simp)
  case str s =>
    refine ⟨fun _ => ?_, fun _ => ⟨fun _ => ?_, fun _ => ?_⟩⟩ <;>
      exact (Grows.refl st).mono (by simp) (by simp)
  all_goals exact (Grows.refl st).mono (by simp) (by simp)

/-- does the parameter's type mention a class whose name starts with an underscore -/
def paramInternal (p : Parameter) : Bool :=
  match p.type with
  | some t => Spec.mentionsInternal t
  | none => false

/-- the markers of the parameter's type as shown -/
def shownKeys (p : Parameter) : List String :=
  match Spec.shownParamType p with
  | none => ["param without type"]
  | some t => Spec.typeKeys t

theorem shown_internal {p : Parameter} {t' : AType} (h : Spec.shownParamType p = some t') :
    Spec.mentionsInternal t' = paramInternal p := by
  unfold Spec.shownParamType at h
  unfold paramInternal
  split at h
  · rename_i ts h1 h2
    cases h
    rw [h2]
    simp [Spec.mentionsInternal]
  · rw [h]

set_option linter.unusedSimpArgs false in
theorem createParameter_grows (env : Env) (p : Parameter) (hp : Spec.optionalIsTyped p = true) (st : St) :
    wp (createParameter env p) (fun _ st' => Grows (Spec.paramKeys p) (paramInternal p) st st') st := by
  unfold createParameter
  rw [wp_bind]
  refine wp_conseq (Q := fun _ s1 => Grows
    (shownKeys p ++ (if p.isOptional && p.default == .unknown then ["unknown value"] else []))
    (paramInternal p) st s1) ?_ ?_
  · split
    · rename_i t hty
      simp only [wp_ite, wp_bind, wp_pure]
      have key : ∀ (t' : AType) (K0 : List String) s0, Grows K0 false st s0 →
          (∀ k, k ∈ K0 ↔ k ∈ (if p.isOptional && p.default == .unknown then ["unknown value"] else [])) →
          Spec.shownParamType p = some t' →
          wp (typeStr env t')
            (fun _ s1 => Grows (shownKeys p ++
              (if p.isOptional && p.default == .unknown then ["unknown value"] else []))
              (paramInternal p) st s1) s0 := by
        intro t' K0 s0 h0 hK0 hs
        refine wp_conseq (typeStr_grows env _ s0) ?_; intro _ s1 h1
        refine (h0.trans h1).mono ?_ ?_
        · intro k
          simp [shownKeys, hs, hK0, or_comm]
        · simp [shown_internal hs]
      refine ⟨fun ho => ?_, fun ho => ?_⟩
      · refine wp_conseq (defaultString_grows _ _ st) ?_; intro d s0 h0
        refine key _ _ s0 h0 (by intro k; simp [ho]) ?_
        unfold Spec.shownParamType
        rw [hty]
        generalize p.assignedBy = a
        cases a <;> cases t <;> rfl
      · refine key _ [] st (Grows.refl st) (by intro k; simp [ho]) ?_
        unfold Spec.shownParamType
        rw [hty]
        generalize p.assignedBy = a
        cases a <;> cases t <;> rfl
    · rename_i hty
      simp only [wp_bind, wp_addTodo, wp_pure]
      have ho : p.isOptional = false := by
        simpa [Spec.optionalIsTyped, hty] using hp
      exact (Grows.addTodo (by decide) st).mono (by simp [shownKeys, Spec.shownParamType, hty, ho]) (by simp)
  · intro ⟨typeString, value⟩ s1 h1
    simp only [wp_ite, wp_bind, wp_pure, wp_addTodo]
    have hpk : Spec.paramKeys p = shownKeys p
        ++ (if p.isOptional && p.default == .unknown then ["unknown value"] else [])
        ++ (if p.assignedBy == .positionOnly && p.isOptional then ["OPT_POS_ONLY"] else [])
        ++ (if p.assignedBy == .nameOnly && !p.isOptional then ["REQ_NAME_ONLY"] else [])
        ++ (if Spec.isVariadic p then ["variadic"] else []) := rfl
    rw [hpk]
    generalize shownKeys p ++ (if p.isOptional && p.default == .unknown then ["unknown value"] else []) = K1 at h1 ⊢
    refine ⟨fun c1 => ⟨fun c3 => ?_, fun c3 => ?_⟩,
      fun c1 => ⟨fun c2 => ⟨fun c3 => ?_, fun c3 => ?_⟩, fun c2 => ⟨fun c3 => ?_, fun c3 => ?_⟩⟩⟩
    · refine ((h1.trans (Grows.addTodo (k := "OPT_POS_ONLY") (by decide) _)).trans
        (Grows.addTodo (k := "variadic") (by decide) _)).mono ?_ (by simp)
      intro k
      cases hA : p.assignedBy <;> cases hO : p.isOptional <;> simp [hA, hO, Spec.isVariadic] at c1 c3 ⊢
    · refine (h1.trans (Grows.addTodo (k := "OPT_POS_ONLY") (by decide) _)).mono ?_ (by simp)
      intro k
      cases hA : p.assignedBy <;> cases hO : p.isOptional <;> simp [hA, hO, Spec.isVariadic] at c1 c3 ⊢
    · refine ((h1.trans (Grows.addTodo (k := "REQ_NAME_ONLY") (by decide) _)).trans
        (Grows.addTodo (k := "variadic") (by decide) _)).mono ?_ (by simp)
      intro k
      cases hA : p.assignedBy <;> cases hO : p.isOptional <;> simp [hA, hO, Spec.isVariadic] at c1 c2 c3 ⊢
    · refine (h1.trans (Grows.addTodo (k := "REQ_NAME_ONLY") (by decide) _)).mono ?_ (by simp)
      intro k
      cases hA : p.assignedBy <;> cases hO : p.isOptional <;> simp [hA, hO, Spec.isVariadic] at c1 c2 c3 ⊢
    · refine (h1.trans (Grows.addTodo (k := "variadic") (by decide) _)).mono ?_ (by simp)
      intro k
      cases hA : p.assignedBy <;> cases hO : p.isOptional <;> simp [hA, hO, Spec.isVariadic] at c1 c2 c3 ⊢
    · refine h1.mono ?_ (by simp)
      intro k
      cases hA : p.assignedBy <;> cases hO : p.isOptional <;> simp [hA, hO, Spec.isVariadic] at c1 c2 c3 ⊢

theorem createParameters_grows (env : Env) : (ps : List Parameter) →
    (∀ p ∈ ps, Spec.optionalIsTyped p = true) → ∀ st,
    wp (createParameters env ps) (fun _ st' => Grows (Spec.paramsKeys ps) (ps.any paramInternal) st st') st
  | [], _, st => by
    rw [createParameters, wp_pure]
    exact (Grows.refl st).mono (by simp [Spec.paramsKeys]) (by simp)
  | p :: ps, hps, st => by
    rw [createParameters, wp_bind]
    refine wp_conseq (createParameter_grows env p (hps p (by simp)) st) ?_; intro a s1 h1
    rw [wp_bind]
    refine wp_conseq (createParameters_grows env ps (fun q hq => hps q (by simp [hq])) s1) ?_; intro as s2 h2
    rw [wp_pure]
    exact (h1.trans h2).mono (by simp [Spec.paramsKeys]) (by simp)

/-- the parameters `createParameterString` renders -/
def shownParams (params : List Parameter) (isInstanceMethod : Bool) : List Parameter :=
  if isInstanceMethod then params.drop 1 else params

theorem createParameterString_grows (env : Env) (params : List Parameter) (indent : String) (im : Bool)
    (hps : ∀ p ∈ params, Spec.optionalIsTyped p = true) (st : St) :
    wp (createParameterString env params indent im)
      (fun _ st' => Grows (Spec.paramsKeys (shownParams params im)) ((shownParams params im).any paramInternal) st st') st := by
  unfold createParameterString
  simp only [wp_bind]
  have hsub : ∀ p ∈ shownParams params im, Spec.optionalIsTyped p = true := by
    intro p hp
    unfold shownParams at hp
    split at hp
    · exact hps p (List.mem_of_mem_drop hp)
    · exact hps p hp
  refine wp_conseq (createParameters_grows env _ hsub st) ?_; intro outs s1 h1
  simp only [wp_ite, wp_pure]
  exact ⟨fun _ => h1, fun _ => h1⟩

/-! ### flushing -/

theorem createTodoMsg_wp (indent : String) (st : St) :
    wp (createTodoMsg indent)
      (fun s st' => s = renderTodos indent st.todos ∧ st' = { st with todos := [] }) st := by
  intro s st' h
  have := ((createTodoMsg_ok indent st (s, st')).1 h).2
  cases this
  exact ⟨rfl, rfl⟩

theorem hasNodeShorterReexport_wp (n : String) (r : List ModRef) (node : Node) (st : St) :
    wp (hasNodeShorterReexport n r node)
      (fun b st' => (b = false → st' = st) ∧ ∃ rs, st' = { st with reexports := rs }) st := by
  unfold hasNodeShorterReexport
  simp only [wp_bind, wp_get]
  split
  · simp only [wp_ite, wp_bind, wp_set, wp_pure]
    exact ⟨fun _ => ⟨by simp, _, rfl⟩, fun _ => ⟨by simp, st.reexports, rfl⟩⟩
  · rw [wp_pure]
    exact ⟨fun _ => rfl, st.reexports, rfl⟩

/-- the part of `createFunctionString` after the early return -/
def functionBody (env : Env) (f : Function) (indent : String) (isMethod : Bool) : G String := do
  logEmit "fun" f.id
  let static := if f.isClassMethod || f.isStatic then "static " else ""
  if f.isClassMethod then addTodo "class_method"
  let funcParams ← createParameterString env f.params indent (!f.isStatic && isMethod)
  let tvs ← typeVarStrings env isMethod f.typeVars
  let typeVarInfo := if tvs.isEmpty then "" else "<" ++ joinWith ", " tvs ++ ">"
  let docstring := sdsDocstring env.safe f.doc.description indent f.params f.resultDocs f.doc.examples
  let camel := convertName f.name env.safe
  let ann := if camel != f.name then indent ++ nameAnnotation f.name ++ "\n" else ""
  let resultString ← createResultString env f.results
  let todo ← createTodoMsg indent
  pure (todo ++ docstring ++ indent ++ "@Pure\n" ++ ann ++ indent ++ static ++ "fun " ++ escapeKeyword camel
        ++ typeVarInfo ++ "(" ++ funcParams ++ ")" ++ resultString)

theorem createFunctionString_eq (env : Env) (f : Function) (indent : String) (isMethod inRe : Bool) :
    createFunctionString env f indent isMethod inRe =
      if !isMethod && !inRe then do
        let b ← hasNodeShorterReexport f.name f.reexportedBy (.fn f)
        if b then do
          logEmit "moved" f.id
          pure ""
        else functionBody env f indent isMethod
      else functionBody env f indent isMethod := rfl

theorem functionBody_flushed (env : Env) (f : Function) (indent : String) (isMethod : Bool) (st : St) :
    wp (functionBody env f indent isMethod) (fun _ st' => st'.todos = []) st := by
  unfold functionBody
  simp only [wp_bind, wp_logEmit, wp_condTodo]
  refine wp_conseq (wp_true _ _) ?_; intro _ s1 _
  refine wp_conseq (wp_true _ _) ?_; intro _ s2 _
  refine wp_conseq (wp_true _ _) ?_; intro _ s3 _
  refine wp_conseq (createTodoMsg_wp indent s3) ?_; intro _ s4 ⟨_, h⟩
  rw [wp_pure, h]

theorem createFunctionString_flushed (env : Env) (f : Function) (indent : String) (isMethod inRe : Bool) (st : St) :
    wp (createFunctionString env f indent isMethod inRe)
      (fun text st' => st'.todos = [] ∨ (text = "" ∧ st'.todos = st.todos)) st := by
  rw [createFunctionString_eq]
  simp only [wp_ite, wp_bind]
  refine ⟨fun _ => ?_, fun _ => ?_⟩
  · refine wp_conseq (hasNodeShorterReexport_wp _ _ _ st) ?_; intro b s1 ⟨_, rs, h2⟩
    refine ⟨fun _ => ?_, fun _ => ?_⟩
    · simp only [wp_logEmit, wp_pure]
      exact Or.inr ⟨trivial, by rw [h2]⟩
    · exact wp_conseq (functionBody_flushed env f indent isMethod s1) fun _ _ h => Or.inl h
  · exact wp_conseq (functionBody_flushed env f indent isMethod st) fun _ _ h => Or.inl h

theorem createPropertyFunctionString_flushed (env : Env) (f : Function) (indent : String) (st : St) :
    wp (createPropertyFunctionString env f indent) (fun _ st' => st'.todos = []) st := by
  unfold createPropertyFunctionString
  simp only [wp_bind, wp_logEmit]
  refine wp_conseq (wp_true _ _) ?_; intro _ s1 _
  refine wp_conseq (createTodoMsg_wp indent s1) ?_; intro _ s2 ⟨_, h⟩
  rw [wp_pure, h]

theorem createAttribute_flushed (env : Env) (a : Attribute) (inner : String) (st : St) :
    wp (createAttribute env a inner)
      (fun r st' => (r = none → st' = st) ∧ (r ≠ none → st'.todos = [])) st := by
  unfold createAttribute
  rw [wp_ite]
  refine ⟨fun _ => by rw [wp_pure]; simp, fun _ => ?_⟩
  rw [wp_ite]
  refine ⟨fun _ => by rw [wp_pure]; simp, fun _ => ?_⟩
  simp only [wp_bind, wp_logEmit]
  refine wp_conseq (wp_true _ _) ?_; intro t s1 _
  simp only [wp_condTodo, wp_bind]
  refine wp_conseq (createTodoMsg_wp inner _) ?_; intro _ s2 ⟨_, h⟩
  rw [wp_pure, h]
  exact ⟨fun h => by simp at h, fun _ => rfl⟩

/-! ### computations that keep the pending set empty -/

section Keeps
variable {α β : Type}

/-- started with no pending markers, `x` ends with none -/
def Keeps (x : G α) : Prop := ∀ st, st.todos = [] → wp x (fun _ st' => st'.todos = []) st

theorem Keeps.bind {x : G α} {f : α → G β} (hx : Keeps x) (hf : ∀ a, Keeps (f a)) : Keeps (x >>= f) := by
  intro st h
  rw [wp_bind]
  exact wp_conseq (hx st h) fun a s1 h1 => hf a s1 h1

theorem Keeps.pure (a : α) : Keeps (pure a : G α) := by
  intro st h
  rw [wp_pure]; exact h

theorem Keeps.ite {c : Prop} [Decidable c] {x y : G α} (hx : Keeps x) (hy : Keeps y) :
    Keeps (if c then x else y) := by
  split <;> assumption

theorem Keeps.of_flushed {x : G α} (h : ∀ st, wp x (fun _ st' => st'.todos = []) st) : Keeps x :=
  fun st _ => h st

end Keeps

theorem addToImports_keeps_mk (env : Env) (q : String) : Keeps (addToImports env q) := by
  intro st h
  exact wp_conseq (addToImports_wp env q st) fun _ s hs => by rw [hs.2.1, h]

theorem createFunctionString_keeps_mk (env : Env) (f : Function) (indent : String) (isMethod inRe : Bool) :
    Keeps (createFunctionString env f indent isMethod inRe) := by
  intro st h
  refine wp_conseq (createFunctionString_flushed env f indent isMethod inRe st) ?_
  rintro _ s (h1 | ⟨_, h1⟩)
  · exact h1
  · rw [h1, h]

theorem createAttribute_keeps_mk (env : Env) (a : Attribute) (inner : String) : Keeps (createAttribute env a inner) := by
  intro st h
  refine wp_conseq (createAttribute_flushed env a inner st) ?_
  rintro r s ⟨h1, h2⟩
  cases r with
  | none => rw [h1 rfl, h]
  | some t => exact h2 (by simp)

theorem createAttributes_keeps_mk (env : Env) (inner : String) : (as : List Attribute) →
    Keeps (createAttributes env inner as)
  | [] => by rw [createAttributes]; exact Keeps.pure _
  | a :: as => by
    rw [createAttributes]
    refine Keeps.bind (createAttribute_keeps_mk env a inner) fun r => ?_
    refine Keeps.bind (createAttributes_keeps_mk env inner as) fun ⟨texts, names⟩ => ?_
    cases r <;> exact Keeps.pure _

theorem createClassAttributeString_keeps_mk (env : Env) (attrs : List Attribute) (inner : String) :
    Keeps (createClassAttributeString env attrs inner) := by
  unfold createClassAttributeString
  exact Keeps.bind (createAttributes_keeps_mk env inner attrs) fun ⟨_, _⟩ => Keeps.pure _

theorem createMethods_keeps_mk (env : Env) (inner : String) (isInt : Bool) (ad : List String) :
    (ms : List Function) → Keeps (createMethods env inner isInt ad ms)
  | [] => by rw [createMethods]; exact Keeps.pure _
  | m :: ms => by
    rw [createMethods]
    refine Keeps.ite (createMethods_keeps_mk env inner isInt ad ms) (Keeps.ite ?_ ?_)
    · refine Keeps.bind (Keeps.of_flushed (createPropertyFunctionString_flushed env m inner)) fun _ => ?_
      exact Keeps.bind (createMethods_keeps_mk env inner isInt ad ms) fun ⟨_, _, _⟩ => Keeps.pure _
    · refine Keeps.bind (createFunctionString_keeps_mk env m inner true false) fun _ => ?_
      exact Keeps.bind (createMethods_keeps_mk env inner isInt ad ms) fun ⟨_, _, _⟩ => Keeps.pure _

theorem createClassMethodString_keeps_mk (env : Env) (ms : List Function) (inner : String) (isInt : Bool)
    (ad : List String) : Keeps (createClassMethodString env ms inner isInt ad) := by
  unfold createClassMethodString
  exact Keeps.bind (createMethods_keeps_mk env inner isInt ad ms) fun ⟨_, _, _⟩ => Keeps.pure _

theorem innerClassesG_keeps_mk {render : Class → G String} (h : ∀ c, Keeps (render c)) :
    (cs : List Class) → Keeps (innerClassesG render cs)
  | [] => by rw [innerClassesG]; exact Keeps.pure _
  | c :: cs => by
    rw [innerClassesG]
    exact Keeps.bind (h c) fun _ => Keeps.bind (innerClassesG_keeps_mk h cs) fun _ => Keeps.pure _

theorem superclassesG_keeps_mk (env : Env) {inline : String → G String} (h : ∀ s, Keeps (inline s)) :
    (scs : List String) → Keeps (superclassesG env inline scs)
  | [] => by rw [superclassesG]; exact Keeps.pure _
  | sc :: scs => by
    rw [superclassesG]
    refine Keeps.ite ?_ ?_
    · exact Keeps.bind (addToImports_keeps_mk env sc) fun _ =>
        Keeps.bind (superclassesG_keeps_mk env h scs) fun ⟨_, _⟩ => Keeps.pure _
    · exact Keeps.bind (h sc) fun _ =>
        Keeps.bind (superclassesG_keeps_mk env h scs) fun ⟨_, _⟩ => Keeps.pure _

theorem internalSupersG_keeps_mk {inline : String → G String} (h : ∀ s, Keeps (inline s)) :
    (sss : List String) → Keeps (internalSupersG inline sss)
  | [] => by rw [internalSupersG]; exact Keeps.pure _
  | ss :: sss => by
    rw [internalSupersG]
    refine Keeps.bind (Keeps.ite (h _) (Keeps.pure _)) fun _ => ?_
    exact Keeps.bind (internalSupersG_keeps_mk h sss) fun _ => Keeps.pure _

/-! ### classes -/

/-- the part of `createClassString` after the early return (a copy of the model text; tied to the
    model by `createClassString_eq`, which is `rfl`) -/
def classBody (env : Env) (fuel : Nat) (c : Class) (indent : String) : G String := do
    logEmit "class" c.id
    let inner := indent ++ indentation
    let constructorInfo ← (if c.isAbstract then pure "" else do
      let p ← (match c.ctor with
        | some ctor => createParameterString env ctor.params indent true
        | none => pure "" : G String)
      pure ("(" ++ p ++ ")") : G String)
    let ctorTypeVars := match c.ctor with
      | some ctor => ctor.typeVars
      | none => []
    let outerGenerics := (← get).classGenerics
    modify fun s => { s with classGenerics := [] }
    let varianceInfo ← (if !c.typeParams.isEmpty || !ctorTypeVars.isEmpty then do
        let items ← typeParamStrings env c.typeParams
        let generics := ctorTypeVars.foldl (fun acc tv =>
          let n := escapeKeyword (convertName tv.name env.safe)
          if acc.contains n then acc else acc ++ [n]) items
        modify fun s => { s with classGenerics := generics }
        pure (if generics.isEmpty then "" else "<" ++ joinWith ", " generics ++ ">")
      else pure "" : G String)
    let camel := convertName c.name env.safe true
    let pythonNameInfo := if camel != c.name then indent ++ nameAnnotation c.name ++ "\n" else ""
    let classSignatureTodo ← createTodoMsg indent
    let (attrText, attrNames) ← createClassAttributeString env c.attributes inner
    let innerText ← innerClassesG (fun ic => createClassString env fuel ic inner true) (c.classes.filter (·.isPublic))
    let (methodText, methodNames) ← createClassMethodString env c.methods inner
    let alreadyDefined := unionSet (unionSet attrNames methodNames) ((c.classes.filter (·.isPublic)).map (·.name))
    let (superInfo, superMethodsText, nNames) ← (if !c.renderedSupers.isEmpty && !c.isAbstract then do
        let (names, text) ← superclassesG env
          (fun sc => createInternalClassString env fuel sc inner alreadyDefined) c.renderedSupers
        pure (if names.isEmpty then "" else " sub " ++ joinWith ", " names, text, names.length)
      else pure ("", "", 0) : G (String × String × Nat))
    if nNames > 1 then addTodo "multiple_inheritance"
    let classInheritanceTodo ← createTodoMsg indent
    modify fun s => { s with classGenerics := outerGenerics }
    let signature := pythonNameInfo ++ indent ++ classSignatureTodo ++ classInheritanceTodo ++ "class "
      ++ escapeKeyword camel ++ varianceInfo ++ constructorInfo ++ superInfo
    let classText := attrText ++ innerText ++ superMethodsText ++ methodText
    let ctorParams := match c.ctor with
      | some ctor => ctor.params
      | none => []
    let docstring := sdsDocstring env.safe c.doc.description indent ctorParams [] c.doc.examples
    logEmit "endclass" c.id
    if classText == "" then pure (docstring ++ signature)
    else pure (docstring ++ signature ++ " {" ++ classText ++ indent ++ "}")

theorem createClassString_eq (env : Env) (fuel : Nat) (c : Class) (indent : String) (inRe : Bool) :
    createClassString env (fuel + 1) c indent inRe =
      if !inRe then do
        let b ← hasNodeShorterReexport c.name c.reexportedBy (.cls c)
        if b then do
          logEmit "moved" c.id
          pure ""
        else classBody env fuel c indent
      else classBody env fuel c indent := by
  rw [createClassString]
  rfl

theorem classBody_flushed (env : Env) (fuel : Nat) (c : Class) (indent : String) (st : St) :
    wp (classBody env fuel c indent) (fun _ st' => st'.todos = []) st := by
  unfold classBody
  simp only [wp_bind, wp_logEmit]
  refine wp_conseq (wp_true _ _) ?_; intro ci s1 _
  refine wp_conseq (wp_true _ _) ?_; intro og s1a _
  refine wp_conseq (wp_true _ _) ?_; intro _ s1b _
  refine wp_conseq (wp_true _ _) ?_; intro vi s2 _
  refine wp_conseq (wp_true _ _) ?_; intro t1 s3 _
  refine wp_conseq (wp_true _ _) ?_; intro ⟨attrText, attrNames⟩ s4 _
  refine wp_conseq (wp_true _ _) ?_; intro innerText s5 _
  refine wp_conseq (wp_true _ _) ?_; intro ⟨methodText, methodNames⟩ s6 _
  refine wp_conseq (wp_true _ _) ?_; intro ⟨superInfo, superMethodsText, nNames⟩ s7 _
  simp only [wp_condTodo, wp_bind]
  refine wp_conseq (createTodoMsg_wp indent _) ?_; intro t2 s8 ⟨_, h8⟩
  simp only [wp_modify, wp_logEmit, wp_ite, wp_pure, h8]
  simp

theorem createClassString_flushed (env : Env) (fuel : Nat) (c : Class) (indent : String) (inRe : Bool) (st : St) :
    wp (createClassString env fuel c indent inRe)
      (fun text st' => st'.todos = [] ∨ (text = "" ∧ st'.todos = st.todos)) st := by
  cases fuel with
  | zero => rw [createClassString]; exact wp_throwG.2 trivial
  | succ fuel =>
    rw [createClassString_eq]
    simp only [wp_ite, wp_bind]
    refine ⟨fun _ => ?_, fun _ => ?_⟩
    · refine wp_conseq (hasNodeShorterReexport_wp _ _ _ st) ?_; intro b s1 ⟨_, rs, h2⟩
      refine ⟨fun _ => ?_, fun _ => ?_⟩
      · simp only [wp_logEmit, wp_pure]
        exact Or.inr ⟨trivial, by rw [h2]⟩
      · exact wp_conseq (classBody_flushed env fuel c indent s1) fun _ _ h => Or.inl h
    · exact wp_conseq (classBody_flushed env fuel c indent st) fun _ _ h => Or.inl h

theorem createClassString_keeps_mk (env : Env) (fuel : Nat) (c : Class) (indent : String) (inRe : Bool) :
    Keeps (createClassString env fuel c indent inRe) := by
  intro st h
  refine wp_conseq (createClassString_flushed env fuel c indent inRe st) ?_
  rintro _ s (h1 | ⟨_, h1⟩)
  · exact h1
  · rw [h1, h]

/-! ### modules -/

theorem createFunctions_keeps (env : Env) (inRe : Bool) : (fs : List Function) →
    Keeps (createFunctions env inRe fs)
  | [] => by rw [createFunctions]; exact Keeps.pure _
  | f :: fs => by
    rw [createFunctions]
    refine Keeps.bind (Keeps.ite (createFunctionString_keeps_mk env f "" false inRe) (Keeps.pure _)) fun _ => ?_
    exact Keeps.bind (createFunctions_keeps env inRe fs) fun _ => Keeps.pure _

theorem createClasses_keeps (env : Env) (inRe : Bool) : (cs : List Class) →
    Keeps (createClasses env inRe cs)
  | [] => by rw [createClasses]; exact Keeps.pure _
  | c :: cs => by
    rw [createClasses]
    refine Keeps.bind (Keeps.ite (createClassString_keeps_mk env _ c "" inRe) (Keeps.pure _)) fun _ => ?_
    exact Keeps.bind (createClasses_keeps env inRe cs) fun _ => Keeps.pure _

theorem createImportsString_keeps_mk (env : Env) : Keeps (createImportsString env) := by
  intro st h
  unfold createImportsString
  simp only [wp_bind, wp_get, wp_ite, wp_pure]
  exact ⟨fun _ => h, fun _ => h⟩

theorem createModuleString_keeps (env : Env) (m : Module) : Keeps (createModuleString env m) := by
  unfold createModuleString
  split
  refine Keeps.bind (createFunctions_keeps env _ _) fun _ => ?_
  refine Keeps.bind (createClasses_keeps env _ _) fun _ => ?_
  refine Keeps.bind ?_ fun _ => ?_
  · intro st h
    rw [wp_modify]; exact h
  · exact Keeps.bind (createImportsString_keeps_mk env) fun _ => Keeps.pure _

/-! ### which types render as the empty string -/

theorem insertBy_perm_mk {α : Type} (le : α → α → Bool) (a : α) (l : List α) : insertBy le a l ~ a :: l := by
  induction l with
  | nil => simp [insertBy]
  | cons b bs ih =>
    unfold insertBy
    split
    · exact Perm.refl _
    · exact (ih.cons b).trans (Perm.swap a b bs)

theorem sortBy_perm_mk {α : Type} (le : α → α → Bool) (l : List α) : sortBy le l ~ l := by
  induction l with
  | nil => simp [sortBy]
  | cons a as ih => exact (insertBy_perm_mk le a _).trans (ih.cons a)

theorem mem_foldl_insertSet_mk (l acc : List String) (x : String) :
    x ∈ l.foldl (fun acc a => insertSet a acc) acc ↔ x ∈ acc ∨ x ∈ l := by
  induction l generalizing acc with
  | nil => simp
  | cons a as ih => simp [ih, mem_insertSet_mk]; tauto

theorem nodup_foldl_insertSet_mk (l acc : List String) (h : acc.Nodup) :
    (l.foldl (fun acc a => insertSet a acc) acc).Nodup := by
  induction l generalizing acc with
  | nil => simpa
  | cons a as ih => exact ih _ (nodup_insertSet_mk a acc h)

theorem mem_sortDedupStrings (l : List String) (x : String) : x ∈ sortStrings (dedupStrings l) ↔ x ∈ l := by
  unfold sortStrings dedupStrings
  rw [(sortBy_perm_mk _ _).mem_iff, mem_foldl_insertSet_mk]
  simp

theorem nodup_sortDedupStrings (l : List String) : (sortStrings (dedupStrings l)).Nodup := by
  unfold sortStrings dedupStrings
  exact (sortBy_perm_mk _ _).nodup_iff.2 (nodup_foldl_insertSet_mk l [] List.nodup_nil)

theorem finishUnion_eq_empty (rs : List String) (b : Bool) : finishUnion rs b = "" ↔ ∀ r ∈ rs, r = "" := by
  have hm := mem_sortDedupStrings rs
  have hn := nodup_sortDedupStrings rs
  unfold finishUnion
  simp only []
  generalize sortStrings (dedupStrings rs) = types at hm hn
  match types with
  | [] =>
    simp only [true_iff]
    intro r hr
    exact absurd ((hm r).2 hr) (by simp)
  | [t] =>
    simp only
    constructor
    · intro ht r hr
      have := (hm r).2 hr
      simp at this
      rw [this, ht]
    · intro h
      exact h t ((hm t).1 (by simp))
  | [x, y] =>
    simp only
    constructor
    · intro h
      exfalso
      revert h
      split
      · split <;> simp
      · simp
    · intro h
      exfalso
      have hx := h x ((hm x).1 (by simp))
      have hy := h y ((hm y).1 (by simp))
      rw [hx, hy] at hn
      simp at hn
  | x :: y :: z :: rest =>
    simp only
    constructor
    · intro h
      exfalso
      revert h
      simp
    · intro h
      exfalso
      have hx := h x ((hm x).1 (by simp))
      have hy := h y ((hm y).1 (by simp))
      rw [hx, hy] at hn
      simp at hn

mutual
/-- the types the model renders as the empty string: unions all of whose members render empty
    (in particular the union without members), also under `Final`, and type variables whose
    converted name is empty.  `Spec.rendersEmpty` is the same without the type variables
    (`mk_rendersEmptyM_eq`). -/
def rendersEmptyM (safe : Bool) : AType → Bool
  | .union ts => rendersEmptyML safe ts
  | .final t => rendersEmptyM safe t
  | .typeVar n => convertName n safe == ""
  | .typeVarB n _ => convertName n safe == ""
  | _ => false
def rendersEmptyML (safe : Bool) : List AType → Bool
  | [] => true
  | t :: ts => rendersEmptyM safe t && rendersEmptyML safe ts
end

theorem rendersEmptyML_iff (safe : Bool) (ts : List AType) :
    rendersEmptyML safe ts = true ↔ ∀ t ∈ ts, rendersEmptyM safe t = true := by
  induction ts with
  | nil => simp [rendersEmptyML]
  | cons t ts ih => simp [rendersEmptyML, ih]

theorem rendersEmptyML_false_of_literal {safe : Bool} {ts : List AType}
    (h : (ts.filter isLiteral).length ≥ 1) : rendersEmptyML safe ts = false := by
  cases hb : rendersEmptyML safe ts with
  | false => rfl
  | true =>
    exfalso
    rw [rendersEmptyML_iff] at hb
    match hf : ts.filter isLiteral, h with
    | x :: _, _ =>
      have hx : x ∈ ts.filter isLiteral := by rw [hf]; simp
      rw [List.mem_filter] at hx
      have := hb x hx.1
      have hl := hx.2
      cases x <;> simp [isLiteral] at hl
      simp [rendersEmptyM] at this

theorem builtinName_ne_empty_mk {n b : String} (h : builtinName n = some b) : b ≠ "" := by
  simp only [builtinName, Generated.builtinTypeNames, assocGet?] at h
  repeat (split at h; · cases h; decide)
  cases h

theorem escapeKeyword_eq_empty (k : String) : escapeKeyword k = "" ↔ k = "" := by
  unfold escapeKeyword
  split
  · rename_i h
    constructor
    · intro h'; simp [Generated.keywordWrap] at h'
    · intro h'; subst h'; revert h; decide
  · rfl

mutual
theorem typeStr_empty (env : Env) : (t : AType) → ∀ st,
    wp (typeStr env t) (fun s _ => s = "" ↔ rendersEmptyM env.safe t = true) st
  | .named name qname, st => by
    rw [typeStr]
    split
    · rename_i b hb
      rw [wp_pure]; simp [rendersEmptyM, builtinName_ne_empty_mk hb]
    · rw [wp_bind]
      refine wp_conseq (wp_true _ _) ?_; intro _ s1 _
      split
      · exact wp_throwG.2 trivial
      · rename_i c tl hc
        have : name ≠ "" := by
          intro h; rw [h] at hc; simp at hc
        simp only [wp_bind, wp_get, wp_ite, wp_addTodo, wp_pure]
        simp [rendersEmptyM, escapeKeyword_eq_empty, this]
  | .final t, st => by
    rw [typeStr]
    exact wp_conseq (typeStr_empty env t st) fun _ _ h => by simpa [rendersEmptyM] using h
  | .callable params ret, st => by
    rw [typeStr, wp_bind]
    refine wp_conseq (wp_true _ _) ?_; intro ps s1 _
    split
    · rw [wp_bind]
      refine wp_conseq (wp_true _ _) ?_; intro rs s2 _
      rw [wp_pure]; simp [rendersEmptyM]
    · simp only [wp_ite, wp_bind, wp_pure]
      refine ⟨fun _ => by simp [rendersEmptyM], fun _ => ?_⟩
      refine wp_conseq (wp_true _ _) ?_; intro rs s2 _
      simp [rendersEmptyM]
  | .set ts, st => by
    rw [typeStr, wp_bind]
    refine wp_conseq (wp_true _ _) ?_; intro types s1 _
    simp only [wp_bind, wp_addTodo, wp_ite, wp_pure]
    simp [rendersEmptyM]
  | .list ts, st => by
    rw [typeStr, wp_bind]
    refine wp_conseq (wp_true _ _) ?_; intro types s1 _
    simp only [wp_bind, wp_addTodo, wp_ite, wp_pure]
    simp [rendersEmptyM]
  | .namedSeq name q ts, st => by
    rw [typeStr, wp_bind]
    refine wp_conseq (wp_true _ _) ?_; intro types s1 _
    rw [wp_bind]
    refine wp_conseq (wp_true _ _) ?_; intro _ s2 _
    simp only [wp_bind, wp_addTodo, wp_ite, wp_pure]
    simp [rendersEmptyM]
  | .unknown, st => by
    rw [typeStr]
    simp only [wp_bind, wp_addTodo, wp_pure]
    simp [rendersEmptyM]
  | .union ts, st => by
    rw [typeStr]
    simp only [wp_ite, wp_bind, wp_pure]
    refine ⟨fun hl => ⟨?_, ?_⟩, fun _ => ⟨?_, ?_⟩⟩
    · intro _
      simp [rendersEmptyM, rendersEmptyML_false_of_literal (safe := env.safe) (ts := ts) (by omega)]
    · intro _
      refine wp_conseq (wp_true _ _) ?_; intro rs s1 _
      rw [finishUnion_eq_empty]
      simp [rendersEmptyM, rendersEmptyML_false_of_literal (safe := env.safe) (ts := ts) (by omega)]
    · intro h
      simp only [Bool.and_eq_true, beq_iff_eq] at h
      simp [rendersEmptyM, rendersEmptyML_false_of_literal (safe := env.safe) (ts := ts) (by omega)]
    · intro _
      refine wp_conseq (typeStrs_empty env ts st) ?_; intro rs s1 h1
      rw [finishUnion_eq_empty, h1]
      simp [rendersEmptyM]
  | .tuple ts, st => by
    rw [typeStr]
    simp only [wp_bind, wp_addTodo]
    refine wp_conseq (wp_true _ _) ?_; intro types s1 _
    rw [wp_pure]; simp [rendersEmptyM]
  | .dict k v, st => by
    rw [typeStr, wp_bind]
    refine wp_conseq (wp_true _ _) ?_; intro ks s1 _
    rw [wp_bind]
    refine wp_conseq (wp_true _ _) ?_; intro vs s2 _
    rw [wp_pure]; simp [rendersEmptyM]
  | .literal ls, st => by
    rw [typeStr, wp_pure]; simp [rendersEmptyM]
  | .typeVar name, st => by
    rw [typeStr, wp_pure]; simp [rendersEmptyM, escapeKeyword_eq_empty]
  | .typeVarB name _, st => by
    rw [typeStr, wp_pure]; simp [rendersEmptyM, escapeKeyword_eq_empty]
  | .enum _, st => by
    rw [typeStr]; exact wp_throwG.2 trivial
  | .boundary .., st => by
    rw [typeStr]; exact wp_throwG.2 trivial
theorem typeStrs_empty (env : Env) : (ts : List AType) → ∀ st,
    wp (typeStrs env ts) (fun l _ => (∀ r ∈ l, r = "") ↔ rendersEmptyML env.safe ts = true) st
  | [], st => by
    rw [typeStrs, wp_pure]; simp [rendersEmptyML]
  | t :: ts, st => by
    rw [typeStrs, wp_bind]
    refine wp_conseq (typeStr_empty env t st) ?_; intro a s1 h1
    rw [wp_bind]
    refine wp_conseq (typeStrs_empty env ts s1) ?_; intro as s2 h2
    rw [wp_pure]
    simp [rendersEmptyML, h1, h2]
end

/-! ### results and type variables -/

theorem wp_and {α : Type} {x : G α} {Q R : α → St → Prop} {st : St} (h1 : wp x Q st) (h2 : wp x R st) :
    wp x (fun a s => Q a s ∧ R a s) st :=
  fun a s h => ⟨h1 a s h, h2 a s h⟩

/-- markers of the result types that are rendered: those of every typed result -/
def resultTypeKeys (rs : List Result) : List String :=
  rs.flatMap (fun r => match r.type with | some t => Spec.typeKeys t | none => [])

/-- all results are untyped or render as the empty string (in the model) -/
def resultsAllEmptyM (safe : Bool) (rs : List Result) : Bool :=
  rs.all (fun r => match r.type with | none => true | some t => rendersEmptyM safe t)

/-- `Spec.resultKeys` with the model's notion of an empty rendering (`rendersEmptyM`) in place of
    `Spec.rendersEmpty` -/
def resultKeysM (safe : Bool) (rs : List Result) : List String :=
  if Spec.onlyNoneResult rs then []
  else resultTypeKeys rs ++ (if resultsAllEmptyM safe rs then ["result without type"] else [])

def resultsInternal (rs : List Result) : Bool :=
  rs.any (fun r => match r.type with | some t => Spec.mentionsInternal t | none => false)

theorem isNoneResult_eq {r : Result} {t : AType} (h : r.type = some t) : Spec.isNoneResult r = isNoneNamed t := by
  unfold Spec.isNoneResult
  rw [h]
  cases t <;> rfl

/-- the part of `createResultString` after the test for a lone `None` result (a copy of the model
    text; tied to the model by `mk_createResultString_eq`) -/
def mk_resultStringBody (env : Env) (results : List Result) : G String := do
  match ← createResults env results with
  | [] => do addTodo "result without type"; pure ""
  | [r] => pure (" -> " ++ r)
  | rs => pure (" -> (" ++ joinWith ", " rs ++ ")")

theorem mk_createResultString_eq (env : Env) (rs : List Result) :
    createResultString env rs =
      if Spec.onlyNoneResult rs then pure "" else mk_resultStringBody env rs := by
  match rs with
  | [] => rfl
  | [r] =>
    obtain ⟨id, name, ty⟩ := r
    cases ty with
    | none => rfl
    | some t => cases t <;> rfl
  | _ :: _ :: _ => rfl

theorem createResults_grows (env : Env) : (rs : List Result) → ∀ st,
    wp (createResults env rs) (fun l st' =>
      Grows (resultTypeKeys rs) (resultsInternal rs) st st' ∧
      (l = [] ↔ resultsAllEmptyM env.safe rs = true)) st
  | [], st => by
    rw [createResults, wp_pure]
    exact ⟨(Grows.refl st).mono (by simp [resultTypeKeys]) (by simp), by simp [resultsAllEmptyM]⟩
  | r :: rs, st => by
    rw [createResults]
    split
    · rename_i hty
      refine wp_conseq (createResults_grows env rs st) ?_; intro res s1 ⟨h1, h2⟩
      refine ⟨h1.mono ?_ ?_, ?_⟩
      · simp [resultTypeKeys, hty]
      · simp [resultsInternal]; tauto
      · simp [h2, resultsAllEmptyM, hty]
    · rename_i t hty
      rw [wp_bind]
      refine wp_conseq (wp_and (typeStr_grows env t st) (typeStr_empty env t st)) ?_
      intro ts s1 ⟨g1, e1⟩
      rw [wp_bind]
      refine wp_conseq (createResults_grows env rs s1) ?_; intro rest s2 ⟨g2, a2⟩
      rw [wp_pure]
      refine ⟨(g1.trans g2).mono ?_ ?_, ?_⟩
      · simp [resultTypeKeys, hty]
      · simp [resultsInternal, hty]
      · by_cases hts : ts = ""
        · have : rendersEmptyM env.safe t = true := e1.1 hts
          simp [hts, resultsAllEmptyM, hty, this, a2]
        · have : rendersEmptyM env.safe t = false := by
            cases hb : rendersEmptyM env.safe t with
            | false => rfl
            | true => exact absurd (e1.2 hb) hts
          simp [hts, resultsAllEmptyM, hty, this]

theorem createResultString_grows (env : Env) (rs : List Result) (st : St) :
    wp (createResultString env rs)
      (fun _ st' => Grows (resultKeysM env.safe rs) (resultsInternal rs) st st') st := by
  rw [mk_createResultString_eq, wp_ite]
  refine ⟨fun hn => ?_, fun hn => ?_⟩
  · rw [wp_pure]
    exact (Grows.refl st).mono (by simp [resultKeysM, hn]) (by simp)
  · have hn' : Spec.onlyNoneResult rs = false := by simpa using hn
    unfold mk_resultStringBody
    rw [wp_bind]
    refine wp_conseq (createResults_grows env rs st) ?_; intro res s1 ⟨g, ha⟩
    split
    · simp only [wp_bind, wp_addTodo, wp_pure]
      have h2 : resultsAllEmptyM env.safe rs = true := ha.1 rfl
      exact (g.trans (Grows.addTodo (by decide) s1)).mono (by simp [resultKeysM, hn', h2]) (by simp)
    · rename_i r0
      rw [wp_pure]
      have h2 : resultsAllEmptyM env.safe rs = false := by
        cases hb : resultsAllEmptyM env.safe rs with
        | false => rfl
        | true => have := ha.2 hb; simp at this
      exact g.mono (by simp [resultKeysM, hn', h2]) (by simp)
    · rename_i l hne1 hne2
      rw [wp_pure]
      have h2 : resultsAllEmptyM env.safe rs = false := by
        cases hb : resultsAllEmptyM env.safe rs with
        | false => rfl
        | true => exact absurd (ha.2 hb) hne1
      exact g.mono (by simp [resultKeysM, hn', h2]) (by simp)

/-- markers of the bound of a type variable -/
def boundKeys (tv : TypeVar) : List String :=
  match tv.upperBound with
  | some t => Spec.typeKeys t
  | none => []

/-- is the bound of this type variable shown in a signature: always for a module-level function, for
    a method only if it is not one of the class generics `cg` -/
def tvShown (env : Env) (isMethod : Bool) (cg : List String) (tv : TypeVar) : Bool :=
  !isMethod || !cg.contains (escapeKeyword (convertName tv.name env.safe))

/-- the type variables whose bound a function signature shows -/
def shownTypeVars (env : Env) (isMethod : Bool) (cg : List String) (tvs : List TypeVar) : List TypeVar :=
  tvs.filter (tvShown env isMethod cg)

def typeVarsInternal (tvs : List TypeVar) : Bool :=
  tvs.any (fun tv => match tv.upperBound with | some t => Spec.mentionsInternal t | none => false)

theorem typeVarStrings_grows (env : Env) (isMethod : Bool) (cg : List String) : (tvs : List TypeVar) → ∀ st,
    st.classGenerics = cg →
    wp (typeVarStrings env isMethod tvs) (fun _ st' =>
      Grows ((shownTypeVars env isMethod cg tvs).flatMap boundKeys) (typeVarsInternal tvs) st st') st
  | [], st, _ => by
    rw [typeVarStrings, wp_pure]
    exact (Grows.refl st).mono (by simp [shownTypeVars]) (by simp)
  | tv :: tvs, st, hcg => by
    rw [typeVarStrings]
    simp only [wp_bind, wp_get]
    refine wp_conseq (Q := fun _ s1 => Grows
      (if tvShown env isMethod cg tv = true then boundKeys tv else [])
      (match tv.upperBound with | some t => Spec.mentionsInternal t | none => false) st s1) ?_ ?_
    · rw [wp_ite, hcg]
      rw [show (!isMethod || !cg.contains (escapeKeyword (convertName tv.name env.safe)))
        = tvShown env isMethod cg tv from rfl]
      refine ⟨fun hc => ?_, fun hc => ?_⟩
      · split
        · rename_i u hu
          rw [wp_bind]
          refine wp_conseq (typeStr_grows env u st) ?_; intro _ s1 h1
          rw [wp_pure]
          exact h1.mono (by simp [hc, boundKeys, hu]) (by rw [hu]; exact id)
        · rename_i hu
          rw [wp_pure]
          exact (Grows.refl st).mono (by simp [hc, boundKeys, hu]) (by simp)
      · rw [wp_pure]
        exact (Grows.refl st).mono (by simp [hc]) (by simp)
    · intro here s1 h1
      refine wp_conseq (typeVarStrings_grows env isMethod cg tvs s1 (h1.classGenerics.trans hcg)) ?_
      intro rest s2 h2
      rw [wp_pure]
      refine (h1.trans h2).mono ?_ ?_
      · intro k
        by_cases hc : tvShown env isMethod cg tv = true
        · simp [shownTypeVars, hc]
        · simp [shownTypeVars, hc]
      · simp [typeVarsInternal]

/-! ### marker iff feature: functions -/

/-- `Spec.functionKeys` with `resultKeysM` (the model's notion of an empty rendering) in place of
    `Spec.resultKeys` -/
def functionKeysM (safe : Bool) (f : Function) (isMethod : Bool) (shown : List TypeVar) : List String :=
  (if f.isClassMethod then ["class_method"] else [])
  ++ Spec.paramsKeys (if !f.isStatic && isMethod then f.params.drop 1 else f.params)
  ++ shown.flatMap boundKeys
  ++ resultKeysM safe f.results

/-- may the state-dependent marker appear on the function -/
def functionInternal (f : Function) : Bool :=
  f.params.any paramInternal || typeVarsInternal f.typeVars || resultsInternal f.results

/-- the text of a function declaration after its marker block -/
def functionRest (env : Env) (f : Function) (indent : String) (funcParams : String) (tvs : List String)
    (resultString : String) : String :=
  let docstring := sdsDocstring env.safe f.doc.description indent f.params f.resultDocs f.doc.examples
  let ann := if convertName f.name env.safe != f.name then indent ++ nameAnnotation f.name ++ "\n" else ""
  let static := if f.isClassMethod || f.isStatic then "static " else ""
  let name := escapeKeyword (convertName f.name env.safe)
  let typeVarInfo := if tvs.isEmpty then "" else "<" ++ joinWith ", " tvs ++ ">"
  docstring ++ (indent ++ ("@Pure\n" ++ (ann ++ (indent ++ (static ++ ("fun " ++ (name ++ (typeVarInfo ++
    ("(" ++ (funcParams ++ (")" ++ resultString)))))))))))

theorem any_of_any_drop {α : Type} (p : α → Bool) (l : List α) (n : Nat) (h : (l.drop n).any p = true) :
    l.any p = true := by
  rw [List.any_eq_true] at h ⊢
  obtain ⟨x, hx, hp⟩ := h
  exact ⟨x, List.mem_of_mem_drop hx, hp⟩

theorem functionBody_markers (env : Env) (f : Function) (indent : String) (isMethod : Bool) (st : St)
    (h0 : st.todos = []) (hps : ∀ p ∈ f.params, Spec.optionalIsTyped p = true) :
    wp (functionBody env f indent isMethod) (fun text st' =>
      st' = { st with log := st.log ++ [("fun", f.id)], todos := [], imports := st'.imports,
                      outside := st'.outside } ∧
      ∃ keys funcParams tvs resultString, keys.Nodup ∧
        (∀ k, k ≠ "internal class as type" →
          (k ∈ keys ↔ k ∈ functionKeysM env.safe f isMethod
            (shownTypeVars env isMethod st.classGenerics f.typeVars))) ∧
        ("internal class as type" ∈ keys → functionInternal f = true) ∧
        (∀ k ∈ keys, (assocGet? Generated.todoMessages k).isSome) ∧
        text = renderTodos indent keys ++ functionRest env f indent funcParams tvs resultString) st := by
  unfold functionBody
  simp only [wp_bind, wp_logEmit, wp_condTodo]
  have g0 := Grows.condTodo (k := "class_method") (by decide) (f.isClassMethod = true)
    { st with log := st.log ++ [("fun", f.id)] }
  generalize (if f.isClassMethod = true then
      { ({ st with log := st.log ++ [("fun", f.id)] } : St) with
        todos := insertSet "class_method" ({ st with log := st.log ++ [("fun", f.id)] } : St).todos }
    else { st with log := st.log ++ [("fun", f.id)] }) = s0 at g0 ⊢
  refine wp_conseq (createParameterString_grows env f.params indent _ hps s0) ?_; intro fp s1 g1
  refine wp_conseq (typeVarStrings_grows env isMethod st.classGenerics f.typeVars s1
    (g1.classGenerics.trans g0.classGenerics)) ?_; intro tvs s2 g2
  refine wp_conseq (createResultString_grows env f.results s2) ?_; intro rstr s3 g3 todo s4 hrun
  have hok := (createTodoMsg_ok indent s3 (todo, s4)).1 hrun
  obtain ⟨hmsgs, heq⟩ := hok
  cases heq
  rw [wp_pure]
  have g := ((g0.trans g1).trans g2).trans g3
  refine ⟨?_, s3.todos, fp, tvs, rstr, ?_, ?_, ?_, hmsgs, ?_⟩
  · simp only [g.reexports, g.classGenerics, g.moduleId, g.reexportModuleId, g.creatingReexport, g.log]
  · exact g.nodup (by simp [h0])
  · intro k hk
    rw [g.mem k hk]
    simp [h0, functionKeysM, shownParams]
  · intro hi
    rcases g.internal hi with h | h
    · simp [h0] at h
    · simp only [Bool.or_eq_true, Bool.false_or] at h
      unfold functionInternal
      simp only [Bool.or_eq_true]
      rcases h with (h | h) | h
      · left; left
        unfold shownParams at h
        split at h
        · exact any_of_any_drop _ _ _ h
        · exact h
      · left; right; exact h
      · right; exact h
  · simp only [functionRest, String.append_assoc]

/-! ### the text after the marker block does not look like a marker -/

theorem isPrefixOfL_append_left (a p x : List Char) :
    isPrefixOfL (a ++ p) (a ++ x) = isPrefixOfL p x := by
  induction a with
  | nil => rfl
  | cons c cs ih => simp [isPrefixOfL, ih]

/-- a string that continues, after the indentation, with a character other than `/`, or with `/*`,
    does not start with the marker prefix -/
theorem not_marker (indent s : String) (x : List Char) (hs : s.toList = indent.toList ++ x)
    (hx : isPrefixOfL "// TODO".toList x = false) : pyStartsWith s (indent ++ "// TODO") = false := by
  unfold pyStartsWith
  rw [String.toList_append, hs, isPrefixOfL_append_left]
  exact hx

theorem sdsDocstring_shape (safe : Bool) (d indent : String) (ps : List Parameter) (rds : List ResultDoc)
    (exs : List String) :
    sdsDocstring safe d indent ps rds exs = "" ∨
      ∃ r, sdsDocstring safe d indent ps rds exs = indent ++ ("/**\n" ++ r) := by
  unfold sdsDocstring
  extract_lets _ _ _ _ _ _ _ _ _ full
  split
  · right
    exact ⟨full ++ (indent ++ " */\n"), by simp only [String.append_assoc]⟩
  · left; rfl

theorem functionRest_not_marker (env : Env) (f : Function) (indent fp : String) (tvs : List String) (rs : String) :
    pyStartsWith (functionRest env f indent fp tvs rs) (indent ++ "// TODO") = false := by
  unfold functionRest
  simp only []
  rcases sdsDocstring_shape env.safe f.doc.description indent f.params f.resultDocs f.doc.examples with h | ⟨r, h⟩
  · rw [h]
    refine not_marker indent _ _ (by simp only [String.toList_append, String.empty_append]; rfl) ?_
    simp [isPrefixOfL]
  · rw [h]
    refine not_marker indent _ _ (by simp only [String.toList_append, List.append_assoc]; rfl) ?_
    simp [isPrefixOfL]

/-! ### marker iff feature: attributes -/

/-- `Spec.attributeKeys` with the model's notion of an empty rendering -/
def attributeKeysM (safe : Bool) (a : Attribute) : List String :=
  match a.type with
  | none => ["attr without type"]
  | some t => (if rendersEmptyM safe t then ["attr without type"] else []) ++ Spec.typeKeys t

def attributeInternal (a : Attribute) : Bool :=
  match a.type with
  | some t => Spec.mentionsInternal t
  | none => false

/-- the text of an attribute declaration after its marker block -/
def attributeRest (env : Env) (a : Attribute) (inner : String) (attrType : String) : String :=
  let docstring := sdsDocstring env.safe a.doc.description inner [] [] []
  let ann := if convertName a.name env.safe != a.name then nameAnnotation a.name ++ "\n" ++ inner else ""
  let static := if a.isStatic then "static " else ""
  let typeString := if attrType != "" then ": " ++ attrType else ""
  docstring ++ (inner ++ (ann ++ (static ++ ("attr " ++ (escapeKeyword (convertName a.name env.safe) ++ typeString)))))

theorem typeStrOpt_grows (env : Env) (a : Attribute) (st : St) :
    wp (typeStrOpt env a.type) (fun s st' =>
      Grows (match a.type with | some t => Spec.typeKeys t | none => []) (attributeInternal a) st st' ∧
      (s = "" ↔ match a.type with | some t => rendersEmptyM env.safe t = true | none => True)) st := by
  unfold attributeInternal
  cases a.type with
  | none =>
    rw [typeStrOpt, wp_pure]
    exact ⟨Grows.refl st, by simp⟩
  | some t =>
    rw [typeStrOpt]
    exact wp_and (typeStr_grows env t st) (typeStr_empty env t st)

theorem createAttribute_markers (env : Env) (a : Attribute) (inner : String) (st : St) (h0 : st.todos = []) :
    wp (createAttribute env a inner) (fun r st' => ∀ text, r = some text →
      st' = { st with log := st.log ++ [("attr", a.id)], todos := [], imports := st'.imports,
                      outside := st'.outside } ∧
      ∃ keys attrType, keys.Nodup ∧
        (∀ k, k ≠ "internal class as type" → (k ∈ keys ↔ k ∈ attributeKeysM env.safe a)) ∧
        ("internal class as type" ∈ keys → attributeInternal a = true) ∧
        (∀ k ∈ keys, (assocGet? Generated.todoMessages k).isSome) ∧
        text = renderTodos inner keys ++ attributeRest env a inner attrType) st := by
  unfold createAttribute
  rw [wp_ite]
  refine ⟨fun _ => by rw [wp_pure]; simp, fun _ => ?_⟩
  rw [wp_ite]
  refine ⟨fun _ => by rw [wp_pure]; simp, fun _ => ?_⟩
  simp only [wp_bind, wp_logEmit]
  refine wp_conseq (typeStrOpt_grows env a _) ?_; intro attrType s1 ⟨g1, e1⟩
  simp only [wp_condTodo, wp_bind]
  have g2 := Grows.condTodo (k := "attr without type") (by decide)
    (((if (attrType != "") = true then ": " ++ attrType else "") == "") = true) s1
  generalize (if ((if (attrType != "") = true then ": " ++ attrType else "") == "") = true then
      { s1 with todos := insertSet "attr without type" s1.todos } else s1) = s2 at g2 ⊢
  intro todo s3 hrun
  obtain ⟨hmsgs, heq⟩ := (createTodoMsg_ok inner s2 (todo, s3)).1 hrun
  cases heq
  rw [wp_pure]
  intro text htext
  cases htext
  have g := g1.trans g2
  refine ⟨?_, s2.todos, attrType, ?_, ?_, ?_, hmsgs, ?_⟩
  · simp only [g.reexports, g.classGenerics, g.moduleId, g.reexportModuleId, g.creatingReexport, g.log]
  · exact g.nodup (by simp [h0])
  · intro k hk
    rw [g.mem k hk]
    have hcond : (((if (attrType != "") = true then ": " ++ attrType else "") == "") = true) ↔ attrType = "" := by
      by_cases h : attrType = "" <;> simp [h]
    unfold attributeKeysM
    cases hty : a.type with
    | none =>
      rw [hty] at e1
      simp [h0, e1.2 trivial]
    | some t =>
      rw [hty] at e1
      simp only [hcond, e1]
      simp [h0, or_comm]
  · intro hi
    rcases g.internal hi with h | h
    · simp [h0] at h
    · simpa using h
  · simp only [attributeRest, String.append_assoc]

theorem attributeRest_not_marker (env : Env) (a : Attribute) (inner attrType : String) :
    pyStartsWith (attributeRest env a inner attrType) (inner ++ "// TODO") = false := by
  unfold attributeRest
  simp only []
  have key : ∀ r : String, ∃ x, ((if convertName a.name env.safe != a.name then nameAnnotation a.name ++ "\n" ++ inner else "")
      ++ ((if a.isStatic then "static " else "") ++ ("attr " ++ r))).toList = x ∧
      isPrefixOfL "// TODO".toList x = false := by
    intro r
    refine ⟨_, rfl, ?_⟩
    split <;> split <;>
      simp [isPrefixOfL, nameAnnotation, Generated.nameAnnotation, String.toList_append]
  obtain ⟨x, hx1, hx2⟩ := key (escapeKeyword (convertName a.name env.safe) ++ if attrType != "" then ": " ++ attrType else "")
  rcases sdsDocstring_shape env.safe a.doc.description inner [] [] [] with h | ⟨r, h⟩
  · rw [h]
    refine not_marker inner _ x (by simp only [String.toList_append, String.empty_append] at hx1 ⊢; rw [hx1]) hx2
  · rw [h]
    refine not_marker inner _ _ (by simp only [String.toList_append, List.append_assoc]; rfl) ?_
    simp [isPrefixOfL]

/-! ### relation to the specification's key sets -/

mutual
theorem rendersEmptyM_of_rendersEmpty (safe : Bool) : (t : AType) → Spec.rendersEmpty t = true →
    rendersEmptyM safe t = true
  | .union ts, h => by
    rw [Spec.rendersEmpty] at h
    rw [rendersEmptyM]
    exact mk_rendersEmptyML_of_allRenderEmpty safe ts h
  | .final t, h => by
    rw [rendersEmptyM]
    exact rendersEmptyM_of_rendersEmpty safe t (by simpa [Spec.rendersEmpty] using h)
  | .unknown, h | .named .., h | .namedSeq .., h | .enum _, h | .boundary .., h | .list _, h
  | .dict .., h | .callable .., h | .set _, h | .literal _, h | .tuple _, h | .typeVar _, h
  | .typeVarB .., h => by simp [Spec.rendersEmpty] at h
theorem mk_rendersEmptyML_of_allRenderEmpty (safe : Bool) : (ts : List AType) →
    Spec.allRenderEmpty ts = true → rendersEmptyML safe ts = true
  | [], _ => by rw [rendersEmptyML]
  | t :: ts, h => by
    rw [Spec.allRenderEmpty] at h
    simp only [Bool.and_eq_true] at h
    rw [rendersEmptyML, rendersEmptyM_of_rendersEmpty safe t h.1,
      mk_rendersEmptyML_of_allRenderEmpty safe ts h.2]
    rfl
end

mutual
/-- no type variable whose converted name is empty sits at a position from which an empty rendering
    reaches the whole type, i.e. under unions and `Final`s only (every other constructor renders
    non-empty whatever its arguments).  In particular true of every type in which no type variable
    with an empty converted name occurs, and of every type without type variables. -/
def mk_tvNonempty (safe : Bool) : AType → Bool
  | .typeVar n => convertName n safe != ""
  | .typeVarB n _ => convertName n safe != ""
  | .union ts => mk_tvNonemptyL safe ts
  | .final t => mk_tvNonempty safe t
  | _ => true
def mk_tvNonemptyL (safe : Bool) : List AType → Bool
  | [] => true
  | t :: ts => mk_tvNonempty safe t && mk_tvNonemptyL safe ts
end

mutual
/-- the model's and the specification's notion of "renders empty" agree except for type variables
    whose converted name is empty -/
theorem mk_rendersEmptyM_eq (safe : Bool) : (t : AType) → mk_tvNonempty safe t = true →
    rendersEmptyM safe t = Spec.rendersEmpty t
  | .union ts, h => by
    rw [mk_tvNonempty] at h
    rw [rendersEmptyM, Spec.rendersEmpty]
    exact mk_rendersEmptyML_eq safe ts h
  | .final t, h => by
    rw [mk_tvNonempty] at h
    rw [rendersEmptyM, Spec.rendersEmpty]
    exact mk_rendersEmptyM_eq safe t h
  | .typeVar n, h => by
    rw [mk_tvNonempty] at h
    simpa [rendersEmptyM, Spec.rendersEmpty] using h
  | .typeVarB n _, h => by
    rw [mk_tvNonempty] at h
    simpa [rendersEmptyM, Spec.rendersEmpty] using h
  | .unknown, _ | .named .., _ | .namedSeq .., _ | .enum _, _ | .boundary .., _ | .list _, _
  | .dict .., _ | .callable .., _ | .set _, _ | .literal _, _ | .tuple _, _ => by
    simp [rendersEmptyM, Spec.rendersEmpty]
theorem mk_rendersEmptyML_eq (safe : Bool) : (ts : List AType) → mk_tvNonemptyL safe ts = true →
    rendersEmptyML safe ts = Spec.allRenderEmpty ts
  | [], _ => by rw [rendersEmptyML, Spec.allRenderEmpty]
  | t :: ts, h => by
    rw [mk_tvNonemptyL] at h
    simp only [Bool.and_eq_true] at h
    rw [rendersEmptyML, Spec.allRenderEmpty, mk_rendersEmptyM_eq safe t h.1, mk_rendersEmptyML_eq safe ts h.2]
end

mutual
/-- does a type variable occur in the type -/
def mk_hasTypeVar : AType → Bool
  | .typeVar _ => true
  | .typeVarB .. => true
  | .namedSeq _ _ ts => mk_hasTypeVarL ts
  | .union ts => mk_hasTypeVarL ts
  | .list ts => mk_hasTypeVarL ts
  | .set ts => mk_hasTypeVarL ts
  | .tuple ts => mk_hasTypeVarL ts
  | .dict k v => mk_hasTypeVar k || mk_hasTypeVar v
  | .callable ps r => mk_hasTypeVarL ps || mk_hasTypeVar r
  | .final t => mk_hasTypeVar t
  | _ => false
def mk_hasTypeVarL : List AType → Bool
  | [] => false
  | t :: ts => mk_hasTypeVar t || mk_hasTypeVarL ts
end

mutual
theorem mk_tvNonempty_of_noTypeVar (safe : Bool) : (t : AType) → mk_hasTypeVar t = false →
    mk_tvNonempty safe t = true
  | .union ts, h => by
    rw [mk_hasTypeVar] at h
    rw [mk_tvNonempty]
    exact mk_tvNonemptyL_of_noTypeVar safe ts h
  | .final t, h => by
    rw [mk_hasTypeVar] at h
    rw [mk_tvNonempty]
    exact mk_tvNonempty_of_noTypeVar safe t h
  | .typeVar n, h | .typeVarB n _, h => by simp [mk_hasTypeVar] at h
  | .unknown, _ | .named .., _ | .namedSeq .., _ | .enum _, _ | .boundary .., _ | .list _, _
  | .dict .., _ | .callable .., _ | .set _, _ | .literal _, _ | .tuple _, _ => by
    simp [mk_tvNonempty]
theorem mk_tvNonemptyL_of_noTypeVar (safe : Bool) : (ts : List AType) → mk_hasTypeVarL ts = false →
    mk_tvNonemptyL safe ts = true
  | [], _ => by rw [mk_tvNonemptyL]
  | t :: ts, h => by
    rw [mk_hasTypeVarL] at h
    simp only [Bool.or_eq_false_iff] at h
    rw [mk_tvNonemptyL, mk_tvNonempty_of_noTypeVar safe t h.1, mk_tvNonemptyL_of_noTypeVar safe ts h.2]
    rfl
end

/-- `rendersEmptyM = Spec.rendersEmpty` on types without type variables -/
theorem mk_rendersEmptyM_eq_of_noTypeVar (safe : Bool) (t : AType) (h : mk_hasTypeVar t = false) :
    rendersEmptyM safe t = Spec.rendersEmpty t :=
  mk_rendersEmptyM_eq safe t (mk_tvNonempty_of_noTypeVar safe t h)

/-- the result types on which the specification's and the model's notion of "renders empty" agree -/
def PlainResults (safe : Bool) (rs : List Result) : Prop :=
  ∀ r ∈ rs, ∀ t, r.type = some t → rendersEmptyM safe t = Spec.rendersEmpty t

theorem mk_plainResults_of_tvNonempty {safe : Bool} {rs : List Result}
    (h : ∀ r ∈ rs, ∀ t, r.type = some t → mk_tvNonempty safe t = true) : PlainResults safe rs :=
  fun r hr t ht => mk_rendersEmptyM_eq safe t (h r hr t ht)

theorem resultKeysM_eq {safe : Bool} {rs : List Result} (h : PlainResults safe rs) :
    resultKeysM safe rs = Spec.resultKeys rs := by
  unfold resultKeysM Spec.resultKeys resultTypeKeys
  cases hn : Spec.onlyNoneResult rs with
  | true => rfl
  | false =>
    have : resultsAllEmptyM safe rs = (Spec.shownResults rs).isEmpty := by
      unfold resultsAllEmptyM Spec.shownResults
      rw [hn]
      simp only [Bool.false_eq_true, if_false]
      rw [Bool.eq_iff_iff, List.all_eq_true, List.isEmpty_iff, List.filter_eq_nil_iff]
      refine forall_congr' fun r => forall_congr' fun hr => ?_
      cases hty : r.type with
      | none => simp
      | some t => simp [h r hr t hty]
    rw [this]
    rfl

theorem functionKeysM_eq {safe : Bool} {f : Function} (isMethod : Bool) (shown : List TypeVar)
    (h : PlainResults safe f.results) :
    functionKeysM safe f isMethod shown = Spec.functionKeys f isMethod shown := by
  unfold functionKeysM Spec.functionKeys
  rw [resultKeysM_eq h]
  rfl

theorem attributeKeysM_eq {safe : Bool} {a : Attribute}
    (h : ∀ t, a.type = some t → rendersEmptyM safe t = Spec.rendersEmpty t) :
    attributeKeysM safe a = Spec.attributeKeys a := by
  unfold attributeKeysM Spec.attributeKeys
  cases hty : a.type with
  | none => rfl
  | some t => simp only [h t hty]

theorem hasNodeShorterReexport_nil (n : String) (node : Node) (st : St) :
    hasNodeShorterReexport n [] node st = .ok (false, st) := rfl

/-- the function is rendered in place (not queued for a re-exporting package) -/
def NotMoved (f : Function) (isMethod inRe : Bool) : Prop :=
  isMethod = true ∨ inRe = true ∨ f.reexportedBy = []

theorem createFunctionString_markers (env : Env) (f : Function) (indent : String) (isMethod inRe : Bool)
    (st : St) (h0 : st.todos = []) (hnm : NotMoved f isMethod inRe)
    (hps : ∀ p ∈ f.params, Spec.optionalIsTyped p = true) :
    wp (createFunctionString env f indent isMethod inRe) (fun text st' =>
      st' = { st with log := st.log ++ [("fun", f.id)], todos := [], imports := st'.imports,
                      outside := st'.outside } ∧
      ∃ keys funcParams tvs resultString, keys.Nodup ∧
        (∀ k, k ≠ "internal class as type" →
          (k ∈ keys ↔ k ∈ functionKeysM env.safe f isMethod
            (shownTypeVars env isMethod st.classGenerics f.typeVars))) ∧
        ("internal class as type" ∈ keys → functionInternal f = true) ∧
        (∀ k ∈ keys, (assocGet? Generated.todoMessages k).isSome) ∧
        text = renderTodos indent keys ++ functionRest env f indent funcParams tvs resultString) st := by
  rw [createFunctionString_eq]
  rw [wp_ite]
  refine ⟨fun hc => ?_, fun _ => functionBody_markers env f indent isMethod st h0 hps⟩
  have hre : f.reexportedBy = [] := by
    rcases hnm with h | h | h
    · simp [h] at hc
    · simp [h] at hc
    · exact h
  rw [wp_bind, hre]
  intro b s1 hb
  rw [hasNodeShorterReexport_nil] at hb
  cases hb
  simp only [Bool.false_eq_true, if_false]
  exact functionBody_markers env f indent isMethod st h0 hps

/-! ### classes: the two marker blocks of a class signature -/

def typeParamKeys (tp : TypeParam) : List String :=
  match tp.type with
  | some t => Spec.typeKeys t
  | none => []

def typeParamsInternal (tps : List TypeParam) : Bool :=
  tps.any (fun tp => match tp.type with | some t => Spec.mentionsInternal t | none => false)

theorem varianceKeyword_wp (v : Variance) (st : St) {Q : String → St → Prop} (h : ∀ s, Q s st) :
    wp (varianceKeyword v) Q st := by
  unfold varianceKeyword
  split
  · rw [wp_pure]; exact h _
  · exact wp_throwG.2 trivial

theorem typeParamStrings_grows (env : Env) : (tps : List TypeParam) → ∀ st,
    wp (typeParamStrings env tps) (fun _ st' =>
      Grows (tps.flatMap typeParamKeys) (typeParamsInternal tps) st st') st
  | [], st => by
    rw [typeParamStrings, wp_pure]
    exact (Grows.refl st).mono (by simp) (by simp)
  | tp :: tps, st => by
    rw [typeParamStrings, wp_bind]
    refine varianceKeyword_wp _ st fun dir => ?_
    simp only [wp_bind]
    refine wp_conseq (Q := fun _ s1 => Grows (typeParamKeys tp)
      (match tp.type with | some t => Spec.mentionsInternal t | none => false) st s1) ?_ ?_
    · split
      · rename_i t ht
        rw [wp_bind]
        refine wp_conseq (typeStr_grows env t st) ?_; intro _ s1 h1
        rw [wp_pure]
        exact h1.mono (by simp [typeParamKeys, ht]) (by rw [ht]; exact id)
      · rename_i ht
        rw [wp_pure]
        exact (Grows.refl st).mono (by simp [typeParamKeys, ht]) (by simp)
    · intro item s1 h1
      refine wp_conseq (typeParamStrings_grows env tps s1) ?_; intro rest s2 h2
      rw [wp_pure]
      exact (h1.trans h2).mono (by simp) (by simp [typeParamsInternal])

theorem createInternalClassString_keeps_mk (env : Env) : (fuel : Nat) → ∀ sc inner ad,
    Keeps (createInternalClassString env fuel sc inner ad)
  | 0, sc, inner, ad => by
    rw [createInternalClassString]
    intro st _
    exact wp_throwG.2 trivial
  | fuel + 1, sc, inner, ad => by
    rw [createInternalClassString]
    refine Keeps.bind ?_ fun c => ?_
    · split
      · exact Keeps.pure _
      · intro st _; exact wp_throwG.2 trivial
    refine Keeps.bind (createClassMethodString_keeps_mk env _ _ _ _) fun ⟨_, _⟩ => ?_
    refine Keeps.bind (innerClassesG_keeps_mk (fun ic => createClassString_keeps_mk env fuel ic inner true) _) fun _ => ?_
    exact Keeps.bind (internalSupersG_keeps_mk (fun ss => createInternalClassString_keeps_mk env fuel ss inner _) _)
      fun _ => Keeps.pure _

/-- the superclass names that appear after `sub` (back-quoted when they are Safe-DS keywords) -/
def publicSuperNames (scs : List String) : List String :=
  ((scs.map (fun sc => lastD "" (splitDot sc))).filter (fun n => !isInternal n)).map escapeKeyword

theorem superclassesG_spec (env : Env) {inline : String → G String} (h : ∀ s, Keeps (inline s)) :
    (scs : List String) → ∀ st, st.todos = [] →
    wp (superclassesG env inline scs) (fun r st' => st'.todos = [] ∧ r.1 = publicSuperNames scs) st
  | [], st, h0 => by
    rw [superclassesG, wp_pure]; exact ⟨h0, rfl⟩
  | sc :: scs, st, h0 => by
    rw [superclassesG, wp_ite]
    refine ⟨fun hc => ?_, fun hc => ?_⟩
    · rw [wp_bind]
      refine wp_conseq (addToImports_keeps_mk env sc st h0) ?_; intro _ s1 h1
      rw [wp_bind]
      refine wp_conseq (superclassesG_spec env h scs s1 h1) ?_; intro ⟨names, text⟩ s2 ⟨h2, h3⟩
      rw [wp_pure]
      refine ⟨h2, ?_⟩
      simp only at h3
      simp [publicSuperNames, hc, h3]
    · rw [wp_bind]
      refine wp_conseq (h sc st h0) ?_; intro _ s1 h1
      rw [wp_bind]
      refine wp_conseq (superclassesG_spec env h scs s1 h1) ?_; intro ⟨names, text⟩ s2 ⟨h2, h3⟩
      rw [wp_pure]
      refine ⟨h2, ?_⟩
      simp only at h3
      simp [publicSuperNames, hc, h3]

/-- markers of the constructor parameters shown in the class signature -/
def ctorKeys (c : Class) : List String :=
  if c.isAbstract then []
  else match c.ctor with
    | some ctor => Spec.paramsKeys (ctor.params.drop 1)
    | none => []

/-- markers of the bounds of the class's type parameters -/
def genericKeys (c : Class) : List String :=
  if !c.typeParams.isEmpty || !(match c.ctor with | some ctor => ctor.typeVars | none => []).isEmpty
  then c.typeParams.flatMap typeParamKeys else []

/-- number of superclass names after `sub` -/
def superCount (c : Class) : Nat :=
  if !c.renderedSupers.isEmpty && !c.isAbstract then (publicSuperNames c.renderedSupers).length else 0

/-- the marker a class deserves for its superclass list -/
def inheritanceKeys (c : Class) : List String :=
  if superCount c > 1 then ["multiple_inheritance"] else []

/-- what precedes the marker blocks of a class: documentation, `@PythonName`, indentation -/
def classPrefix (env : Env) (c : Class) (indent : String) : String :=
  sdsDocstring env.safe c.doc.description indent
    (match c.ctor with | some ctor => ctor.params | none => []) [] c.doc.examples
  ++ ((if convertName c.name env.safe true != c.name then indent ++ nameAnnotation c.name ++ "\n" else "")
  ++ indent)

theorem classBody_markers (env : Env) (fuel : Nat) (c : Class) (indent : String) (st : St)
    (h0 : st.todos = [])
    (hps : ∀ ctor, c.ctor = some ctor → ∀ p ∈ ctor.params, Spec.optionalIsTyped p = true) :
    wp (classBody env fuel c indent) (fun text st' =>
      st'.todos = [] ∧
      ∃ keys post, keys.Nodup ∧
        (∀ k, k ≠ "internal class as type" → (k ∈ keys ↔ k ∈ ctorKeys c ++ genericKeys c)) ∧
        text = classPrefix env c indent ++ (renderTodos indent keys ++
          (renderTodos indent (inheritanceKeys c) ++ ("class " ++ post)))) st := by
  unfold classBody
  simp only [wp_bind, wp_logEmit]
  generalize hs0 : ({ st with log := st.log ++ [("class", c.id)] } : St) = s0
  have h0' : s0.todos = [] := by rw [← hs0]; exact h0
  -- constructor parameters
  refine wp_conseq (Q := fun _ s1 => ∃ b, Grows (ctorKeys c) b s0 s1) ?_ ?_
  · rw [wp_ite]
    refine ⟨fun ha => ?_, fun ha => ?_⟩
    · rw [wp_pure]
      exact ⟨_, (Grows.refl s0).mono (by simp [ctorKeys, ha]) id⟩
    · rw [wp_bind]
      split
      · rename_i ctor hctor
        refine wp_conseq (createParameterString_grows env ctor.params indent true (hps ctor hctor) s0) ?_
        intro p s1 g1
        rw [wp_pure]
        exact ⟨_, g1.mono (by simp [ctorKeys, ha, hctor, shownParams]) id⟩
      · rename_i hctor
        simp only [wp_pure]
        exact ⟨_, (Grows.refl s0).mono (by simp [ctorKeys, ha, hctor]) id⟩
  intro ci s1 ⟨b1, g1⟩
  -- the generics of the surrounding class are put aside
  rw [wp_get, wp_modify]
  generalize hs1 : ({ s1 with classGenerics := [] } : St) = s1'
  have ht1 : s1'.todos = s1.todos := by rw [← hs1]
  -- type parameters
  refine wp_conseq (Q := fun _ s2 => ∃ b s2', Grows (genericKeys c) b s1' s2' ∧ s2.todos = s2'.todos) ?_ ?_
  · rw [wp_ite]
    refine ⟨fun hc => ?_, fun hc => ?_⟩
    · rw [wp_bind]
      refine wp_conseq (typeParamStrings_grows env c.typeParams s1') ?_; intro items s2 g2
      simp only [wp_bind, wp_modify, wp_pure]
      have hgk : genericKeys c = c.typeParams.flatMap typeParamKeys := by
        unfold genericKeys; exact if_pos hc
      exact ⟨_, s2, g2.mono (by simp [hgk]) id, rfl⟩
    · rw [wp_pure]
      have hgk : genericKeys c = [] := by
        unfold genericKeys; exact if_neg hc
      exact ⟨_, s1', (Grows.refl s1').mono (by simp [hgk]) id, rfl⟩
  -- first marker block
  intro vi s2 ⟨b2, s2', g2, hs2⟩ todo1 s3 hrun1
  obtain ⟨_, heq1⟩ := (createTodoMsg_ok indent s2 (todo1, s3)).1 hrun1
  cases heq1
  refine wp_conseq (createClassAttributeString_keeps_mk env _ _ _ rfl) ?_; intro ⟨attrText, attrNames⟩ s4 h4
  simp only
  refine wp_conseq (innerClassesG_keeps_mk (fun ic => createClassString_keeps_mk env fuel ic _ true) _ s4 h4) ?_
  intro innerText s5 h5
  refine wp_conseq (createClassMethodString_keeps_mk env _ _ _ _ s5 h5) ?_; intro ⟨methodText, methodNames⟩ s6 h6
  simp only
  -- superclasses
  refine wp_conseq (Q := fun r s7 => s7.todos = [] ∧ r.2.2 = superCount c) ?_ ?_
  · rw [wp_ite]
    refine ⟨fun hc => ?_, fun hc => ?_⟩
    · rw [wp_bind]
      refine wp_conseq (superclassesG_spec env
        (fun sc => createInternalClassString_keeps_mk env fuel sc _ _) c.renderedSupers s6 h6) ?_
      intro ⟨names, text⟩ s7 ⟨h7, hn⟩
      rw [wp_pure]
      simp only at hn
      exact ⟨h7, by simp [superCount, hc, hn]⟩
    · rw [wp_pure]
      exact ⟨h6, by simp [superCount, hc]⟩
  intro ⟨superInfo, superMethodsText, nNames⟩ s7 ⟨h7, hn⟩
  simp only at hn
  simp only [wp_condTodo, wp_bind]
  intro todo2 s9 hrun2
  obtain ⟨_, heq2⟩ := (createTodoMsg_ok indent _ (todo2, s9)).1 hrun2
  cases heq2
  have htodo2 : (if nNames > 1 then
      ({ s7 with todos := insertSet "multiple_inheritance" s7.todos } : St) else s7).todos = inheritanceKeys c := by
    unfold inheritanceKeys
    rw [← hn]
    split <;> simp [h7, insertSet]
  rw [htodo2]
  simp only [wp_modify, wp_logEmit, wp_ite, wp_pure]
  have hkeys : s2.todos.Nodup ∧ ∀ k, k ≠ "internal class as type" →
      (k ∈ s2.todos ↔ k ∈ ctorKeys c ++ genericKeys c) := by
    rw [hs2]
    refine ⟨g2.nodup (by rw [ht1]; exact g1.nodup (by simp [h0'])), fun k hk => ?_⟩
    rw [g2.mem k hk, ht1, g1.mem k hk]
    simp [h0']
  refine ⟨fun _ => ⟨trivial, s2.todos,
      escapeKeyword (convertName c.name env.safe true) ++ (vi ++ (ci ++ superInfo)),
      hkeys.1, hkeys.2, ?_⟩,
    fun _ => ⟨trivial, s2.todos,
      escapeKeyword (convertName c.name env.safe true) ++ (vi ++ (ci ++ (superInfo ++ (" {" ++
        (attrText ++ (innerText ++ (superMethodsText ++ (methodText ++ (indent ++ "}"))))))))),
      hkeys.1, hkeys.2, ?_⟩⟩
  · simp only [classPrefix, String.append_assoc]
  · simp only [classPrefix, String.append_assoc]

theorem createClassString_markers (env : Env) (fuel : Nat) (c : Class) (indent : String) (inRe : Bool) (st : St)
    (h0 : st.todos = []) (hnm : inRe = true ∨ c.reexportedBy = [])
    (hps : ∀ ctor, c.ctor = some ctor → ∀ p ∈ ctor.params, Spec.optionalIsTyped p = true) :
    wp (createClassString env fuel c indent inRe) (fun text st' =>
      st'.todos = [] ∧
      ∃ keys post, keys.Nodup ∧
        (∀ k, k ≠ "internal class as type" → (k ∈ keys ↔ k ∈ ctorKeys c ++ genericKeys c)) ∧
        text = classPrefix env c indent ++ (renderTodos indent keys ++
          (renderTodos indent (inheritanceKeys c) ++ ("class " ++ post)))) st := by
  cases fuel with
  | zero => rw [createClassString]; exact wp_throwG.2 trivial
  | succ fuel =>
    rw [createClassString_eq, wp_ite]
    refine ⟨fun hc => ?_, fun _ => classBody_markers env fuel c indent st h0 hps⟩
    have hre : c.reexportedBy = [] := by
      rcases hnm with h | h
      · simp [h] at hc
      · exact h
    rw [wp_bind, hre]
    intro b s1 hb
    rw [hasNodeShorterReexport_nil] at hb
    cases hb
    simp only [Bool.false_eq_true, if_false]
    exact classBody_markers env fuel c indent st h0 hps

end StubGen
