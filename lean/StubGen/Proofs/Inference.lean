/-
Helper definitions and lemmas for `StubGen.Theorems.C07a` (result inference of the analyser:
`findReturns`, `exprToType`, `inferFromReturns`, `createInferredResults`) and `StubGen.Theorems.C06a`
(parameters of the analyser: `argumentKind`, `defaultOf`, `parseParameter`, `parseParameters`).

All names carry the prefix `u07_`.

* `u07_ReturnIn r body`      : "`return r` occurs in `body`", following the `Stmt` constructors
* `u07_typeOf`               : `exprToType` as a total function (`exprToType` never fails)
* `u07_cands`, `u07_addAll`  : the candidate types of one `return`, and "append unless already in the list"
                               (membership by STRUCTURAL equality, `typeInSetExact` / `AType.beq`:
                               the tool keys the collected types by `str(type.to_dict())`)
* `u07_beq_iff_eq`           : `AType.beq a b = true ↔ a = b`
* `u07_inferFromReturns_eq`  : `inferFromReturns` in closed form
* `u07_merge`, `u07_columns` : the two-dimensional result array of `createInferredResults` in closed form
-/
import StubGen.Model.Analyze
import StubGen.Proofs.Types
import StubGen.Proofs.TypeText
import StubGen.Proofs.Order
import StubGen.Proofs.Inventory

namespace StubGen

open List

/-! ### 1. `findReturns` -/

/-- `return r` (`r = none`: a bare `return`) occurs in the statement list `body`, possibly nested
    inside the forms of `Stmt` that have sub-statements -/
inductive u07_ReturnIn (r : Option Expr) : List Stmt → Prop
  | here (ss : List Stmt) : u07_ReturnIn r (.ret r :: ss)
  | ifBody {body : List Stmt} {eb : Option (List Stmt)} {ss : List Stmt} :
      u07_ReturnIn r body → u07_ReturnIn r (.if_ body eb :: ss)
  | ifElse {body b ss : List Stmt} : u07_ReturnIn r b → u07_ReturnIn r (.if_ body (some b) :: ss)
  | block {body ss : List Stmt} : u07_ReturnIn r body → u07_ReturnIn r (.block body :: ss)
  | tryBody {body hs ss : List Stmt} : u07_ReturnIn r body → u07_ReturnIn r (.try_ body hs :: ss)
  | tryHandler {body hs ss : List Stmt} : u07_ReturnIn r hs → u07_ReturnIn r (.try_ body hs :: ss)
  | matchBody {bodies ss : List Stmt} : u07_ReturnIn r bodies → u07_ReturnIn r (.match_ bodies :: ss)
  | loopBody {body ss : List Stmt} : u07_ReturnIn r body → u07_ReturnIn r (.loop body :: ss)
  | later {s : Stmt} {ss : List Stmt} : u07_ReturnIn r ss → u07_ReturnIn r (s :: ss)

theorem u07_findReturns_cons (s : Stmt) (ss : List Stmt) :
    findReturns (s :: ss) = findReturnsIn s ++ findReturns ss := by rw [findReturns]

theorem u07_findReturnsIn_ret (e : Option Expr) : findReturnsIn (.ret e) = [e] := by rw [findReturnsIn]
theorem u07_findReturnsIn_if_none (body : List Stmt) :
    findReturnsIn (.if_ body none) = findReturns body := by rw [findReturnsIn]; exact List.append_nil _
theorem u07_findReturnsIn_if_some (body b : List Stmt) :
    findReturnsIn (.if_ body (some b)) = findReturns body ++ findReturns b := by rw [findReturnsIn]
theorem u07_findReturnsIn_block (body : List Stmt) : findReturnsIn (.block body) = findReturns body := by
  rw [findReturnsIn]
theorem u07_findReturnsIn_try (body hs : List Stmt) :
    findReturnsIn (.try_ body hs) = findReturns body ++ findReturns hs := by rw [findReturnsIn]
theorem u07_findReturnsIn_match (bodies : List Stmt) : findReturnsIn (.match_ bodies) = findReturns bodies := by
  rw [findReturnsIn]
theorem u07_findReturnsIn_loop (body : List Stmt) : findReturnsIn (.loop body) = findReturns body := by
  rw [findReturnsIn]

theorem u07_mem_of_returnIn {r : Option Expr} {body : List Stmt} (h : u07_ReturnIn r body) :
    r ∈ findReturns body := by
  induction h with
  | here ss => rw [u07_findReturns_cons, u07_findReturnsIn_ret]; exact List.mem_append_left _ (List.mem_singleton.2 rfl)
  | @ifBody body eb ss _ ih =>
    rw [u07_findReturns_cons]
    refine List.mem_append_left _ ?_
    cases eb with
    | none => rw [u07_findReturnsIn_if_none]; exact ih
    | some b => rw [u07_findReturnsIn_if_some]; exact List.mem_append_left _ ih
  | ifElse _ ih =>
    rw [u07_findReturns_cons, u07_findReturnsIn_if_some]
    exact List.mem_append_left _ (List.mem_append_right _ ih)
  | block _ ih => rw [u07_findReturns_cons, u07_findReturnsIn_block]; exact List.mem_append_left _ ih
  | tryBody _ ih =>
    rw [u07_findReturns_cons, u07_findReturnsIn_try]; exact List.mem_append_left _ (List.mem_append_left _ ih)
  | tryHandler _ ih =>
    rw [u07_findReturns_cons, u07_findReturnsIn_try]; exact List.mem_append_left _ (List.mem_append_right _ ih)
  | matchBody _ ih => rw [u07_findReturns_cons, u07_findReturnsIn_match]; exact List.mem_append_left _ ih
  | loopBody _ ih => rw [u07_findReturns_cons, u07_findReturnsIn_loop]; exact List.mem_append_left _ ih
  | later _ ih => rw [u07_findReturns_cons]; exact List.mem_append_right _ ih

mutual
theorem u07_returnIn_of_mem (r : Option Expr) : (ss : List Stmt) → r ∈ findReturns ss → u07_ReturnIn r ss
  | [], h => by rw [findReturns] at h; exact absurd h List.not_mem_nil
  | s :: ss, h => by
    rw [u07_findReturns_cons, List.mem_append] at h
    rcases h with h | h
    · exact u07_returnIn_of_memIn r s ss h
    · exact .later (u07_returnIn_of_mem r ss h)
theorem u07_returnIn_of_memIn (r : Option Expr) :
    (s : Stmt) → (ss : List Stmt) → r ∈ findReturnsIn s → u07_ReturnIn r (s :: ss)
  | .ret e, ss, h => by
    rw [u07_findReturnsIn_ret, List.mem_singleton] at h
    subst h; exact .here ss
  | .if_ body none, ss, h => by
    rw [u07_findReturnsIn_if_none] at h
    exact .ifBody (u07_returnIn_of_mem r body h)
  | .if_ body (some b), ss, h => by
    rw [u07_findReturnsIn_if_some, List.mem_append] at h
    rcases h with h | h
    · exact .ifBody (u07_returnIn_of_mem r body h)
    · exact .ifElse (u07_returnIn_of_mem r b h)
  | .block body, ss, h => by
    rw [u07_findReturnsIn_block] at h
    exact .block (u07_returnIn_of_mem r body h)
  | .try_ body hs, ss, h => by
    rw [u07_findReturnsIn_try, List.mem_append] at h
    rcases h with h | h
    · exact .tryBody (u07_returnIn_of_mem r body h)
    · exact .tryHandler (u07_returnIn_of_mem r hs h)
  | .match_ bodies, ss, h => by
    rw [u07_findReturnsIn_match] at h
    exact .matchBody (u07_returnIn_of_mem r bodies h)
  | .loop body, ss, h => by
    rw [u07_findReturnsIn_loop] at h
    exact .loopBody (u07_returnIn_of_mem r body h)
  | .assign a, _, h => by
    have e : findReturnsIn (.assign a) = [] := rfl
    rw [e] at h; exact absurd h List.not_mem_nil
  | .docExpr x y, _, h => by
    have e : findReturnsIn (.docExpr x y) = [] := rfl
    rw [e] at h; exact absurd h List.not_mem_nil
  | .other, _, h => by
    have e : findReturnsIn .other = [] := rfl
    rw [e] at h; exact absurd h List.not_mem_nil
end

theorem u07_returnIn_iff (r : Option Expr) (body : List Stmt) :
    u07_ReturnIn r body ↔ r ∈ findReturns body :=
  ⟨u07_mem_of_returnIn, u07_returnIn_of_mem r body⟩

/-! ### 2. `exprToType` is total -/

mutual
/-- `exprToType` without the error monad -/
def u07_typeOf : Expr → AType
  | .name n fq _ _ _ => if n == "False" || n == "True" then .named "bool" "builtins.bool" else .named n fq
  | .int _ => .named "int" "builtins.int"
  | .float _ => .named "float" "builtins.float"
  | .str _ => .named "str" "builtins.str"
  | .tuple items => .tuple (u07_typesOf items)
  | .unary _ e => u07_typeOf e
  | .call => .unknown
  | .member => .unknown
  | .cond _ _ => .unknown
  | .other _ => .unknown
def u07_typesOf : List Expr → List AType
  | [] => []
  | e :: es => u07_typeOf e :: u07_typesOf es
end

mutual
theorem u07_exprToType_eq : (e : Expr) → exprToType e = .ok (u07_typeOf e)
  | .name n fq _ _ _ => by
    rw [exprToType, u07_typeOf]
    split <;> rfl
  | .int _ => rfl
  | .float _ => rfl
  | .str _ => rfl
  | .tuple items => by
    rw [exprToType, u07_exprsToTypes_eq items, u07_typeOf]
  | .unary _ e => by
    rw [exprToType, u07_typeOf]; exact u07_exprToType_eq e
  | .call => rfl
  | .member => rfl
  | .cond _ _ => rfl
  | .other _ => rfl
theorem u07_exprsToTypes_eq : (es : List Expr) → exprsToTypes es = .ok (u07_typesOf es)
  | [] => rfl
  | e :: es => by
    rw [exprsToTypes, u07_exprToType_eq e, u07_exprsToTypes_eq es, u07_typesOf]
end

theorem u07_typesOf_eq_map (es : List Expr) : u07_typesOf es = es.map u07_typeOf := by
  induction es with
  | nil => rfl
  | cons e es ih => rw [u07_typesOf, ih]; rfl

/-! ### 3. `inferFromReturns` in closed form -/

/-- a type is kept only if it is a class (`NamedType`) or a tuple type -/
def u07_keep (t : AType) : List AType := if isNamedOrTuple t then [t] else []

/-- an expression that is looked at as a whole (a returned expression, or one branch of a returned
    conditional expression): calls and member accesses are skipped -/
def u07_leaf (e : Expr) : List AType := if isCallOrMember e then [] else u07_keep (u07_typeOf e)

/-- the candidate types of one `return` statement, in the order in which they are tried -/
def u07_cands : Option Expr → List AType
  | none => []
  | some (.cond a b) => u07_leaf a ++ u07_leaf b
  | some (.name _ _ true tn tq) => [.named tn tq]
  | some e => u07_leaf e

/-- `if t not in l: l.append(t)` with Python `==` (`typeInSet`): the rule of the result columns of
    `createInferredResults` -/
def u07_ins (l : List AType) (t : AType) : List AType := if typeInSet t l then l else l ++ [t]

/-- `if key(t) not in l: l[key(t)] = t` with the key `str(t.to_dict())`, i.e. structural equality
    (`typeInSetExact`): the rule of the collection in `inferFromReturns` -/
def u07_insX (l : List AType) (t : AType) : List AType := if typeInSetExact t l then l else l ++ [t]

def u07_addAll (l : List AType) (ts : List AType) : List AType := ts.foldl u07_insX l

/-- the types collected from all return statements, in the order of first occurrence -/
def u07_collected (body : List Stmt) : List AType :=
  u07_addAll [] ((findReturns body).flatMap u07_cands)

def u07_keyLe (a b : AType) : Bool := strLe (inferSortKey a) (inferSortKey b)

/-- textual copy of the local function `add` of `inferFromReturns` -/
def u07_add (acc : Except PyErr (List AType)) (e : Expr) : Except PyErr (List AType) :=
  match acc with
  | .error err => .error err
  | .ok l =>
    match exprToType e with
    | .error err => .error err
    | .ok t => if isNamedOrTuple t && !typeInSetExact t l then .ok (l ++ [t]) else .ok l

/-- textual copy of the local function `step` of `inferFromReturns` -/
def u07_step (acc : Except PyErr (List AType)) (r : Option Expr) : Except PyErr (List AType) :=
  match r with
  | none => acc
  | some e =>
    if isCallOrMember e then acc
    else match e with
      | .cond a b =>
        let acc := if isCallOrMember a then acc else u07_add acc a
        if isCallOrMember b then acc else u07_add acc b
      | .name _ _ true tn tq =>
        (match acc with
         | .error err => .error err
         | .ok l => let t := AType.named tn tq; if typeInSetExact t l then .ok l else .ok (l ++ [t]))
      | e => u07_add acc e

theorem u07_inferFromReturns_unfold (body : List Stmt) :
    inferFromReturns body =
      if (findReturns body).isEmpty then .ok none
      else match (findReturns body).foldl u07_step (.ok []) with
        | .error err => .error err
        | .ok types => .ok (some (.tuple (sortBy u07_keyLe types))) := rfl

theorem u07_add_ok (l : List AType) (e : Expr) :
    u07_add (.ok l) e = .ok (u07_addAll l (u07_keep (u07_typeOf e))) := by
  unfold u07_add
  simp only [u07_exprToType_eq]
  unfold u07_keep u07_addAll
  cases h1 : isNamedOrTuple (u07_typeOf e) with
  | false => simp
  | true =>
    simp only [Bool.true_and, if_true, List.foldl_cons, List.foldl_nil, u07_insX]
    cases h2 : typeInSetExact (u07_typeOf e) l <;> simp

theorem u07_addAll_nil (l : List AType) : u07_addAll l [] = l := rfl

theorem u07_addAll_append (l a b : List AType) :
    u07_addAll l (a ++ b) = u07_addAll (u07_addAll l a) b := by
  unfold u07_addAll; rw [List.foldl_append]

theorem u07_leaf_ok (l : List AType) (e : Expr) :
    (if isCallOrMember e then (Except.ok l : Except PyErr (List AType)) else u07_add (.ok l) e)
      = .ok (u07_addAll l (u07_leaf e)) := by
  unfold u07_leaf
  split
  · rfl
  · exact u07_add_ok l e

theorem u07_step_ok (l : List AType) (r : Option Expr) :
    u07_step (.ok l) r = .ok (u07_addAll l (u07_cands r)) := by
  cases r with
  | none => rfl
  | some e =>
    cases e with
    | cond a b =>
      have h0 : isCallOrMember (Expr.cond a b) = false := rfl
      unfold u07_step
      simp only [h0, Bool.false_eq_true, if_false, u07_cands]
      rw [u07_leaf_ok l a, u07_leaf_ok _ b, u07_addAll_append]
    | name n fq isSelf tn tq =>
      have h0 : isCallOrMember (Expr.name n fq isSelf tn tq) = false := rfl
      cases isSelf with
      | true =>
        unfold u07_step
        simp only [h0, Bool.false_eq_true, if_false, u07_cands]
        unfold u07_addAll u07_insX
        simp only [List.foldl_cons, List.foldl_nil]
        split <;> rfl
      | false =>
        unfold u07_step
        simp only [h0, Bool.false_eq_true, if_false, u07_cands]
        rw [u07_add_ok]; simp only [u07_leaf, h0, Bool.false_eq_true, if_false]
    | call => rfl
    | member => rfl
    | int v =>
      have h0 : isCallOrMember (Expr.int v) = false := rfl
      unfold u07_step
      simp only [h0, Bool.false_eq_true, if_false, u07_cands]
      rw [u07_add_ok]; simp only [u07_leaf, h0, Bool.false_eq_true, if_false]
    | float v =>
      have h0 : isCallOrMember (Expr.float v) = false := rfl
      unfold u07_step
      simp only [h0, Bool.false_eq_true, if_false, u07_cands]
      rw [u07_add_ok]; simp only [u07_leaf, h0, Bool.false_eq_true, if_false]
    | str v =>
      have h0 : isCallOrMember (Expr.str v) = false := rfl
      unfold u07_step
      simp only [h0, Bool.false_eq_true, if_false, u07_cands]
      rw [u07_add_ok]; simp only [u07_leaf, h0, Bool.false_eq_true, if_false]
    | tuple v =>
      have h0 : isCallOrMember (Expr.tuple v) = false := rfl
      unfold u07_step
      simp only [h0, Bool.false_eq_true, if_false, u07_cands]
      rw [u07_add_ok]; simp only [u07_leaf, h0, Bool.false_eq_true, if_false]
    | unary o v =>
      have h0 : isCallOrMember (Expr.unary o v) = false := rfl
      unfold u07_step
      simp only [h0, Bool.false_eq_true, if_false, u07_cands]
      rw [u07_add_ok]; simp only [u07_leaf, h0, Bool.false_eq_true, if_false]
    | other v =>
      have h0 : isCallOrMember (Expr.other v) = false := rfl
      unfold u07_step
      simp only [h0, Bool.false_eq_true, if_false, u07_cands]
      rw [u07_add_ok]; simp only [u07_leaf, h0, Bool.false_eq_true, if_false]

theorem u07_foldl_step (rets : List (Option Expr)) (l : List AType) :
    rets.foldl u07_step (.ok l) = .ok (u07_addAll l (rets.flatMap u07_cands)) := by
  induction rets generalizing l with
  | nil => rfl
  | cons r rs ih =>
    rw [List.foldl_cons, u07_step_ok, ih, List.flatMap_cons, u07_addAll_append]

/-- `inferFromReturns` in closed form: it never fails -/
theorem u07_inferFromReturns_eq (body : List Stmt) :
    inferFromReturns body =
      if (findReturns body).isEmpty then .ok none
      else .ok (some (.tuple (sortBy u07_keyLe (u07_collected body)))) := by
  rw [u07_inferFromReturns_unfold, u07_foldl_step]
  rfl

/-! ### 4. "append unless already in the list" and the stable sort -/

/-! structural equality `AType.beq` decides `=` -/

mutual
theorem u07_beq_refl : (a : AType) → AType.beq a a = true
  | .unknown => by rw [AType.beq]
  | .named n q => by rw [AType.beq]; simp
  | .namedSeq n q ts => by rw [AType.beq, u07_beqL_refl ts]; simp
  | .enum vs => by rw [AType.beq]; simp
  | .boundary b mn mx mi xi => by rw [AType.beq]; simp
  | .union ts => by rw [AType.beq, u07_beqL_refl ts]
  | .list ts => by rw [AType.beq, u07_beqL_refl ts]
  | .dict k v => by rw [AType.beq, u07_beq_refl k, u07_beq_refl v]; rfl
  | .callable ps r => by rw [AType.beq, u07_beqL_refl ps, u07_beq_refl r]; rfl
  | .set ts => by rw [AType.beq, u07_beqL_refl ts]
  | .literal ls => by rw [AType.beq]; simp
  | .final t => by rw [AType.beq, u07_beq_refl t]
  | .tuple ts => by rw [AType.beq, u07_beqL_refl ts]
  | .typeVar n => by rw [AType.beq]; simp
  | .typeVarB n u => by rw [AType.beq, u07_beq_refl u]; simp
theorem u07_beqL_refl : (as : List AType) → AType.beqL as as = true
  | [] => by rw [AType.beqL]
  | a :: as => by rw [AType.beqL, u07_beq_refl a, u07_beqL_refl as]; rfl
end

mutual
theorem u07_eq_of_beq : (a b : AType) → AType.beq a b = true → a = b
  | .unknown, b, h => by cases b <;> first | rfl | (exact Bool.noConfusion (show false = true from h))
  | .named n q, b, h => by
    cases b <;> first
      | (rw [AType.beq] at h; simp only [Bool.and_eq_true, beq_iff_eq] at h; rw [h.1, h.2])
      | (exact Bool.noConfusion (show false = true from h))
  | .namedSeq n q ts, b, h => by
    cases b <;> first
      | (rename_i n' q' ts'
         rw [AType.beq] at h; simp only [Bool.and_eq_true, beq_iff_eq] at h
         rw [h.1.1, h.1.2, u07_eqL_of_beqL ts ts' h.2])
      | (exact Bool.noConfusion (show false = true from h))
  | .enum vs, b, h => by
    cases b <;> first
      | (rw [AType.beq] at h; simp only [beq_iff_eq] at h; rw [h])
      | (exact Bool.noConfusion (show false = true from h))
  | .boundary b0 mn mx mi xi, b, h => by
    cases b <;> first
      | (rw [AType.beq] at h; simp only [Bool.and_eq_true, beq_iff_eq] at h
         obtain ⟨⟨⟨⟨h1, h2⟩, h3⟩, h4⟩, h5⟩ := h
         rw [h1, h2, h3, h4, h5])
      | (exact Bool.noConfusion (show false = true from h))
  | .union ts, b, h => by
    cases b <;> first
      | (rename_i ts'; rw [AType.beq] at h; rw [u07_eqL_of_beqL ts ts' h])
      | (exact Bool.noConfusion (show false = true from h))
  | .list ts, b, h => by
    cases b <;> first
      | (rename_i ts'; rw [AType.beq] at h; rw [u07_eqL_of_beqL ts ts' h])
      | (exact Bool.noConfusion (show false = true from h))
  | .dict k v, b, h => by
    cases b <;> first
      | (rename_i k' v'; rw [AType.beq] at h; simp only [Bool.and_eq_true] at h
         rw [u07_eq_of_beq k k' h.1, u07_eq_of_beq v v' h.2])
      | (exact Bool.noConfusion (show false = true from h))
  | .callable ps r, b, h => by
    cases b <;> first
      | (rename_i ps' r'; rw [AType.beq] at h; simp only [Bool.and_eq_true] at h
         rw [u07_eqL_of_beqL ps ps' h.1, u07_eq_of_beq r r' h.2])
      | (exact Bool.noConfusion (show false = true from h))
  | .set ts, b, h => by
    cases b <;> first
      | (rename_i ts'; rw [AType.beq] at h; rw [u07_eqL_of_beqL ts ts' h])
      | (exact Bool.noConfusion (show false = true from h))
  | .literal ls, b, h => by
    cases b <;> first
      | (rw [AType.beq] at h; simp only [beq_iff_eq] at h; rw [h])
      | (exact Bool.noConfusion (show false = true from h))
  | .final t, b, h => by
    cases b <;> first
      | (rename_i t'; rw [AType.beq] at h; rw [u07_eq_of_beq t t' h])
      | (exact Bool.noConfusion (show false = true from h))
  | .tuple ts, b, h => by
    cases b <;> first
      | (rename_i ts'; rw [AType.beq] at h; rw [u07_eqL_of_beqL ts ts' h])
      | (exact Bool.noConfusion (show false = true from h))
  | .typeVar n, b, h => by
    cases b <;> first
      | (rw [AType.beq] at h; simp only [beq_iff_eq] at h; rw [h])
      | (exact Bool.noConfusion (show false = true from h))
  | .typeVarB n u, b, h => by
    cases b <;> first
      | (rename_i n' u'; rw [AType.beq] at h; simp only [Bool.and_eq_true, beq_iff_eq] at h
         rw [h.1, u07_eq_of_beq u u' h.2])
      | (exact Bool.noConfusion (show false = true from h))
theorem u07_eqL_of_beqL : (as bs : List AType) → AType.beqL as bs = true → as = bs
  | [], [], _ => rfl
  | [], _ :: _, h => Bool.noConfusion (show false = true from h)
  | _ :: _, [], h => Bool.noConfusion (show false = true from h)
  | a :: as, b :: bs, h => by
    rw [AType.beqL] at h; simp only [Bool.and_eq_true] at h
    rw [u07_eq_of_beq a b h.1, u07_eqL_of_beqL as bs h.2]
end

theorem u07_beq_iff_eq (a b : AType) : AType.beq a b = true ↔ a = b :=
  ⟨u07_eq_of_beq a b, fun h => h ▸ u07_beq_refl a⟩

theorem u07_pyEq_refl (t : AType) : t.pyEq t = true := pyEq_equiv.refl t trivial
theorem u07_pyEq_symm {a b : AType} (h : a.pyEq b = true) : b.pyEq a = true := pyEq_equiv.symm a b trivial trivial h
theorem u07_pyEq_trans {a b c : AType} (h : a.pyEq b = true) (h' : b.pyEq c = true) : a.pyEq c = true :=
  pyEq_equiv.trans a b c trivial trivial trivial h h'
theorem u07_pyEq_comm (a b : AType) : a.pyEq b = b.pyEq a := by
  cases h : a.pyEq b with
  | true => exact (u07_pyEq_symm h).symm
  | false =>
    cases h' : b.pyEq a with
    | false => rfl
    | true => rw [u07_pyEq_symm h'] at h; cases h

theorem u07_typeInSet_iff (t : AType) (l : List AType) : typeInSet t l = true ↔ ∃ x ∈ l, x.pyEq t = true := by
  unfold typeInSet; exact List.any_eq_true

theorem u07_typeInSet_false_iff (t : AType) (l : List AType) :
    typeInSet t l = false ↔ ∀ x ∈ l, x.pyEq t = false := by
  unfold typeInSet; simp [List.any_eq_false]

theorem u07_typeInSetExact_iff (t : AType) (l : List AType) : typeInSetExact t l = true ↔ t ∈ l := by
  unfold typeInSetExact
  rw [List.any_eq_true]
  constructor
  · rintro ⟨x, hx, hxt⟩
    rw [← (u07_beq_iff_eq x t).1 hxt]; exact hx
  · intro h; exact ⟨t, h, u07_beq_refl t⟩

theorem u07_typeInSetExact_false_iff (t : AType) (l : List AType) : typeInSetExact t l = false ↔ t ∉ l := by
  rw [← u07_typeInSetExact_iff, Bool.not_eq_true]

theorem u07_mem_ins {l : List AType} {t x : AType} (h : x ∈ u07_ins l t) : x ∈ l ∨ x = t := by
  unfold u07_ins at h
  split at h
  · exact .inl h
  · rcases List.mem_append.1 h with h | h
    · exact .inl h
    · exact .inr (List.mem_singleton.1 h)

theorem u07_subset_ins (l : List AType) (t : AType) : ∀ x ∈ l, x ∈ u07_ins l t := by
  intro x hx
  unfold u07_ins
  split
  · exact hx
  · exact List.mem_append_left _ hx

theorem u07_ins_covers (l : List AType) (t : AType) : typeInSet t (u07_ins l t) = true := by
  unfold u07_ins
  split
  · assumption
  · exact (u07_typeInSet_iff _ _).2 ⟨t, List.mem_append_right _ (List.mem_singleton.2 rfl), u07_pyEq_refl t⟩

theorem u07_mem_insX {l : List AType} {t x : AType} (h : x ∈ u07_insX l t) : x ∈ l ∨ x = t := by
  unfold u07_insX at h
  split at h
  · exact .inl h
  · rcases List.mem_append.1 h with h | h
    · exact .inl h
    · exact .inr (List.mem_singleton.1 h)

theorem u07_subset_insX (l : List AType) (t : AType) : ∀ x ∈ l, x ∈ u07_insX l t := by
  intro x hx
  unfold u07_insX
  split
  · exact hx
  · exact List.mem_append_left _ hx

/-- after the insertion the type itself is a member (not merely an `==` one) -/
theorem u07_insX_mem (l : List AType) (t : AType) : t ∈ u07_insX l t := by
  unfold u07_insX
  split
  · rename_i h; exact (u07_typeInSetExact_iff t l).1 h
  · exact List.mem_append_right _ (List.mem_singleton.2 rfl)

theorem u07_mem_addAll {l ts : List AType} {x : AType} (h : x ∈ u07_addAll l ts) : x ∈ l ∨ x ∈ ts := by
  induction ts generalizing l with
  | nil => exact .inl h
  | cons t ts ih =>
    rcases ih (l := u07_insX l t) h with h | h
    · rcases u07_mem_insX h with h | h
      · exact .inl h
      · exact .inr (h ▸ List.mem_cons_self)
    · exact .inr (List.mem_cons_of_mem _ h)

theorem u07_subset_addAll (l ts : List AType) : ∀ x ∈ l, x ∈ u07_addAll l ts := by
  induction ts generalizing l with
  | nil => exact fun x hx => hx
  | cons t ts ih => exact fun x hx => ih (u07_insX l t) x (u07_subset_insX l t x hx)

/-- every candidate is itself a member of the collection -/
theorem u07_addAll_covers (l ts : List AType) (t : AType) (h : t ∈ ts) : t ∈ u07_addAll l ts := by
  induction ts generalizing l with
  | nil => exact absurd h List.not_mem_nil
  | cons a ts ih =>
    rcases List.mem_cons.1 h with rfl | h
    · exact u07_subset_addAll _ ts t (u07_insX_mem l t)
    · exact ih (u07_insX l a) h

theorem u07_mem_addAll_iff (l ts : List AType) (x : AType) : x ∈ u07_addAll l ts ↔ x ∈ l ∨ x ∈ ts :=
  ⟨u07_mem_addAll, fun h => h.elim (u07_subset_addAll l ts x) (u07_addAll_covers l ts x)⟩

/-- what is appended is a sublist of the candidates (first occurrences, in order) -/
theorem u07_addAll_sublist (l ts : List AType) : ∃ m, u07_addAll l ts = l ++ m ∧ m.Sublist ts := by
  induction ts generalizing l with
  | nil => exact ⟨[], (List.append_nil l).symm, List.Sublist.refl _⟩
  | cons a ts ih =>
    obtain ⟨m, hm, hs⟩ := ih (u07_insX l a)
    unfold u07_addAll at hm ⊢
    rw [List.foldl_cons, hm]
    unfold u07_insX
    split
    · exact ⟨m, rfl, hs.cons a⟩
    · exact ⟨a :: m, by simp, hs.cons_cons a⟩

/-- no member twice (structurally); two members may well be `==` (tuples with permuted element types) -/
theorem u07_addAll_nodup (l ts : List AType) (h : l.Nodup) : (u07_addAll l ts).Nodup := by
  induction ts generalizing l with
  | nil => exact h
  | cons a ts ih =>
    refine ih (u07_insX l a) ?_
    unfold u07_insX
    split
    · exact h
    · rename_i hn
      have hn' : a ∉ l := (u07_typeInSetExact_false_iff a l).1 (by simpa using hn)
      refine List.nodup_append.2 ⟨h, List.nodup_singleton a, ?_⟩
      intro x hx y hy
      rw [List.mem_singleton.1 hy]
      rintro rfl; exact hn' hx

/-- an element is appended exactly when no earlier candidate (nor an element of the start list) is
    structurally equal to it -/
theorem u07_addAll_first (l pre post : List AType) (t : AType) :
    u07_addAll l (pre ++ t :: post) =
      u07_addAll (if typeInSetExact t (u07_addAll l pre) then u07_addAll l pre else u07_addAll l pre ++ [t]) post := by
  rw [u07_addAll_append]; rfl

/-- the same with `∈`: the candidate is appended exactly when it is neither in the start list nor among
    the earlier candidates -/
theorem u07_addAll_first_mem (l pre : List AType) (t : AType) :
    typeInSetExact t (u07_addAll l pre) = true ↔ t ∈ l ∨ t ∈ pre := by
  rw [u07_typeInSetExact_iff, u07_mem_addAll_iff]

theorem u07_keyLe_total (a b : AType) : u07_keyLe a b = true ∨ u07_keyLe b a = true :=
  p08_strLe_total _ _

theorem u07_keyLe_trans (a b c : AType) : u07_keyLe a b = true → u07_keyLe b c = true → u07_keyLe a c = true :=
  p08_strLe_trans _ _ _

theorem u07_keyLe_iff (a b : AType) : u07_keyLe a b = true ↔ inferSortKey a ≤ inferSortKey b := strLe_iff _ _

theorem u07_sortBy_sorted (l : List AType) :
    (sortBy u07_keyLe l).Pairwise (fun a b => inferSortKey a ≤ inferSortKey b) :=
  (p08_sortBy_pairwise u07_keyLe u07_keyLe_total u07_keyLe_trans l).imp (fun h => (u07_keyLe_iff _ _).1 h)

/-- stability of the insertion sort, for any key: elements with the same key keep their order -/
theorem u07_insertBy_filter {α : Type} (key : α → String) (k : String) (a : α) (l : List α) :
    (insertBy (fun x y => strLe (key x) (key y)) a l).filter (fun x => key x == k)
      = (a :: l).filter (fun x => key x == k) := by
  induction l with
  | nil => rfl
  | cons b bs ih =>
    unfold insertBy
    split
    · rfl
    · rename_i hab
      rw [List.filter_cons, ih]
      by_cases hb : (key b == k) = true
      · -- `b` has key `k`; then `a` has not (its key is strictly larger)
        have ha : (key a == k) = false := by
          cases hak : key a == k with
          | false => rfl
          | true =>
            exfalso; apply hab
            rw [beq_iff_eq] at hb hak
            rw [strLe_iff, hb, hak]
        simp [hb, ha]
      · simp only [Bool.not_eq_true] at hb
        simp [List.filter_cons, hb]

theorem u07_sortBy_filter {α : Type} (key : α → String) (k : String) (l : List α) :
    (sortBy (fun x y => strLe (key x) (key y)) l).filter (fun x => key x == k) = l.filter (fun x => key x == k) := by
  induction l with
  | nil => rfl
  | cons a as ih =>
    rw [sortBy, u07_insertBy_filter, List.filter_cons, List.filter_cons, ih]

theorem u07_sortBy_stable (k : String) (l : List AType) :
    (sortBy u07_keyLe l).filter (fun x => inferSortKey x == k) = l.filter (fun x => inferSortKey x == k) :=
  u07_sortBy_filter inferSortKey k l

theorem u07_collected_nodup (body : List Stmt) : (u07_collected body).Nodup :=
  u07_addAll_nodup [] _ List.nodup_nil

theorem u07_sorted_nodup (l : List AType) (h : l.Nodup) : (sortBy u07_keyLe l).Nodup :=
  (sortBy_perm u07_keyLe l).nodup_iff.2 h

theorem u07_sorted_pairwise_ne (l : List AType) (h : l.Pairwise (fun a b => a.pyEq b = false)) :
    (sortBy u07_keyLe l).Pairwise (fun a b => a.pyEq b = false) :=
  ((sortBy_perm u07_keyLe l).pairwise_iff (fun {a b} hab => by rw [u07_pyEq_comm]; exact hab)).2 h

/-! ### 5. which expressions contribute a candidate type -/

/-- a literal expression: number, string, `True`/`False`/`None`, a unary operator applied to a literal,
    a tuple of literals -/
inductive u07_LitExpr : Expr → Prop
  | int (v : Int) : u07_LitExpr (.int v)
  | float (r : String) : u07_LitExpr (.float r)
  | str (v : String) : u07_LitExpr (.str v)
  | const (n fq tn tq : String) (h : n = "True" ∨ n = "False" ∨ n = "None") : u07_LitExpr (.name n fq false tn tq)
  | unary (op : String) {e : Expr} : u07_LitExpr e → u07_LitExpr (.unary op e)
  | tuple {items : List Expr} : (∀ x ∈ items, u07_LitExpr x) → u07_LitExpr (.tuple items)

/-- `e` is looked at as a whole: a returned expression that is neither a conditional expression nor
    the name `self` (a `NameExpr` whose node `is_self`), or a branch of a returned conditional expression -/
def u07_Leaf (body : List Stmt) (e : Expr) : Prop :=
  (u07_ReturnIn (some e) body ∧ (∀ a b, e ≠ .cond a b) ∧ (∀ n fq tn tq, e ≠ .name n fq true tn tq)) ∨
  (∃ a b, u07_ReturnIn (some (.cond a b)) body ∧ (e = a ∨ e = b))

/-- `t` is a candidate type of `body` -/
def u07_Cand (body : List Stmt) (t : AType) : Prop :=
  (∃ e, u07_Leaf body e ∧ isCallOrMember e = false ∧ exprToType e = .ok t ∧ isNamedOrTuple t = true) ∨
  (∃ n fq tn tq, u07_ReturnIn (some (.name n fq true tn tq)) body ∧ t = .named tn tq)

theorem u07_exprToType_ok_iff (e : Expr) (t : AType) : exprToType e = .ok t ↔ t = u07_typeOf e := by
  rw [u07_exprToType_eq]
  constructor
  · intro h; cases h; rfl
  · intro h; rw [h]

theorem u07_mem_leaf (e : Expr) (t : AType) :
    t ∈ u07_leaf e ↔ isCallOrMember e = false ∧ exprToType e = .ok t ∧ isNamedOrTuple t = true := by
  unfold u07_leaf u07_keep
  rw [u07_exprToType_ok_iff]
  cases h1 : isCallOrMember e with
  | true => simp
  | false =>
    simp only [Bool.false_eq_true, if_false, true_and]
    constructor
    · intro h
      split at h
      · rw [List.mem_singleton.1 h]; exact ⟨rfl, by assumption⟩
      · exact absurd h List.not_mem_nil
    · rintro ⟨rfl, h⟩
      rw [if_pos h]; exact List.mem_singleton.2 rfl

theorem u07_cands_other (e : Expr) (h1 : ∀ a b, e ≠ .cond a b) (h2 : ∀ n fq tn tq, e ≠ .name n fq true tn tq) :
    u07_cands (some e) = u07_leaf e := by
  cases e with
  | cond a b => exact absurd rfl (h1 a b)
  | name n fq isSelf tn tq =>
    cases isSelf with
    | true => exact absurd rfl (h2 n fq tn tq)
    | false => rfl
  | _ => rfl

theorem u07_mem_candidates (body : List Stmt) (t : AType) :
    t ∈ (findReturns body).flatMap u07_cands ↔ u07_Cand body t := by
  rw [List.mem_flatMap]
  constructor
  · rintro ⟨r, hr, ht⟩
    rw [← u07_returnIn_iff] at hr
    cases r with
    | none => exact absurd ht List.not_mem_nil
    | some e =>
      by_cases hc : ∃ a b, e = .cond a b
      · obtain ⟨a, b, rfl⟩ := hc
        rw [u07_cands, List.mem_append] at ht
        rcases ht with ht | ht
        · exact .inl ⟨a, .inr ⟨a, b, hr, .inl rfl⟩, (u07_mem_leaf a t).1 ht⟩
        · exact .inl ⟨b, .inr ⟨a, b, hr, .inr rfl⟩, (u07_mem_leaf b t).1 ht⟩
      · by_cases hs : ∃ n fq tn tq, e = .name n fq true tn tq
        · obtain ⟨n, fq, tn, tq, rfl⟩ := hs
          rw [u07_cands, List.mem_singleton] at ht
          exact .inr ⟨n, fq, tn, tq, hr, ht⟩
        · have h1 : ∀ a b, e ≠ .cond a b := fun a b h => hc ⟨a, b, h⟩
          have h2 : ∀ n fq tn tq, e ≠ .name n fq true tn tq := fun n fq tn tq h => hs ⟨n, fq, tn, tq, h⟩
          rw [u07_cands_other e h1 h2] at ht
          exact .inl ⟨e, .inl ⟨hr, h1, h2⟩, (u07_mem_leaf e t).1 ht⟩
  · rintro (⟨e, hl, hrest⟩ | ⟨n, fq, tn, tq, hr, rfl⟩)
    · have hm := (u07_mem_leaf e t).2 hrest
      rcases hl with ⟨hr, h1, h2⟩ | ⟨a, b, hr, rfl | rfl⟩
      · exact ⟨some e, (u07_returnIn_iff _ _).1 hr, by rw [u07_cands_other e h1 h2]; exact hm⟩
      · exact ⟨_, (u07_returnIn_iff _ _).1 hr, by rw [u07_cands]; exact List.mem_append_left _ hm⟩
      · exact ⟨_, (u07_returnIn_iff _ _).1 hr, by rw [u07_cands]; exact List.mem_append_right _ hm⟩
    · exact ⟨_, (u07_returnIn_iff _ _).1 hr, by rw [u07_cands]; exact List.mem_singleton.2 rfl⟩

theorem u07_litExpr_facts {e : Expr} (h : u07_LitExpr e) :
    isCallOrMember e = false ∧ isNamedOrTuple (u07_typeOf e) = true ∧
      (∀ a b, e ≠ .cond a b) ∧ (∀ n fq tn tq, e ≠ .name n fq true tn tq) := by
  induction h with
  | int v => exact ⟨rfl, rfl, fun _ _ h => (by cases h), fun _ _ _ _ h => (by cases h)⟩
  | float v => exact ⟨rfl, rfl, fun _ _ h => (by cases h), fun _ _ _ _ h => (by cases h)⟩
  | str v => exact ⟨rfl, rfl, fun _ _ h => (by cases h), fun _ _ _ _ h => (by cases h)⟩
  | const n fq tn tq h =>
    refine ⟨rfl, ?_, fun _ _ h => (by cases h), fun _ _ _ _ h => (by cases h)⟩
    rw [u07_typeOf]; split <;> rfl
  | unary op _ ih =>
    refine ⟨rfl, ?_, fun _ _ h => (by cases h), fun _ _ _ _ h => (by cases h)⟩
    rw [u07_typeOf]; exact ih.2.1
  | tuple _ _ =>
    refine ⟨rfl, ?_, fun _ _ h => (by cases h), fun _ _ _ _ h => (by cases h)⟩
    rw [u07_typeOf]; rfl

/-- the members of the result of `inferFromReturns` -/
theorem u07_infer_ok {body : List Stmt} {ts : List AType} (h : inferFromReturns body = .ok (some (.tuple ts))) :
    findReturns body ≠ [] ∧ ts = sortBy u07_keyLe (u07_collected body) := by
  rw [u07_inferFromReturns_eq] at h
  split at h
  · cases h
  · rename_i hne
    simp only [Except.ok.injEq, Option.some.injEq, AType.tuple.injEq] at h
    exact ⟨fun h' => hne (by rw [h']; rfl), h.symm⟩

theorem u07_mem_sorted_collected (body : List Stmt) (t : AType) :
    t ∈ sortBy u07_keyLe (u07_collected body) ↔ t ∈ u07_collected body :=
  (sortBy_perm u07_keyLe _).mem_iff

theorem u07_collected_sound {body : List Stmt} {t : AType} (h : t ∈ u07_collected body) : u07_Cand body t := by
  rcases u07_mem_addAll h with h | h
  · exact absurd h List.not_mem_nil
  · exact (u07_mem_candidates body t).1 h

theorem u07_collected_complete {body : List Stmt} {t : AType} (h : u07_Cand body t) :
    t ∈ u07_collected body :=
  u07_addAll_covers [] _ t ((u07_mem_candidates body t).2 h)

/-- the members of the collection are exactly the candidates -/
theorem u07_mem_collected_iff (body : List Stmt) (t : AType) : t ∈ u07_collected body ↔ u07_Cand body t :=
  ⟨u07_collected_sound, u07_collected_complete⟩

/-! ### 6. parameters: `argumentKind`, `defaultOf`, `parseParameter` -/

/-- the declared type of a parameter (textual copy of the first block of `parseParameter`):
    `argument.variable.type` translated, when the parameter is annotated -/
def u07_declaredType (env : AEnv) (a : Arg) : V (Option AType) :=
  match a.varType with
  | none => throwV .valueError
  | some mt =>
    if isIncorrectAny mt then pure none
    else
      match a.annotation with
      | some (.unbound n args) =>
        if (n == "list" || n == "set") && args.length ≥ 2 then do
          let t ← toAbstract env (.unbound n args) none; pure (some t)
        else do let t ← toAbstract env mt none; pure (some t)
      | some _ => do let t ← toAbstract env mt none; pure (some t)
      | none => pure none

/-- default value, "the default is `None`", and the type after looking at the initializer -/
def u07_defaultTriple (fid : String) (a : Arg) (argT : Option AType) : DefaultVal × Bool × Option AType :=
  match a.init with
  | none => (.none, false, argT)
  | some e =>
    ((defaultOf fid e).1, (defaultOf fid e).2.1,
      if argT.isNone && ((defaultOf fid e).2.1 || (defaultOf fid e).1 != .none) then some (u07_typeOf e) else argT)

/-- is a default that is written as a literal -/
inductive u07_LitDefault : Expr → Prop
  | int (v : Int) : u07_LitDefault (.int v)
  | float (r : String) : u07_LitDefault (.float r)
  | str (v : String) : u07_LitDefault (.str v)
  | none (fq : String) (b : Bool) (tn tq : String) : u07_LitDefault (.name "None" fq b tn tq)
  | true (fq : String) (b : Bool) (tn tq : String) : u07_LitDefault (.name "True" fq b tn tq)
  | false (fq : String) (b : Bool) (tn tq : String) : u07_LitDefault (.name "False" fq b tn tq)
  | negInt (v : Int) : u07_LitDefault (.unary "-" (.int v))
  | negFloat (r : String) : u07_LitDefault (.unary "-" (.float r))

theorem u07_parseParameter_ok {env : AEnv} {f : FuncDef} {fid : String} {a : Arg} {s s' : VSt} {p : Parameter}
    (h : parseParameter env f fid a s = .ok (p, s')) :
    ∃ argT s1 kind, u07_declaredType env a s = .ok (argT, s1) ∧ argumentKind a = .ok kind ∧
      p.id = fid ++ "/" ++ a.name ∧ p.name = a.name ∧ p.assignedBy = kind ∧
      p.default = (u07_defaultTriple fid a argT).1 ∧
      p.isOptional = ((u07_defaultTriple fid a argT).1 != .none || (u07_defaultTriple fid a argT).2.1) ∧
      p.type = (u07_defaultTriple fid a argT).2.2 := by
  unfold parseParameter at h
  have hh := k12_bind_ok h; clear h; obtain ⟨argT, s1, h1, h⟩ := hh
  have hh := k12_bind_ok h; clear h; obtain ⟨x, s2, h2, h⟩ := hh
  obtain ⟨d, n, t⟩ := x
  dsimp only at h
  have hh := k12_bind_ok h; clear h; obtain ⟨kind, s3, h3, h⟩ := hh
  have hh := k12_bind_ok h; clear h; obtain ⟨s4, s5, _, h⟩ := hh
  have hh := k12_bind_ok h; clear h; obtain ⟨doc, s6, _, h⟩ := hh
  obtain ⟨rfl, _⟩ := k12_pure_ok h
  have hk : argumentKind a = .ok kind := by
    cases hk : argumentKind a with
    | error e => rw [hk] at h3; exact absurd h3 (by simp [throwV])
    | ok k => rw [hk] at h3; rw [(k12_pure_ok h3).1]
  have ht : (d, n, t) = u07_defaultTriple fid a argT := by
    unfold u07_defaultTriple
    cases hi : a.init with
    | none =>
      rw [hi] at h2
      exact (k12_pure_ok h2).1
    | some e =>
      rw [hi] at h2
      dsimp only at h2 ⊢
      generalize defaultOf fid e = tr at h2 ⊢
      obtain ⟨d', n', ws⟩ := tr
      dsimp only at h2 ⊢
      have hh := k12_bind_ok h2; clear h2; obtain ⟨_, s7, _, h2⟩ := hh
      split at h2
      · rename_i hc
        rw [u07_exprToType_eq] at h2
        rw [if_pos hc]; exact (k12_pure_ok h2).1
      · rename_i hc
        rw [if_neg hc]; exact (k12_pure_ok h2).1
  refine ⟨argT, s1, kind, h1, hk, rfl, rfl, rfl, ?_, ?_, ?_⟩
  · rw [← ht]
  · rw [← ht]
  · rw [← ht]

theorem u07_argumentKind_cases (a : Arg) :
    (a.isSelf = true ∨ a.isCls = true → argumentKind a = .ok .implicit) ∧
    (a.isSelf = false → a.isCls = false →
      ((a.kind = 0 ∨ a.kind = 1) → a.posOnly = true → argumentKind a = .ok .positionOnly) ∧
      ((a.kind = 0 ∨ a.kind = 1) → a.posOnly = false → argumentKind a = .ok .positionOrName) ∧
      (a.kind = 2 → argumentKind a = .ok .positionalVararg) ∧
      ((a.kind = 3 ∨ a.kind = 5) → argumentKind a = .ok .nameOnly) ∧
      (a.kind = 4 → argumentKind a = .ok .namedVararg) ∧
      (6 ≤ a.kind → argumentKind a = .error .valueError)) := by
  obtain ⟨name, isSelf, isCls, kind, posOnly, vt, an, init⟩ := a
  dsimp only
  refine ⟨?_, ?_⟩
  · rintro (rfl | rfl) <;> simp [argumentKind]
  · rintro rfl rfl
    refine ⟨?_, ?_, ?_, ?_, ?_, ?_⟩
    · rintro (rfl | rfl) rfl <;> simp [argumentKind]
    · rintro (rfl | rfl) rfl <;> simp [argumentKind]
    · rintro rfl; simp [argumentKind]
    · rintro (rfl | rfl) <;> simp [argumentKind]
    · rintro rfl; simp [argumentKind]
    · intro h
      have h0 : (kind == 0) = false := by rw [beq_eq_false_iff_ne]; omega
      have h1 : (kind == 1) = false := by rw [beq_eq_false_iff_ne]; omega
      have h2 : (kind == 2) = false := by rw [beq_eq_false_iff_ne]; omega
      have h3 : (kind == 3) = false := by rw [beq_eq_false_iff_ne]; omega
      have h4 : (kind == 4) = false := by rw [beq_eq_false_iff_ne]; omega
      have h5 : (kind == 5) = false := by rw [beq_eq_false_iff_ne]; omega
      simp [argumentKind, h0, h1, h2, h3, h4, h5]

/-! ### 7. `createInferredResults`: the two-dimensional result array in closed form -/

/-- textual copy of the local function `stepI` -/
def u07_stepI (st : List (List AType) × Nat × Nat) (ti : AType) : List (List AType) × Nat × Nat :=
  let (arr, longest, i) := st
  if arr.length > i then
    let col := arr.getD i []
    if !typeInSet ti col then
      let col' := col ++ [ti]
      (arr.set i col', if col'.length > longest then col'.length else longest, i + 1)
    else (arr, longest, i + 1)
  else (arr ++ [[ti]], longest, i + 1)

/-- textual copy of the local function `place` -/
def u07_place (acc : Except PyErr (List (List AType) × Nat)) (t : AType) : Except PyErr (List (List AType) × Nat) :=
  match acc with
  | .error e => .error e
  | .ok (arr, longest) =>
    match t with
    | .named .. =>
      (match arr with
       | [] => .ok ([[t]], longest)
       | first :: rest => .ok ((first ++ [t]) :: rest, longest))
    | .tuple ts =>
      let (arr', longest', _) := ts.foldl u07_stepI (arr, longest, 0)
      .ok (arr', longest')
    | _ => .error .typeError

/-- the type of a result from its column: the single member, else the union -/
def u07_colType : List AType → AType
  | [x] => x
  | xs => .union xs

def u07_noneT : AType := .named "None" "builtins.None"

/-- a column shorter than `longest` gets `None`, unless it has it -/
def u07_pad (longest : Nat) (col : List AType) : List AType :=
  if col.length < longest && !typeInSet u07_noneT col then col ++ [u07_noneT] else col

/-- the docstring entry that names a result of type `rtype` (textual copy) -/
def u07_docFor (docs : List ResultDoc) (rtype : AType) : Option ResultDoc :=
  if docs.isEmpty then none
  else match rtype with
    | .union _ =>
      let possible : Option AType :=
        if docs.length > 1 then some (.union (docs.filterMap (·.type))) else (docs.headD {}).type
      (match possible with
       | some p => if p.pyEq rtype then docs.head? else none
       | none => none)
    | _ => docs.find? (fun d => typeHashEq d.type rtype)

/-- textual copy of the local function `build` -/
def u07_build (docs : List ResultDoc) (functionId : String) (acc : List Result × Nat) (col : List AType) :
    List Result × Nat :=
  let (out, k) := acc
  let rtype := match col with
    | [x] => x
    | xs => AType.union xs
  let doc : Option ResultDoc := u07_docFor docs rtype
  let (name, k') := match doc with
    | some d => if d.name != "" then (d.name, k) else (resultNameGen k, k + 1)
    | none => (resultNameGen k, k + 1)
  (out ++ [{ id := functionId ++ "/" ++ name, name := name, type := some rtype }], k')

/-- textual copy of the second half of `createInferredResults` -/
def u07_finish (arr : List (List AType)) (longest : Nat) (docs : List ResultDoc) (functionId : String) :
    Except PyErr (List Result) :=
  let arr := arr.map (u07_pad longest)
  match arr, docs with
  | [[single]], [d] =>
    let name := if d.name != "" then d.name else resultNameGen 1
    .ok [{ id := functionId ++ "/" ++ name, name := name, type := some single }]
  | _, _ => .ok (arr.foldl (u07_build docs functionId) ([], 1)).1

theorem u07_createInferredResults_unfold (types : List AType) (docs : List ResultDoc) (fid : String) :
    createInferredResults types docs fid =
      match types.foldl u07_place (.ok ([], 1)) with
      | .error e => .error e
      | .ok (arr, longest) => u07_finish arr longest docs fid := rfl

/-- the components of a tuple merged into the columns, position by position -/
def u07_merge : List (List AType) → List AType → List (List AType)
  | cols, [] => cols
  | [], t :: ts => [t] :: u07_merge [] ts
  | c :: cs, t :: ts => u07_ins c t :: u07_merge cs ts

/-- `longest` after merging a tuple: the maximum with the new lengths of the EXISTING columns that grew -/
def u07_mergeLongest : Nat → List (List AType) → List AType → Nat
  | m, _, [] => m
  | m, [], _ :: _ => m
  | m, c :: cs, t :: ts => u07_mergeLongest (if typeInSet t c then m else max m (c.length + 1)) cs ts

theorem u07_merge_nil_right (cols : List (List AType)) : u07_merge cols [] = cols := by
  cases cols <;> rfl

theorem u07_mergeLongest_nil_left (m : Nat) (ts : List AType) : u07_mergeLongest m [] ts = m := by
  cases ts <;> rfl

theorem u07_foldl_stepI (ts : List AType) : ∀ (pre rest : List (List AType)) (longest : Nat),
    ts.foldl u07_stepI (pre ++ rest, longest, pre.length)
      = (pre ++ u07_merge rest ts, u07_mergeLongest longest rest ts, pre.length + ts.length) := by
  induction ts with
  | nil =>
    intro pre rest longest
    rw [u07_merge_nil_right]
    cases rest <;> rfl
  | cons t ts ih =>
    intro pre rest longest
    rw [List.foldl_cons]
    cases rest with
    | nil =>
      have h1 : u07_stepI (pre ++ [], longest, pre.length) t = ((pre ++ [[t]]) ++ [], longest, (pre ++ [[t]]).length) := by
        simp [u07_stepI]
      rw [h1, ih, u07_mergeLongest_nil_left, u07_mergeLongest_nil_left]
      simp [u07_merge]
      omega
    | cons c cs =>
      have hlen : (pre ++ c :: cs).length > pre.length := by simp
      have hget : (pre ++ c :: cs).getD pre.length [] = c := by simp [List.getD]
      have hset : ∀ c', (pre ++ c :: cs).set pre.length c' = pre ++ c' :: cs := by
        intro c'; simp
      cases hin : typeInSet t c with
      | true =>
        have h1 : u07_stepI (pre ++ c :: cs, longest, pre.length) t
            = ((pre ++ [c]) ++ cs, longest, (pre ++ [c]).length) := by
          simp only [u07_stepI, hlen, if_true, hget, hin, Bool.not_true, Bool.false_eq_true, if_false]
          simp
        rw [h1, ih]
        simp [u07_merge, u07_mergeLongest, u07_ins, hin]
        omega
      | false =>
        have h1 : u07_stepI (pre ++ c :: cs, longest, pre.length) t
            = ((pre ++ [c ++ [t]]) ++ cs, max longest (c.length + 1), (pre ++ [c ++ [t]]).length) := by
          simp only [u07_stepI, hlen, if_true, hget, hin, Bool.not_false, hset]
          simp only [List.length_append, List.length_cons, List.length_nil, Prod.mk.injEq]
          refine ⟨by simp, ?_, by simp⟩
          split <;> omega
        rw [h1, ih]
        simp [u07_merge, u07_mergeLongest, u07_ins, hin]
        omega

/-- one step of the array, for a class or a tuple -/
def u07_placeP (st : List (List AType) × Nat) (t : AType) : List (List AType) × Nat :=
  match t with
  | .tuple ts => (u07_merge st.1 ts, u07_mergeLongest st.2 st.1 ts)
  | _ => (match st.1 with
      | [] => ([[t]], st.2)
      | first :: rest => ((first ++ [t]) :: rest, st.2))

theorem u07_place_ok (arr : List (List AType)) (longest : Nat) (t : AType) (h : isNamedOrTuple t = true) :
    u07_place (.ok (arr, longest)) t = .ok (u07_placeP (arr, longest) t) := by
  cases t with
  | named n q =>
    cases arr <;> rfl
  | tuple ts =>
    have := u07_foldl_stepI ts [] arr longest
    simp only [List.nil_append, List.length_nil] at this
    simp only [u07_place, u07_placeP, this]
  | _ => cases h

theorem u07_place_err (arr : List (List AType)) (longest : Nat) (t : AType) (h : isNamedOrTuple t = false) :
    u07_place (.ok (arr, longest)) t = .error .typeError := by
  cases t with
  | named n q => cases h
  | tuple ts => cases h
  | _ => rfl

theorem u07_foldl_place_error (types : List AType) (e : PyErr) : types.foldl u07_place (.error e) = .error e := by
  induction types with
  | nil => rfl
  | cons t ts ih => rw [List.foldl_cons]; exact ih

theorem u07_foldl_place_ok (types : List AType) (h : ∀ t ∈ types, isNamedOrTuple t = true)
    (st : List (List AType) × Nat) :
    types.foldl u07_place (.ok st) = .ok (types.foldl u07_placeP st) := by
  induction types generalizing st with
  | nil => rfl
  | cons t ts ih =>
    obtain ⟨arr, longest⟩ := st
    rw [List.foldl_cons, u07_place_ok arr longest t (h t List.mem_cons_self),
      ih (fun x hx => h x (List.mem_cons_of_mem _ hx)), List.foldl_cons]

theorem u07_foldl_place_bad (types : List AType) (h : ∃ t ∈ types, isNamedOrTuple t = false)
    (st : List (List AType) × Nat) :
    types.foldl u07_place (.ok st) = .error .typeError := by
  induction types generalizing st with
  | nil => obtain ⟨t, ht, _⟩ := h; exact absurd ht List.not_mem_nil
  | cons t ts ih =>
    obtain ⟨arr, longest⟩ := st
    rw [List.foldl_cons]
    cases ht : isNamedOrTuple t with
    | false => rw [u07_place_err arr longest t ht, u07_foldl_place_error]
    | true =>
      rw [u07_place_ok arr longest t ht]
      refine ih ?_ _
      obtain ⟨x, hx, hxf⟩ := h
      rcases List.mem_cons.1 hx with rfl | hx
      · rw [ht] at hxf; cases hxf
      · exact ⟨x, hx, hxf⟩

/-! ### 8. number of results, members per position -/

/-- a class counts as a tuple of length 1 -/
def u07_width : AType → Nat
  | .tuple ts => ts.length
  | _ => 1

def u07_maxWidth (types : List AType) : Nat := types.foldl (fun m t => max m (u07_width t)) 0

/-- one step of column `i`: a class goes to column 0 (always appended), the `i`-th component of a tuple
    is appended unless the column has it already -/
def u07_colStep (i : Nat) (col : List AType) (t : AType) : List AType :=
  match t with
  | .tuple ts => (match ts[i]? with
      | none => col
      | some ti => u07_ins col ti)
  | _ => if i = 0 then col ++ [t] else col

/-- column `i` of the result array -/
def u07_colAt (i : Nat) (types : List AType) : List AType := types.foldl (u07_colStep i) []

/-- the final value of the variable `longest_inner_list` (starts at 1) -/
def u07_longest (types : List AType) : Nat := (types.foldl u07_placeP ([], 1)).2

theorem u07_merge_length (cols : List (List AType)) (ts : List AType) :
    (u07_merge cols ts).length = max cols.length ts.length := by
  induction cols generalizing ts with
  | nil =>
    induction ts with
    | nil => rfl
    | cons t ts ih => simp only [u07_merge, List.length_cons, ih]; simp
  | cons c cs ih =>
    cases ts with
    | nil => simp [u07_merge]
    | cons t ts => simp only [u07_merge, List.length_cons, ih]; omega

theorem u07_ins_nil (t : AType) : u07_ins [] t = [t] := rfl

theorem u07_merge_getD (cols : List (List AType)) (ts : List AType) (i : Nat) :
    (u07_merge cols ts).getD i [] =
      match ts[i]? with
      | none => cols.getD i []
      | some t => u07_ins (cols.getD i []) t := by
  induction cols generalizing ts i with
  | nil =>
    induction ts generalizing i with
    | nil => rfl
    | cons t ts ih =>
      cases i with
      | zero => rfl
      | succ i =>
        simp only [u07_merge, List.getD_cons_succ, List.getElem?_cons_succ]
        rw [ih i]; simp
  | cons c cs ih =>
    cases ts with
    | nil => rfl
    | cons t ts =>
      cases i with
      | zero => rfl
      | succ i =>
        simp only [u07_merge, List.getD_cons_succ, List.getElem?_cons_succ]
        exact ih ts i

theorem u07_placeP_length (st : List (List AType) × Nat) (t : AType) :
    (u07_placeP st t).1.length = max st.1.length (u07_width t) := by
  obtain ⟨arr, l⟩ := st
  cases t with
  | tuple ts => exact u07_merge_length arr ts
  | _ => cases arr <;> simp [u07_placeP, u07_width]

theorem u07_placeP_getD (st : List (List AType) × Nat) (t : AType) (i : Nat) :
    (u07_placeP st t).1.getD i [] = u07_colStep i (st.1.getD i []) t := by
  obtain ⟨arr, l⟩ := st
  cases t with
  | tuple ts => exact u07_merge_getD arr ts i
  | _ => cases arr <;> cases i <;> simp [u07_placeP, u07_colStep]

theorem u07_foldl_placeP_length (types : List AType) (st : List (List AType) × Nat) :
    (types.foldl u07_placeP st).1.length = types.foldl (fun m t => max m (u07_width t)) st.1.length := by
  induction types generalizing st with
  | nil => rfl
  | cons t ts ih => rw [List.foldl_cons, ih, u07_placeP_length, List.foldl_cons]

theorem u07_foldl_placeP_getD (types : List AType) (st : List (List AType) × Nat) (i : Nat) :
    (types.foldl u07_placeP st).1.getD i [] = types.foldl (u07_colStep i) (st.1.getD i []) := by
  induction types generalizing st with
  | nil => rfl
  | cons t ts ih => rw [List.foldl_cons, ih, u07_placeP_getD, List.foldl_cons]

/-- the result array: as many columns as the widest type, column `i` is `u07_colAt i` -/
theorem u07_arr_eq (types : List AType) :
    (types.foldl u07_placeP ([], 1)).1 = (List.range (u07_maxWidth types)).map (fun i => u07_colAt i types) := by
  have hl := u07_foldl_placeP_length types ([], 1)
  apply List.ext_getElem
  · rw [hl]; simp [u07_maxWidth]
  · intro i h1 h2
    have := u07_foldl_placeP_getD types ([], 1) i
    have e : (types.foldl u07_placeP ([], 1)).1.getD i [] = (types.foldl u07_placeP ([], 1)).1[i] := by
      simp [List.getD_eq_getElem?_getD, h1]
    rw [← e, this]; simp [u07_colAt]

theorem u07_docFor_mem {docs : List ResultDoc} {rtype : AType} {d : ResultDoc}
    (h : u07_docFor docs rtype = some d) : d ∈ docs := by
  unfold u07_docFor at h
  split at h
  · cases h
  · split at h
    · dsimp only at h
      split at h
      · split at h
        · exact List.mem_of_mem_head? h
        · cases h
      · cases h
    · exact List.mem_of_find?_eq_some h

theorem u07_build_colType (col : List AType) :
    (match col with
      | [x] => x
      | xs => AType.union xs) = u07_colType col := by
  unfold u07_colType; split <;> rfl

/-- what `build` appends -/
theorem u07_build_eq (docs : List ResultDoc) (fid : String) (out : List Result) (k : Nat) (col : List AType) :
    ∃ name k', u07_build docs fid (out, k) col
        = (out ++ [{ id := fid ++ "/" ++ name, name := name, type := some (u07_colType col) }], k') ∧
      ((name = resultNameGen k ∧ k' = k + 1) ∨ (k' = k ∧ name ≠ "" ∧ ∃ d ∈ docs, d.name = name)) ∧
      (docs = [] → name = resultNameGen k ∧ k' = k + 1) := by
  unfold u07_build
  simp only [u07_build_colType]
  cases hd : u07_docFor docs (u07_colType col) with
  | none =>
    exact ⟨resultNameGen k, k + 1, rfl, .inl ⟨rfl, rfl⟩, fun _ => ⟨rfl, rfl⟩⟩
  | some d =>
    have hm := u07_docFor_mem hd
    by_cases hn : (d.name != "") = true
    · refine ⟨d.name, k, by simp only [hn, if_true], .inr ⟨rfl, by simpa using hn, d, hm, rfl⟩, ?_⟩
      rintro rfl; exact absurd hm List.not_mem_nil
    · refine ⟨resultNameGen k, k + 1, by simp only [hn]; rfl, .inl ⟨rfl, rfl⟩, fun _ => ⟨rfl, rfl⟩⟩

/-- the relation between the columns and the results produced from them, with the counter of generated
    names -/
inductive u07_Built (docs : List ResultDoc) (fid : String) : Nat → List (List AType) → List Result → Prop
  | nil (k : Nat) : u07_Built docs fid k [] []
  | gen {k : Nat} {col : List AType} {cols : List (List AType)} {rs : List Result} :
      u07_Built docs fid (k + 1) cols rs →
      u07_Built docs fid k (col :: cols)
        ({ id := fid ++ "/" ++ resultNameGen k, name := resultNameGen k, type := some (u07_colType col) } :: rs)
  | doc {k : Nat} {col : List AType} {cols : List (List AType)} {rs : List Result} (d : ResultDoc) :
      d ∈ docs → d.name ≠ "" →
      u07_Built docs fid k cols rs →
      u07_Built docs fid k (col :: cols)
        ({ id := fid ++ "/" ++ d.name, name := d.name, type := some (u07_colType col) } :: rs)

theorem u07_foldl_build (docs : List ResultDoc) (fid : String) (cols : List (List AType)) (out : List Result) (k : Nat) :
    ∃ rs, (cols.foldl (u07_build docs fid) (out, k)).1 = out ++ rs ∧ u07_Built docs fid k cols rs ∧
      (docs = [] → rs.map (·.name) = (List.range cols.length).map (fun i => resultNameGen (k + i))) := by
  induction cols generalizing out k with
  | nil => exact ⟨[], (List.append_nil _).symm, .nil k, fun _ => rfl⟩
  | cons col cols ih =>
    obtain ⟨name, k', hb, hk, hdn⟩ := u07_build_eq docs fid out k col
    rw [List.foldl_cons, hb]
    obtain ⟨rs, h1, h2, h3⟩ := ih (out ++ [{ id := fid ++ "/" ++ name, name := name, type := some (u07_colType col) }]) k'
    refine ⟨{ id := fid ++ "/" ++ name, name := name, type := some (u07_colType col) } :: rs, ?_, ?_, ?_⟩
    · rw [h1]; simp
    · rcases hk with ⟨rfl, rfl⟩ | ⟨rfl, hne, d, hd, rfl⟩
      · exact .gen h2
      · exact .doc d hd hne h2
    · intro he
      obtain ⟨rfl, rfl⟩ := hdn he
      rw [List.length_cons, List.range_succ_eq_map, List.map_cons, List.map_cons, List.map_map, h3 he]
      refine congrArg₂ _ rfl ?_
      apply List.map_congr_left
      intro i _
      show resultNameGen (k + 1 + i) = resultNameGen (k + (i + 1))
      rw [Nat.add_assoc, Nat.add_comm 1 i]

theorem u07_Built.length {docs : List ResultDoc} {fid : String} {k : Nat} {cols : List (List AType)} {rs : List Result}
    (h : u07_Built docs fid k cols rs) : rs.length = cols.length := by
  induction h with
  | nil => rfl
  | gen _ ih => simp [ih]
  | doc _ _ _ _ ih => simp [ih]

theorem u07_Built.types {docs : List ResultDoc} {fid : String} {k : Nat} {cols : List (List AType)} {rs : List Result}
    (h : u07_Built docs fid k cols rs) : rs.map (·.type) = cols.map (fun c => some (u07_colType c)) := by
  induction h with
  | nil => rfl
  | gen _ ih => simp [ih]
  | doc _ _ _ _ ih => simp [ih]

theorem u07_Built.ids {docs : List ResultDoc} {fid : String} {k : Nat} {cols : List (List AType)} {rs : List Result}
    (h : u07_Built docs fid k cols rs) : ∀ r ∈ rs, r.id = fid ++ "/" ++ r.name := by
  induction h with
  | nil => intro r hr; exact absurd hr List.not_mem_nil
  | gen _ ih =>
    intro r hr
    rcases List.mem_cons.1 hr with rfl | hr
    · rfl
    · exact ih r hr
  | doc _ _ _ _ ih =>
    intro r hr
    rcases List.mem_cons.1 hr with rfl | hr
    · rfl
    · exact ih r hr

/-- a name is a non-empty documented name or a generated one with a number from `k` on, below
    `k + number of results` -/
theorem u07_Built.names {docs : List ResultDoc} {fid : String} {k : Nat} {cols : List (List AType)} {rs : List Result}
    (h : u07_Built docs fid k cols rs) :
    ∀ r ∈ rs, (∃ d ∈ docs, d.name ≠ "" ∧ r.name = d.name) ∨ (∃ j, k ≤ j ∧ j < k + rs.length ∧ r.name = resultNameGen j) := by
  induction h with
  | nil => intro r hr; exact absurd hr List.not_mem_nil
  | @gen k col cols rs _ ih =>
    intro r hr
    rcases List.mem_cons.1 hr with rfl | hr
    · exact .inr ⟨k, Nat.le_refl _, by simp, rfl⟩
    · rcases ih r hr with h | ⟨j, h1, h2, h3⟩
      · exact .inl h
      · exact .inr ⟨j, by omega, by simp only [List.length_cons]; omega, h3⟩
  | @doc k col cols rs d hd hne _ ih =>
    intro r hr
    rcases List.mem_cons.1 hr with rfl | hr
    · exact .inl ⟨d, hd, hne, rfl⟩
    · rcases ih r hr with h | ⟨j, h1, h2, h3⟩
      · exact .inl h
      · exact .inr ⟨j, h1, by simp only [List.length_cons]; omega, h3⟩

theorem u07_finish_ok (arr : List (List AType)) (longest : Nat) (docs : List ResultDoc) (fid : String) :
    ∃ rs, u07_finish arr longest docs fid = .ok rs ∧ u07_Built docs fid 1 (arr.map (u07_pad longest)) rs ∧
      (docs = [] → rs.map (·.name) = (List.range arr.length).map (fun i => resultNameGen (1 + i))) := by
  unfold u07_finish
  dsimp only
  split
  · rename_i _ _ single d heq
    rw [heq]
    by_cases hn : (d.name != "") = true
    · refine ⟨_, rfl, ?_, fun h => by cases h⟩
      simp only [hn, if_true]
      exact .doc d (List.mem_singleton.2 rfl) (by simpa using hn) (.nil 1)
    · refine ⟨_, rfl, ?_, fun h => by cases h⟩
      simp only [hn]
      exact .gen (.nil 2)
  · rename_i docs _ _ _
    obtain ⟨rs, h1, h2, h3⟩ := u07_foldl_build docs fid (arr.map (u07_pad longest)) [] 1
    refine ⟨rs, by rw [h1]; rfl, h2, fun he => ?_⟩
    rw [h3 he, List.length_map]

theorem u07_createInferredResults_ok (types : List AType) (docs : List ResultDoc) (fid : String)
    (h : ∀ t ∈ types, isNamedOrTuple t = true) :
    ∃ rs, createInferredResults types docs fid = .ok rs ∧
      u07_Built docs fid 1
        ((List.range (u07_maxWidth types)).map (fun i => u07_pad (u07_longest types) (u07_colAt i types))) rs ∧
      (docs = [] → rs.map (·.name) = (List.range (u07_maxWidth types)).map (fun i => resultNameGen (1 + i))) := by
  rw [u07_createInferredResults_unfold, u07_foldl_place_ok types h]
  obtain ⟨rs, h1, h2, h3⟩ := u07_finish_ok (types.foldl u07_placeP ([], 1)).1 (types.foldl u07_placeP ([], 1)).2 docs fid
  refine ⟨rs, h1, ?_, ?_⟩
  · rw [u07_arr_eq, List.map_map] at h2
    exact h2
  · intro he
    rw [h3 he, u07_arr_eq]; simp

theorem u07_createInferredResults_err (types : List AType) (docs : List ResultDoc) (fid : String)
    (h : ∃ t ∈ types, isNamedOrTuple t = false) :
    createInferredResults types docs fid = .error .typeError := by
  rw [u07_createInferredResults_unfold, u07_foldl_place_bad types h]

/-! members of a column -/

/-- the `i`-th component of a type: of a tuple its `i`-th member, a class is its own component 0 -/
def u07_comp (i : Nat) : AType → Option AType
  | .tuple ts => ts[i]?
  | t => if i = 0 then some t else none

theorem u07_mem_colStep {i : Nat} {col : List AType} {t x : AType} (h : x ∈ u07_colStep i col t) :
    x ∈ col ∨ u07_comp i t = some x := by
  cases t with
  | tuple ts =>
    simp only [u07_colStep, u07_comp] at h ⊢
    split at h
    · exact .inl h
    · rename_i ti hti
      rcases u07_mem_ins h with h | h
      · exact .inl h
      · exact .inr (by rw [hti, h])
  | _ =>
    simp only [u07_colStep, u07_comp] at h ⊢
    split at h
    · rename_i hi
      rcases List.mem_append.1 h with h | h
      · exact .inl h
      · exact .inr (by rw [if_pos hi, List.mem_singleton.1 h])
    · exact .inl h

theorem u07_subset_colStep (i : Nat) (col : List AType) (t : AType) : ∀ x ∈ col, x ∈ u07_colStep i col t := by
  intro x hx
  cases t with
  | tuple ts =>
    simp only [u07_colStep]
    split
    · exact hx
    · exact u07_subset_ins _ _ x hx
  | _ =>
    simp only [u07_colStep]
    split
    · exact List.mem_append_left _ hx
    · exact hx

theorem u07_colStep_covers {i : Nat} (col : List AType) {t x : AType} (h : u07_comp i t = some x) :
    ∃ y ∈ u07_colStep i col t, y.pyEq x = true := by
  cases t with
  | tuple ts =>
    simp only [u07_comp] at h
    simp only [u07_colStep, h]
    exact (u07_typeInSet_iff _ _).1 (u07_ins_covers col x)
  | _ =>
    simp only [u07_comp] at h
    split at h
    · rename_i hi
      cases h
      simp only [u07_colStep, if_pos hi]
      exact ⟨_, List.mem_append_right _ (List.mem_singleton.2 rfl), u07_pyEq_refl _⟩
    · cases h

theorem u07_mem_foldl_colStep {i : Nat} {types : List AType} {col : List AType} {x : AType}
    (h : x ∈ types.foldl (u07_colStep i) col) : x ∈ col ∨ ∃ t ∈ types, u07_comp i t = some x := by
  induction types generalizing col with
  | nil => exact .inl h
  | cons t ts ih =>
    rcases ih (col := u07_colStep i col t) h with h | ⟨t', ht', hc⟩
    · rcases u07_mem_colStep h with h | h
      · exact .inl h
      · exact .inr ⟨t, List.mem_cons_self, h⟩
    · exact .inr ⟨t', List.mem_cons_of_mem _ ht', hc⟩

theorem u07_subset_foldl_colStep (i : Nat) (types : List AType) (col : List AType) :
    ∀ x ∈ col, x ∈ types.foldl (u07_colStep i) col := by
  induction types generalizing col with
  | nil => exact fun x hx => hx
  | cons t ts ih => exact fun x hx => ih _ x (u07_subset_colStep i col t x hx)

theorem u07_foldl_colStep_covers {i : Nat} {types : List AType} (col : List AType) {t x : AType}
    (ht : t ∈ types) (h : u07_comp i t = some x) : ∃ y ∈ types.foldl (u07_colStep i) col, y.pyEq x = true := by
  induction types generalizing col with
  | nil => exact absurd ht List.not_mem_nil
  | cons a ts ih =>
    rcases List.mem_cons.1 ht with rfl | ht
    · obtain ⟨y, hy, hyx⟩ := u07_colStep_covers col h
      exact ⟨y, u07_subset_foldl_colStep i ts _ y hy, hyx⟩
    · exact ih _ ht

theorem u07_mem_pad (longest : Nat) (col : List AType) (x : AType) :
    x ∈ u07_pad longest col ↔
      x ∈ col ∨ (x = u07_noneT ∧ col.length < longest ∧ typeInSet u07_noneT col = false) := by
  unfold u07_pad
  by_cases h1 : col.length < longest
  · cases h2 : typeInSet u07_noneT col with
    | true => simp [h1]
    | false => simp [h1]
  · simp [h1]

theorem u07_mergeLongest_ge (m : Nat) (cols : List (List AType)) (ts : List AType) :
    m ≤ u07_mergeLongest m cols ts := by
  induction cols generalizing m ts with
  | nil => rw [u07_mergeLongest_nil_left]
  | cons c cs ih =>
    cases ts with
    | nil => exact Nat.le_refl _
    | cons t ts =>
      rw [u07_mergeLongest]
      refine Nat.le_trans ?_ (ih _ ts)
      split
      · exact Nat.le_refl _
      · exact Nat.le_max_left _ _

theorem u07_longest_pos (types : List AType) : 1 ≤ u07_longest types := by
  unfold u07_longest
  suffices h : ∀ st : List (List AType) × Nat, 1 ≤ st.2 → 1 ≤ (types.foldl u07_placeP st).2 from h _ (Nat.le_refl _)
  induction types with
  | nil => exact fun st h => h
  | cons t ts ih =>
    intro st h
    rw [List.foldl_cons]
    apply ih
    obtain ⟨arr, l⟩ := st
    cases t with
    | tuple us => exact Nat.le_trans h (u07_mergeLongest_ge _ _ _)
    | _ => cases arr <;> exact h

theorem u07_foldl_max {α : Type} (f : α → Nat) (l : List α) (a : Nat) :
    a ≤ l.foldl (fun m t => max m (f t)) a ∧ (∀ t ∈ l, f t ≤ l.foldl (fun m t => max m (f t)) a) ∧
      (l.foldl (fun m t => max m (f t)) a = a ∨ ∃ t ∈ l, f t = l.foldl (fun m t => max m (f t)) a) := by
  induction l generalizing a with
  | nil => exact ⟨Nat.le_refl _, fun _ h => absurd h List.not_mem_nil, .inl rfl⟩
  | cons x xs ih =>
    obtain ⟨h1, h2, h3⟩ := ih (max a (f x))
    rw [List.foldl_cons]
    refine ⟨Nat.le_trans (Nat.le_max_left _ _) h1, ?_, ?_⟩
    · intro t ht
      rcases List.mem_cons.1 ht with rfl | ht
      · exact Nat.le_trans (Nat.le_max_right _ _) h1
      · exact h2 t ht
    · rcases h3 with h3 | ⟨t, ht, h3⟩
      · rcases Nat.le_total a (f x) with hle | hle
        · exact .inr ⟨x, List.mem_cons_self, by rw [h3, Nat.max_eq_right hle]⟩
        · exact .inl (by rw [h3, Nat.max_eq_left hle])
      · exact .inr ⟨t, List.mem_cons_of_mem _ ht, h3⟩

theorem u07_cand_namedOrTuple {body : List Stmt} {t : AType} (h : u07_Cand body t) : isNamedOrTuple t = true := by
  rcases h with ⟨_, _, _, _, h⟩ | ⟨_, _, _, _, _, rfl⟩
  · exact h
  · rfl

/-! `longest` is bounded by the length of some column -/

theorem u07_ins_length_ge (c : List AType) (t : AType) : c.length ≤ (u07_ins c t).length := by
  unfold u07_ins; split <;> simp

theorem u07_merge_grows (cols : List (List AType)) (ts : List AType) :
    ∀ c ∈ cols, ∃ c' ∈ u07_merge cols ts, c.length ≤ c'.length := by
  induction cols generalizing ts with
  | nil => intro c hc; exact absurd hc List.not_mem_nil
  | cons a as ih =>
    intro c hc
    cases ts with
    | nil => exact ⟨c, hc, Nat.le_refl _⟩
    | cons t ts =>
      rw [u07_merge]
      rcases List.mem_cons.1 hc with rfl | hc
      · exact ⟨_, List.mem_cons_self, u07_ins_length_ge _ t⟩
      · obtain ⟨c', h1, h2⟩ := ih ts c hc
        exact ⟨c', List.mem_cons_of_mem _ h1, h2⟩

theorem u07_mergeLongest_bound (m : Nat) (cols : List (List AType)) (ts : List AType) :
    u07_mergeLongest m cols ts = m ∨ ∃ c' ∈ u07_merge cols ts, u07_mergeLongest m cols ts ≤ c'.length := by
  induction cols generalizing m ts with
  | nil => exact .inl (u07_mergeLongest_nil_left m ts)
  | cons c cs ih =>
    cases ts with
    | nil => exact .inl rfl
    | cons t ts =>
      rw [u07_mergeLongest, u07_merge]
      rcases ih (if typeInSet t c then m else max m (c.length + 1)) ts with h | ⟨c', h1, h2⟩
      · rw [h]
        cases hin : typeInSet t c with
        | true => exact .inl (by simp)
        | false =>
          simp only [Bool.false_eq_true, if_false]
          rcases Nat.le_total (c.length + 1) m with hle | hle
          · exact .inl (Nat.max_eq_left hle)
          · refine .inr ⟨u07_ins c t, List.mem_cons_self, ?_⟩
            rw [Nat.max_eq_right hle]
            simp [u07_ins, hin]
      · exact .inr ⟨c', List.mem_cons_of_mem _ h1, h2⟩

theorem u07_placeP_bound (st : List (List AType) × Nat) (t : AType)
    (h : st.2 ≤ 1 ∨ ∃ c ∈ st.1, st.2 ≤ c.length) :
    (u07_placeP st t).2 ≤ 1 ∨ ∃ c ∈ (u07_placeP st t).1, (u07_placeP st t).2 ≤ c.length := by
  obtain ⟨arr, l⟩ := st
  have named : ∀ t' : AType, (match arr with
      | [] => (([[t']] : List (List AType)), l)
      | first :: rest => ((first ++ [t']) :: rest, l)).2 ≤ 1 ∨
      ∃ c ∈ (match arr with
        | [] => (([[t']] : List (List AType)), l)
        | first :: rest => ((first ++ [t']) :: rest, l)).1,
        (match arr with
        | [] => (([[t']] : List (List AType)), l)
        | first :: rest => ((first ++ [t']) :: rest, l)).2 ≤ c.length := by
    intro t'
    cases arr with
    | nil =>
      rcases h with h | ⟨c, hc, _⟩
      · exact .inl h
      · exact absurd hc List.not_mem_nil
    | cons first rest =>
      rcases h with h | ⟨c, hc, hl⟩
      · exact .inl h
      · rcases List.mem_cons.1 hc with rfl | hc
        · exact .inr ⟨_, List.mem_cons_self, by simp only [List.length_append]; exact Nat.le_trans hl (Nat.le_add_right _ _)⟩
        · exact .inr ⟨c, List.mem_cons_of_mem _ hc, hl⟩
  cases t with
  | tuple ts =>
    show u07_mergeLongest l arr ts ≤ 1 ∨ ∃ c ∈ u07_merge arr ts, u07_mergeLongest l arr ts ≤ c.length
    rcases u07_mergeLongest_bound l arr ts with hm | hm
    · rw [hm]
      rcases h with h | ⟨c, hc, hl⟩
      · exact .inl h
      · obtain ⟨c', h1, h2⟩ := u07_merge_grows arr ts c hc
        exact .inr ⟨c', h1, Nat.le_trans hl h2⟩
    · exact .inr hm
  | _ => exact named _

theorem u07_longest_bound (types : List AType) :
    u07_longest types ≤ 1 ∨ ∃ i, i < u07_maxWidth types ∧ u07_longest types ≤ (u07_colAt i types).length := by
  have key : ∀ (l : List AType) (st : List (List AType) × Nat),
      (st.2 ≤ 1 ∨ ∃ c ∈ st.1, st.2 ≤ c.length) →
      ((l.foldl u07_placeP st).2 ≤ 1 ∨ ∃ c ∈ (l.foldl u07_placeP st).1, (l.foldl u07_placeP st).2 ≤ c.length) := by
    intro l
    induction l with
    | nil => exact fun st h => h
    | cons t ts ih => intro st h; rw [List.foldl_cons]; exact ih _ (u07_placeP_bound st t h)
  rcases key types ([], 1) (.inl (Nat.le_refl _)) with h | ⟨c, hc, hl⟩
  · exact .inl h
  · rw [u07_arr_eq, List.mem_map] at hc
    obtain ⟨i, hi, rfl⟩ := hc
    exact .inr ⟨i, List.mem_range.1 hi, hl⟩

/-! ### 9. `parseResults` of an un-annotated function -/

theorem u07_parseResults_unannotated (env : AEnv) (f : FuncDef) (fid : String) (docs : List ResultDoc) (s : VSt)
    (hn : (f.name == "__init__") = false) (hc : f.hasCallableType = false) :
    parseResults env f fid docs s =
      (if (findReturns f.body).isEmpty then .ok ([], s)
       else match createInferredResults (sortBy u07_keyLe (u07_collected f.body)) docs fid with
         | .ok rs => .ok (rs, s)
         | .error e => .error e) := by
  unfold parseResults
  have hi := u07_inferFromReturns_eq f.body
  cases he : (findReturns f.body).isEmpty with
  | true =>
    rw [he] at hi
    simp only [hn, hc, Bool.false_eq_true, if_false, hi]
    rfl
  | false =>
    rw [he] at hi
    simp only [hn, hc, Bool.false_eq_true, if_false, hi]
    simp only [bind, StateT.bind, Except.bind, pure, StateT.pure, Except.pure, Option.isSome]
    cases createInferredResults (sortBy u07_keyLe (u07_collected f.body)) docs fid with
    | ok rs => rfl
    | error e => rfl

end StubGen
