/-
Helper lemmas for `StubGen.Theorems.C08` (determinism: every list that stands for a Python `set`
or for a `Path.glob` enumeration may be permuted without changing the output).

* insertion sort is canonical on permutation classes (`p08_sortBy_perm_invariant`, keyed variant
  `p08_sortBy_map_key`);
* `pickShortest` / `shortestPublicReexport` depend on the SET of `(key, module)` pairs of the
  re-export map only;
* `getReexportedBy` under permutation of the module lists; `addReexports` commutes up to `p08_RmEquiv`;
* discovery under permutation of the enumeration.

All new names are prefixed `p08_`.
-/
import StubGen.Model.Files
import StubGen.Model.Analyze
import StubGen.Model.Discovery
import StubGen.Proofs.TypeText
import StubGen.Proofs.Markers
import StubGen.Proofs.Types
import Mathlib.Data.List.Sort
import Mathlib.Data.List.Perm.Basic
import Mathlib.Data.List.Nodup
import Mathlib.Data.String.Basic

namespace StubGen

open List

/-! ### 1. insertion sort and permutations -/

section SortSec
variable {α : Type}

theorem p08_insertBy_pairwise (le : α → α → Bool)
    (total : ∀ a b, le a b = true ∨ le b a = true)
    (trans : ∀ a b c, le a b = true → le b c = true → le a c = true)
    (a : α) (l : List α) (h : l.Pairwise (fun x y => le x y = true)) :
    (insertBy le a l).Pairwise (fun x y => le x y = true) := by
  induction l with
  | nil => simp [insertBy]
  | cons b bs ih =>
    rw [List.pairwise_cons] at h
    unfold insertBy
    split
    · rename_i hab
      refine List.pairwise_cons.2 ⟨?_, List.pairwise_cons.2 h⟩
      intro x hx
      rcases List.mem_cons.1 hx with rfl | hx
      · exact hab
      · exact trans _ _ _ hab (h.1 x hx)
    · rename_i hab
      have hba : le b a = true := (total a b).resolve_left hab
      refine List.pairwise_cons.2 ⟨?_, ih h.2⟩
      intro x hx
      rcases List.mem_cons.1 ((insertBy_perm le a bs).mem_iff.1 hx) with rfl | hx
      · exact hba
      · exact h.1 x hx

theorem p08_sortBy_pairwise (le : α → α → Bool)
    (total : ∀ a b, le a b = true ∨ le b a = true)
    (trans : ∀ a b c, le a b = true → le b c = true → le a c = true)
    (l : List α) : (sortBy le l).Pairwise (fun x y => le x y = true) := by
  induction l with
  | nil => simp [sortBy]
  | cons a as ih => exact p08_insertBy_pairwise le total trans a _ ih

/-- Insertion sort by a total preorder is canonical on permutation classes as soon as the preorder
    is antisymmetric ON THE ELEMENTS OF THE LIST. -/
theorem p08_sortBy_perm_invariant (le : α → α → Bool)
    (total : ∀ a b, le a b = true ∨ le b a = true)
    (trans : ∀ a b c, le a b = true → le b c = true → le a c = true)
    {l l' : List α}
    (antisymm : ∀ a ∈ l, ∀ b ∈ l, le a b = true → le b a = true → a = b)
    (h : l ~ l') : sortBy le l = sortBy le l' := by
  have hp : sortBy le l ~ sortBy le l' := (sortBy_perm le l).trans (h.trans (sortBy_perm le l').symm)
  refine List.Perm.eq_of_pairwise (le := fun x y => le x y = true) ?_
    (p08_sortBy_pairwise le total trans l) (p08_sortBy_pairwise le total trans l') hp
  intro a b ha hb hab hba
  exact antisymm a ((sortBy_perm le l).mem_iff.1 ha) b
    (h.mem_iff.2 ((sortBy_perm le l').mem_iff.1 hb)) hab hba

theorem p08_insertBy_map {κ : Type} (key : α → κ) (le : α → α → Bool) (leK : κ → κ → Bool)
    (hle : ∀ a b, le a b = leK (key a) (key b)) (a : α) (l : List α) :
    (insertBy le a l).map key = insertBy leK (key a) (l.map key) := by
  induction l with
  | nil => rfl
  | cons b bs ih =>
    simp only [insertBy, List.map_cons, hle a b]
    split
    · rfl
    · simp only [List.map_cons, ih]

theorem p08_sortBy_map {κ : Type} (key : α → κ) (le : α → α → Bool) (leK : κ → κ → Bool)
    (hle : ∀ a b, le a b = leK (key a) (key b)) (l : List α) :
    (sortBy le l).map key = sortBy leK (l.map key) := by
  induction l with
  | nil => rfl
  | cons a as ih =>
    simp only [sortBy, List.map_cons]
    rw [p08_insertBy_map key le leK hle, ih]

/-- Keyed variant: when `le` compares a key by a total order `leK` on the keys, the KEY SEQUENCE of
    the sorted list is a function of the permutation class (elements with equal keys may come in a
    different relative order — the sort is stable — but they are indistinguishable through `key`). -/
theorem p08_sortBy_map_key {κ : Type} (key : α → κ) (le : α → α → Bool) (leK : κ → κ → Bool)
    (hle : ∀ a b, le a b = leK (key a) (key b))
    (total : ∀ a b, leK a b = true ∨ leK b a = true)
    (trans : ∀ a b c, leK a b = true → leK b c = true → leK a c = true)
    (antisymm : ∀ a b, leK a b = true → leK b a = true → a = b)
    {l l' : List α} (h : l ~ l') : (sortBy le l).map key = (sortBy le l').map key := by
  rw [p08_sortBy_map key le leK hle, p08_sortBy_map key le leK hle]
  exact p08_sortBy_perm_invariant leK total trans (fun a _ b _ => antisymm a b) (h.map key)

end SortSec

theorem p08_strLe_total (a b : String) : strLe a b = true ∨ strLe b a = true := by
  simp only [strLe_iff]; exact le_total a b

theorem p08_strLe_trans (a b c : String) : strLe a b = true → strLe b c = true → strLe a c = true := by
  simp only [strLe_iff]; exact le_trans

theorem p08_strLe_antisymm (a b : String) : strLe a b = true → strLe b a = true → a = b := by
  simp only [strLe_iff]; exact le_antisymm

/-- `sorted(strings)` is a function of the multiset -/
theorem p08_sortStrings_perm {l l' : List String} (h : l ~ l') : sortStrings l = sortStrings l' := by
  unfold sortStrings
  exact p08_sortBy_perm_invariant strLe p08_strLe_total p08_strLe_trans
    (fun a _ b _ => p08_strLe_antisymm a b) h

/-- sorting by a string key that is injective on the list -/
theorem p08_sortBy_key_perm {α : Type} (key : α → String) {l l' : List α}
    (hinj : ∀ a ∈ l, ∀ b ∈ l, key a = key b → a = b) (h : l ~ l') :
    sortBy (fun a b => strLe (key a) (key b)) l = sortBy (fun a b => strLe (key a) (key b)) l' :=
  p08_sortBy_perm_invariant (fun a b => strLe (key a) (key b))
    (fun a b => p08_strLe_total (key a) (key b))
    (fun a b c => p08_strLe_trans (key a) (key b) (key c))
    (fun a ha b hb h1 h2 => hinj a ha b hb (p08_strLe_antisymm (key a) (key b) h1 h2)) h

/-! #### the order on `(module id, alias)` tuples -/

/-- what `tupleLe` looks at: the id and the alias with `None` read as `""` -/
def p08_tupleKey (t : String × Option String) : String × String := (t.1, t.2.getD "")

/-- lexicographic order on `(id, alias)` -/
def p08_pairLe (a b : String × String) : Bool := if a.1 == b.1 then strLe a.2 b.2 else strLe a.1 b.1

theorem p08_tupleLe_key (a b : String × Option String) :
    tupleLe a b = p08_pairLe (p08_tupleKey a) (p08_tupleKey b) := rfl

theorem p08_pairLe_iff (a b : String × String) :
    p08_pairLe a b = true ↔ a.1 < b.1 ∨ (a.1 = b.1 ∧ a.2 ≤ b.2) := by
  unfold p08_pairLe
  by_cases h : a.1 = b.1
  · simp [h, strLe_iff]
  · simp only [beq_iff_eq, h, if_false, strLe_iff, false_and, or_false]
    exact ⟨fun h' => lt_of_le_of_ne h' h, le_of_lt⟩

theorem p08_pairLe_total (a b : String × String) : p08_pairLe a b = true ∨ p08_pairLe b a = true := by
  simp only [p08_pairLe_iff]
  rcases lt_trichotomy a.1 b.1 with h | h | h
  · exact Or.inl (Or.inl h)
  · rcases le_total a.2 b.2 with h' | h'
    · exact Or.inl (Or.inr ⟨h, h'⟩)
    · exact Or.inr (Or.inr ⟨h.symm, h'⟩)
  · exact Or.inr (Or.inl h)

theorem p08_pairLe_trans (a b c : String × String) :
    p08_pairLe a b = true → p08_pairLe b c = true → p08_pairLe a c = true := by
  simp only [p08_pairLe_iff]
  rintro (h1 | ⟨h1, h1'⟩) (h2 | ⟨h2, h2'⟩)
  · exact Or.inl (lt_trans h1 h2)
  · exact Or.inl (h2 ▸ h1)
  · exact Or.inl (h1 ▸ h2)
  · exact Or.inr ⟨h1.trans h2, le_trans h1' h2'⟩

theorem p08_pairLe_antisymm (a b : String × String) :
    p08_pairLe a b = true → p08_pairLe b a = true → a = b := by
  simp only [p08_pairLe_iff]
  rintro (h1 | ⟨h1, h1'⟩) (h2 | ⟨h2, h2'⟩)
  · exact absurd h1 (lt_asymm h2)
  · exact absurd h1 (h2 ▸ lt_irrefl _)
  · exact absurd h2 (h1 ▸ lt_irrefl _)
  · exact Prod.ext h1 (le_antisymm h1' h2')

/-- the instance for `tupleLe`: `tupleLe` identifies `(id, none)` and `(id, some "")`, so the sorted
    list is determined by the permutation class only up to that identification — its image under
    `p08_tupleKey` is determined. -/
theorem p08_sortBy_tupleLe_perm {l l' : List (String × Option String)} (h : l ~ l') :
    (sortBy tupleLe l).map p08_tupleKey = (sortBy tupleLe l').map p08_tupleKey :=
  p08_sortBy_map_key p08_tupleKey tupleLe p08_pairLe p08_tupleLe_key p08_pairLe_total p08_pairLe_trans
    p08_pairLe_antisymm h

/-- on lists without the `(id, none)` / `(id, some "")` ambiguity the sorted list itself is determined -/
theorem p08_sortBy_tupleLe_perm_eq {l l' : List (String × Option String)}
    (hinj : ∀ a ∈ l, ∀ b ∈ l, p08_tupleKey a = p08_tupleKey b → a = b) (h : l ~ l') :
    sortBy tupleLe l = sortBy tupleLe l' :=
  p08_sortBy_perm_invariant tupleLe
    (fun a b => by rw [p08_tupleLe_key]; exact p08_pairLe_total _ _)
    (fun a b c => by simp only [p08_tupleLe_key]; exact p08_pairLe_trans _ _ _)
    (fun a ha b hb h1 h2 => hinj a ha b hb
      (p08_pairLe_antisymm _ _ (by rwa [p08_tupleLe_key] at h1) (by rwa [p08_tupleLe_key] at h2))) h

/-! ### 2. `pickShortest` and `shortestPublicReexport` -/

/-- number of `/`-separated segments of a candidate's module id -/
def p08_segs (t : String × Option String) : Nat := (splitSlash t.1).length

theorem p08_pickShortest_some (ts : List (String × Option String)) :
    ∀ (sp : List String) (al : Option String),
    (pickShortest (some (sp, al)) ts = some (sp, al) ∧ ∀ u ∈ ts, sp.length ≤ p08_segs u) ∨
    ∃ pre u post, ts = pre ++ u :: post ∧
      pickShortest (some (sp, al)) ts = some (splitSlash u.1, u.2) ∧ p08_segs u < sp.length ∧
      (∀ p ∈ pre, p08_segs u < p08_segs p) ∧ (∀ q ∈ post, p08_segs u ≤ p08_segs q) := by
  induction ts with
  | nil => intro sp al; exact Or.inl ⟨rfl, by simp⟩
  | cons t ts ih =>
    intro sp al
    by_cases hlt : (splitSlash t.1).length < sp.length
    · have he : pickShortest (some (sp, al)) (t :: ts) = pickShortest (some (splitSlash t.1, t.2)) ts := by
        simp only [pickShortest, hlt, if_true]
      rw [he]
      rcases ih (splitSlash t.1) t.2 with ⟨h1, h2⟩ | ⟨pre, u, post, h1, h2, h3, h4, h5⟩
      · exact Or.inr ⟨[], t, ts, rfl, h1, hlt, by simp, h2⟩
      · refine Or.inr ⟨t :: pre, u, post, by rw [h1]; rfl, h2, lt_trans h3 hlt, ?_, h5⟩
        intro p hp
        rcases List.mem_cons.1 hp with rfl | hp
        · exact h3
        · exact h4 p hp
    · have he : pickShortest (some (sp, al)) (t :: ts) = pickShortest (some (sp, al)) ts := by
        simp only [pickShortest, hlt, if_false]
      rw [he]
      rcases ih sp al with ⟨h1, h2⟩ | ⟨pre, u, post, h1, h2, h3, h4, h5⟩
      · refine Or.inl ⟨h1, ?_⟩
        intro u hu
        rcases List.mem_cons.1 hu with rfl | hu
        · exact not_lt.1 hlt
        · exact h2 u hu
      · refine Or.inr ⟨t :: pre, u, post, by rw [h1]; rfl, h2, h3, ?_, h5⟩
        intro p hp
        rcases List.mem_cons.1 hp with rfl | hp
        · exact lt_of_lt_of_le h3 (not_lt.1 hlt)
        · exact h4 p hp

/-- `pickShortest none l` is the FIRST element of `l` among those with the fewest segments -/
theorem p08_pickShortest_spec (l : List (String × Option String)) (hne : l ≠ []) :
    ∃ pre u post, l = pre ++ u :: post ∧ pickShortest none l = some (splitSlash u.1, u.2) ∧
      (∀ p ∈ pre, p08_segs u < p08_segs p) ∧ (∀ q ∈ post, p08_segs u ≤ p08_segs q) := by
  match l, hne with
  | t :: ts, _ =>
    have he : pickShortest none (t :: ts) = pickShortest (some (splitSlash t.1, t.2)) ts := rfl
    rw [he]
    rcases p08_pickShortest_some ts (splitSlash t.1) t.2 with ⟨h1, h2⟩ | ⟨pre, u, post, h1, h2, h3, h4, h5⟩
    · exact ⟨[], t, ts, rfl, h1, by simp, h2⟩
    · refine ⟨t :: pre, u, post, by rw [h1]; rfl, h2, ?_, h5⟩
      intro p hp
      rcases List.mem_cons.1 hp with rfl | hp
      · exact h3
      · exact h4 p hp

theorem p08_pickShortest_nil : pickShortest none [] = none := rfl

/-- `pickShortest` on `(id, alias-with-None-as-"")` keys -/
def p08_pickK : Option (List String × String) → List (String × String) → Option (List String × String)
  | acc, [] => acc
  | acc, t :: ts =>
    match acc with
    | none => p08_pickK (some (splitSlash t.1, t.2)) ts
    | some (sp, al) =>
      if (splitSlash t.1).length < sp.length then p08_pickK (some (splitSlash t.1, t.2)) ts
      else p08_pickK (some (sp, al)) ts

def p08_accKey (p : List String × Option String) : List String × String := (p.1, p.2.getD "")

theorem p08_pickShortest_key (l : List (String × Option String)) :
    ∀ acc, (pickShortest acc l).map p08_accKey = p08_pickK (acc.map p08_accKey) (l.map p08_tupleKey) := by
  induction l with
  | nil => intro acc; rfl
  | cons t ts ih =>
    intro acc
    cases acc with
    | none =>
      have he : pickShortest none (t :: ts) = pickShortest (some (splitSlash t.1, t.2)) ts := rfl
      rw [he, ih]; rfl
    | some p =>
      obtain ⟨sp, al⟩ := p
      by_cases hlt : (splitSlash t.1).length < sp.length
      · have he : pickShortest (some (sp, al)) (t :: ts) = pickShortest (some (splitSlash t.1, t.2)) ts := by
          simp only [pickShortest, hlt, if_true]
        rw [he, ih]
        simp only [List.map_cons, Option.map_some, p08_pickK, p08_accKey, p08_tupleKey, hlt, if_true]
      · have he : pickShortest (some (sp, al)) (t :: ts) = pickShortest (some (sp, al)) ts := by
          simp only [pickShortest, hlt, if_false]
        rw [he, ih]
        simp only [List.map_cons, Option.map_some, p08_pickK, p08_accKey, p08_tupleKey, hlt, if_false]

/-- the last step of `shortestPublicReexport` -/
def p08_final : Option (List String × String) → String × String
  | none => ("", "")
  | some (parts, al) => (joinWith "." parts, al)

/-- first-occurrence de-duplication (`set.add` in a loop) -/
def p08_dedup {α : Type} [BEq α] (l : List α) : List α :=
  l.foldl (fun acc t => if acc.contains t then acc else acc ++ [t]) []

theorem p08_dedup_foldl_nodup {α : Type} [BEq α] [LawfulBEq α] (l acc : List α) (h : acc.Nodup) :
    (l.foldl (fun acc a => if acc.contains a then acc else acc ++ [a]) acc).Nodup := by
  induction l generalizing acc with
  | nil => exact h
  | cons a as ih =>
    simp only [List.foldl_cons]
    apply ih
    split
    · exact h
    · rename_i hc
      simp only [List.contains_iff_mem] at hc
      exact List.nodup_append.2 ⟨h, List.nodup_singleton a, by
        intro x hx y hy; simp only [List.mem_singleton] at hy; subst hy; rintro rfl; exact hc hx⟩

theorem p08_dedup_foldl_mem {α : Type} [BEq α] [LawfulBEq α] (l acc : List α) (x : α) :
    x ∈ l.foldl (fun acc a => if acc.contains a then acc else acc ++ [a]) acc ↔ x ∈ acc ∨ x ∈ l := by
  induction l generalizing acc with
  | nil => simp
  | cons a as ih =>
    simp only [List.foldl_cons, ih, List.mem_cons]
    split
    · rename_i hc
      simp only [List.contains_iff_mem] at hc
      constructor
      · rintro (h | h)
        · exact Or.inl h
        · exact Or.inr (Or.inr h)
      · rintro (h | rfl | h)
        · exact Or.inl h
        · exact Or.inl hc
        · exact Or.inr h
    · simp only [List.mem_append, List.mem_singleton]
      tauto

theorem p08_dedup_nodup {α : Type} [BEq α] [LawfulBEq α] (l : List α) : (p08_dedup l).Nodup :=
  p08_dedup_foldl_nodup l [] List.nodup_nil

theorem p08_mem_dedup {α : Type} [BEq α] [LawfulBEq α] (l : List α) (x : α) : x ∈ p08_dedup l ↔ x ∈ l := by
  unfold p08_dedup
  rw [p08_dedup_foldl_mem]
  simp

/-- the de-duplicated list is determined, up to order, by the member set -/
theorem p08_dedup_perm {α : Type} [BEq α] [LawfulBEq α] {l l' : List α} (h : ∀ x, x ∈ l ↔ x ∈ l') :
    p08_dedup l ~ p08_dedup l' :=
  (List.perm_ext_iff_of_nodup (p08_dedup_nodup l) (p08_dedup_nodup l')).2
    (fun x => by rw [p08_mem_dedup, p08_mem_dedup, h])

/-- the `parent_name` / `module_name_check` closure of `shortestPublicReexport` -/
def p08_check (name qname : String) (isModule : Bool) : String → Bool → Bool :=
  let parentName :=
    if !isModule && qname != "" then
      let parts := splitDot qname
      if parts.length > 2 then (secondLast? parts).getD "" else ""
    else ""
  fun (text : String) (wild : Bool) => moduleNameCheck isModule name parentName text wild

/-- all candidate tuples, in map order -/
def p08_cands (check : String → Bool → Bool) (rm : List (String × List ModRef)) : List (String × Option String) :=
  (rm.filter (fun kv => check kv.1 false)).flatMap (fun kv => kv.2.flatMap (reexportTuples check))

theorem p08_shortest_eq (rm : List (String × List ModRef)) (name qname : String) (isModule : Bool) :
    shortestPublicReexport rm name qname isModule =
      p08_final (p08_pickK none
        ((sortBy tupleLe (p08_dedup (p08_cands (p08_check name qname isModule) rm))).map p08_tupleKey)) := by
  have h := p08_pickShortest_key (sortBy tupleLe (p08_dedup (p08_cands (p08_check name qname isModule) rm))) none
  rw [Option.map_none] at h
  rw [← h]
  unfold shortestPublicReexport
  show (match pickShortest none (sortBy tupleLe (p08_dedup (p08_cands (p08_check name qname isModule) rm))) with
        | none => ("", "")
        | some (parts, al) => (joinWith "." parts, al.getD "")) = _
  cases pickShortest none (sortBy tupleLe (p08_dedup (p08_cands (p08_check name qname isModule) rm))) with
  | none => rfl
  | some p => rfl

/-- `m` is a member of the module set stored under key `k` -/
def p08_PairMem (rm : List (String × List ModRef)) (k : String) (m : ModRef) : Prop :=
  ∃ ms, (k, ms) ∈ rm ∧ m ∈ ms

theorem p08_mem_cands (check : String → Bool → Bool) (rm : List (String × List ModRef)) (t : String × Option String) :
    t ∈ p08_cands check rm ↔ ∃ k m, p08_PairMem rm k m ∧ check k false = true ∧ t ∈ reexportTuples check m := by
  unfold p08_cands p08_PairMem
  simp only [List.mem_flatMap, List.mem_filter]
  constructor
  · rintro ⟨⟨k, ms⟩, ⟨h1, h2⟩, m, h3, h4⟩
    exact ⟨k, m, ⟨ms, h1, h3⟩, h2, h4⟩
  · rintro ⟨k, m, ⟨ms, h1, h3⟩, h2, h4⟩
    exact ⟨(k, ms), ⟨h1, h2⟩, m, h3, h4⟩

/-- `shortestPublicReexport` depends on the re-export map only through the SET of `(key, module)` pairs -/
theorem p08_shortest_congr {rm rm' : List (String × List ModRef)}
    (h : ∀ k m, p08_PairMem rm k m ↔ p08_PairMem rm' k m) (name qname : String) (isModule : Bool) :
    shortestPublicReexport rm name qname isModule = shortestPublicReexport rm' name qname isModule := by
  rw [p08_shortest_eq, p08_shortest_eq]
  have hp : p08_dedup (p08_cands (p08_check name qname isModule) rm)
      ~ p08_dedup (p08_cands (p08_check name qname isModule) rm') := by
    apply p08_dedup_perm
    intro t
    simp only [p08_mem_cands, h]
  rw [p08_sortBy_tupleLe_perm hp]

/-- same keys in the same order, each module list permuted (`set[Module]` iteration order) -/
def p08_ValuesPerm (rm rm' : List (String × List ModRef)) : Prop :=
  List.Forall₂ (fun kv kv' => kv.1 = kv'.1 ∧ kv.2 ~ kv'.2) rm rm'

/-- module lists permuted, then the entries permuted -/
def p08_RmPerm (rm rm' : List (String × List ModRef)) : Prop :=
  ∃ mid, p08_ValuesPerm rm mid ∧ mid ~ rm'

theorem p08_ValuesPerm.pairMem : ∀ {rm rm' : List (String × List ModRef)}, p08_ValuesPerm rm rm' →
    ∀ (k : String) (m : ModRef), p08_PairMem rm k m ↔ p08_PairMem rm' k m
  | [], [], _, k, m => Iff.rfl
  | (ka, msa) :: l, (kb, msb) :: l', h, k, m => by
    unfold p08_ValuesPerm at h
    rw [List.forall₂_cons] at h
    obtain ⟨⟨h1, h2⟩, h3⟩ := h
    simp only at h1 h2
    subst h1
    have ih := p08_ValuesPerm.pairMem (rm := l) (rm' := l') h3 k m
    unfold p08_PairMem at ih ⊢
    simp only [List.mem_cons, Prod.mk.injEq]
    constructor
    · rintro ⟨ms, (⟨rfl, rfl⟩ | h3), h4⟩
      · exact ⟨msb, Or.inl ⟨rfl, rfl⟩, h2.mem_iff.1 h4⟩
      · obtain ⟨ms', h5, h6⟩ := ih.1 ⟨ms, h3, h4⟩
        exact ⟨ms', Or.inr h5, h6⟩
    · rintro ⟨ms, (⟨rfl, rfl⟩ | h3), h4⟩
      · exact ⟨msa, Or.inl ⟨rfl, rfl⟩, h2.mem_iff.2 h4⟩
      · obtain ⟨ms', h5, h6⟩ := ih.2 ⟨ms, h3, h4⟩
        exact ⟨ms', Or.inr h5, h6⟩
  | [], _ :: _, h, _, _ => by cases h
  | _ :: _, [], h, _, _ => by cases h

theorem p08_RmPerm.pairMem {rm rm' : List (String × List ModRef)} (h : p08_RmPerm rm rm')
    (k : String) (m : ModRef) : p08_PairMem rm k m ↔ p08_PairMem rm' k m := by
  obtain ⟨mid, h1, h2⟩ := h
  rw [h1.pairMem]
  unfold p08_PairMem
  simp only [h2.mem_iff]

/-! ### 3. the marker block and the import block -/

theorem p08_pure_run {α : Type} (a : α) (st : St) : (pure a : G α) st = Except.ok (a, st) := rfl
theorem p08_get_run (st : St) : (get : G St) st = Except.ok (st, st) := rfl
theorem p08_set_run (s st : St) : (set s : G PUnit) st = Except.ok (PUnit.unit, s) := rfl

theorem p08_mapM_todoLookup_err (l : List String) (st : St) (e : PyErr)
    (h : l.mapM todoLookup st = .error e) : e = .keyError := by
  induction l generalizing st e with
  | nil => simp [pure, StateT.pure, Except.pure] at h
  | cons k ks ih =>
    rw [List.mapM_cons, bind_apply] at h
    unfold todoLookup at h
    cases hk : assocGet? Generated.todoMessages k with
    | none =>
      simp only [hk, throwG] at h
      cases h; rfl
    | some m =>
      simp only [hk] at h
      rw [p08_pure_run] at h
      simp only [] at h
      rw [bind_apply] at h
      cases hr : mapM todoLookup ks st with
      | error e' =>
        have := ih st e' hr
        unfold todoLookup at hr
        rw [hr] at h
        simp only [] at h
        cases h; exact this
      | ok v =>
        unfold todoLookup at hr
        rw [hr] at h
        obtain ⟨a, s1⟩ := v
        simp only [] at h
        cases h

theorem p08_createTodoMsg_err (indent : String) (st : St) (e : PyErr)
    (h : createTodoMsg indent st = .error e) : e = .keyError := by
  unfold createTodoMsg at h
  rw [bind_apply] at h
  rw [p08_get_run] at h
  simp only [] at h
  rw [ite_run] at h
  split at h
  · cases h
  · rw [bind_apply] at h
    generalize hr : (List.mapM (m := G) _ st.todos) st = res at h
    have hr' : List.mapM todoLookup st.todos st = res := hr
    cases res with
    | error e' =>
      try simp only [] at h
      cases h
      exact p08_mapM_todoLookup_err _ _ _ hr'
    | ok v =>
      obtain ⟨a, s1⟩ := v
      try simp only [] at h
      rw [bind_apply, p08_set_run] at h
      try simp only [] at h
      rw [p08_pure_run] at h
      cases h

/-- `createTodoMsg` as a total function of the state: the text, or `KeyError` for a key outside the table -/
theorem p08_createTodoMsg_eq (indent : String) (st : St) :
    createTodoMsg indent st =
      if (∀ k ∈ st.todos, (assocGet? Generated.todoMessages k).isSome = true)
      then .ok (renderTodos indent st.todos, { st with todos := [] }) else .error .keyError := by
  by_cases hc : ∀ k ∈ st.todos, (assocGet? Generated.todoMessages k).isSome = true
  · rw [if_pos hc]
    exact (createTodoMsg_ok indent st _).2 ⟨hc, rfl⟩
  · rw [if_neg hc]
    cases h : createTodoMsg indent st with
    | ok r => exact absurd ((createTodoMsg_ok indent st r).1 h).1 hc
    | error e => rw [p08_createTodoMsg_err indent st e h]

theorem p08_renderTodos_perm (indent : String) {l l' : List String} (h : l ~ l') :
    renderTodos indent l = renderTodos indent l' := by
  unfold renderTodos
  by_cases hl : l = []
  · subst hl
    rw [← List.Perm.nil_eq h]
  · have hl' : l' ≠ [] := fun e => hl (by subst e; exact h.eq_nil)
    rw [if_neg hl, if_neg hl', p08_sortStrings_perm (h.map todoMsgOf)]

/-- the text `createImportsString` prints for a set of imports -/
def p08_importsText (safe : Bool) (imports : List String) : String :=
  if imports.isEmpty then ""
  else
    "\n" ++ joinWith "\n" (sortStrings (imports.map fun imp =>
      let parts := splitDot imp
      let from_ := escapePath (convertPath (joinWith "." (dropLast' parts)) safe)
      let name := escapeKeyword (convertName (lastD "" parts) safe)
      "from " ++ from_ ++ " import " ++ name)) ++ "\n"

theorem p08_createImportsString_eq (env : Env) (st : St) :
    createImportsString env st = .ok (p08_importsText env.safe st.imports, st) := by
  unfold createImportsString p08_importsText
  rw [bind_apply, p08_get_run]
  simp only []
  rw [ite_run]
  split <;> rfl

theorem p08_importsText_perm (safe : Bool) {l l' : List String} (h : l ~ l') :
    p08_importsText safe l = p08_importsText safe l' := by
  unfold p08_importsText
  by_cases hl : l = []
  · subst hl
    rw [← List.Perm.nil_eq h]
  · have hl' : l' ≠ [] := fun e => hl (by subst e; exact h.eq_nil)
    have e1 : l.isEmpty = false := by simpa using hl
    have e2 : l'.isEmpty = false := by simpa using hl'
    simp only [e1, e2]
    rw [p08_sortStrings_perm (h.map _)]

/-- the union text depends on the SET of rendered members only -/
theorem p08_finishUnion_congr {l l' : List String} (h : ∀ a, a ∈ l ↔ a ∈ l') (b : Bool) :
    finishUnion l b = finishUnion l' b := by
  rw [finishUnion_eq, finishUnion_eq, unionText_congr h]

/-! ### 4. placeholder stubs -/

theorem p08_createStubFiles_perm (safe : Bool) (stubs : List StubData) {outside outside' : List String}
    (pre : List String) (h : outside ~ outside') :
    createStubFiles safe stubs outside pre = createStubFiles safe stubs outside' pre := by
  unfold createStubFiles
  rw [p08_sortStrings_perm h]

/-! ### 5. `getReexportedBy` -/

/-- the module list stored under a key (`[]` for a missing key) -/
def p08_lookD (rm : List (String × List ModRef)) (k : String) : List ModRef := (reexportLookup rm k).getD []

def p08_hasId (l : List ModRef) (i : String) : Bool := l.any (·.id == i)

theorem p08_hasId_iff (l : List ModRef) (i : String) : p08_hasId l i = true ↔ i ∈ l.map (·.id) := by
  unfold p08_hasId
  simp only [List.any_eq_true, beq_iff_eq, List.mem_map]

theorem p08_hasId_perm {l l' : List ModRef} (h : l ~ l') (i : String) : p08_hasId l i = p08_hasId l' i := by
  rw [Bool.eq_iff_iff, p08_hasId_iff, p08_hasId_iff, (h.map _).mem_iff]

theorem p08_addToSetById_eq (l : List ModRef) (m : ModRef) :
    addToSetById l m = if p08_hasId l m.id then l else l ++ [m] := rfl

/-- with pairwise distinct ids in `ms`: the new members are appended in their order -/
theorem p08_foldl_addToSetById (ms : List ModRef) (hnd : (ms.map (·.id)).Nodup) :
    ∀ acc, ms.foldl addToSetById acc = acc ++ ms.filter (fun m => !p08_hasId acc m.id) := by
  induction ms with
  | nil => intro acc; simp
  | cons m ms ih =>
    intro acc
    rw [List.map_cons, List.nodup_cons] at hnd
    rw [List.foldl_cons, ih hnd.2, p08_addToSetById_eq]
    by_cases hm : p08_hasId acc m.id = true
    · rw [if_pos hm, List.filter_cons_of_neg (by simp [hm])]
    · rw [if_neg hm, List.filter_cons_of_pos (by simpa using hm), List.append_assoc]
      congr 1
      rw [List.singleton_append]
      congr 1
      apply List.filter_congr
      intro x hx
      have hne : m.id ≠ x.id := fun e => hnd.1 (e ▸ List.mem_map_of_mem hx)
      have e : p08_hasId (acc ++ [m]) x.id = p08_hasId acc x.id := by
        simp [p08_hasId, hne]
      simp only [e]

theorem p08_foldl_addToSetById_perm {ms ms' acc acc' : List ModRef} (hnd : (ms.map (·.id)).Nodup)
    (hm : ms ~ ms') (ha : acc ~ acc') :
    ms.foldl addToSetById acc ~ ms'.foldl addToSetById acc' := by
  rw [p08_foldl_addToSetById ms hnd, p08_foldl_addToSetById ms' ((hm.map _).nodup_iff.1 hnd)]
  have hf : (fun m : ModRef => !p08_hasId acc m.id) = (fun m : ModRef => !p08_hasId acc' m.id) := by
    funext m; rw [p08_hasId_perm ha]
  rw [hf]
  exact ha.append (hm.filter _)

theorem p08_addToSetById_nodup (acc : List ModRef) (m : ModRef) (h : (acc.map (·.id)).Nodup) :
    ((addToSetById acc m).map (·.id)).Nodup := by
  rw [p08_addToSetById_eq]
  split
  · exact h
  · rename_i hc
    rw [p08_hasId_iff] at hc
    rw [List.map_append, List.map_singleton]
    exact List.nodup_append.2 ⟨h, List.nodup_singleton _, by
      intro x hx y hy; simp only [List.mem_singleton] at hy; subst hy; rintro rfl; exact hc hx⟩

theorem p08_foldl_addToSetById_nodup (ms : List ModRef) :
    ∀ acc : List ModRef, (acc.map (·.id)).Nodup → ((ms.foldl addToSetById acc).map (·.id)).Nodup := by
  induction ms with
  | nil => intro acc h; exact h
  | cons m ms ih => intro acc h; exact ih _ (p08_addToSetById_nodup acc m h)

/-- `_get_reexported_by` over an abstract lookup function -/
def p08_grb (look : String → List ModRef) (qname : String) : List ModRef :=
  let path := splitDot qname
  let n := path.length
  (List.range n).foldl (fun (acc : List ModRef) (i : Nat) =>
    (look (joinWith "." ((path.take (n - 1)).drop (n - 1 - min (n - 1) (i + 1))) ++ ".*")).foldl addToSetById
      ((look (joinWith "." (path.drop (n - (i + 1))))).foldl addToSetById
        ((look (joinWith "." (path.take (i + 1)))).foldl addToSetById acc))) []

theorem p08_getReexportedBy_eq (s : VSt) (qname : String) :
    getReexportedBy s qname = p08_grb (p08_lookD s.api.reexportMap) qname := by
  unfold getReexportedBy p08_grb
  simp only []
  congr 1
  funext acc i
  simp only [p08_lookD]
  split <;> split <;> split <;> simp_all

theorem p08_foldl_rel {α β : Type} (R : β → β → Prop) (f g : β → α → β)
    (hstep : ∀ b b' a, R b b' → R (f b a) (g b' a)) :
    ∀ (l : List α) (b b' : β), R b b' → R (l.foldl f b) (l.foldl g b') := by
  intro l
  induction l with
  | nil => intro b b' h; exact h
  | cons a as ih => intro b b' h; exact ih _ _ (hstep b b' a h)

/-- the result of `_get_reexported_by` is determined up to order by the lookups up to order, and has
    pairwise distinct ids -/
theorem p08_grb_perm {look look' : String → List ModRef}
    (hnd : ∀ k, ((look k).map (·.id)).Nodup) (hl : ∀ k, look k ~ look' k) (qname : String) :
    p08_grb look qname ~ p08_grb look' qname ∧ ((p08_grb look qname).map (·.id)).Nodup := by
  unfold p08_grb
  refine p08_foldl_rel (fun (a b : List ModRef) => a ~ b ∧ (a.map (·.id)).Nodup) _ _ ?_ _ [] [] ⟨Perm.refl _, by simp⟩
  rintro b b' i ⟨h1, h2⟩
  refine ⟨?_, ?_⟩
  · exact p08_foldl_addToSetById_perm (hnd _) (hl _)
      (p08_foldl_addToSetById_perm (hnd _) (hl _) (p08_foldl_addToSetById_perm (hnd _) (hl _) h1))
  · exact p08_foldl_addToSetById_nodup _ _ (p08_foldl_addToSetById_nodup _ _ (p08_foldl_addToSetById_nodup _ _ h2))

theorem p08_sortModRefs_perm {l l' : List ModRef} (hnd : (l.map (·.id)).Nodup) (h : l ~ l') :
    sortModRefs l = sortModRefs l' := by
  unfold sortModRefs
  exact p08_sortBy_key_perm (fun m : ModRef => m.id)
    (fun a ha b hb e => List.inj_on_of_nodup_map hnd ha hb e) h

/-- the sorted `reexported_by` list is a function of the lookups up to order -/
theorem p08_sorted_grb_congr {rm rm' : List (String × List ModRef)}
    (hnd : ∀ k, ((p08_lookD rm k).map (·.id)).Nodup) (hl : ∀ k, p08_lookD rm k ~ p08_lookD rm' k)
    (qname : String) :
    sortModRefs (p08_grb (p08_lookD rm) qname) = sortModRefs (p08_grb (p08_lookD rm') qname) := by
  obtain ⟨h1, h2⟩ := p08_grb_perm hnd hl qname
  exact p08_sortModRefs_perm h2 h1

/-! #### lookups of well-formed maps -/

theorem p08_lookD_nil (k : String) : p08_lookD [] k = [] := rfl

theorem p08_lookD_cons (k' : String) (ms : List ModRef) (rm : List (String × List ModRef)) (k : String) :
    p08_lookD ((k', ms) :: rm) k = if k' = k then ms else p08_lookD rm k := by
  unfold p08_lookD reexportLookup
  simp only [assocGet?]
  by_cases h : k' = k
  · simp [h]
  · simp [h]

/-- distinct keys; distinct module ids inside every module list -/
structure p08_RmWf (rm : List (String × List ModRef)) : Prop where
  keys : (rm.map (·.1)).Nodup
  ids : ∀ kv ∈ rm, (kv.2.map (·.id)).Nodup

/-- every key has the same module SET (lists equal up to order) in both maps; the key order is free -/
def p08_RmEquiv (rm rm' : List (String × List ModRef)) : Prop := ∀ k, p08_lookD rm k ~ p08_lookD rm' k

theorem p08_RmEquiv.refl (rm : List (String × List ModRef)) : p08_RmEquiv rm rm := fun _ => Perm.refl _
theorem p08_RmEquiv.symm {rm rm' : List (String × List ModRef)} (h : p08_RmEquiv rm rm') : p08_RmEquiv rm' rm :=
  fun k => (h k).symm
theorem p08_RmEquiv.trans {a b c : List (String × List ModRef)} (h : p08_RmEquiv a b) (h' : p08_RmEquiv b c) :
    p08_RmEquiv a c := fun k => (h k).trans (h' k)

theorem p08_lookD_ids_nodup {rm : List (String × List ModRef)} (h : ∀ kv ∈ rm, (kv.2.map (·.id)).Nodup)
    (k : String) : ((p08_lookD rm k).map (·.id)).Nodup := by
  induction rm with
  | nil => simp [p08_lookD_nil]
  | cons kv rm ih =>
    obtain ⟨k', ms⟩ := kv
    rw [p08_lookD_cons]
    split
    · exact h (k', ms) (by simp)
    · exact ih (fun kv hkv => h kv (List.mem_cons_of_mem _ hkv))

theorem p08_mem_lookD_of_pairMem {rm : List (String × List ModRef)} (hk : (rm.map (·.1)).Nodup)
    {k : String} {ms : List ModRef} (h : (k, ms) ∈ rm) : p08_lookD rm k = ms := by
  induction rm with
  | nil => simp at h
  | cons kv rm ih =>
    obtain ⟨k', ms'⟩ := kv
    rw [List.map_cons, List.nodup_cons] at hk
    rw [p08_lookD_cons]
    rcases List.mem_cons.1 h with h | h
    · simp only [Prod.mk.injEq] at h
      obtain ⟨rfl, rfl⟩ := h
      simp
    · have hne : k' ≠ k := by
        rintro rfl
        exact hk.1 (List.mem_map_of_mem (f := (·.1)) h)
      rw [if_neg hne]
      exact ih hk.2 h

theorem p08_pairMem_of_mem_lookD {rm : List (String × List ModRef)} {k : String} {m : ModRef}
    (h : m ∈ p08_lookD rm k) : p08_PairMem rm k m := by
  induction rm with
  | nil => simp [p08_lookD_nil] at h
  | cons kv rm ih =>
    obtain ⟨k', ms'⟩ := kv
    rw [p08_lookD_cons] at h
    split at h
    · rename_i e
      subst e
      exact ⟨ms', by simp, h⟩
    · obtain ⟨ms, h1, h2⟩ := ih h
      exact ⟨ms, List.mem_cons_of_mem _ h1, h2⟩

theorem p08_pairMem_iff_lookD {rm : List (String × List ModRef)} (hk : (rm.map (·.1)).Nodup)
    (k : String) (m : ModRef) : p08_PairMem rm k m ↔ m ∈ p08_lookD rm k := by
  constructor
  · rintro ⟨ms, h1, h2⟩
    rw [p08_mem_lookD_of_pairMem hk h1]
    exact h2
  · exact p08_pairMem_of_mem_lookD

theorem p08_RmEquiv.pairMem {rm rm' : List (String × List ModRef)} (h : p08_RmEquiv rm rm')
    (hw : (rm.map (·.1)).Nodup) (hw' : (rm'.map (·.1)).Nodup) (k : String) (m : ModRef) :
    p08_PairMem rm k m ↔ p08_PairMem rm' k m := by
  rw [p08_pairMem_iff_lookD hw, p08_pairMem_iff_lookD hw', (h k).mem_iff]

theorem p08_ValuesPerm.lookD : ∀ {rm rm' : List (String × List ModRef)}, p08_ValuesPerm rm rm' →
    p08_RmEquiv rm rm'
  | [], [], _, k => Perm.refl _
  | (ka, msa) :: l, (kb, msb) :: l', h, k => by
    unfold p08_ValuesPerm at h
    rw [List.forall₂_cons] at h
    obtain ⟨⟨h1, h2⟩, h3⟩ := h
    simp only at h1 h2
    subst h1
    rw [p08_lookD_cons, p08_lookD_cons]
    split
    · exact h2
    · exact p08_ValuesPerm.lookD (rm := l) (rm' := l') h3 k
  | [], _ :: _, h, _ => by cases h
  | _ :: _, [], h, _ => by cases h

theorem p08_ValuesPerm.wf : ∀ {rm rm' : List (String × List ModRef)}, p08_ValuesPerm rm rm' →
    p08_RmWf rm → p08_RmWf rm'
  | [], [], _, w => w
  | (ka, msa) :: l, (kb, msb) :: l', h, w => by
    unfold p08_ValuesPerm at h
    rw [List.forall₂_cons] at h
    obtain ⟨⟨h1, h2⟩, h3⟩ := h
    simp only at h1 h2
    subst h1
    have wk := w.keys
    rw [List.map_cons, List.nodup_cons] at wk
    have ih := p08_ValuesPerm.wf (rm := l) (rm' := l') h3
      ⟨wk.2, fun kv hkv => w.ids kv (List.mem_cons_of_mem _ hkv)⟩
    have hkeys : l.map (·.1) = l'.map (·.1) := by
      clear ih wk w
      induction h3 with
      | nil => rfl
      | cons hab _ ih => simp only [List.map_cons, hab.1, ih]
    refine ⟨?_, ?_⟩
    · rw [List.map_cons, List.nodup_cons, ← hkeys]
      exact wk
    · intro kv hkv
      rcases List.mem_cons.1 hkv with rfl | hkv
      · exact (h2.map _).nodup_iff.1 (w.ids (ka, msa) (by simp))
      · exact ih.ids kv hkv
  | [], _ :: _, h, _ => by cases h
  | _ :: _, [], h, _ => by cases h

theorem p08_entriesPerm_lookD {rm rm' : List (String × List ModRef)} (hk : (rm.map (·.1)).Nodup)
    (h : rm ~ rm') : p08_RmEquiv rm rm' := by
  intro k
  have hk' : (rm'.map (·.1)).Nodup := (h.map _).nodup_iff.1 hk
  by_cases hex : ∃ ms, (k, ms) ∈ rm
  · obtain ⟨ms, hms⟩ := hex
    rw [p08_mem_lookD_of_pairMem hk hms, p08_mem_lookD_of_pairMem hk' (h.mem_iff.1 hms)]
  · have e1 : p08_lookD rm k = [] := by
      apply List.eq_nil_iff_forall_not_mem.2
      intro m hm
      obtain ⟨ms, h1, _⟩ := p08_pairMem_of_mem_lookD hm
      exact hex ⟨ms, h1⟩
    have e2 : p08_lookD rm' k = [] := by
      apply List.eq_nil_iff_forall_not_mem.2
      intro m hm
      obtain ⟨ms, h1, _⟩ := p08_pairMem_of_mem_lookD hm
      exact hex ⟨ms, h.mem_iff.2 h1⟩
    rw [e1, e2]

theorem p08_entriesPerm_wf {rm rm' : List (String × List ModRef)} (w : p08_RmWf rm) (h : rm ~ rm') :
    p08_RmWf rm' :=
  ⟨(h.map _).nodup_iff.1 w.keys, fun kv hkv => w.ids kv (h.mem_iff.2 hkv)⟩

theorem p08_RmPerm.equiv {rm rm' : List (String × List ModRef)} (w : p08_RmWf rm) (h : p08_RmPerm rm rm') :
    p08_RmEquiv rm rm' ∧ p08_RmWf rm' := by
  obtain ⟨mid, h1, h2⟩ := h
  have wm := h1.wf w
  exact ⟨h1.lookD.trans (p08_entriesPerm_lookD wm.keys h2), p08_entriesPerm_wf wm h2⟩

/-! ### 6. `addReexports` commutes up to `p08_RmEquiv`; what the later phases read of the map -/

/-- one `reexport_map[key].add(module)` -/
def p08_addKey (r : ModRef) (rm : List (String × List ModRef)) (k : String) : List (String × List ModRef) :=
  if rm.any (·.1 == k) then rm.map (fun kv => if kv.1 == k then (kv.1, addToSetById kv.2 r) else kv)
  else rm ++ [(k, [r])]

/-- the keys one `__init__` module adds itself to -/
def p08_importKeys (m : Module) : List String :=
  m.qualifiedImports.map (·.qualifiedName) ++ m.wildcardImports.map (· ++ ".*")

theorem p08_addReexports_eq (api : AnaResult) (m : Module) :
    (addReexports api m).reexportMap = (p08_importKeys m).foldl (p08_addKey m.ref) api.reexportMap := by
  unfold addReexports p08_importKeys
  simp only [List.foldl_append, List.foldl_map]
  rfl

theorem p08_lookD_append_single (rm : List (String × List ModRef)) (k' : String) (ms : List ModRef) (k : String)
    (h : rm.any (·.1 == k') = false) :
    p08_lookD (rm ++ [(k', ms)]) k = if k' = k then ms else p08_lookD rm k := by
  induction rm with
  | nil => rw [List.nil_append, p08_lookD_cons]
  | cons kv rm ih =>
    obtain ⟨k0, ms0⟩ := kv
    simp only [List.any_cons, Bool.or_eq_false_iff, beq_eq_false_iff_ne, ne_eq] at h
    rw [List.cons_append, p08_lookD_cons, p08_lookD_cons, ih h.2]
    by_cases e0 : k0 = k
    · have : ¬ k' = k := fun e => h.1 (e0.trans e.symm)
      simp [e0, this]
    · simp [e0]

theorem p08_lookD_of_not_any (rm : List (String × List ModRef)) (k : String)
    (h : rm.any (·.1 == k) = false) : p08_lookD rm k = [] := by
  induction rm with
  | nil => rfl
  | cons kv rm ih =>
    obtain ⟨k0, ms0⟩ := kv
    simp only [List.any_cons, Bool.or_eq_false_iff, beq_eq_false_iff_ne, ne_eq] at h
    rw [p08_lookD_cons, if_neg h.1, ih h.2]

theorem p08_lookD_map_update (r : ModRef) (rm : List (String × List ModRef)) (k' k : String) :
    p08_lookD (rm.map (fun kv => if kv.1 == k' then (kv.1, addToSetById kv.2 r) else kv)) k =
      if k' = k ∧ rm.any (·.1 == k') = true then addToSetById (p08_lookD rm k) r else p08_lookD rm k := by
  induction rm with
  | nil => simp [p08_lookD_nil]
  | cons kv rm ih =>
    obtain ⟨k0, ms0⟩ := kv
    simp only [List.map_cons, List.any_cons]
    by_cases e0 : k0 = k'
    · subst e0
      simp only [beq_self_eq_true, if_true, Bool.true_or, and_true]
      rw [p08_lookD_cons, p08_lookD_cons]
      by_cases e1 : k0 = k
      · simp [e1]
      · rw [if_neg e1, if_neg e1, if_neg e1, ih, if_neg (fun h => e1 h.1)]
    · have e0' : (k0 == k') = false := by simpa using e0
      simp only [e0', Bool.false_eq_true, if_false, Bool.false_or]
      rw [p08_lookD_cons, p08_lookD_cons, ih]
      by_cases e1 : k0 = k
      · have : ¬ k' = k := fun e => e0 (e1.trans e.symm)
        simp [e1, this]
      · simp [e1]

theorem p08_lookD_addKey (r : ModRef) (rm : List (String × List ModRef)) (k' k : String) :
    p08_lookD (p08_addKey r rm k') k = if k' = k then addToSetById (p08_lookD rm k) r else p08_lookD rm k := by
  unfold p08_addKey
  by_cases ha : rm.any (·.1 == k') = true
  · rw [if_pos ha, p08_lookD_map_update]
    simp [ha]
  · rw [if_neg ha]
    have ha' : rm.any (·.1 == k') = false := Bool.eq_false_iff.2 ha
    rw [p08_lookD_append_single rm k' [r] k ha']
    by_cases e : k' = k
    · subst e
      rw [if_pos rfl, if_pos rfl, p08_lookD_of_not_any rm k' ha']
      rfl
    · rw [if_neg e, if_neg e]

theorem p08_addToSetById_idem (l : List ModRef) (r : ModRef) :
    addToSetById (addToSetById l r) r = addToSetById l r := by
  by_cases h : p08_hasId l r.id = true
  · simp only [p08_addToSetById_eq, h, if_true]
  · have h2 : p08_hasId (l ++ [r]) r.id = true := by simp [p08_hasId]
    simp only [p08_addToSetById_eq, h, if_false, h2, if_true, Bool.false_eq_true]

theorem p08_lookD_foldl_addKey (r : ModRef) (ks : List String) :
    ∀ (rm : List (String × List ModRef)) (k : String),
    p08_lookD (ks.foldl (p08_addKey r) rm) k =
      if k ∈ ks then addToSetById (p08_lookD rm k) r else p08_lookD rm k := by
  induction ks with
  | nil => intro rm k; simp
  | cons k' ks ih =>
    intro rm k
    rw [List.foldl_cons, ih, p08_lookD_addKey]
    by_cases e : k' = k
    · subst e
      simp only [if_true, List.mem_cons, true_or]
      split
      · exact p08_addToSetById_idem _ _
      · rfl
    · have : (k ∈ k' :: ks) ↔ k ∈ ks := by
        simp only [List.mem_cons]
        exact ⟨fun h => h.resolve_left (fun e' => e e'.symm), Or.inr⟩
      simp only [if_neg e, this]

/-- the lookups of the map after `_add_reexports(module)` -/
theorem p08_lookD_addReexports (api : AnaResult) (m : Module) (k : String) :
    p08_lookD (addReexports api m).reexportMap k =
      if k ∈ p08_importKeys m then addToSetById (p08_lookD api.reexportMap k) m.ref
      else p08_lookD api.reexportMap k := by
  rw [p08_addReexports_eq, p08_lookD_foldl_addKey]

theorem p08_addToSetById_comm (l : List ModRef) (r1 r2 : ModRef) (hne : r1.id ≠ r2.id) :
    addToSetById (addToSetById l r1) r2 ~ addToSetById (addToSetById l r2) r1 := by
  have a1 : p08_hasId (l ++ [r1]) r2.id = p08_hasId l r2.id := by simp [p08_hasId, hne]
  have a2 : p08_hasId (l ++ [r2]) r1.id = p08_hasId l r1.id := by simp [p08_hasId, Ne.symm hne]
  by_cases h1 : p08_hasId l r1.id = true <;> by_cases h2 : p08_hasId l r2.id = true
  · simp only [p08_addToSetById_eq, h1, h2, if_true]; exact Perm.refl _
  · simp only [p08_addToSetById_eq, h1, h2, if_true, if_false, a2, Bool.false_eq_true]; exact Perm.refl _
  · simp only [p08_addToSetById_eq, h1, h2, if_true, if_false, a1, Bool.false_eq_true]; exact Perm.refl _
  · simp only [p08_addToSetById_eq, h1, h2, if_false, a1, a2, Bool.false_eq_true, List.append_assoc]
    exact List.Perm.append_left l (List.Perm.swap _ _ _)

theorem p08_addToSetById_perm {l l' : List ModRef} (h : l ~ l') (r : ModRef) :
    addToSetById l r ~ addToSetById l' r := by
  simp only [p08_addToSetById_eq, p08_hasId_perm h]
  split
  · exact h
  · exact h.append_right _

theorem p08_wf_addKey (r : ModRef) (rm : List (String × List ModRef)) (k : String) (w : p08_RmWf rm) :
    p08_RmWf (p08_addKey r rm k) := by
  unfold p08_addKey
  split
  · refine ⟨?_, ?_⟩
    · have : (rm.map (fun kv => if kv.1 == k then (kv.1, addToSetById kv.2 r) else kv)).map (·.1) = rm.map (·.1) := by
        rw [List.map_map]
        apply List.map_congr_left
        intro kv _
        simp only [Function.comp]
        split <;> rfl
      rw [this]; exact w.keys
    · intro kv hkv
      rw [List.mem_map] at hkv
      obtain ⟨kv0, h0, rfl⟩ := hkv
      split
      · exact p08_addToSetById_nodup _ _ (w.ids kv0 h0)
      · exact w.ids kv0 h0
  · rename_i hn
    have hn' : k ∉ rm.map (·.1) := by
      intro hk
      apply hn
      rw [List.mem_map] at hk
      obtain ⟨kv, h1, h2⟩ := hk
      exact List.any_eq_true.2 ⟨kv, h1, by simp [h2]⟩
    refine ⟨?_, ?_⟩
    · rw [List.map_append, List.map_singleton]
      exact List.nodup_append.2 ⟨w.keys, List.nodup_singleton _, by
        intro x hx y hy; simp only [List.mem_singleton] at hy; subst hy; rintro rfl; exact hn' hx⟩
    · intro kv hkv
      rcases List.mem_append.1 hkv with h | h
      · exact w.ids kv h
      · simp only [List.mem_singleton] at h
        subst h
        simp

theorem p08_wf_addReexports (api : AnaResult) (m : Module) (w : p08_RmWf api.reexportMap) :
    p08_RmWf (addReexports api m).reexportMap := by
  rw [p08_addReexports_eq]
  generalize api.reexportMap = rm at w
  induction p08_importKeys m generalizing rm with
  | nil => exact w
  | cons k ks ih => exact ih _ (p08_wf_addKey _ _ _ w)

theorem p08_wf_nil : p08_RmWf [] := ⟨by simp, by simp⟩

/-- congruence: `addReexports` respects `p08_RmEquiv` -/
theorem p08_addReexports_congr {api api' : AnaResult} (h : p08_RmEquiv api.reexportMap api'.reexportMap)
    (m : Module) : p08_RmEquiv (addReexports api m).reexportMap (addReexports api' m).reexportMap := by
  intro k
  rw [p08_lookD_addReexports, p08_lookD_addReexports]
  split
  · exact p08_addToSetById_perm (h k) _
  · exact h k

/-- analysing two different `__init__` modules in either order gives equivalent maps -/
theorem p08_addReexports_comm (api : AnaResult) (m1 m2 : Module) (hne : m1.id ≠ m2.id) :
    p08_RmEquiv (addReexports (addReexports api m1) m2).reexportMap
      (addReexports (addReexports api m2) m1).reexportMap := by
  intro k
  simp only [p08_lookD_addReexports]
  by_cases h1 : k ∈ p08_importKeys m1 <;> by_cases h2 : k ∈ p08_importKeys m2
  · simp only [h1, h2, if_true]
    exact p08_addToSetById_comm _ _ _ hne
  · simp only [h1, h2, if_true, if_false]; exact Perm.refl _
  · simp only [h1, h2, if_true, if_false]; exact Perm.refl _
  · simp only [h1, h2, if_false]; exact Perm.refl _

/-- analysing the same module twice changes nothing (up to `p08_RmEquiv`) -/
theorem p08_addReexports_idem (api : AnaResult) (m : Module) :
    p08_RmEquiv (addReexports (addReexports api m) m).reexportMap (addReexports api m).reexportMap := by
  intro k
  simp only [p08_lookD_addReexports]
  split
  · rw [p08_addToSetById_idem]
  · exact Perm.refl _

/-! #### `any … any …` over the map -/

theorem p08_any_any_iff (rm : List (String × List ModRef)) (f : String → Bool) (g : String → ModRef → Bool) :
    rm.any (fun kv => f kv.1 && kv.2.any (g kv.1)) = true ↔
      ∃ k m, p08_PairMem rm k m ∧ f k = true ∧ g k m = true := by
  simp only [List.any_eq_true, Bool.and_eq_true, p08_PairMem]
  constructor
  · rintro ⟨⟨k, ms⟩, h1, h2, m, h3, h4⟩
    exact ⟨k, m, ⟨ms, h1, h3⟩, h2, h4⟩
  · rintro ⟨k, m, ⟨ms, h1, h3⟩, h2, h4⟩
    exact ⟨(k, ms), h1, h2, m, h3, h4⟩

theorem p08_any_any_congr {rm rm' : List (String × List ModRef)}
    (h : ∀ k m, p08_PairMem rm k m ↔ p08_PairMem rm' k m) (f : String → Bool) (g : String → ModRef → Bool) :
    rm.any (fun kv => f kv.1 && kv.2.any (g kv.1)) = rm'.any (fun kv => f kv.1 && kv.2.any (g kv.1)) := by
  rw [Bool.eq_iff_iff, p08_any_any_iff, p08_any_any_iff]
  simp only [h]

theorem p08_isPathConnectedToClass_congr {rm rm' : List (String × List ModRef)}
    (h : ∀ k m, p08_PairMem rm k m ↔ p08_PairMem rm' k m) (path classPath : String) :
    isPathConnectedToClass rm path classPath = isPathConnectedToClass rm' path classPath := by
  unfold isPathConnectedToClass
  split
  · rfl
  · exact p08_any_any_congr h (fun k => pyEndsWith k (lastD "" (splitSlash path)))
      (fun _ m => pyStartsWith path m.id && pyStartsWith classPath m.id
          && pyLstrip (pyLstrip path m.id) "/" == lastD "" (splitSlash path)
          && lastD "" (splitSlash path) == lastD "" (splitSlash classPath))

/-- the key test of `_check_publicity_in_reexports` -/
def p08_pubKey (moduleName moduleQname name : String) (key : String) : Bool :=
  pyEndsWith key name
    || (key == moduleName || key == moduleQname || key == moduleName ++ ".*" || key == moduleQname ++ ".*")

/-- the module test of `_check_publicity_in_reexports` -/
def p08_pubMod (moduleName moduleQname name qname : String) (parentOk : Bool) (key : String) (src : ModRef) : Bool :=
  let notInternal := !isInternal name
  let packageId := joinWith "/" (dropLast' (splitDot moduleQname))
  let moduleIsReexported := key == moduleName || key == moduleQname || key == moduleName ++ ".*" || key == moduleQname ++ ".*"
  let samePkg := src.id == packageId
  let stripped := pyRstrip key ".*"
  let otherPkg := stripped == qname || stripped == moduleQname
  (samePkg || otherPkg) &&
  ((moduleIsReexported &&
      (src.wildcardImports.any (fun w =>
          ((samePkg && w == moduleName) || (otherPkg && w == moduleQname)) && notInternal && parentOk)
       || src.qualifiedImports.any (fun q =>
          (q.qualifiedName == moduleName || q.qualifiedName == moduleQname)
          && ((q.alias.isNone && notInternal) || (match q.alias with | some a => !isInternal a | none => false))
          && notInternal && parentOk)))
   || (pyEndsWith key name &&
       src.qualifiedImports.any (fun q =>
          pyEndsWith qname q.qualifiedName
          && ((match q.alias with | some a => !isInternal a | none => false) || (q.alias.isNone && notInternal)))))

theorem p08_checkPublicity_eq (s : VSt) (name qname : String) (parentOk : Bool) :
    checkPublicityInReexports s name qname parentOk =
      if s.api.reexportMap.any (fun kv => p08_pubKey s.fileName s.fileFullname name kv.1
          && kv.2.any (p08_pubMod s.fileName s.fileFullname name qname parentOk kv.1))
      then some true else none := rfl

/-- `_check_publicity_in_reexports` reads the SET of `(key, module)` pairs only -/
theorem p08_checkPublicity_congr {s s' : VSt} (hf : s.fileFullname = s'.fileFullname)
    (hn : s.fileName = s'.fileName)
    (h : ∀ k m, p08_PairMem s.api.reexportMap k m ↔ p08_PairMem s'.api.reexportMap k m)
    (name qname : String) (parentOk : Bool) :
    checkPublicityInReexports s name qname parentOk = checkPublicityInReexports s' name qname parentOk := by
  rw [p08_checkPublicity_eq, p08_checkPublicity_eq, hf, hn,
    p08_any_any_congr h (p08_pubKey s'.fileName s'.fileFullname name)
      (p08_pubMod s'.fileName s'.fileFullname name qname parentOk)]

/-! ### 7. discovery -/

def p08_kept (isTestRun : Bool) (f : PathParts) : Bool := !(!isTestRun && inExcludedDir f)

theorem p08_discoverLoop_eq (b : Bool) (files : List PathParts) :
    discoverLoop b files =
      { walkable := files.filter (fun f => p08_kept b f && !isInitFile f),
        packages := (files.filter (fun f => p08_kept b f && isInitFile f)).map List.dropLast } := by
  induction files with
  | nil => rfl
  | cons f fs ih =>
    unfold discoverLoop
    simp only [ih, p08_kept, List.filter_cons]
    by_cases h1 : (!b && inExcludedDir f) = true
    · simp [h1]
    · by_cases h2 : isInitFile f = true
      · simp [h1, h2]
      · simp [h1, h2]

theorem p08_discoverLoop_perm (b : Bool) {files files' : List PathParts} (h : files ~ files') :
    (discoverLoop b files).walkable ~ (discoverLoop b files').walkable ∧
    (discoverLoop b files).packages ~ (discoverLoop b files').packages := by
  rw [p08_discoverLoop_eq, p08_discoverLoop_eq]
  exact ⟨h.filter _, (h.filter _).map _⟩

theorem p08_contains_map_congr {l l' : List PathParts} (h : ∀ p, p ∈ l ↔ p ∈ l') (x : String) :
    (l.map pathStr).contains x = (l'.map pathStr).contains x := by
  rw [Bool.eq_iff_iff, List.contains_iff_mem, List.contains_iff_mem, List.mem_map, List.mem_map]
  simp only [h]

/-- `_get_mypy_asts` uses the discovered files and package directories as SETS -/
theorem p08_selectAsts_congr (graph : List String) {d d' : Discovered}
    (hw : ∀ p, p ∈ d.walkable ↔ p ∈ d'.walkable) (hp : ∀ p, p ∈ d.packages ↔ p ∈ d'.packages) :
    selectAsts graph d = selectAsts graph d' := by
  unfold selectAsts
  simp only [p08_contains_map_congr hw, p08_contains_map_congr hp]

theorem p08_discover_perm (b : Bool) {files files' : List PathParts} (h : files ~ files') :
    (∃ e, discover files b = .error e ∧ discover files' b = .error e) ∨
    (∃ d d', discover files b = .ok d ∧ discover files' b = .ok d' ∧
        d.walkable ~ d'.walkable ∧ d.packages ~ d'.packages) := by
  obtain ⟨h1, h2⟩ := p08_discoverLoop_perm b h
  unfold discover
  by_cases he : (discoverLoop b files).walkable = []
  · have he' : (discoverLoop b files').walkable = [] := by rw [he] at h1; exact h1.nil_eq.symm
    left
    exact ⟨.valueError, by simp [he], by simp [he']⟩
  · have he' : ¬ (discoverLoop b files').walkable = [] := fun e => he (by rw [e] at h1; exact h1.eq_nil)
    right
    exact ⟨_, _, by simp [he], by simp [he'], h1, h2⟩


/-! #### `_get_nearest_init_dirs` and the root adjustment -/

theorem p08_foldl_min_spec (ls : List Nat) : ∀ l : Nat,
    ls.foldl min l ∈ l :: ls ∧ ∀ x ∈ l :: ls, ls.foldl min l ≤ x := by
  induction ls with
  | nil => intro l; simp
  | cons a as ih =>
    intro l
    rw [List.foldl_cons]
    obtain ⟨h1, h2⟩ := ih (min l a)
    refine ⟨?_, ?_⟩
    · rcases List.mem_cons.1 h1 with h | h
      · rw [h]
        rcases Nat.le_total l a with hla | hla
        · rw [Nat.min_eq_left hla]; simp
        · rw [Nat.min_eq_right hla]; simp
      · exact List.mem_cons_of_mem _ (List.mem_cons_of_mem _ h)
    · intro x hx
      have hm := h2 (min l a) (by simp)
      rcases List.mem_cons.1 hx with rfl | hx
      · exact le_trans hm (Nat.min_le_left _ _)
      · rcases List.mem_cons.1 hx with rfl | hx
        · exact le_trans hm (Nat.min_le_right _ _)
        · exact h2 x (List.mem_cons_of_mem _ hx)

def p08_minLen : List Nat → Nat
  | [] => 0
  | l :: ls => ls.foldl min l

theorem p08_minLen_perm {a b : List Nat} (h : a ~ b) : p08_minLen a = p08_minLen b := by
  match a, b, h with
  | [], [], _ => rfl
  | [], _ :: _, h => exact absurd h.length_eq (by simp)
  | _ :: _, [], h => exact absurd h.length_eq (by simp)
  | x :: xs, y :: ys, h =>
    obtain ⟨h1, h2⟩ := p08_foldl_min_spec xs x
    obtain ⟨h1', h2'⟩ := p08_foldl_min_spec ys y
    exact le_antisymm (h2 _ (h.mem_iff.2 h1')) (h2' _ (h.mem_iff.1 h1))

theorem p08_nearestInitDirs_eq (files : List PathParts) :
    nearestInitDirs files =
      ((files.filter isInitFile).filter
        (·.length == p08_minLen ((files.filter isInitFile).map List.length))).map List.dropLast := by
  unfold nearestInitDirs
  cases hi : files.filter isInitFile with
  | nil => rfl
  | cons a as => rfl

theorem p08_nearestInitDirs_perm {files files' : List PathParts} (h : files ~ files') :
    nearestInitDirs files ~ nearestInitDirs files' := by
  rw [p08_nearestInitDirs_eq, p08_nearestInitDirs_eq,
    p08_minLen_perm ((h.filter isInitFile).map List.length)]
  exact ((h.filter _).filter _).map _

theorem p08_adjustRoot_perm (root : PathParts) {files files' : List PathParts} (h : files ~ files') :
    adjustRoot root files = adjustRoot root files' := by
  have hp := p08_nearestInitDirs_perm h
  unfold adjustRoot
  match h1 : nearestInitDirs files, h2 : nearestInitDirs files' with
  | [], [] => rfl
  | [d], [d'] =>
    rw [h1, h2] at hp
    have : d = d' := by simpa using hp
    rw [this]
  | _ :: _ :: _, _ :: _ :: _ => rfl
  | [], _ :: _ => rw [h1, h2] at hp; exact absurd hp.length_eq (by simp)
  | _ :: _, [] => rw [h1, h2] at hp; exact absurd hp.length_eq (by simp)
  | [_], _ :: _ :: _ => rw [h1, h2] at hp; exact absurd hp.length_eq (by simp)
  | _ :: _ :: _, [_] => rw [h1, h2] at hp; exact absurd hp.length_eq (by simp)

theorem p08_discoverFrom_perm (root : PathParts) (b : Bool) {files files' : List PathParts} (h : files ~ files') :
    (∃ e, discoverFrom root files b = .error e ∧ discoverFrom root files' b = .error e) ∨
    (∃ r d d', discoverFrom root files b = .ok (r, d) ∧ discoverFrom root files' b = .ok (r, d') ∧
        d.walkable ~ d'.walkable ∧ d.packages ~ d'.packages) := by
  unfold discoverFrom
  rw [← p08_adjustRoot_perm root h]
  have hf : filesUnder (adjustRoot root files) files ~ filesUnder (adjustRoot root files) files' := h.filter _
  rcases p08_discover_perm b hf with ⟨e, h1, h2⟩ | ⟨d, d', h1, h2, h3, h4⟩
  · left; exact ⟨e, by simp only [h1], by simp only [h2]⟩
  · right; exact ⟨adjustRoot root files, d, d', by simp only [h1], by simp only [h2], h3, h4⟩

/-! ### 8. the former scope exclusions: `_find_alias`, the inferred return types, the re-exported elements -/

theorem p08_pairwise_cases {α : Type} {R : α → α → Prop} {l : List α} (h : l.Pairwise R) {a b : α}
    (ha : a ∈ l) (hb : b ∈ l) : a = b ∨ R a b ∨ R b a := by
  induction l with
  | nil => simp at ha
  | cons x xs ih =>
    rw [List.pairwise_cons] at h
    rcases List.mem_cons.1 ha with rfl | ha' <;> rcases List.mem_cons.1 hb with rfl | hb'
    · exact Or.inl rfl
    · exact Or.inr (Or.inl (h.1 b hb'))
    · exact Or.inr (Or.inr (h.1 a ha'))
    · exact ih h.2 ha' hb'

/-- without ties in the sort key the sort of `_infer_type_from_return_stmts` is canonical -/
theorem p08_infer_sort_perm {types types' : List AType}
    (hset : types.Pairwise (fun a b => a.pyEq b = false))
    (hno : ∀ a ∈ types, ∀ b ∈ types, a.pyEq b = false → inferSortKey a ≠ inferSortKey b)
    (h : types ~ types') :
    sortBy (fun a b => strLe (inferSortKey a) (inferSortKey b)) types
      = sortBy (fun a b => strLe (inferSortKey a) (inferSortKey b)) types' := by
  apply p08_sortBy_key_perm inferSortKey _ h
  intro a ha b hb e
  rcases p08_pairwise_cases hset ha hb with h1 | h1 | h1
  · exact h1
  · exact absurd e (hno a ha b hb h1)
  · exact absurd e.symm (hno b hb a ha h1)

def p08_aliasHit (full aq : String) : Bool := pyIn full (joinWith "." (dropLast' (splitDot aq)))
def p08_aliasNm (aq : String) : String := lastD "" (splitDot aq)

/-- the body of the loop `for alias_qname in sorted(qnames)` of `_find_alias` -/
def p08_aliasStep (full : String) (acc : String × String × Bool) (aq : String) : String × String × Bool :=
  if acc.2.2 then acc
  else if p08_aliasHit full aq then (p08_aliasNm aq, aq, true) else (p08_aliasNm aq, acc.2.1, false)

/-- the loop over the candidates in the order given -/
def p08_aliasLoop (full name qname : String) (qs : List String) : String × String :=
  ((qs.foldl (p08_aliasStep full) (name, qname, false)).1, (qs.foldl (p08_aliasStep full) (name, qname, false)).2.1)

/-- the choice among the candidate qualified names: a single candidate is taken as it is; otherwise
    the loop runs over the SORTED candidates -/
def p08_aliasPick (full name qname : String) (qs : List String) : String × String :=
  match qs with
  | [q] => (p08_aliasNm q, q)
  | qs => p08_aliasLoop full name qname (sortStrings qs)

theorem p08_aliasPick_nil (full name qname : String) :
    p08_aliasPick full name qname [] = p08_aliasLoop full name qname (sortStrings []) := rfl

theorem p08_aliasPick_single (full name qname q : String) :
    p08_aliasPick full name qname [q] = (p08_aliasNm q, q) := rfl

theorem p08_aliasPick_many (full name qname a b : String) (rest : List String) :
    p08_aliasPick full name qname (a :: b :: rest) =
      p08_aliasLoop full name qname (sortStrings (a :: b :: rest)) := rfl

/-- not a single candidate: the sorted loop -/
theorem p08_aliasPick_ne_one (full name qname : String) {qs : List String} (hlen : qs.length ≠ 1) :
    p08_aliasPick full name qname qs = p08_aliasLoop full name qname (sortStrings qs) := by
  match qs, hlen with
  | [], _ => rfl
  | [q], h => exact absurd rfl h
  | a :: b :: rest, _ => rfl

/-- closed form of `_find_alias`, for every known qualified name `k` (the default of the model is `""`):
    after the import search a non-empty known name is returned as it is, the candidates are consulted
    only for `k = ""` -/
theorem p08_findAlias_eq (env : AEnv) (s : VSt) (typeName : String) (k : String) :
    findAlias env s typeName k =
      match bottomModule s with
      | none => .error .typeError
      | some m =>
        if (searchAliasInImports m.qualifiedImports typeName).1 != "" && (searchAliasInImports m.qualifiedImports typeName).2 != ""
        then .ok (searchAliasInImports m.qualifiedImports typeName)
        else if k != "" then .ok (p08_aliasNm k, k)
        else match assocGet? env.aliases typeName with
          | none => .ok (searchAliasInImports m.qualifiedImports typeName)
          | some qs => .ok (p08_aliasPick s.fileFullname (searchAliasInImports m.qualifiedImports typeName).1
              (searchAliasInImports m.qualifiedImports typeName).2 qs) := by
  unfold findAlias
  cases bottomModule s with
  | none => rfl
  | some m =>
    simp only []
    split
    · rfl
    · split
      · rfl
      · cases assocGet? env.aliases typeName with
        | none => rfl
        | some qs =>
          match qs with
          | [] => rfl
          | [q] => rfl
          | a :: b :: rest => rfl

/-- the three-argument form (`known_qname = ""`) -/
theorem p08_findAlias_eq_default (env : AEnv) (s : VSt) (typeName : String) :
    findAlias env s typeName =
      match bottomModule s with
      | none => .error .typeError
      | some m =>
        if (searchAliasInImports m.qualifiedImports typeName).1 != "" && (searchAliasInImports m.qualifiedImports typeName).2 != ""
        then .ok (searchAliasInImports m.qualifiedImports typeName)
        else match assocGet? env.aliases typeName with
          | none => .ok (searchAliasInImports m.qualifiedImports typeName)
          | some qs => .ok (p08_aliasPick s.fileFullname (searchAliasInImports m.qualifiedImports typeName).1
              (searchAliasInImports m.qualifiedImports typeName).2 qs) := by
  rw [p08_findAlias_eq]
  have he : ((("" : String) != "") = true) = False := by decide
  simp only [he, if_false]

theorem p08_aliasFold_done (full : String) (qs : List String) (x y : String) :
    qs.foldl (p08_aliasStep full) (x, y, true) = (x, y, true) := by
  induction qs with
  | nil => rfl
  | cons a as ih => rw [List.foldl_cons]; simpa [p08_aliasStep] using ih

/-- the loop returns the FIRST candidate (in the order given) whose module path contains the current
    module's full name; without such a candidate, the last candidate's name and the qualified name
    found before the loop -/
theorem p08_aliasFold (full : String) (qs : List String) : ∀ (n q : String),
    qs.foldl (p08_aliasStep full) (n, q, false) =
      match qs.find? (p08_aliasHit full) with
      | some h => (p08_aliasNm h, h, true)
      | none => ((qs.getLast?.map p08_aliasNm).getD n, q, false) := by
  induction qs with
  | nil => intro n q; rfl
  | cons a as ih =>
    intro n q
    rw [List.foldl_cons]
    by_cases ha : p08_aliasHit full a = true
    · have : p08_aliasStep full (n, q, false) a = (p08_aliasNm a, a, true) := by simp [p08_aliasStep, ha]
      rw [this, p08_aliasFold_done]; simp [ha]
    · have : p08_aliasStep full (n, q, false) a = (p08_aliasNm a, q, false) := by simp [p08_aliasStep, ha]
      rw [this, ih]; simp only [List.find?_cons, ha]
      cases as.find? (p08_aliasHit full) with
      | some h => rfl
      | none =>
        cases as with
        | nil => rfl
        | cons b bs =>
          have hl : (b :: bs).getLast? = some ((b :: bs).getLast (List.cons_ne_nil b bs)) :=
            List.getLast?_eq_getLast_of_ne_nil _
          simp only [List.getLast?_cons_cons, hl, Option.map_some, Option.getD_some]

/-- the loop over the sorted candidates does not depend on the iteration order of the candidate set,
    for ANY loop body and start value -/
theorem p08_sorted_foldl_perm {β : Type} (step : β → String → β) (init : β) {qs qs' : List String}
    (h : qs ~ qs') : (sortStrings qs).foldl step init = (sortStrings qs').foldl step init := by
  rw [p08_sortStrings_perm h]

/-- the choice among the candidates is a function of the candidate SET (no side condition left) -/
theorem p08_aliasPick_perm (full name qname : String) {qs qs' : List String} (h : qs ~ qs') :
    p08_aliasPick full name qname qs = p08_aliasPick full name qname qs' := by
  have hlen := h.length_eq
  match qs, qs', hlen with
  | [], [], _ => rfl
  | [q], [q'], _ =>
    have : q = q' := by simpa using h
    subst this; rfl
  | a :: b :: rest, a' :: b' :: rest', _ =>
    rw [p08_aliasPick_many, p08_aliasPick_many, p08_sortStrings_perm h]

/-- `_find_alias` for two iteration orders of `aliases[typeName]`, for every known qualified name
    (for a non-empty known name the candidates are not consulted at all) -/
theorem p08_findAlias_perm (env env' : AEnv) (s : VSt) (typeName : String) {qs qs' : List String}
    (h1 : assocGet? env.aliases typeName = some qs) (h2 : assocGet? env'.aliases typeName = some qs')
    (h : qs ~ qs') (k : String := "") :
    findAlias env s typeName k = findAlias env' s typeName k := by
  rw [p08_findAlias_eq, p08_findAlias_eq, h1, h2]
  cases bottomModule s with
  | none => rfl
  | some m => simp only [p08_aliasPick_perm _ _ _ h]

/-- the known qualified name wins: no hit in the qualified imports and a non-empty known name; the
    candidates are not consulted -/
theorem p08_findAlias_known (env : AEnv) (s : VSt) (typeName k : String) {m : Module}
    (hm : bottomModule s = some m)
    (himp : ((searchAliasInImports m.qualifiedImports typeName).1 != "" &&
      (searchAliasInImports m.qualifiedImports typeName).2 != "") = false)
    (hk : k ≠ "") :
    findAlias env s typeName k = .ok (lastD "" (splitDot k), k) := by
  rw [p08_findAlias_eq, hm]
  have hk' : (k != "") = true := by simpa using hk
  simp only [himp, Bool.false_eq_true, if_false, hk', if_true]
  rfl

/-- the whole alias table with permuted candidate lists (same keys in the same order) -/
def p08_AliasesPerm (al al' : List (String × List String)) : Prop :=
  List.Forall₂ (fun kv kv' => kv.1 = kv'.1 ∧ kv.2 ~ kv'.2) al al'

theorem p08_AliasesPerm.get : ∀ {al al' : List (String × List String)}, p08_AliasesPerm al al' →
    ∀ k : String, (assocGet? al k = none ∧ assocGet? al' k = none) ∨
      ∃ qs qs', assocGet? al k = some qs ∧ assocGet? al' k = some qs' ∧ qs ~ qs'
  | [], [], _, k => Or.inl ⟨rfl, rfl⟩
  | (ka, qa) :: l, (kb, qb) :: l', h, k => by
    unfold p08_AliasesPerm at h
    rw [List.forall₂_cons] at h
    obtain ⟨⟨h1, h2⟩, h3⟩ := h
    simp only at h1 h2
    subst h1
    simp only [assocGet?]
    by_cases e : (ka == k) = true
    · simp only [e, if_true]
      exact Or.inr ⟨qa, qb, rfl, rfl, h2⟩
    · simp only [e, if_false, Bool.false_eq_true]
      exact p08_AliasesPerm.get (al := l) (al' := l') h3 k
  | [], _ :: _, h, _ => by cases h
  | _ :: _, [], h, _ => by cases h

/-- `_find_alias` for two alias tables that differ by the iteration order of every candidate set -/
theorem p08_findAlias_perm_all (env env' : AEnv) (s : VSt) (typeName : String)
    (h : p08_AliasesPerm env.aliases env'.aliases) (k : String := "") :
    findAlias env s typeName k = findAlias env' s typeName k := by
  rcases h.get typeName with ⟨h1, h2⟩ | ⟨qs, qs', h1, h2, hp⟩
  · rw [p08_findAlias_eq, p08_findAlias_eq, h1, h2]
  · exact p08_findAlias_perm env env' s typeName h1 h2 hp k

/-! #### the order of the re-exported elements: `elements.sort(key=lambda x: (x.name, x.id))` -/

def p08_nodeKey (n : Node) : String × String := (n.name, n.id)

theorem p08_nodeLe_key (a b : Node) : nodeLe a b = p08_pairLe (p08_nodeKey a) (p08_nodeKey b) := rfl

/-- the sorted element list is a function of the element SET as soon as `(name, id)` identifies an element -/
theorem p08_sortBy_nodeLe_perm {l l' : List Node} (h : l ~ l')
    (hinj : ∀ a ∈ l, ∀ b ∈ l, a.name = b.name → a.id = b.id → a = b) :
    sortBy nodeLe l = sortBy nodeLe l' :=
  p08_sortBy_perm_invariant nodeLe
    (fun a b => by rw [p08_nodeLe_key]; exact p08_pairLe_total _ _)
    (fun a b c => by simp only [p08_nodeLe_key]; exact p08_pairLe_trans _ _ _)
    (fun a ha b hb h1 h2 => by
      have e := p08_pairLe_antisymm _ _ (by rwa [p08_nodeLe_key] at h1) (by rwa [p08_nodeLe_key] at h2)
      simp only [p08_nodeKey, Prod.mk.injEq] at e
      exact hinj a ha b hb e.1 e.2) h

/-- without any hypothesis: the sequence of `(name, id)` keys of the sorted list is determined -/
theorem p08_sortBy_nodeLe_perm_key {l l' : List Node} (h : l ~ l') :
    (sortBy nodeLe l).map p08_nodeKey = (sortBy nodeLe l').map p08_nodeKey :=
  p08_sortBy_map_key p08_nodeKey nodeLe p08_pairLe p08_nodeLe_key p08_pairLe_total p08_pairLe_trans
    p08_pairLe_antisymm h

theorem p08_createReexportModules_cons (env : Env) (moduleId : String) (elements : List Node)
    (rest : List (String × List Node)) :
    createReexportModules env ((moduleId, elements) :: rest) = (do
      modify fun s => { s with creatingReexport := false }
      setModuleId moduleId
      modify fun s => { s with creatingReexport := true }
      let ds ← createReexportElements env moduleId (sortBy nodeLe elements)
      let more ← createReexportModules env rest
      pure (ds ++ more)) := by
  rw [createReexportModules]

theorem p08_createReexportModules_perm (env : Env) (moduleId : String) {l l' : List Node}
    (rest : List (String × List Node)) (h : l ~ l')
    (hinj : ∀ a ∈ l, ∀ b ∈ l, a.name = b.name → a.id = b.id → a = b) :
    createReexportModules env ((moduleId, l) :: rest) = createReexportModules env ((moduleId, l') :: rest) := by
  rw [p08_createReexportModules_cons, p08_createReexportModules_cons, p08_sortBy_nodeLe_perm h hinj]

end StubGen

