/-
The analyser reads the alias table only through look-ups by name, and `_find_alias` sorts the candidates: two tables
with the same candidate SETS for every name (whatever the order of the keys and of the candidates) give the same analysis.
-/
import StubGen.Proofs.Order
import StubGen.Proofs.Aliases

namespace StubGen

open List

/-- the same candidates for every short name, up to order -/
def AliasEquiv (al al' : AliasTable) : Prop :=
  ∀ k : String, (assocGet? al k = none ∧ assocGet? al' k = none) ∨
    ∃ qs qs', assocGet? al k = some qs ∧ assocGet? al' k = some qs' ∧ qs ~ qs'

section
variable (env : AEnv) (al' : AliasTable) (h : AliasEquiv env.aliases al')

/-- the environment with the other table (options and `infoBases` untouched) -/
abbrev ac_env' : AEnv := { env with aliases := al' }

include h

theorem ac_findAlias (s : VSt) (n k : String) : findAlias env s n k = findAlias (ac_env' env al') s n k := by
  rcases h n with ⟨h1, h2⟩ | ⟨qs, qs', h1, h2, hp⟩
  · rw [p08_findAlias_eq, p08_findAlias_eq, h1]
    have : assocGet? (ac_env' env al').aliases n = none := h2
    rw [this]
  · exact p08_findAlias_perm env (ac_env' env al') s n h1 h2 hp k

theorem ac_isSome (n : String) : (assocGet? env.aliases n).isSome = (assocGet? al' n).isSome := by
  rcases h n with ⟨h1, h2⟩ | ⟨qs, qs', h1, h2, _⟩
  · rw [h1, h2]
  · rw [h1, h2]; rfl

mutual
theorem ac_toAbstractNoUn : ∀ t : MType, toAbstractNoUn env t = toAbstractNoUn (ac_env' env al') t
  | .tuple items => by simp only [toAbstractNoUn, ac_toAbstracts items]
  | .union items => by simp only [toAbstractNoUn, ac_toAbstracts items]
  | .typeVar name ub ubStr => by simp only [toAbstractNoUn, ac_toAbstractNoUn ub]
  | .callable args ret => by simp only [toAbstractNoUn, ac_toAbstracts args, ac_toAbstractNoUn ret]
  | .any t missing => by simp only [toAbstractNoUn, ac_findAlias env al' h]
  | .none => by simp only [toAbstractNoUn]
  | .literal v => by simp only [toAbstractNoUn]
  | .unbound name args => by simp only [toAbstractNoUn, ac_toAbstracts args, ac_findAlias env al' h]
  | .inst name fullname args => by
    match args with
    | [] => simp only [toAbstractNoUn, ac_toAbstracts []]
    | [a] => simp only [toAbstractNoUn, ac_toAbstracts [a]]
    | k :: v :: rest => simp only [toAbstractNoUn, ac_toAbstracts (k :: v :: rest), ac_toAbstractNoUn k, ac_toAbstractNoUn v]
  | .other _ _ => by simp only [toAbstractNoUn]
theorem ac_toAbstracts : ∀ ts : List MType, toAbstracts env ts = toAbstracts (ac_env' env al') ts
  | [] => by simp only [toAbstracts]
  | t :: ts => by simp only [toAbstracts, ac_toAbstractNoUn t, ac_toAbstracts ts]
end

/-! functions that read only the options: equal by unfolding -/
omit h in
theorem ac_classDocumentation (fn : String) (defs : List Def) :
    classDocumentation env fn defs = classDocumentation (ac_env' env al') fn defs := rfl
omit h in
theorem ac_functionDocumentation (f : FuncDef) : functionDocumentation env f = functionDocumentation (ac_env' env al') f := rfl
omit h in
theorem ac_parameterDocumentation (a b c : String) :
    parameterDocumentation env a b c = parameterDocumentation (ac_env' env al') a b c := rfl
omit h in
theorem ac_attributeDocumentation (a b : String) : attributeDocumentation env a b = attributeDocumentation (ac_env' env al') a b := rfl
omit h in
theorem ac_resultDocumentation (a : String) : resultDocumentation env a = resultDocumentation (ac_env' env al') a := rfl
omit h in
theorem ac_reconcileParameter (fid : String) (p : Parameter) :
    reconcileParameter env fid p = reconcileParameter (ac_env' env al') fid p := rfl

omit h in
theorem ac_reconcileParameters (fid : String) : ∀ ps : List Parameter,
    reconcileParameters env fid ps = reconcileParameters (ac_env' env al') fid ps
  | [] => by simp only [reconcileParameters]
  | p :: ps => by simp only [reconcileParameters, ac_reconcileParameter env al' fid p, ac_reconcileParameters fid ps]

omit h in
theorem ac_reconcileResults (fid : String) : ∀ (ds : List ResultDoc) (i : Nat) (all rs : List Result),
    reconcileResults env fid i all rs ds = reconcileResults (ac_env' env al') fid i all rs ds
  | [], i, all, rs => by simp only [reconcileResults]
  | d :: ds, i, all, rs => by
    simp only [reconcileResults]
    simp only [ac_reconcileResults fid ds]

omit h in
theorem ac_inheritsFromException : ∀ (fuel : Nat) (n : String),
    inheritsFromException env fuel n = inheritsFromException (ac_env' env al') fuel n
  | 0, _ => by simp only [inheritsFromException]
  | fuel + 1, n => by
    have ih : inheritsFromException env fuel = inheritsFromException (ac_env' env al') fuel := funext (ac_inheritsFromException fuel)
    simp only [inheritsFromException, ih]

theorem ac_toAbstract (t : MType) (un : Option MType) : toAbstract env t un = toAbstract (ac_env' env al') t un := by
  unfold toAbstract
  simp only [ac_toAbstracts env al' h, ac_toAbstractNoUn env al' h]

theorem ac_parseParameter (f : FuncDef) (fid : String) (a : Arg) :
    parseParameter env f fid a = parseParameter (ac_env' env al') f fid a := by
  unfold parseParameter
  simp only [ac_toAbstract env al' h, ac_parameterDocumentation env al']

theorem ac_parseParameters (f : FuncDef) (fid : String) : ∀ as : List Arg,
    parseParameters env f fid as = parseParameters (ac_env' env al') f fid as
  | [] => by simp only [parseParameters]
  | a :: as => by simp only [parseParameters, ac_parseParameter env al' h f fid a, ac_parseParameters f fid as]

theorem ac_parseResults (f : FuncDef) (fid : String) (docs : List ResultDoc) :
    parseResults env f fid docs = parseResults (ac_env' env al') f fid docs := by
  unfold parseResults
  simp only [ac_toAbstract env al' h]

theorem ac_enterFuncdef (f : FuncDef) : enterFuncdef env f = enterFuncdef (ac_env' env al') f := by
  unfold enterFuncdef
  simp only [ac_parseParameters env al' h, ac_parseResults env al' h, ac_reconcileParameters env al', ac_reconcileResults env al',
    ac_functionDocumentation env al', ac_resultDocumentation env al']

theorem ac_createAttributeV (isMember : Bool) (name fullname : String) (isVar : Bool) (var : Option VarInfo)
    (un : Option MType) (isStatic : Bool) :
    createAttributeV env isMember name fullname isVar var un isStatic
      = createAttributeV (ac_env' env al') isMember name fullname isVar var un isStatic := by
  unfold createAttributeV
  simp only [ac_toAbstract env al' h, ac_attributeDocumentation env al']

theorem ac_parseAttributes (lv : LValue) (un : Option MType) (isStatic : Bool) :
    parseAttributes env lv un isStatic = parseAttributes (ac_env' env al') lv un isStatic := by
  unfold parseAttributes
  simp only [ac_createAttributeV env al' h]

theorem ac_enterAssignment_go (a : Assignment) : ∀ lvs : List LValue,
    enterAssignment.go env a lvs = enterAssignment.go (ac_env' env al') a lvs
  | [] => by simp only [enterAssignment.go]
  | lv :: rest => by
    simp only [enterAssignment.go, ac_parseAttributes env al' h, ac_enterAssignment_go a rest]

theorem ac_enterAssignment (a : Assignment) : enterAssignment env a = enterAssignment (ac_env' env al') a := by
  unfold enterAssignment
  simp only [ac_enterAssignment_go env al' h]

theorem ac_typeParameter (tv : TypeVarInfo) : typeParameter env tv = typeParameter (ac_env' env al') tv := by
  unfold typeParameter
  simp only [ac_toAbstract env al' h, ac_toAbstracts env al' h]

theorem ac_typeParameters : ∀ l : List (Option TypeVarInfo), typeParameters env l = typeParameters (ac_env' env al') l
  | [] => by simp only [typeParameters]
  | none :: _ => by simp only [typeParameters]
  | some tv :: rest => by simp only [typeParameters, ac_typeParameter env al' h tv, ac_typeParameters rest]

omit h in
theorem ac_ctorFullDoc : ∀ defs : List Def, ctorFullDoc env defs = ctorFullDoc (ac_env' env al') defs
  | [] => by simp only [ctorFullDoc]
  | .func f :: rest => by simp only [ctorFullDoc, ac_functionDocumentation env al', ac_ctorFullDoc rest]
  | .decorator _ :: rest => by simp only [ctorFullDoc, ac_ctorFullDoc rest]
  | .overloaded _ :: rest => by simp only [ctorFullDoc, ac_ctorFullDoc rest]
  | .cls _ _ _ _ _ :: rest => by simp only [ctorFullDoc, ac_ctorFullDoc rest]
  | .assign _ :: rest => by simp only [ctorFullDoc, ac_ctorFullDoc rest]
  | .docExpr _ _ :: rest => by simp only [ctorFullDoc, ac_ctorFullDoc rest]
  | .other _ :: rest => by simp only [ctorFullDoc, ac_ctorFullDoc rest]

theorem ac_enterClassdef (name fullname : String) (bases removed : List BaseExpr) (defs : List Def) :
    enterClassdef env name fullname bases removed defs = enterClassdef (ac_env' env al') name fullname bases removed defs := by
  unfold enterClassdef
  have hi : ∀ fuel, inheritsFromException env fuel = inheritsFromException (ac_env' env al') fuel :=
    fun fuel => funext (ac_inheritsFromException env al' fuel)
  simp only [ac_typeParameters env al' h, ac_classDocumentation env al', ac_ctorFullDoc env al', ac_findAlias env al' h,
    ac_isSome env al' h, hi]

omit h in
theorem ac_enterEnumdef (name fullname : String) (defs : List Def) :
    enterEnumdef env name fullname defs = enterEnumdef (ac_env' env al') name fullname defs := rfl

theorem ac_walkAssignment (a : Assignment) : walkAssignment env a = walkAssignment (ac_env' env al') a := by
  unfold walkAssignment
  simp only [ac_enterAssignment env al' h]

theorem ac_walkFunc (f : FuncDef) : walkFunc env f = walkFunc (ac_env' env al') f := by
  unfold walkFunc
  simp only [ac_enterFuncdef env al' h, ac_walkAssignment env al' h]

mutual
theorem ac_walkDef (mode : WalkMode) : ∀ d : Def, walkDef env mode d = walkDef (ac_env' env al') mode d
  | .func f => by simp only [walkDef, ac_walkFunc env al' h]
  | .decorator f => by simp only [walkDef, ac_walkFunc env al' h]
  | .overloaded impl => by simp only [walkDef, ac_walkFunc env al' h]
  | .cls name fullname bases removed defs => by
    simp only [walkDef, ac_enterClassdef env al' h, ac_enterEnumdef env al', ac_walkDefs .enum defs, ac_walkDefs .cls defs]
  | .assign a => by simp only [walkDef, ac_walkAssignment env al' h]
  | .docExpr _ _ => by simp only [walkDef]
  | .other _ => by simp only [walkDef]
theorem ac_walkDefs (mode : WalkMode) : ∀ ds : List Def, walkDefs env mode ds = walkDefs (ac_env' env al') mode ds
  | [] => by simp only [walkDefs]
  | d :: ds => by simp only [walkDefs, ac_walkDef mode d, ac_walkDefs mode ds]
end

theorem ac_walkModule (m : SrcModule) : walkModule env m = walkModule (ac_env' env al') m := by
  unfold walkModule
  simp only [ac_walkDefs env al' h]

theorem ac_walkModules : ∀ ms : List SrcModule, walkModules env ms = walkModules (ac_env' env al') ms
  | [] => by simp only [walkModules]
  | m :: ms => by simp only [walkModules, ac_walkModule env al' h m, ac_walkModules ms]

/-- THE ANALYSIS DEPENDS ON THE ALIAS TABLE ONLY AS A DICT OF SETS -/
theorem ac_analyze (docRoot : GNode) (mods : List SrcModule) :
    analyze env docRoot mods = analyze (ac_env' env al') docRoot mods := by
  unfold analyze
  simp only [ac_walkModules env al' h]

end

/-! ### the table `_get_aliases` builds: every candidate list is duplicate-free and non-empty -/

def AliasInv (t : AliasTable) : Prop := ∀ k v, assocGet? t k = some v → v.Nodup ∧ v ≠ []

theorem ac_nodup_insertSet {a : String} {l : List String} (hl : l.Nodup) : (insertSet a l).Nodup := by
  unfold insertSet
  by_cases hc : l.contains a = true
  · simp only [hc, if_true]; exact hl
  · have : a ∉ l := by simpa using hc
    simp only [hc, Bool.false_eq_true, if_false]
    exact List.nodup_append.mpr ⟨hl, by simp, by
      intro x hx y hy
      simp only [List.mem_singleton] at hy
      subst hy
      intro e; subst e; exact this hx⟩

theorem ac_insertSet_ne_nil (a : String) (l : List String) : insertSet a l ≠ [] := by
  unfold insertSet
  by_cases hc : l.contains a = true
  · simp only [hc, if_true]
    intro e; subst e; simp at hc
  · have : a ∉ l := by simpa using hc
    simp [this]

theorem ac_aliasAdd_inv {t : AliasTable} (ht : AliasInv t) (n fn : String) : AliasInv (aliasAdd t n fn) := by
  intro k v hv
  unfold aliasAdd at hv
  by_cases hany : t.any (·.1 == n) = true
  · simp only [hany, if_true] at hv
    rw [assocGet?_map_update] at hv
    cases hg : assocGet? t k with
    | none => simp [hg] at hv
    | some v0 =>
      simp only [hg, Option.map_some, Option.some.injEq] at hv
      obtain ⟨h1, h2⟩ := ht k v0 hg
      by_cases hk : (k == n) = true
      · simp only [hk, if_true] at hv
        subst hv
        exact ⟨ac_nodup_insertSet h1, ac_insertSet_ne_nil _ _⟩
      · simp only [hk, Bool.false_eq_true, if_false] at hv
        subst hv
        exact ⟨h1, h2⟩
  · have hany' : t.any (·.1 == n) = false := by
      cases hh : t.any (·.1 == n) with
      | true => exact absurd hh hany
      | false => rfl
    simp only [hany', Bool.false_eq_true, if_false] at hv
    rw [assocGet?_append_new hany'] at hv
    by_cases hk : (n == k) = true
    · simp only [hk, if_true] at hv
      cases hg : assocGet? t k with
      | none =>
        simp only [hg, Option.some.injEq] at hv
        subst hv
        exact ⟨by simp, by simp⟩
      | some v0 =>
        simp only [hg, Option.some.injEq] at hv
        subst hv
        exact ht k v0 hg
    · simp only [hk, Bool.false_eq_true, if_false] at hv
      exact ht k v hv

theorem ac_getAliasesFrom_inv (pkg : String) : ∀ (fs : List AliasFact) (t : AliasTable), AliasInv t → AliasInv (getAliasesFrom pkg t fs)
  | [], t, ht => by simpa [getAliasesFrom] using ht
  | f :: fs, t, ht => by
    unfold getAliasesFrom
    cases aliasStep pkg f with
    | skip => exact ac_getAliasesFrom_inv pkg fs t ht
    | add n fn => exact ac_getAliasesFrom_inv pkg fs _ (ac_aliasAdd_inv ht n fn)

theorem ac_getAliases_inv (pkg : String) (fs : List AliasFact) : AliasInv (getAliases pkg fs) :=
  ac_getAliasesFrom_inv pkg fs [] (by intro k v hv; simp [assocGet?] at hv)

/-- two tables with the invariant and the same members under every name are equivalent -/
theorem ac_equiv_of_mem {t t' : AliasTable} (ht : AliasInv t) (ht' : AliasInv t')
    (hm : ∀ n x, x ∈ lookupA t n ↔ x ∈ lookupA t' n) : AliasEquiv t t' := by
  intro k
  cases hg : assocGet? t k with
  | none =>
    cases hg' : assocGet? t' k with
    | none => exact Or.inl ⟨rfl, rfl⟩
    | some v' =>
      exfalso
      obtain ⟨_, hne⟩ := ht' k v' hg'
      obtain ⟨x, hx⟩ := List.exists_mem_of_ne_nil v' hne
      have : x ∈ lookupA t k := (hm k x).mpr (by simp [lookupA, hg', hx])
      simp [lookupA, hg] at this
  | some v =>
    cases hg' : assocGet? t' k with
    | none =>
      exfalso
      obtain ⟨_, hne⟩ := ht k v hg
      obtain ⟨x, hx⟩ := List.exists_mem_of_ne_nil v hne
      have : x ∈ lookupA t' k := (hm k x).mp (by simp [lookupA, hg, hx])
      simp [lookupA, hg'] at this
    | some v' =>
      right
      refine ⟨v, v', rfl, rfl, ?_⟩
      apply (List.perm_ext_iff_of_nodup (ht k v hg).1 (ht' k v' hg').1).mpr
      intro x
      have := hm k x
      simpa [lookupA, hg, hg'] using this

/-- the alias tables of two orders of mypy's expression-type dict are equivalent -/
theorem ac_getAliases_perm (pkg : String) {facts facts' : List AliasFact} (hp : facts ~ facts') :
    AliasEquiv (getAliases pkg facts) (getAliases pkg facts') := by
  apply ac_equiv_of_mem (ac_getAliases_inv pkg facts) (ac_getAliases_inv pkg facts')
  intro n x
  unfold getAliases
  rw [mem_getAliasesFrom, mem_getAliasesFrom]
  constructor
  · rintro (h | ⟨f, hf, hs⟩)
    · exact Or.inl h
    · exact Or.inr ⟨f, hp.mem_iff.mp hf, hs⟩
  · rintro (h | ⟨f, hf, hs⟩)
    · exact Or.inl h
    · exact Or.inr ⟨f, hp.mem_iff.mpr hf, hs⟩

end StubGen
