/-
Helper lemmas about the whole-tool model (`Model/Pipeline.lean`).
-/
import StubGen.Model.Pipeline
import StubGen.Proofs.Order
import StubGen.Proofs.Aliases

namespace StubGen

open List

/-! ### the order of `sorted(paths)` -/

theorem pl_partsLe_total : ∀ a b : PathParts, partsLe a b = true ∨ partsLe b a = true
  | [], _ => Or.inl rfl
  | _ :: _, [] => Or.inr rfl
  | a :: as, b :: bs => by
    simp only [partsLe]
    rcases lt_trichotomy a b with h | h | h
    · left; simp [h]
    · subst h
      simp only [lt_self_iff_false, if_false, if_true]
      exact pl_partsLe_total as bs
    · right; simp [h]

theorem pl_partsLe_trans : ∀ a b c : PathParts, partsLe a b = true → partsLe b c = true → partsLe a c = true
  | [], _, _, _, _ => rfl
  | _ :: _, [], _, h, _ => by simp [partsLe] at h
  | _ :: _, _ :: _, [], _, h => by simp [partsLe] at h
  | a :: as, b :: bs, c :: cs, h1, h2 => by
    simp only [partsLe] at h1 h2 ⊢
    rcases lt_trichotomy a b with hab | hab | hab
    · rcases lt_trichotomy b c with hbc | hbc | hbc
      · simp [lt_trans hab hbc]
      · subst hbc; simp [hab]
      · simp [hbc, not_lt_of_gt hbc, ne_of_gt hbc] at h2
    · subst hab
      simp only [lt_self_iff_false, if_false, if_true] at h1
      rcases lt_trichotomy a c with hbc | hbc | hbc
      · simp [hbc]
      · subst hbc
        simp only [lt_self_iff_false, if_false, if_true] at h2 ⊢
        exact pl_partsLe_trans as bs cs h1 h2
      · simp [not_lt_of_gt hbc, ne_of_gt hbc] at h2
    · simp [not_lt_of_gt hab, ne_of_gt hab] at h1

theorem pl_partsLe_antisymm : ∀ a b : PathParts, partsLe a b = true → partsLe b a = true → a = b
  | [], [], _, _ => rfl
  | [], _ :: _, _, h => by simp [partsLe] at h
  | _ :: _, [], h, _ => by simp [partsLe] at h
  | a :: as, b :: bs, h1, h2 => by
    simp only [partsLe] at h1 h2
    rcases lt_trichotomy a b with hab | hab | hab
    · simp [not_lt_of_gt hab, ne_of_gt hab] at h2
    · subst hab
      simp only [lt_self_iff_false, if_false, if_true] at h1 h2
      rw [pl_partsLe_antisymm as bs h1 h2]
    · simp [not_lt_of_gt hab, ne_of_gt hab] at h1

/-- `sorted(files)` is a function of the SET of enumerated files: two enumeration orders give the same list -/
theorem pl_sortPaths_perm {l l' : List PathParts} (h : l ~ l') : sortPaths l = sortPaths l' :=
  p08_sortBy_perm_invariant partsLe pl_partsLe_total pl_partsLe_trans (fun a _ b _ => pl_partsLe_antisymm a b) h

theorem pl_mem_sortPaths (f : PathParts) (l : List PathParts) : f ∈ sortPaths l ↔ f ∈ l := (sortBy_perm partsLe l).mem_iff

theorem pl_adjustRoot_sortPaths (root : PathParts) (files : List PathParts) :
    adjustRoot root (sortPaths files) = adjustRoot root files :=
  p08_adjustRoot_perm root (sortBy_perm partsLe files)

/-- the walked modules are the graph modules at the paths `selectAsts` selects, in the same order -/
theorem pl_selectModules_paths (graph : List SrcModule) (d : Discovered) :
    (selectModules graph d).map (·.path) = selectAsts (graph.map (·.path)) d := by
  unfold selectModules selectAsts
  simp only [List.map_append, List.filter_map, Function.comp_def]

/-- `_get_mypy_asts` uses the discovered files and package directories as SETS -/
theorem pl_selectModules_congr (graph : List SrcModule) {d d' : Discovered}
    (hw : ∀ p, p ∈ d.walkable ↔ p ∈ d'.walkable) (hp : ∀ p, p ∈ d.packages ↔ p ∈ d'.packages) :
    selectModules graph d = selectModules graph d' := by
  unfold selectModules
  simp only [p08_contains_map_congr hw, p08_contains_map_congr hp]

/-- `get_api` on two enumeration orders of the same directory listing -/
theorem pl_getApi_files_perm (i : ToolInput) {files' : List PathParts} (h : i.files ~ files') :
    getApi { i with files := files' } = getApi i := by
  unfold getApi discoverSorted
  simp only [pl_sortPaths_perm h]

theorem pl_runTool_files_perm (i : ToolInput) {files' : List PathParts} (h : i.files ~ files') :
    runTool { i with files := files' } = runTool i := by
  unfold runTool
  rw [pl_getApi_files_perm i h]

/-- the flag does not matter when no file lies in a `test`/`tests`/`docs` directory -/
theorem pl_discoverFrom_flag (root : PathParts) (files : List PathParts)
    (h : ∀ f ∈ files, inExcludedDir f = false) (b b' : Bool) :
    discoverFrom root files b = discoverFrom root files b' := by
  have key : ∀ (fs : List PathParts), (∀ f ∈ fs, inExcludedDir f = false) → ∀ b, discoverLoop b fs = discoverLoop true fs := by
    intro fs hfs b
    induction fs with
    | nil => simp [discoverLoop]
    | cons f fs ih =>
      have hf := hfs f (by simp)
      have ih' := ih (fun g hg => hfs g (by simp [hg]))
      unfold discoverLoop
      simp [hf, ih']
  have hsub : ∀ f ∈ filesUnder (adjustRoot root files) files, inExcludedDir f = false := by
    intro f hf
    unfold filesUnder at hf
    exact h f (List.mem_filter.mp hf).1
  unfold discoverFrom discover
  simp only [key _ hsub b, key _ hsub b']

theorem pl_runTool_flag (i : ToolInput) (h : ∀ f ∈ i.files, inExcludedDir f = false) (b : Bool) :
    runTool { i with isTestRun := b } = runTool i := by
  unfold runTool getApi discoverSorted
  have h' : ∀ f ∈ sortPaths i.files, inExcludedDir f = false := fun f hf => h f ((pl_mem_sortPaths f _).mp hf)
  simp only [pl_discoverFrom_flag i.srcDir (sortPaths i.files) h' b i.isTestRun]

/-- what a successful run went through -/
theorem pl_runTool_ok {i : ToolInput} {o : ToolOutput} (h : runTool i = .ok o) :
    ∃ root d r ws text gen,
      discoverSorted i.srcDir i.files i.isTestRun = .ok (root, d) ∧
      analyze { opts := i.opts, aliases := getAliases (pathStem root) i.aliasFacts, infoBases := i.infoBases } i.docRoot
        (selectModules i.graph d) = .ok (r, ws) ∧
      apiJsonText (pathStem root) r = .ok text ∧
      runGenerator (r.toApi (pathStem root)) i.safe i.preexisting = .ok gen ∧
      o = { packageName := pathStem root, analysed := (selectModules i.graph d).map (·.path),
            aliases := getAliases (pathStem root) i.aliasFacts, api := r, warnings := ws,
            apiFileName := pathStem i.srcDir ++ "__api.json", apiFileText := text, gen := gen } := by
  unfold runTool getApi at h
  cases hd : discoverSorted i.srcDir i.files i.isTestRun with
  | error e => simp [hd] at h
  | ok rd =>
    obtain ⟨root, d⟩ := rd
    simp only [hd] at h
    cases ha : analyze { opts := i.opts, aliases := getAliases (pathStem root) i.aliasFacts, infoBases := i.infoBases }
        i.docRoot (selectModules i.graph d) with
    | error e => simp [ha] at h
    | ok rw =>
      obtain ⟨r, ws⟩ := rw
      simp only [ha] at h
      cases ht : apiJsonText (pathStem root) r with
      | error e => simp [ht] at h
      | ok text =>
        simp only [ht] at h
        cases hg : runGenerator (r.toApi (pathStem root)) i.safe i.preexisting with
        | error e => simp [hg] at h
        | ok gen =>
          simp only [hg, Except.ok.injEq] at h
          exact ⟨root, d, r, ws, text, gen, rfl, ha, ht, hg, h.symm⟩

/-- where an error of the whole tool can come from: discovery ("No files found"), the walk, the JSON serialisation,
    the stub generator — never from the alias collection -/
theorem pl_runTool_error {i : ToolInput} {e : PyErr} (h : runTool i = .error e) :
    discoverSorted i.srcDir i.files i.isTestRun = .error e ∨
    ∃ root d, discoverSorted i.srcDir i.files i.isTestRun = .ok (root, d) ∧
      (analyze { opts := i.opts, aliases := getAliases (pathStem root) i.aliasFacts, infoBases := i.infoBases } i.docRoot
          (selectModules i.graph d) = .error e ∨
       ∃ r ws, analyze { opts := i.opts, aliases := getAliases (pathStem root) i.aliasFacts, infoBases := i.infoBases } i.docRoot
          (selectModules i.graph d) = .ok (r, ws) ∧
         (apiJsonText (pathStem root) r = .error e ∨ runGenerator (r.toApi (pathStem root)) i.safe i.preexisting = .error e)) := by
  unfold runTool getApi at h
  cases hd : discoverSorted i.srcDir i.files i.isTestRun with
  | error e' =>
    simp only [hd, Except.error.injEq] at h
    exact Or.inl (by rw [h])
  | ok rd =>
    obtain ⟨root, d⟩ := rd
    right
    refine ⟨root, d, rfl, ?_⟩
    simp only [hd] at h
    cases ha : analyze { opts := i.opts, aliases := getAliases (pathStem root) i.aliasFacts, infoBases := i.infoBases }
        i.docRoot (selectModules i.graph d) with
    | error e' =>
      simp only [ha, Except.error.injEq] at h
      exact Or.inl (by rw [h])
    | ok rw =>
      obtain ⟨r, ws⟩ := rw
      right
      refine ⟨r, ws, rfl, ?_⟩
      simp only [ha] at h
      cases ht : apiJsonText (pathStem root) r with
      | error e' =>
        simp only [ht, Except.error.injEq] at h
        exact Or.inl (by rw [h])
      | ok text =>
        simp only [ht] at h
        cases hg : runGenerator (r.toApi (pathStem root)) i.safe i.preexisting with
        | error e' =>
          simp only [hg, Except.error.injEq] at h
          exact Or.inr (by rw [h])
        | ok gen => simp [hg] at h

end StubGen
