/-
Helper lemmas for `StubGen.Theorems.C06` / `C07`: the state-monad computations `createParameter`,
`createParameters`, `createParameterString`, `createResults`, `createResultString` of the generator
model written out as explicit equations on `Except PyErr (α × St)`, and the list inductions on them.
-/
import StubGen.Model.Gen
import StubGen.Spec.Params

namespace StubGen

open Spec

/-! ### the receiver -/

theorem wfReceiver_iff (ps : List Parameter) (b : Bool) : wfReceiver ps b = true ↔ WFReceiver ps b := by
  cases b with
  | false => simp [wfReceiver, WFReceiver]
  | true =>
    cases ps with
    | nil => simp [wfReceiver, WFReceiver]
    | cons p rest =>
      simp only [wfReceiver, WFReceiver, if_true, Bool.and_eq_true, beq_iff_eq, List.all_eq_true, bne_iff_ne]
      constructor
      · rintro ⟨h1, h2⟩
        exact ⟨p, rest, rfl, h1, h2⟩
      · rintro ⟨_, _, h, h1, h2⟩
        cases h
        exact ⟨h1, h2⟩

instance (ps : List Parameter) (b : Bool) : Decidable (WFReceiver ps b) :=
  decidable_of_iff _ (wfReceiver_iff ps b)

theorem receiverRemoved_eq_self {ps : List Parameter} (h : ∀ q ∈ ps, q.assignedBy ≠ .implicit) :
    receiverRemoved ps = ps := by
  unfold receiverRemoved
  rw [List.filter_eq_self]
  intro q hq
  simpa using h q hq

theorem receiverRemoved_of_wf {ps : List Parameter} {b : Bool} (h : WFReceiver ps b) :
    (if b then ps.drop 1 else ps) = receiverRemoved ps := by
  cases b with
  | false =>
    simp only [WFReceiver, Bool.false_eq_true, if_false] at h ⊢
    exact (receiverRemoved_eq_self h).symm
  | true =>
    simp only [WFReceiver, if_true] at h ⊢
    obtain ⟨p, rest, rfl, hp, hrest⟩ := h
    have : receiverRemoved (p :: rest) = receiverRemoved rest := by
      simp [receiverRemoved, hp]
    rw [this, receiverRemoved_eq_self hrest]
    rfl

/-! ### markers -/

theorem addTodo_run (k : String) (st : St) :
    addTodo k st = .ok ((), { st with todos := insertSet k st.todos }) := rfl

/-- add marker `k` if `c` -/
def addIf (c : Bool) (k : String) (st : St) : St :=
  if c then { st with todos := insertSet k st.todos } else st

/-- the state after the default value of `p` has been rendered -/
def afterDefault (p : Parameter) (st : St) : St :=
  addIf (p.isOptional && p.default == .unknown) "unknown value" st

/-- the markers `createParameter` adds after the type has been rendered -/
def paramTail (p : Parameter) (st : St) : St :=
  addIf (isVariadic p) "variadic"
    (addIf (p.assignedBy == .nameOnly && !p.isOptional) "REQ_NAME_ONLY"
      (addIf (p.assignedBy == .positionOnly && p.isOptional) "OPT_POS_ONLY" st))

/-! ### one parameter -/

theorem defaultString_run (a : Assign) (d : DefaultVal) (st : St) :
    defaultString a d st = .ok (defaultText a d, addIf (d == .unknown) "unknown value" st) := by
  cases d with
  | none => rfl
  | unknown => rfl
  | int i => rfl
  | float r => rfl
  | bool b => cases b <;> rfl
  | str s =>
    simp only [defaultString, defaultText, beq_iff_eq, Bool.and_eq_true]
    split
    · rfl
    · split <;> rfl

/-- `*args: tuple[T]` is rendered as a list -/
def shownOf (a : Assign) (t : AType) : AType :=
  match a, t with
  | .positionalVararg, .tuple ts => AType.list ts
  | _, t => t

/-- first half of `createParameter`: type text and default value -/
def paramFirst (env : Env) (p : Parameter) : G (String × String) :=
  match p.type with
  | some t => do
    let value ← if p.isOptional then (do let d ← defaultString p.assignedBy p.default; pure (" = " ++ d)) else pure ""
    let ts ← typeStr env (shownOf p.assignedBy t)
    pure (if ts != "" then ": " ++ ts else "", value)
  | none => do
    addTodo "param without type"
    pure (match p.assignedBy with
      | .positionalVararg => ": List<Any>"
      | .namedVararg => ": Map<String, Any>"
      | _ => "", "")

/-- second half: the markers that depend on the kind, and the name -/
def paramFinish (env : Env) (p : Parameter) (tv : String × String) : G ParamOut := do
  if p.assignedBy == .positionOnly && p.isOptional then addTodo "OPT_POS_ONLY"
  else if p.assignedBy == .nameOnly && !p.isOptional then addTodo "REQ_NAME_ONLY"
  if p.assignedBy == .positionalVararg || p.assignedBy == .namedVararg then addTodo "variadic"
  let camel := convertName p.name env.safe
  let ann := if camel != p.name then nameAnnotation p.name ++ " " else ""
  pure { annotation := ann, name := escapeKeyword camel, typeString := tv.1, value := tv.2 }

theorem createParameter_eq (env : Env) (p : Parameter) :
    createParameter env p = paramFirst env p >>= paramFinish env p := rfl

theorem paramFinish_run (env : Env) (p : Parameter) (tv : String × String) (st : St) :
    paramFinish env p tv st = .ok
      ({ annotation := paramAnnotation env.safe p, name := paramName env.safe p,
         typeString := tv.1, value := tv.2 }, paramTail p st) := by
  have hann : (if convertName p.name env.safe != p.name then nameAnnotation p.name ++ " " else "")
      = paramAnnotation env.safe p := by
    simp [paramAnnotation]
  unfold paramFinish
  simp only [hann]
  unfold paramTail isVariadic paramName
  cases p.assignedBy <;> cases p.isOptional <;> rfl

/-- the type the generator renders for a typed parameter is the one the specification shows -/
theorem shownParamType_of_some {p : Parameter} {t : AType} (h : p.type = some t) :
    shownParamType p = some (shownOf p.assignedBy t) := by
  unfold shownParamType
  rw [h]
  cases p.assignedBy <;> cases t <;> rfl

theorem shownParamType_none {p : Parameter} (h : p.type = none) : shownParamType p = none := by
  unfold shownParamType
  rw [h]
  cases p.assignedBy <;> rfl

theorem paramFirst_none (env : Env) (p : Parameter) (st : St) (h : p.type = none) :
    paramFirst env p st = .ok ((untypedParamType p, ""),
      { st with todos := insertSet "param without type" st.todos }) := by
  unfold paramFirst
  rw [h]
  unfold untypedParamType
  cases p.assignedBy <;> rfl

theorem paramFirst_some (env : Env) (p : Parameter) (st : St) {t t' : AType} (h : p.type = some t)
    (hs : shownParamType p = some t') :
    paramFirst env p st =
      match typeStr env t' (afterDefault p st) with
      | .error e => .error e
      | .ok (ts, st₂) => .ok ((typeAnnotation ts, paramValue p), st₂) := by
  rw [shownParamType_of_some h] at hs
  cases hs
  have hta : ∀ ts : String, (if ts != "" then ": " ++ ts else "") = typeAnnotation ts := by
    intro ts; simp [typeAnnotation]
  unfold paramFirst
  rw [h]
  cases hopt : p.isOptional with
  | false =>
    simp only [Bool.false_eq_true, if_false, bind, StateT.bind, Except.bind, pure, StateT.pure, Except.pure, hta,
      afterDefault, hopt, Bool.false_and, addIf, paramValue]
    cases typeStr env (shownOf p.assignedBy t) st with
    | error e => rfl
    | ok x => rfl
  | true =>
    simp only [if_true, bind, StateT.bind, Except.bind, pure, StateT.pure, Except.pure, hta,
      defaultString_run, afterDefault, hopt, Bool.true_and, paramValue]
    cases typeStr env (shownOf p.assignedBy t) (addIf (p.default == DefaultVal.unknown) "unknown value" st) with
    | error e => rfl
    | ok x => rfl

/-- `createParameter` on an untyped parameter: never fails, no default value -/
theorem createParameter_none (env : Env) (p : Parameter) (st : St) (h : p.type = none) :
    createParameter env p st = .ok
      ({ annotation := paramAnnotation env.safe p, name := paramName env.safe p,
         typeString := untypedParamType p, value := "" },
       paramTail p { st with todos := insertSet "param without type" st.todos }) := by
  rw [createParameter_eq]
  simp only [bind, StateT.bind, Except.bind, paramFirst_none env p st h, paramFinish_run]

/-- `createParameter` on a typed parameter: fails exactly when rendering the shown type fails -/
theorem createParameter_some (env : Env) (p : Parameter) (st : St) {t t' : AType} (h : p.type = some t)
    (hs : shownParamType p = some t') :
    createParameter env p st =
      match typeStr env t' (afterDefault p st) with
      | .error e => .error e
      | .ok (ts, st₂) => .ok
        ({ annotation := paramAnnotation env.safe p, name := paramName env.safe p,
           typeString := typeAnnotation ts, value := paramValue p }, paramTail p st₂) := by
  rw [createParameter_eq]
  simp only [bind, StateT.bind, Except.bind, paramFirst_some env p st h hs]
  cases typeStr env t' (afterDefault p st) with
  | error e => rfl
  | ok x => obtain ⟨ts, st₂⟩ := x; simp only [paramFinish_run]

theorem createParameter_name {env : Env} {p : Parameter} {st st' : St} {out : ParamOut}
    (h : createParameter env p st = .ok (out, st')) :
    out.annotation = paramAnnotation env.safe p ∧ out.name = paramName env.safe p := by
  cases ht : p.type with
  | none =>
    rw [createParameter_none env p st ht] at h
    cases h
    exact ⟨rfl, rfl⟩
  | some t =>
    rw [createParameter_some env p st ht (shownParamType_of_some ht)] at h
    split at h
    · cases h
    · cases h
      exact ⟨rfl, rfl⟩

/-! ### the parameter list -/

theorem createParameters_cons (env : Env) (p : Parameter) (ps : List Parameter) (st : St) :
    createParameters env (p :: ps) st =
      match createParameter env p st with
      | .error e => .error e
      | .ok (a, st₁) =>
        match createParameters env ps st₁ with
        | .error e => .error e
        | .ok (as, st₂) => .ok (a :: as, st₂) := by
  simp only [createParameters, bind, StateT.bind, Except.bind, pure, StateT.pure, Except.pure]
  cases createParameter env p st with
  | error e => rfl
  | ok x =>
    obtain ⟨a, st₁⟩ := x
    simp only
    cases createParameters env ps st₁ <;> rfl

/-- a successful run produces one output per parameter, in order, each by a successful
    `createParameter` (in the state threaded so far) -/
theorem createParameters_ok {env : Env} {ps : List Parameter} {st st' : St} {outs : List ParamOut}
    (h : createParameters env ps st = .ok (outs, st')) :
    outs.length = ps.length ∧
    ∀ i (hp : i < ps.length) (ho : i < outs.length),
      ∃ s s', createParameter env ps[i] s = .ok (outs[i], s') := by
  induction ps generalizing st outs with
  | nil =>
    cases h
    exact ⟨rfl, fun i hp => absurd hp (Nat.not_lt_zero i)⟩
  | cons p ps ih =>
    rw [createParameters_cons] at h
    cases h1 : createParameter env p st with
    | error e => rw [h1] at h; cases h
    | ok x =>
      obtain ⟨a, st₁⟩ := x
      rw [h1] at h
      simp only at h
      cases h2 : createParameters env ps st₁ with
      | error e => rw [h2] at h; cases h
      | ok y =>
        obtain ⟨as, st₂⟩ := y
        rw [h2] at h
        cases h
        obtain ⟨hl, hi⟩ := ih h2
        refine ⟨by simp [hl], ?_⟩
        intro i hp ho
        cases i with
        | zero => exact ⟨st, st₁, h1⟩
        | succ i =>
          simp only [List.getElem_cons_succ]
          exact hi i (by simpa using hp) (by simpa using ho)

theorem createParameters_names {env : Env} {ps : List Parameter} {st st' : St} {outs : List ParamOut}
    (h : createParameters env ps st = .ok (outs, st')) :
    outs.map (fun o => (o.annotation, o.name))
      = ps.map (fun p => (paramAnnotation env.safe p, paramName env.safe p)) := by
  obtain ⟨hl, hi⟩ := createParameters_ok h
  apply List.ext_getElem (by simp [hl])
  intro i h1 h2
  simp only [List.getElem_map]
  obtain ⟨s, s', hc⟩ := hi i (by simpa using h2) (by simpa using h1)
  obtain ⟨ha, hn⟩ := createParameter_name hc
  rw [ha, hn]

theorem createParameterString_eq (env : Env) (ps : List Parameter) (indent : String) (b : Bool) (st : St) :
    createParameterString env ps indent b st =
      match createParameters env (if b then ps.drop 1 else ps) st with
      | .error e => .error e
      | .ok (outs, st') => .ok (paramListText indent indentation (outs.map ParamOut.render), st') := by
  simp only [createParameterString, bind, StateT.bind, Except.bind, pure]
  cases createParameters env (if b then ps.drop 1 else ps) st with
  | error e => rfl
  | ok x =>
    obtain ⟨outs, st'⟩ := x
    cases outs with
    | nil => rfl
    | cons o os => simp [paramListText, String.append_assoc, StateT.pure, pure, Except.pure]

/-! ### results -/

theorem isNoneResult_iff (r : Result) : isNoneResult r = true ↔ ∃ t, r.type = some t ∧ isNoneNamed t = true := by
  unfold isNoneResult
  cases r.type with
  | none => simp
  | some t => cases t <;> simp [isNoneNamed]

theorem isNoneResult_of_none {r : Result} (h : r.type = none) : isNoneResult r = false := by
  simp [isNoneResult, h]

theorem isNoneResult_of_some {r : Result} {t : AType} (h : r.type = some t) : isNoneResult r = isNoneNamed t := by
  unfold isNoneResult
  rw [h]
  cases t <;> rfl

theorem createResults_untyped (env : Env) (r : Result) (rs : List Result) (st : St) (h : r.type = none) :
    createResults env (r :: rs) st = createResults env rs st := by
  simp only [createResults, h]

theorem createResults_noneResult (env : Env) (r : Result) (rs : List Result) (st : St) {t : AType}
    (h : r.type = some t) (hn : isNoneNamed t = true) :
    createResults env (r :: rs) st = .ok (none, st) := by
  simp only [createResults, h, hn, if_true]
  rfl

theorem createResults_typed (env : Env) (r : Result) (rs : List Result) (st : St) {t : AType}
    (h : r.type = some t) (hn : isNoneNamed t = false) :
    createResults env (r :: rs) st =
      match typeStr env t st with
      | .error e => .error e
      | .ok (ts, st₁) =>
        match createResults env rs st₁ with
        | .error e => .error e
        | .ok (rest, st₂) =>
          .ok (rest.map (fun l => if ts ≠ "" then (Spec.resultName env.safe r ++ ": " ++ ts) :: l else l), st₂) := by
  simp only [createResults, h, hn, Bool.false_eq_true, if_false, bind, StateT.bind, Except.bind, pure,
    StateT.pure, Except.pure]
  cases typeStr env t st with
  | error e => rfl
  | ok x =>
    obtain ⟨ts, st₁⟩ := x
    simp only
    cases createResults env rs st₁ with
    | error e => rfl
    | ok y =>
      obtain ⟨rest, st₂⟩ := y
      simp [Spec.resultName]

/-- without a `None` result: success of `createResults` is `ResultsRendered` -/
theorem createResults_noNone_iff (env : Env) (rs : List Result) (st st' : St) (o : Option (List String))
    (hn : ∀ r ∈ rs, isNoneResult r = false) :
    createResults env rs st = .ok (o, st') ↔
      ∃ texts, o = some texts ∧ ResultsRendered (typeStr env) (Spec.resultName env.safe) rs st texts st' := by
  induction rs generalizing st o with
  | nil =>
    constructor
    · intro h
      cases h
      exact ⟨[], rfl, .nil _⟩
    · rintro ⟨texts, rfl, hr⟩
      cases hr
      rfl
  | cons r rs ih =>
    have hn' : ∀ q ∈ rs, isNoneResult q = false := fun q hq => hn q (List.mem_cons_of_mem _ hq)
    have hr0 : isNoneResult r = false := hn r List.mem_cons_self
    cases ht : r.type with
    | none =>
      rw [createResults_untyped env r rs st ht, ih st o hn']
      constructor
      · rintro ⟨texts, rfl, hr⟩
        exact ⟨texts, rfl, .untyped ht hr⟩
      · rintro ⟨texts, rfl, hr⟩
        cases hr with
        | untyped _ hr => exact ⟨texts, rfl, hr⟩
        | empty h1 => rw [ht] at h1; cases h1
        | shown h1 => rw [ht] at h1; cases h1
    | some t =>
      have hnn : isNoneNamed t = false := by rw [← isNoneResult_of_some ht]; exact hr0
      rw [createResults_typed env r rs st ht hnn]
      constructor
      · intro h
        cases h1 : typeStr env t st with
        | error e => rw [h1] at h; cases h
        | ok x =>
          obtain ⟨ts, st₁⟩ := x
          rw [h1] at h
          simp only at h
          cases h2 : createResults env rs st₁ with
          | error e => rw [h2] at h; cases h
          | ok y =>
            obtain ⟨rest, st₂⟩ := y
            rw [h2] at h
            cases h
            obtain ⟨texts, rfl, hr⟩ := (ih st₁ rest hn').1 h2
            by_cases hts : ts = ""
            · subst hts
              exact ⟨texts, by simp, .empty ht h1 hr⟩
            · exact ⟨_, by simp [hts], .shown ht h1 hts hr⟩
      · rintro ⟨texts, rfl, hr⟩
        cases hr with
        | untyped h1 => rw [ht] at h1; cases h1
        | empty h1 h2 h3 =>
          rw [ht] at h1; cases h1
          rw [h2]
          simp only
          rw [(ih _ _ hn').2 ⟨_, rfl, h3⟩]
          simp
        | shown h1 h2 h3 h4 =>
          rw [ht] at h1; cases h1
          rw [h2]
          simp only
          rw [(ih _ _ hn').2 ⟨_, rfl, h4⟩]
          simp [h3]

theorem resultsBeforeNone_noNone (rs : List Result) : ∀ r ∈ resultsBeforeNone rs, isNoneResult r = false := by
  induction rs with
  | nil => simp [resultsBeforeNone]
  | cons r rs ih =>
    unfold resultsBeforeNone
    split
    · simp
    · rename_i h
      intro q hq
      rcases List.mem_cons.1 hq with rfl | hq
      · simpa using h
      · exact ih q hq

theorem resultsBeforeNone_append (pre post : List Result) (r : Result) (hr : isNoneResult r = true)
    (hpre : ∀ q ∈ pre, isNoneResult q = false) : resultsBeforeNone (pre ++ r :: post) = pre := by
  induction pre with
  | nil => simp [resultsBeforeNone, hr]
  | cons p pre ih =>
    simp only [List.cons_append, resultsBeforeNone, hpre p List.mem_cons_self, Bool.false_eq_true, if_false]
    rw [ih (fun q hq => hpre q (List.mem_cons_of_mem _ hq))]

/-- with a `None` result: the results before the first one are rendered (a failure there is a
    failure of the whole), everything from the `None` result on is ignored, the outcome is `none` -/
theorem createResults_withNone (env : Env) (rs : List Result) (st : St) (h : rs.any isNoneResult = true) :
    createResults env rs st =
      match createResults env (resultsBeforeNone rs) st with
      | .error e => .error e
      | .ok (_, st') => .ok (none, st') := by
  induction rs generalizing st with
  | nil => simp at h
  | cons r rs ih =>
    cases hr : isNoneResult r with
    | true =>
      obtain ⟨t, ht, hnn⟩ := (isNoneResult_iff r).1 hr
      rw [createResults_noneResult env r rs st ht hnn]
      simp only [resultsBeforeNone, hr, if_true]
      rfl
    | false =>
      have h' : rs.any isNoneResult = true := by simpa [hr] using h
      have hb : resultsBeforeNone (r :: rs) = r :: resultsBeforeNone rs := by
        simp [resultsBeforeNone, hr]
      rw [hb]
      cases ht : r.type with
      | none =>
        rw [createResults_untyped env r rs st ht, createResults_untyped env r _ st ht]
        exact ih st h'
      | some t =>
        have hnn : isNoneNamed t = false := by rw [← isNoneResult_of_some ht]; exact hr
        rw [createResults_typed env r rs st ht hnn, createResults_typed env r _ st ht hnn]
        cases typeStr env t st with
        | error e => rfl
        | ok x =>
          obtain ⟨ts, st₁⟩ := x
          simp only
          rw [ih st₁ h']
          cases createResults env (resultsBeforeNone rs) st₁ with
          | error e => rfl
          | ok y => obtain ⟨rest, st₂⟩ := y; rfl

theorem createResultString_eq (env : Env) (rs : List Result) (st : St) :
    createResultString env rs st =
      match createResults env rs st with
      | .error e => .error e
      | .ok (none, st') => .ok ("", st')
      | .ok (some texts, st') =>
        .ok (resultListText texts, addIf texts.isEmpty "result without type" st') := by
  simp only [createResultString, bind, StateT.bind, Except.bind, pure]
  cases createResults env rs st with
  | error e => rfl
  | ok x =>
    obtain ⟨o, st'⟩ := x
    cases o with
    | none => rfl
    | some texts =>
      match texts with
      | [] => rfl
      | [_] => rfl
      | _ :: _ :: _ => rfl

theorem resultsRendered_length_le {σ ε : Type} {render : AType → σ → Except ε (String × σ)}
    {name : Result → String} {rs : List Result} {s s' : σ} {texts : List String}
    (h : ResultsRendered render name rs s texts s') : texts.length ≤ rs.length := by
  induction h with
  | nil => simp
  | untyped _ _ ih => simp only [List.length_cons]; omega
  | empty _ _ _ ih => simp only [List.length_cons]; omega
  | shown _ _ _ _ ih => simp only [List.length_cons]; omega

theorem resultsRendered_length_eq {σ ε : Type} {render : AType → σ → Except ε (String × σ)}
    {name : Result → String} {rs : List Result} {s s' : σ} {texts : List String}
    (h : ResultsRendered render name rs s texts s')
    (hall : ∀ r ∈ rs, ∃ t, r.type = some t ∧ ∀ s tx s', render t s = .ok (tx, s') → tx ≠ "") :
    texts.length = rs.length := by
  induction h with
  | nil => simp
  | untyped h1 _ _ =>
    obtain ⟨t, ht, _⟩ := hall _ List.mem_cons_self
    rw [h1] at ht; cases ht
  | empty h1 h2 _ _ =>
    obtain ⟨t, ht, hne⟩ := hall _ List.mem_cons_self
    rw [h1] at ht; cases ht
    exact absurd rfl (hne _ _ _ h2)
  | shown _ _ _ _ ih =>
    simp only [List.length_cons]
    rw [ih (fun r hr => hall r (List.mem_cons_of_mem _ hr))]

/-- `ResultsRendered` is a partial function of the results and the start state -/
theorem resultsRendered_unique {σ ε : Type} {render : AType → σ → Except ε (String × σ)}
    {name : Result → String} {rs : List Result} {s s₁ s₂ : σ} {t₁ t₂ : List String}
    (h₁ : ResultsRendered render name rs s t₁ s₁) (h₂ : ResultsRendered render name rs s t₂ s₂) :
    t₁ = t₂ ∧ s₁ = s₂ := by
  induction h₁ generalizing t₂ s₂ with
  | nil => cases h₂; exact ⟨rfl, rfl⟩
  | untyped h1 _ ih =>
    cases h₂ with
    | untyped _ h => exact ih h
    | empty h2 => rw [h1] at h2; cases h2
    | shown h2 => rw [h1] at h2; cases h2
  | empty h1 h2 _ ih =>
    cases h₂ with
    | untyped h3 => rw [h1] at h3; cases h3
    | empty h3 h4 h5 =>
      rw [h1] at h3; cases h3
      rw [h2] at h4; cases h4
      exact ih h5
    | shown h3 h4 h5 h6 =>
      rw [h1] at h3; cases h3
      rw [h2] at h4; cases h4
      exact absurd rfl h5
  | shown h1 h2 h3 _ ih =>
    cases h₂ with
    | untyped h4 => rw [h1] at h4; cases h4
    | empty h4 h5 =>
      rw [h1] at h4; cases h4
      rw [h2] at h5; cases h5
      exact absurd rfl h3
    | shown h4 h5 _ h7 =>
      rw [h1] at h4; cases h4
      rw [h2] at h5; cases h5
      obtain ⟨rfl, rfl⟩ := ih h7
      exact ⟨rfl, rfl⟩

theorem builtinName_ne_empty {n b : String} (h : builtinName n = some b) : b ≠ "" := by
  simp only [builtinName, Generated.builtinTypeNames, assocGet?] at h
  repeat' split at h
  all_goals first | (cases h; decide) | cases h

/-- a class or builtin name never renders as the empty string -/
theorem typeStr_named_ne_empty (env : Env) (n q : String) (s s' : St) (tx : String)
    (h : typeStr env (.named n q) s = .ok (tx, s')) : tx ≠ "" := by
  rw [typeStr] at h
  cases hb : builtinName n with
  | some b =>
    rw [hb] at h
    cases h
    exact builtinName_ne_empty hb
  | none =>
    rw [hb] at h
    simp only [bind, StateT.bind, Except.bind] at h
    cases ha : addToImports env q s with
    | error e => rw [ha] at h; cases h
    | ok v =>
      rw [ha] at h
      simp only at h
      cases hn : n.toList with
      | nil => rw [hn] at h; cases h
      | cons c cs =>
        rw [hn] at h
        have hne : n ≠ "" := by
          intro e; subst e; cases hn
        simp only [get, getThe, MonadStateOf.get, StateT.get, pure, Except.pure, StateT.bind, bind,
          Except.bind] at h
        split at h
        · change Except.ok (n, _) = _ at h
          cases h; exact hne
        · change Except.ok (n, _) = _ at h
          cases h; exact hne

end StubGen
