/-
Helper lemmas for `StubGen.Theorems.C06` / `C07`: the state-monad computations `createParameter`,
`createParameters`, `createParameterString`, `createResults`, `createResultString` of the generator
model written out as explicit equations on `Except PyErr (α × St)`, and the list inductions on them.
(Helper lemmas added after the model followed the "None result among several" repair carry the prefix `pp_`.)
-/
import StubGen.Model.Gen
import StubGen.Spec.Params

namespace StubGen

open Spec

/-! ### the receiver -/

theorem wfReceiver_iff (ps : List Parameter) (b : Bool) : wfReceiver ps b = true ↔ WFReceiver ps b := by
  cases b with
  | false => simp [wfReceiver, WFReceiver]
  | true =>
    cases ps with
    | nil => simp [wfReceiver, WFReceiver]
    | cons p rest =>
      simp only [wfReceiver, WFReceiver, if_true, Bool.and_eq_true, beq_iff_eq, List.all_eq_true, bne_iff_ne]
      constructor
      · rintro ⟨h1, h2⟩
        exact ⟨p, rest, rfl, h1, h2⟩
      · rintro ⟨_, _, h, h1, h2⟩
        cases h
        exact ⟨h1, h2⟩

instance (ps : List Parameter) (b : Bool) : Decidable (WFReceiver ps b) :=
  decidable_of_iff _ (wfReceiver_iff ps b)

theorem receiverRemoved_eq_self {ps : List Parameter} (h : ∀ q ∈ ps, q.assignedBy ≠ .implicit) :
    receiverRemoved ps = ps := by
  unfold receiverRemoved
  rw [List.filter_eq_self]
  intro q hq
  simpa using h q hq

theorem receiverRemoved_of_wf {ps : List Parameter} {b : Bool} (h : WFReceiver ps b) :
    (if b then ps.drop 1 else ps) = receiverRemoved ps := by
  cases b with
  | false =>
    simp only [WFReceiver, Bool.false_eq_true, if_false] at h ⊢
    exact (receiverRemoved_eq_self h).symm
  | true =>
    simp only [WFReceiver, if_true] at h ⊢
    obtain ⟨p, rest, rfl, hp, hrest⟩ := h
    have : receiverRemoved (p :: rest) = receiverRemoved rest := by
      simp [receiverRemoved, hp]
    rw [this, receiverRemoved_eq_self hrest]
    rfl

/-! ### markers -/

theorem addTodo_run (k : String) (st : St) :
    addTodo k st = .ok ((), { st with todos := insertSet k st.todos }) := rfl

/-- add marker `k` if `c` -/
def addIf (c : Bool) (k : String) (st : St) : St :=
  if c then { st with todos := insertSet k st.todos } else st

/-- the state after the default value of `p` has been rendered -/
def afterDefault (p : Parameter) (st : St) : St :=
  addIf (p.isOptional && p.default == .unknown) "unknown value" st

/-- the markers `createParameter` adds after the type has been rendered -/
def paramTail (p : Parameter) (st : St) : St :=
  addIf (isVariadic p) "variadic"
    (addIf (p.assignedBy == .nameOnly && !p.isOptional) "REQ_NAME_ONLY"
      (addIf (p.assignedBy == .positionOnly && p.isOptional) "OPT_POS_ONLY" st))

/-! ### one parameter -/

theorem defaultString_run (a : Assign) (d : DefaultVal) (st : St) :
    defaultString a d st = .ok (defaultText a d, addIf (d == .unknown) "unknown value" st) := by
  cases d with
  | none => rfl
  | unknown => rfl
  | int i => rfl
  | float r => rfl
  | bool b => cases b <;> rfl
  | str s =>
    simp only [defaultString, defaultText, beq_iff_eq, Bool.and_eq_true]
    split
    · rfl
    · split <;> rfl

/-- `*args: tuple[T]` is rendered as a list -/
def shownOf (a : Assign) (t : AType) : AType :=
  match a, t with
  | .positionalVararg, .tuple ts => AType.list ts
  | _, t => t

/-- first half of `createParameter`: type text and default value -/
def paramFirst (env : Env) (p : Parameter) : G (String × String) :=
  match p.type with
  | some t => do
    let value ← if p.isOptional then (do let d ← defaultString p.assignedBy p.default; pure (" = " ++ d)) else pure ""
    let ts ← typeStr env (shownOf p.assignedBy t)
    pure (if ts != "" then ": " ++ ts else "", value)
  | none => do
    addTodo "param without type"
    pure (match p.assignedBy with
      | .positionalVararg => ": List<Any>"
      | .namedVararg => ": Map<String, Any>"
      | _ => "", "")

/-- second half: the markers that depend on the kind, and the name -/
def paramFinish (env : Env) (p : Parameter) (tv : String × String) : G ParamOut := do
  if p.assignedBy == .positionOnly && p.isOptional then addTodo "OPT_POS_ONLY"
  else if p.assignedBy == .nameOnly && !p.isOptional then addTodo "REQ_NAME_ONLY"
  if p.assignedBy == .positionalVararg || p.assignedBy == .namedVararg then addTodo "variadic"
  let camel := convertName p.name env.safe
  let ann := if camel != p.name then nameAnnotation p.name ++ " " else ""
  pure { annotation := ann, name := escapeKeyword camel, typeString := tv.1, value := tv.2 }

theorem createParameter_eq (env : Env) (p : Parameter) :
    createParameter env p = paramFirst env p >>= paramFinish env p := rfl

theorem paramFinish_run (env : Env) (p : Parameter) (tv : String × String) (st : St) :
    paramFinish env p tv st = .ok
      ({ annotation := paramAnnotation env.safe p, name := paramName env.safe p,
         typeString := tv.1, value := tv.2 }, paramTail p st) := by
  have hann : (if convertName p.name env.safe != p.name then nameAnnotation p.name ++ " " else "")
      = paramAnnotation env.safe p := by
    simp [paramAnnotation]
  unfold paramFinish
  simp only [hann]
  unfold paramTail isVariadic paramName
  cases p.assignedBy <;> cases p.isOptional <;> rfl

/-- the type the generator renders for a typed parameter is the one the specification shows -/
theorem shownParamType_of_some {p : Parameter} {t : AType} (h : p.type = some t) :
    shownParamType p = some (shownOf p.assignedBy t) := by
  unfold shownParamType
  rw [h]
  cases p.assignedBy <;> cases t <;> rfl

theorem shownParamType_none {p : Parameter} (h : p.type = none) : shownParamType p = none := by
  unfold shownParamType
  rw [h]
  cases p.assignedBy <;> rfl

theorem paramFirst_none (env : Env) (p : Parameter) (st : St) (h : p.type = none) :
    paramFirst env p st = .ok ((untypedParamType p, ""),
      { st with todos := insertSet "param without type" st.todos }) := by
  unfold paramFirst
  rw [h]
  unfold untypedParamType
  cases p.assignedBy <;> rfl

theorem paramFirst_some (env : Env) (p : Parameter) (st : St) {t t' : AType} (h : p.type = some t)
    (hs : shownParamType p = some t') :
    paramFirst env p st =
      match typeStr env t' (afterDefault p st) with
      | .error e => .error e
      | .ok (ts, st₂) => .ok ((typeAnnotation ts, paramValue p), st₂) := by
  rw [shownParamType_of_some h] at hs
  cases hs
  have hta : ∀ ts : String, (if ts != "" then ": " ++ ts else "") = typeAnnotation ts := by
    intro ts; simp [typeAnnotation]
  unfold paramFirst
  rw [h]
  cases hopt : p.isOptional with
  | false =>
    simp only [Bool.false_eq_true, if_false, bind, StateT.bind, Except.bind, pure, StateT.pure, Except.pure, hta,
      afterDefault, hopt, Bool.false_and, addIf, paramValue]
    cases typeStr env (shownOf p.assignedBy t) st with
    | error e => rfl
    | ok x => rfl
  | true =>
    simp only [if_true, bind, StateT.bind, Except.bind, pure, StateT.pure, Except.pure, hta,
      defaultString_run, afterDefault, hopt, Bool.true_and, paramValue]
    cases typeStr env (shownOf p.assignedBy t) (addIf (p.default == DefaultVal.unknown) "unknown value" st) with
    | error e => rfl
    | ok x => rfl

/-- `createParameter` on an untyped parameter: never fails, no default value -/
theorem createParameter_none (env : Env) (p : Parameter) (st : St) (h : p.type = none) :
    createParameter env p st = .ok
      ({ annotation := paramAnnotation env.safe p, name := paramName env.safe p,
         typeString := untypedParamType p, value := "" },
       paramTail p { st with todos := insertSet "param without type" st.todos }) := by
  rw [createParameter_eq]
  simp only [bind, StateT.bind, Except.bind, paramFirst_none env p st h, paramFinish_run]

/-- `createParameter` on a typed parameter: fails exactly when rendering the shown type fails -/
theorem createParameter_some (env : Env) (p : Parameter) (st : St) {t t' : AType} (h : p.type = some t)
    (hs : shownParamType p = some t') :
    createParameter env p st =
      match typeStr env t' (afterDefault p st) with
      | .error e => .error e
      | .ok (ts, st₂) => .ok
        ({ annotation := paramAnnotation env.safe p, name := paramName env.safe p,
           typeString := typeAnnotation ts, value := paramValue p }, paramTail p st₂) := by
  rw [createParameter_eq]
  simp only [bind, StateT.bind, Except.bind, paramFirst_some env p st h hs]
  cases typeStr env t' (afterDefault p st) with
  | error e => rfl
  | ok x => obtain ⟨ts, st₂⟩ := x; simp only [paramFinish_run]

theorem createParameter_name {env : Env} {p : Parameter} {st st' : St} {out : ParamOut}
    (h : createParameter env p st = .ok (out, st')) :
    out.annotation = paramAnnotation env.safe p ∧ out.name = paramName env.safe p := by
  cases ht : p.type with
  | none =>
    rw [createParameter_none env p st ht] at h
    cases h
    exact ⟨rfl, rfl⟩
  | some t =>
    rw [createParameter_some env p st ht (shownParamType_of_some ht)] at h
    split at h
    · cases h
    · cases h
      exact ⟨rfl, rfl⟩

/-! ### the parameter list -/

theorem createParameters_cons (env : Env) (p : Parameter) (ps : List Parameter) (st : St) :
    createParameters env (p :: ps) st =
      match createParameter env p st with
      | .error e => .error e
      | .ok (a, st₁) =>
        match createParameters env ps st₁ with
        | .error e => .error e
        | .ok (as, st₂) => .ok (a :: as, st₂) := by
  simp only [createParameters, bind, StateT.bind, Except.bind, pure, StateT.pure, Except.pure]
  cases createParameter env p st with
  | error e => rfl
  | ok x =>
    obtain ⟨a, st₁⟩ := x
    simp only
    cases createParameters env ps st₁ <;> rfl

/-- a successful run produces one output per parameter, in order, each by a successful
    `createParameter` (in the state threaded so far) -/
theorem createParameters_ok {env : Env} {ps : List Parameter} {st st' : St} {outs : List ParamOut}
    (h : createParameters env ps st = .ok (outs, st')) :
    outs.length = ps.length ∧
    ∀ i (hp : i < ps.length) (ho : i < outs.length),
      ∃ s s', createParameter env ps[i] s = .ok (outs[i], s') := by
  induction ps generalizing st outs with
  | nil =>
    cases h
    exact ⟨rfl, fun i hp => absurd hp (Nat.not_lt_zero i)⟩
  | cons p ps ih =>
    rw [createParameters_cons] at h
    cases h1 : createParameter env p st with
    | error e => rw [h1] at h; cases h
    | ok x =>
      obtain ⟨a, st₁⟩ := x
      rw [h1] at h
      simp only at h
      cases h2 : createParameters env ps st₁ with
      | error e => rw [h2] at h; cases h
      | ok y =>
        obtain ⟨as, st₂⟩ := y
        rw [h2] at h
        cases h
        obtain ⟨hl, hi⟩ := ih h2
        refine ⟨by simp [hl], ?_⟩
        intro i hp ho
        cases i with
        | zero => exact ⟨st, st₁, h1⟩
        | succ i =>
          simp only [List.getElem_cons_succ]
          exact hi i (by simpa using hp) (by simpa using ho)

theorem createParameters_names {env : Env} {ps : List Parameter} {st st' : St} {outs : List ParamOut}
    (h : createParameters env ps st = .ok (outs, st')) :
    outs.map (fun o => (o.annotation, o.name))
      = ps.map (fun p => (paramAnnotation env.safe p, paramName env.safe p)) := by
  obtain ⟨hl, hi⟩ := createParameters_ok h
  apply List.ext_getElem (by simp [hl])
  intro i h1 h2
  simp only [List.getElem_map]
  obtain ⟨s, s', hc⟩ := hi i (by simpa using h2) (by simpa using h1)
  obtain ⟨ha, hn⟩ := createParameter_name hc
  rw [ha, hn]

theorem createParameterString_eq (env : Env) (ps : List Parameter) (indent : String) (b : Bool) (st : St) :
    createParameterString env ps indent b st =
      match createParameters env (if b then ps.drop 1 else ps) st with
      | .error e => .error e
      | .ok (outs, st') => .ok (paramListText indent indentation (outs.map ParamOut.render), st') := by
  simp only [createParameterString, bind, StateT.bind, Except.bind, pure]
  cases createParameters env (if b then ps.drop 1 else ps) st with
  | error e => rfl
  | ok x =>
    obtain ⟨outs, st'⟩ := x
    cases outs with
    | nil => rfl
    | cons o os => simp [paramListText, String.append_assoc, StateT.pure, pure, Except.pure]

/-! ### results -/

theorem isNoneResult_iff (r : Result) : isNoneResult r = true ↔ ∃ t, r.type = some t ∧ isNoneNamed t = true := by
  unfold isNoneResult
  cases r.type with
  | none => simp
  | some t => cases t <;> simp [isNoneNamed]

theorem isNoneResult_of_none {r : Result} (h : r.type = none) : isNoneResult r = false := by
  simp [isNoneResult, h]

theorem isNoneResult_of_some {r : Result} {t : AType} (h : r.type = some t) : isNoneResult r = isNoneNamed t := by
  unfold isNoneResult
  rw [h]
  cases t <;> rfl

theorem createResults_untyped (env : Env) (r : Result) (rs : List Result) (st : St) (h : r.type = none) :
    createResults env (r :: rs) st = createResults env rs st := by
  simp only [createResults, h]

theorem createResults_typed (env : Env) (r : Result) (rs : List Result) (st : St) {t : AType}
    (h : r.type = some t) :
    createResults env (r :: rs) st =
      match typeStr env t st with
      | .error e => .error e
      | .ok (ts, st₁) =>
        match createResults env rs st₁ with
        | .error e => .error e
        | .ok (rest, st₂) =>
          .ok (if ts ≠ "" then (Spec.resultName env.safe r ++ ": " ++ ts) :: rest else rest, st₂) := by
  simp only [createResults, h, bind, StateT.bind, Except.bind, pure, StateT.pure, Except.pure]
  cases typeStr env t st with
  | error e => rfl
  | ok x =>
    obtain ⟨ts, st₁⟩ := x
    simp only
    cases createResults env rs st₁ with
    | error e => rfl
    | ok y =>
      obtain ⟨rest, st₂⟩ := y
      simp [Spec.resultName]

/-- success of `createResults` is `ResultsRendered` — for every result list (a `None` result is a
    result like any other) -/
theorem pp_createResults_iff (env : Env) (rs : List Result) (st st' : St) (texts : List String) :
    createResults env rs st = .ok (texts, st') ↔
      ResultsRendered (typeStr env) (Spec.resultName env.safe) rs st texts st' := by
  induction rs generalizing st texts with
  | nil =>
    constructor
    · intro h
      cases h
      exact .nil _
    · intro hr
      cases hr
      rfl
  | cons r rs ih =>
    cases ht : r.type with
    | none =>
      rw [createResults_untyped env r rs st ht, ih st texts]
      constructor
      · intro hr
        exact .untyped ht hr
      · intro hr
        cases hr with
        | untyped _ hr => exact hr
        | empty h1 => rw [ht] at h1; cases h1
        | shown h1 => rw [ht] at h1; cases h1
    | some t =>
      rw [createResults_typed env r rs st ht]
      constructor
      · intro h
        cases h1 : typeStr env t st with
        | error e => rw [h1] at h; cases h
        | ok x =>
          obtain ⟨ts, st₁⟩ := x
          rw [h1] at h
          simp only at h
          cases h2 : createResults env rs st₁ with
          | error e => rw [h2] at h; cases h
          | ok y =>
            obtain ⟨rest, st₂⟩ := y
            rw [h2] at h
            by_cases hts : ts = ""
            · subst hts
              simp only [ne_eq, not_true_eq_false, if_false] at h
              cases h
              exact .empty ht h1 ((ih _ _).1 h2)
            · simp only [ne_eq, hts, not_false_eq_true, if_true] at h
              cases h
              exact .shown ht h1 hts ((ih _ _).1 h2)
      · intro hr
        cases hr with
        | untyped h1 => rw [ht] at h1; cases h1
        | empty h1 h2 h3 =>
          rw [ht] at h1; cases h1
          rw [h2]
          simp only
          rw [(ih _ _).2 h3]
          simp
        | shown h1 h2 h3 h4 =>
          rw [ht] at h1; cases h1
          rw [h2]
          simp only
          rw [(ih _ _).2 h4]
          simp [h3]

theorem pp_onlyNoneResult_iff (rs : List Result) :
    onlyNoneResult rs = true ↔ ∃ r t, rs = [r] ∧ r.type = some t ∧ isNoneNamed t = true := by
  match rs with
  | [] => simp [onlyNoneResult]
  | [r] =>
    simp only [onlyNoneResult, isNoneResult_iff]
    constructor
    · rintro ⟨t, h1, h2⟩
      exact ⟨r, t, rfl, h1, h2⟩
    · rintro ⟨r', t, h, h1, h2⟩
      cases h
      exact ⟨t, h1, h2⟩
  | _ :: _ :: _ => simp [onlyNoneResult]

/-- several results, or none at all, are never "only a `None` result" -/
theorem pp_onlyNoneResult_of_length {rs : List Result} (h : rs.length ≠ 1) : onlyNoneResult rs = false := by
  match rs, h with
  | [], _ => rfl
  | [_], h => exact absurd rfl h
  | _ :: _ :: _, _ => rfl

theorem createResultString_eq (env : Env) (rs : List Result) (st : St) :
    createResultString env rs st =
      if onlyNoneResult rs = true then .ok ("", st)
      else
        match createResults env rs st with
        | .error e => .error e
        | .ok (texts, st') =>
          .ok (resultListText texts, addIf texts.isEmpty "result without type" st') := by
  have tail : ∀ rs' : List Result, onlyNoneResult rs' = false →
      (do
        let l ← createResults env rs'
        match l with
          | [] => do addTodo "result without type"; pure ""
          | [r] => pure (" -> " ++ r)
          | xs => pure (" -> (" ++ joinWith ", " xs ++ ")") : G String) st =
      if onlyNoneResult rs' = true then .ok ("", st)
      else
        match createResults env rs' st with
        | .error e => .error e
        | .ok (texts, st') =>
          .ok (resultListText texts, addIf texts.isEmpty "result without type" st') := by
    intro rs' h
    simp only [h, Bool.false_eq_true, if_false, bind, StateT.bind, Except.bind]
    cases createResults env rs' st with
    | error e => rfl
    | ok x =>
      obtain ⟨texts, st'⟩ := x
      match texts with
      | [] => rfl
      | [_] => rfl
      | _ :: _ :: _ => rfl
  match rs with
  | [] => exact tail [] rfl
  | _ :: _ :: _ => exact tail _ rfl
  | [r] =>
    cases ht : r.type with
    | none =>
      have hb : onlyNoneResult [r] = false := by simp [onlyNoneResult, isNoneResult, ht]
      refine Eq.trans ?_ (tail [r] hb)
      simp only [createResultString, ht, Bool.false_eq_true, if_false]
      rfl
    | some t =>
      have hb : onlyNoneResult [r] = isNoneNamed t := isNoneResult_of_some ht
      cases hn : isNoneNamed t with
      | true =>
        rw [hn] at hb
        simp only [createResultString, ht, hn, hb, if_true]
        rfl
      | false =>
        rw [hn] at hb
        refine Eq.trans ?_ (tail [r] hb)
        simp only [createResultString, ht, hn, Bool.false_eq_true, if_false]
        rfl

/-! ### `ResultsRendered` on a concatenation -/

theorem pp_resultsRendered_append {σ ε : Type} {render : AType → σ → Except ε (String × σ)}
    {name : Result → String} {rs₁ rs₂ : List Result} {s s₁ s₂ : σ} {t₁ t₂ : List String}
    (h₁ : ResultsRendered render name rs₁ s t₁ s₁) (h₂ : ResultsRendered render name rs₂ s₁ t₂ s₂) :
    ResultsRendered render name (rs₁ ++ rs₂) s (t₁ ++ t₂) s₂ := by
  induction h₁ with
  | nil => exact h₂
  | untyped h1 _ ih => exact .untyped h1 (ih h₂)
  | empty h1 h2 _ ih => exact .empty h1 h2 (ih h₂)
  | shown h1 h2 h3 _ ih => exact .shown h1 h2 h3 (ih h₂)

/-- rendering `rs₁ ++ rs₂` is rendering `rs₁`, then `rs₂` in the state reached; the texts are concatenated -/
theorem pp_resultsRendered_append_iff {σ ε : Type} {render : AType → σ → Except ε (String × σ)}
    {name : Result → String} {rs₁ rs₂ : List Result} {s s₂ : σ} {texts : List String} :
    ResultsRendered render name (rs₁ ++ rs₂) s texts s₂ ↔
      ∃ t₁ s₁ t₂, ResultsRendered render name rs₁ s t₁ s₁ ∧ ResultsRendered render name rs₂ s₁ t₂ s₂ ∧
        texts = t₁ ++ t₂ := by
  constructor
  · intro h
    induction rs₁ generalizing s texts with
    | nil => exact ⟨[], s, texts, .nil s, h, rfl⟩
    | cons r rs₁ ih =>
      cases h with
      | untyped h1 h2 =>
        obtain ⟨t₁, s₁, t₂, ha, hb, rfl⟩ := ih h2
        exact ⟨t₁, s₁, t₂, .untyped h1 ha, hb, rfl⟩
      | empty h1 h2 h3 =>
        obtain ⟨t₁, s₁, t₂, ha, hb, rfl⟩ := ih h3
        exact ⟨t₁, s₁, t₂, .empty h1 h2 ha, hb, rfl⟩
      | shown h1 h2 h3 h4 =>
        obtain ⟨t₁, s₁, t₂, ha, hb, rfl⟩ := ih h4
        exact ⟨_ :: t₁, s₁, t₂, .shown h1 h2 h3 ha, hb, rfl⟩
  · rintro ⟨t₁, s₁, t₂, ha, hb, rfl⟩
    exact pp_resultsRendered_append ha hb

/-- one result whose type renders as a non-empty text -/
theorem pp_resultsRendered_cons_shown_iff {σ ε : Type} {render : AType → σ → Except ε (String × σ)}
    {name : Result → String} {r : Result} {rs : List Result} {t : AType} {s s' : σ} {texts : List String}
    (ht : r.type = some t) (hne : ∀ s tx s₁, render t s = .ok (tx, s₁) → tx ≠ "") :
    ResultsRendered render name (r :: rs) s texts s' ↔
      ∃ tx s₁ rest, render t s = .ok (tx, s₁) ∧ ResultsRendered render name rs s₁ rest s' ∧
        texts = (name r ++ ": " ++ tx) :: rest := by
  constructor
  · intro h
    cases h with
    | untyped h1 => rw [ht] at h1; cases h1
    | empty h1 h2 =>
      rw [ht] at h1; cases h1
      exact absurd rfl (hne _ _ _ h2)
    | shown h1 h2 _ h4 =>
      rw [ht] at h1; cases h1
      exact ⟨_, _, _, h2, h4, rfl⟩
  · rintro ⟨tx, s₁, rest, h1, h2, rfl⟩
    exact .shown ht h1 (hne _ _ _ h1) h2

theorem resultsRendered_length_le {σ ε : Type} {render : AType → σ → Except ε (String × σ)}
    {name : Result → String} {rs : List Result} {s s' : σ} {texts : List String}
    (h : ResultsRendered render name rs s texts s') : texts.length ≤ rs.length := by
  induction h with
  | nil => simp
  | untyped _ _ ih => simp only [List.length_cons]; omega
  | empty _ _ _ ih => simp only [List.length_cons]; omega
  | shown _ _ _ _ ih => simp only [List.length_cons]; omega

theorem resultsRendered_length_eq {σ ε : Type} {render : AType → σ → Except ε (String × σ)}
    {name : Result → String} {rs : List Result} {s s' : σ} {texts : List String}
    (h : ResultsRendered render name rs s texts s')
    (hall : ∀ r ∈ rs, ∃ t, r.type = some t ∧ ∀ s tx s', render t s = .ok (tx, s') → tx ≠ "") :
    texts.length = rs.length := by
  induction h with
  | nil => simp
  | untyped h1 _ _ =>
    obtain ⟨t, ht, _⟩ := hall _ List.mem_cons_self
    rw [h1] at ht; cases ht
  | empty h1 h2 _ _ =>
    obtain ⟨t, ht, hne⟩ := hall _ List.mem_cons_self
    rw [h1] at ht; cases ht
    exact absurd rfl (hne _ _ _ h2)
  | shown _ _ _ _ ih =>
    simp only [List.length_cons]
    rw [ih (fun r hr => hall r (List.mem_cons_of_mem _ hr))]

/-- `ResultsRendered` is a partial function of the results and the start state -/
theorem resultsRendered_unique {σ ε : Type} {render : AType → σ → Except ε (String × σ)}
    {name : Result → String} {rs : List Result} {s s₁ s₂ : σ} {t₁ t₂ : List String}
    (h₁ : ResultsRendered render name rs s t₁ s₁) (h₂ : ResultsRendered render name rs s t₂ s₂) :
    t₁ = t₂ ∧ s₁ = s₂ := by
  induction h₁ generalizing t₂ s₂ with
  | nil => cases h₂; exact ⟨rfl, rfl⟩
  | untyped h1 _ ih =>
    cases h₂ with
    | untyped _ h => exact ih h
    | empty h2 => rw [h1] at h2; cases h2
    | shown h2 => rw [h1] at h2; cases h2
  | empty h1 h2 _ ih =>
    cases h₂ with
    | untyped h3 => rw [h1] at h3; cases h3
    | empty h3 h4 h5 =>
      rw [h1] at h3; cases h3
      rw [h2] at h4; cases h4
      exact ih h5
    | shown h3 h4 h5 h6 =>
      rw [h1] at h3; cases h3
      rw [h2] at h4; cases h4
      exact absurd rfl h5
  | shown h1 h2 h3 _ ih =>
    cases h₂ with
    | untyped h4 => rw [h1] at h4; cases h4
    | empty h4 h5 =>
      rw [h1] at h4; cases h4
      rw [h2] at h5; cases h5
      exact absurd rfl h3
    | shown h4 h5 _ h7 =>
      rw [h1] at h4; cases h4
      rw [h2] at h5; cases h5
      obtain ⟨rfl, rfl⟩ := ih h7
      exact ⟨rfl, rfl⟩

theorem builtinName_ne_empty {n b : String} (h : builtinName n = some b) : b ≠ "" := by
  simp only [builtinName, Generated.builtinTypeNames, assocGet?] at h
  repeat' split at h
  all_goals first | (cases h; decide) | cases h

theorem pp_escapeKeyword_eq_empty (k : String) : escapeKeyword k = "" ↔ k = "" := by
  unfold escapeKeyword
  split
  · rename_i h
    constructor
    · intro h'; simp [Generated.keywordWrap] at h'
    · intro h'; subst h'; revert h; decide
  · rfl

/-- a class or builtin name never renders as the empty string -/
theorem typeStr_named_ne_empty (env : Env) (n q : String) (s s' : St) (tx : String)
    (h : typeStr env (.named n q) s = .ok (tx, s')) : tx ≠ "" := by
  rw [typeStr] at h
  cases hb : builtinName n with
  | some b =>
    rw [hb] at h
    cases h
    exact builtinName_ne_empty hb
  | none =>
    rw [hb] at h
    simp only [bind, StateT.bind, Except.bind] at h
    cases ha : addToImports env q s with
    | error e => rw [ha] at h; cases h
    | ok v =>
      rw [ha] at h
      simp only at h
      cases hn : n.toList with
      | nil => rw [hn] at h; cases h
      | cons c cs =>
        rw [hn] at h
        have hne : n ≠ "" := by
          intro e; subst e; cases hn
        simp only [get, getThe, MonadStateOf.get, StateT.get, pure, Except.pure, StateT.bind, bind,
          Except.bind] at h
        have hne' : escapeKeyword n ≠ "" := fun e => hne ((pp_escapeKeyword_eq_empty n).1 e)
        split at h
        · change Except.ok (escapeKeyword n, _) = _ at h
          cases h; exact hne'
        · change Except.ok (escapeKeyword n, _) = _ at h
          cases h; exact hne'

/-! ### a `None` result that is rendered -/

/-- the qualified name `builtins.None` is a builtin: nothing is imported -/
theorem pp_addToImports_builtinsNone (env : Env) (s : St) :
    addToImports env "builtins.None" s = .ok ((), s) := rfl

/-- what the type of a `None` result (`isNoneNamed`: qualified name `builtins.None`, any name) renders
    as: the table entry of the name if it has one (`None` ↦ `Nothing?`), otherwise the name itself;
    nothing is imported -/
theorem pp_typeStr_noneNamed (env : Env) (n : String) (s : St) :
    typeStr env (.named n "builtins.None") s =
      match builtinName n with
      | some b => .ok (b, s)
      | none =>
        match n.toList with
        | [] => .error .indexError
        | c :: _ => .ok (escapeKeyword n,
            addIf (c == '_' && !s.imports.contains "builtins.None") "internal class as type" s) := by
  rw [typeStr]
  cases hb : builtinName n with
  | some b => rfl
  | none =>
    simp only [bind, StateT.bind, Except.bind, pp_addToImports_builtinsNone]
    cases hn : n.toList with
    | nil => rfl
    | cons c cs =>
      simp only [get, getThe, MonadStateOf.get, StateT.get, pure, Except.pure, StateT.bind, bind, Except.bind]
      cases (c == '_' && !s.imports.contains "builtins.None") with
      | true => simp only [addIf, if_true]; rfl
      | false => simp only [addIf, Bool.false_eq_true, if_false]; rfl

/-- `None` itself renders as `Nothing?`, in every state, leaving it unchanged -/
theorem pp_typeStr_None (env : Env) (s : St) :
    typeStr env (.named "None" "builtins.None") s = .ok ("Nothing?", s) := by
  rw [typeStr]
  rfl

theorem pp_append_nothing (x : String) : x ++ ": " ++ "Nothing?" = x ++ ": Nothing?" := by
  rw [String.append_assoc]
  congr 1

theorem pp_isNoneNamed_iff (t : AType) : isNoneNamed t = true ↔ ∃ n, t = .named n "builtins.None" := by
  cases t <;> simp [isNoneNamed]

theorem pp_resultListText_ne_empty {texts : List String} (h : texts ≠ []) : resultListText texts ≠ "" := by
  intro e
  have hl := congrArg String.length e
  match texts, h with
  | [_], _ => simp [resultListText, String.length_append] at hl
  | _ :: _ :: _, _ => simp [resultListText, String.length_append] at hl

end StubGen
