/-
Helper lemmas for `StubGen.Theorems.C18` (locality of the generator).

* `r18_Sim K R x x'`: a two-run simulation for the generator monad: every successful run of `x` from
  a state `st` is matched by a successful run of `x'` with the SAME result from every `R`-related
  state `st'`, ending in `R`-related states.
* `r18_Prims K R api api' safe`: what the simulation needs of the state-reading primitives
  (`addToImports`, the `_`-name check of `typeStr`, `hasNodeShorterReexport`, `createTodoMsg`, the
  class lookups) for the two environments `⟨api, safe⟩`, `⟨api', safe⟩`.
* the generic walk: under `r18_Prims`, every generator function up to `createFunctions` /
  `createClasses` simulates its twin over the other environment, with fuel `n ≤ n'`.
* instance 1, `R = Eq`: dependence on the API only through the lookups (`callGenerator_congr`),
  fuel monotonicity.
* instance 2, `R = r18_Rel fr b b'` (same environment, two states agreeing on everything the
  generator reads except the contents of `imports`/`outside`): the text of a declaration block does
  not depend on the state, and the import set grows by a fixed set; permutation of declarations.
* `r18_createClassString_restores_generics`: a class block ends with the `classGenerics` it started
  with (the generics of a class are scoped to the class).
-/
import StubGen.Model.Files
import StubGen.Proofs.Markers
import StubGen.Proofs.Files
import StubGen.Proofs.Order
import StubGen.Proofs.Totality

namespace StubGen

open List

/-! ### the two-run simulation -/

/-- `K` is a guard on the FINAL state of the first run (downward closed along runs: `back`); every
    successful run of `x` from `st` ending in a `K`-state is matched by a run of `x'` with the same
    result from every `R`-related state, ending in `R`-related states. -/
structure r18_Sim {α : Type} (K : St → Prop) (R : St → St → Prop) (x x' : G α) : Prop where
  back : ∀ (st : St) (a : α) (s1 : St), x st = .ok (a, s1) → K s1 → K st
  sim : ∀ (st st' : St) (a : α) (s1 : St), R st st' → x st = .ok (a, s1) → K s1 →
    ∃ s1', x' st' = .ok (a, s1') ∧ R s1 s1'

namespace r18_Sim
variable {α β : Type} {K : St → Prop} {R : St → St → Prop}

theorem pure (a : α) : r18_Sim K R (Pure.pure a : G α) (Pure.pure a : G α) := by
  refine ⟨fun st b s1 h hK => ?_, fun st st' b s1 hR h _ => ?_⟩
  · obtain ⟨rfl, rfl⟩ := G_pure_ok h
    exact hK
  · obtain ⟨rfl, rfl⟩ := G_pure_ok h
    exact ⟨st', rfl, hR⟩

theorem throw (e : PyErr) (y : G α) : r18_Sim K R (throwG e : G α) y := by
  refine ⟨fun st b s1 h _ => ?_, fun st st' b s1 _ h _ => ?_⟩
  · exact absurd h (by simp [throwG])
  · exact absurd h (by simp [throwG])

theorem bind {x x' : G α} {f f' : α → G β} (hx : r18_Sim K R x x') (hf : ∀ a, r18_Sim K R (f a) (f' a)) :
    r18_Sim K R (x >>= f) (x' >>= f') := by
  refine ⟨fun st b s2 h hK => ?_, fun st st' b s2 hR h hK => ?_⟩
  · obtain ⟨a, s1, h1, h2⟩ := G_bind_ok h
    exact hx.back st a s1 h1 ((hf a).back s1 b s2 h2 hK)
  · obtain ⟨a, s1, h1, h2⟩ := G_bind_ok h
    obtain ⟨s1', h1', hR1⟩ := hx.sim st st' a s1 hR h1 ((hf a).back s1 b s2 h2 hK)
    obtain ⟨s2', h2', hR2⟩ := (hf a).sim s1 s1' b s2 hR1 h2 hK
    refine ⟨s2', ?_, hR2⟩
    rw [bind_apply, h1']
    exact h2'

theorem get_bind {f f' : St → G β} (hKR : (∀ s, R s s) ∨ (∀ s, K s))
    (hf : ∀ s s', R s s' → r18_Sim K R (f s) (f' s')) :
    r18_Sim K R (get >>= f) (get >>= f') := by
  refine ⟨fun st b s2 h hK => ?_, fun st st' b s2 hR h hK => ?_⟩
  · obtain ⟨a, s1, h1, h2⟩ := G_bind_ok h
    obtain ⟨rfl, rfl⟩ := G_get_ok h1
    rcases hKR with hr | hk
    · exact (hf s1 s1 (hr s1)).back s1 b s2 h2 hK
    · exact hk _
  · obtain ⟨a, s1, h1, h2⟩ := G_bind_ok h
    obtain ⟨rfl, rfl⟩ := G_get_ok h1
    obtain ⟨s2', h2', hR2⟩ := (hf s1 st' hR).sim s1 st' b s2 hR h2 hK
    refine ⟨s2', ?_, hR2⟩
    rw [bind_apply, p08_get_run]
    exact h2'

theorem ite {c : Prop} [Decidable c] {x x' y y' : G α} (hx : r18_Sim K R x x') (hy : r18_Sim K R y y') :
    r18_Sim K R (if c then x else y) (if c then x' else y') := by
  split <;> assumption

theorem of_fun {g : St → St} (hb : ∀ s, K (g s) → K s) (hg : ∀ s s', R s s' → R (g s) (g s')) :
    r18_Sim K R (modify g : G PUnit) (modify g : G PUnit) := by
  refine ⟨fun st b s1 h hK => ?_, fun st st' b s1 hR h _ => ?_⟩
  · have := G_modify_ok h
    subst this
    exact hb _ hK
  · have := G_modify_ok h
    subst this
    exact ⟨g st', rfl, hg _ _ hR⟩

/-- without a guard, `set` of related states is a simulation -/
theorem set {t t' : St} (h : R t t') :
    r18_Sim (fun _ => True) R (MonadStateOf.set t : G PUnit) (MonadStateOf.set t' : G PUnit) := by
  refine ⟨fun _ _ _ _ _ => trivial, fun st st' b s1 _ hx _ => ?_⟩
  have : s1 = t := by
    simp only [MonadStateOf.set, StateT.set, Pure.pure, Except.pure, Except.ok.injEq, Prod.mk.injEq] at hx
    exact hx.2.symm
  subst this
  exact ⟨t', rfl, h⟩

/-- a guard-free simulation of a computation that is downward closed for `K` -/
theorem of_true {x x' : G α} (h : r18_Sim (fun _ => True) R x x')
    (hb : ∀ (st : St) (a : α) (s1 : St), x st = .ok (a, s1) → K s1 → K st) : r18_Sim K R x x' :=
  ⟨hb, fun st st' a s1 hR hx _ => h.sim st st' a s1 hR hx trivial⟩

/-- with `R = Eq`, a computation simulates itself -/
theorem same {x : G α} (hb : ∀ (st : St) (a : α) (s1 : St), x st = .ok (a, s1) → K s1 → K st) :
    r18_Sim K Eq x x :=
  ⟨hb, fun st st' a s1 hR hx _ => by subst hR; exact ⟨s1, hx, rfl⟩⟩

end r18_Sim


/-! ### `addToImports` as a state transformer -/

/-- the class table lookup of `_add_to_imports`: the id of the first class "path-connected" to the
    `/`-separated import path -/
def r18_importLookup (api : API) (path : String) : Option String :=
  (api.classes.find? fun c => isPathConnectedToClass api.reexportMap path c.id).map (·.id)

/-- `(qname, in_package)` of `_add_to_imports` -/
def r18_resolve (api : API) (q : String) : String × Bool :=
  match r18_importLookup api (replaceChar q '.' "/") with
  | some id =>
    let q' := replaceChar id '/' "."
    let name := lastD "" (splitDot q')
    ((if (shortestPublicReexport api.reexportMap name q' false).1 != "" then
        (shortestPublicReexport api.reexportMap name q' false).1 ++ "." ++ name else q'), true)
  | none => ("", false)

/-- the qualified names that are never imported: builtins, `typing.Any`, names without a module path,
    names containing the dotted id of the current module -/
def r18_skip (s : St) (q : String) : Bool :=
  ((splitDot q).head? == some "builtins" && (splitDot q).length == 2) || q == "typing.Any"
    || (splitDot q).length == 1 || pyIn (replaceChar s.moduleId '/' ".") q

/-- the name under which `q` is imported -/
def r18_impName (api : API) (q : String) : String :=
  if (r18_resolve api q).1 != "" then (r18_resolve api q).1 else q

def r18_impState (api : API) (q : String) (s : St) : St :=
  let qname := r18_impName api q
  let s1 : St := if !(r18_resolve api q).2 then { s with outside := insertSet qname s.outside } else s
  if replaceChar qname '.' "/" != getModuleId s1 then { s1 with imports := insertSet qname s1.imports } else s1

/-- the final state of `addToImports env q` (for `q ≠ ""`) -/
def r18_addSt (api : API) (q : String) (s : St) : St := if r18_skip s q then s else r18_impState api q s

theorem r18_getModuleId_true (s : St) : getModuleId s true = s.moduleId := by
  simp [getModuleId]

theorem r18_addToImports_wp (env : Env) (q : String) (st : St) :
    wp (addToImports env q) (fun _ s1 => q ≠ "" ∧ s1 = r18_addSt env.api q st) st := by
  unfold addToImports
  simp only [wp_ite, wp_bind, wp_pure, wp_get, wp_set, wp_throwG, r18_getModuleId_true]
  refine ⟨fun _ => trivial, fun hq => ⟨fun h1 => ?_, fun h1 => ⟨fun h2 => ?_, fun h2 => ⟨fun h3 => ?_, fun h3 => ?_⟩⟩⟩⟩
  · have : r18_skip st q = true := by
      unfold r18_skip
      rw [h1]; rfl
    rw [r18_addSt, if_pos this]
    exact ⟨by simpa using hq, rfl⟩
  · have : r18_skip st q = true := by
      unfold r18_skip
      rw [h2]; simp
    rw [r18_addSt, if_pos this]
    exact ⟨by simpa using hq, rfl⟩
  · have : r18_skip st q = false := by
      unfold r18_skip
      simp only [Bool.not_eq_true] at h1 h2
      simp only [Bool.not_eq_true'] at h3
      rw [h1, h2, h3]; rfl
    refine ⟨by simpa using hq, ?_⟩
    rw [r18_addSt, this, if_neg Bool.false_ne_true]
    unfold r18_impState r18_impName r18_resolve r18_importLookup
    generalize find? (fun c => isPathConnectedToClass env.api.reexportMap (replaceChar q '.' "/") c.id) env.api.classes = found
    cases found with
    | none => dsimp only [Option.map]
    | some c => dsimp only [Option.map]
  · have : r18_skip st q = true := by
      unfold r18_skip
      have h3' : pyIn (replaceChar st.moduleId '/' ".") q = true := by
        cases h : pyIn (replaceChar st.moduleId '/' ".") q
        · rw [h] at h3; exact absurd rfl h3
        · rfl
      rw [h3']; simp
    rw [r18_addSt, if_pos this]
    exact ⟨by simpa using hq, rfl⟩

theorem r18_addToImports_ok (env : Env) (q : String) (st : St) (a : Unit) (s1 : St) :
    addToImports env q st = .ok (a, s1) ↔ q ≠ "" ∧ s1 = r18_addSt env.api q st := by
  constructor
  · intro h
    exact r18_addToImports_wp env q st a s1 h
  · rintro ⟨hq, rfl⟩
    obtain ⟨a', s', h⟩ := (o01_addToImports_safe o01_PTriv_good env q hq).total st
    have := (r18_addToImports_wp env q st a' s' h).2
    rw [this] at h
    exact h

theorem r18_getModuleId_congr {s t : St} (h1 : s.moduleId = t.moduleId) (h2 : s.reexportModuleId = t.reexportModuleId)
    (h3 : s.creatingReexport = t.creatingReexport) : getModuleId s = getModuleId t := by
  unfold getModuleId
  rw [h1, h2, h3]

/-- does `addToImports env q` add an import / a class outside the package, from state `s`? -/
def r18_addsImport (api : API) (s : St) (q : String) : Bool :=
  !r18_skip s q && replaceChar (r18_impName api q) '.' "/" != getModuleId s
def r18_addsOutside (api : API) (s : St) (q : String) : Bool :=
  !r18_skip s q && !(r18_resolve api q).2

theorem r18_addSt_eq (api : API) (q : String) (s : St) :
    r18_addSt api q s = { s with
      imports := if r18_addsImport api s q then insertSet (r18_impName api q) s.imports else s.imports,
      outside := if r18_addsOutside api s q then insertSet (r18_impName api q) s.outside else s.outside } := by
  unfold r18_addSt r18_addsImport r18_addsOutside
  cases hs : r18_skip s q
  · rw [if_neg Bool.false_ne_true]
    unfold r18_impState
    dsimp only
    cases hr : (r18_resolve api q).2
    · have hg : getModuleId { s with outside := insertSet (r18_impName api q) s.outside } = getModuleId s :=
        r18_getModuleId_congr rfl rfl rfl
      simp only [Bool.not_false, Bool.true_and, if_true]
      rw [hg]
      cases hc : (replaceChar (r18_impName api q) '.' "/" != getModuleId s)
      · simp only [Bool.false_eq_true, if_false]
      · simp only [if_true]
    · simp only [Bool.not_true, Bool.false_eq_true, if_false, Bool.true_and, Bool.not_false, Bool.and_false]
      cases hc : (replaceChar (r18_impName api q) '.' "/" != getModuleId s)
      · simp only [Bool.false_eq_true, if_false]
      · simp only [if_true]
  · simp only [Bool.not_true, Bool.false_and, Bool.false_eq_true, if_false, if_true]

/-- the non-builtin branch of `typeStr env (.named name qname)` -/
def r18_namedBody (env : Env) (name qname : String) : G String := do
  addToImports env qname
  match name.toList with
  | [] => throwG .indexError
  | c :: _ =>
    let s ← get
    if c == '_' && !s.imports.contains qname then addTodo "internal class as type"
    pure (escapeKeyword name)

/-- what the generic walk needs of the primitives that read the state or the API -/
structure r18_Prims (K : St → Prop) (R : St → St → Prop) (api api' : API) (safe : Bool) : Prop where
  addTodo : ∀ k, r18_Sim K R (addTodo k) (addTodo k)
  logEmit : ∀ k i, r18_Sim K R (logEmit k i) (logEmit k i)
  addImp : ∀ q, r18_Sim K R (addToImports ⟨api, safe⟩ q) (addToImports ⟨api', safe⟩ q)
  named : ∀ name qname, r18_Sim K R (r18_namedBody ⟨api, safe⟩ name qname) (r18_namedBody ⟨api', safe⟩ name qname)
  hasNode : ∀ n r node, r18_Sim K R (hasNodeShorterReexport n r node) (hasNodeShorterReexport n r node)
  todoMsg : ∀ i, r18_Sim K R (createTodoMsg i) (createTodoMsg i)
  cgEq : ∀ s s', R s s' → s.classGenerics = s'.classGenerics
  kr : (∀ s, R s s) ∨ (∀ s, K s)

open Lean in
macro "r18_walk" "[" ls:term,* "]" : tactic => do
  let alts ← ls.getElems.mapM fun l => `(tacticSeq| apply $l)
  `(tactic| repeat' (first
      | with_reducible exact r18_Sim.pure _
      | with_reducible exact r18_Sim.throw _ _
      | with_reducible exact r18_Prims.addTodo ‹_› _
      | with_reducible exact r18_Prims.logEmit ‹_› _ _
      | with_reducible exact r18_Prims.addImp ‹_› _
      | with_reducible exact r18_Prims.hasNode ‹_› _ _ _
      | with_reducible exact r18_Prims.todoMsg ‹_› _
      | with_reducible assumption
      | with_reducible exact And.left ‹_ ∧ _›
      $[| with_reducible $alts:tacticSeq]*
      | with_reducible apply r18_Sim.ite
      | ((with_reducible apply r18_Sim.get_bind (r18_Prims.kr ‹_›)); intro s s' hR; (try dsimp only);
          rw [r18_Prims.cgEq ‹_› s s' hR])
      | with_reducible apply r18_Sim.bind
      | intro _
      | dsimp only
      | split))

section Generic
variable {K : St → Prop} {R : St → St → Prop} {api api' : API} {safe : Bool}

local notation "E" => (Env.mk api safe)
local notation "E'" => (Env.mk api' safe)

def r18_TupleNamed (K : St → Prop) (R : St → St → Prop) (api api' : API) (safe : Bool) (t : AType) : Prop :=
  ∀ ts, t = .tuple ts → ∀ pre i, r18_Sim K R (typeStrsNamed ⟨api, safe⟩ pre i ts) (typeStrsNamed ⟨api', safe⟩ pre i ts)

mutual
theorem r18_typeStr_sim' (P : r18_Prims K R api api' safe) :
    (t : AType) → r18_Sim K R (typeStr E t) (typeStr E' t) ∧ r18_TupleNamed K R api api' safe t
  | .named name qname => by
    refine ⟨?_, fun ts h => by cases h⟩
    have := P.named name qname
    unfold r18_namedBody at this
    unfold typeStr
    split
    · exact r18_Sim.pure _
    · exact this
  | .final t => by
    have := (r18_typeStr_sim' P t).1
    refine ⟨?_, fun ts h => by cases h⟩
    unfold typeStr
    exact this
  | .callable params ret => by
    have h1 := r18_typeStrsNamed_sim P "param_" 1 params
    have h2 := (r18_typeStr_sim' P ret).1
    have h3 : ∀ ts, ret = .tuple ts →
        r18_Sim K R (typeStrsNamed E "result_" 1 ts) (typeStrsNamed E' "result_" 1 ts) :=
      fun ts h => (r18_typeStr_sim' P ret).2 ts h "result_" 1
    refine ⟨?_, fun ts h => by cases h⟩
    unfold typeStr
    r18_walk [h3 _ rfl]
  | .set ts => by
    have h1 := r18_typeStrs_sim P ts
    refine ⟨?_, fun ts h => by cases h⟩
    unfold typeStr
    r18_walk []
  | .list ts => by
    have h1 := r18_typeStrs_sim P ts
    refine ⟨?_, fun ts h => by cases h⟩
    unfold typeStr
    r18_walk []
  | .namedSeq name _ ts => by
    have h1 := r18_typeStrs_sim P ts
    refine ⟨?_, fun ts h => by cases h⟩
    unfold typeStr
    r18_walk []
  | .unknown => by
    refine ⟨?_, fun ts h => by cases h⟩
    unfold typeStr
    r18_walk []
  | .union ts => by
    have h1 := r18_typeStrs_sim P ts
    have h2 := r18_typeStrsSkipLit_sim P ts
    refine ⟨?_, fun ts h => by cases h⟩
    unfold typeStr
    r18_walk []
  | .tuple ts => by
    have h1 := r18_typeStrs_sim P ts
    have h2 := fun pre i => r18_typeStrsNamed_sim P pre i ts
    refine ⟨?_, fun ts' h pre i => by cases h; exact h2 pre i⟩
    unfold typeStr
    r18_walk []
  | .dict k v => by
    have h1 := (r18_typeStr_sim' P k).1
    have h2 := (r18_typeStr_sim' P v).1
    refine ⟨?_, fun ts h => by cases h⟩
    unfold typeStr
    r18_walk []
  | .literal ls => by
    refine ⟨?_, fun ts h => by cases h⟩
    unfold typeStr
    r18_walk []
  | .typeVar name => by
    refine ⟨?_, fun ts h => by cases h⟩
    unfold typeStr
    r18_walk []
  | .typeVarB name _ => by
    refine ⟨?_, fun ts h => by cases h⟩
    unfold typeStr
    r18_walk []
  | .enum _ => by
    refine ⟨?_, fun ts h => by cases h⟩
    unfold typeStr
    r18_walk []
  | .boundary .. => by
    refine ⟨?_, fun ts h => by cases h⟩
    unfold typeStr
    r18_walk []
theorem r18_typeStrs_sim (P : r18_Prims K R api api' safe) :
    (ts : List AType) → r18_Sim K R (typeStrs E ts) (typeStrs E' ts)
  | [] => by unfold typeStrs; r18_walk []
  | t :: ts => by
    have h1 := (r18_typeStr_sim' P t).1
    have h2 := r18_typeStrs_sim P ts
    unfold typeStrs
    r18_walk []
theorem r18_typeStrsSkipLit_sim (P : r18_Prims K R api api' safe) :
    (ts : List AType) → r18_Sim K R (typeStrsSkipLit E ts) (typeStrsSkipLit E' ts)
  | [] => by unfold typeStrsSkipLit; r18_walk []
  | t :: ts => by
    have h1 := (r18_typeStr_sim' P t).1
    have h2 := r18_typeStrsSkipLit_sim P ts
    unfold typeStrsSkipLit
    r18_walk []
theorem r18_typeStrsNamed_sim (P : r18_Prims K R api api' safe) (pre : String) (i : Nat) :
    (ts : List AType) → r18_Sim K R (typeStrsNamed E pre i ts) (typeStrsNamed E' pre i ts)
  | [] => by unfold typeStrsNamed; r18_walk []
  | t :: ts => by
    have h1 := (r18_typeStr_sim' P t).1
    have h2 := r18_typeStrsNamed_sim P pre (i + 1) ts
    unfold typeStrsNamed
    r18_walk []
end

theorem r18_typeStr_sim (P : r18_Prims K R api api' safe) (t : AType) : r18_Sim K R (typeStr E t) (typeStr E' t) :=
  (r18_typeStr_sim' P t).1

theorem r18_typeStrOpt_sim (P : r18_Prims K R api api' safe) (t : Option AType) :
    r18_Sim K R (typeStrOpt E t) (typeStrOpt E' t) := by
  unfold typeStrOpt
  r18_walk [r18_typeStr_sim]

theorem r18_defaultString_sim (P : r18_Prims K R api api' safe) (a : Assign) (d : DefaultVal) :
    r18_Sim K R (defaultString a d) (defaultString a d) := by
  unfold defaultString
  r18_walk []

theorem r18_createParameter_sim (P : r18_Prims K R api api' safe) (p : Parameter) :
    r18_Sim K R (createParameter E p) (createParameter E' p) := by
  unfold createParameter
  r18_walk [r18_typeStr_sim, r18_defaultString_sim]

theorem r18_createParameters_sim (P : r18_Prims K R api api' safe) :
    (ps : List Parameter) → r18_Sim K R (createParameters E ps) (createParameters E' ps)
  | [] => by unfold createParameters; r18_walk []
  | p :: ps => by
    have := r18_createParameters_sim P ps
    unfold createParameters
    r18_walk [r18_createParameter_sim]

theorem r18_createParameterString_sim (P : r18_Prims K R api api' safe) (ps : List Parameter) (indent : String)
    (b : Bool) : r18_Sim K R (createParameterString E ps indent b) (createParameterString E' ps indent b) := by
  unfold createParameterString
  r18_walk [r18_createParameters_sim]

theorem r18_createResults_sim (P : r18_Prims K R api api' safe) :
    (rs : List Result) → r18_Sim K R (createResults E rs) (createResults E' rs)
  | [] => by unfold createResults; r18_walk []
  | r :: rs => by
    have := r18_createResults_sim P rs
    unfold createResults
    r18_walk [r18_typeStr_sim]

theorem r18_createResultString_sim (P : r18_Prims K R api api' safe) (rs : List Result) :
    r18_Sim K R (createResultString E rs) (createResultString E' rs) := by
  unfold createResultString
  r18_walk [r18_createResults_sim]

theorem r18_typeVarStrings_sim (P : r18_Prims K R api api' safe) (b : Bool) :
    (tvs : List TypeVar) → r18_Sim K R (typeVarStrings E b tvs) (typeVarStrings E' b tvs)
  | [] => by unfold typeVarStrings; r18_walk []
  | tv :: tvs => by
    have := r18_typeVarStrings_sim P b tvs
    unfold typeVarStrings
    dsimp only
    apply r18_Sim.get_bind P.kr
    intro s s' hR
    rw [P.cgEq s s' hR]
    r18_walk [r18_typeStr_sim]

theorem r18_createFunctionString_sim (P : r18_Prims K R api api' safe) (f : Function) (indent : String)
    (b1 b2 : Bool) : r18_Sim K R (createFunctionString E f indent b1 b2) (createFunctionString E' f indent b1 b2) := by
  unfold createFunctionString
  r18_walk [r18_createParameterString_sim, r18_typeVarStrings_sim, r18_createResultString_sim]

theorem r18_createPropertyFunctionString_sim (P : r18_Prims K R api api' safe) (f : Function) (indent : String) :
    r18_Sim K R (createPropertyFunctionString E f indent) (createPropertyFunctionString E' f indent) := by
  unfold createPropertyFunctionString
  r18_walk [r18_typeStr_sim]

theorem r18_createAttribute_sim (P : r18_Prims K R api api' safe) (a : Attribute) (inner : String) :
    r18_Sim K R (createAttribute E a inner) (createAttribute E' a inner) := by
  unfold createAttribute
  r18_walk [r18_typeStrOpt_sim]

theorem r18_createAttributes_sim (P : r18_Prims K R api api' safe) (inner : String) :
    (as : List Attribute) → r18_Sim K R (createAttributes E inner as) (createAttributes E' inner as)
  | [] => by unfold createAttributes; r18_walk []
  | a :: as => by
    have := r18_createAttributes_sim P inner as
    unfold createAttributes
    r18_walk [r18_createAttribute_sim]

theorem r18_createClassAttributeString_sim (P : r18_Prims K R api api' safe) (as : List Attribute) (inner : String) :
    r18_Sim K R (createClassAttributeString E as inner) (createClassAttributeString E' as inner) := by
  unfold createClassAttributeString
  r18_walk [r18_createAttributes_sim]

theorem r18_createMethods_sim (P : r18_Prims K R api api' safe) (inner : String) (b : Bool) (ad : List String) :
    (ms : List Function) → r18_Sim K R (createMethods E inner b ad ms) (createMethods E' inner b ad ms)
  | [] => by unfold createMethods; r18_walk []
  | m :: ms => by
    have := r18_createMethods_sim P inner b ad ms
    unfold createMethods
    r18_walk [r18_createPropertyFunctionString_sim, r18_createFunctionString_sim]

theorem r18_createClassMethodString_sim (P : r18_Prims K R api api' safe) (ms : List Function) (inner : String)
    (b : Bool) (ad : List String) :
    r18_Sim K R (createClassMethodString E ms inner b ad) (createClassMethodString E' ms inner b ad) := by
  unfold createClassMethodString
  r18_walk [r18_createMethods_sim]

theorem r18_varianceKeyword_sim (v : Variance) : r18_Sim K R (varianceKeyword v) (varianceKeyword v) := by
  unfold varianceKeyword
  r18_walk []

theorem r18_typeParamStrings_sim (P : r18_Prims K R api api' safe) :
    (tps : List TypeParam) → r18_Sim K R (typeParamStrings E tps) (typeParamStrings E' tps)
  | [] => by unfold typeParamStrings; r18_walk []
  | tp :: tps => by
    have := r18_typeParamStrings_sim P tps
    unfold typeParamStrings
    r18_walk [r18_varianceKeyword_sim, r18_typeStr_sim]

theorem r18_innerClassesG_sim (render render' : Class → G String) (hr : ∀ c, r18_Sim K R (render c) (render' c)) :
    (cs : List Class) → r18_Sim K R (innerClassesG render cs) (innerClassesG render' cs)
  | [] => by unfold innerClassesG; r18_walk []
  | c :: cs => by
    have := r18_innerClassesG_sim render render' hr cs
    unfold innerClassesG
    r18_walk [hr]

theorem r18_superclassesG_sim (P : r18_Prims K R api api' safe) (inline inline' : String → G String)
    (hr : ∀ c, r18_Sim K R (inline c) (inline' c)) :
    (scs : List String) → r18_Sim K R (superclassesG E inline scs) (superclassesG E' inline' scs)
  | [] => by unfold superclassesG; r18_walk []
  | sc :: scs => by
    have := r18_superclassesG_sim P inline inline' hr scs
    unfold superclassesG
    r18_walk [hr]

theorem r18_internalSupersG_sim (inline inline' : String → G String) (hr : ∀ c, r18_Sim K R (inline c) (inline' c)) :
    (scs : List String) → r18_Sim K R (internalSupersG inline scs) (internalSupersG inline' scs)
  | [] => by unfold internalSupersG; r18_walk []
  | sc :: scs => by
    have := r18_internalSupersG_sim inline inline' hr scs
    unfold internalSupersG
    r18_walk [hr]

/-- what the class level needs in addition: resetting `classGenerics`, and the private-superclass
    lookup of the first environment is reproduced by the second -/
structure r18_PrimsC (K : St → Prop) (R : St → St → Prop) (api api' : API) (safe : Bool) : Prop where
  prims : r18_Prims K R api api' safe
  setCG : ∀ g : List String, r18_Sim K R (modify fun s => { s with classGenerics := g })
    (modify fun s => { s with classGenerics := g })
  getClass : ∀ q c, getClassInPackage ⟨api, safe⟩ q = .ok c → getClassInPackage ⟨api', safe⟩ q = .ok c

mutual
theorem r18_createClassString_sim (PC : r18_PrimsC K R api api' safe) :
    (n n' : Nat) → n ≤ n' → (c : Class) → (indent : String) → (b : Bool) →
    r18_Sim K R (createClassString E n c indent b) (createClassString E' n' c indent b)
  | 0, _, _, _, _, _ => by unfold createClassString; exact r18_Sim.throw _ _
  | n + 1, 0, h, _, _, _ => by omega
  | n + 1, n' + 1, h, c, indent, b => by
    have P := PC.prims
    have hcg := PC.setCG
    have h1 := fun c i b => r18_createClassString_sim PC n n' (by omega) c i b
    have h2 := fun sc i ad => r18_createInternalClassString_sim PC n n' (by omega) sc i ad
    unfold createClassString
    r18_walk [r18_createParameterString_sim, r18_typeParamStrings_sim,
      r18_createClassAttributeString_sim, r18_innerClassesG_sim, r18_createClassMethodString_sim, r18_superclassesG_sim,
      hcg, h1, h2]
theorem r18_createInternalClassString_sim (PC : r18_PrimsC K R api api' safe) :
    (n n' : Nat) → n ≤ n' → (sc : String) → (inner : String) → (ad : List String) →
    r18_Sim K R (createInternalClassString E n sc inner ad) (createInternalClassString E' n' sc inner ad)
  | 0, _, _, _, _, _ => by unfold createInternalClassString; exact r18_Sim.throw _ _
  | n + 1, 0, h, _, _, _ => by omega
  | n + 1, n' + 1, h, sc, inner, ad => by
    have P := PC.prims
    have h1 := fun c i b => r18_createClassString_sim PC n n' (by omega) c i b
    have h2 := fun sc i ad => r18_createInternalClassString_sim PC n n' (by omega) sc i ad
    unfold createInternalClassString
    apply r18_Sim.bind
    · cases hq : getClassInPackage E sc with
      | error e => exact r18_Sim.throw _ _
      | ok c =>
        rw [PC.getClass sc c hq]
        exact r18_Sim.pure _
    r18_walk [r18_createClassMethodString_sim, r18_innerClassesG_sim, r18_internalSupersG_sim, h1, h2]
end

theorem r18_createFunctions_sim (P : r18_Prims K R api api' safe) (inRe : Bool) :
    (fs : List Function) → r18_Sim K R (createFunctions E inRe fs) (createFunctions E' inRe fs)
  | [] => by unfold createFunctions; r18_walk []
  | f :: fs => by
    have := r18_createFunctions_sim P inRe fs
    unfold createFunctions
    r18_walk [r18_createFunctionString_sim]

theorem r18_createClasses_sim (PC : r18_PrimsC K R api api' safe) (hfuel : classFuel E ≤ classFuel E') (inRe : Bool) :
    (cs : List Class) → r18_Sim K R (createClasses E inRe cs) (createClasses E' inRe cs)
  | [] => by unfold createClasses; r18_walk []
  | c :: cs => by
    have := r18_createClasses_sim PC hfuel inRe cs
    have h1 := fun c i b => r18_createClassString_sim PC _ _ hfuel c i b
    unfold createClasses
    r18_walk [h1]

end Generic


/-! ### instance 1: `R = Eq`, two environments -/

/-- guard: every class recorded as "outside the package" satisfies `Out` -/
def r18_OutIn (Out : String → Prop) (s : St) : Prop := ∀ q ∈ s.outside, Out q

theorem r18_resolve_none {api : API} {q : String} (h : (r18_resolve api q).2 = false) :
    r18_resolve api q = ("", false) := by
  unfold r18_resolve at h ⊢
  split
  · rename_i id hid
    rw [hid] at h
    simp at h
  · rfl

theorem r18_addSt_congr {api api' : API} {q : String} (s : St) (h : r18_resolve api' q = r18_resolve api q) :
    r18_addSt api' q s = r18_addSt api q s := by
  unfold r18_addSt r18_impState r18_impName
  rw [h]

theorem r18_addSt_outside_mono (api : API) (q : String) (s : St) (x : String) (hx : x ∈ s.outside) :
    x ∈ (r18_addSt api q s).outside := by
  rw [r18_addSt_eq]
  dsimp only
  split
  · exact (mem_insertSet_mk _ _ _).2 (Or.inl hx)
  · exact hx

section EqInst
variable {Out : String → Prop} {api api' : API} {safe : Bool}

local notation "E" => (Env.mk api safe)
local notation "E'" => (Env.mk api' safe)
local notation "KO" => r18_OutIn Out

theorem r18_same_modify {g : St → St} (hb : ∀ s, (g s).outside = s.outside) :
    r18_Sim KO Eq (modify g : G PUnit) (modify g : G PUnit) :=
  r18_Sim.of_fun (fun s h => by unfold r18_OutIn at h ⊢; rw [hb] at h; exact h) (fun s s' h => by rw [h])

theorem r18_eq_addImp (hres : ∀ q, (r18_resolve api q).2 = true ∨ Out q → r18_resolve api' q = r18_resolve api q)
    (q : String) : r18_Sim KO Eq (addToImports E q) (addToImports E' q) := by
  refine ⟨fun st a s1 h hK => ?_, fun st st' a s1 hR h hK => ?_⟩
  · obtain ⟨_, rfl⟩ := (r18_addToImports_ok _ _ _ _ _).1 h
    intro x hx
    exact hK x (r18_addSt_outside_mono _ _ _ x hx)
  · subst hR
    obtain ⟨hq, hs⟩ := (r18_addToImports_ok _ _ _ _ _).1 h
    refine ⟨s1, ?_, rfl⟩
    rw [r18_addToImports_ok]
    refine ⟨hq, ?_⟩
    rw [hs]
    dsimp only
    by_cases hsk : r18_skip st q = true
    · unfold r18_addSt
      rw [if_pos hsk, if_pos hsk]
    · have hsk' : r18_skip st q = false := by simpa using hsk
      refine (r18_addSt_congr st (hres q ?_)).symm
      cases hr : (r18_resolve api q).2
      · right
        have h1 : r18_impName api q = q := by
          unfold r18_impName
          rw [r18_resolve_none hr]
          rfl
        have h2 : r18_addsOutside api st q = true := by
          unfold r18_addsOutside
          rw [hsk', hr]; rfl
        apply hK
        rw [hs, r18_addSt_eq]
        dsimp only
        rw [if_pos h2, h1]
        exact (mem_insertSet_mk _ _ _).2 (Or.inr rfl)
      · left; rfl

theorem r18_eq_named (hres : ∀ q, (r18_resolve api q).2 = true ∨ Out q → r18_resolve api' q = r18_resolve api q)
    (name qname : String) : r18_Sim KO Eq (r18_namedBody E name qname) (r18_namedBody E' name qname) := by
  unfold r18_namedBody
  refine r18_Sim.bind (r18_eq_addImp hres qname) (fun _ => ?_)
  split
  · exact r18_Sim.throw _ _
  · refine r18_Sim.get_bind (Or.inl fun _ => rfl) (fun s s' hR => ?_)
    subst hR
    dsimp only
    split
    · exact r18_Sim.bind (r18_same_modify (fun _ => rfl)) (fun _ => r18_Sim.pure _)
    · exact r18_Sim.pure _

theorem r18_eq_prims (hres : ∀ q, (r18_resolve api q).2 = true ∨ Out q → r18_resolve api' q = r18_resolve api q) :
    r18_Prims KO Eq api api' safe where
  addTodo := fun _ => r18_same_modify (fun _ => rfl)
  logEmit := fun _ _ => r18_same_modify (fun _ => rfl)
  addImp := r18_eq_addImp hres
  named := r18_eq_named hres
  hasNode := fun n r node => r18_Sim.same (fun st a s1 h hK => by
    obtain ⟨_, rs, h2⟩ := hasNodeShorterReexport_wp n r node st a s1 h
    rw [h2] at hK
    exact hK)
  todoMsg := fun i => r18_Sim.same (fun st a s1 h hK => by
    obtain ⟨_, h2⟩ := createTodoMsg_wp i st a s1 h
    rw [h2] at hK
    exact hK)
  cgEq := fun s s' h => by rw [h]
  kr := Or.inl fun _ => rfl

theorem r18_eq_primsC (hres : ∀ q, (r18_resolve api q).2 = true ∨ Out q → r18_resolve api' q = r18_resolve api q)
    (hgc : ∀ q c, getClassInPackage E q = .ok c → getClassInPackage E' q = .ok c) :
    r18_PrimsC KO Eq api api' safe where
  prims := r18_eq_prims hres
  setCG := fun _ => r18_same_modify (fun _ => rfl)
  getClass := hgc

theorem r18_eq_createModuleString (hrm : api'.reexportMap = api.reexportMap)
    (hres : ∀ q, (r18_resolve api q).2 = true ∨ Out q → r18_resolve api' q = r18_resolve api q)
    (hgc : ∀ q c, getClassInPackage E q = .ok c → getClassInPackage E' q = .ok c)
    (hfuel : classFuel E ≤ classFuel E') (m : Module) :
    r18_Sim KO Eq (createModuleString E m) (createModuleString E' m) := by
  have PC := r18_eq_primsC hres hgc
  have P := PC.prims
  have h1 := r18_createFunctions_sim P
  have h2 := r18_createClasses_sim PC hfuel
  have h3 : ∀ l : List LogEntry, r18_Sim KO Eq (modify fun s => { s with log := s.log ++ l } : G PUnit)
      (modify fun s => { s with log := s.log ++ l }) := fun l => r18_same_modify (fun _ => rfl)
  have h4 : r18_Sim KO Eq (createImportsString E) (createImportsString E') := by
    have : createImportsString E' = createImportsString E := by unfold createImportsString; rfl
    rw [this]
    refine r18_Sim.same (fun st a s1 h hK => ?_)
    rw [p08_createImportsString_eq] at h
    simp only [Except.ok.injEq, Prod.mk.injEq] at h
    rw [h.2]; exact hK
  have e1 : ∀ p, packageHeader E' p = packageHeader E p := fun _ => rfl
  have e2 : ∀ e, createEnumString E' e = createEnumString E e := fun _ => rfl
  unfold createModuleString
  dsimp only
  simp only [e1, e2]
  rw [hrm]
  r18_walk [h1, h2, h3]

theorem r18_eq_callGenerator (hrm : api'.reexportMap = api.reexportMap)
    (hres : ∀ q, (r18_resolve api q).2 = true ∨ Out q → r18_resolve api' q = r18_resolve api q)
    (hgc : ∀ q c, getClassInPackage E q = .ok c → getClassInPackage E' q = .ok c)
    (hfuel : classFuel E ≤ classFuel E') (m : Module) :
    r18_Sim KO Eq (callGenerator E m) (callGenerator E' m) := by
  have P := r18_eq_prims (safe := safe) hres
  have h1 := r18_eq_createModuleString hrm hres hgc hfuel m
  have h2 : ∀ id, r18_Sim KO Eq (setModuleId id) (setModuleId id) := fun id => by
    unfold setModuleId
    exact r18_same_modify (fun s => by split <;> rfl)
  have h3 : r18_Sim KO Eq
      (modify fun s => { s with reexportModuleId := "", classGenerics := [], imports := [], todos := [] } : G PUnit)
      (modify fun s => { s with reexportModuleId := "", classGenerics := [], imports := [], todos := [] }) :=
    r18_same_modify (fun _ => rfl)
  unfold callGenerator
  r18_walk [h2]

end EqInst

/-! ### instance 2: one environment, two states that differ in the contents of `imports`/`outside` -/

def r18_insOpt (o : Option String) (l : List String) : List String :=
  match o with
  | some n => insertSet n l
  | none => l

theorem r18_mem_insOpt (o : Option String) (l : List String) (x : String) :
    x ∈ r18_insOpt o l ↔ x ∈ l ∨ o = some x := by
  cases o with
  | none => simp [r18_insOpt]
  | some n =>
    simp only [r18_insOpt, mem_insertSet_mk, Option.some.injEq]
    constructor
    · rintro (h | h)
      · exact Or.inl h
      · exact Or.inr h.symm
    · rintro (h | h)
      · exact Or.inl h
      · exact Or.inr h.symm

theorem r18_nodup_insOpt (o : Option String) (l : List String) (h : l.Nodup) : (r18_insOpt o l).Nodup := by
  cases o with
  | none => exact h
  | some n => exact nodup_insertSet_mk n l h

theorem r18_addSt_eq' (api : API) (q : String) (s : St) :
    r18_addSt api q s = { s with
      imports := r18_insOpt (if r18_addsImport api s q then some (r18_impName api q) else none) s.imports,
      outside := r18_insOpt (if r18_addsOutside api s q then some (r18_impName api q) else none) s.outside } := by
  rw [r18_addSt_eq]
  cases r18_addsImport api s q <;> cases r18_addsOutside api s q <;> rfl

theorem r18_skip_congr {s t : St} (h : s.moduleId = t.moduleId) (q : String) : r18_skip s q = r18_skip t q := by
  unfold r18_skip
  rw [h]

theorem r18_addsImport_congr (api : API) {s t : St} (h1 : s.moduleId = t.moduleId)
    (h2 : s.reexportModuleId = t.reexportModuleId) (h3 : s.creatingReexport = t.creatingReexport) (q : String) :
    r18_addsImport api s q = r18_addsImport api t q := by
  unfold r18_addsImport
  rw [r18_skip_congr h1, r18_getModuleId_congr h1 h2 h3]

theorem r18_addsOutside_congr (api : API) {s t : St} (h1 : s.moduleId = t.moduleId) (q : String) :
    r18_addsOutside api s q = r18_addsOutside api t q := by
  unfold r18_addsOutside
  rw [r18_skip_congr h1]

/-- `s` (first run) and `s'` (second run) agree on everything the generator reads except the contents
    of `imports`/`outside`; both keep the module ids of their base states `b`, `b'`; their
    `imports`/`outside` have grown from the bases by the same names; with `fr`, `classGenerics` is
    untouched. -/
structure r18_Rel (fr : Bool) (b b' s s' : St) : Prop where
  todos : s.todos = s'.todos
  cg : s.classGenerics = s'.classGenerics
  cgb : fr = true → s.classGenerics = b.classGenerics
  mid : s.moduleId = b.moduleId
  rmid : s.reexportModuleId = b.reexportModuleId
  cr : s.creatingReexport = b.creatingReexport
  mid' : s'.moduleId = b'.moduleId
  rmid' : s'.reexportModuleId = b'.reexportModuleId
  cr' : s'.creatingReexport = b'.creatingReexport
  grow : ∃ I O : List String,
    (∀ q, q ∈ s.imports ↔ q ∈ b.imports ∨ q ∈ I) ∧ (∀ q, q ∈ s'.imports ↔ q ∈ b'.imports ∨ q ∈ I) ∧
    (∀ q, q ∈ s.outside ↔ q ∈ b.outside ∨ q ∈ O) ∧ (∀ q, q ∈ s'.outside ↔ q ∈ b'.outside ∨ q ∈ O)
  nodup : b.imports.Nodup → s.imports.Nodup
  nodup' : b'.imports.Nodup → s'.imports.Nodup

/-- the bases agree on the module ids -/
structure r18_Base (b b' : St) : Prop where
  mid : b.moduleId = b'.moduleId
  rmid : b.reexportModuleId = b'.reexportModuleId
  cr : b.creatingReexport = b'.creatingReexport

theorem r18_Rel.init {fr : Bool} {b b' : St} (h1 : b.todos = b'.todos) (h2 : b.classGenerics = b'.classGenerics) :
    r18_Rel fr b b' b b' :=
  ⟨h1, h2, fun _ => rfl, rfl, rfl, rfl, rfl, rfl, rfl, ⟨[], [], by simp, by simp, by simp, by simp⟩, id, id⟩

/-- one step: the new states `t`, `t'` arise by adding the same names -/
theorem r18_Rel.step {fr : Bool} {b b' s s' t t' : St} (h : r18_Rel fr b b' s s')
    (e1 : t.todos = t'.todos) (e2 : t.classGenerics = t'.classGenerics)
    (e2b : fr = true → t.classGenerics = s.classGenerics)
    (e3 : t.moduleId = s.moduleId) (e4 : t.reexportModuleId = s.reexportModuleId)
    (e5 : t.creatingReexport = s.creatingReexport)
    (e3' : t'.moduleId = s'.moduleId) (e4' : t'.reexportModuleId = s'.reexportModuleId)
    (e5' : t'.creatingReexport = s'.creatingReexport)
    (oi oo : Option String)
    (e6 : t.imports = r18_insOpt oi s.imports) (e6' : t'.imports = r18_insOpt oi s'.imports)
    (e7 : t.outside = r18_insOpt oo s.outside) (e7' : t'.outside = r18_insOpt oo s'.outside) :
    r18_Rel fr b b' t t' := by
  obtain ⟨I, O, g1, g2, g3, g4⟩ := h.grow
  refine ⟨e1, e2, fun hf => (e2b hf).trans (h.cgb hf), e3.trans h.mid, e4.trans h.rmid, e5.trans h.cr,
    e3'.trans h.mid', e4'.trans h.rmid', e5'.trans h.cr',
    ⟨I ++ oi.toList, O ++ oo.toList, ?_, ?_, ?_, ?_⟩, ?_, ?_⟩
  · intro q; rw [e6, r18_mem_insOpt, g1, List.mem_append, Option.mem_toList, or_assoc]
  · intro q; rw [e6', r18_mem_insOpt, g2, List.mem_append, Option.mem_toList, or_assoc]
  · intro q; rw [e7, r18_mem_insOpt, g3, List.mem_append, Option.mem_toList, or_assoc]
  · intro q; rw [e7', r18_mem_insOpt, g4, List.mem_append, Option.mem_toList, or_assoc]
  · intro hn; rw [e6]; exact r18_nodup_insOpt _ _ (h.nodup hn)
  · intro hn; rw [e6']; exact r18_nodup_insOpt _ _ (h.nodup' hn)

/-- a step that touches neither `imports` nor `outside` -/
theorem r18_Rel.step0 {fr : Bool} {b b' s s' t t' : St} (h : r18_Rel fr b b' s s')
    (e1 : t.todos = t'.todos) (e2 : t.classGenerics = t'.classGenerics)
    (e2b : fr = true → t.classGenerics = s.classGenerics)
    (e3 : t.moduleId = s.moduleId) (e4 : t.reexportModuleId = s.reexportModuleId)
    (e5 : t.creatingReexport = s.creatingReexport)
    (e3' : t'.moduleId = s'.moduleId) (e4' : t'.reexportModuleId = s'.reexportModuleId)
    (e5' : t'.creatingReexport = s'.creatingReexport)
    (e6 : t.imports = s.imports) (e6' : t'.imports = s'.imports)
    (e7 : t.outside = s.outside) (e7' : t'.outside = s'.outside) : r18_Rel fr b b' t t' :=
  h.step e1 e2 e2b e3 e4 e5 e3' e4' e5' none none e6 e6' e7 e7'

section RelInst
variable {fr : Bool} {b b' : St} {api : API} {safe : Bool}

local notation "E" => (Env.mk api safe)
local notation "KT" => (fun _ : St => True)

theorem r18_Rel.getModuleId (hb : r18_Base b b') {s s' : St} (h : r18_Rel fr b b' s s') :
    getModuleId s = getModuleId s' :=
  r18_getModuleId_congr (h.mid.trans (hb.mid.trans h.mid'.symm)) (h.rmid.trans (hb.rmid.trans h.rmid'.symm))
    (h.cr.trans (hb.cr.trans h.cr'.symm))

theorem r18_Rel.addSt (hb : r18_Base b b') {s s' : St} (h : r18_Rel fr b b' s s') (q : String) :
    r18_Rel fr b b' (r18_addSt api q s) (r18_addSt api q s') := by
  have hm : s.moduleId = s'.moduleId := h.mid.trans (hb.mid.trans h.mid'.symm)
  have c1 : r18_addsImport api s' q = r18_addsImport api s q :=
    (r18_addsImport_congr api hm (h.rmid.trans (hb.rmid.trans h.rmid'.symm))
      (h.cr.trans (hb.cr.trans h.cr'.symm)) q).symm
  have c2 : r18_addsOutside api s' q = r18_addsOutside api s q := (r18_addsOutside_congr api hm q).symm
  rw [r18_addSt_eq', r18_addSt_eq', c1, c2]
  exact h.step h.todos h.cg (fun _ => rfl) rfl rfl rfl rfl rfl rfl _ _ rfl rfl rfl rfl

theorem r18_rel_modify {g : St → St} (hg : ∀ s s', r18_Rel fr b b' s s' → r18_Rel fr b b' (g s) (g s')) :
    r18_Sim KT (r18_Rel fr b b') (modify g : G PUnit) (modify g : G PUnit) :=
  r18_Sim.of_fun (fun _ _ => trivial) hg

theorem r18_rel_addTodo (k : String) : r18_Sim KT (r18_Rel fr b b') (addTodo k) (addTodo k) := by
  unfold addTodo
  refine r18_rel_modify (fun s s' h => ?_)
  exact h.step0 (by show insertSet k s.todos = insertSet k s'.todos; rw [h.todos]) h.cg (fun _ => rfl)
    rfl rfl rfl rfl rfl rfl rfl rfl rfl rfl

theorem r18_rel_logEmit (k i : String) : r18_Sim KT (r18_Rel fr b b') (logEmit k i) (logEmit k i) := by
  unfold logEmit
  refine r18_rel_modify (fun s s' h => ?_)
  exact h.step0 h.todos h.cg (fun _ => rfl) rfl rfl rfl rfl rfl rfl rfl rfl rfl rfl

theorem r18_rel_addImp (hb : r18_Base b b') (q : String) :
    r18_Sim KT (r18_Rel fr b b') (addToImports E q) (addToImports E q) := by
  refine ⟨fun _ _ _ _ _ => trivial, fun st st' a s1 hR h _ => ?_⟩
  obtain ⟨hq, rfl⟩ := (r18_addToImports_ok _ _ _ _ _).1 h
  exact ⟨_, (r18_addToImports_ok _ _ _ _ _).2 ⟨hq, rfl⟩, hR.addSt hb q⟩

theorem r18_rel_todoMsg (i : String) : r18_Sim KT (r18_Rel fr b b') (createTodoMsg i) (createTodoMsg i) := by
  refine ⟨fun _ _ _ _ _ => trivial, fun st st' a s1 hR h _ => ?_⟩
  obtain ⟨h1, h2⟩ := (createTodoMsg_ok i st (a, s1)).1 h
  simp only [Prod.mk.injEq] at h2
  obtain ⟨rfl, rfl⟩ := h2
  refine ⟨{ st' with todos := [] }, ?_, ?_⟩
  · rw [createTodoMsg_ok]
    refine ⟨by rw [← hR.todos]; exact h1, by rw [hR.todos]⟩
  · exact hR.step0 rfl hR.cg (fun _ => rfl) rfl rfl rfl rfl rfl rfl rfl rfl rfl rfl

theorem r18_rel_hasNode (hb : r18_Base b b') (n : String) (r : List ModRef) (node : Node) :
    r18_Sim KT (r18_Rel fr b b') (hasNodeShorterReexport n r node) (hasNodeShorterReexport n r node) := by
  unfold hasNodeShorterReexport
  refine r18_Sim.get_bind (Or.inr fun _ => trivial) (fun s s' hR => ?_)
  rw [hR.getModuleId hb]
  dsimp only
  split
  · split
    · refine r18_Sim.bind (r18_Sim.set ?_) (fun _ => r18_Sim.pure _)
      exact hR.step0 hR.todos hR.cg (fun _ => rfl) rfl rfl rfl rfl rfl rfl rfl rfl rfl rfl
    · exact r18_Sim.pure _
  · exact r18_Sim.pure _

/-- a reference to `q` from the base state imports `q` under that very name -/
def r18_selfIns (api : API) (s : St) (q : String) : Prop :=
  r18_addsImport api s q = true ∧ r18_impName api q = q

theorem r18_rel_named (hb : r18_Base b b')
    (H : ∀ q, (q ∈ b.imports ↔ q ∈ b'.imports) ∨ r18_selfIns api b q) (name qname : String) :
    r18_Sim KT (r18_Rel fr b b') (r18_namedBody E name qname) (r18_namedBody E name qname) := by
  -- the tail after `addToImports`, under the relation strengthened by agreement on `qname`
  have tail : r18_Sim KT (fun s s' => r18_Rel fr b b' s s' ∧ (qname ∈ s.imports ↔ qname ∈ s'.imports))
      (match name.toList with
        | [] => throwG .indexError
        | c :: _ => do
          let s ← get
          if c == '_' && !s.imports.contains qname then addTodo "internal class as type"
          pure (escapeKeyword name) : G String)
      (match name.toList with
        | [] => throwG .indexError
        | c :: _ => do
          let s ← get
          if c == '_' && !s.imports.contains qname then addTodo "internal class as type"
          pure (escapeKeyword name) : G String) := by
    split
    · exact r18_Sim.throw _ _
    · refine r18_Sim.get_bind (Or.inr fun _ => trivial) (fun s s' hR => ?_)
      have hc : s.imports.contains qname = s'.imports.contains qname := by
        rw [Bool.eq_iff_iff, List.contains_iff_mem, List.contains_iff_mem]
        exact hR.2
      rw [hc]
      dsimp only
      split
      · refine r18_Sim.bind ?_ (fun _ => r18_Sim.pure _)
        unfold addTodo
        refine r18_Sim.of_fun (fun _ _ => trivial) (fun t t' h => ⟨?_, h.2⟩)
        exact h.1.step0 (by show insertSet _ t.todos = insertSet _ t'.todos; rw [h.1.todos]) h.1.cg (fun _ => rfl)
          rfl rfl rfl rfl rfl rfl rfl rfl rfl rfl
      · exact r18_Sim.pure _
  refine ⟨fun _ _ _ _ _ => trivial, fun st st' a s2 hR h _ => ?_⟩
  unfold r18_namedBody at h ⊢
  obtain ⟨u, s1, h1, h2⟩ := G_bind_ok h
  obtain ⟨hq, rfl⟩ := (r18_addToImports_ok _ _ _ _ _).1 h1
  have hR1 : r18_Rel fr b b' (r18_addSt api qname st) (r18_addSt api qname st') := hR.addSt hb qname
  have hmem : qname ∈ (r18_addSt api qname st).imports ↔ qname ∈ (r18_addSt api qname st').imports := by
    rcases H qname with hH | ⟨hs1, hs2⟩
    · obtain ⟨I, O, g1, g2, _, _⟩ := hR1.grow
      rw [g1, g2, hH]
    · have a1 : r18_addsImport api st qname = true := by
        rw [r18_addsImport_congr api hR.mid hR.rmid hR.cr]; exact hs1
      have a2 : r18_addsImport api st' qname = true := by
        rw [r18_addsImport_congr api (hR.mid'.trans hb.mid.symm) (hR.rmid'.trans hb.rmid.symm)
          (hR.cr'.trans hb.cr.symm)]; exact hs1
      rw [r18_addSt_eq', r18_addSt_eq']
      dsimp only
      rw [a1, a2, hs2]
      simp [r18_mem_insOpt]
  obtain ⟨s2', h2', hR2⟩ := tail.sim _ _ a s2 ⟨hR1, hmem⟩ h2 trivial
  refine ⟨s2', ?_, hR2.1⟩
  rw [bind_apply, (r18_addToImports_ok _ _ _ () _).2 ⟨hq, rfl⟩]
  exact h2'

theorem r18_rel_prims (hb : r18_Base b b')
    (H : ∀ q, (q ∈ b.imports ↔ q ∈ b'.imports) ∨ r18_selfIns api b q) :
    r18_Prims KT (r18_Rel fr b b') api api safe where
  addTodo := r18_rel_addTodo
  logEmit := r18_rel_logEmit
  addImp := r18_rel_addImp hb
  named := r18_rel_named hb H
  hasNode := r18_rel_hasNode hb
  todoMsg := r18_rel_todoMsg
  cgEq := fun _ _ h => h.cg
  kr := Or.inr fun _ => trivial

theorem r18_rel_primsC (hb : r18_Base b b')
    (H : ∀ q, (q ∈ b.imports ↔ q ∈ b'.imports) ∨ r18_selfIns api b q) :
    r18_PrimsC KT (r18_Rel false b b') api api safe where
  prims := r18_rel_prims hb H
  setCG := fun g => r18_rel_modify (fun s s' h =>
    h.step0 h.todos rfl (fun hf => by cases hf) rfl rfl rfl rfl rfl rfl rfl rfl rfl rfl)
  getClass := fun _ _ h => h

end RelInst

/-! ### lists of declarations -/

def r18_wrap (s : String) : String := if s != "" then "\n" ++ s ++ "\n" else ""

/-- the common shape of `createFunctions` and `createClasses` -/
def r18_runList {α : Type} (step : α → G String) : List α → G String
  | [] => pure ""
  | a :: as => do
    let s ← step a
    let rest ← r18_runList step as
    pure (r18_wrap s ++ rest)

def r18_fnStep (env : Env) (inRe : Bool) (f : Function) : G String :=
  if f.isPublic then createFunctionString env f "" false inRe else pure ""

def r18_clsStep (env : Env) (inRe : Bool) (c : Class) : G String :=
  if c.isPublic && !c.inheritsFromException then createClassString env (classFuel env) c "" inRe else pure ""

theorem r18_createFunctions_eq (env : Env) (inRe : Bool) :
    (fs : List Function) → createFunctions env inRe fs = r18_runList (r18_fnStep env inRe) fs
  | [] => rfl
  | f :: fs => by
    unfold createFunctions r18_runList
    rw [r18_createFunctions_eq env inRe fs]
    rfl

theorem r18_createClasses_eq (env : Env) (inRe : Bool) :
    (cs : List Class) → createClasses env inRe cs = r18_runList (r18_clsStep env inRe) cs
  | [] => rfl
  | c :: cs => by
    unfold createClasses r18_runList
    rw [r18_createClasses_eq env inRe cs]
    rfl

/-- the block of one declaration, generated alone from the state `st` -/
def r18_blk {α : Type} (step : α → G String) (st : St) (a : α) : String :=
  match step a st with
  | .ok (s, _) => r18_wrap s
  | .error _ => ""

/-- the state after generating one declaration alone from the state `st` -/
def r18_after {α : Type} (step : α → G String) (st : St) (a : α) : St :=
  match step a st with
  | .ok (_, s) => s
  | .error _ => st

theorem r18_runList_sim {α : Type} {K : St → Prop} {R : St → St → Prop} {step step' : α → G String}
    (h : ∀ a, r18_Sim K R (step a) (step' a)) :
    (l : List α) → r18_Sim K R (r18_runList step l) (r18_runList step' l)
  | [] => r18_Sim.pure _
  | a :: l => by
    unfold r18_runList
    exact r18_Sim.bind (h a) (fun _ => r18_Sim.bind (r18_runList_sim h l) (fun _ => r18_Sim.pure _))

theorem r18_selfIns_congr (api : API) {s t : St} (h1 : s.moduleId = t.moduleId)
    (h2 : s.reexportModuleId = t.reexportModuleId) (h3 : s.creatingReexport = t.creatingReexport) (q : String) :
    r18_selfIns api s q ↔ r18_selfIns api t q := by
  unfold r18_selfIns
  rw [r18_addsImport_congr api h1 h2 h3]

section Lists
variable {α : Type} (step : α → G String) (api : API) (fr : Bool)

/-- what the list lemmas need of the step function (supplied by the generic walk over `r18_Rel`) -/
def r18_StepSim : Prop :=
  ∀ b b' : St, r18_Base b b' → (∀ q, (q ∈ b.imports ↔ q ∈ b'.imports) ∨ r18_selfIns api b q) →
    ∀ a, r18_Sim (fun _ => True) (r18_Rel fr b b') (step a) (step a)

/-- states reachable while generating the list from `st`: nothing pending, same ids and generics as
    `st`, imports between those of `st` and the final set `A` -/
structure r18_Near (st : St) (A : List String) (u : St) : Prop where
  todos : u.todos = []
  cg : u.classGenerics = st.classGenerics
  mid : u.moduleId = st.moduleId
  rmid : u.reexportModuleId = st.reexportModuleId
  cr : u.creatingReexport = st.creatingReexport
  sub : ∀ q ∈ st.imports, q ∈ u.imports
  subO : ∀ q ∈ st.outside, q ∈ u.outside
  inA : ∀ q ∈ u.imports, q ∈ A

def r18_Good (st : St) (A : List String) (a : α) : Prop :=
  ∃ t s1, step a st = .ok (t, s1) ∧ (∀ q ∈ s1.imports, q ∈ A) ∧ s1.classGenerics = st.classGenerics

variable {step api fr}

theorem r18_Near.base {st u : St} {A : List String} (h : r18_Near st A u) : r18_Base st u :=
  ⟨h.mid.symm, h.rmid.symm, h.cr.symm⟩

theorem r18_Near.H {st u : St} {A : List String} (h : r18_Near st A u)
    (hself : ∀ q ∈ A, q ∈ st.imports ∨ r18_selfIns api st q) :
    ∀ q, (q ∈ st.imports ↔ q ∈ u.imports) ∨ r18_selfIns api st q := by
  intro q
  by_cases hq : q ∈ u.imports
  · rcases hself q (h.inA q hq) with h1 | h1
    · exact Or.inl ⟨fun _ => hq, fun _ => h1⟩
    · exact Or.inr h1
  · exact Or.inl ⟨fun h1 => absurd (h.sub q h1) hq, fun h1 => absurd h1 hq⟩

theorem r18_Near.H' {st u : St} {A : List String} (h : r18_Near st A u)
    (hself : ∀ q ∈ A, q ∈ st.imports ∨ r18_selfIns api st q) :
    ∀ q, (q ∈ u.imports ↔ q ∈ st.imports) ∨ r18_selfIns api u q := by
  intro q
  rcases h.H hself q with h1 | h1
  · exact Or.inl h1.symm
  · exact Or.inr ((r18_selfIns_congr api h.mid h.rmid h.cr q).2 h1)

/-- imports and the set of outside classes only grow -/
theorem r18_runList_mono (hS : r18_StepSim step api fr) (l : List α) (u : St) (t : String) (u1 : St)
    (h : r18_runList step l u = .ok (t, u1)) :
    (∀ q ∈ u.imports, q ∈ u1.imports) ∧ (∀ q ∈ u.outside, q ∈ u1.outside) := by
  have hs := r18_runList_sim (hS u u ⟨rfl, rfl, rfl⟩ (fun _ => Or.inl Iff.rfl)) l
  obtain ⟨s1', h', hR⟩ := hs.sim u u t u1 (r18_Rel.init rfl rfl) h trivial
  obtain ⟨I, O, g1, _, g3, _⟩ := hR.grow
  exact ⟨fun q hq => (g1 q).2 (Or.inl hq), fun q hq => (g3 q).2 (Or.inl hq)⟩

theorem r18_step_mono (hS : r18_StepSim step api fr) (a : α) (u : St) (t : String) (u1 : St)
    (h : step a u = .ok (t, u1)) :
    (∀ q ∈ u.imports, q ∈ u1.imports) ∧ (∀ q ∈ u.outside, q ∈ u1.outside) := by
  obtain ⟨s1', h', hR⟩ := (hS u u ⟨rfl, rfl, rfl⟩ (fun _ => Or.inl Iff.rfl) a).sim u u t u1
    (r18_Rel.init rfl rfl) h trivial
  obtain ⟨I, O, g1, _, g3, _⟩ := hR.grow
  exact ⟨fun q hq => (g1 q).2 (Or.inl hq), fun q hq => (g3 q).2 (Or.inl hq)⟩

/-- Lemma B: every declaration of a successful run can also be generated alone from the initial state -/
theorem r18_good_of_run (hS : r18_StepSim step api fr) (hK : ∀ a, Keeps (step a)) {st : St} {A : List String}
    (hst : st.todos = []) (hself : ∀ q ∈ A, q ∈ st.imports ∨ r18_selfIns api st q) :
    (fs : List α) → (∀ f ∈ fs, ∀ t s, step f st = .ok (t, s) → s.classGenerics = st.classGenerics) →
    ∀ (u : St), r18_Near st A u → ∀ (t : String) (u1 : St), r18_runList step fs u = .ok (t, u1) →
    (∀ q ∈ u1.imports, q ∈ A) → ∀ f ∈ fs, r18_Good step st A f
  | [], _, _, _, _, _, _, _ => by simp
  | f :: fs, hcg, u, hn, t, u1, h, hA => by
    unfold r18_runList at h
    obtain ⟨tf, uf, h1, h2⟩ := G_bind_ok h
    obtain ⟨rest, u1', h3, h4⟩ := G_bind_ok h2
    obtain ⟨_, hu⟩ := G_pure_ok h4
    subst hu
    have hmono := r18_runList_mono hS fs uf rest u1 h3
    have hmono1 := r18_step_mono hS f u tf uf h1
    -- transfer the step to the initial state
    obtain ⟨sf, h1', hR⟩ := (hS u st ⟨hn.mid, hn.rmid, hn.cr⟩ (hn.H' hself) f).sim u st tf uf
      (r18_Rel.init (by rw [hn.todos, hst]) hn.cg) h1 trivial
    obtain ⟨I, O, g1, g2, g3, g4⟩ := hR.grow
    have hsfcg : sf.classGenerics = st.classGenerics := hcg f (by simp) tf sf h1'
    have hsfA : ∀ q ∈ sf.imports, q ∈ A := by
      intro q hq
      rcases (g2 q).1 hq with h' | h'
      · exact hn.inA q (hn.sub q h')
      · exact hA q (hmono.1 q ((g1 q).2 (Or.inr h')))
    have hgood : r18_Good step st A f := ⟨tf, sf, h1', hsfA, hsfcg⟩
    have hnf : r18_Near st A uf :=
      ⟨hK f u hn.todos tf uf h1, (hR.cg.trans hsfcg), hR.mid.trans hn.mid, hR.rmid.trans hn.rmid,
        hR.cr.trans hn.cr, fun q hq => hmono1.1 q (hn.sub q hq), fun q hq => hmono1.2 q (hn.subO q hq),
        fun q hq => hA q (hmono.1 q hq)⟩
    have ih := r18_good_of_run hS hK hst hself fs (fun f' hf' => hcg f' (by simp [hf'])) uf hnf rest u1 h3 hA
    intro f' hf'
    rcases List.mem_cons.1 hf' with rfl | hf'
    · exact hgood
    · exact ih f' hf'

/-- Lemma A: any list of declarations that can be generated alone from `st` can be generated in a row,
    each with the block it has alone -/
theorem r18_run_of_good (hS : r18_StepSim step api fr) (hK : ∀ a, Keeps (step a)) {st : St} {A : List String}
    (hst : st.todos = []) (hself : ∀ q ∈ A, q ∈ st.imports ∨ r18_selfIns api st q) :
    (gs : List α) → (∀ g ∈ gs, r18_Good step st A g) → ∀ (u : St), r18_Near st A u →
    ∃ u1, r18_runList step gs u = .ok (String.join (gs.map (r18_blk step st)), u1) ∧ r18_Near st A u1 ∧
      (∀ q, q ∈ u1.imports ↔ q ∈ u.imports ∨ ∃ g ∈ gs, q ∈ (r18_after step st g).imports) ∧
      (∀ q, q ∈ u1.outside ↔ q ∈ u.outside ∨ ∃ g ∈ gs, q ∈ (r18_after step st g).outside) ∧
      (st.imports.Nodup → u.imports.Nodup → u1.imports.Nodup)
  | [], _, u, hn => ⟨u, rfl, hn, by simp, by simp, fun _ h => h⟩
  | g :: gs, hg, u, hn => by
    obtain ⟨tg, sg, h1, hsgA, hsgcg⟩ := hg g (by simp)
    obtain ⟨ug, h1', hR⟩ := (hS st u hn.base (hn.H hself) g).sim st u tg sg
      (r18_Rel.init (by rw [hn.todos, hst]) hn.cg.symm) h1 trivial
    obtain ⟨I, O, g1, g2, g3, g4⟩ := hR.grow
    have hmono1 := r18_step_mono hS g u tg ug h1'
    have hng : r18_Near st A ug :=
      ⟨hK g u hn.todos tg ug h1', (hR.cg.symm.trans hsgcg), hR.mid'.trans hn.mid, hR.rmid'.trans hn.rmid,
        hR.cr'.trans hn.cr, fun q hq => hmono1.1 q (hn.sub q hq), fun q hq => hmono1.2 q (hn.subO q hq),
        fun q hq => by
          rcases (g2 q).1 hq with h' | h'
          · exact hn.inA q h'
          · exact hsgA q ((g1 q).2 (Or.inr h'))⟩
    obtain ⟨u1, h2, hn1, i1, o1, nd1⟩ := r18_run_of_good hS hK hst hself gs (fun g' hg' => hg g' (by simp [hg'])) ug hng
    have hblk : r18_blk step st g = r18_wrap tg := by unfold r18_blk; rw [h1]
    have haft : r18_after step st g = sg := by unfold r18_after; rw [h1]
    refine ⟨u1, ?_, hn1, ?_, ?_, ?_⟩
    · unfold r18_runList
      rw [bind_apply, h1']
      dsimp only
      rw [bind_apply, h2]
      rw [List.map_cons, String.join_cons, hblk]
      rfl
    · intro q
      rw [i1 q, g2 q]
      simp only [List.mem_cons, exists_eq_or_imp, haft]
      rw [g1 q]
      constructor
      · rintro ((h' | h') | h')
        · exact Or.inl h'
        · exact Or.inr (Or.inl (Or.inr h'))
        · exact Or.inr (Or.inr h')
      · rintro (h' | (h' | h') | h')
        · exact Or.inl (Or.inl h')
        · exact Or.inl (Or.inl (hn.sub q h'))
        · exact Or.inl (Or.inr h')
        · exact Or.inr h'
    · intro q
      rw [o1 q, g4 q]
      simp only [List.mem_cons, exists_eq_or_imp, haft]
      rw [g3 q]
      constructor
      · rintro ((h' | h') | h')
        · exact Or.inl h'
        · exact Or.inr (Or.inl (Or.inr h'))
        · exact Or.inr (Or.inr h')
      · rintro (h' | (h' | h') | h')
        · exact Or.inl (Or.inl h')
        · exact Or.inl (Or.inl (hn.subO q h'))
        · exact Or.inl (Or.inr h')
        · exact Or.inr h'
    · intro hnd hu
      exact nd1 hnd (hR.nodup' hu)

/-- permutation of a list of declarations: the same blocks in the new order, the same sets of
    imports and outside classes -/
theorem r18_runList_perm (hS : r18_StepSim step api fr) (hK : ∀ a, Keeps (step a)) {st : St}
    (hst : st.todos = []) {fs fs' : List α} (hp : fs ~ fs') {t : String} {s1 : St}
    (hrun : r18_runList step fs st = .ok (t, s1))
    (hself : ∀ q ∈ s1.imports, q ∈ st.imports ∨ r18_selfIns api st q)
    (hcg : ∀ f ∈ fs, ∀ t s, step f st = .ok (t, s) → s.classGenerics = st.classGenerics) :
    t = String.join (fs.map (r18_blk step st)) ∧
    ∃ s1', r18_runList step fs' st = .ok (String.join (fs'.map (r18_blk step st)), s1') ∧
      (∀ q, q ∈ s1'.imports ↔ q ∈ s1.imports) ∧ (∀ q, q ∈ s1'.outside ↔ q ∈ s1.outside) ∧
      (st.imports.Nodup → s1.imports ~ s1'.imports) := by
  have hmono := r18_runList_mono hS fs st t s1 hrun
  have hn : r18_Near st s1.imports st := ⟨hst, rfl, rfl, rfl, rfl, fun _ h => h, fun _ h => h, hmono.1⟩
  have hgood := r18_good_of_run hS hK hst hself fs hcg st hn t s1 hrun (fun _ h => h)
  obtain ⟨u1, h1, _, i1, o1, nd1⟩ := r18_run_of_good hS hK hst hself fs hgood st hn
  rw [hrun] at h1
  simp only [Except.ok.injEq, Prod.mk.injEq] at h1
  obtain ⟨ht, hs⟩ := h1
  subst hs
  obtain ⟨u2, h2, _, i2, o2, nd2⟩ := r18_run_of_good hS hK hst hself fs'
    (fun g hg => hgood g (hp.mem_iff.2 hg)) st hn
  refine ⟨ht, u2, h2, ?_, ?_, ?_⟩
  · intro q
    rw [i1 q, i2 q]
    simp only [hp.mem_iff]
  · intro q
    rw [o1 q, o2 q]
    simp only [hp.mem_iff]
  · intro hnd
    refine (List.perm_ext_iff_of_nodup (nd1 hnd hnd) (nd2 hnd hnd)).2 ?_
    intro q
    rw [i1 q, i2 q]
    simp only [hp.mem_iff]

end Lists

/-! ### instances of the list lemmas -/

theorem r18_fnStep_sim {api : API} {safe : Bool} (inRe : Bool) :
    r18_StepSim (r18_fnStep ⟨api, safe⟩ inRe) api true := by
  intro b b' hb H f
  unfold r18_fnStep
  split
  · exact r18_createFunctionString_sim (r18_rel_prims hb H) f "" false inRe
  · exact r18_Sim.pure _

theorem r18_clsStep_sim {api : API} {safe : Bool} (inRe : Bool) :
    r18_StepSim (r18_clsStep ⟨api, safe⟩ inRe) api false := by
  intro b b' hb H c
  unfold r18_clsStep
  split
  · exact r18_createClassString_sim (r18_rel_primsC hb H) _ _ (Nat.le_refl _) c "" inRe
  · exact r18_Sim.pure _

theorem r18_fnStep_keeps (env : Env) (inRe : Bool) (f : Function) : Keeps (r18_fnStep env inRe f) := by
  unfold r18_fnStep
  exact Keeps.ite (createFunctionString_keeps_mk env f "" false inRe) (Keeps.pure _)

theorem r18_clsStep_keeps (env : Env) (inRe : Bool) (c : Class) : Keeps (r18_clsStep env inRe c) := by
  unfold r18_clsStep
  exact Keeps.ite (createClassString_keeps_mk env _ c "" inRe) (Keeps.pure _)

/-- top-level functions leave `classGenerics` alone -/
theorem r18_fnStep_cg {api : API} {safe : Bool} (inRe : Bool) (f : Function) (st : St) (t : String) (s : St)
    (h : r18_fnStep ⟨api, safe⟩ inRe f st = .ok (t, s)) : s.classGenerics = st.classGenerics := by
  obtain ⟨s', _, hR⟩ := (r18_fnStep_sim (api := api) (safe := safe) inRe st st ⟨rfl, rfl, rfl⟩
    (fun _ => Or.inl Iff.rfl) f).sim st st t s (r18_Rel.init rfl rfl) h trivial
  exact hR.cgb rfl

/-- parameter lists leave `classGenerics` alone -/
theorem r18_createParameterString_cg {api : API} {safe : Bool} (ps : List Parameter) (indent : String) (im : Bool)
    (st : St) (t : String) (s : St) (h : createParameterString ⟨api, safe⟩ ps indent im st = .ok (t, s)) :
    s.classGenerics = st.classGenerics := by
  obtain ⟨s', _, hR⟩ := (r18_createParameterString_sim
    (r18_rel_prims (fr := true) (b := st) (b' := st) (api := api) (safe := safe) ⟨rfl, rfl, rfl⟩
      (fun _ => Or.inl Iff.rfl)) ps indent im).sim st st t s (r18_Rel.init rfl rfl) h trivial
  exact hR.cgb rfl

/-- the class body puts the generics of the surrounding class back: whatever the type parameters, the
    members, the inner classes and the inlined private superclasses do to `classGenerics`, the last
    state change before the `endclass` entry restores the value read after the constructor parameters -/
theorem r18_classBody_restores_generics (env : Env) (fuel : Nat) (c : Class) (indent : String) (st : St) :
    wp (classBody env fuel c indent) (fun _ s => s.classGenerics = st.classGenerics) st := by
  obtain ⟨api, safe⟩ := env
  unfold classBody
  simp only [wp_bind, wp_logEmit]
  generalize hs0 : ({ st with log := st.log ++ [("class", c.id)] } : St) = s0
  have e0 : s0.classGenerics = st.classGenerics := by rw [← hs0]
  refine wp_conseq (Q := fun _ s1 => s1.classGenerics = st.classGenerics) ?_ ?_
  · rw [wp_ite]
    refine ⟨fun _ => wp_pure.2 e0, fun _ => ?_⟩
    rw [wp_bind]
    split
    · intro p s1 h1
      rw [wp_pure]
      exact (r18_createParameterString_cg _ _ _ _ _ _ h1).trans e0
    · simp only [wp_pure]
      exact e0
  intro ci s1 h1
  rw [wp_get, wp_modify]
  refine wp_conseq (wp_true _ _) ?_; intro vi s2 _
  refine wp_conseq (wp_true _ _) ?_; intro t1 s3 _
  refine wp_conseq (wp_true _ _) ?_; intro ⟨attrText, attrNames⟩ s4 _
  refine wp_conseq (wp_true _ _) ?_; intro innerText s5 _
  refine wp_conseq (wp_true _ _) ?_; intro ⟨methodText, methodNames⟩ s6 _
  refine wp_conseq (wp_true _ _) ?_; intro ⟨superInfo, superMethodsText, nNames⟩ s7 _
  simp only [wp_condTodo, wp_bind]
  refine wp_conseq (wp_true _ _) ?_; intro t2 s8 _
  simp only [wp_modify, wp_logEmit, wp_ite, wp_pure, h1]
  simp

/-- a successful run of `createClassString` ends with the `classGenerics` it started with (the early
    `moved` return does not touch them; the body restores them, so no induction on the fuel is needed) -/
theorem r18_createClassString_restores_generics (env : Env) (fuel : Nat) (c : Class) (indent : String) (inRe : Bool)
    (st : St) : wp (createClassString env fuel c indent inRe) (fun _ s => s.classGenerics = st.classGenerics) st := by
  cases fuel with
  | zero => rw [createClassString]; exact wp_throwG.2 trivial
  | succ fuel =>
    rw [createClassString_eq]
    simp only [wp_ite, wp_bind]
    refine ⟨fun _ => ?_, fun _ => r18_classBody_restores_generics env fuel c indent st⟩
    refine wp_conseq (hasNodeShorterReexport_wp _ _ _ st) ?_; intro b s1 ⟨_, rs, h2⟩
    have e1 : s1.classGenerics = st.classGenerics := by rw [h2]
    refine ⟨fun _ => ?_, fun _ => ?_⟩
    · simp only [wp_logEmit, wp_pure]
      exact e1
    · exact wp_conseq (r18_classBody_restores_generics env fuel c indent s1) fun _ _ h => h.trans e1

/-- top-level classes leave `classGenerics` as they found them -/
theorem r18_clsStep_cg (env : Env) (inRe : Bool) (c : Class) (st : St) (t : String) (s : St)
    (h : r18_clsStep env inRe c st = .ok (t, s)) : s.classGenerics = st.classGenerics := by
  unfold r18_clsStep at h
  split at h
  · exact r18_createClassString_restores_generics env _ c "" inRe st t s h
  · obtain ⟨_, rfl⟩ := G_pure_ok h
    rfl

/-- the block of a top-level function / class, generated alone from `st` -/
def r18_functionBlock (env : Env) (inRe : Bool) (st : St) (f : Function) : String :=
  r18_blk (r18_fnStep env inRe) st f
def r18_classBlock (env : Env) (inRe : Bool) (st : St) (c : Class) : String :=
  r18_blk (r18_clsStep env inRe) st c

/-! ### adding classes at the end of the class table -/

/-- the matching predicates of the two class lookups -/
def r18_connected (api : API) (q : String) (c : Class) : Bool :=
  isPathConnectedToClass api.reexportMap (replaceChar q '.' "/") c.id
def r18_exactMatch (q : String) (c : Class) : Bool := c.id == replaceChar q '.' "/"

theorem r18_resolve_append (api : API) (ms : List Module) (cs : List Class) (q : String)
    (h : (r18_resolve api q).2 = true ∨ ∀ c ∈ cs, r18_connected api q c = false) :
    r18_resolve { api with modules := ms, classes := api.classes ++ cs } q = r18_resolve api q := by
  have key : r18_importLookup { api with modules := ms, classes := api.classes ++ cs } (replaceChar q '.' "/")
      = r18_importLookup api (replaceChar q '.' "/") := by
    unfold r18_importLookup
    dsimp only
    rw [List.find?_append]
    rcases h with h | h
    · cases hf : find? (fun c => isPathConnectedToClass api.reexportMap (replaceChar q '.' "/") c.id) api.classes with
      | some c => rfl
      | none =>
        exfalso
        unfold r18_resolve r18_importLookup at h
        rw [hf] at h
        simp at h
    · have : find? (fun c => isPathConnectedToClass api.reexportMap (replaceChar q '.' "/") c.id) cs = none := by
        rw [List.find?_eq_none]
        intro c hc
        have := h c hc
        unfold r18_connected at this
        rw [this]; simp
      rw [this, Option.or_none]
  unfold r18_resolve
  rw [key]

theorem r18_getClass_append (api : API) (ms : List Module) (cs : List Class) (safe : Bool) (q : String) (c : Class)
    (hx : ∀ c' ∈ cs, r18_exactMatch q c' = true → ∃ c0 ∈ api.classes, r18_exactMatch q c0 = true)
    (h : getClassInPackage ⟨api, safe⟩ q = .ok c) :
    getClassInPackage ⟨{ api with modules := ms, classes := api.classes ++ cs }, safe⟩ q = .ok c := by
  unfold getClassInPackage at h ⊢
  dsimp only at h ⊢
  rw [List.find?_append, List.find?_append]
  cases h1 : find? (fun c => c.id == replaceChar q '.' "/") api.classes with
  | some c1 =>
    rw [h1] at h
    exact h
  | none =>
    rw [h1] at h
    have hcs : find? (fun c => c.id == replaceChar q '.' "/") cs = none := by
      rw [List.find?_eq_none]
      intro c' hc' hm
      obtain ⟨c0, hc0, hm0⟩ := hx c' hc' hm
      have := List.find?_eq_none.1 h1 c0 hc0
      exact this hm0
    rw [hcs]
    dsimp only [Option.or] at h ⊢
    split at h
    · rename_i c2 h2
      rw [h2]
      exact h
    · cases h

instance r18_selfIns_dec (api : API) (s : St) (q : String) : Decidable (r18_selfIns api s q) := by
  unfold r18_selfIns; infer_instance

/-- the text of a run (`"<error>"` for a failed one), for closed examples -/
def r18_textOf {α : Type} (r : Except PyErr (String × α)) : String :=
  match r with
  | .ok (t, _) => t
  | .error _ => "<error>"

theorem r18_resolve_of_lookup {api api' : API} (hrm : api'.reexportMap = api.reexportMap)
    (h : ∀ path, r18_importLookup api' path = r18_importLookup api path) (q : String) :
    r18_resolve api' q = r18_resolve api q := by
  unfold r18_resolve
  rw [h, hrm]

/-! ### the module level -/

def r18_inRe (env : Env) (m : Module) : Bool := (shortestPublicReexport env.api.reexportMap m.name "" true).1 != ""

def r18_enumsText (env : Env) (m : Module) : String :=
  String.join (m.enums.map fun e => "\n" ++ createEnumString env e ++ "\n")

theorem r18_createModuleString_ok (env : Env) (m : Module) (s : St) (r : (String × String) × St) :
    createModuleString env m s = .ok r ↔
      ∃ t1 sa, createFunctions env (r18_inRe env m) m.functions s = .ok (t1, sa) ∧
      ∃ t2 sb, createClasses env (r18_inRe env m) m.classes sa = .ok (t2, sb) ∧
        r = ((moduleDoc m ++ packageHeader env (modulePackage env m) ++ p08_importsText env.safe sb.imports
              ++ t1 ++ t2 ++ r18_enumsText env m, modulePackage env m),
             { sb with log := sb.log ++ m.enums.map fun e => ("enum", e.id) }) := by
  unfold createModuleString r18_inRe modulePackage moduleDoc r18_enumsText
  rcases hsp : shortestPublicReexport env.api.reexportMap m.name "" true with ⟨sp, al⟩
  simp only [bind_ok, pure_ok, modify_ok, p08_createImportsString_eq, Except.ok.injEq]
  constructor
  · rintro ⟨a, s1, h1, a1, s11, h2, a2, s12, h3, a3, s13, h4, rfl⟩
    simp only [Prod.mk.injEq] at h3 h4
    obtain ⟨_, rfl⟩ := h3
    obtain ⟨rfl, rfl⟩ := h4
    exact ⟨a, s1, h1, a1, s11, h2, rfl⟩
  · rintro ⟨t1, sa, h1, t2, sb, h2, rfl⟩
    exact ⟨t1, sa, h1, t2, sb, h2, _, _, rfl, _, _, rfl, rfl⟩

/-- the state in which `callGenerator` starts the module -/
def r18_modStart (id : String) (s : St) : St :=
  let s1 : St := { s with log := s.log ++ [("module", id)] }
  let s2 : St := if s1.creatingReexport then { s1 with reexportModuleId := id } else { s1 with moduleId := id }
  { s2 with reexportModuleId := "", classGenerics := [], imports := [], todos := [] }

theorem r18_callGenerator_ok (env : Env) (m : Module) (s : St) (r : (String × String) × St) :
    callGenerator env m s = .ok r ↔ createModuleString env m (r18_modStart m.id s) = .ok r := by
  unfold callGenerator setModuleId r18_modStart
  simp only [bind_ok, logEmit_ok, modify_ok]
  constructor
  · rintro ⟨a1, s1, h1, a2, s2, h2, a3, s3, h3, h⟩
    simp only [Prod.mk.injEq] at h1 h2 h3
    obtain ⟨_, rfl⟩ := h1
    obtain ⟨_, rfl⟩ := h2
    obtain ⟨_, rfl⟩ := h3
    exact h
  · intro h
    exact ⟨_, _, rfl, _, _, rfl, _, _, rfl, h⟩

section ModuleReorder
variable {α : Type} {step : α → G String} {api : API} {fr : Bool}

theorem r18_runList_frame (hS : r18_StepSim step api fr) (l : List α) (u : St) (t : String) (u1 : St)
    (h : r18_runList step l u = .ok (t, u1)) :
    u1.moduleId = u.moduleId ∧ u1.reexportModuleId = u.reexportModuleId ∧
    u1.creatingReexport = u.creatingReexport ∧ (fr = true → u1.classGenerics = u.classGenerics) ∧
    (u.imports.Nodup → u1.imports.Nodup) := by
  have hs := r18_runList_sim (hS u u ⟨rfl, rfl, rfl⟩ (fun _ => Or.inl Iff.rfl)) l
  obtain ⟨s1', h', hR⟩ := hs.sim u u t u1 (r18_Rel.init rfl rfl) h trivial
  exact ⟨hR.mid, hR.rmid, hR.cr, hR.cgb, hR.nodup⟩

end ModuleReorder

/-- reordering the functions and classes of a module -/
theorem r18_module_reorder (api : API) (safe : Bool) (m : Module) (fs' : List Function) (cs' : List Class)
    (hpf : m.functions ~ fs') (hpc : m.classes ~ cs') (st : St) (text pkg : String) (st1 : St)
    (hrun : callGenerator ⟨api, safe⟩ m st = .ok ((text, pkg), st1))
    (hself : ∀ q ∈ st1.imports, r18_selfIns api (r18_modStart m.id st) q) :
    ∃ (fb : Function → String) (cb : Class → String) (st1' : St),
      text = moduleDoc m ++ packageHeader ⟨api, safe⟩ pkg ++ p08_importsText safe st1.imports
        ++ String.join (m.functions.map fb) ++ String.join (m.classes.map cb) ++ r18_enumsText ⟨api, safe⟩ m ∧
      callGenerator ⟨api, safe⟩ { m with functions := fs', classes := cs' } st =
        .ok ((moduleDoc m ++ packageHeader ⟨api, safe⟩ pkg ++ p08_importsText safe st1.imports
          ++ String.join (fs'.map fb) ++ String.join (cs'.map cb) ++ r18_enumsText ⟨api, safe⟩ m, pkg), st1') := by
  rw [r18_callGenerator_ok, r18_createModuleString_ok] at hrun
  obtain ⟨t1, sa, h1, t2, sb, h2, hr⟩ := hrun
  simp only [Prod.mk.injEq] at hr
  obtain ⟨⟨rfl, rfl⟩, rfl⟩ := hr
  dsimp only at hself ⊢
  generalize hs0 : r18_modStart m.id st = s0 at h1 hself
  have e0t : s0.todos = [] := by rw [← hs0]; rfl
  have e0i : s0.imports = [] := by rw [← hs0]; rfl
  generalize hinre : r18_inRe ⟨api, safe⟩ m = inRe at h1 h2
  rw [r18_createFunctions_eq] at h1
  rw [r18_createClasses_eq] at h2
  have fF := r18_runList_frame (r18_fnStep_sim (api := api) (safe := safe) inRe) _ _ _ _ h1
  have fC := r18_runList_frame (r18_clsStep_sim (api := api) (safe := safe) inRe) _ _ _ _ h2
  have monoC := r18_runList_mono (r18_clsStep_sim (api := api) (safe := safe) inRe) _ _ _ _ h2
  have sat : sa.todos = [] := by
    have := createFunctions_keeps ⟨api, safe⟩ inRe m.functions s0 e0t
    rw [r18_createFunctions_eq] at this
    exact this _ _ h1
  have s0nd : s0.imports.Nodup := by rw [e0i]; exact List.nodup_nil
  -- the functions
  obtain ⟨ht1, sa', h1', i1, _, nd1⟩ := r18_runList_perm (r18_fnStep_sim inRe) (r18_fnStep_keeps _ inRe) e0t hpf h1
    (fun q hq => Or.inr (hself q (monoC.1 q hq))) (fun f _ t s h => r18_fnStep_cg inRe f s0 t s h)
  have fF' := r18_runList_frame (r18_fnStep_sim (api := api) (safe := safe) inRe) _ _ _ _ h1'
  have sat' : sa'.todos = [] := by
    have := createFunctions_keeps ⟨api, safe⟩ inRe fs' s0 e0t
    rw [r18_createFunctions_eq] at this
    exact this _ _ h1'
  -- the classes, from `sa`
  obtain ⟨ht2, sb2, h2', i2, _, nd2⟩ := r18_runList_perm (r18_clsStep_sim inRe) (r18_clsStep_keeps _ inRe) sat hpc h2
    (fun q hq => Or.inr ((r18_selfIns_congr api fF.1 fF.2.1 fF.2.2.1 q).2 (hself q hq)))
    (fun c _ t s h => r18_clsStep_cg _ inRe c sa t s h)
  -- the classes, from `sa'`
  have hb : r18_Base sa sa' := ⟨fF.1.trans fF'.1.symm, fF.2.1.trans fF'.2.1.symm, fF.2.2.1.trans fF'.2.2.1.symm⟩
  obtain ⟨sb', h2'', hR⟩ := (r18_runList_sim (r18_clsStep_sim (api := api) (safe := safe) inRe sa sa' hb
    (fun q => Or.inl (i1 q).symm)) cs').sim sa sa' _ sb2
    (r18_Rel.init (sat.trans sat'.symm) ((fF.2.2.2.1 rfl).trans (fF'.2.2.2.1 rfl).symm)) h2' trivial
  have hperm : sb.imports ~ sb'.imports := by
    have nda : sa.imports.Nodup := fF.2.2.2.2 s0nd
    have nda' : sa'.imports.Nodup := ((nd1 s0nd).nodup_iff).1 nda
    have p1 : sb.imports ~ sb2.imports := nd2 nda
    refine p1.trans ((List.perm_ext_iff_of_nodup (p1.nodup_iff.1 (fC.2.2.2.2 nda)) (hR.nodup' nda')).2 ?_)
    obtain ⟨I, O, g1, g2, _, _⟩ := hR.grow
    intro q
    rw [g1, g2, i1]
  refine ⟨r18_blk (r18_fnStep ⟨api, safe⟩ inRe) s0, r18_blk (r18_clsStep ⟨api, safe⟩ inRe) sa,
    { sb' with log := sb'.log ++ m.enums.map fun e => ("enum", e.id) }, ?_, ?_⟩
  · rw [ht1, ht2]
  · rw [r18_callGenerator_ok, r18_createModuleString_ok]
    refine ⟨String.join (fs'.map (r18_blk (r18_fnStep ⟨api, safe⟩ inRe) s0)), sa', ?_,
      String.join (cs'.map (r18_blk (r18_clsStep ⟨api, safe⟩ inRe) sa)), sb', ?_, ?_⟩
    · show createFunctions ⟨api, safe⟩ (r18_inRe ⟨api, safe⟩ m) fs' (r18_modStart m.id st) = _
      rw [hinre, hs0, r18_createFunctions_eq]
      exact h1'
    · show createClasses ⟨api, safe⟩ (r18_inRe ⟨api, safe⟩ m) cs' sa' = _
      rw [hinre, r18_createClasses_eq]
      exact h2''
    · rw [p08_importsText_perm safe hperm]
      rfl

end StubGen
