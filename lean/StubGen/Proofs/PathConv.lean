/-
`convertPath` (repair 8e9a214): a dotted path is converted segment by segment.
-/
import StubGen.Proofs.Lexical

namespace StubGen

theorem pc_convertName_noDot (s : String) (safe cls : Bool) (h : '.' ∉ s.toList) :
    '.' ∉ (convertName s safe cls).toList := by
  cases safe with
  | false => rw [C09.convert_off]; exact h
  | true =>
    by_cases hs : s = "_"
    · subst hs; cases cls <;> decide
    · intro hm
      have hl := C09.convert_on_letters s cls hs
      have h1 : Char.toLower '.' ∈ (convertName s true cls).toList.map Char.toLower := List.mem_map_of_mem hm
      rw [hl] at h1
      obtain ⟨x, hx, he⟩ := List.mem_map.mp h1
      have hx' : x ∈ s.toList := (List.mem_filter.mp hx).1
      have : x = '.' := (lx_toLower_eq_dot x).mp (by rw [he]; decide)
      subst this
      exact h hx'

theorem pc_segment_noDot (p s : String) (h : s ∈ pySplit p '.') : '.' ∉ s.toList := by
  unfold pySplit at h
  obtain ⟨q, hq, rfl⟩ := List.mem_map.mp h
  rw [String.toList_ofList]
  exact mem_splitOnChar_not_sep '.' p.toList q hq

/-- the segments of the converted path ARE the converted segments -/
theorem pc_split_convertPath (p : String) (safe : Bool) :
    pySplit (convertPath p safe) '.' = (pySplit p '.').map (fun s => convertName s safe) := by
  unfold convertPath
  have : ("." : String) = String.singleton '.' := by decide
  rw [this]
  apply lx_pySplit_joinWith
  · intro e
    exact lx_pySplit_ne_nil p '.' (List.map_eq_nil_iff.mp e)
  · intro x hx
    obtain ⟨s, hs, rfl⟩ := List.mem_map.mp hx
    exact pc_convertName_noDot s safe false (pc_segment_noDot p s hs)

theorem pc_convertPath_off (p : String) : convertPath p false = p := by
  unfold convertPath
  have : (pySplit p '.').map (fun s => convertName s false) = pySplit p '.' := by
    conv => rhs; rw [← List.map_id (pySplit p '.')]
    apply List.map_congr_left
    intro s _
    rw [C09.convert_off]; rfl
  rw [this]
  -- joining the segments of a split gives the string back
  apply String.ext_iff.mpr
  rw [lx_joinWith_toList]
  unfold pySplit
  rw [List.map_map]
  have : (String.toList ∘ String.ofList) = id := by funext l; simp
  rw [this, List.map_id]
  exact lx_joinL_split p.toList

/-- a path without a dot is a single name -/
theorem pc_convertPath_single (s : String) (safe : Bool) (h : '.' ∉ s.toList) : convertPath s safe = convertName s safe := by
  unfold convertPath
  rw [lx_pySplit_of_not_mem '.' s h]
  rfl

/-- the two call shapes of `_convert_name_to_convention` in the model are the one function `convertAny` -/
theorem pc_convertAny_path (p : String) (safe : Bool) : convertAny p safe false = convertPath p safe := by
  unfold convertAny
  split
  · rfl
  · rename_i h
    rw [pc_convertPath_single p safe (by simpa using h)]

theorem pc_convertAny_name (s : String) (safe cls : Bool) (h : '.' ∉ s.toList) :
    convertAny s safe cls = convertName s safe cls := by
  unfold convertAny
  rw [if_neg (by simpa using h)]

end StubGen
