/-
`dataclasses.asdict` + `json.dump` of a docstring type fails only on an `EnumType` (frozenset); the docstring parser
never produces one.
-/
import StubGen.Model.ApiDict
import StubGen.Proofs.DocTypes

namespace StubGen

mutual
def AType.noEnum : AType → Bool
  | .enum _ => false
  | .namedSeq _ _ ts => AType.noEnumL ts
  | .union ts => AType.noEnumL ts
  | .list ts => AType.noEnumL ts
  | .set ts => AType.noEnumL ts
  | .tuple ts => AType.noEnumL ts
  | .dict k v => k.noEnum && v.noEnum
  | .callable ps r => AType.noEnumL ps && r.noEnum
  | .final t => t.noEnum
  | .typeVarB _ u => u.noEnum
  | _ => true
def AType.noEnumL : List AType → Bool
  | [] => true
  | t :: ts => t.noEnum && AType.noEnumL ts
end

theorem noEnumL_append (a b : List AType) : AType.noEnumL (a ++ b) = (AType.noEnumL a && AType.noEnumL b) := by
  induction a with
  | nil => simp [AType.noEnumL]
  | cons t ts ih => simp [AType.noEnumL, ih, Bool.and_assoc]

mutual
theorem asdict_ok_of_noEnum : ∀ (t : AType), t.noEnum = true → ∃ j, t.asdict = .ok j
  | .unknown, _ => ⟨_, rfl⟩
  | .named _ _, _ => ⟨_, rfl⟩
  | .namedSeq n q ts, h => by
    simp only [AType.noEnum] at h
    obtain ⟨js, hjs⟩ := asdictL_ok_of_noEnum ts h
    simp only [AType.asdict, hjs, bind, Except.bind, pure, Except.pure]; exact ⟨_, rfl⟩
  | .enum _, h => by simp [AType.noEnum] at h
  | .boundary _ _ _ _ _, _ => ⟨_, rfl⟩
  | .union ts, h => by
    simp only [AType.noEnum] at h
    obtain ⟨js, hjs⟩ := asdictL_ok_of_noEnum ts h
    simp only [AType.asdict, hjs, bind, Except.bind, pure, Except.pure]; exact ⟨_, rfl⟩
  | .list ts, h => by
    simp only [AType.noEnum] at h
    obtain ⟨js, hjs⟩ := asdictL_ok_of_noEnum ts h
    simp only [AType.asdict, hjs, bind, Except.bind, pure, Except.pure]; exact ⟨_, rfl⟩
  | .set ts, h => by
    simp only [AType.noEnum] at h
    obtain ⟨js, hjs⟩ := asdictL_ok_of_noEnum ts h
    simp only [AType.asdict, hjs, bind, Except.bind, pure, Except.pure]; exact ⟨_, rfl⟩
  | .tuple ts, h => by
    simp only [AType.noEnum] at h
    obtain ⟨js, hjs⟩ := asdictL_ok_of_noEnum ts h
    simp only [AType.asdict, hjs, bind, Except.bind, pure, Except.pure]; exact ⟨_, rfl⟩
  | .dict k v, h => by
    simp only [AType.noEnum, Bool.and_eq_true] at h
    obtain ⟨jk, hk⟩ := asdict_ok_of_noEnum k h.1
    obtain ⟨jv, hv⟩ := asdict_ok_of_noEnum v h.2
    simp only [AType.asdict, hk, hv, bind, Except.bind, pure, Except.pure]; exact ⟨_, rfl⟩
  | .callable ps r, h => by
    simp only [AType.noEnum, Bool.and_eq_true] at h
    obtain ⟨js, hjs⟩ := asdictL_ok_of_noEnum ps h.1
    obtain ⟨jr, hr⟩ := asdict_ok_of_noEnum r h.2
    simp only [AType.asdict, hjs, hr, bind, Except.bind, pure, Except.pure]; exact ⟨_, rfl⟩
  | .literal _, _ => ⟨_, rfl⟩
  | .final t, h => by
    simp only [AType.noEnum] at h
    obtain ⟨j, hj⟩ := asdict_ok_of_noEnum t h
    simp only [AType.asdict, hj, bind, Except.bind, pure, Except.pure]; exact ⟨_, rfl⟩
  | .typeVar _, _ => ⟨_, rfl⟩
  | .typeVarB _ u, h => by
    simp only [AType.noEnum] at h
    obtain ⟨j, hj⟩ := asdict_ok_of_noEnum u h
    simp only [AType.asdict, hj, bind, Except.bind, pure, Except.pure]; exact ⟨_, rfl⟩
theorem asdictL_ok_of_noEnum : ∀ (ts : List AType), AType.noEnumL ts = true → ∃ js, AType.asdictL ts = .ok js
  | [], _ => ⟨_, rfl⟩
  | t :: ts, h => by
    simp only [AType.noEnumL, Bool.and_eq_true] at h
    obtain ⟨j, hj⟩ := asdict_ok_of_noEnum t h.1
    obtain ⟨js, hjs⟩ := asdictL_ok_of_noEnum ts h.2
    simp only [AType.asdictL, hj, hjs, bind, Except.bind, pure, Except.pure]; exact ⟨_, rfl⟩
end

theorem noEnum_any : AType.noEnum anyType = true := by decide
theorem noEnum_none : AType.noEnum noneType = true := by decide

theorem noEnum_headD (ts : List AType) (h : AType.noEnumL ts = true) : AType.noEnum (ts.headD anyType) = true := by
  cases ts with
  | nil => exact noEnum_any
  | cons a _ => simp only [AType.noEnumL, Bool.and_eq_true] at h; exact h.1

theorem noEnum_getD1 (ts : List AType) (h : AType.noEnumL ts = true) : AType.noEnum (ts.getD 1 anyType) = true := by
  match ts, h with
  | [], _ => exact noEnum_any
  | [_], _ => exact noEnum_any
  | _ :: b :: _, h =>
    simp only [AType.noEnumL, Bool.and_eq_true] at h
    exact h.2.1

theorem noEnumL_of_forall (ts : List AType) (h : ∀ t ∈ ts, t.noEnum = true) : AType.noEnumL ts = true := by
  induction ts with
  | nil => rfl
  | cons a as ih =>
    simp only [AType.noEnumL, Bool.and_eq_true]
    exact ⟨h a (by simp), ih (fun t ht => h t (by simp [ht]))⟩

theorem noEnum_nameTable (p n : String) : ((v13_nameTable.lookup p).getD (.named n p)).noEnum = true := by
  simp only [v13_nameTable, List.lookup]
  repeat' split
  all_goals rfl

theorem noEnum_subscriptType (p n : String) (types : List AType) (ht : AType.noEnumL types = true) :
    (v13_subscriptType p n types).noEnum = true := by
  have h1 := noEnum_headD types ht
  have h2 := noEnum_getD1 types ht
  unfold v13_subscriptType
  split
  · exact ht
  split
  · exact ht
  split
  · exact ht
  split
  · match types, ht with
    | [], _ => rfl
    | t :: rest, ht =>
      simp only [AType.noEnumL, Bool.and_eq_true] at ht
      have hr := noEnum_headD rest ht.2
      cases t <;> simp_all [AType.noEnum, AType.noEnumL]
  split
  · simp only [AType.noEnum, Bool.and_eq_true]; exact ⟨h1, h2⟩
  split
  · simp only [AType.noEnum, noEnumL_append, ht, AType.noEnumL, noEnum_none, Bool.and_self]
  · exact ht

theorem docType_noEnum_lt (k : Nat) : ∀ e : GExpr, sizeOf e < k → ∀ t, v13_docType e = some t → t.noEnum = true := by
  induction k with
  | zero => intro e h; exact absurd h (Nat.not_lt_zero _)
  | succ k ih =>
    intro e h t ht
    have hl : ∀ es : List GExpr, sizeOf es < k → AType.noEnumL (es.filterMap v13_docType) = true := by
      intro es hes
      apply noEnumL_of_forall
      intro x hx
      obtain ⟨e', he', hx'⟩ := List.mem_filterMap.mp hx
      exact ih e' (Nat.lt_trans (List.sizeOf_lt_of_mem he') hes) x hx'
    have hl' : ∀ es : List GExpr, sizeOf es < k →
        AType.noEnumL ((es.filter (fun e => !isOptionalMarker e)).filterMap v13_docType) = true := by
      intro es hes
      apply noEnumL_of_forall
      intro x hx
      obtain ⟨e', he', hx'⟩ := List.mem_filterMap.mp hx
      exact ih e' (Nat.lt_trans (List.sizeOf_lt_of_mem (List.mem_filter.mp he').1) hes) x hx'
    cases e with
    | name p n =>
      rw [v13_docType] at ht
      simp only [Option.some.injEq] at ht
      subst ht
      exact noEnum_nameTable p n
    | subscript p n slice =>
      cases slice with
      | tuple es =>
        rw [v13_docType] at ht
        simp only [Option.some.injEq] at ht
        subst ht
        exact noEnum_subscriptType p n _ (hl es (by simp at h; omega))
      | _ =>
        rw [v13_docType] at ht
        · simp only [Option.some.injEq] at ht
          subst ht
          apply noEnum_subscriptType
          apply noEnumL_of_forall
          intro x hx
          simp only [Option.mem_toList, Option.mem_def] at hx
          exact ih _ (by simp at h ⊢; omega) x hx
        all_goals (intro es he; cases he)
    | tuple es =>
      rw [v13_docType] at ht
      simp only [Option.some.injEq] at ht
      subst ht
      have := hl' es (by simp at h; omega)
      split
      · simp only [AType.noEnum, noEnumL_append, this, AType.noEnumL, noEnum_none, Bool.and_self]
      · exact this
    | list es =>
      rw [v13_docType] at ht
      simp only [Option.some.injEq] at ht
      subst ht
      exact hl es (by simp at h; omega)
    | boolOp es =>
      rw [v13_docType] at ht
      simp only [Option.some.injEq] at ht
      subst ht
      exact hl es (by simp at h; omega)
    | binOp es =>
      rw [v13_docType] at ht
      simp only [Option.some.injEq] at ht
      subst ht
      exact hl es (by simp at h; omega)
    | str raw cut parsed =>
      cases parsed with
      | none =>
        rw [v13_docType] at ht
        split at ht
        · simp only [Option.some.injEq] at ht; subst ht; exact noEnum_none
        · cases ht
      | some e' =>
        rw [v13_docType] at ht
        exact ih e' (by simp at h ⊢; omega) t ht
    | other =>
      rw [v13_docType] at ht
      simp only [Option.some.injEq] at ht
      subst ht; rfl

/-- `_griffe_annotation_to_api_type` never yields an `EnumType` (at any depth) -/
theorem annToType_noEnum (e : GExpr) (t : AType) (h : annToType e = some t) : t.noEnum = true := by
  rw [v13_docType_eq] at h
  exact docType_noEnum_lt (sizeOf e + 1) e (Nat.lt_succ_self _) t h

end StubGen
