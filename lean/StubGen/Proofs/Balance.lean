/-
Helper lemmas for `StubGen.Theorems.C02a` (structural half of C02: brackets, braces, comments and
string literals of the generated text are closed and properly nested).  Scanner: `Spec/Balance.lean`.
Every name starts with `y02_`.
-/
import StubGen.Proofs.PathConv
import StubGen.Spec.Balance
import StubGen.Proofs.Lexical
import StubGen.Proofs.TypeText
import StubGen.Proofs.Markers
import StubGen.Proofs.Imports

namespace StubGen

open Spec

/-! ### algebra of the scanner -/

theorem y02_scan_nil (m : Mode) (stk : Stack) : scan m stk [] = some (m, stk) := rfl

theorem y02_scan_cons (m : Mode) (stk : Stack) (c : Char) (cs : List Char) :
    scan m stk (c :: cs) = (step m stk c).bind fun r => scan r.1 r.2 cs := rfl

theorem y02_scan_append (m : Mode) (stk : Stack) (p q : List Char) :
    scan m stk (p ++ q) = (scan m stk p).bind fun r => scan r.1 r.2 q := by
  induction p generalizing m stk with
  | nil => rfl
  | cons c p ih =>
    rw [List.cons_append, y02_scan_cons, y02_scan_cons]
    cases step m stk c with
    | none => rfl
    | some r => exact ih r.1 r.2

/-- a piece of text that can stand anywhere in code: read in `code` mode it comes back to `code`
    mode and leaves the open brackets as they were -/
def y02_Closed (p : List Char) : Prop := ∀ stk, scan .code stk p = some (.code, stk)

theorem y02_scan_capp {p : List Char} (h : y02_Closed p) (stk : Stack) (q : List Char) :
    scan .code stk (p ++ q) = scan .code stk q := by
  rw [y02_scan_append, h stk]; rfl

theorem y02_closed_nil : y02_Closed [] := fun _ => rfl

theorem y02_closed_append {p q : List Char} (hp : y02_Closed p) (hq : y02_Closed q) : y02_Closed (p ++ q) := by
  intro stk; rw [y02_scan_capp hp]; exact hq stk

/-! ### the frame property: brackets below the starting stack are never looked at -/

theorem y02_stepCode_frame (s t : Stack) (c : Char) (r : Mode × Stack) (h : stepCode s c = some r) :
    stepCode (s ++ t) c = some (r.1, r.2 ++ t) := by
  unfold stepCode at h ⊢
  split
  · rw [if_pos ‹_›] at h; cases h; rfl
  · rw [if_neg ‹_›] at h
    split
    · rw [if_pos ‹_›] at h; cases h; rfl
    · rw [if_neg ‹_›] at h
      split
      · rw [if_pos ‹_›] at h; cases h; rfl
      · rw [if_neg ‹_›] at h
        split
        · rw [if_pos ‹_›] at h; cases h; rfl
        · rw [if_neg ‹_›] at h
          cases hc : closerOf c with
          | some d => rw [hc] at h; cases h; rfl
          | none =>
            rw [hc] at h
            dsimp only at h ⊢
            split
            · rw [if_pos ‹_›] at h
              cases s with
              | nil => cases h
              | cons d rest =>
                dsimp only [List.cons_append] at h ⊢
                split
                · rw [if_pos ‹_›] at h; cases h; rfl
                · rw [if_neg ‹_›] at h; cases h
            · rw [if_neg ‹_›] at h; cases h; rfl

theorem y02_step_frame (m : Mode) (s t : Stack) (c : Char) (r : Mode × Stack) (h : step m s c = some r) :
    step m (s ++ t) c = some (r.1, r.2 ++ t) := by
  cases m <;> unfold step at h ⊢ <;> dsimp only at h ⊢
  · exact y02_stepCode_frame s t c r h
  · split
    · rw [if_pos ‹_›] at h; cases h; rfl
    · rw [if_neg ‹_›] at h
      split
      · rw [if_pos ‹_›] at h; cases h; rfl
      · rw [if_neg ‹_›] at h; exact y02_stepCode_frame s t c r h
  · split
    · rw [if_pos ‹_›] at h; cases h; rfl
    · rw [if_neg ‹_›] at h; exact y02_stepCode_frame s t c r h
  · split
    · rw [if_pos ‹_›] at h; cases h; rfl
    · rw [if_neg ‹_›] at h
      split
      · rw [if_pos ‹_›] at h; cases h; rfl
      · rw [if_neg ‹_›] at h
        split
        · rw [if_pos ‹_›] at h; cases h
        · rw [if_neg ‹_›] at h; cases h; rfl
  · split
    · rw [if_pos ‹_›] at h; cases h; rfl
    · rw [if_neg ‹_›] at h; cases h
  · split
    · rw [if_pos ‹_›] at h; cases h; rfl
    · rw [if_neg ‹_›] at h; cases h; rfl
  · cases h; rfl
  · cases h; rfl
  · split
    · rw [if_pos ‹_›] at h; cases h; rfl
    · rw [if_neg ‹_›] at h
      split
      · rw [if_pos ‹_›] at h; cases h; rfl
      · rw [if_neg ‹_›] at h; cases h

theorem y02_scan_frame (m : Mode) (s t : Stack) (p : List Char) (r : Mode × Stack)
    (h : scan m s p = some r) : scan m (s ++ t) p = some (r.1, r.2 ++ t) := by
  induction p generalizing m s with
  | nil => rw [y02_scan_nil] at h; cases h; rfl
  | cons c p ih =>
    rw [y02_scan_cons] at h ⊢
    cases hs : step m s c with
    | none => rw [hs] at h; cases h
    | some r1 =>
      rw [hs] at h
      rw [y02_step_frame m s t c r1 hs]
      exact ih r1.1 r1.2 h

/-- `Balanced` (scan from the empty stack) is the same as "closed piece" (from every stack) -/
theorem y02_closed_iff (p : List Char) : y02_Closed p ↔ BalancedL p = true := by
  unfold BalancedL
  constructor
  · intro h; rw [h []]; rfl
  · intro h stk
    have h' : scan .code [] p = some (.code, []) := eq_of_beq h
    have := y02_scan_frame .code [] stk p _ h'
    simpa using this

theorem y02_closed_of_bal {p : List Char} (h : BalancedL p = true) : y02_Closed p := (y02_closed_iff p).2 h

/-! ### plain characters, identifiers -/

/-- a character that is read in `code` mode without any effect -/
def y02_plain (c : Char) : Bool :=
  c != '"' && c != '`' && c != '/' && c != '-' && (closerOf c).isNone && !isCloser c

theorem y02_stepCode_plain {c : Char} (h : y02_plain c = true) (stk : Stack) : stepCode stk c = some (.code, stk) := by
  unfold y02_plain at h
  simp only [Bool.and_eq_true, bne_iff_ne, ne_eq, Option.isNone_iff_eq_none, Bool.not_eq_true'] at h
  obtain ⟨⟨⟨⟨⟨h1, h2⟩, h3⟩, h4⟩, h5⟩, h6⟩ := h
  unfold stepCode
  rw [if_neg h1, if_neg h2, if_neg h3, if_neg h4, h5]
  dsimp only
  rw [h6]; rfl

theorem y02_closed_plain {p : List Char} (h : p.all y02_plain = true) : y02_Closed p := by
  induction p with
  | nil => exact y02_closed_nil
  | cons c p ih =>
    simp only [List.all_cons, Bool.and_eq_true] at h
    intro stk
    rw [y02_scan_cons]
    show (stepCode stk c).bind _ = _
    rw [y02_stepCode_plain h.1]
    exact ih h.2 stk

theorem y02_identChar_plain {c : Char} (h : isIdentChar c = true) : y02_plain c = true := by
  unfold y02_plain closerOf isCloser
  simp only [Bool.and_eq_true, bne_iff_ne, ne_eq, Option.isNone_iff_eq_none, Bool.not_eq_true',
    Bool.or_eq_false_iff, decide_eq_false_iff_not]
  have hne : ∀ d : Char, isIdentChar d = false → c ≠ d := fun d hd e => by rw [e, hd] at h; cases h
  have e1 := hne '"' (by decide)
  have e2 := hne '`' (by decide)
  have e3 := hne '/' (by decide)
  have e4 := hne '-' (by decide)
  have e5 := hne '(' (by decide)
  have e6 := hne '{' (by decide)
  have e7 := hne '<' (by decide)
  have e8 := hne '[' (by decide)
  have e9 := hne ')' (by decide)
  have e10 := hne '}' (by decide)
  have e11 := hne '>' (by decide)
  have e12 := hne ']' (by decide)
  refine ⟨⟨⟨⟨⟨e1, e2⟩, e3⟩, e4⟩, ?_⟩, ⟨⟨⟨e9, e10⟩, e11⟩, e12⟩⟩
  rw [if_neg e5, if_neg e6, if_neg e7, if_neg e8]

theorem y02_closed_identChars {p : List Char} (h : p.all isIdentChar = true) : y02_Closed p := by
  apply y02_closed_plain
  rw [List.all_eq_true] at h ⊢
  exact fun c hc => y02_identChar_plain (h c hc)

theorem y02_closed_ident {p : List Char} (h : isIdent p = true) : y02_Closed p :=
  y02_closed_identChars (lx_isIdent_all h)

/-! ### string literals, back-quoted names -/

theorem y02_scan_strBody {b : List Char} (h : stringBodySafe b = true) (stk : Stack) (q : List Char) :
    scan .str stk (b ++ '"' :: q) = scan .code stk q := by
  induction b with
  | nil => rfl
  | cons c b ih =>
    unfold stringBodySafe at h ih
    simp only [List.all_cons, Bool.and_eq_true] at h
    have hc := h.1
    unfold isPlainStringChar at hc
    simp only [Bool.and_eq_true, bne_iff_ne, ne_eq] at hc
    obtain ⟨⟨⟨h1, h2⟩, h3⟩, h4⟩ := hc
    rw [List.cons_append, y02_scan_cons]
    have : step .str stk c = some (.str, stk) := by
      unfold step; simp [h1, h2, h3, h4]
    rw [this]
    exact ih h.2

theorem y02_scan_esc2 (stk : Stack) (x : Char) (rest : List Char) (hx : isEscapeChar x = true) :
    scan .str stk ('\\' :: x :: rest) = scan .str stk rest := by
  rw [y02_scan_cons]
  have h1 : step .str stk '\\' = some (.strEsc, stk) := rfl
  rw [h1]
  show scan .strEsc stk (x :: rest) = _
  rw [y02_scan_cons]
  have h2 : step .strEsc stk x = some (.str, stk) := by
    unfold step; simp [hx]
  rw [h2]
  rfl

theorem y02_scan_escBody (b : List Char) (stk : Stack) (q : List Char) :
    scan .str stk (b.flatMap escapeStringChar ++ '"' :: q) = scan .code stk q := by
  induction b with
  | nil => rfl
  | cons c b ih =>
    rw [List.flatMap_cons, List.append_assoc]
    rcases lx_escapeStringChar_cases c with ⟨_, h⟩ | ⟨_, h⟩ | ⟨_, h⟩ | ⟨_, h⟩ | ⟨h1, h2, h3, h4, h⟩
    · rw [h]
      simp only [List.cons_append, List.nil_append]
      rw [y02_scan_esc2 _ _ _ (by decide)]
      exact ih
    · rw [h]
      simp only [List.cons_append, List.nil_append]
      rw [y02_scan_esc2 _ _ _ (by decide)]
      exact ih
    · rw [h]
      simp only [List.cons_append, List.nil_append]
      rw [y02_scan_esc2 _ _ _ (by decide)]
      exact ih
    · rw [h]
      simp only [List.cons_append, List.nil_append]
      rw [y02_scan_esc2 _ _ _ (by decide)]
      exact ih
    · rw [h]
      simp only [List.cons_append, List.nil_append, y02_scan_cons]
      have : step .str stk c = some (.str, stk) := by
        unfold step; simp [h1, h2, h3, h4]
      rw [this]
      exact ih

/-- the escaped form of ANY Python string between two quotes is a closed piece of stub text -/
theorem y02_closed_escaped (b : List Char) : y02_Closed ('"' :: (b.flatMap escapeStringChar ++ ['"'])) := by
  intro stk
  rw [y02_scan_cons]
  show scan .str stk (b.flatMap escapeStringChar ++ ['"']) = _
  rw [y02_scan_escBody]; rfl

/-- `"` body `"` with a body free of quotes, backslashes and line breaks -/
theorem y02_closed_string {b : List Char} (h : stringBodySafe b = true) : y02_Closed ('"' :: (b ++ ['"'])) := by
  intro stk
  rw [y02_scan_cons]
  show scan .str stk (b ++ ['"']) = _
  rw [y02_scan_strBody h]; rfl

theorem y02_scan_quotedBody {b : List Char} (h : b.all isIdentChar = true) (stk : Stack) (q : List Char) :
    scan .quoted stk (b ++ '`' :: q) = scan .code stk q := by
  induction b with
  | nil => rfl
  | cons c b ih =>
    simp only [List.all_cons, Bool.and_eq_true] at h
    have hne : c ≠ '`' := fun e => by rw [e] at h; exact absurd h.1 (by decide)
    rw [List.cons_append, y02_scan_cons]
    have : step .quoted stk c = some (.quoted, stk) := by
      unfold step; simp [hne, h.1]
    rw [this]
    exact ih h.2

theorem y02_closed_quoted {b : List Char} (h : b.all isIdentChar = true) : y02_Closed ('`' :: (b ++ ['`'])) := by
  intro stk
  rw [y02_scan_cons]
  show scan .quoted stk (b ++ ['`']) = _
  rw [y02_scan_quotedBody h]; rfl

/-! ### comments -/

theorem y02_scan_lineBody {b : List Char} (h : b.all (fun c => c != '\n' && c != '\r') = true) (stk : Stack)
    (q : List Char) : scan .line stk (b ++ '\n' :: q) = scan .code stk q := by
  induction b with
  | nil => rfl
  | cons c b ih =>
    simp only [List.all_cons, Bool.and_eq_true, bne_iff_ne, ne_eq] at h
    rw [List.cons_append, y02_scan_cons]
    have : step .line stk c = some (.line, stk) := by
      unfold step; simp [h.1.1, h.1.2]
    rw [this]
    exact ih (by simpa using h.2)

/-- `//` text-without-line-break newline -/
theorem y02_closed_lineComment {b : List Char} (h : b.all (fun c => c != '\n' && c != '\r') = true) :
    y02_Closed ('/' :: '/' :: (b ++ ['\n'])) := by
  intro stk
  show scan .line stk (b ++ ['\n']) = _
  rw [y02_scan_lineBody h]; rfl

/-- the two block-comment modes, indexed by "the previous character was `*`" -/
def y02_blockMode (b : Bool) : Mode := if b then .blockStar else .block

/-- a comment body without `*/` (recogniser `lx_scan` of the lexical half) is read without leaving
    the comment -/
theorem y02_scan_blockBody (b b' : Bool) (p : List Char) (h : lx_scan b p = some b') (stk : Stack) (q : List Char) :
    scan (y02_blockMode b) stk (p ++ q) = scan (y02_blockMode b') stk q := by
  induction p generalizing b with
  | nil => rw [lx_scan] at h; cases h; rfl
  | cons c p ih =>
    rw [lx_scan] at h
    split at h
    · cases h
    · rename_i hc
      rw [List.cons_append, y02_scan_cons]
      have : step (y02_blockMode b) stk c = some (y02_blockMode (decide (c = '*')), stk) := by
        cases b
        · show some _ = some _
          by_cases e : c = '*' <;> simp [y02_blockMode, e]
        · show some _ = some _
          have e1 : c ≠ '/' := by simpa using hc
          by_cases e : c = '*' <;> simp [y02_blockMode, e, e1]
      rw [this]
      exact ih _ h

/-- `/*` body `*/` -/
theorem y02_closed_blockComment {p : List Char} (b' : Bool) (h : lx_scan false p = some b') :
    y02_Closed ('/' :: '*' :: (p ++ ['*', '/'])) := by
  intro stk
  show scan (y02_blockMode false) stk (p ++ ['*', '/']) = _
  rw [y02_scan_blockBody false b' p h]
  cases b' <;> rfl

/-! ### closed pieces of text (strings) -/

/-- the string is a closed piece -/
def y02_CS (s : String) : Prop := y02_Closed s.toList

theorem y02_CS_empty : y02_CS "" := y02_closed_nil

theorem y02_CS_append {a b : String} (ha : y02_CS a) (hb : y02_CS b) : y02_CS (a ++ b) := by
  unfold y02_CS; rw [String.toList_append]; exact y02_closed_append ha hb

theorem y02_CS_of_bal {s : String} (h : Balanced s = true) : y02_CS s := y02_closed_of_bal h

theorem y02_CS_iff (s : String) : y02_CS s ↔ Balanced s = true := y02_closed_iff _

theorem y02_CS_ite {c : Prop} [Decidable c] {a b : String} (ha : y02_CS a) (hb : y02_CS b) :
    y02_CS (if c then a else b) := by split <;> assumption

theorem y02_scan_cs {s : String} (h : y02_CS s) (stk : Stack) (q : List Char) :
    scan .code stk (s.toList ++ q) = scan .code stk q := y02_scan_capp h stk q

theorem y02_CS_ident {s : String} (h : isIdent s.toList = true) : y02_CS s := y02_closed_ident h

theorem y02_CS_join : (l : List String) → (∀ s ∈ l, y02_CS s) → y02_CS (String.join l)
  | [], _ => y02_CS_empty
  | a :: l, h => by
    rw [String.join_cons]
    exact y02_CS_append (h a (by simp)) (y02_CS_join l fun s hs => h s (by simp [hs]))

theorem y02_CS_joinWith {sep : String} (hsep : y02_CS sep) : (l : List String) → (∀ s ∈ l, y02_CS s) →
    y02_CS (joinWith sep l)
  | [], _ => y02_CS_empty
  | [a], h => h a (by simp)
  | a :: b :: l, h => by
    rw [joinWith]
    · exact y02_CS_append (y02_CS_append (h a (by simp)) hsep)
        (y02_CS_joinWith hsep (b :: l) fun s hs => h s (by simp [List.mem_cons] at hs ⊢; right; exact hs))
    · intro e; cases e

/-! ### fixed pieces of text and bracket pairs -/

/-- a fixed piece of text whose effect on mode and stack is known (checked by evaluation) -/
theorem y02_scan_lit {l : List Char} {m m' : Mode} {pops pushes : Stack}
    (h : scan m pops l = some (m', pushes)) (stk : Stack) (q : List Char) :
    scan m (pops ++ stk) (l ++ q) = scan m' (pushes ++ stk) q := by
  rw [y02_scan_append, y02_scan_frame _ _ _ _ _ h]; rfl

/-- opening text, closed piece, closing text -/
theorem y02_CS_bracketed (o c : String) (pushes : Stack) {p : String}
    (ho : scan .code [] o.toList = some (.code, pushes)) (hc : scan .code pushes c.toList = some (.code, []))
    (hp : y02_CS p) : y02_CS (o ++ p ++ c) := by
  intro stk
  rw [String.toList_append, String.toList_append, List.append_assoc]
  have h1 := y02_scan_lit ho stk (p.toList ++ c.toList)
  rw [List.nil_append] at h1
  rw [h1, y02_scan_cs hp]
  have h2 := y02_scan_lit hc stk []
  rw [List.append_nil, List.nil_append] at h2
  rw [h2]; rfl

/-- opening text, closed piece, middle text, closed piece, closing text -/
theorem y02_CS_bracketed2 (o m c : String) (s1 s2 : Stack) {p r : String}
    (ho : scan .code [] o.toList = some (.code, s1)) (hm : scan .code s1 m.toList = some (.code, s2))
    (hc : scan .code s2 c.toList = some (.code, []))
    (hp : y02_CS p) (hr : y02_CS r) : y02_CS (o ++ p ++ m ++ r ++ c) := by
  intro stk
  simp only [String.toList_append, List.append_assoc]
  have h1 := y02_scan_lit ho stk (p.toList ++ (m.toList ++ (r.toList ++ c.toList)))
  rw [List.nil_append] at h1
  rw [h1, y02_scan_cs hp]
  have h2 := y02_scan_lit hm stk (r.toList ++ c.toList)
  rw [h2, y02_scan_cs hr]
  have h3 := y02_scan_lit hc stk []
  rw [List.append_nil, List.nil_append] at h3
  rw [h3]; rfl

/-! ### names -/

theorem y02_CS_escapeKeyword {n : String} (h : isIdent n.toList = true) : y02_CS (escapeKeyword n) := by
  rw [lx_escapeKeyword_eq]
  split
  · unfold y02_CS
    rw [lx_quoted_toList]
    exact y02_closed_quoted (lx_isIdent_all h)
  · exact y02_CS_ident h

theorem y02_convertName_ident {n : String} (safe cls : Bool) (h : Convertible n.toList = true) :
    isIdent (convertName n safe cls).toList = true := by
  cases safe with
  | true => exact C09.convert_on_legal n cls h
  | false => rw [C09.convert_off]; exact lx_convertible_isIdent h

/-- a converted name, not keyword-escaped (documentation comments, callable parameter names) -/
theorem y02_CS_convertName {n : String} (safe cls : Bool) (h : Convertible n.toList = true) :
    y02_CS (convertName n safe cls) := y02_CS_ident (y02_convertName_ident safe cls h)

/-- a converted and keyword-escaped name -/
theorem y02_CS_name {n : String} (safe cls : Bool) (h : Convertible n.toList = true) :
    y02_CS (escapeKeyword (convertName n safe cls)) := y02_CS_escapeKeyword (y02_convertName_ident safe cls h)

theorem y02_CS_quotedString {b : String} (h : stringBodySafe b.toList = true) : y02_CS ("\"" ++ b ++ "\"") := by
  unfold y02_CS
  have : ("\"" ++ b ++ "\"").toList = '"' :: (b.toList ++ ['"']) := by simp [String.toList_append]
  rw [this]
  exact y02_closed_string h

theorem y02_CS_escaped (s : String) : y02_CS (escapeStringLiteral s) := by
  unfold y02_CS escapeStringLiteral
  rw [String.toList_ofList]
  exact y02_closed_escaped s.toList

/-- `@PythonName("…")` -/
theorem y02_CS_nameAnnotation {n : String} (h : stringBodySafe n.toList = true) : y02_CS (nameAnnotation n) := by
  have e : nameAnnotation n = "@PythonName(" ++ ("\"" ++ n ++ "\"") ++ ")" := by
    unfold nameAnnotation
    show "@PythonName(\"" ++ n ++ "\")" = _
    have e1 : ("@PythonName(\"" : String) = "@PythonName(" ++ "\"" := by decide
    have e2 : ("\")" : String) = "\"" ++ ")" := by decide
    rw [e1, e2]
    simp only [String.append_assoc]
  rw [e]
  exact y02_CS_bracketed "@PythonName(" ")" [')'] (by decide) (by decide) (y02_CS_quotedString h)

/-! ### numbers -/

theorem y02_digit_identChar {c : Char} (h : c.isDigit = true) : isIdentChar c = true := by
  simp [isIdentChar, Char.isAlphanum, h]

theorem y02_natRepr_identChars (n : Nat) : (toString n).toList.all isIdentChar = true := by
  rw [List.all_eq_true]
  intro c hc
  have hc' : c ∈ Nat.toDigits 10 n := by
    simpa [Nat.toString_eq_repr, Nat.toList_repr] using hc
  exact y02_digit_identChar (Nat.isDigit_of_mem_toDigits (by decide) (by decide) hc')

theorem y02_CS_nat (n : Nat) : y02_CS (toString n) := y02_closed_identChars (y02_natRepr_identChars n)

theorem y02_CS_int (i : Int) : y02_CS (toString i) := by
  cases i with
  | ofNat n => exact y02_CS_nat n
  | negSucc n =>
    show y02_CS ("-" ++ toString (n + 1))
    intro stk
    rw [String.toList_append]
    show scan .minus stk (toString (n + 1)).toList = _
    have hall := y02_natRepr_identChars (n + 1)
    cases hl : (toString (n + 1)).toList with
    | nil => exfalso; have := congrArg List.length hl; simp [Nat.toString_eq_repr, Nat.toList_repr] at this
    | cons c cs =>
      rw [hl] at hall
      simp only [List.all_cons, Bool.and_eq_true] at hall
      rw [y02_scan_cons]
      have hne : c ≠ '>' := fun e => by rw [e] at hall; exact absurd hall.1 (by decide)
      have : step .minus stk c = some (.code, stk) := by
        show (if c = '>' then _ else stepCode stk c) = _
        rw [if_neg hne, y02_stepCode_plain (y02_identChar_plain hall.1)]
      rw [this]
      exact y02_closed_identChars hall.2 stk

/-- the generated names `param_1`, `result_2`, … -/
theorem y02_numbered_convertible (pre : String) (i : Nat) (hpre : pre = "param_" ∨ pre = "result_") :
    Convertible (pre ++ toString i).toList = true := by
  have hd := y02_natRepr_identChars i
  rcases hpre with rfl | rfl
  · have e : ("param_" ++ toString i).toList = 'p' :: ("aram_".toList ++ (toString i).toList) := by
      rw [String.toList_append]; rfl
    rw [e, Convertible, lstripChar, if_neg (by decide), List.all_cons, List.all_append, hd]
    dsimp only
    decide
  · have e : ("result_" ++ toString i).toList = 'r' :: ("esult_".toList ++ (toString i).toList) := by
      rw [String.toList_append]; rfl
    rw [e, Convertible, lstripChar, if_neg (by decide), List.all_cons, List.all_append, hd]
    dsimp only
    decide

/-! ### the text of a type -/

theorem y02_CS_builtin {n b : String} (h : Spec.builtin n = some b) : y02_CS b := by
  unfold Spec.builtin at h
  repeat' split at h
  all_goals first | (cases h; exact y02_CS_of_bal (by decide)) | cases h

theorem y02_CS_litText {l : Lit} (h : litBal l = true) : y02_CS (Spec.litText l) := by
  cases l with
  | str s => exact y02_CS_escaped s
  | int i => exact y02_CS_int i
  | bool b => cases b <;> exact y02_CS_of_bal (by decide)
  | none => exact y02_CS_of_bal (by decide)

theorem y02_CS_commaSep (l : List String) (h : ∀ s ∈ l, y02_CS s) : y02_CS (joinWith ", " l) :=
  y02_CS_joinWith (y02_CS_of_bal (by decide)) l h

theorem y02_CS_angle {pre p : String} (hpre : y02_CS pre) (hp : y02_CS p) : y02_CS (pre ++ "<" ++ p ++ ">") := by
  have e : pre ++ "<" ++ p ++ ">" = pre ++ ("<" ++ p ++ ">") := by simp only [String.append_assoc]
  rw [e]
  exact y02_CS_append hpre (y02_CS_bracketed "<" ">" ['>'] (by decide) (by decide) hp)

theorem y02_CS_literalOf (ls : List Lit) (h : ls.all litBal = true) :
    y02_CS ("literal<" ++ joinWith ", " (ls.map Spec.litText) ++ ">") := by
  refine y02_CS_bracketed "literal<" ">" ['>'] (by decide) (by decide) (y02_CS_commaSep _ ?_)
  intro s hs
  obtain ⟨l, hl, rfl⟩ := List.mem_map.1 hs
  exact y02_CS_litText (List.all_eq_true.1 h l hl)

theorem y02_CS_unionText (ms : List String) (b : Bool) (h : ∀ m ∈ ms, y02_CS m) : y02_CS (Spec.unionText ms b) := by
  rcases unionText_cases ms b with ⟨_, e⟩ | ⟨m, hne, hall, e⟩ | ⟨x, _, hx, _, e⟩ | ⟨_, _, e⟩
  · rw [e]; exact y02_CS_empty
  · rw [e]
    cases ms with
    | nil => exact absurd rfl hne
    | cons a t => rw [← hall a (by simp)]; exact h a (by simp)
  · rw [e]
    exact y02_CS_append (h x ((hx x).2 (Or.inl rfl))) (y02_CS_of_bal (by decide))
  · rw [e]
    refine y02_CS_bracketed "union<" ">" ['>'] (by decide) (by decide) (y02_CS_commaSep _ ?_)
    exact fun m hm => h m ((mem_unionMembers ms m).1 hm)

theorem y02_litBal_flatMap (ts : List AType) (h : typesBal ts = true) :
    ((ts.filter Spec.isLit).flatMap Spec.litsOf).all litBal = true := by
  induction ts with
  | nil => rfl
  | cons t ts ih =>
    rw [typesBal, Bool.and_eq_true] at h
    rw [List.filter_cons]
    split
    · rw [List.flatMap_cons, List.all_append, ih h.2, Bool.and_true]
      cases t <;> first | rfl | (rw [typeBal] at h; exact h.1)
    · exact ih h.2

theorem y02_all_litBal_of_mem {l l' : List Lit} (h : l.all litBal = true) (hm : ∀ x ∈ l', x ∈ l ∨ x = Lit.none) :
    l'.all litBal = true := by
  rw [List.all_eq_true] at h ⊢
  intro x hx
  rcases hm x hx with h1 | rfl
  · exact h x h1
  · rfl

mutual
theorem y02_typeText_cs (safe : Bool) : (t : AType) → typeBal t = true → y02_CS (tt_typeText safe t)
  | .named n _ => by
    intro h
    rw [typeBal] at h
    rw [tt_typeText]
    cases hb : Spec.builtin n with
    | none => exact y02_CS_escapeKeyword h
    | some b => exact y02_CS_builtin hb
  | .final t => by
    intro h; rw [typeBal] at h; rw [tt_typeText]; exact y02_typeText_cs safe t h
  | .list ts => by
    intro h; rw [typeBal] at h; rw [tt_typeText]
    split
    · exact y02_CS_of_bal (by decide)
    · exact y02_CS_bracketed "List<" ">" ['>'] (by decide) (by decide) (y02_CS_commaSep _ (y02_typeTexts_cs safe ts h))
  | .set ts => by
    intro h; rw [typeBal] at h; rw [tt_typeText]
    split
    · exact y02_CS_of_bal (by decide)
    · exact y02_CS_bracketed "Set<" ">" ['>'] (by decide) (by decide) (y02_CS_commaSep _ (y02_typeTexts_cs safe ts h))
  | .namedSeq n _ ts => by
    intro h; rw [typeBal, Bool.and_eq_true] at h; rw [tt_typeText]
    split
    · exact y02_CS_append (y02_CS_escapeKeyword h.1) (y02_CS_of_bal (by decide))
    · exact y02_CS_angle (y02_CS_escapeKeyword h.1) (y02_CS_commaSep _ (y02_typeTexts_cs safe ts h.2))
  | .tuple ts => by
    intro h; rw [typeBal] at h; rw [tt_typeText]
    exact y02_CS_bracketed "Tuple<" ">" ['>'] (by decide) (by decide) (y02_CS_commaSep _ (y02_typeTexts_cs safe ts h))
  | .dict k v => by
    intro h; rw [typeBal, Bool.and_eq_true] at h; rw [tt_typeText]
    exact y02_CS_bracketed2 "Map<" ", " ">" ['>'] ['>'] (by decide) (by decide) (by decide)
      (y02_typeText_cs safe k h.1) (y02_typeText_cs safe v h.2)
  | .literal ls => by
    intro h; rw [typeBal] at h; rw [tt_typeText]
    exact y02_CS_literalOf ls h
  | .typeVar n => by
    intro h; rw [typeBal] at h; rw [tt_typeText]; exact y02_CS_name safe false h
  | .typeVarB n _ => by
    intro h; rw [typeBal] at h; rw [tt_typeText]; exact y02_CS_name safe false h
  | .unknown => by
    intro _; rw [tt_typeText]; exact y02_CS_of_bal (by decide)
  | .callable ps r => by
    intro h; rw [typeBal, Bool.and_eq_true] at h; rw [tt_typeText_callable]
    have hps := y02_CS_commaSep _ (y02_namedTexts_cs safe "param_" (Or.inl rfl) ps h.1 1)
    have hhead : y02_CS ("(" ++ joinWith ", " (tt_namedTexts safe "param_" 1 ps) ++ ") -> ") :=
      y02_CS_bracketed "(" ") -> " [')'] (by decide) (by decide) hps
    refine y02_CS_append hhead ?_
    split
    · rename_i ts
      have hts : typesBal ts = true := by rw [typeBal] at h; exact h.2
      exact y02_CS_bracketed "(" ")" [')'] (by decide) (by decide)
        (y02_CS_commaSep _ (y02_namedTexts_cs safe "result_" (Or.inr rfl) ts hts 1))
    · split
      · exact y02_CS_of_bal (by decide)
      · exact y02_CS_append (y02_CS_append
          (y02_CS_convertName safe false (y02_numbered_convertible "result_" 1 (Or.inr rfl)))
          (y02_CS_of_bal (by decide))) (y02_typeText_cs safe r h.2)
  | .union ts => by
    intro h; rw [typeBal] at h; rw [tt_typeText]
    have hl := y02_litBal_flatMap ts h
    have hded : (Spec.dedupLit ((ts.filter Spec.isLit).flatMap Spec.litsOf)).all litBal = true :=
      y02_all_litBal_of_mem hl fun x hx => Or.inl ((tt_mem_dedupLit _ x).1 hx)
    split
    · split
      · refine y02_CS_literalOf _ (y02_all_litBal_of_mem hded fun x hx => ?_)
        rcases List.mem_append.1 hx with h1 | h1
        · exact Or.inl h1
        · exact Or.inr (List.mem_singleton.1 h1)
      · refine y02_CS_unionText _ _ fun m hm => ?_
        rcases List.mem_append.1 hm with h1 | h1
        · exact y02_nonLitTexts_cs safe ts h m h1
        · rw [List.mem_singleton.1 h1]; exact y02_CS_literalOf _ hded
    · split
      · refine y02_CS_literalOf _ (y02_all_litBal_of_mem hl fun x hx => ?_)
        rcases List.mem_append.1 hx with h1 | h1
        · exact Or.inl h1
        · exact Or.inr (List.mem_singleton.1 h1)
      · exact y02_CS_unionText _ _ (y02_typeTexts_cs safe ts h)
  | .enum _ => by intro _; rw [tt_typeText]; exact y02_CS_empty
  | .boundary .. => by intro _; rw [tt_typeText]; exact y02_CS_empty
theorem y02_typeTexts_cs (safe : Bool) : (ts : List AType) → typesBal ts = true →
    ∀ s ∈ tt_typeTexts safe ts, y02_CS s
  | [] => by intro _ s hs; rw [tt_typeTexts] at hs; cases hs
  | t :: ts => by
    intro h s hs
    rw [typesBal, Bool.and_eq_true] at h
    rw [tt_typeTexts] at hs
    rcases List.mem_cons.1 hs with rfl | hs
    · exact y02_typeText_cs safe t h.1
    · exact y02_typeTexts_cs safe ts h.2 s hs
theorem y02_nonLitTexts_cs (safe : Bool) : (ts : List AType) → typesBal ts = true →
    ∀ s ∈ tt_nonLitTexts safe ts, y02_CS s
  | [] => by intro _ s hs; rw [tt_nonLitTexts] at hs; cases hs
  | t :: ts => by
    intro h s hs
    rw [typesBal, Bool.and_eq_true] at h
    rw [tt_nonLitTexts] at hs
    split at hs
    · exact y02_nonLitTexts_cs safe ts h.2 s hs
    · rcases List.mem_cons.1 hs with rfl | hs
      · exact y02_typeText_cs safe t h.1
      · exact y02_nonLitTexts_cs safe ts h.2 s hs
theorem y02_namedTexts_cs (safe : Bool) (pre : String) (hpre : pre = "param_" ∨ pre = "result_") :
    (ts : List AType) → typesBal ts = true → ∀ i, ∀ s ∈ tt_namedTexts safe pre i ts, y02_CS s
  | [] => by intro _ i s hs; rw [tt_namedTexts] at hs; cases hs
  | t :: ts => by
    intro h i s hs
    rw [typesBal, Bool.and_eq_true] at h
    rw [tt_namedTexts] at hs
    rcases List.mem_cons.1 hs with rfl | hs
    · exact y02_CS_append (y02_CS_append (y02_CS_convertName safe false (y02_numbered_convertible pre i hpre))
        (y02_CS_of_bal (by decide))) (y02_typeText_cs safe t h.1)
    · exact y02_namedTexts_cs safe pre hpre ts h.2 (i + 1) s hs
end

/-! ### facts about the value returned by a successful run (the state does not matter) -/

/-- every successful run of `x` returns a value satisfying `P` -/
structure y02_Outs {α : Type} (x : G α) (P : α → Prop) : Prop where
  out : ∀ st a st', x st = .ok (a, st') → P a

section Outs
variable {α β : Type}

theorem y02_Outs.pure {a : α} {P : α → Prop} (h : P a) : y02_Outs (pure a : G α) P :=
  ⟨fun _ _ _ hr => by rw [(G_pure_ok hr).1]; exact h⟩

theorem y02_Outs.bind {x : G α} {f : α → G β} {Q : α → Prop} {P : β → Prop} (hx : y02_Outs x Q)
    (hf : ∀ a, Q a → y02_Outs (f a) P) : y02_Outs (x >>= f) P :=
  ⟨fun _ _ _ hr => by
    obtain ⟨a, s1, h1, h2⟩ := G_bind_ok hr
    exact (hf a (hx.out _ _ _ h1)).out _ _ _ h2⟩

/-- the first computation is run for its effect on the state only -/
theorem y02_Outs.seq {x : G α} {f : α → G β} {P : β → Prop} (hf : ∀ a, y02_Outs (f a) P) : y02_Outs (x >>= f) P :=
  ⟨fun _ _ _ hr => by
    obtain ⟨a, s1, _, h2⟩ := G_bind_ok hr
    exact (hf a).out _ _ _ h2⟩

theorem y02_Outs.ite {c : Prop} [Decidable c] {x y : G α} {P : α → Prop} (hx : y02_Outs x P) (hy : y02_Outs y P) :
    y02_Outs (if c then x else y) P := by split <;> assumption

theorem y02_Outs.throw {e : PyErr} {P : α → Prop} : y02_Outs (throwG e : G α) P :=
  ⟨fun _ _ _ hr => by simp [throwG] at hr⟩

theorem y02_Outs.mono {x : G α} {P Q : α → Prop} (h : y02_Outs x P) (hpq : ∀ a, P a → Q a) : y02_Outs x Q :=
  ⟨fun _ _ _ hr => hpq _ (h.out _ _ _ hr)⟩

theorem y02_Outs.true (x : G α) : y02_Outs x (fun _ => True) := ⟨fun _ _ _ _ => trivial⟩

end Outs

theorem y02_typeStr_outs (env : Env) (t : AType) (h : typeBal t = true) : y02_Outs (typeStr env t) y02_CS :=
  ⟨fun st a st' hr => by
    rw [(tt_typeStr_gpost env t st a st' hr).1]; exact y02_typeText_cs env.safe t h⟩

/-! ### indentation and pending TODO comments -/

def y02_spaces (s : String) : Prop := s.toList.all (· = ' ') = true

theorem y02_CS_spaces {s : String} (h : y02_spaces s) : y02_CS s := by
  apply y02_closed_plain
  unfold y02_spaces at h
  rw [List.all_eq_true] at h ⊢
  intro c hc
  have : c = ' ' := by simpa using h c hc
  rw [this]; decide

theorem y02_spaces_inner {s : String} (h : y02_spaces s) : y02_spaces (s ++ indentation) := by
  unfold y02_spaces at h ⊢
  rw [String.toList_append, List.all_append, h]
  decide

theorem y02_spaces_empty : y02_spaces "" := by unfold y02_spaces; decide

/-- one TODO line, up to and including its line break -/
theorem y02_todoLine_closed (k : String) : y02_Closed ((todoMsgOf k).toList ++ ['\n']) := by
  have hall : ∀ m ∈ Generated.todoMessages.map (·.2), m.toList.all (fun c => c != '\n' && c != '\r') = true := by
    decide +kernel
  have hmsg : ((assocGet? Generated.todoMessages k).getD "").toList.all (fun c => c != '\n' && c != '\r') = true := by
    have : ∀ (l : List (String × String)), (∀ m ∈ l.map (·.2), m.toList.all (fun c => c != '\n' && c != '\r') = true) →
        ((assocGet? l k).getD "").toList.all (fun c => c != '\n' && c != '\r') = true := by
      intro l
      induction l with
      | nil => intro _; rfl
      | cons kv l ih =>
        intro hl
        obtain ⟨k', v⟩ := kv
        rw [assocGet?]
        split
        · exact hl v (by simp)
        · exact ih fun m hm => hl m (by simp only [List.map_cons, List.mem_cons]; right; exact hm)
    exact this _ hall
  have e : (todoMsgOf k).toList = '/' :: '/' :: (" TODO ".toList ++ ((assocGet? Generated.todoMessages k).getD "").toList) := by
    unfold todoMsgOf
    rw [String.toList_append]; rfl
  rw [e]
  have := y02_closed_lineComment (b := " TODO ".toList ++ ((assocGet? Generated.todoMessages k).getD "").toList)
    (by rw [List.all_append, hmsg]; decide)
  simpa using this

theorem y02_todoLines_closed {indent : String} (hi : y02_spaces indent) : (msgs : List String) →
    (∀ m ∈ msgs, y02_Closed (m.toList ++ ['\n'])) → msgs ≠ [] →
    y02_Closed ((joinWith ("\n" ++ indent) msgs).toList ++ ['\n'])
  | [], _, h => absurd rfl h
  | [a], h, _ => h a (by simp)
  | a :: b :: l, h, _ => by
    rw [joinWith]
    · have e : (a ++ ("\n" ++ indent) ++ joinWith ("\n" ++ indent) (b :: l)).toList ++ ['\n']
          = (a.toList ++ ['\n']) ++ (indent.toList ++ ((joinWith ("\n" ++ indent) (b :: l)).toList ++ ['\n'])) := by
        simp [String.toList_append]
      rw [e]
      refine y02_closed_append (h a (by simp)) (y02_closed_append (y02_CS_spaces hi) ?_)
      exact y02_todoLines_closed hi (b :: l) (fun m hm => h m (by simp only [List.mem_cons] at hm ⊢; right; exact hm))
        (by simp)
    · intro e; cases e

theorem y02_CS_renderTodos {indent : String} (hi : y02_spaces indent) (keys : List String) :
    y02_CS (renderTodos indent keys) := by
  unfold renderTodos
  split
  · exact y02_CS_empty
  · rename_i hne
    have e : (indent ++ joinWith ("\n" ++ indent) (sortStrings (keys.map todoMsgOf)) ++ "\n").toList
        = indent.toList ++ ((joinWith ("\n" ++ indent) (sortStrings (keys.map todoMsgOf))).toList ++ ['\n']) := by
      simp [String.toList_append]
    unfold y02_CS
    rw [e]
    refine y02_closed_append (y02_CS_spaces hi) (y02_todoLines_closed hi _ ?_ ?_)
    · intro m hm
      have hm' : m ∈ keys.map todoMsgOf := (sortBy_perm_mk strLe _).mem_iff.1 hm
      obtain ⟨k, _, rfl⟩ := List.mem_map.1 hm'
      exact y02_todoLine_closed k
    · intro e
      have := (sortBy_perm_mk strLe (keys.map todoMsgOf)).length_eq
      unfold sortStrings at e
      rw [e] at this
      cases keys with
      | nil => exact hne rfl
      | cons _ _ => simp at this

theorem y02_createTodoMsg_outs {indent : String} (hi : y02_spaces indent) : y02_Outs (createTodoMsg indent) y02_CS :=
  ⟨fun st a st' hr => by
    have := ((createTodoMsg_ok indent st (a, st')).1 hr).2
    simp only [Prod.mk.injEq] at this
    rw [this.1]; exact y02_CS_renderTodos hi _⟩

theorem y02_defaultString_outs (a : Assign) (d : DefaultVal) (h : defaultBal d = true) :
    y02_Outs (defaultString a d) y02_CS := by
  cases d with
  | str s =>
    unfold defaultString
    refine y02_Outs.ite (y02_Outs.pure (y02_CS_of_bal (by decide))) (y02_Outs.ite (y02_Outs.pure (y02_CS_of_bal (by decide))) ?_)
    exact y02_Outs.pure (y02_CS_of_bal h)
  | bool b => unfold defaultString; cases b <;> exact y02_Outs.pure (y02_CS_of_bal (by decide))
  | none => unfold defaultString; exact y02_Outs.pure (y02_CS_of_bal (by decide))
  | unknown => unfold defaultString; exact y02_Outs.seq fun _ => y02_Outs.pure (y02_CS_of_bal (by decide))
  | int i => unfold defaultString; exact y02_Outs.pure (y02_CS_int i)
  | float r => unfold defaultString; exact y02_Outs.pure (y02_CS_of_bal h)

theorem y02_CS_colonType {ts : String} (h : y02_CS ts) : y02_CS (if ts != "" then ": " ++ ts else "") :=
  y02_CS_ite (y02_CS_append (y02_CS_of_bal (by decide)) h) y02_CS_empty

/-- `*args: tuple[…]` is printed as a list -/
def y02_varargType (a : Assign) (t : AType) : AType :=
  match a, t with
  | .positionalVararg, .tuple ts => AType.list ts
  | _, t => t

theorem y02_varargType_bal (a : Assign) (t : AType) (h : typeBal t = true) : typeBal (y02_varargType a t) = true := by
  unfold y02_varargType
  split
  · rename_i ts
    have h' : typeBal (.tuple ts) = true := h
    rw [typeBal] at h'
    show typeBal (.list ts) = true
    rw [typeBal]; exact h'
  · exact h

theorem y02_createParameter_outs (env : Env) (p : Parameter) (h : paramBal p = true) :
    y02_Outs (createParameter env p) (fun o => y02_CS o.render) := by
  unfold paramBal at h
  simp only [Bool.and_eq_true] at h
  obtain ⟨⟨⟨hn, ht⟩, hd⟩, _⟩ := h
  unfold createParameter
  refine y02_Outs.bind (Q := fun r => y02_CS r.1 ∧ y02_CS r.2) ?_ ?_
  · cases hpt : p.type with
    | none =>
      dsimp only
      refine y02_Outs.seq fun _ => y02_Outs.pure ⟨?_, y02_CS_empty⟩
      split <;> exact y02_CS_of_bal (by decide)
    | some t =>
      rw [hpt] at ht
      dsimp only
      have tail : ∀ value : String, y02_CS value → y02_Outs (do
          let ts ← typeStr env (y02_varargType p.assignedBy t)
          pure (if ts != "" then ": " ++ ts else "", value) : G (String × String))
          (fun r => y02_CS r.1 ∧ y02_CS r.2) := fun value hv =>
        y02_Outs.bind (y02_typeStr_outs env _ (y02_varargType_bal _ _ ht)) fun ts hts =>
          y02_Outs.pure ⟨y02_CS_colonType hts, hv⟩
      refine y02_Outs.ite (y02_Outs.bind (Q := y02_CS) ?_ tail) (y02_Outs.bind (Q := y02_CS) (y02_Outs.pure y02_CS_empty) tail)
      exact y02_Outs.bind (y02_defaultString_outs _ _ hd) fun d hd' =>
          y02_Outs.pure (y02_CS_append (y02_CS_of_bal (by decide)) hd')
  · rintro ⟨typeString, value⟩ ⟨h1, h2⟩
    dsimp only
    repeat' (first | apply y02_Outs.ite | (apply y02_Outs.seq; intro _) | apply y02_Outs.pure)
    all_goals
      unfold ParamOut.render
      dsimp only
      refine y02_CS_append (y02_CS_append (y02_CS_append ?_ (y02_CS_name env.safe false hn)) h1) h2
      exact y02_CS_ite (y02_CS_append (y02_CS_nameAnnotation (lx_convertible_safe hn)) (y02_CS_of_bal (by decide)))
        y02_CS_empty

theorem y02_createParameters_outs (env : Env) : (ps : List Parameter) → ps.all paramBal = true →
    y02_Outs (createParameters env ps) (fun outs => ∀ o ∈ outs, y02_CS o.render)
  | [], _ => by
    rw [createParameters]; exact y02_Outs.pure (fun o ho => by cases ho)
  | p :: ps, h => by
    rw [List.all_cons, Bool.and_eq_true] at h
    rw [createParameters]
    refine y02_Outs.bind (y02_createParameter_outs env p h.1) fun a ha => ?_
    refine y02_Outs.bind (y02_createParameters_outs env ps h.2) fun as has => y02_Outs.pure ?_
    intro o ho
    rcases List.mem_cons.1 ho with rfl | ho
    · exact ha
    · exact has o ho

theorem y02_all_drop {α : Type} {p : α → Bool} {l : List α} (n : Nat) (h : l.all p = true) : (l.drop n).all p = true := by
  rw [List.all_eq_true] at h ⊢
  exact fun x hx => h x (List.mem_of_mem_drop hx)

/-- the parameter list between the parentheses -/
theorem y02_createParameterString_outs (env : Env) (ps : List Parameter) (indent : String) (im : Bool)
    (h : ps.all paramBal = true) (hi : y02_spaces indent) :
    y02_Outs (createParameterString env ps indent im) y02_CS := by
  unfold createParameterString
  have hps : (if im then ps.drop 1 else ps).all paramBal = true := by
    split
    · exact y02_all_drop 1 h
    · exact h
  refine y02_Outs.bind (y02_createParameters_outs env _ hps) fun outs houts => ?_
  have hinner := y02_CS_spaces (y02_spaces_inner hi)
  refine y02_Outs.ite (y02_Outs.pure y02_CS_empty) (y02_Outs.pure ?_)
  have hnl : y02_CS "\n" := y02_CS_of_bal (by decide)
  refine y02_CS_append (y02_CS_append (y02_CS_append (y02_CS_append hnl hinner) ?_) hnl) (y02_CS_spaces hi)
  refine y02_CS_joinWith (y02_CS_append (y02_CS_of_bal (by decide)) hinner) _ ?_
  intro s hs
  obtain ⟨o, ho, rfl⟩ := List.mem_map.1 hs
  exact houts o ho

theorem y02_createResults_outs (env : Env) : (rs : List Result) → rs.all resultBal = true →
    y02_Outs (createResults env rs) (fun l => ∀ s ∈ l, y02_CS s)
  | [], _ => by
    rw [createResults]; exact y02_Outs.pure (fun o ho => by cases ho)
  | r :: rs, h => by
    rw [List.all_cons, Bool.and_eq_true] at h
    have ih := y02_createResults_outs env rs h.2
    rw [createResults]
    cases hrt : r.type with
    | none => exact ih
    | some t =>
      dsimp only
      have hr := h.1
      unfold resultBal at hr
      rw [Bool.and_eq_true, hrt] at hr
      refine y02_Outs.bind (y02_typeStr_outs env t hr.2) fun ts hts => ?_
      refine y02_Outs.bind ih fun rest hrest => y02_Outs.pure ?_
      split
      · intro s hs
        rcases List.mem_cons.1 hs with rfl | hs
        · exact y02_CS_append (y02_CS_append (y02_CS_name env.safe false hr.1) (y02_CS_of_bal (by decide))) hts
        · exact hrest s hs
      · exact hrest

theorem y02_createResultString_outs (env : Env) (rs : List Result) (h : rs.all resultBal = true) :
    y02_Outs (createResultString env rs) y02_CS := by
  unfold createResultString
  dsimp only
  refine y02_Outs.ite (y02_Outs.pure y02_CS_empty) ?_
  refine y02_Outs.bind (y02_createResults_outs env rs h) fun l hl => ?_
  split
  · exact y02_Outs.seq fun _ => y02_Outs.pure y02_CS_empty
  · exact y02_Outs.pure (y02_CS_append (y02_CS_of_bal (by decide)) (hl _ (by simp)))
  · exact y02_Outs.pure (y02_CS_bracketed " -> (" ")" [')'] (by decide) (by decide) (y02_CS_commaSep _ hl))

theorem y02_typeVarStrings_outs (env : Env) (isMethod : Bool) : (tvs : List TypeVar) → tvs.all typeVarBal = true →
    y02_Outs (typeVarStrings env isMethod tvs) (fun l => ∀ s ∈ l, y02_CS s)
  | [], _ => by
    rw [typeVarStrings]; exact y02_Outs.pure (fun o ho => by cases ho)
  | tv :: tvs, h => by
    rw [List.all_cons, Bool.and_eq_true] at h
    have ih := y02_typeVarStrings_outs env isMethod tvs h.2
    have htv := h.1
    unfold typeVarBal at htv
    rw [Bool.and_eq_true] at htv
    have hname := y02_CS_name env.safe false htv.1
    rw [typeVarStrings]
    refine y02_Outs.seq fun s => ?_
    refine y02_Outs.bind (Q := fun l => ∀ s ∈ l, y02_CS s) ?_ fun here hhere =>
      y02_Outs.bind ih fun rest hrest => y02_Outs.pure fun s hs => ?_
    · refine y02_Outs.ite ?_ (y02_Outs.pure (fun o ho => by cases ho))
      cases hub : tv.upperBound with
      | none =>
        dsimp only
        exact y02_Outs.pure fun s hs => by rw [List.mem_singleton.1 hs]; exact hname
      | some u =>
        dsimp only
        rw [hub] at htv
        refine y02_Outs.bind (y02_typeStr_outs env u htv.2) fun us hus => y02_Outs.pure fun s hs => ?_
        rw [List.mem_singleton.1 hs]
        exact y02_CS_append (y02_CS_append hname (y02_CS_of_bal (by decide))) hus
    · rcases List.mem_append.1 hs with h1 | h1
      · exact hhere s h1
      · exact hrest s h1

/-! ### symbolic execution of the scanner over a concatenation -/

theorem y02_scan_end {s : String} (h : y02_CS s) (stk : Stack) : scan .code stk s.toList = some (.code, stk) := h stk

theorem y02_open_paren (stk : Stack) (q : List Char) : scan .code stk ("(".toList ++ q) = scan .code (')' :: stk) q :=
  y02_scan_lit (pops := []) (pushes := [')']) (by decide) stk q
theorem y02_close_paren (stk : Stack) (q : List Char) : scan .code (')' :: stk) (")".toList ++ q) = scan .code stk q :=
  y02_scan_lit (pops := [')']) (pushes := []) (by decide) stk q
theorem y02_open_brace (stk : Stack) (q : List Char) : scan .code stk (" {".toList ++ q) = scan .code ('}' :: stk) q :=
  y02_scan_lit (pops := []) (pushes := ['}']) (by decide) stk q
theorem y02_close_brace (stk : Stack) : scan .code ('}' :: stk) "}".toList = some (.code, stk) := by
  have := y02_scan_lit (l := "}".toList) (m := .code) (m' := .code) (pops := ['}']) (pushes := []) (by decide) stk []
  rw [List.append_nil] at this
  exact this

theorem y02_functionText_cs {todo doc indent ann static name tvi fp rs : String}
    (h1 : y02_CS todo) (h2 : y02_CS doc) (h3 : y02_CS indent) (h4 : y02_CS ann) (h5 : y02_CS static)
    (h6 : y02_CS name) (h7 : y02_CS tvi) (h8 : y02_CS fp) (h9 : y02_CS rs) :
    y02_CS (todo ++ doc ++ indent ++ "@Pure\n" ++ ann ++ indent ++ static ++ "fun " ++ name
        ++ tvi ++ "(" ++ fp ++ ")" ++ rs) := by
  intro stk
  have l1 : y02_CS "@Pure\n" := y02_CS_of_bal (by decide)
  have l2 : y02_CS "fun " := y02_CS_of_bal (by decide)
  simp only [String.toList_append, List.append_assoc, y02_scan_cs h1, y02_scan_cs h2, y02_scan_cs h3, y02_scan_cs h4,
    y02_scan_cs h5, y02_scan_cs h6, y02_scan_cs h7, y02_scan_cs h8, y02_scan_cs l1, y02_scan_cs l2, y02_open_paren,
    y02_close_paren, y02_scan_end h9]

theorem y02_functionBody_outs (env : Env) (f : Function) (indent : String) (isMethod : Bool)
    (h : functionBal f = true) (hi : y02_spaces indent)
    (hdoc : y02_CS (sdsDocstring env.safe f.doc.description indent f.params f.resultDocs f.doc.examples)) :
    y02_Outs (functionBody env f indent isMethod) y02_CS := by
  unfold functionBal at h
  simp only [Bool.and_eq_true] at h
  obtain ⟨⟨⟨⟨⟨hn, _⟩, hps⟩, hrs⟩, htvs⟩, _⟩ := h
  unfold functionBody
  refine y02_Outs.seq fun _ => ?_
  dsimp only
  apply y02_Outs.ite
  on_goal 1 => refine y02_Outs.seq fun _ => ?_
  all_goals
    refine y02_Outs.bind (y02_createParameterString_outs env f.params indent _ hps hi) fun fp hfp => ?_
    refine y02_Outs.bind (y02_typeVarStrings_outs env isMethod f.typeVars htvs) fun tvs htv => ?_
    refine y02_Outs.bind (y02_createResultString_outs env f.results hrs) fun rs hrs' => ?_
    refine y02_Outs.bind (y02_createTodoMsg_outs hi) fun todo htodo => y02_Outs.pure ?_
    have hind := y02_CS_spaces hi
    refine y02_functionText_cs htodo hdoc hind ?_ ?_ (y02_CS_name env.safe false hn) ?_ hfp hrs'
    · exact y02_CS_ite (y02_CS_append (y02_CS_append hind (y02_CS_nameAnnotation (lx_convertible_safe hn)))
        (y02_CS_of_bal (by decide))) y02_CS_empty
    · exact y02_CS_ite (y02_CS_of_bal (by decide)) y02_CS_empty
    · exact y02_CS_ite y02_CS_empty (y02_CS_bracketed "<" ">" ['>'] (by decide) (by decide) (y02_CS_commaSep _ htv))

theorem y02_createFunctionString_outs (env : Env) (f : Function) (indent : String) (isMethod inRe : Bool)
    (h : functionBal f = true) (hi : y02_spaces indent)
    (hdoc : y02_CS (sdsDocstring env.safe f.doc.description indent f.params f.resultDocs f.doc.examples)) :
    y02_Outs (createFunctionString env f indent isMethod inRe) y02_CS := by
  rw [createFunctionString_eq]
  have hb := y02_functionBody_outs env f indent isMethod h hi hdoc
  refine y02_Outs.ite (y02_Outs.seq fun b => ?_) hb
  exact y02_Outs.ite (y02_Outs.seq fun _ => y02_Outs.pure y02_CS_empty) hb

/-! ### documentation comments

`y02_DS s`: read inside a block comment, starting after a character that is not `*`, the text `s` does
not contain the terminator and ends after a character that is not `*` (all pieces the generator puts
into a documentation comment end with a line break). -/

def y02_DS (s : String) : Prop := lx_scan false s.toList = some false

theorem y02_DS_empty : y02_DS "" := rfl

theorem y02_DS_append {a b : String} (ha : y02_DS a) (hb : y02_DS b) : y02_DS (a ++ b) := by
  unfold y02_DS at *
  rw [String.toList_append, lx_scan_append, ha]; exact hb

theorem y02_DS_ite {c : Prop} [Decidable c] {a b : String} (ha : y02_DS a) (hb : y02_DS b) :
    y02_DS (if c then a else b) := by split <;> assumption

theorem y02_DS_join : (l : List String) → (∀ s ∈ l, y02_DS s) → y02_DS (String.join l)
  | [], _ => y02_DS_empty
  | a :: l, h => by
    rw [String.join_cons]
    exact y02_DS_append (h a (by simp)) (y02_DS_join l fun s hs => h s (by simp [hs]))

theorem y02_lx_nostar {l : List Char} (h : '*' ∉ l) : lx_scan false l = some false := by
  induction l with
  | nil => rfl
  | cons c l ih =>
    rw [lx_scan]
    have hc : c ≠ '*' := fun e => h (by simp [e])
    simp only [Bool.false_and, Bool.false_eq_true, if_false, hc, decide_false]
    exact ih fun hm => h (by simp [hm])

theorem y02_DS_nostar {s : String} (h : '*' ∉ s.toList) : y02_DS s := y02_lx_nostar h

theorem y02_DS_spaces {s : String} (h : y02_spaces s) : y02_DS s := by
  apply y02_DS_nostar
  intro hm
  unfold y02_spaces at h
  rw [List.all_eq_true] at h
  have := h _ hm
  simp at this

theorem y02_DS_identChars {s : String} (h : s.toList.all isIdentChar = true) : y02_DS s := by
  apply y02_DS_nostar
  intro hm
  rw [List.all_eq_true] at h
  exact absurd (h _ hm) (by decide)

theorem y02_DS_lit {s : String} (h : lx_scan false s.toList = some false) : y02_DS s := h

/-- a description part after the ` * ` of its first line -/
theorem y02_DS_descriptionPart {d indent : String} (hd : commentBodySafe d = true) (hi : y02_spaces indent) :
    y02_DS (descriptionPart d indent) :=
  lx_descriptionPart_scan d indent hd (lx_spaces_safe indent hi)

/-- lines joined with the continuation prefix, closed by a line break -/
theorem y02_DS_contLines {indent : String} (hi : y02_spaces indent) : (lines : List String) →
    (∀ l ∈ lines, (lx_scan false l.toList).isSome = true) →
    y02_DS (joinWith ("\n" ++ indent ++ " * ") lines ++ "\n")
  | [], _ => by unfold y02_DS; rw [joinWith]; decide
  | [a], h => by
    obtain ⟨b, hb⟩ := Option.isSome_iff_exists.mp (h a (by simp))
    unfold y02_DS
    rw [joinWith, String.toList_append, lx_scan_append, hb]
    show lx_scan b ('\n' :: []) = _
    rw [lx_scan_nl]; rfl
  | a :: b :: l, h => by
    obtain ⟨ba, hba⟩ := Option.isSome_iff_exists.mp (h a (by simp))
    have ih := y02_DS_contLines hi (b :: l) fun x hx => h x (by simp only [List.mem_cons] at hx ⊢; right; exact hx)
    rw [joinWith]
    · unfold y02_DS at ih ⊢
      have e : (a ++ ("\n" ++ indent ++ " * ") ++ joinWith ("\n" ++ indent ++ " * ") (b :: l) ++ "\n").toList
          = a.toList ++ '\n' :: (indent.toList ++ ' ' :: '*' :: ' ' ::
              (joinWith ("\n" ++ indent ++ " * ") (b :: l) ++ "\n").toList) := by
        simp [String.toList_append]
      rw [e, lx_scan_append, hba]
      show lx_scan ba ('\n' :: _) = _
      rw [lx_scan_nl, lx_scan_append, y02_DS_spaces hi]
      show lx_scan false (' ' :: '*' :: ' ' :: _) = _
      rw [lx_scan_sp, lx_scan_star, lx_scan_sp]
      exact ih
    · intro e; cases e

theorem y02_lines_safe {d : String} (hd : commentBodySafe d = true) :
    ∀ l ∈ splitLines d, (lx_scan false l.toList).isSome = true := by
  intro part hp
  unfold splitLines pySplit at hp
  obtain ⟨q, hq, rfl⟩ := List.mem_map.mp hp
  rw [String.toList_ofList]
  exact lx_scan_infix (lx_splitOnChar_infix '\n' _ q hq) ((lx_safe_iff d).mp hd)

/-- `/**`, lines, ` */` -/
theorem y02_CS_docComment {indent body : String} (hi : y02_spaces indent) (hb : y02_DS body) :
    y02_CS (indent ++ "/**\n" ++ body ++ indent ++ " */\n") := by
  have e : (indent ++ "/**\n" ++ body ++ indent ++ " */\n").toList
      = indent.toList ++ (('/' :: '*' :: (('*' :: '\n' :: (body.toList ++ (indent.toList ++ [' ']))) ++ ['*', '/'])) ++ ['\n']) := by
    simp [String.toList_append]
  unfold y02_CS
  rw [e]
  refine y02_closed_append (y02_CS_spaces hi) (y02_closed_append (y02_closed_blockComment false ?_) ?_)
  · rw [lx_scan_star, lx_scan_nl, lx_scan_append, hb]
    show lx_scan false (indent.toList ++ [' ']) = _
    rw [lx_scan_append, y02_DS_spaces hi]; rfl
  · exact y02_closed_of_bal (by decide)

theorem y02_CS_sdsDocstringDescription {d indent : String} (hd : commentBodySafe d = true) (hi : y02_spaces indent) :
    y02_CS (sdsDocstringDescription d indent) := by
  unfold sdsDocstringDescription
  refine y02_CS_ite y02_CS_empty ?_
  have e : indent ++ "/**\n" ++ indent ++ " * " ++ descriptionPart d indent ++ indent ++ " */\n"
      = indent ++ "/**\n" ++ (indent ++ " * " ++ descriptionPart d indent) ++ indent ++ " */\n" := by
    simp only [String.append_assoc]
  rw [e]
  exact y02_CS_docComment hi (y02_DS_append (y02_DS_append (y02_DS_spaces hi) (y02_DS_lit (by decide)))
    (y02_DS_descriptionPart hd hi))

/-! #### examples: `>>>` and `...` are replaced by `//` -/

theorem y02_splitOnStrAux_chars (sep : List Char) : ∀ (l : List Char) (k : Nat), ∀ p ∈ splitOnStrAux sep k l, ∀ c ∈ p, c ∈ l
  | [], k => by
    intro p hp c hc
    cases k <;> (rw [splitOnStrAux] at hp; rw [List.mem_singleton.1 hp] at hc; cases hc)
  | x :: l, k + 1 => by
    intro p hp c hc
    rw [splitOnStrAux] at hp
    exact List.mem_cons_of_mem _ (y02_splitOnStrAux_chars sep l k p hp c hc)
  | x :: l, 0 => by
    intro p hp c hc
    rw [splitOnStrAux] at hp
    split at hp
    · rcases List.mem_cons.1 hp with rfl | hp
      · cases hc
      · exact List.mem_cons_of_mem _ (y02_splitOnStrAux_chars sep l _ p hp c hc)
    · have ih := y02_splitOnStrAux_chars sep l 0
      split at hp
      · rw [List.mem_singleton.1 hp] at hc
        rw [List.mem_singleton.1 hc]; exact List.mem_cons_self
      · rename_i q qs hq
        rw [hq] at ih
        rcases List.mem_cons.1 hp with rfl | hp
        · rcases List.mem_cons.1 hc with rfl | hc
          · exact List.mem_cons_self
          · exact List.mem_cons_of_mem _ (ih q (by simp) c hc)
        · exact List.mem_cons_of_mem _ (ih p (by simp [hp]) c hc)

theorem y02_joinWith_chars (sep : String) : ∀ (ps : List String) (c : Char), c ∈ (joinWith sep ps).toList →
    c ∈ sep.toList ∨ ∃ p ∈ ps, c ∈ p.toList
  | [], c, h => by rw [joinWith] at h; cases h
  | [a], c, h => by rw [joinWith] at h; exact Or.inr ⟨a, by simp, h⟩
  | a :: b :: l, c, h => by
    rw [joinWith] at h
    · rw [String.toList_append, String.toList_append, List.mem_append, List.mem_append] at h
      rcases h with (h | h) | h
      · exact Or.inr ⟨a, by simp, h⟩
      · exact Or.inl h
      · rcases y02_joinWith_chars sep (b :: l) c h with h1 | ⟨p, hp, hc⟩
        · exact Or.inl h1
        · exact Or.inr ⟨p, List.mem_cons_of_mem _ hp, hc⟩
    · intro e; cases e

theorem y02_pyReplace_nostar (s a : String) (h : '*' ∉ s.toList) : '*' ∉ (pyReplace s a "//").toList := by
  intro hm
  unfold pyReplace at hm
  rcases y02_joinWith_chars "//" _ '*' hm with h1 | ⟨p, hp, hc⟩
  · revert h1; decide
  · unfold pySplitStr at hp
    split at hp
    · rw [List.mem_singleton.1 hp] at hc; exact h hc
    · obtain ⟨q, hq, rfl⟩ := List.mem_map.1 hp
      rw [String.toList_ofList] at hc
      exact h (y02_splitOnStrAux_chars _ _ _ q hq _ hc)

theorem y02_DS_exampleText {indent ex : String} (hi : y02_spaces indent) (he : exampleBal ex = true) :
    y02_DS (exampleText indent ex) := by
  have hns : '*' ∉ ex.toList := by
    unfold exampleBal at he
    simpa using he
  have hind := y02_DS_spaces hi
  have hnl : y02_DS "\n" := y02_DS_lit (by decide)
  unfold exampleText
  refine y02_DS_append (y02_DS_append (y02_DS_append (y02_DS_append (y02_DS_append (y02_DS_append hind
    (y02_DS_lit (by decide))) hind) (y02_DS_lit (by decide))) (y02_DS_join _ ?_)) hind) (y02_DS_lit (by decide))
  intro s hs
  obtain ⟨part, hpart, rfl⟩ := List.mem_map.1 hs
  have hp : '*' ∉ part.toList := by
    unfold splitLines pySplit at hpart
    obtain ⟨q, hq, rfl⟩ := List.mem_map.mp hpart
    rw [String.toList_ofList]
    exact fun hm => hns ((lx_splitOnChar_infix '\n' _ q hq).subset hm)
  have hline : ∀ a : String, y02_DS (indent ++ " *     " ++ pyReplace part a "//" ++ "\n") := fun a =>
    y02_DS_append (y02_DS_append (y02_DS_append hind (y02_DS_lit (by decide)))
      (y02_DS_nostar (y02_pyReplace_nostar part a hp))) hnl
  exact y02_DS_ite (hline _) (y02_DS_ite (hline _) y02_DS_empty)

/-! #### parameter and result entries -/

theorem y02_DS_convertName {n : String} (safe : Bool) (h : Convertible n.toList = true) :
    y02_DS (convertName n safe) := y02_DS_identChars (lx_isIdent_all (y02_convertName_ident safe false h))

theorem y02_DS_resultDocLines (safe : Bool) {indent : String} (hi : y02_spaces indent) : (rds : List ResultDoc) →
    rds.all resultDocBal = true → ∀ k, y02_DS (resultDocLines safe indent k rds)
  | [], _, k => by rw [resultDocLines]; exact y02_DS_empty
  | rd :: rest, h, k => by
    rw [List.all_cons, Bool.and_eq_true] at h
    have ih := y02_DS_resultDocLines safe hi rest h.2
    have hrd := h.1
    unfold resultDocBal at hrd
    rw [Bool.and_eq_true, Bool.or_eq_true] at hrd
    rw [resultDocLines]
    split
    · dsimp only
      have hname : ∀ kk, y02_DS (convertName (if rd.name != "" then (rd.name, k) else (resultName k, kk)).1 safe) := by
        intro kk
        split
        · rename_i hne
          rcases hrd.2 with h1 | h1
          · simp [bne, h1] at hne
          · exact y02_DS_convertName safe h1
        · exact y02_DS_convertName safe (y02_numbered_convertible "result_" k (Or.inr rfl))
      have e : ∀ (a b c d e f : String), a ++ b ++ c ++ d ++ e ++ "\n" ++ f = a ++ b ++ c ++ d ++ (e ++ "\n") ++ f := by
        intros; simp only [String.append_assoc]
      rw [e]
      refine y02_DS_append (y02_DS_append (y02_DS_append (y02_DS_append (y02_DS_append (y02_DS_spaces hi)
        (y02_DS_lit (by decide))) (hname _)) (y02_DS_lit (by decide)))
        (y02_DS_contLines hi _ (y02_lines_safe hrd.1))) ?_
      split <;> exact ih _
    · exact ih k

theorem y02_CS_sdsDocstring (safe : Bool) {d indent : String} {ps : List Parameter} {rds : List ResultDoc}
    {exs : List String} (hi : y02_spaces indent) (hd : commentBodySafe d = true)
    (hps : ∀ p ∈ ps, Convertible p.name.toList = true ∧ commentBodySafe p.doc.description = true)
    (hrds : rds.all resultDocBal = true) (hexs : exs.all exampleBal = true) :
    y02_CS (sdsDocstring safe d indent ps rds exs) := by
  have hind := y02_DS_spaces hi
  have hsep : y02_DS (indent ++ " *\n") := y02_DS_append hind (y02_DS_lit (by decide))
  have h1 : y02_DS (if d != "" then indent ++ " * " ++ descriptionPart d indent else "") :=
    y02_DS_ite (y02_DS_append (y02_DS_append hind (y02_DS_lit (by decide))) (y02_DS_descriptionPart hd hi)) y02_DS_empty
  have h2 : y02_DS (String.join (ps.filterMap fun p =>
      if p.doc.description == "" then none
      else some (indent ++ " * @param " ++ convertName p.name safe ++ " " ++ descriptionPart p.doc.description indent))) := by
    refine y02_DS_join _ fun s hs => ?_
    obtain ⟨p, hp, hps'⟩ := List.mem_filterMap.1 hs
    split at hps'
    · cases hps'
    · cases hps'
      obtain ⟨hn, hdd⟩ := hps p hp
      exact y02_DS_append (y02_DS_append (y02_DS_append (y02_DS_append hind (y02_DS_lit (by decide)))
        (y02_DS_convertName safe hn)) (y02_DS_lit (by decide))) (y02_DS_descriptionPart hdd hi)
  have h3 := y02_DS_resultDocLines safe hi rds hrds 1
  have h4 : y02_DS (joinWith (indent ++ " *\n") (exs.map (exampleText indent))) := by
    have : ∀ (l : List String), (∀ s ∈ l, y02_DS s) → y02_DS (joinWith (indent ++ " *\n") l) := by
      intro l
      induction l with
      | nil => intro _; exact y02_DS_empty
      | cons a l ih =>
        intro h
        cases l with
        | nil => exact h a (by simp)
        | cons b l =>
          rw [joinWith]
          · exact y02_DS_append (y02_DS_append (h a (by simp)) hsep)
              (ih fun s hs => h s (by simp only [List.mem_cons] at hs ⊢; right; exact hs))
          · intro e; cases e
    refine this _ fun s hs => ?_
    obtain ⟨ex, hex, rfl⟩ := List.mem_map.1 hs
    exact y02_DS_exampleText hi (List.all_eq_true.1 hexs ex hex)
  unfold sdsDocstring
  dsimp only
  refine y02_CS_ite ?_ y02_CS_empty
  refine y02_CS_docComment hi ?_
  refine y02_DS_append (y02_DS_ite (y02_DS_append (y02_DS_append ?_ hind) (y02_DS_lit (by decide))) ?_) h4
  all_goals
    exact y02_DS_append (y02_DS_append h1 (y02_DS_ite (y02_DS_append hsep h2) h2))
      (y02_DS_ite (y02_DS_append hsep h3) h3)

theorem y02_paramDocs_of_bal {ps : List Parameter} (h : ps.all paramBal = true) :
    ∀ p ∈ ps, Convertible p.name.toList = true ∧ commentBodySafe p.doc.description = true := by
  intro p hp
  have := List.all_eq_true.1 h p hp
  unfold paramBal at this
  simp only [Bool.and_eq_true] at this
  exact ⟨this.1.1.1, this.2⟩

/-- functions: the text returned by `createFunctionString` -/
theorem y02_function_outs (env : Env) (f : Function) (indent : String) (isMethod inRe : Bool)
    (h : functionBal f = true) (hi : y02_spaces indent) :
    y02_Outs (createFunctionString env f indent isMethod inRe) y02_CS := by
  refine y02_createFunctionString_outs env f indent isMethod inRe h hi ?_
  unfold functionBal docBal at h
  simp only [Bool.and_eq_true] at h
  obtain ⟨⟨⟨⟨⟨_, hd, hex⟩, hps⟩, _⟩, _⟩, hrd⟩ := h
  exact y02_CS_sdsDocstring env.safe hi hd (y02_paramDocs_of_bal hps) hrd hex

theorem y02_typesBal_filterMap : (rs : List Result) → rs.all resultBal = true → typesBal (rs.filterMap (·.type)) = true
  | [], _ => rfl
  | r :: rs, h => by
    rw [List.all_cons, Bool.and_eq_true] at h
    have ih := y02_typesBal_filterMap rs h.2
    rw [List.filterMap_cons]
    cases hrt : r.type with
    | none => exact ih
    | some t =>
      have hr := h.1
      unfold resultBal at hr
      rw [Bool.and_eq_true, hrt] at hr
      dsimp only
      rw [typesBal, Bool.and_eq_true]
      exact ⟨hr.2, ih⟩

theorem y02_property_outs (env : Env) (f : Function) (indent : String) (h : functionBal f = true)
    (hi : y02_spaces indent) : y02_Outs (createPropertyFunctionString env f indent) y02_CS := by
  unfold functionBal docBal at h
  simp only [Bool.and_eq_true] at h
  obtain ⟨⟨⟨⟨⟨hn, hd, _⟩, _⟩, hrs⟩, _⟩, _⟩ := h
  unfold createPropertyFunctionString
  refine y02_Outs.seq fun _ => ?_
  have hty : typeBal (.union (f.results.filterMap (·.type))) = true := by
    rw [typeBal]; exact y02_typesBal_filterMap _ hrs
  refine y02_Outs.bind (y02_typeStr_outs env _ hty) fun pt hpt => ?_
  refine y02_Outs.bind (y02_createTodoMsg_outs hi) fun todo htodo => y02_Outs.pure ?_
  refine y02_CS_append (y02_CS_append (y02_CS_append (y02_CS_append (y02_CS_append (y02_CS_append htodo
    (y02_CS_sdsDocstringDescription hd hi)) (y02_CS_spaces hi)) ?_) (y02_CS_of_bal (by decide)))
    (y02_CS_name env.safe false hn)) (y02_CS_colonType hpt)
  exact y02_CS_ite (y02_CS_append (y02_CS_nameAnnotation (lx_convertible_safe hn)) (y02_CS_of_bal (by decide)))
    y02_CS_empty

theorem y02_typeStrOpt_outs (env : Env) (t : Option AType) (h : optTypeBal t = true) :
    y02_Outs (typeStrOpt env t) y02_CS := by
  cases t with
  | none => exact y02_Outs.pure y02_CS_empty
  | some t => exact y02_typeStr_outs env t h

theorem y02_attribute_outs (env : Env) (a : Attribute) (inner : String) (h : attributeBal a = true)
    (hi : y02_spaces inner) : y02_Outs (createAttribute env a inner) (fun r => ∀ t, r = some t → y02_CS t) := by
  unfold attributeBal at h
  simp only [Bool.and_eq_true] at h
  obtain ⟨⟨hn, ht⟩, hd⟩ := h
  unfold createAttribute
  refine y02_Outs.ite (y02_Outs.pure (fun t ht => by cases ht)) ?_
  refine y02_Outs.ite (y02_Outs.pure (fun t ht => by cases ht)) ?_
  refine y02_Outs.seq fun _ => ?_
  refine y02_Outs.bind (y02_typeStrOpt_outs env a.type ht) fun at_ hat => ?_
  dsimp only
  have tail : ∀ u : Unit, y02_Outs (do
      let todo ← createTodoMsg inner
      pure (some (todo ++ sdsDocstring env.safe a.doc.description inner [] [] [] ++ inner
        ++ (if convertName a.name env.safe != a.name then nameAnnotation a.name ++ "\n" ++ inner else "")
        ++ (if a.isStatic then "static " else "") ++ "attr " ++ escapeKeyword (convertName a.name env.safe)
        ++ (if at_ != "" then ": " ++ at_ else "")) : Option String) : G (Option String))
      (fun r => ∀ t, r = some t → y02_CS t) := by
    intro _
    refine y02_Outs.bind (y02_createTodoMsg_outs hi) fun todo htodo => y02_Outs.pure fun t ht => ?_
    cases ht
    have hind := y02_CS_spaces hi
    refine y02_CS_append (y02_CS_append (y02_CS_append (y02_CS_append (y02_CS_append (y02_CS_append (y02_CS_append htodo
      ?_) hind) ?_) ?_) (y02_CS_of_bal (by decide))) (y02_CS_name env.safe false hn)) (y02_CS_colonType hat)
    · exact y02_CS_sdsDocstring env.safe hi hd (fun p hp => by cases hp) rfl rfl
    · exact y02_CS_ite (y02_CS_append (y02_CS_append (y02_CS_nameAnnotation (lx_convertible_safe hn))
        (y02_CS_of_bal (by decide))) hind) y02_CS_empty
    · exact y02_CS_ite (y02_CS_of_bal (by decide)) y02_CS_empty
  exact y02_Outs.ite (y02_Outs.seq tail) (tail ())

theorem y02_createAttributes_outs (env : Env) (inner : String) (hi : y02_spaces inner) : (as : List Attribute) →
    as.all attributeBal = true → y02_Outs (createAttributes env inner as) (fun r => ∀ t ∈ r.1, y02_CS t)
  | [], _ => by rw [createAttributes]; exact y02_Outs.pure (fun t ht => by cases ht)
  | a :: as, h => by
    rw [List.all_cons, Bool.and_eq_true] at h
    rw [createAttributes]
    refine y02_Outs.bind (y02_attribute_outs env a inner h.1 hi) fun r hr => ?_
    refine y02_Outs.bind (y02_createAttributes_outs env inner hi as h.2) fun ⟨texts, names⟩ hrest => ?_
    cases r with
    | none => exact y02_Outs.pure hrest
    | some t =>
      refine y02_Outs.pure fun s hs => ?_
      rcases List.mem_cons.1 hs with rfl | hs
      · exact hr _ rfl
      · exact hrest s hs

theorem y02_CS_nl : y02_CS "\n" := y02_CS_of_bal (by decide)

theorem y02_createClassAttributeString_outs (env : Env) (as : List Attribute) (inner : String) (hi : y02_spaces inner)
    (h : as.all attributeBal = true) : y02_Outs (createClassAttributeString env as inner) (fun r => y02_CS r.1) := by
  unfold createClassAttributeString
  refine y02_Outs.bind (y02_createAttributes_outs env inner hi as h) fun ⟨texts, names⟩ ht => y02_Outs.pure ?_
  exact y02_CS_ite y02_CS_empty (y02_CS_append (y02_CS_append y02_CS_nl (y02_CS_joinWith y02_CS_nl _ ht)) y02_CS_nl)

theorem y02_createMethods_outs (env : Env) (inner : String) (hi : y02_spaces inner) (isInt : Bool) (ad : List String) :
    (ms : List Function) → ms.all functionBal = true →
    y02_Outs (createMethods env inner isInt ad ms) (fun r => (∀ t ∈ r.1, y02_CS t) ∧ (∀ t ∈ r.2.1, y02_CS t))
  | [], _ => by rw [createMethods]; exact y02_Outs.pure ⟨fun t ht => (by cases ht), fun t ht => (by cases ht)⟩
  | m :: ms, h => by
    rw [List.all_cons, Bool.and_eq_true] at h
    have ih := y02_createMethods_outs env inner hi isInt ad ms h.2
    rw [createMethods]
    refine y02_Outs.ite ih (y02_Outs.ite ?_ ?_)
    · refine y02_Outs.bind (y02_property_outs env m inner h.1 hi) fun t ht => ?_
      refine y02_Outs.bind ih fun ⟨props, meths, names⟩ hr => y02_Outs.pure ⟨fun s hs => ?_, hr.2⟩
      rcases List.mem_cons.1 hs with rfl | hs
      · exact ht
      · exact hr.1 s hs
    · refine y02_Outs.bind (y02_function_outs env m inner true false h.1 hi) fun t ht => ?_
      refine y02_Outs.bind ih fun ⟨props, meths, names⟩ hr => y02_Outs.pure ⟨hr.1, fun s hs => ?_⟩
      rcases List.mem_cons.1 hs with rfl | hs
      · exact ht
      · exact hr.2 s hs

theorem y02_createClassMethodString_outs (env : Env) (ms : List Function) (inner : String) (hi : y02_spaces inner)
    (isInt : Bool) (ad : List String) (h : ms.all functionBal = true) :
    y02_Outs (createClassMethodString env ms inner isInt ad) (fun r => y02_CS r.1) := by
  unfold createClassMethodString
  refine y02_Outs.bind (y02_createMethods_outs env inner hi isInt ad ms h) fun ⟨props, meths, names⟩ hr =>
    y02_Outs.pure ?_
  refine y02_CS_append (y02_CS_ite y02_CS_empty ?_) (y02_CS_ite y02_CS_empty ?_)
  · exact y02_CS_append (y02_CS_append y02_CS_nl (y02_CS_joinWith y02_CS_nl _ hr.1)) y02_CS_nl
  · exact y02_CS_append (y02_CS_append y02_CS_nl (y02_CS_joinWith (y02_CS_of_bal (by decide)) _ hr.2)) y02_CS_nl

theorem y02_varianceKeyword_outs (v : Variance) : y02_Outs (varianceKeyword v) y02_CS := by
  cases v <;> exact y02_Outs.pure (y02_CS_of_bal (by decide))

theorem y02_typeParamStrings_outs (env : Env) : (tps : List TypeParam) → tps.all typeParamBal = true →
    y02_Outs (typeParamStrings env tps) (fun l => ∀ s ∈ l, y02_CS s)
  | [], _ => by rw [typeParamStrings]; exact y02_Outs.pure (fun t ht => by cases ht)
  | tp :: tps, h => by
    rw [List.all_cons, Bool.and_eq_true] at h
    have htp := h.1
    unfold typeParamBal at htp
    rw [Bool.and_eq_true] at htp
    have hname := y02_CS_name env.safe false htp.1
    rw [typeParamStrings]
    refine y02_Outs.bind (y02_varianceKeyword_outs tp.variance) fun dir hdir => ?_
    dsimp only
    refine y02_Outs.bind (Q := y02_CS) ?_ fun item hitem =>
      y02_Outs.bind (y02_typeParamStrings_outs env tps h.2) fun rest hrest => y02_Outs.pure fun s hs => ?_
    · cases htt : tp.type with
      | none => exact y02_Outs.pure (y02_CS_append hdir hname)
      | some t =>
        rw [htt] at htp
        exact y02_Outs.bind (y02_typeStr_outs env t htp.2) fun ts hts =>
          y02_Outs.pure (y02_CS_append (y02_CS_append (y02_CS_append hdir hname) (y02_CS_of_bal (by decide))) hts)
    · rcases List.mem_cons.1 hs with rfl | hs
      · exact hitem
      · exact hrest s hs

theorem y02_innerClassesG_outs {render : Class → G String} : (cs : List Class) →
    (∀ c ∈ cs, y02_Outs (render c) y02_CS) → y02_Outs (innerClassesG render cs) y02_CS
  | [], _ => by rw [innerClassesG]; exact y02_Outs.pure y02_CS_empty
  | c :: cs, h => by
    rw [innerClassesG]
    refine y02_Outs.bind (h c (by simp)) fun s hs => ?_
    refine y02_Outs.bind (y02_innerClassesG_outs cs fun c' hc' => h c' (by simp [hc'])) fun rest hrest => ?_
    exact y02_Outs.pure (y02_CS_append (y02_CS_append (y02_CS_append y02_CS_nl hs) y02_CS_nl) hrest)

theorem y02_superclassesG_outs (env : Env) {inline : String → G String} (hin : ∀ sc, y02_Outs (inline sc) y02_CS) :
    (scs : List String) → scs.all superBal = true →
    y02_Outs (superclassesG env inline scs) (fun r => (∀ n ∈ r.1, y02_CS n) ∧ y02_CS r.2)
  | [], _ => by rw [superclassesG]; exact y02_Outs.pure ⟨fun t ht => (by cases ht), y02_CS_empty⟩
  | sc :: scs, h => by
    rw [List.all_cons, Bool.and_eq_true] at h
    have ih := y02_superclassesG_outs env hin scs h.2
    rw [superclassesG]
    dsimp only
    split
    · rename_i hpub
      have hsb := h.1
      unfold superBal at hsb
      rw [Bool.or_eq_true] at hsb
      have hid : isIdent (lastD "" (splitDot sc)).toList = true := by
        rcases hsb with h1 | h1
        · rw [h1] at hpub; simp at hpub
        · exact h1
      refine y02_Outs.seq fun _ => y02_Outs.bind ih fun ⟨names, text⟩ hr => y02_Outs.pure ⟨fun n hn => ?_, hr.2⟩
      rcases List.mem_cons.1 hn with rfl | hn
      · exact y02_CS_escapeKeyword hid
      · exact hr.1 n hn
    · refine y02_Outs.bind (hin sc) fun t ht => y02_Outs.bind ih fun ⟨names, text⟩ hr => y02_Outs.pure ⟨hr.1, ?_⟩
      exact y02_CS_append ht hr.2

theorem y02_internalSupersG_outs {inline : String → G String} (hin : ∀ sc, y02_Outs (inline sc) y02_CS) :
    (sss : List String) → y02_Outs (internalSupersG inline sss) y02_CS
  | [] => by rw [internalSupersG]; exact y02_Outs.pure y02_CS_empty
  | ss :: sss => by
    rw [internalSupersG]
    refine y02_Outs.bind (Q := y02_CS) (y02_Outs.ite (hin ss) (y02_Outs.pure y02_CS_empty)) fun t ht => ?_
    exact y02_Outs.bind (y02_internalSupersG_outs hin sss) fun rest hrest => y02_Outs.pure (y02_CS_append ht hrest)

theorem y02_classesBal_iff : (cs : List Class) → (classesBal cs = true ↔ ∀ c ∈ cs, classBal c = true)
  | [] => by rw [classesBal]; simp
  | c :: cs => by
    rw [classesBal, Bool.and_eq_true, y02_classesBal_iff cs]
    simp

/-- the parts of `classBal`, field by field -/
theorem y02_classBal_parts (c : Class) (h : classBal c = true) :
    Convertible c.name.toList = true ∧ docBal c.doc = true ∧
    (∀ k, c.ctor = some k → k.params.all paramBal = true ∧ k.typeVars.all typeVarBal = true) ∧
    c.attributes.all attributeBal = true ∧ c.methods.all functionBal = true ∧ c.typeParams.all typeParamBal = true ∧
    c.superclasses.all superBal = true ∧ (∀ c' ∈ c.classes, classBal c' = true) := by
  obtain ⟨id, name, supers, isPublic, doc, ctor, exc, reex, attrs, methods, cs, tps⟩ := c
  simp only [classBal, Bool.and_eq_true] at h
  obtain ⟨⟨⟨⟨⟨⟨⟨h1, h2⟩, h3⟩, h4⟩, h5⟩, h6⟩, h7⟩, h8⟩ := h
  refine ⟨h1, h2, ?_, h4, h5, h6, h7, (y02_classesBal_iff cs).1 h8⟩
  intro k hk
  dsimp only at hk
  subst hk
  simpa using h3

theorem y02_classText_cs {doc sig text indent : String} (h1 : y02_CS doc) (h2 : y02_CS sig) (h3 : y02_CS text)
    (h4 : y02_CS indent) : y02_CS (doc ++ sig ++ " {" ++ text ++ indent ++ "}") := by
  intro stk
  simp only [String.toList_append, List.append_assoc, y02_scan_cs h1, y02_scan_cs h2, y02_scan_cs h3, y02_scan_cs h4,
    y02_open_brace, y02_close_brace]

theorem y02_generics_cs (env : Env) (tvs : List TypeVar) (htv : tvs.all typeVarBal = true) :
    ∀ (items : List String), (∀ s ∈ items, y02_CS s) →
    ∀ s ∈ tvs.foldl (fun acc tv =>
          let n := escapeKeyword (convertName tv.name env.safe)
          if acc.contains n then acc else acc ++ [n]) items, y02_CS s := by
  induction tvs with
  | nil => intro items h; exact h
  | cons tv tvs ih =>
    rw [List.all_cons, Bool.and_eq_true] at htv
    intro items h
    rw [List.foldl_cons]
    apply ih htv.2
    dsimp only
    split
    · exact h
    · intro s hs
      rcases List.mem_append.1 hs with h1 | h1
      · exact h s h1
      · rw [List.mem_singleton.1 h1]
        have := htv.1
        unfold typeVarBal at this
        rw [Bool.and_eq_true] at this
        exact y02_CS_name env.safe false this.1

theorem y02_classBody_outs (env : Env) (fuel : Nat) (c : Class) (indent : String) (hc : classBal c = true)
    (hi : y02_spaces indent)
    (ihC : ∀ c' indent', classBal c' = true → y02_spaces indent' →
      y02_Outs (createClassString env fuel c' indent' true) y02_CS)
    (ihI : ∀ sc inner ad, y02_spaces inner → y02_Outs (createInternalClassString env fuel sc inner ad) y02_CS) :
    y02_Outs (classBody env fuel c indent) y02_CS := by
  obtain ⟨hn, hdoc, hctor, hattrs, hmeths, htps, hsupers, hinner⟩ := y02_classBal_parts c hc
  have hii := y02_spaces_inner hi
  have hind := y02_CS_spaces hi
  unfold classBody
  refine y02_Outs.seq fun _ => ?_
  -- constructor
  refine y02_Outs.bind (Q := y02_CS) ?_ fun ci hci => ?_
  · refine y02_Outs.ite (y02_Outs.pure y02_CS_empty) ?_
    refine y02_Outs.bind (Q := y02_CS) ?_ fun p hp =>
      y02_Outs.pure (y02_CS_bracketed "(" ")" [')'] (by decide) (by decide) hp)
    cases hk : c.ctor with
    | none => exact y02_Outs.pure y02_CS_empty
    | some k => exact y02_createParameterString_outs env k.params indent true (hctor k hk).1 hi
  refine y02_Outs.seq fun _ => y02_Outs.seq fun _ => ?_
  -- generics
  refine y02_Outs.bind (Q := y02_CS) ?_ fun vi hvi => ?_
  · refine y02_Outs.ite ?_ (y02_Outs.pure y02_CS_empty)
    refine y02_Outs.bind (y02_typeParamStrings_outs env c.typeParams htps) fun items hitems => ?_
    refine y02_Outs.seq fun _ => y02_Outs.pure ?_
    refine y02_CS_ite y02_CS_empty (y02_CS_bracketed "<" ">" ['>'] (by decide) (by decide) (y02_CS_commaSep _ ?_))
    refine y02_generics_cs env _ ?_ items hitems
    cases hk : c.ctor with
    | none => rfl
    | some k => exact (hctor k hk).2
  refine y02_Outs.bind (y02_createTodoMsg_outs hi) fun t1 ht1 => ?_
  refine y02_Outs.bind (y02_createClassAttributeString_outs env c.attributes _ hii hattrs) fun ⟨attrText, attrNames⟩ hat => ?_
  refine y02_Outs.bind (y02_innerClassesG_outs _ fun c' hc' =>
    ihC c' _ (hinner c' (List.mem_of_mem_filter hc')) hii) fun innerText hit => ?_
  refine y02_Outs.bind (y02_createClassMethodString_outs env c.methods _ hii false [] hmeths)
    fun ⟨methodText, methodNames⟩ hmt => ?_
  dsimp only
  refine y02_Outs.bind (Q := fun r => y02_CS r.1 ∧ y02_CS r.2.1) ?_ fun ⟨superInfo, superMethodsText, nNames⟩ hsi => ?_
  · refine y02_Outs.ite ?_ (y02_Outs.pure ⟨y02_CS_empty, y02_CS_empty⟩)
    have hsupers' : c.renderedSupers.all superBal = true := by
      rw [List.all_eq_true] at hsupers ⊢
      exact fun x hx => hsupers x (List.mem_filter.mp hx).1
    refine y02_Outs.bind (y02_superclassesG_outs env (fun sc => ihI sc _ _ hii) c.renderedSupers hsupers')
      fun ⟨names, text⟩ hr => y02_Outs.pure ⟨?_, hr.2⟩
    exact y02_CS_ite y02_CS_empty (y02_CS_append (y02_CS_of_bal (by decide)) (y02_CS_commaSep _ hr.1))
  dsimp only
  apply y02_Outs.ite
  on_goal 1 => refine y02_Outs.seq fun _ => ?_
  all_goals
    refine y02_Outs.bind (y02_createTodoMsg_outs hi) fun t2 ht2 => ?_
    refine y02_Outs.seq fun _ => y02_Outs.seq fun _ => ?_
    have hdocs : y02_CS (sdsDocstring env.safe c.doc.description indent
        (match c.ctor with | some ctor => ctor.params | none => []) [] c.doc.examples) := by
      unfold docBal at hdoc
      rw [Bool.and_eq_true] at hdoc
      refine y02_CS_sdsDocstring env.safe hi hdoc.1 ?_ rfl hdoc.2
      cases hk : c.ctor with
      | none => intro p hp; cases hp
      | some k => exact y02_paramDocs_of_bal (hctor k hk).1
    have hsig : y02_CS ((if convertName c.name env.safe true != c.name then indent ++ nameAnnotation c.name ++ "\n" else "")
        ++ indent ++ t1 ++ t2 ++ "class " ++ escapeKeyword (convertName c.name env.safe true) ++ vi ++ ci ++ superInfo) := by
      refine y02_CS_append (y02_CS_append (y02_CS_append (y02_CS_append (y02_CS_append (y02_CS_append (y02_CS_append
        (y02_CS_append ?_ hind) ht1) ht2) (y02_CS_of_bal (by decide))) (y02_CS_name env.safe true hn)) hvi) hci) hsi.1
      exact y02_CS_ite (y02_CS_append (y02_CS_append hind (y02_CS_nameAnnotation (lx_convertible_safe hn))) y02_CS_nl)
        y02_CS_empty
    refine y02_Outs.ite (y02_Outs.pure (y02_CS_append hdocs hsig)) (y02_Outs.pure ?_)
    exact y02_classText_cs hdocs hsig (y02_CS_append (y02_CS_append (y02_CS_append hat hit) hsi.2) hmt) hind

theorem y02_getClassInPackage_mem (env : Env) (q : String) (c : Class) (h : getClassInPackage env q = .ok c) :
    c ∈ env.api.classes := by
  unfold getClassInPackage at h
  dsimp only at h
  split at h
  · rename_i c' hf
    cases h
    exact List.mem_of_find?_eq_some hf
  · split at h
    · rename_i c' hf
      cases h
      exact List.mem_of_find?_eq_some hf
    · cases h

theorem y02_internalClass_outs (env : Env) (hapi : ∀ c ∈ env.api.classes, classBal c = true) (fuel : Nat)
    (sc inner : String) (ad : List String) (hi : y02_spaces inner)
    (ihC : ∀ c' indent', classBal c' = true → y02_spaces indent' →
      y02_Outs (createClassString env fuel c' indent' true) y02_CS)
    (ihI : ∀ sc inner ad, y02_spaces inner → y02_Outs (createInternalClassString env fuel sc inner ad) y02_CS) :
    y02_Outs (createInternalClassString env (fuel + 1) sc inner ad) y02_CS := by
  rw [createInternalClassString]
  refine y02_Outs.bind (Q := fun c => classBal c = true) ?_ fun c hc => ?_
  · cases hg : getClassInPackage env sc with
    | error e => exact y02_Outs.throw
    | ok c => exact y02_Outs.pure (hapi c (y02_getClassInPackage_mem env sc c hg))
  obtain ⟨_, _, _, _, hmeths, _, _, hinner⟩ := y02_classBal_parts c hc
  refine y02_Outs.bind (y02_createClassMethodString_outs env c.methods inner hi true ad hmeths) fun ⟨mt, ex⟩ hmt => ?_
  refine y02_Outs.bind (y02_innerClassesG_outs _ fun c' hc' =>
    ihC c' _ (hinner c' (List.mem_of_mem_filter hc')) hi) fun innerText hit => ?_
  refine y02_Outs.bind (y02_internalSupersG_outs (fun ss => ihI ss _ _ hi) c.superclasses) fun rest hrest => ?_
  exact y02_Outs.pure (y02_CS_append (y02_CS_append hmt hit) hrest)

theorem y02_class_outs_aux (env : Env) (hapi : ∀ c ∈ env.api.classes, classBal c = true) : (fuel : Nat) →
    (∀ c indent inRe, classBal c = true → y02_spaces indent →
      y02_Outs (createClassString env fuel c indent inRe) y02_CS) ∧
    (∀ sc inner ad, y02_spaces inner → y02_Outs (createInternalClassString env fuel sc inner ad) y02_CS)
  | 0 => by
    refine ⟨fun c indent inRe _ _ => ?_, fun sc inner ad _ => ?_⟩
    · rw [createClassString]; exact y02_Outs.throw
    · rw [createInternalClassString]; exact y02_Outs.throw
  | fuel + 1 => by
    obtain ⟨ihC, ihI⟩ := y02_class_outs_aux env hapi fuel
    have ihC' := fun c' indent' h1 h2 => ihC c' indent' true h1 h2
    refine ⟨fun c indent inRe hc hi => ?_, fun sc inner ad hi => ?_⟩
    · rw [createClassString_eq]
      have hb := y02_classBody_outs env fuel c indent hc hi ihC' ihI
      refine y02_Outs.ite (y02_Outs.seq fun b => ?_) hb
      exact y02_Outs.ite (y02_Outs.seq fun _ => y02_Outs.pure y02_CS_empty) hb
    · exact y02_internalClass_outs env hapi fuel sc inner ad hi ihC' ihI

/-- classes: the text returned by `createClassString`, whatever the fuel -/
theorem y02_class_outs (env : Env) (hapi : ∀ c ∈ env.api.classes, classBal c = true) (fuel : Nat) (c : Class)
    (indent : String) (inRe : Bool) (hc : classBal c = true) (hi : y02_spaces indent) :
    y02_Outs (createClassString env fuel c indent inRe) y02_CS :=
  (y02_class_outs_aux env hapi fuel).1 c indent inRe hc hi

/-! ### enums -/

theorem y02_enum_cs (env : Env) (e : Enum) (h : enumBal e = true) : y02_CS (createEnumString env e) := by
  unfold enumBal docBal at h
  simp only [Bool.and_eq_true] at h
  obtain ⟨⟨hn, hd, hex⟩, hinst⟩ := h
  have hdoc := y02_CS_sdsDocstring env.safe y02_spaces_empty hd (ps := []) (rds := []) (fun p hp => by cases hp) rfl hex
  have hkw : y02_CS "enum " := y02_CS_of_bal (by decide)
  have hname := y02_CS_escapeKeyword hn
  unfold createEnumString
  dsimp only
  refine y02_CS_ite (y02_CS_append (y02_CS_append hdoc hkw) hname) ?_
  have hbody : y02_CS (String.join (e.instances.map fun i =>
      indentation ++ (if convertName i.name env.safe != i.name then nameAnnotation i.name ++ " " else "")
        ++ escapeKeyword (convertName i.name env.safe) ++ "\n")) := by
    refine y02_CS_join _ fun s hs => ?_
    obtain ⟨i, hi, rfl⟩ := List.mem_map.1 hs
    have hc : Convertible i.name.toList = true := List.all_eq_true.1 hinst i hi
    refine y02_CS_append (y02_CS_append (y02_CS_append (y02_CS_of_bal (by decide)) ?_) (y02_CS_name env.safe false hc))
      y02_CS_nl
    exact y02_CS_ite (y02_CS_append (y02_CS_nameAnnotation (lx_convertible_safe hc)) (y02_CS_of_bal (by decide)))
      y02_CS_empty
  intro stk
  simp only [String.toList_append, List.append_assoc, y02_scan_cs hdoc, y02_scan_cs hkw, y02_scan_cs hname,
    y02_scan_cs y02_CS_nl, y02_scan_cs hbody, y02_open_brace, y02_close_brace]

/-! ### module level: declarations, header, imports -/

theorem y02_wrapNl {s : String} (h : y02_CS s) : y02_CS (if s != "" then "\n" ++ s ++ "\n" else "") :=
  y02_CS_ite (y02_CS_append (y02_CS_append y02_CS_nl h) y02_CS_nl) y02_CS_empty

theorem y02_createFunctions_outs (env : Env) (inRe : Bool) : (fs : List Function) → fs.all functionBal = true →
    y02_Outs (createFunctions env inRe fs) y02_CS
  | [], _ => by rw [createFunctions]; exact y02_Outs.pure y02_CS_empty
  | f :: fs, h => by
    rw [List.all_cons, Bool.and_eq_true] at h
    rw [createFunctions]
    refine y02_Outs.bind (Q := y02_CS) ?_ fun s hs => ?_
    · exact y02_Outs.ite (y02_function_outs env f "" false inRe h.1 y02_spaces_empty) (y02_Outs.pure y02_CS_empty)
    · exact y02_Outs.bind (y02_createFunctions_outs env inRe fs h.2) fun rest hrest =>
        y02_Outs.pure (y02_CS_append (y02_wrapNl hs) hrest)

theorem y02_createClasses_outs (env : Env) (hapi : ∀ c ∈ env.api.classes, classBal c = true) (inRe : Bool) :
    (cs : List Class) → classesBal cs = true → y02_Outs (createClasses env inRe cs) y02_CS
  | [], _ => by rw [createClasses]; exact y02_Outs.pure y02_CS_empty
  | c :: cs, h => by
    rw [classesBal, Bool.and_eq_true] at h
    rw [createClasses]
    refine y02_Outs.bind (Q := y02_CS) ?_ fun s hs => ?_
    · exact y02_Outs.ite (y02_class_outs env hapi _ c "" inRe h.1 y02_spaces_empty) (y02_Outs.pure y02_CS_empty)
    · exact y02_Outs.bind (y02_createClasses_outs env hapi inRe cs h.2) fun rest hrest =>
        y02_Outs.pure (y02_CS_append (y02_wrapNl hs) hrest)

theorem y02_CS_escapePath {p : String} (h : ∀ s ∈ pySplit p '.', isIdent s.toList = true) : y02_CS (escapePath p) := by
  unfold escapePath
  refine y02_CS_joinWith (y02_CS_of_bal (by decide)) _ fun s hs => ?_
  obtain ⟨seg, hseg, rfl⟩ := List.mem_map.1 hs
  exact y02_CS_escapeKeyword (h seg hseg)

theorem y02_convertedPath_ident (p : String) (safe : Bool) (h : pathBal p = true) :
    ∀ s ∈ pySplit (convertPath p safe) '.', isIdent s.toList = true := by
  unfold pathBal at h
  rw [List.all_eq_true] at h
  have h' : ∀ s ∈ pySplit p '.', Convertible s.toList = true := fun s hs => by simpa using h s hs
  rw [pc_split_convertPath]
  intro s hs
  obtain ⟨q, hq, rfl⟩ := List.mem_map.mp hs
  cases safe with
  | true => exact C09.convert_on_legal q false (h' q hq)
  | false => rw [C09.convert_off]; exact lx_convertible_isIdent (h' q hq)

theorem y02_pathBal_safe (p : String) (h : pathBal p = true) : stringBodySafe p.toList = true := by
  unfold pathBal at h
  rw [List.all_eq_true] at h
  exact lx_path_safe p fun s hs => lx_convertible_safe (by simpa using h s hs)

theorem y02_CS_packageHeader (env : Env) (pkg : String) (h : pathBal pkg = true) : y02_CS (packageHeader env pkg) := by
  unfold packageHeader
  dsimp only
  refine y02_CS_append (y02_CS_append (y02_CS_append (y02_CS_ite ?_ y02_CS_empty) (y02_CS_of_bal (by decide)))
    (y02_CS_escapePath (y02_convertedPath_ident pkg env.safe h))) y02_CS_nl
  have e : "@PythonModule(\"" ++ pkg ++ "\")\n" = "@PythonModule(" ++ ("\"" ++ pkg ++ "\"") ++ ")\n" := by
    have e1 : ("@PythonModule(\"" : String) = "@PythonModule(" ++ "\"" := by decide
    have e2 : ("\")\n" : String) = "\"" ++ ")\n" := by decide
    rw [e1, e2]
    simp only [String.append_assoc]
  rw [e]
  exact y02_CS_bracketed "@PythonModule(" ")\n" [')'] (by decide) (by decide) (y02_CS_quotedString (y02_pathBal_safe pkg h))

theorem y02_CS_importLine (safe : Bool) (imp : String) (h : pathBal imp = true) : y02_CS (q11_importLine safe imp) := by
  have hseg : ∀ s ∈ pySplit imp '.', Convertible s.toList = true := by
    unfold pathBal at h
    rw [List.all_eq_true] at h
    exact fun s hs => by simpa using h s hs
  unfold q11_importLine splitDot
  refine y02_CS_append (y02_CS_append (y02_CS_append (y02_CS_of_bal (by decide)) ?_) (y02_CS_of_bal (by decide))) ?_
  · by_cases h2 : 2 ≤ (pySplit imp '.').length
    · apply y02_CS_escapePath
      apply y02_convertedPath_ident
      unfold pathBal
      rw [lx_pySplit_module_part imp h2, List.all_eq_true]
      intro s hs
      simpa using hseg s (lx_mem_dropLast' _ s hs)
    · have : dropLast' (pySplit imp '.') = [] := by
        cases hl : pySplit imp '.' with
        | nil => rfl
        | cons a t =>
          cases t with
          | nil => rfl
          | cons b t => rw [hl] at h2; simp at h2
      rw [this]
      cases safe <;> exact y02_CS_of_bal (by decide)
  · refine y02_CS_name safe false (hseg _ (lx_lastD_mem _ _ (lx_pySplit_ne_nil imp '.')))

theorem y02_CS_importBlock (safe : Bool) (imports : List String) (h : ∀ imp ∈ imports, pathBal imp = true) :
    y02_CS (q11_importBlock safe imports) := by
  unfold q11_importBlock
  refine y02_CS_ite y02_CS_empty (y02_CS_append (y02_CS_append y02_CS_nl (y02_CS_joinWith y02_CS_nl _ ?_)) y02_CS_nl)
  intro line hl
  obtain ⟨imp, himp, rfl⟩ := (q11_mem_importLines safe imports line).1 hl
  exact y02_CS_importLine safe imp (h imp himp)

theorem y02_CS_moduleDoc (m : Module) (h : commentBodySafe m.docstring = true) : y02_CS (moduleDoc m) := by
  unfold moduleDoc
  have := y02_CS_sdsDocstringDescription h y02_spaces_empty
  exact y02_CS_ite (y02_CS_append this y02_CS_nl) this

/-- the text of a module stub -/
theorem y02_module_cs (env : Env) (m : Module) (st st' : St) (text pkg : String)
    (h : createModuleString env m st = .ok ((text, pkg), st'))
    (hm : moduleBal m = true) (hapi : ∀ c ∈ env.api.classes, classBal c = true)
    (hpkg : pathBal pkg = true) (himp : ∀ imp ∈ st'.imports, pathBal imp = true) : y02_CS text := by
  obtain ⟨sA, sB, t1, t2, h1, h2, _, _, hi, _, _, _, ht⟩ := q11_createModuleString_decomp h
  unfold moduleBal at hm
  simp only [Bool.and_eq_true] at hm
  obtain ⟨⟨⟨hd, hf⟩, hc⟩, he⟩ := hm
  rw [ht]
  refine y02_CS_append (y02_CS_append (y02_CS_append (y02_CS_append (y02_CS_append (y02_CS_moduleDoc m hd)
    (y02_CS_packageHeader env pkg hpkg)) (y02_CS_importBlock env.safe _ (by rw [← hi]; exact himp)))
    ((y02_createFunctions_outs env _ m.functions hf).out _ _ _ h1))
    ((y02_createClasses_outs env hapi _ m.classes hc).out _ _ _ h2)) ?_
  unfold q11_enumText
  refine y02_CS_join _ fun s hs => ?_
  obtain ⟨e, hee, rfl⟩ := List.mem_map.1 hs
  exact y02_CS_append (y02_CS_append y02_CS_nl (y02_enum_cs env e (List.all_eq_true.1 he e hee))) y02_CS_nl

/-! ### the token classes of the lexical half (`Spec/Tokens.lean`) are closed pieces -/

theorem y02_scan_stringRest (stk : Stack) : ∀ (cs : List Char) (b : Bool), stringRest b cs = true →
    scan (if b then .strEsc else .str) stk cs = some (.code, stk)
  | [], b, h => by cases b <;> simp [stringRest] at h
  | c :: rest, true, h => by
    rw [stringRest, Bool.and_eq_true] at h
    rw [y02_scan_cons]
    show (if isEscapeChar c = true then some (Mode.str, stk) else none).bind _ = _
    rw [if_pos h.1]
    exact y02_scan_stringRest stk rest false h.2
  | c :: rest, false, h => by
    rw [stringRest] at h
    rw [y02_scan_cons]
    have hstep : step .str stk c = (if c = '"' then some (.code, stk) else if c = '\\' then some (.strEsc, stk)
        else if (c = '\n' || c = '\r') = true then none else some (.str, stk)) := rfl
    show (step .str stk c).bind _ = _
    rw [hstep]
    split at h
    · rename_i hq
      rw [if_pos hq]
      cases rest with
      | nil => rfl
      | cons _ _ => simp at h
    · rename_i hq
      rw [if_neg hq]
      split at h
      · rename_i hb
        rw [if_pos hb]
        exact y02_scan_stringRest stk rest true h
      · rename_i hb
        rw [if_neg hb]
        simp only [Bool.and_eq_true, bne_iff_ne, ne_eq] at h
        have : ¬ ((c = '\n' || c = '\r') = true) := by simp [h.1.1, h.1.2]
        rw [if_neg this]
        exact y02_scan_stringRest stk rest false h.2

theorem y02_CS_stringToken {s : String} (h : isStringToken s = true) : y02_CS s := by
  unfold isStringToken isStringTokenL at h
  intro stk
  split at h
  · rename_i rest hs
    rw [hs]
    exact y02_scan_stringRest stk rest false h
  · cases h

theorem y02_scan_commentRest (stk : Stack) : ∀ (cs : List Char) (b : Bool), commentRest b cs = true →
    scan (y02_blockMode b) stk cs = some (.code, stk)
  | [], b, h => by simp [commentRest] at h
  | c :: rest, b, h => by
    rw [commentRest] at h
    rw [y02_scan_cons]
    split at h
    · rename_i hc
      rw [Bool.and_eq_true, decide_eq_true_eq] at hc
      rw [hc.1, hc.2]
      cases rest with
      | nil => rfl
      | cons _ _ => simp at h
    · rename_i hc
      have : step (y02_blockMode b) stk c = some (y02_blockMode (decide (c = '*')), stk) := by
        cases b
        · show some _ = some _
          by_cases e : c = '*' <;> simp [y02_blockMode, e]
        · show some _ = some _
          have e1 : c ≠ '/' := by simpa using hc
          by_cases e : c = '*' <;> simp [y02_blockMode, e, e1]
      rw [this]
      exact y02_scan_commentRest stk rest _ h

theorem y02_CS_commentToken {s : String} (h : isCommentToken s = true) : y02_CS s := by
  unfold isCommentToken isCommentTokenL at h
  intro stk
  split at h
  · rename_i rest hs
    rw [hs]
    exact y02_scan_commentRest stk rest false h
  · cases h

theorem y02_CS_identToken {s : String} (h : isIdentToken s = true) : y02_CS s := by
  unfold isIdentToken at h
  rw [Bool.or_eq_true, Bool.and_eq_true] at h
  rcases h with h | h
  · exact y02_CS_ident h.1
  · unfold isQuotedIdentL at h
    split at h
    · rename_i rest hs
      rw [Bool.and_eq_true, beq_iff_eq] at h
      unfold y02_CS
      rw [hs, ← List.dropLast_append_getLast? _ h.1]
      exact y02_closed_quoted (lx_isIdent_all h.2)
    · cases h

end StubGen
