/-
Proof machinery for C03 / C04 / C17 (generator side): what the generator appends to the ghost emission
log `St.log`.  Every helper carries the prefix `n03_`.

Method: for every generator function the entries it appends are computed by a *pure* function of its
arguments (`n03_attrLog`, `n03_methLog`, `n03_classLog`, …); the run of the function is related to it by
`n03_Tr st st' Δ R` ("the log grew by exactly `Δ`, the re-export queue by exactly the entries `R`,
module ids untouched").  The property theorems are then facts about those pure functions.
-/
import StubGen.Proofs.Markers
import StubGen.Model.Files
import Mathlib.Data.List.Induction

namespace StubGen

open List

/-! ### the transition relation -/

/-- append the queue entries `R` (module id, node), in order -/
def n03_enqueue (rs : List (String × List Node)) (R : List (String × Node)) : List (String × List Node) :=
  R.foldl (fun acc kn => appendReexport acc kn.1 kn.2) rs

theorem n03_enqueue_append (rs : List (String × List Node)) (R1 R2 : List (String × Node)) :
    n03_enqueue rs (R1 ++ R2) = n03_enqueue (n03_enqueue rs R1) R2 := by
  unfold n03_enqueue
  rw [List.foldl_append]

/-- from `st` to `st'` the log grew by exactly `Δ` and the re-export queue by exactly the entries `R`;
    the module ids and the re-export flag are unchanged -/
structure n03_Tr (st st' : St) (Δ : List LogEntry) (R : List (String × Node)) : Prop where
  log : st'.log = st.log ++ Δ
  reexports : st'.reexports = n03_enqueue st.reexports R
  moduleId : st'.moduleId = st.moduleId
  reexportModuleId : st'.reexportModuleId = st.reexportModuleId
  creatingReexport : st'.creatingReexport = st.creatingReexport

theorem n03_Tr.refl (st : St) : n03_Tr st st [] [] :=
  ⟨by simp, rfl, rfl, rfl, rfl⟩

theorem n03_Tr.trans {a b c : St} {Δ1 Δ2 : List LogEntry} {R1 R2 : List (String × Node)}
    (h1 : n03_Tr a b Δ1 R1) (h2 : n03_Tr b c Δ2 R2) : n03_Tr a c (Δ1 ++ Δ2) (R1 ++ R2) :=
  ⟨by rw [h2.log, h1.log, List.append_assoc], by rw [h2.reexports, h1.reexports, n03_enqueue_append],
    h2.moduleId.trans h1.moduleId, h2.reexportModuleId.trans h1.reexportModuleId,
    h2.creatingReexport.trans h1.creatingReexport⟩

theorem n03_Tr.cast {a b : St} {Δ Δ' : List LogEntry} {R R' : List (String × Node)}
    (h : n03_Tr a b Δ R) (hΔ : Δ = Δ') (hR : R = R') : n03_Tr a b Δ' R' := by
  subst hΔ; subst hR; exact h

theorem n03_Tr.getModuleId {a b : St} {Δ : List LogEntry} {R : List (String × Node)} (h : n03_Tr a b Δ R)
    (actual : Bool) : getModuleId b actual = getModuleId a actual := by
  unfold StubGen.getModuleId
  rw [h.moduleId, h.reexportModuleId, h.creatingReexport]

theorem n03_Tr.of_grows {K : List String} {b : Bool} {st st' : St} (h : Grows K b st st') : n03_Tr st st' [] [] :=
  ⟨by rw [h.log]; simp, h.reexports, h.moduleId, h.reexportModuleId, h.creatingReexport⟩

theorem n03_Tr.of_onlyIO {st st' : St} (h : OnlyIO st st') : n03_Tr st st' [] [] :=
  n03_Tr.of_grows (Grows.of_onlyIO h)

theorem n03_Tr.logEmit (st : St) (k i : String) : n03_Tr st { st with log := st.log ++ [(k, i)] } [(k, i)] [] :=
  ⟨rfl, rfl, rfl, rfl, rfl⟩

theorem n03_Tr.ite_todos {a s1 : St} {Δ : List LogEntry} {R : List (String × Node)} (h : n03_Tr a s1 Δ R)
    (c : Prop) [Decidable c] (x : List String) : n03_Tr a (if c then { s1 with todos := x } else s1) Δ R := by
  by_cases hc : c
  · rw [if_pos hc]; exact ⟨h.log, h.reexports, h.moduleId, h.reexportModuleId, h.creatingReexport⟩
  · rw [if_neg hc]; exact h

/-! ### quiet computations: nothing logged, nothing queued -/

structure n03_Quiet {α : Type} (x : G α) : Prop where
  run : ∀ (st : St) (a : α) (st' : St), x st = .ok (a, st') → n03_Tr st st' [] []

namespace n03_Quiet
variable {α β : Type}

theorem wp {x : G α} (h : n03_Quiet x) (st : St) : StubGen.wp x (fun _ st' => n03_Tr st st' [] []) st :=
  fun a st' hx => h.run st a st' hx

theorem of_wp {x : G α} (h : ∀ st, StubGen.wp x (fun _ st' => n03_Tr st st' [] []) st) : n03_Quiet x :=
  ⟨fun st a st' hx => h st a st' hx⟩

theorem pure (a : α) : n03_Quiet (Pure.pure a : G α) :=
  of_wp fun st => wp_pure.2 (n03_Tr.refl st)

theorem throw (e : PyErr) : n03_Quiet (throwG e : G α) :=
  of_wp fun _ => wp_throwG.2 trivial

theorem bind {x : G α} {f : α → G β} (hx : n03_Quiet x) (hf : ∀ a, n03_Quiet (f a)) : n03_Quiet (x >>= f) := by
  refine of_wp fun st => wp_bind.2 (wp_conseq (hx.wp st) fun a s1 h1 => ?_)
  exact wp_conseq ((hf a).wp s1) fun _ s2 h2 => (h1.trans h2).cast rfl rfl

theorem get_bind {f : St → G β} (hf : ∀ s : St, n03_Quiet (f s)) : n03_Quiet (get >>= f) := by
  refine of_wp fun st => wp_bind.2 (wp_get.2 ?_)
  exact (hf st).wp st

theorem modify {g : St → St} (hg : ∀ s, n03_Tr s (g s) [] []) : n03_Quiet (modify g : G PUnit) :=
  of_wp fun st => wp_modify.2 (hg st)

theorem addTodo (k : String) : n03_Quiet (addTodo k) :=
  of_wp fun st => wp_addTodo.2 ⟨by simp, rfl, rfl, rfl, rfl⟩

end n03_Quiet

open Lean in
macro "n03_quiet" "[" ls:term,* "]" : tactic => do
  let alts ← ls.getElems.mapM fun l => `(tacticSeq| apply $l)
  `(tactic| repeat' (first
      | with_reducible exact n03_Quiet.pure _
      | with_reducible exact n03_Quiet.throw _
      | with_reducible exact n03_Quiet.addTodo _
      | with_reducible assumption
      | ((with_reducible apply n03_Quiet.modify); intro _; exact ⟨by simp, rfl, rfl, rfl, rfl⟩)
      | ((with_reducible apply n03_Quiet.get_bind); intro _)
      $[| with_reducible $alts:tacticSeq]*
      | with_reducible apply n03_Quiet.bind
      | intro _
      | split
      | dsimp only))

theorem n03_addToImports_quiet (env : Env) (q : String) : n03_Quiet (addToImports env q) :=
  n03_Quiet.of_wp fun st => wp_conseq (addToImports_wp env q st) fun _ _ h => n03_Tr.of_onlyIO h

theorem n03_createTodoMsg_quiet (indent : String) : n03_Quiet (createTodoMsg indent) :=
  n03_Quiet.of_wp fun st => wp_conseq (createTodoMsg_wp indent st) fun _ _ h => by
    rw [h.2]; exact ⟨by simp, rfl, rfl, rfl, rfl⟩

theorem n03_typeStr_quiet (env : Env) (t : AType) : n03_Quiet (typeStr env t) :=
  n03_Quiet.of_wp fun st => wp_conseq (typeStr_grows env t st) fun _ _ h => n03_Tr.of_grows h

theorem n03_typeStrOpt_quiet (env : Env) (t : Option AType) : n03_Quiet (typeStrOpt env t) := by
  unfold typeStrOpt
  n03_quiet [n03_typeStr_quiet]

theorem n03_defaultString_quiet (a : Assign) (d : DefaultVal) : n03_Quiet (defaultString a d) :=
  n03_Quiet.of_wp fun st => wp_conseq (defaultString_grows a d st) fun _ _ h => n03_Tr.of_grows h

theorem n03_createParameter_quiet (env : Env) (p : Parameter) : n03_Quiet (createParameter env p) := by
  unfold createParameter
  n03_quiet [n03_typeStr_quiet, n03_defaultString_quiet]

theorem n03_createParameters_quiet (env : Env) : (ps : List Parameter) → n03_Quiet (createParameters env ps)
  | [] => by unfold createParameters; n03_quiet []
  | p :: ps => by
    have := n03_createParameters_quiet env ps
    unfold createParameters
    n03_quiet [n03_createParameter_quiet]

theorem n03_createParameterString_quiet (env : Env) (ps : List Parameter) (indent : String) (b : Bool) :
    n03_Quiet (createParameterString env ps indent b) := by
  unfold createParameterString
  n03_quiet [n03_createParameters_quiet]

theorem n03_createResultString_quiet (env : Env) (rs : List Result) : n03_Quiet (createResultString env rs) :=
  n03_Quiet.of_wp fun st => wp_conseq (createResultString_grows env rs st) fun _ _ h => n03_Tr.of_grows h

theorem n03_typeVarStrings_quiet (env : Env) (b : Bool) : (tvs : List TypeVar) → n03_Quiet (typeVarStrings env b tvs)
  | [] => by unfold typeVarStrings; n03_quiet []
  | tv :: tvs => by
    have := n03_typeVarStrings_quiet env b tvs
    unfold typeVarStrings
    n03_quiet [n03_typeStr_quiet]

theorem n03_typeParamStrings_quiet (env : Env) (tps : List TypeParam) : n03_Quiet (typeParamStrings env tps) :=
  n03_Quiet.of_wp fun st => wp_conseq (typeParamStrings_grows env tps st) fun _ _ h => n03_Tr.of_grows h

theorem n03_createImportsString_quiet (env : Env) : n03_Quiet (createImportsString env) := by
  unfold createImportsString
  n03_quiet []

/-! ### `hasNodeShorterReexport`, exactly -/

/-- the fold of `_has_node_shorter_reexport`: the first re-exporting module with the fewest path segments,
    provided it has fewer than the current module id -/
def n03_shortest (cur : String) (rb : List ModRef) : String × Option ModRef :=
  rb.foldl (fun (acc : String × Option ModRef) m =>
      if (splitSlash m.id).length < (splitSlash acc.1).length then (m.id, some m) else acc) (cur, none)

/-- does the node move to a re-export stub? -/
def n03_moves (cur : String) (rb : List ModRef) : Bool :=
  match (n03_shortest cur rb).2 with
  | some _ => (n03_shortest cur rb).1 != cur
  | none => false

/-- the alias under which the re-exporting module imports the node (last matching import) -/
def n03_alias (nodeName : String) (m : ModRef) : Option String :=
  m.qualifiedImports.foldl (fun (a : Option String) q => if pyEndsWith q.qualifiedName nodeName then q.alias else a) none

/-- the queued (possibly renamed) copy of the node -/
def n03_movedNode (nodeName : String) (node : Node) (cur : String) (rb : List ModRef) : Node :=
  match (n03_shortest cur rb).2 with
  | some m =>
    (match n03_alias nodeName m with
     | some a => if a != "" then node.rename a else node
     | none => node)
  | none => node

/-- the queue entry of a moved node -/
def n03_queueEntry (nodeName : String) (node : Node) (cur : String) (rb : List ModRef) : String × Node :=
  ((n03_shortest cur rb).1, n03_movedNode nodeName node cur rb)

theorem n03_hasNodeShorterReexport_wp (n : String) (rb : List ModRef) (node : Node) (st : St) :
    wp (hasNodeShorterReexport n rb node)
      (fun b st' => b = n03_moves (getModuleId st) rb ∧
        st' = if b then { st with reexports := appendReexport st.reexports (n03_queueEntry n node (getModuleId st) rb).1
                                      (n03_queueEntry n node (getModuleId st) rb).2 } else st) st := by
  unfold hasNodeShorterReexport
  simp only [wp_bind, wp_get]
  unfold n03_moves n03_queueEntry n03_movedNode n03_alias n03_shortest
  split
  · rename_i m hm
    simp only [hm]
    simp only [wp_ite, wp_bind, wp_set, wp_pure]
    refine ⟨fun h => ?_, fun h => ?_⟩
    · simp only [h, true_and, if_true]
      rfl
    · simp only [h]
      simp
  · rename_i hm
    simp only [hm]
    rw [wp_pure]
    simp

/-- `hasNodeShorterReexport` as a transition -/
theorem n03_hasNodeShorterReexport_tr (n : String) (rb : List ModRef) (node : Node) (st : St) :
    wp (hasNodeShorterReexport n rb node)
      (fun b st' => b = n03_moves (getModuleId st) rb ∧
        n03_Tr st st' [] (if b then [n03_queueEntry n node (getModuleId st) rb] else [])) st := by
  refine wp_conseq (n03_hasNodeShorterReexport_wp n rb node st) ?_
  rintro b st' ⟨hb, hst⟩
  refine ⟨hb, ?_⟩
  cases b
  · simp only [Bool.false_eq_true, if_false] at hst ⊢
    rw [hst]; exact n03_Tr.refl st
  · simp only [if_true] at hst ⊢
    rw [hst]
    exact ⟨by simp, rfl, rfl, rfl, rfl⟩

/-! ### functions, properties, attributes -/

theorem n03_functionBody_tr (env : Env) (f : Function) (indent : String) (isMethod : Bool) (st : St) :
    wp (functionBody env f indent isMethod) (fun _ st' => n03_Tr st st' [("fun", f.id)] []) st := by
  unfold functionBody
  rw [wp_bind, wp_logEmit]
  refine wp_conseq (n03_Quiet.wp ?_ _) fun _ s h => ((n03_Tr.logEmit st _ _).trans h).cast rfl rfl
  n03_quiet [n03_createParameterString_quiet, n03_typeVarStrings_quiet, n03_createResultString_quiet,
    n03_createTodoMsg_quiet]

/-- is the top-level declaration moved to a re-export stub (only outside re-export stubs, never a method) -/
def n03_movedB (cur : String) (isMethod inRe : Bool) (rb : List ModRef) : Bool :=
  !isMethod && !inRe && n03_moves cur rb

def n03_funLog (cur : String) (isMethod inRe : Bool) (f : Function) : List LogEntry :=
  if n03_movedB cur isMethod inRe f.reexportedBy then [("moved", f.id)] else [("fun", f.id)]

def n03_funQueue (cur : String) (isMethod inRe : Bool) (f : Function) : List (String × Node) :=
  if n03_movedB cur isMethod inRe f.reexportedBy then [n03_queueEntry f.name (.fn f) cur f.reexportedBy] else []

theorem n03_createFunctionString_tr (env : Env) (f : Function) (indent : String) (isMethod inRe : Bool) (st : St) :
    wp (createFunctionString env f indent isMethod inRe)
      (fun _ st' => n03_Tr st st' (n03_funLog (getModuleId st) isMethod inRe f)
        (n03_funQueue (getModuleId st) isMethod inRe f)) st := by
  rw [createFunctionString_eq]
  unfold n03_funLog n03_funQueue n03_movedB
  rw [wp_ite]
  refine ⟨fun hc => ?_, fun hc => ?_⟩
  · rw [wp_bind]
    refine wp_conseq (n03_hasNodeShorterReexport_tr _ _ _ st) ?_
    rintro b s1 ⟨hb, h1⟩
    have hc' : (!isMethod && !inRe) = true := hc
    rw [wp_ite]
    refine ⟨fun hb' => ?_, fun hb' => ?_⟩
    · rw [wp_bind, wp_logEmit, wp_pure]
      rw [← hb, hb', hc']
      simp only [hb', if_true] at h1
      exact (h1.trans (n03_Tr.logEmit s1 _ _)).cast rfl rfl
    · have hb'' : b = false := by simpa using hb'
      rw [← hb, hb'', hc']
      simp only [hb'', Bool.false_eq_true, if_false] at h1
      refine wp_conseq (n03_functionBody_tr env f indent isMethod s1) fun _ s2 h2 => ?_
      exact (h1.trans h2).cast rfl rfl
  · have hc' : (!isMethod && !inRe) = false := by simpa using hc
    rw [hc']
    exact n03_functionBody_tr env f indent isMethod st

/-- a method is never moved -/
theorem n03_createMethodString_tr (env : Env) (f : Function) (indent : String) (inRe : Bool) (st : St) :
    wp (createFunctionString env f indent true inRe) (fun _ st' => n03_Tr st st' [("fun", f.id)] []) st :=
  wp_conseq (n03_createFunctionString_tr env f indent true inRe st) fun _ _ h =>
    h.cast (by simp [n03_funLog, n03_movedB]) (by simp [n03_funQueue, n03_movedB])

theorem n03_createPropertyFunctionString_tr (env : Env) (f : Function) (indent : String) (st : St) :
    wp (createPropertyFunctionString env f indent) (fun _ st' => n03_Tr st st' [("prop", f.id)] []) st := by
  unfold createPropertyFunctionString
  rw [wp_bind, wp_logEmit]
  refine wp_conseq (n03_Quiet.wp ?_ _) fun _ s h => ((n03_Tr.logEmit st _ _).trans h).cast rfl rfl
  n03_quiet [n03_typeStr_quiet, n03_createTodoMsg_quiet]

/-- an attribute is emitted iff it is public and its type is not a bare type variable -/
def n03_attrShown (a : Attribute) : Bool := a.isPublic && !isTypeVarType a.type

def n03_attrLog (as : List Attribute) : List LogEntry :=
  (as.filter n03_attrShown).map fun a => ("attr", a.id)

/-- the name set `createAttributes` returns (built from the right) -/
def n03_attrNames : List Attribute → List String
  | [] => []
  | a :: as => if n03_attrShown a then insertSet a.name (n03_attrNames as) else n03_attrNames as

theorem n03_createAttribute_tr (env : Env) (a : Attribute) (inner : String) (st : St) :
    wp (createAttribute env a inner)
      (fun r st' => r.isSome = n03_attrShown a ∧
        n03_Tr st st' (if n03_attrShown a then [("attr", a.id)] else []) []) st := by
  unfold createAttribute n03_attrShown
  rw [wp_ite]
  refine ⟨fun h1 => ?_, fun h1 => ?_⟩
  · rw [wp_pure]
    have : a.isPublic = false := by simpa using h1
    simp only [this, Bool.false_and, Option.isSome_none, Bool.false_eq_true, if_false, true_and]
    exact n03_Tr.refl st
  have hp : a.isPublic = true := by simpa using h1
  rw [wp_ite]
  refine ⟨fun h2 => ?_, fun h2 => ?_⟩
  · rw [wp_pure]
    simp only [h2, Bool.not_true, Bool.and_false, Option.isSome_none, Bool.false_eq_true, if_false, true_and]
    exact n03_Tr.refl st
  have ht : isTypeVarType a.type = false := by simpa using h2
  simp only [hp, ht, Bool.not_false, Bool.and_self, if_true]
  rw [wp_bind, wp_logEmit]
  simp only [wp_bind]
  refine wp_conseq ((n03_typeStrOpt_quiet env a.type).wp _) fun t s1 h1' => ?_
  simp only [wp_condTodo, wp_bind]
  refine wp_conseq ((n03_createTodoMsg_quiet inner).wp _) fun t2 s2 h2' => ?_
  rw [wp_pure]
  refine ⟨rfl, ?_⟩
  have hmid : n03_Tr { st with log := st.log ++ [("attr", a.id)] }
      (if ((if (t != "") = true then ": " ++ t else "") == "") = true then
        { s1 with todos := insertSet "attr without type" s1.todos } else s1) [] [] := by
    exact h1'.ite_todos _ _
  exact (((n03_Tr.logEmit st _ _).trans hmid).trans h2').cast rfl rfl

theorem n03_createAttributes_tr (env : Env) (inner : String) : (as : List Attribute) → ∀ st,
    wp (createAttributes env inner as)
      (fun r st' => r.1.length = (as.filter n03_attrShown).length ∧ r.2 = n03_attrNames as ∧
        n03_Tr st st' (n03_attrLog as) []) st
  | [], st => by
    rw [createAttributes, wp_pure]
    exact ⟨rfl, rfl, n03_Tr.refl st⟩
  | a :: as, st => by
    rw [createAttributes, wp_bind]
    refine wp_conseq (n03_createAttribute_tr env a inner st) ?_
    rintro r s1 ⟨hr, h1⟩
    rw [wp_bind]
    refine wp_conseq (n03_createAttributes_tr env inner as s1) ?_
    rintro ⟨texts, names⟩ s2 ⟨hl, hn, h2⟩
    dsimp only at hl hn ⊢
    cases r with
    | some t =>
      have hs : n03_attrShown a = true := by simpa using hr.symm
      dsimp only
      rw [wp_pure]
      simp only [hs, if_true] at h1
      refine ⟨by simp [List.filter, hs, hl], by simp [n03_attrNames, hs, hn], ?_⟩
      exact (h1.trans h2).cast (by simp [n03_attrLog, List.filter, hs]) rfl
    | none =>
      have hs : n03_attrShown a = false := by simpa using hr.symm
      dsimp only
      rw [wp_pure]
      simp only [hs, Bool.false_eq_true, if_false] at h1
      refine ⟨by simp [List.filter, hs, hl], by simp [n03_attrNames, hs, hn], ?_⟩
      exact (h1.trans h2).cast (by simp [n03_attrLog, List.filter, hs]) rfl

theorem n03_createClassAttributeString_tr (env : Env) (as : List Attribute) (inner : String) (st : St) :
    wp (createClassAttributeString env as inner)
      (fun r st' => r.2 = n03_attrNames as ∧ n03_Tr st st' (n03_attrLog as) []) st := by
  unfold createClassAttributeString
  rw [wp_bind]
  refine wp_conseq (n03_createAttributes_tr env inner as st) ?_
  rintro ⟨texts, names⟩ s1 ⟨_, hn, h1⟩
  dsimp only
  rw [wp_pure]
  exact ⟨hn, h1⟩

/-! ### methods -/

def n03_methEntry (m : Function) : LogEntry := (if m.isProperty then "prop" else "fun", m.id)

def n03_methLog (isInt : Bool) (ad : List String) (ms : List Function) : List LogEntry :=
  (ms.filter fun m => !methodSkipped m isInt ad).map n03_methEntry

/-- the name set `createMethods` returns (built from the right) -/
def n03_methNames (isInt : Bool) (ad : List String) : List Function → List String
  | [] => []
  | m :: ms => if methodSkipped m isInt ad then n03_methNames isInt ad ms
               else insertSet m.name (n03_methNames isInt ad ms)

theorem n03_createMethods_tr (env : Env) (inner : String) (isInt : Bool) (ad : List String) :
    (ms : List Function) → ∀ st,
    wp (createMethods env inner isInt ad ms)
      (fun r st' => r.2.2 = n03_methNames isInt ad ms ∧
        r.1.length = (ms.filter fun m => !methodSkipped m isInt ad && m.isProperty).length ∧
        r.2.1.length = (ms.filter fun m => !methodSkipped m isInt ad && !m.isProperty).length ∧
        n03_Tr st st' (n03_methLog isInt ad ms) []) st
  | [], st => by
    rw [createMethods, wp_pure]
    exact ⟨rfl, rfl, rfl, n03_Tr.refl st⟩
  | m :: ms, st => by
    rw [createMethods, wp_ite]
    refine ⟨fun hs => ?_, fun hs => ?_⟩
    · refine wp_conseq (n03_createMethods_tr env inner isInt ad ms st) ?_
      rintro r s1 ⟨hn, hp, hm, h1⟩
      refine ⟨by simp [n03_methNames, hs, hn], by simp [List.filter, hs, hp], by simp [List.filter, hs, hm], ?_⟩
      exact h1.cast (by simp [n03_methLog, List.filter, hs]) rfl
    have hs' : methodSkipped m isInt ad = false := by simpa using hs
    rw [wp_ite]
    refine ⟨fun hpr => ?_, fun hpr => ?_⟩
    · rw [wp_bind]
      refine wp_conseq (n03_createPropertyFunctionString_tr env m inner st) fun t s1 h1 => ?_
      rw [wp_bind]
      refine wp_conseq (n03_createMethods_tr env inner isInt ad ms s1) ?_
      rintro ⟨props, meths, names⟩ s2 ⟨hn, hp, hm, h2⟩
      dsimp only at hn hp hm ⊢
      rw [wp_pure]
      refine ⟨by simp [n03_methNames, hs', hn], by simp [List.filter, hs', hpr, hp],
        by simp [List.filter, hs', hpr, hm], ?_⟩
      exact (h1.trans h2).cast (by simp [n03_methLog, n03_methEntry, List.filter, hs', hpr]) rfl
    · have hpr' : m.isProperty = false := by simpa using hpr
      rw [wp_bind]
      refine wp_conseq (n03_createMethodString_tr env m inner false st) fun t s1 h1 => ?_
      rw [wp_bind]
      refine wp_conseq (n03_createMethods_tr env inner isInt ad ms s1) ?_
      rintro ⟨props, meths, names⟩ s2 ⟨hn, hp, hm, h2⟩
      dsimp only at hn hp hm ⊢
      rw [wp_pure]
      refine ⟨by simp [n03_methNames, hs', hn], by simp [List.filter, hs', hpr', hp],
        by simp [List.filter, hs', hpr', hm], ?_⟩
      exact (h1.trans h2).cast (by simp [n03_methLog, n03_methEntry, List.filter, hs', hpr']) rfl

theorem n03_createClassMethodString_tr (env : Env) (ms : List Function) (inner : String) (isInt : Bool)
    (ad : List String) (st : St) :
    wp (createClassMethodString env ms inner isInt ad)
      (fun r st' => r.2 = n03_methNames isInt ad ms ∧ n03_Tr st st' (n03_methLog isInt ad ms) []) st := by
  unfold createClassMethodString
  rw [wp_bind]
  refine wp_conseq (n03_createMethods_tr env inner isInt ad ms st) ?_
  rintro ⟨props, meths, names⟩ s1 ⟨hn, _, _, h1⟩
  dsimp only
  rw [wp_pure]
  exact ⟨hn, h1⟩

/-! ### the list combinators of the class generator -/

theorem n03_innerClassesG_tr {render : Class → G String} {L : Class → List LogEntry}
    (h : ∀ c st, wp (render c) (fun _ st' => n03_Tr st st' (L c) []) st) :
    (cs : List Class) → ∀ st, wp (innerClassesG render cs) (fun _ st' => n03_Tr st st' (cs.flatMap L) []) st
  | [], st => by
    rw [innerClassesG, wp_pure]; exact n03_Tr.refl st
  | c :: cs, st => by
    rw [innerClassesG, wp_bind]
    refine wp_conseq (h c st) fun _ s1 h1 => ?_
    rw [wp_bind]
    refine wp_conseq (n03_innerClassesG_tr h cs s1) fun _ s2 h2 => ?_
    rw [wp_pure]
    exact (h1.trans h2).cast (by simp) rfl

/-- is the last dotted component of a superclass name private? -/
def n03_privSuper (sc : String) : Bool := isInternal (lastD "" (splitDot sc))

/-- the superclass names printed after `sub` -/
def n03_superNames (scs : List String) : List String :=
  (scs.filter fun s => !n03_privSuper s).map fun s => escapeKeyword (lastD "" (splitDot s))

theorem n03_superclassesG_tr (env : Env) {inline : String → G String} {L : String → List LogEntry}
    (h : ∀ sc st, wp (inline sc) (fun _ st' => n03_Tr st st' (L sc) []) st) :
    (scs : List String) → ∀ st, wp (superclassesG env inline scs)
      (fun r st' => r.1 = n03_superNames scs ∧ n03_Tr st st' ((scs.filter n03_privSuper).flatMap L) []) st
  | [], st => by
    rw [superclassesG, wp_pure]; exact ⟨rfl, n03_Tr.refl st⟩
  | sc :: scs, st => by
    rw [superclassesG]
    dsimp only
    rw [wp_ite]
    refine ⟨fun hc => ?_, fun hc => ?_⟩
    · have hc' : n03_privSuper sc = false := by simpa [n03_privSuper] using hc
      rw [wp_bind]
      refine wp_conseq ((n03_addToImports_quiet env sc).wp st) fun _ s1 h1 => ?_
      rw [wp_bind]
      refine wp_conseq (n03_superclassesG_tr env h scs s1) ?_
      rintro ⟨names, text⟩ s2 ⟨hn, h2⟩
      dsimp only at hn ⊢
      rw [wp_pure]
      refine ⟨by simp [n03_superNames, List.filter, hc', hn], ?_⟩
      exact (h1.trans h2).cast (by simp [List.filter, hc']) rfl
    · have hc' : n03_privSuper sc = true := by simpa [n03_privSuper] using hc
      rw [wp_bind]
      refine wp_conseq (h sc st) fun _ s1 h1 => ?_
      rw [wp_bind]
      refine wp_conseq (n03_superclassesG_tr env h scs s1) ?_
      rintro ⟨names, text⟩ s2 ⟨hn, h2⟩
      dsimp only at hn ⊢
      rw [wp_pure]
      refine ⟨by simp [n03_superNames, List.filter, hc', hn], ?_⟩
      exact (h1.trans h2).cast (by simp [List.filter, hc']) rfl

theorem n03_internalSupersG_tr {inline : String → G String} {L : String → List LogEntry}
    (h : ∀ sc st, wp (inline sc) (fun _ st' => n03_Tr st st' (L sc) []) st) :
    (scs : List String) → ∀ st, wp (internalSupersG inline scs)
      (fun _ st' => n03_Tr st st' ((scs.filter n03_privSuper).flatMap L) []) st
  | [], st => by
    rw [internalSupersG, wp_pure]; exact n03_Tr.refl st
  | sc :: scs, st => by
    rw [internalSupersG]
    rw [wp_bind, wp_ite]
    refine ⟨fun hc => ?_, fun hc => ?_⟩
    · have hc' : n03_privSuper sc = true := hc
      refine wp_conseq (h sc st) fun _ s1 h1 => ?_
      rw [wp_bind]
      refine wp_conseq (n03_internalSupersG_tr h scs s1) fun _ s2 h2 => ?_
      rw [wp_pure]
      exact (h1.trans h2).cast (by simp [List.filter, hc']) rfl
    · have hc' : n03_privSuper sc = false := by simpa [n03_privSuper] using hc
      rw [wp_pure, wp_bind]
      refine wp_conseq (n03_internalSupersG_tr h scs st) fun _ s2 h2 => ?_
      rw [wp_pure]
      exact h2.cast (by simp [List.filter, hc']) rfl

/-! ### the log of a class, as a pure function -/

/-- the names a class defines itself: emitted attributes, emitted methods and the public inner classes
    (the set `already_defined` handed to the inlining of private bases) -/
def n03_ownNames (c : Class) : List String :=
  unionSet (unionSet (n03_attrNames c.attributes) (n03_methNames false [] c.methods))
    ((c.classes.filter (·.isPublic)).map (·.name))

mutual
/-- what `createClassString env fuel c _ true` appends to the log -/
def n03_classLog (env : Env) : Nat → Class → List LogEntry
  | 0, _ => []
  | fuel + 1, c =>
    ("class", c.id) ::
      (n03_attrLog c.attributes
        ++ (c.classes.filter (·.isPublic)).flatMap (n03_classLog env fuel)
        ++ n03_methLog false [] c.methods
        ++ (if !c.renderedSupers.isEmpty && !c.isAbstract then
              (c.renderedSupers.filter n03_privSuper).flatMap
                (fun sc => n03_internalLog env fuel sc (n03_ownNames c))
            else [])
        ++ [("endclass", c.id)])
/-- what `createInternalClassString env fuel sc _ ad` appends to the log -/
def n03_internalLog (env : Env) : Nat → String → List String → List LogEntry
  | 0, _, _ => []
  | fuel + 1, sc, ad =>
    match getClassInPackage env sc with
    | .ok c =>
      n03_methLog true ad c.methods
        ++ (c.classes.filter (fun ic => !isInternal ic.name && !ad.contains ic.name)).flatMap (n03_classLog env fuel)
        ++ (c.superclasses.filter n03_privSuper).flatMap
            (fun ss => n03_internalLog env fuel ss (unionSet ad (n03_methNames true ad c.methods)))
    | .error _ => []
end

theorem n03_classLog_succ (env : Env) (fuel : Nat) (c : Class) :
    n03_classLog env (fuel + 1) c =
    ("class", c.id) ::
      (n03_attrLog c.attributes
        ++ (c.classes.filter (·.isPublic)).flatMap (n03_classLog env fuel)
        ++ n03_methLog false [] c.methods
        ++ (if !c.renderedSupers.isEmpty && !c.isAbstract then
              (c.renderedSupers.filter n03_privSuper).flatMap
                (fun sc => n03_internalLog env fuel sc (n03_ownNames c))
            else [])
        ++ [("endclass", c.id)]) := by
  rw [n03_classLog]

theorem n03_internalLog_succ (env : Env) (fuel : Nat) (sc : String) (ad : List String) :
    n03_internalLog env (fuel + 1) sc ad =
    match getClassInPackage env sc with
    | .ok c =>
      n03_methLog true ad c.methods
        ++ (c.classes.filter (fun ic => !isInternal ic.name && !ad.contains ic.name)).flatMap (n03_classLog env fuel)
        ++ (c.superclasses.filter n03_privSuper).flatMap
            (fun ss => n03_internalLog env fuel ss (unionSet ad (n03_methNames true ad c.methods)))
    | .error _ => [] := by
  rw [n03_internalLog]

/-- the class body (after the early-return test), given the two recursive calls at `fuel` -/
theorem n03_classBody_tr (env : Env) (fuel : Nat)
    (ih1 : ∀ c indent st, wp (createClassString env fuel c indent true)
      (fun _ st' => n03_Tr st st' (n03_classLog env fuel c) []) st)
    (ih2 : ∀ sc inner ad st, wp (createInternalClassString env fuel sc inner ad)
      (fun _ st' => n03_Tr st st' (n03_internalLog env fuel sc ad) []) st)
    (c : Class) (indent : String) (st : St) :
    wp (classBody env fuel c indent) (fun _ st' => n03_Tr st st' (n03_classLog env (fuel + 1) c) []) st := by
  unfold classBody
  rw [wp_bind, wp_logEmit]
  have h0 := n03_Tr.logEmit st "class" c.id
  rw [wp_bind]; refine wp_conseq (n03_Quiet.wp ?_ _) fun ci s1 h1 => ?_
  · n03_quiet [n03_createParameterString_quiet]
  rw [wp_bind, wp_get]
  dsimp only
  rw [wp_bind, wp_modify]
  generalize hs1 : ({ s1 with classGenerics := [] } : St) = s1'
  have h1' : n03_Tr s1 s1' [] [] := by rw [← hs1]; exact ⟨by simp, rfl, rfl, rfl, rfl⟩
  rw [wp_bind]; refine wp_conseq (n03_Quiet.wp ?_ _) fun vi s2 h2 => ?_
  · n03_quiet [n03_typeParamStrings_quiet]
  rw [wp_bind]; refine wp_conseq ((n03_createTodoMsg_quiet indent).wp _) fun t1 s3 h3 => ?_
  rw [wp_bind]; refine wp_conseq (n03_createClassAttributeString_tr env c.attributes _ s3) ?_
  rintro ⟨attrText, attrNames⟩ s4 ⟨hn4, h4⟩
  dsimp only at hn4 ⊢
  rw [wp_bind]
  refine wp_conseq (n03_innerClassesG_tr (L := n03_classLog env fuel) (fun ic st => ih1 ic _ st) _ s4)
    fun it s5 h5 => ?_
  rw [wp_bind]; refine wp_conseq (n03_createClassMethodString_tr env c.methods _ false [] s5) ?_
  rintro ⟨methodText, methodNames⟩ s6 ⟨hn6, h6⟩
  dsimp only at hn6 ⊢
  rw [wp_bind]
  refine wp_conseq (Q := fun _ s7 => n03_Tr s6 s7 (if !c.renderedSupers.isEmpty && !c.isAbstract then
              (c.renderedSupers.filter n03_privSuper).flatMap
                (fun sc => n03_internalLog env fuel sc (n03_ownNames c))
            else []) []) ?_ ?_
  · rw [wp_ite]
    refine ⟨fun hc => ?_, fun hc => ?_⟩
    · rw [wp_bind]
      refine wp_conseq (n03_superclassesG_tr env
        (L := fun sc => n03_internalLog env fuel sc (n03_ownNames c)) (fun sc st => ?_) _ s6) ?_
      · subst hn4 hn6
        exact ih2 sc (indent ++ indentation) _ st
      · rintro ⟨names, text⟩ s7 ⟨_, h7⟩
        dsimp only
        rw [wp_pure]
        rw [if_pos hc]
        exact h7
    · rw [wp_pure, if_neg hc]
      exact n03_Tr.refl s6
  rintro ⟨superInfo, superMethodsText, nNames⟩ s7 h7
  dsimp only
  simp only [wp_condTodo, wp_bind]
  refine wp_conseq ((n03_createTodoMsg_quiet indent).wp _) fun t2 s8 h8 => ?_
  rw [wp_modify]
  generalize hs9 : ({ s8 with classGenerics := s1.classGenerics } : St) = s9
  have h8' : n03_Tr s8 s9 [] [] := by rw [← hs9]; exact ⟨by simp, rfl, rfl, rfl, rfl⟩
  rw [wp_logEmit]
  have h9 := n03_Tr.logEmit s9 "endclass" c.id
  have hall := ((((((((((h0.trans h1).trans h1').trans h2).trans h3).trans h4).trans h5).trans h6).trans
    (h7.ite_todos _ _)).trans h8).trans h8').trans h9
  have hfin := hall.cast (Δ' := n03_classLog env (fuel + 1) c) (R' := [])
    (by rw [n03_classLog_succ]; simp) (by simp)
  rw [wp_ite]
  exact ⟨fun _ => wp_pure.2 hfin, fun _ => wp_pure.2 hfin⟩

/-- the recursive pair, by induction on the fuel -/
theorem n03_class_tr (env : Env) : (fuel : Nat) →
    (∀ c indent st, wp (createClassString env fuel c indent true)
      (fun _ st' => n03_Tr st st' (n03_classLog env fuel c) []) st) ∧
    (∀ sc inner ad st, wp (createInternalClassString env fuel sc inner ad)
      (fun _ st' => n03_Tr st st' (n03_internalLog env fuel sc ad) []) st)
  | 0 => by
    refine ⟨fun c indent st => ?_, fun sc inner ad st => ?_⟩
    · rw [createClassString]; exact wp_throwG.2 trivial
    · rw [createInternalClassString]; exact wp_throwG.2 trivial
  | fuel + 1 => by
    obtain ⟨ih1, ih2⟩ := n03_class_tr env fuel
    refine ⟨fun c indent st => ?_, fun sc inner ad st => ?_⟩
    · rw [createClassString_eq]
      exact n03_classBody_tr env fuel ih1 ih2 c indent st
    · rw [createInternalClassString, n03_internalLog_succ, wp_bind]
      cases hg : getClassInPackage env sc with
      | error e => exact wp_throwG.2 trivial
      | ok k =>
        dsimp only
        rw [wp_pure, wp_bind]
        refine wp_conseq (n03_createClassMethodString_tr env k.methods inner true ad st) ?_
        rintro ⟨methodsText, existing⟩ s1 ⟨hn1, h1⟩
        dsimp only at hn1 ⊢
        rw [wp_bind]
        refine wp_conseq (n03_innerClassesG_tr (L := n03_classLog env fuel) (fun ic st => ih1 ic _ st) _ s1)
          fun it s2 h2 => ?_
        rw [wp_bind]
        refine wp_conseq (n03_internalSupersG_tr
          (L := fun ss => n03_internalLog env fuel ss (unionSet ad (n03_methNames true ad k.methods)))
          (fun ss st => ?_) _ s2) fun rest s3 h3 => ?_
        · subst hn1
          exact ih2 ss inner _ st
        · rw [wp_pure]
          exact ((h1.trans h2).trans h3).cast (by simp) rfl

/-! ### top-level classes and functions of a module -/

def n03_clsLog (env : Env) (fuel : Nat) (cur : String) (inRe : Bool) (c : Class) : List LogEntry :=
  if n03_movedB cur false inRe c.reexportedBy then [("moved", c.id)] else n03_classLog env fuel c

def n03_clsQueue (cur : String) (inRe : Bool) (c : Class) : List (String × Node) :=
  if n03_movedB cur false inRe c.reexportedBy then [n03_queueEntry c.name (.cls c) cur c.reexportedBy] else []

theorem n03_createClassString_tr (env : Env) (fuel : Nat) (c : Class) (indent : String) (inRe : Bool) (st : St) :
    wp (createClassString env fuel c indent inRe)
      (fun _ st' => n03_Tr st st' (n03_clsLog env fuel (getModuleId st) inRe c)
        (n03_clsQueue (getModuleId st) inRe c)) st := by
  cases fuel with
  | zero => rw [createClassString]; exact wp_throwG.2 trivial
  | succ fuel =>
    obtain ⟨ih1, ih2⟩ := n03_class_tr env fuel
    have hbody := n03_classBody_tr env fuel ih1 ih2 c indent
    rw [createClassString_eq]
    unfold n03_clsLog n03_clsQueue n03_movedB
    rw [wp_ite]
    refine ⟨fun hc => ?_, fun hc => ?_⟩
    · have hc' : inRe = false := by simpa using hc
      subst hc'
      rw [wp_bind]
      refine wp_conseq (n03_hasNodeShorterReexport_tr _ _ _ st) ?_
      rintro b s1 ⟨hb, h1⟩
      rw [wp_ite]
      refine ⟨fun hb' => ?_, fun hb' => ?_⟩
      · rw [wp_bind, wp_logEmit, wp_pure]
        rw [← hb, hb']
        simp only [hb', if_true] at h1
        exact (h1.trans (n03_Tr.logEmit s1 _ _)).cast rfl rfl
      · have hb'' : b = false := by simpa using hb'
        rw [← hb, hb'']
        simp only [hb'', Bool.false_eq_true, if_false] at h1
        refine wp_conseq (hbody s1) fun _ s2 h2 => ?_
        exact (h1.trans h2).cast rfl rfl
    · have hc' : inRe = true := by simpa using hc
      subst hc'
      exact hbody st

def n03_functionsLog (cur : String) (inRe : Bool) (fs : List Function) : List LogEntry :=
  (fs.filter (·.isPublic)).flatMap (n03_funLog cur false inRe)

def n03_functionsQueue (cur : String) (inRe : Bool) (fs : List Function) : List (String × Node) :=
  (fs.filter (·.isPublic)).flatMap (n03_funQueue cur false inRe)

theorem n03_createFunctions_tr (env : Env) (inRe : Bool) : (fs : List Function) → ∀ st,
    wp (createFunctions env inRe fs)
      (fun _ st' => n03_Tr st st' (n03_functionsLog (getModuleId st) inRe fs)
        (n03_functionsQueue (getModuleId st) inRe fs)) st
  | [], st => by
    rw [createFunctions, wp_pure]; exact n03_Tr.refl st
  | f :: fs, st => by
    rw [createFunctions, wp_bind]
    refine wp_conseq (Q := fun _ s1 => n03_Tr st s1
      (if f.isPublic then n03_funLog (getModuleId st) false inRe f else [])
      (if f.isPublic then n03_funQueue (getModuleId st) false inRe f else [])) ?_ ?_
    · rw [wp_ite]
      refine ⟨fun hp => ?_, fun hp => ?_⟩
      · simp only [hp, if_true]
        exact n03_createFunctionString_tr env f "" false inRe st
      · rw [wp_pure]
        simp only [hp]
        exact n03_Tr.refl st
    intro t s1 h1
    rw [wp_bind]
    refine wp_conseq (n03_createFunctions_tr env inRe fs s1) fun _ s2 h2 => ?_
    rw [wp_pure, h1.getModuleId] at *
    refine (h1.trans h2).cast ?_ ?_
    · unfold n03_functionsLog
      cases hp : f.isPublic <;> simp [List.filter, hp]
    · unfold n03_functionsQueue
      cases hp : f.isPublic <;> simp [List.filter, hp]

/-- the classes that get a stub: public and not derived from an exception -/
def n03_clsShown (c : Class) : Bool := c.isPublic && !c.inheritsFromException

def n03_classesLog (env : Env) (cur : String) (inRe : Bool) (cs : List Class) : List LogEntry :=
  (cs.filter n03_clsShown).flatMap (n03_clsLog env (classFuel env) cur inRe)

def n03_classesQueue (cur : String) (inRe : Bool) (cs : List Class) : List (String × Node) :=
  (cs.filter n03_clsShown).flatMap (n03_clsQueue cur inRe)

theorem n03_createClasses_tr (env : Env) (inRe : Bool) : (cs : List Class) → ∀ st,
    wp (createClasses env inRe cs)
      (fun _ st' => n03_Tr st st' (n03_classesLog env (getModuleId st) inRe cs)
        (n03_classesQueue (getModuleId st) inRe cs)) st
  | [], st => by
    rw [createClasses, wp_pure]; exact n03_Tr.refl st
  | c :: cs, st => by
    rw [createClasses, wp_bind]
    refine wp_conseq (Q := fun _ s1 => n03_Tr st s1
      (if n03_clsShown c then n03_clsLog env (classFuel env) (getModuleId st) inRe c else [])
      (if n03_clsShown c then n03_clsQueue (getModuleId st) inRe c else [])) ?_ ?_
    · rw [wp_ite]
      refine ⟨fun hp => ?_, fun hp => ?_⟩
      · have hp' : n03_clsShown c = true := hp
        simp only [hp', if_true]
        exact n03_createClassString_tr env _ c "" inRe st
      · have hp' : n03_clsShown c = false := by simpa [n03_clsShown] using hp
        rw [wp_pure]
        simp only [hp', Bool.false_eq_true, if_false]
        exact n03_Tr.refl st
    intro t s1 h1
    rw [wp_bind]
    refine wp_conseq (n03_createClasses_tr env inRe cs s1) fun _ s2 h2 => ?_
    rw [wp_pure, h1.getModuleId] at *
    refine (h1.trans h2).cast ?_ ?_
    · unfold n03_classesLog
      cases hp : n03_clsShown c <;> simp [List.filter, hp]
    · unfold n03_classesQueue
      cases hp : n03_clsShown c <;> simp [List.filter, hp]

/-- is the module itself re-exported (then its stub is a re-export stub and nothing moves out of it) -/
def n03_modInRe (env : Env) (m : Module) : Bool :=
  (shortestPublicReexport env.api.reexportMap m.name "" true).1 != ""

def n03_moduleLog (env : Env) (cur : String) (m : Module) : List LogEntry :=
  n03_functionsLog cur (n03_modInRe env m) m.functions
    ++ n03_classesLog env cur (n03_modInRe env m) m.classes
    ++ m.enums.map fun e => ("enum", e.id)

def n03_moduleQueue (env : Env) (cur : String) (m : Module) : List (String × Node) :=
  n03_functionsQueue cur (n03_modInRe env m) m.functions ++ n03_classesQueue cur (n03_modInRe env m) m.classes

theorem n03_createModuleString_tr (env : Env) (m : Module) (st : St) :
    wp (createModuleString env m)
      (fun _ st' => n03_Tr st st' (n03_moduleLog env (getModuleId st) m) (n03_moduleQueue env (getModuleId st) m)) st := by
  unfold createModuleString
  dsimp only
  rw [wp_bind]
  refine wp_conseq (n03_createFunctions_tr env _ m.functions st) fun t1 s1 h1 => ?_
  rw [wp_bind]
  refine wp_conseq (n03_createClasses_tr env _ m.classes s1) fun t2 s2 h2 => ?_
  rw [wp_bind, wp_modify, wp_bind]
  refine wp_conseq ((n03_createImportsString_quiet env).wp _) fun t3 s3 h3 => ?_
  rw [wp_pure]
  have hmid : n03_Tr s2 { s2 with log := s2.log ++ m.enums.map fun e => ("enum", e.id) }
      (m.enums.map fun e => ("enum", e.id)) [] := ⟨rfl, rfl, rfl, rfl, rfl⟩
  rw [h1.getModuleId] at h2
  exact (((h1.trans h2).trans hmid).trans h3).cast (by simp [n03_moduleLog, n03_modInRe])
    (by simp [n03_moduleQueue, n03_modInRe])

/-! ### `callGenerator` and the re-export stubs -/

theorem n03_wp_setModuleId {id : String} {Q : Unit → St → Prop} {st : St} :
    wp (setModuleId id) Q st ↔
      Q () (if st.creatingReexport then { st with reexportModuleId := id } else { st with moduleId := id }) := by
  unfold setModuleId
  exact wp_modify

/-- the module id under which `callGenerator env m` runs -/
def n03_callCur (st : St) (m : Module) : String := if st.creatingReexport then "" else m.id

set_option linter.unusedSimpArgs false in
theorem n03_callGenerator_log (env : Env) (m : Module) (st : St) :
    wp (callGenerator env m)
      (fun _ st' => st'.log = st.log ++ ("module", m.id) :: n03_moduleLog env (n03_callCur st m) m ∧
        st'.reexports = n03_enqueue st.reexports (n03_moduleQueue env (n03_callCur st m) m) ∧
        st'.creatingReexport = st.creatingReexport) st := by
  unfold callGenerator
  rw [wp_bind, wp_logEmit, wp_bind, n03_wp_setModuleId, wp_bind, wp_modify]
  refine wp_conseq (n03_createModuleString_tr env m _) fun _ s1 h1 => ?_
  have hl := h1.log
  have hr := h1.reexports
  have hc := h1.creatingReexport
  clear h1
  unfold n03_callCur
  cases hcr : st.creatingReexport
  · simp only [hcr, getModuleId, Bool.false_eq_true, if_false, Bool.not_false, Bool.or_true, if_true,
      Bool.or_false, Bool.not_true] at hl hr hc ⊢
    exact ⟨by rw [hl]; simp, hr, hc⟩
  · simp only [hcr, getModuleId, Bool.false_eq_true, if_false, Bool.not_false, Bool.or_true, if_true,
      Bool.or_false, Bool.not_true] at hl hr hc ⊢
    exact ⟨by rw [hl]; simp, hr, hc⟩

/-- the block a queued node contributes to its re-export stub -/
def n03_nodeLog (env : Env) : Node → List LogEntry
  | .cls c => n03_classLog env (classFuel env) c
  | .fn f => [("fun", f.id)]

def n03_restubLog (env : Env) (moduleId : String) (els : List Node) : List LogEntry :=
  els.flatMap fun el => ("restub", moduleId ++ "/" ++ el.name) :: n03_nodeLog env el

/-- log and queue only (the module ids change while re-export stubs are produced) -/
structure n03_LR (st st' : St) (Δ : List LogEntry) : Prop where
  log : st'.log = st.log ++ Δ
  reexports : st'.reexports = st.reexports

theorem n03_LR.refl (st : St) : n03_LR st st [] := ⟨by simp, rfl⟩

theorem n03_LR.trans {a b c : St} {Δ1 Δ2 : List LogEntry} (h1 : n03_LR a b Δ1) (h2 : n03_LR b c Δ2) :
    n03_LR a c (Δ1 ++ Δ2) :=
  ⟨by rw [h2.log, h1.log, List.append_assoc], h2.reexports.trans h1.reexports⟩

theorem n03_LR.of_tr {a b : St} {Δ : List LogEntry} (h : n03_Tr a b Δ []) : n03_LR a b Δ :=
  ⟨h.log, h.reexports⟩

theorem n03_LR.cast {a b : St} {Δ Δ' : List LogEntry} (h : n03_LR a b Δ) (hΔ : Δ = Δ') : n03_LR a b Δ' := by
  subst hΔ; exact h

theorem n03_wp_modify_lr {β : Type} {g : St → St} (hg : ∀ s, n03_LR s (g s) []) {f : PUnit → G β}
    {Q : β → St → Prop} {st : St} (h : ∀ s1, n03_LR st s1 [] → wp (f ⟨⟩) Q s1) : wp (modify g >>= f) Q st := by
  rw [wp_bind, wp_modify]
  exact h _ (hg st)

theorem n03_wp_setModuleId_lr {β : Type} {id : String} {f : Unit → G β}
    {Q : β → St → Prop} {st : St} (h : ∀ s1, n03_LR st s1 [] → wp (f ()) Q s1) : wp (setModuleId id >>= f) Q st := by
  rw [wp_bind, n03_wp_setModuleId]
  refine h _ ?_
  split <;> exact ⟨by simp, rfl⟩

theorem n03_wp_logEmit_lr {β : Type} {k i : String} {f : Unit → G β}
    {Q : β → St → Prop} {st : St} (h : ∀ s1, n03_LR st s1 [(k, i)] → wp (f ()) Q s1) : wp (logEmit k i >>= f) Q st := by
  rw [wp_bind, wp_logEmit]
  exact h _ ⟨rfl, rfl⟩

theorem n03_reexportBody_lr (env : Env) (el : Node) (st : St) :
    wp (match el with
      | .cls c => createClassString env (classFuel env) c "" true
      | .fn f => createFunctionString env f "" false true : G String)
      (fun _ st' => n03_LR st st' (n03_nodeLog env el)) st := by
  cases el with
  | cls c =>
    dsimp only
    refine wp_conseq (n03_createClassString_tr env _ c "" true st) fun _ s1 h1 => ?_
    exact n03_LR.of_tr (h1.cast (by simp [n03_clsLog, n03_movedB, n03_nodeLog]) (by simp [n03_clsQueue, n03_movedB]))
  | fn f =>
    dsimp only
    refine wp_conseq (n03_createFunctionString_tr env f "" false true st) fun _ s1 h1 => ?_
    exact n03_LR.of_tr (h1.cast (by simp [n03_funLog, n03_movedB, n03_nodeLog]) (by simp [n03_funQueue, n03_movedB]))

theorem n03_createReexportElements_log (env : Env) (moduleId : String) : (els : List Node) → ∀ st,
    wp (createReexportElements env moduleId els) (fun _ st' => n03_LR st st' (n03_restubLog env moduleId els)) st
  | [], st => by
    unfold createReexportElements
    rw [wp_pure]
    exact n03_LR.refl st
  | el :: els, st => by
    unfold createReexportElements
    refine n03_wp_modify_lr ?hg fun s1 h1 => ?_
    case hg => intro s; exact ⟨by simp, rfl⟩
    refine n03_wp_setModuleId_lr fun s2 h2 => ?_
    refine n03_wp_logEmit_lr fun s3 h3 => ?_
    rw [wp_bind, wp_get]
    dsimp only
    rw [wp_bind]
    refine wp_conseq (n03_reexportBody_lr env el s3) fun body s4 h4 => ?_
    rw [wp_bind]
    refine wp_conseq ((n03_createImportsString_quiet env).wp s4) fun _ s5 h5 => ?_
    rw [wp_bind, wp_get]
    rw [wp_bind]
    refine wp_conseq (n03_createReexportElements_log env moduleId els s5) fun rest s6 h6 => ?_
    rw [wp_pure]
    exact (((((h1.trans h2).trans h3).trans h4).trans (n03_LR.of_tr h5)).trans h6).cast (by simp [n03_restubLog])

/-- the log of the whole re-export phase: per queued module id, its nodes sorted by `(name, id)` -/
def n03_reexportPhaseLog (env : Env) (q : List (String × List Node)) : List LogEntry :=
  q.flatMap fun kv => n03_restubLog env kv.1 (sortBy nodeLe kv.2)

theorem n03_createReexportModules_log (env : Env) : (q : List (String × List Node)) → ∀ st,
    wp (createReexportModules env q) (fun _ st' => n03_LR st st' (n03_reexportPhaseLog env q)) st
  | [], st => by
    unfold createReexportModules
    rw [wp_pure]
    exact n03_LR.refl st
  | (moduleId, elements) :: rest, st => by
    unfold createReexportModules
    refine n03_wp_modify_lr ?hg fun s1 h1 => ?_
    case hg => intro s; exact ⟨by simp, rfl⟩
    refine n03_wp_setModuleId_lr fun s2 h2 => ?_
    refine n03_wp_modify_lr ?hg fun s3 h3 => ?_
    case hg => intro s; exact ⟨by simp, rfl⟩
    dsimp only
    rw [wp_bind]
    refine wp_conseq (n03_createReexportElements_log env moduleId _ s3) fun ds s4 h4 => ?_
    rw [wp_bind]
    refine wp_conseq (n03_createReexportModules_log env rest s4) fun more s5 h5 => ?_
    rw [wp_pure]
    exact ((((h1.trans h2).trans h3).trans h4).trans h5).cast (by simp [n03_reexportPhaseLog])

theorem n03_createReexportModuleStrings_log (env : Env) (st : St) :
    wp (createReexportModuleStrings env)
      (fun _ st' => n03_LR st st' (n03_reexportPhaseLog env st.reexports)) st := by
  unfold createReexportModuleStrings
  rw [wp_bind, wp_get]
  exact n03_createReexportModules_log env st.reexports st

/-! ### the order of the re-exported elements (`nodeLe`) is canonical -/

section n03_SortSec
variable {α : Type}

theorem n03_insertBy_pairwise (le : α → α → Bool)
    (total : ∀ a b, le a b = true ∨ le b a = true)
    (trans : ∀ a b c, le a b = true → le b c = true → le a c = true)
    (a : α) (l : List α) (h : l.Pairwise (fun x y => le x y = true)) :
    (insertBy le a l).Pairwise (fun x y => le x y = true) := by
  induction l with
  | nil => simp [insertBy]
  | cons b bs ih =>
    rw [List.pairwise_cons] at h
    unfold insertBy
    split
    · rename_i hab
      refine List.pairwise_cons.2 ⟨?_, List.pairwise_cons.2 h⟩
      intro x hx
      rcases List.mem_cons.1 hx with rfl | hx
      · exact hab
      · exact trans _ _ _ hab (h.1 x hx)
    · rename_i hab
      have hba : le b a = true := (total a b).resolve_left hab
      refine List.pairwise_cons.2 ⟨?_, ih h.2⟩
      intro x hx
      rcases List.mem_cons.1 ((insertBy_perm_mk le a bs).mem_iff.1 hx) with rfl | hx
      · exact hba
      · exact h.1 x hx

theorem n03_sortBy_pairwise (le : α → α → Bool)
    (total : ∀ a b, le a b = true ∨ le b a = true)
    (trans : ∀ a b c, le a b = true → le b c = true → le a c = true)
    (l : List α) : (sortBy le l).Pairwise (fun x y => le x y = true) := by
  induction l with
  | nil => simp [sortBy]
  | cons a as ih => exact n03_insertBy_pairwise le total trans a _ ih

/-- insertion sort by a total preorder that is antisymmetric on the members of the list gives the same
    result on every permutation of the list -/
theorem n03_sortBy_perm_invariant (le : α → α → Bool)
    (total : ∀ a b, le a b = true ∨ le b a = true)
    (trans : ∀ a b c, le a b = true → le b c = true → le a c = true)
    {l l' : List α}
    (antisymm : ∀ a ∈ l, ∀ b ∈ l, le a b = true → le b a = true → a = b)
    (h : l ~ l') : sortBy le l = sortBy le l' := by
  have hp : sortBy le l ~ sortBy le l' :=
    (sortBy_perm_mk le l).trans (h.trans (sortBy_perm_mk le l').symm)
  refine List.Perm.eq_of_pairwise (le := fun x y => le x y = true) ?_
    (n03_sortBy_pairwise le total trans l) (n03_sortBy_pairwise le total trans l') hp
  intro a b ha hb hab hba
  exact antisymm a ((sortBy_perm_mk le l).mem_iff.1 ha) b
    (h.mem_iff.2 ((sortBy_perm_mk le l').mem_iff.1 hb)) hab hba

end n03_SortSec

theorem n03_strLe_iff (a b : String) : strLe a b = true ↔ a ≤ b := by
  unfold strLe
  rw [Bool.not_eq_true', decide_eq_false_iff_not]
  exact not_lt

/-- `nodeLe` is the lexicographic order on `(name, id)` -/
theorem n03_nodeLe_iff (a b : Node) :
    nodeLe a b = true ↔ a.name < b.name ∨ (a.name = b.name ∧ a.id ≤ b.id) := by
  unfold nodeLe
  by_cases h : a.name = b.name
  · simp [h, n03_strLe_iff]
  · simp only [beq_iff_eq, h, if_false, n03_strLe_iff, false_and, or_false]
    exact ⟨fun h' => lt_of_le_of_ne h' h, le_of_lt⟩

theorem n03_nodeLe_total (a b : Node) : nodeLe a b = true ∨ nodeLe b a = true := by
  simp only [n03_nodeLe_iff]
  rcases lt_trichotomy a.name b.name with h | h | h
  · exact Or.inl (Or.inl h)
  · rcases le_total a.id b.id with h' | h'
    · exact Or.inl (Or.inr ⟨h, h'⟩)
    · exact Or.inr (Or.inr ⟨h.symm, h'⟩)
  · exact Or.inr (Or.inl h)

theorem n03_nodeLe_trans (a b c : Node) : nodeLe a b = true → nodeLe b c = true → nodeLe a c = true := by
  simp only [n03_nodeLe_iff]
  rintro (h1 | ⟨h1, h1'⟩) (h2 | ⟨h2, h2'⟩)
  · exact Or.inl (lt_trans h1 h2)
  · exact Or.inl (h2 ▸ h1)
  · exact Or.inl (h1 ▸ h2)
  · exact Or.inr ⟨h1.trans h2, le_trans h1' h2'⟩

/-- `nodeLe` in both directions: same `(name, id)` -/
theorem n03_nodeLe_antisymm (a b : Node) :
    nodeLe a b = true → nodeLe b a = true → a.name = b.name ∧ a.id = b.id := by
  simp only [n03_nodeLe_iff]
  rintro (h1 | ⟨h1, h1'⟩) (h2 | ⟨h2, h2'⟩)
  · exact absurd h1 (lt_asymm h2)
  · exact absurd h1 (h2 ▸ lt_irrefl _)
  · exact absurd h2 (h1 ▸ lt_irrefl _)
  · exact ⟨h1, le_antisymm h1' h2'⟩

/-- the sorted list of the queued nodes is a function of their multiset as soon as `(name, id)` identifies
    a node among them -/
theorem n03_sortBy_nodeLe_perm {l l' : List Node} (h : l ~ l')
    (hinj : ∀ a ∈ l, ∀ b ∈ l, a.name = b.name → a.id = b.id → a = b) :
    sortBy nodeLe l = sortBy nodeLe l' :=
  n03_sortBy_perm_invariant nodeLe n03_nodeLe_total n03_nodeLe_trans
    (fun a ha b hb h1 h2 =>
      hinj a ha b hb (n03_nodeLe_antisymm a b h1 h2).1 (n03_nodeLe_antisymm a b h1 h2).2) h

/-- the sorted list is sorted: adjacent (indeed all) pairs are in `nodeLe` order -/
theorem n03_sortBy_nodeLe_pairwise (l : List Node) :
    (sortBy nodeLe l).Pairwise (fun x y => nodeLe x y = true) :=
  n03_sortBy_pairwise nodeLe n03_nodeLe_total n03_nodeLe_trans l

/-! ### when a declaration moves -/

/-- number of `/`-separated segments of a module id -/
def n03_segs (id : String) : Nat := (splitSlash id).length

theorem n03_shortest_spec (cur : String) (rb : List ModRef) :
    ((n03_shortest cur rb).2 = none ∧ (n03_shortest cur rb).1 = cur ∧
      ∀ m ∈ rb, ¬ n03_segs m.id < n03_segs cur) ∨
    (∃ m ∈ rb, (n03_shortest cur rb).2 = some m ∧ (n03_shortest cur rb).1 = m.id ∧
      n03_segs m.id < n03_segs cur ∧ ∀ m' ∈ rb, n03_segs m.id ≤ n03_segs m'.id) := by
  induction rb using List.reverseRecOn with
  | nil => left; simp [n03_shortest]
  | append_singleton l x ih =>
    have hstep : n03_shortest cur (l ++ [x]) =
        if n03_segs x.id < n03_segs (n03_shortest cur l).1 then (x.id, some x) else n03_shortest cur l := by
      unfold n03_shortest n03_segs
      rw [List.foldl_append]
      rfl
    rw [hstep]
    rcases ih with ⟨h2, h1, hall⟩ | ⟨m, hm, h2, h1, hlt, hmin⟩
    · rw [h1]
      by_cases hx : n03_segs x.id < n03_segs cur
      · right
        rw [if_pos hx]
        refine ⟨x, by simp, rfl, rfl, hx, ?_⟩
        intro m' hm'
        rcases List.mem_append.1 hm' with hm' | hm'
        · have := hall m' hm'; omega
        · rw [List.mem_singleton] at hm'; subst hm'; exact Nat.le_refl _
      · left
        rw [if_neg hx]
        refine ⟨h2, h1, ?_⟩
        intro m' hm'
        rcases List.mem_append.1 hm' with hm' | hm'
        · exact hall m' hm'
        · rw [List.mem_singleton] at hm'; subst hm'; exact hx
    · right
      rw [h1]
      by_cases hx : n03_segs x.id < n03_segs m.id
      · rw [if_pos hx]
        refine ⟨x, by simp, rfl, rfl, by omega, ?_⟩
        intro m' hm'
        rcases List.mem_append.1 hm' with hm' | hm'
        · have := hmin m' hm'; omega
        · rw [List.mem_singleton] at hm'; subst hm'; exact Nat.le_refl _
      · rw [if_neg hx]
        refine ⟨m, by simp [hm], h2, h1, hlt, ?_⟩
        intro m' hm'
        rcases List.mem_append.1 hm' with hm' | hm'
        · exact hmin m' hm'
        · rw [List.mem_singleton] at hm'; subst hm'; omega

/-- a declaration moves iff some re-exporting module has an id with fewer segments than the current one -/
theorem n03_moves_iff (cur : String) (rb : List ModRef) :
    n03_moves cur rb = true ↔ ∃ m ∈ rb, n03_segs m.id < n03_segs cur := by
  unfold n03_moves
  rcases n03_shortest_spec cur rb with ⟨h2, _, hall⟩ | ⟨m, hm, h2, h1, hlt, _⟩
  · rw [h2]
    constructor
    · intro h; cases h
    · rintro ⟨m, hm, hlt⟩; exact absurd hlt (hall m hm)
  · rw [h2]
    dsimp only
    rw [h1]
    constructor
    · intro _; exact ⟨m, hm, hlt⟩
    · intro _
      have : m.id ≠ cur := by
        intro he; rw [he] at hlt; exact Nat.lt_irrefl _ hlt
      simpa using this

/-- a moved declaration is queued under the id of a re-exporting module with the fewest segments -/
theorem n03_queueKey_spec (cur : String) (rb : List ModRef) (h : n03_moves cur rb = true) :
    ∃ m ∈ rb, (n03_shortest cur rb).1 = m.id ∧ n03_segs m.id < n03_segs cur ∧
      ∀ m' ∈ rb, n03_segs m.id ≤ n03_segs m'.id := by
  rcases n03_shortest_spec cur rb with ⟨h2, _, hall⟩ | ⟨m, hm, h2, h1, hlt, hmin⟩
  · obtain ⟨m, hm, hlt⟩ := (n03_moves_iff cur rb).1 h
    exact absurd hlt (hall m hm)
  · exact ⟨m, hm, h1, hlt, hmin⟩

/-! ### `methodSkipped` -/

theorem n03_methodSkipped_public (m : Function) (ad : List String) :
    methodSkipped m false ad = true ↔ (m.isPublic = false ∨ m.name ∈ ad) := by
  unfold methodSkipped
  cases m.isPublic <;> simp

theorem n03_methodSkipped_internal (m : Function) (ad : List String) :
    methodSkipped m true ad = true ↔ ((m.isPublic = false ∧ isInternal m.name = true) ∨ m.name ∈ ad) := by
  unfold methodSkipped
  cases m.isPublic <;> simp

/-! ### the returned name sets -/

theorem n03_mem_attrNames (as : List Attribute) (n : String) :
    n ∈ n03_attrNames as ↔ ∃ a ∈ as, n03_attrShown a = true ∧ a.name = n := by
  induction as with
  | nil => simp [n03_attrNames]
  | cons a as ih =>
    unfold n03_attrNames
    by_cases hs : n03_attrShown a = true
    · rw [if_pos hs, mem_insertSet_mk, ih]
      constructor
      · rintro (⟨b, hb, h1, h2⟩ | rfl)
        · exact ⟨b, by simp [hb], h1, h2⟩
        · exact ⟨a, by simp, hs, rfl⟩
      · rintro ⟨b, hb, h1, h2⟩
        rcases List.mem_cons.1 hb with rfl | hb
        · exact Or.inr h2.symm
        · exact Or.inl ⟨b, hb, h1, h2⟩
    · rw [if_neg hs, ih]
      constructor
      · rintro ⟨b, hb, h1, h2⟩; exact ⟨b, by simp [hb], h1, h2⟩
      · rintro ⟨b, hb, h1, h2⟩
        rcases List.mem_cons.1 hb with rfl | hb
        · exact absurd h1 hs
        · exact ⟨b, hb, h1, h2⟩

theorem n03_mem_methNames (isInt : Bool) (ad : List String) (ms : List Function) (n : String) :
    n ∈ n03_methNames isInt ad ms ↔ ∃ m ∈ ms, methodSkipped m isInt ad = false ∧ m.name = n := by
  induction ms with
  | nil => simp [n03_methNames]
  | cons a as ih =>
    unfold n03_methNames
    by_cases hs : methodSkipped a isInt ad = true
    · rw [if_pos hs, ih]
      constructor
      · rintro ⟨b, hb, h1, h2⟩; exact ⟨b, by simp [hb], h1, h2⟩
      · rintro ⟨b, hb, h1, h2⟩
        rcases List.mem_cons.1 hb with rfl | hb
        · rw [hs] at h1; cases h1
        · exact ⟨b, hb, h1, h2⟩
    · have hs' : methodSkipped a isInt ad = false := by simpa using hs
      rw [if_neg hs, mem_insertSet_mk, ih]
      constructor
      · rintro (⟨b, hb, h1, h2⟩ | rfl)
        · exact ⟨b, by simp [hb], h1, h2⟩
        · exact ⟨a, by simp, hs', rfl⟩
      · rintro ⟨b, hb, h1, h2⟩
        rcases List.mem_cons.1 hb with rfl | hb
        · exact Or.inr h2.symm
        · exact Or.inl ⟨b, hb, h1, h2⟩

theorem n03_mem_unionSet (l m : List String) (n : String) : n ∈ unionSet l m ↔ n ∈ l ∨ n ∈ m := by
  unfold unionSet
  rw [mem_foldl_insertSet_mk]

/-! ### nesting: the top-level entries of a log -/

/-- the entries at nesting depth 0, starting at depth `d`: a `class` entry opens a level (it is itself
    reported when it is at depth 0), an `endclass` entry closes one (never reported) -/
def n03_top : Nat → List LogEntry → List LogEntry
  | _, [] => []
  | d, e :: es =>
    if e.1 = "class" then (if d = 0 then e :: n03_top (d + 1) es else n03_top (d + 1) es)
    else if e.1 = "endclass" then n03_top (d - 1) es
    else if d = 0 then e :: n03_top d es else n03_top d es

/-- well-bracketed logs -/
inductive n03_Bal : List LogEntry → Prop
  | nil : n03_Bal []
  | leaf (e : LogEntry) (rest : List LogEntry) : e.1 ≠ "class" → e.1 ≠ "endclass" → n03_Bal rest → n03_Bal (e :: rest)
  | block (i j : String) (m rest : List LogEntry) : n03_Bal m → n03_Bal rest →
      n03_Bal (("class", i) :: (m ++ ("endclass", j) :: rest))

theorem n03_Bal.append {a b : List LogEntry} (ha : n03_Bal a) (hb : n03_Bal b) : n03_Bal (a ++ b) := by
  induction ha with
  | nil => exact hb
  | leaf e rest h1 h2 _ ih => exact n03_Bal.leaf e _ h1 h2 ih
  | block i j m rest hm _ _ ih2 =>
    have : ("class", i) :: (m ++ ("endclass", j) :: rest) ++ b = ("class", i) :: (m ++ ("endclass", j) :: (rest ++ b)) := by
      simp
    rw [this]
    exact n03_Bal.block i j m _ hm ih2

theorem n03_Bal.flatMap {α : Type} (f : α → List LogEntry) (l : List α) (h : ∀ a ∈ l, n03_Bal (f a)) :
    n03_Bal (l.flatMap f) := by
  induction l with
  | nil => exact n03_Bal.nil
  | cons a as ih =>
    rw [List.flatMap_cons]
    exact (h a (by simp)).append (ih fun b hb => h b (by simp [hb]))

theorem n03_Bal.leaves (l : List LogEntry) (h : ∀ e ∈ l, e.1 ≠ "class" ∧ e.1 ≠ "endclass") : n03_Bal l := by
  induction l with
  | nil => exact n03_Bal.nil
  | cons a as ih => exact n03_Bal.leaf a as (h a (by simp)).1 (h a (by simp)).2 (ih fun e he => h e (by simp [he]))

/-- inside a level, a well-bracketed stretch contributes nothing to the top level -/
theorem n03_top_bal_succ {a : List LogEntry} (ha : n03_Bal a) : ∀ (d : Nat) (rest : List LogEntry),
    n03_top (d + 1) (a ++ rest) = n03_top (d + 1) rest := by
  induction ha with
  | nil => intro d rest; rfl
  | leaf e r h1 h2 _ ih =>
    intro d rest
    rw [List.cons_append, n03_top, if_neg h1, if_neg h2, if_neg (Nat.succ_ne_zero d)]
    exact ih d rest
  | block i j m r _ _ ih1 ih2 =>
    intro d rest
    have h3 : ("class", i) :: (m ++ ("endclass", j) :: r) ++ rest = ("class", i) :: (m ++ ("endclass", j) :: (r ++ rest)) := by
      simp
    rw [h3, n03_top]
    simp only [if_true, Nat.succ_ne_zero, if_false]
    rw [ih1 (d + 1), n03_top]
    simp only [show ¬ ("endclass" = "class") by decide, if_false, if_true, Nat.add_sub_cancel]
    exact ih2 d rest

/-- at depth 0 the top-level view distributes over a well-bracketed prefix -/
theorem n03_top_bal_zero {a : List LogEntry} (ha : n03_Bal a) : ∀ (rest : List LogEntry),
    n03_top 0 (a ++ rest) = n03_top 0 a ++ n03_top 0 rest := by
  induction ha with
  | nil => intro rest; rfl
  | leaf e r h1 h2 _ ih =>
    intro rest
    rw [List.cons_append, n03_top, if_neg h1, if_neg h2, if_pos rfl, n03_top, if_neg h1, if_neg h2, if_pos rfl, ih rest]
    rfl
  | block i j m r hm _ _ ih2 =>
    intro rest
    have h3 : ("class", i) :: (m ++ ("endclass", j) :: r) ++ rest = ("class", i) :: (m ++ ("endclass", j) :: (r ++ rest)) := by
      simp
    rw [h3, n03_top, n03_top]
    simp only [if_true]
    rw [n03_top_bal_succ hm 0, n03_top_bal_succ hm 0, n03_top, n03_top]
    simp only [show ¬ ("endclass" = "class") by decide, if_false, if_true, Nat.add_sub_cancel]
    rw [ih2 rest]
    rfl

/-- the top-level view of one class block is its opening entry -/
theorem n03_top_block (i j : String) {m : List LogEntry} (hm : n03_Bal m) :
    n03_top 0 (("class", i) :: (m ++ [("endclass", j)])) = [("class", i)] := by
  rw [n03_top]
  simp only [if_true]
  rw [n03_top_bal_succ hm 0, n03_top]
  simp only [show ¬ ("endclass" = "class") by decide, if_false, if_true]
  rfl

theorem n03_attrLog_bal (as : List Attribute) : n03_Bal (n03_attrLog as) := by
  apply n03_Bal.leaves
  intro e he
  simp only [n03_attrLog, List.mem_map] at he
  obtain ⟨a, _, rfl⟩ := he
  exact ⟨by show "attr" ≠ "class"; decide, by show "attr" ≠ "endclass"; decide⟩

theorem n03_methLog_bal (b : Bool) (ad : List String) (ms : List Function) : n03_Bal (n03_methLog b ad ms) := by
  apply n03_Bal.leaves
  intro e he
  simp only [n03_methLog, List.mem_map] at he
  obtain ⟨a, _, rfl⟩ := he
  unfold n03_methEntry
  cases a.isProperty
  · exact ⟨by show "fun" ≠ "class"; decide, by show "fun" ≠ "endclass"; decide⟩
  · exact ⟨by show "prop" ≠ "class"; decide, by show "prop" ≠ "endclass"; decide⟩

theorem n03_classLog_bal (env : Env) : (fuel : Nat) →
    (∀ c, n03_Bal (n03_classLog env fuel c)) ∧ (∀ sc ad, n03_Bal (n03_internalLog env fuel sc ad))
  | 0 => by
    refine ⟨fun c => ?_, fun sc ad => ?_⟩
    · rw [n03_classLog]; exact n03_Bal.nil
    · rw [n03_internalLog]; exact n03_Bal.nil
  | fuel + 1 => by
    obtain ⟨ih1, ih2⟩ := n03_classLog_bal env fuel
    refine ⟨fun c => ?_, fun sc ad => ?_⟩
    · rw [n03_classLog_succ]
      have hm : n03_Bal (n03_attrLog c.attributes
        ++ (c.classes.filter (·.isPublic)).flatMap (n03_classLog env fuel)
        ++ n03_methLog false [] c.methods
        ++ (if !c.renderedSupers.isEmpty && !c.isAbstract then
              (c.renderedSupers.filter n03_privSuper).flatMap
                (fun sc => n03_internalLog env fuel sc (n03_ownNames c))
            else [])) := by
        refine (((n03_attrLog_bal _).append (n03_Bal.flatMap _ _ fun a _ => ih1 a)).append (n03_methLog_bal _ _ _)).append ?_
        split
        · exact n03_Bal.flatMap _ _ fun a _ => ih2 a _
        · exact n03_Bal.nil
      exact n03_Bal.block _ _ _ [] hm n03_Bal.nil
    · rw [n03_internalLog_succ]
      split
      · exact ((n03_methLog_bal _ _ _).append (n03_Bal.flatMap _ _ fun a _ => ih1 a)).append
          (n03_Bal.flatMap _ _ fun a _ => ih2 a _)
      · exact n03_Bal.nil

/-- the members of a class block (between `class` and `endclass`) -/
def n03_members (env : Env) (fuel : Nat) (c : Class) : List LogEntry :=
  n03_attrLog c.attributes
    ++ (c.classes.filter (·.isPublic)).flatMap (n03_classLog env fuel)
    ++ n03_methLog false [] c.methods
    ++ (if !c.renderedSupers.isEmpty && !c.isAbstract then
          (c.renderedSupers.filter n03_privSuper).flatMap (fun sc => n03_internalLog env fuel sc (n03_ownNames c))
        else [])

theorem n03_classLog_members (env : Env) (fuel : Nat) (c : Class) :
    n03_classLog env (fuel + 1) c = ("class", c.id) :: (n03_members env fuel c ++ [("endclass", c.id)]) := by
  rw [n03_classLog_succ]; rfl

theorem n03_members_bal (env : Env) (fuel : Nat) (c : Class) : n03_Bal (n03_members env fuel c) := by
  obtain ⟨ih1, ih2⟩ := n03_classLog_bal env fuel
  unfold n03_members
  refine (((n03_attrLog_bal _).append (n03_Bal.flatMap _ _ fun a _ => ih1 a)).append (n03_methLog_bal _ _ _)).append ?_
  split
  · exact n03_Bal.flatMap _ _ fun a _ => ih2 a _
  · exact n03_Bal.nil

/-- top-level view of the log of the classes of a module -/
theorem n03_top_classesLog (env : Env) (cur : String) (inRe : Bool) (cs : List Class) :
    n03_top 0 (n03_classesLog env cur inRe cs) =
      (cs.filter n03_clsShown).map fun c =>
        (if n03_movedB cur false inRe c.reexportedBy then "moved" else "class", c.id) := by
  unfold n03_classesLog
  induction cs.filter n03_clsShown with
  | nil => rfl
  | cons c cs ih =>
    rw [List.flatMap_cons, List.map_cons]
    have hb : n03_Bal (n03_clsLog env (classFuel env) cur inRe c) := by
      unfold n03_clsLog
      split
      · exact n03_Bal.leaf _ _ (by show "moved" ≠ "class"; decide) (by show "moved" ≠ "endclass"; decide) n03_Bal.nil
      · exact (n03_classLog_bal env _).1 c
    have h1 : n03_top 0 (n03_clsLog env (classFuel env) cur inRe c) =
        [(if n03_movedB cur false inRe c.reexportedBy then "moved" else "class", c.id)] := by
      unfold n03_clsLog
      by_cases hm : n03_movedB cur false inRe c.reexportedBy = true
      · rw [if_pos hm, if_pos hm]; rfl
      · rw [if_neg hm, if_neg hm]
        have : classFuel env = (env.api.classes.length + 63) + 1 := rfl
        rw [this, n03_classLog_members, n03_top_block _ _ (n03_members_bal env _ c)]
    rw [n03_top_bal_zero hb, ih, h1]
    rfl

/-! ### the re-export queue -/

/-- the nodes queued under module id `k` (the entry `createReexportModules` will process) -/
def n03_queuedAt (rs : List (String × List Node)) (k : String) : List Node :=
  match rs.find? (fun kv => kv.1 == k) with
  | some kv => kv.2
  | none => []

theorem n03_queuedAt_append (rs : List (String × List Node)) (k : String) (n : Node) (k' : String) :
    n03_queuedAt (appendReexport rs k n) k' = n03_queuedAt rs k' ++ (if k = k' then [n] else []) := by
  unfold appendReexport
  by_cases hany : rs.any (fun kv => kv.1 == k) = true
  · rw [if_pos hany]
    unfold n03_queuedAt
    rw [List.find?_map]
    have hcomp : ((fun kv : String × List Node => kv.1 == k') ∘
        fun kv : String × List Node => if (kv.1 == k) = true then (kv.1, kv.2 ++ [n]) else kv) =
        fun kv => kv.1 == k' := by
      funext kv
      simp only [Function.comp]
      split <;> rfl
    rw [hcomp]
    cases hf : rs.find? (fun kv => kv.1 == k') with
    | none =>
      simp only [Option.map_none]
      have : k ≠ k' := by
        rintro rfl
        rw [List.find?_eq_none] at hf
        rw [List.any_eq_true] at hany
        obtain ⟨kv, hkv, hk⟩ := hany
        exact hf kv hkv hk
      simp [this]
    | some kv =>
      have hk := List.find?_some hf
      have hk' : kv.1 = k' := by simpa using hk
      simp only [Option.map_some]
      by_cases hkk : k = k'
      · subst hkk
        simp [hk']
      · have : ¬ (kv.1 == k) = true := by
          rw [hk']; simpa using fun h => hkk h.symm
        simp [this, hkk]
  · rw [if_neg hany]
    unfold n03_queuedAt
    rw [List.find?_append]
    cases hf : rs.find? (fun kv => kv.1 == k') with
    | none =>
      by_cases hkk : k = k'
      · subst hkk; simp
      · simp [hkk]
    | some kv =>
      have hk := List.find?_some hf
      have hk' : kv.1 = k' := by simpa using hk
      have hmem := List.mem_of_find?_eq_some hf
      have : k ≠ k' := by
        rintro rfl
        apply hany
        rw [List.any_eq_true]
        exact ⟨kv, hmem, by simp [hk']⟩
      simp [this]

theorem n03_queuedAt_enqueue (R : List (String × Node)) : ∀ (rs : List (String × List Node)) (k' : String),
    n03_queuedAt (n03_enqueue rs R) k' = n03_queuedAt rs k' ++ (R.filter (fun kn => kn.1 == k')).map (·.2) := by
  induction R with
  | nil => intro rs k'; simp [n03_enqueue]
  | cons kn R ih =>
    intro rs k'
    have : n03_enqueue rs (kn :: R) = n03_enqueue (appendReexport rs kn.1 kn.2) R := rfl
    rw [this, ih, n03_queuedAt_append]
    by_cases hk : kn.1 = k'
    · simp [hk]
    · simp [hk]

/-! ### C17: a chain of private ancestors -/

/-- a method of an inlined private base is a candidate unless it is private *and* has a `_` name -/
def n03_visName (m : Function) : Bool := m.isPublic || !isInternal m.name

theorem n03_not_methodSkipped_internal (m : Function) (ad : List String) :
    (!methodSkipped m true ad) = (n03_visName m && !ad.contains m.name) := by
  unfold methodSkipped n03_visName
  cases m.isPublic <;> cases isInternal m.name <;> cases ad.contains m.name <;> rfl

/-- resolve a private ancestry that is a chain (every class on the path has at most one private superclass,
    each resolves through `getClassInPackage`, the fuel suffices); nearest ancestor first -/
def n03_chain (env : Env) : Nat → List String → Option (List Class)
  | 0, scs => if (scs.filter n03_privSuper).isEmpty then some [] else none
  | fuel + 1, scs =>
    match scs.filter n03_privSuper with
    | [] => some []
    | [s] =>
      (match getClassInPackage env s with
       | .ok k => (n03_chain env fuel k.superclasses).map (k :: ·)
       | .error _ => none)
    | _ => none

/-- the inherited members along a chain; `defined` = the names defined by the class itself and by the
    nearer ancestors -/
def n03_inheritedLog (env : Env) : Nat → List String → List Class → List LogEntry
  | _, _, [] => []
  | 0, _, _ :: _ => []
  | fuel + 1, defined, k :: ks =>
    (k.methods.filter fun m => n03_visName m && !defined.contains m.name).map n03_methEntry
      ++ (k.classes.filter fun ic => !isInternal ic.name && !defined.contains ic.name).flatMap (n03_classLog env fuel)
      ++ n03_inheritedLog env fuel (defined ++ (k.methods.filter n03_visName).map (·.name)) ks

theorem n03_methLog_internal_eq (ad defined : List String) (h : ∀ n, n ∈ ad ↔ n ∈ defined) (ms : List Function) :
    n03_methLog true ad ms = (ms.filter fun m => n03_visName m && !defined.contains m.name).map n03_methEntry := by
  unfold n03_methLog
  congr 1
  apply List.filter_congr
  intro m _
  rw [n03_not_methodSkipped_internal]
  congr 2
  have := h m.name
  cases h1 : ad.contains m.name <;> cases h2 : defined.contains m.name <;> simp_all

theorem n03_defined_step (ad defined : List String) (h : ∀ n, n ∈ ad ↔ n ∈ defined) (ms : List Function) (n : String) :
    n ∈ unionSet ad (n03_methNames true ad ms) ↔ n ∈ defined ++ (ms.filter n03_visName).map (·.name) := by
  rw [n03_mem_unionSet, n03_mem_methNames, List.mem_append, List.mem_map, h]
  constructor
  · rintro (h1 | ⟨m, hm, hs, rfl⟩)
    · exact Or.inl h1
    · right
      refine ⟨m, List.mem_filter.2 ⟨hm, ?_⟩, rfl⟩
      have := n03_not_methodSkipped_internal m ad
      rw [hs] at this
      have h3 : (n03_visName m && !ad.contains m.name) = true := this.symm
      simp only [Bool.and_eq_true] at h3
      exact h3.1
  · rintro (h1 | ⟨m, hm, rfl⟩)
    · exact Or.inl h1
    · obtain ⟨hm, hv⟩ := List.mem_filter.1 hm
      by_cases hin : m.name ∈ ad
      · exact Or.inl ((h _).1 hin)
      · right
        refine ⟨m, hm, ?_, rfl⟩
        have := n03_not_methodSkipped_internal m ad
        have hc : ad.contains m.name = false := by simpa using hin
        rw [hv, hc] at this
        simpa using this

theorem n03_chain_log (env : Env) : ∀ (fuel : Nat) (scs : List String) (ks : List Class) (ad defined : List String),
    n03_chain env fuel scs = some ks → (∀ n, n ∈ ad ↔ n ∈ defined) →
    (scs.filter n03_privSuper).flatMap (fun s => n03_internalLog env fuel s ad) = n03_inheritedLog env fuel defined ks := by
  intro fuel
  induction fuel with
  | zero =>
    intro scs ks ad defined hc _
    rw [n03_chain] at hc
    split at hc
    · rename_i he
      cases hc
      have : scs.filter n03_privSuper = [] := by simpa using he
      rw [this]; rfl
    · cases hc
  | succ fuel ih =>
    intro scs ks ad defined hc hd
    rw [n03_chain] at hc
    split at hc
    · rename_i he
      cases hc
      rw [he]; rfl
    · rename_i s he
      rw [he]
      cases hg : getClassInPackage env s with
      | error e => rw [hg] at hc; cases hc
      | ok k =>
        rw [hg] at hc
        dsimp only at hc
        cases hk : n03_chain env fuel k.superclasses with
        | none => rw [hk] at hc; cases hc
        | some ks' =>
          rw [hk] at hc
          simp only [Option.map_some, Option.some.injEq] at hc
          subst hc
          rw [List.flatMap_cons, List.flatMap_nil, List.append_nil, n03_internalLog_succ, hg]
          dsimp only
          have hfil : (k.classes.filter fun ic => !isInternal ic.name && !ad.contains ic.name)
              = (k.classes.filter fun ic => !isInternal ic.name && !defined.contains ic.name) := by
            apply List.filter_congr
            intro x _
            have : ad.contains x.name = defined.contains x.name := by
              rw [Bool.eq_iff_iff]; simp [hd]
            rw [this]
          rw [hfil]
          rw [n03_inheritedLog, n03_methLog_internal_eq ad defined hd,
            ih k.superclasses ks' _ _ hk (n03_defined_step ad defined hd k.methods)]
    · cases hc

/-! ### small reformulations used by the theorem files -/

/-- the superclass names, for an arbitrary inlining function -/
theorem n03_superclassesG_names (env : Env) (inline : String → G String) :
    (scs : List String) → ∀ st, wp (superclassesG env inline scs) (fun r _ => r.1 = n03_superNames scs) st
  | [], st => by
    rw [superclassesG, wp_pure]; rfl
  | sc :: scs, st => by
    rw [superclassesG]
    dsimp only
    rw [wp_ite]
    refine ⟨fun hc => ?_, fun hc => ?_⟩
    · have hc' : n03_privSuper sc = false := by simpa [n03_privSuper] using hc
      rw [wp_bind]
      refine wp_conseq (wp_true _ _) fun _ s1 _ => ?_
      rw [wp_bind]
      refine wp_conseq (n03_superclassesG_names env inline scs s1) ?_
      rintro ⟨names, text⟩ s2 hn
      dsimp only at hn ⊢
      rw [wp_pure]
      simp [n03_superNames, List.filter, hc', hn]
    · have hc' : n03_privSuper sc = true := by simpa [n03_privSuper] using hc
      rw [wp_bind]
      refine wp_conseq (wp_true _ _) fun _ s1 _ => ?_
      rw [wp_bind]
      refine wp_conseq (n03_superclassesG_names env inline scs s1) ?_
      rintro ⟨names, text⟩ s2 hn
      dsimp only at hn ⊢
      rw [wp_pure]
      simp [n03_superNames, List.filter, hc', hn]

theorem n03_movedB_iff (cur : String) (inRe : Bool) (rb : List ModRef) :
    n03_movedB cur false inRe rb = true ↔
      inRe = false ∧ ∃ m ∈ rb, (splitSlash m.id).length < (splitSlash cur).length := by
  unfold n03_movedB
  rw [Bool.and_eq_true, n03_moves_iff]
  cases inRe <;> simp [n03_segs]

theorem n03_functionsLog_eq_map (cur : String) (inRe : Bool) (fs : List Function) :
    n03_functionsLog cur inRe fs = (fs.filter (·.isPublic)).map fun f =>
      (if n03_movedB cur false inRe f.reexportedBy then "moved" else "fun", f.id) := by
  unfold n03_functionsLog
  induction fs.filter (·.isPublic) with
  | nil => rfl
  | cons f fs ih =>
    rw [List.flatMap_cons, List.map_cons, ih]
    unfold n03_funLog
    split <;> rfl

theorem n03_functionsQueue_eq_map (cur : String) (inRe : Bool) (fs : List Function) :
    n03_functionsQueue cur inRe fs =
      (fs.filter fun f => f.isPublic && n03_movedB cur false inRe f.reexportedBy).map fun f =>
        n03_queueEntry f.name (.fn f) cur f.reexportedBy := by
  unfold n03_functionsQueue
  induction fs with
  | nil => rfl
  | cons f fs ih =>
    cases hp : f.isPublic
    · simpa [List.filter_cons, hp] using ih
    · cases hm : n03_movedB cur false inRe f.reexportedBy
      · simpa [List.filter_cons, hp, hm, n03_funQueue] using ih
      · simpa [List.filter_cons, hp, hm, n03_funQueue] using ih

theorem n03_classesQueue_eq_map (cur : String) (inRe : Bool) (cs : List Class) :
    n03_classesQueue cur inRe cs =
      (cs.filter fun c => n03_clsShown c && n03_movedB cur false inRe c.reexportedBy).map fun c =>
        n03_queueEntry c.name (.cls c) cur c.reexportedBy := by
  unfold n03_classesQueue
  induction cs with
  | nil => rfl
  | cons c cs ih =>
    cases hp : n03_clsShown c
    · simpa [List.filter_cons, hp] using ih
    · cases hm : n03_movedB cur false inRe c.reexportedBy
      · simpa [List.filter_cons, hp, hm, n03_clsQueue] using ih
      · simpa [List.filter_cons, hp, hm, n03_clsQueue] using ih

/-! ### the whole run (`generate_stub_data`) -/

/-- the modules that are run through the generator -/
def n03_runModules (ms : List Module) : List Module := ms.filter fun m => m.name != "__init__"

def n03_modulesLog (env : Env) (ms : List Module) : List LogEntry :=
  (n03_runModules ms).flatMap fun m => ("module", m.id) :: n03_moduleLog env m.id m

def n03_modulesQueue (env : Env) (ms : List Module) : List (String × Node) :=
  (n03_runModules ms).flatMap fun m => n03_moduleQueue env m.id m

theorem n03_generateModules_log (env : Env) : (ms : List Module) → ∀ st, st.creatingReexport = false →
    wp (generateModules env ms)
      (fun _ st' => st'.log = st.log ++ n03_modulesLog env ms ∧
        st'.reexports = n03_enqueue st.reexports (n03_modulesQueue env ms) ∧ st'.creatingReexport = false) st
  | [], st, h0 => by
    rw [generateModules, wp_pure]
    exact ⟨by simp [n03_modulesLog, n03_runModules], rfl, h0⟩
  | m :: ms, st, h0 => by
    rw [generateModules, wp_ite]
    refine ⟨fun hi => ?_, fun hi => ?_⟩
    · refine wp_conseq (n03_generateModules_log env ms st h0) ?_
      rintro _ s1 ⟨h1, h2, h3⟩
      have hi' : m.name = "__init__" := by simpa using hi
      have : n03_runModules (m :: ms) = n03_runModules ms := by
        simp [n03_runModules, hi']
      exact ⟨by rw [h1, n03_modulesLog, n03_modulesLog, this], by rw [h2, n03_modulesQueue, n03_modulesQueue, this], h3⟩
    · have hi' : ¬ m.name = "__init__" := by simpa using hi
      have hrun : n03_runModules (m :: ms) = m :: n03_runModules ms := by
        simp [n03_runModules, hi']
      rw [wp_bind]
      refine wp_conseq (n03_callGenerator_log env m st) ?_
      rintro ⟨text, packageInfo⟩ s1 ⟨h1, h2, h3⟩
      have hcur : n03_callCur st m = m.id := by simp [n03_callCur, h0]
      rw [hcur] at h1 h2
      rw [h0] at h3
      have hfin : ∀ (x : G (List StubData)), (x = generateModules env ms ∨
          ∃ g : List StubData → List StubData, x = (generateModules env ms >>= fun rest => pure (g rest))) →
          wp x (fun _ st' => st'.log = st.log ++ n03_modulesLog env (m :: ms) ∧
            st'.reexports = n03_enqueue st.reexports (n03_modulesQueue env (m :: ms)) ∧
            st'.creatingReexport = false) s1 := by
        intro x hx
        have hrec := n03_generateModules_log env ms s1 h3
        have hpost : ∀ s2 : St, (s2.log = s1.log ++ n03_modulesLog env ms ∧
            s2.reexports = n03_enqueue s1.reexports (n03_modulesQueue env ms) ∧ s2.creatingReexport = false) →
            (s2.log = st.log ++ n03_modulesLog env (m :: ms) ∧
            s2.reexports = n03_enqueue st.reexports (n03_modulesQueue env (m :: ms)) ∧
            s2.creatingReexport = false) := by
          rintro s2 ⟨g1, g2, g3⟩
          refine ⟨?_, ?_, g3⟩
          · rw [g1, h1, n03_modulesLog, n03_modulesLog, hrun]; simp
          · rw [g2, h2, n03_modulesQueue, n03_modulesQueue, hrun, List.flatMap_cons, n03_enqueue_append]
        rcases hx with rfl | ⟨g, rfl⟩
        · exact wp_conseq hrec fun _ s2 h => hpost s2 h
        · rw [wp_bind]
          refine wp_conseq hrec fun _ s2 h => ?_
          rw [wp_pure]
          exact hpost s2 h
      dsimp only
      rw [wp_ite]
      refine ⟨fun _ => hfin _ (Or.inl rfl), fun _ => hfin _ (Or.inr ⟨_, rfl⟩)⟩

/-- the log of a whole run from the fresh generator state -/
theorem n03_generateStubData_log (env : Env) (st : St) (h0 : st.creatingReexport = false) :
    wp (generateStubData env)
      (fun _ st' => st'.log = st.log ++ n03_modulesLog env env.api.modules
        ++ n03_reexportPhaseLog env (n03_enqueue st.reexports (n03_modulesQueue env env.api.modules))) st := by
  unfold generateStubData
  rw [wp_bind]
  refine wp_conseq (n03_generateModules_log env env.api.modules st h0) ?_
  rintro a s1 ⟨h1, h2, _⟩
  rw [wp_bind]
  refine wp_conseq (n03_createReexportModuleStrings_log env s1) fun b s2 h3 => ?_
  rw [wp_pure, h3.log, h1, h2]

/-! ### C17: which inherited methods are logged -/

/-- the inherited methods that are logged along a chain, in order (nearest ancestor first) -/
def n03_inheritedMeths : List String → List Class → List Function
  | _, [] => []
  | defined, k :: ks =>
    (k.methods.filter fun m => n03_visName m && !defined.contains m.name)
      ++ n03_inheritedMeths (defined ++ (k.methods.filter n03_visName).map (·.name)) ks

/-- the method entries of a log that are not nested in an (inner) class block -/
def n03_topMeths (Δ : List LogEntry) : List LogEntry := (n03_top 0 Δ).filter fun e => e.1 != "class"

theorem n03_topMeths_append {a : List LogEntry} (ha : n03_Bal a) (b : List LogEntry) :
    n03_topMeths (a ++ b) = n03_topMeths a ++ n03_topMeths b := by
  unfold n03_topMeths
  rw [n03_top_bal_zero ha, List.filter_append]

theorem n03_topMeths_meths (ms : List Function) : n03_topMeths (ms.map n03_methEntry) = ms.map n03_methEntry := by
  unfold n03_topMeths
  induction ms with
  | nil => rfl
  | cons m ms ih =>
    have h1 : (n03_methEntry m).1 ≠ "class" := by
      unfold n03_methEntry; cases m.isProperty
      · show "fun" ≠ "class"; decide
      · show "prop" ≠ "class"; decide
    have h2 : (n03_methEntry m).1 ≠ "endclass" := by
      unfold n03_methEntry; cases m.isProperty
      · show "fun" ≠ "endclass"; decide
      · show "prop" ≠ "endclass"; decide
    rw [List.map_cons, n03_top, if_neg h1, if_neg h2, if_pos rfl, List.filter_cons, ih]
    simp [h1]

theorem n03_topMeths_blocks (env : Env) (fuel : Nat) (cs : List Class) :
    n03_topMeths (cs.flatMap (n03_classLog env fuel)) = [] := by
  induction cs with
  | nil => rfl
  | cons c cs ih =>
    rw [List.flatMap_cons, n03_topMeths_append ((n03_classLog_bal env fuel).1 c), ih, List.append_nil]
    cases fuel with
    | zero => rw [n03_classLog]; rfl
    | succ f =>
      unfold n03_topMeths
      rw [n03_classLog_members, n03_top_block _ _ (n03_members_bal env f c)]
      rfl

theorem n03_meths_bal (ms : List Function) : n03_Bal (ms.map n03_methEntry) := by
  apply n03_Bal.leaves
  intro e he
  rw [List.mem_map] at he
  obtain ⟨a, _, rfl⟩ := he
  unfold n03_methEntry
  cases a.isProperty
  · exact ⟨by show "fun" ≠ "class"; decide, by show "fun" ≠ "endclass"; decide⟩
  · exact ⟨by show "prop" ≠ "class"; decide, by show "prop" ≠ "endclass"; decide⟩

/-- outside inner-class blocks, the inherited part of a class block consists of exactly the entries of
    `n03_inheritedMeths` -/
theorem n03_topMeths_inherited (env : Env) : ∀ (fuel : Nat) (defined : List String) (ks : List Class),
    ks.length ≤ fuel →
    n03_topMeths (n03_inheritedLog env fuel defined ks) = (n03_inheritedMeths defined ks).map n03_methEntry := by
  intro fuel
  induction fuel with
  | zero =>
    intro defined ks hl
    have : ks = [] := List.length_eq_zero_iff.1 (Nat.le_zero.1 hl)
    subst this
    rfl
  | succ fuel ih =>
    intro defined ks hl
    cases ks with
    | nil => rfl
    | cons k ks =>
      rw [n03_inheritedLog, n03_inheritedMeths, List.append_assoc,
        n03_topMeths_append (n03_meths_bal _),
        n03_topMeths_append (n03_Bal.flatMap _ _ fun a _ => (n03_classLog_bal env fuel).1 a),
        n03_topMeths_meths, n03_topMeths_blocks, ih _ ks (by simpa using hl), List.map_append]
      rfl

theorem n03_chain_length (env : Env) : ∀ (fuel : Nat) (scs : List String) (ks : List Class),
    n03_chain env fuel scs = some ks → ks.length ≤ fuel := by
  intro fuel
  induction fuel with
  | zero =>
    intro scs ks hc
    rw [n03_chain] at hc
    split at hc
    · cases hc; exact Nat.le_refl _
    · cases hc
  | succ fuel ih =>
    intro scs ks hc
    rw [n03_chain] at hc
    split at hc
    · cases hc; exact Nat.zero_le _
    · rename_i s _
      cases hg : getClassInPackage env s with
      | error e => rw [hg] at hc; cases hc
      | ok k =>
        rw [hg] at hc
        dsimp only at hc
        cases hk : n03_chain env fuel k.superclasses with
        | none => rw [hk] at hc; cases hc
        | some ks' =>
          rw [hk] at hc
          simp only [Option.map_some, Option.some.injEq] at hc
          subst hc
          have := ih _ _ hk
          simp only [List.length_cons]
          omega
    · cases hc

/-- position-wise: the method `m` of the `i`-th ancestor is logged iff its name is visible, not defined by
    the class itself (`defined`), and not the name of a visible method of a nearer ancestor -/
theorem n03_mem_inheritedMeths (m : Function) : ∀ (ks : List Class) (defined : List String),
    m ∈ n03_inheritedMeths defined ks ↔
      ∃ (i : Nat) (k : Class), ks[i]? = some k ∧ m ∈ k.methods ∧ n03_visName m = true ∧ m.name ∉ defined ∧
        ∀ (j : Nat) (k' : Class) (m' : Function), j < i → ks[j]? = some k' → m' ∈ k'.methods →
          n03_visName m' = true → m'.name ≠ m.name := by
  intro ks
  induction ks with
  | nil => intro defined; simp [n03_inheritedMeths]
  | cons k ks ih =>
    intro defined
    rw [n03_inheritedMeths, List.mem_append, ih]
    constructor
    · rintro (h | ⟨i, k', hk', hm, hv, hnd, hsh⟩)
      · obtain ⟨hm, hc⟩ := List.mem_filter.1 h
        have hc' : n03_visName m = true ∧ m.name ∉ defined := by simpa using hc
        exact ⟨0, k, rfl, hm, hc'.1, hc'.2, fun j _ _ hj => absurd hj (Nat.not_lt_zero _)⟩
      · refine ⟨i + 1, k', by simpa using hk', hm, hv, ?_, ?_⟩
        · intro hin; exact hnd (List.mem_append.2 (Or.inl hin))
        · intro j k'' m' hj hk'' hm' hv' hname
          cases j with
          | zero =>
            have : k'' = k := by simpa using hk''.symm
            subst this
            apply hnd
            rw [List.mem_append, List.mem_map]
            exact Or.inr ⟨m', List.mem_filter.2 ⟨hm', hv'⟩, hname⟩
          | succ j =>
            exact hsh j k'' m' (by omega) (by simpa using hk'') hm' hv' hname
    · rintro ⟨i, k', hk', hm, hv, hnd, hsh⟩
      cases i with
      | zero =>
        have : k' = k := by simpa using hk'.symm
        subst this
        exact Or.inl (List.mem_filter.2 ⟨hm, by simp [hv, hnd]⟩)
      | succ i =>
        right
        refine ⟨i, k', by simpa using hk', hm, hv, ?_, ?_⟩
        · intro hin
          rcases List.mem_append.1 hin with hin | hin
          · exact hnd hin
          · rw [List.mem_map] at hin
            obtain ⟨m', hm', hname⟩ := hin
            obtain ⟨hm1, hm2⟩ := List.mem_filter.1 hm'
            exact hsh 0 k m' (Nat.succ_pos _) rfl hm1 hm2 hname
        · intro j k'' m' hj hk'' hm' hv' hname
          exact hsh (j + 1) k'' m' (by omega) (by simpa using hk'') hm' hv' hname

end StubGen
