/-
C03 (analyser half) — helper lemmas: the re-export bookkeeping (`addReexports`, `getReexportedBy`, `sortModRefs`),
the module record `enter_moduledef` builds, enums and their members, the walker as a sequence of visitor calls.

All names carry the prefix `w03_`.
-/
import StubGen.Proofs.Order
import StubGen.Proofs.Inventory

namespace StubGen

open List

/-! ### 1. `_get_reexported_by`: the probed keys, first-by-id collection -/

/-- round `i`: the first `i + 1` segments of the qualified name -/
def w03_fwdKey (path : List String) (i : Nat) : String := joinWith "." (path.take (i + 1))

/-- round `i`: the last `i + 1` segments of the qualified name -/
def w03_bwdKey (path : List String) (i : Nat) : String := joinWith "." (path.drop (path.length - (i + 1)))

/-- round `i`: the last `min (n - 1) (i + 1)` segments of the name WITHOUT its last segment, followed by `.*` -/
def w03_wildKey (path : List String) (i : Nat) : String :=
  joinWith "." ((path.take (path.length - 1)).drop (path.length - 1 - min (path.length - 1) (i + 1))) ++ ".*"

def w03_roundKeys (path : List String) (i : Nat) : List String := [w03_fwdKey path i, w03_bwdKey path i, w03_wildKey path i]

/-- all keys `_get_reexported_by(qname)` looks up, in the order of the look-ups -/
def w03_probeKeys (qname : String) : List String :=
  (List.range (splitDot qname).length).flatMap (w03_roundKeys (splitDot qname))

/-- the matching condition between a key of the re-export map and a qualified name: the key is EQUAL to one of the
    three strings built in some round `i < n` (no `endswith`, no prefix test: plain dictionary look-ups) -/
def w03_KeyMatches (key qname : String) : Prop :=
  ∃ i, i < (splitDot qname).length ∧
    (key = w03_fwdKey (splitDot qname) i ∨ key = w03_bwdKey (splitDot qname) i ∨ key = w03_wildKey (splitDot qname) i)

theorem w03_keyMatches_iff_mem (key qname : String) : w03_KeyMatches key qname ↔ key ∈ w03_probeKeys qname := by
  unfold w03_KeyMatches w03_probeKeys w03_roundKeys
  simp only [List.mem_flatMap, List.mem_range, List.mem_cons, List.not_mem_nil, or_false]

instance (key qname : String) : Decidable (w03_KeyMatches key qname) :=
  decidable_of_iff _ (w03_keyMatches_iff_mem key qname).symm

/-- a set of modules keyed by id, in insertion order: the first module with a given id stays -/
def w03_firstById (l : List ModRef) : List ModRef := l.foldl addToSetById []

theorem w03_foldl_flatMap {α β γ : Type} (f : β → γ → β) (g : α → List γ) :
    ∀ (l : List α) (init : β), l.foldl (fun acc a => (g a).foldl f acc) init = (l.flatMap g).foldl f init
  | [], _ => rfl
  | a :: l, init => by
    rw [List.foldl_cons, List.flatMap_cons, List.foldl_append, w03_foldl_flatMap f g l]

/-- `_get_reexported_by`, exactly: concatenate the look-ups of the probed keys, keep the first module per id -/
theorem w03_getReexportedBy_eq (s : VSt) (qname : String) :
    getReexportedBy s qname = w03_firstById ((w03_probeKeys qname).flatMap (p08_lookD s.api.reexportMap)) := by
  rw [p08_getReexportedBy_eq]
  unfold p08_grb w03_firstById w03_probeKeys
  simp only []
  rw [List.flatMap_assoc, ← w03_foldl_flatMap]
  congr 1
  funext acc i
  simp only [w03_roundKeys, List.flatMap_cons, List.flatMap_nil, List.append_nil, List.foldl_append, w03_fwdKey,
    w03_bwdKey, w03_wildKey]

theorem w03_hasId_append (a b : List ModRef) (i : String) : p08_hasId (a ++ b) i = (p08_hasId a i || p08_hasId b i) := by
  unfold p08_hasId; rw [List.any_append]

/-- membership in a first-by-id fold -/
theorem w03_mem_foldl_addToSetById (m : ModRef) : ∀ (l acc : List ModRef),
    m ∈ l.foldl addToSetById acc ↔ m ∈ acc ∨ (p08_hasId acc m.id = false ∧ l.find? (fun x => x.id == m.id) = some m)
  | [], acc => by simp
  | x :: l, acc => by
    rw [List.foldl_cons, w03_mem_foldl_addToSetById m l, p08_addToSetById_eq, List.find?_cons]
    by_cases hx : p08_hasId acc x.id = true
    · rw [if_pos hx]
      by_cases hxm : x.id = m.id
      · have h1 : p08_hasId acc m.id = true := hxm ▸ hx
        simp [h1]
      · have : (x.id == m.id) = false := by simpa using hxm
        simp only [this]
    · rw [if_neg hx]
      have hx' : p08_hasId acc x.id = false := Bool.eq_false_iff.2 hx
      by_cases hxm : x.id = m.id
      · have hb : (x.id == m.id) = true := by simpa using hxm
        have h1 : p08_hasId acc m.id = false := hxm ▸ hx'
        have h2 : p08_hasId (acc ++ [x]) m.id = true := by
          rw [w03_hasId_append]; simp [p08_hasId, hxm]
        simp only [hb, h1, h2, List.mem_append, List.mem_singleton, Option.some.injEq, true_and]
        constructor
        · rintro ((h | h) | h)
          · exact Or.inl h
          · exact Or.inr h.symm
          · exact absurd h.1 (by simp)
        · rintro (h | h)
          · exact Or.inl (Or.inl h)
          · exact Or.inl (Or.inr h.symm)
      · have hb : (x.id == m.id) = false := by simpa using hxm
        have h2 : p08_hasId (acc ++ [x]) m.id = p08_hasId acc m.id := by
          rw [w03_hasId_append]; simp [p08_hasId, hxm]
        have hne : m ≠ x := fun e => hxm (e ▸ rfl)
        simp only [hb, h2, List.mem_append, List.mem_singleton, hne, or_false]

/-- `m` is collected iff it is the FIRST module with its id among the concatenated look-ups -/
theorem w03_mem_firstById (m : ModRef) (l : List ModRef) :
    m ∈ w03_firstById l ↔ l.find? (fun x => x.id == m.id) = some m := by
  unfold w03_firstById
  rw [w03_mem_foldl_addToSetById]
  simp [p08_hasId]

theorem w03_firstById_nodup (l : List ModRef) : ((w03_firstById l).map (·.id)).Nodup :=
  p08_foldl_addToSetById_nodup l [] (by simp)

theorem w03_ids_foldl_addToSetById (i : String) : ∀ (l acc : List ModRef),
    i ∈ (l.foldl addToSetById acc).map (·.id) ↔ i ∈ acc.map (·.id) ∨ i ∈ l.map (·.id)
  | [], acc => by simp
  | x :: l, acc => by
    rw [List.foldl_cons, w03_ids_foldl_addToSetById i l, p08_addToSetById_eq]
    split
    · rename_i hx
      rw [p08_hasId_iff] at hx
      simp only [List.map_cons, List.mem_cons]
      constructor
      · rintro (h | h)
        · exact Or.inl h
        · exact Or.inr (Or.inr h)
      · rintro (h | h | h)
        · exact Or.inl h
        · exact Or.inl (h ▸ hx)
        · exact Or.inr h
    · simp only [List.map_append, List.map_cons, List.map_nil, List.mem_append, List.mem_cons, List.not_mem_nil,
        or_false]
      tauto

theorem w03_ids_firstById (i : String) (l : List ModRef) : i ∈ (w03_firstById l).map (·.id) ↔ i ∈ l.map (·.id) := by
  unfold w03_firstById
  rw [w03_ids_foldl_addToSetById]
  simp

theorem w03_find?_eq_some_of_unique {m : ModRef} {l : List ModRef} (hm : m ∈ l)
    (hu : ∀ x ∈ l, x.id = m.id → x = m) : l.find? (fun x => x.id == m.id) = some m := by
  induction l with
  | nil => simp at hm
  | cons x l ih =>
    rw [List.find?_cons]
    by_cases hxm : x.id = m.id
    · have hb : (x.id == m.id) = true := by simpa using hxm
      rw [hb, hu x List.mem_cons_self hxm]
    · have hb : (x.id == m.id) = false := by simpa using hxm
      rw [hb]
      rcases List.mem_cons.1 hm with rfl | hm
      · exact absurd rfl hxm
      · exact ih hm (fun y hy => hu y (List.mem_cons_of_mem _ hy))

/-! ### 2. `sortModRefs` -/

theorem w03_sortModRefs_perm (l : List ModRef) : sortModRefs l ~ l := sortBy_perm _ l

theorem w03_sortModRefs_sorted (l : List ModRef) : (sortModRefs l).Pairwise (fun a b => a.id ≤ b.id) := by
  have := p08_sortBy_pairwise (fun (a b : ModRef) => strLe a.id b.id) (fun a b => p08_strLe_total a.id b.id)
    (fun a b c => p08_strLe_trans a.id b.id c.id) l
  unfold sortModRefs
  exact this.imp (fun h => (strLe_iff _ _).1 h)

theorem w03_sortModRefs_strict {l : List ModRef} (hnd : (l.map (·.id)).Nodup) :
    (sortModRefs l).Pairwise (fun a b => a.id < b.id) := by
  have hs := w03_sortModRefs_sorted l
  have hn : ((sortModRefs l).map (·.id)).Nodup := ((w03_sortModRefs_perm l).map _).nodup_iff.2 hnd
  rw [List.Nodup, List.pairwise_map] at hn
  exact (hs.and hn).imp (fun h => lt_of_le_of_ne h.1 h.2)

/-! ### 3. `_add_reexports`: the exact shape of the map afterwards -/

/-- what happens to an existing entry: the module joins the set (by id) iff the key is one of the import keys -/
def w03_upd (r : ModRef) (ks : List String) (kv : String × List ModRef) : String × List ModRef :=
  if kv.1 ∈ ks then (kv.1, addToSetById kv.2 r) else kv

/-- the keys of `ks` that are not in `seen`, first occurrences, in order -/
def w03_fresh : List String → List String → List String
  | _, [] => []
  | seen, k :: ks => if k ∈ seen then w03_fresh seen ks else k :: w03_fresh (seen ++ [k]) ks

theorem w03_upd_fst (r : ModRef) (ks : List String) (kv : String × List ModRef) : (w03_upd r ks kv).1 = kv.1 := by
  unfold w03_upd; split <;> rfl

theorem w03_any_key_iff (rm : List (String × List ModRef)) (k : String) :
    rm.any (·.1 == k) = true ↔ k ∈ rm.map (·.1) := by
  simp only [List.any_eq_true, beq_iff_eq, List.mem_map]

theorem w03_foldl_addKey (r : ModRef) : ∀ (ks : List String) (rm : List (String × List ModRef)),
    ks.foldl (p08_addKey r) rm =
      rm.map (w03_upd r ks) ++ (w03_fresh (rm.map (·.1)) ks).map (fun k => (k, [r]))
  | [], rm => by
    simp only [List.foldl_nil, w03_fresh, List.map_nil, List.append_nil]
    have : w03_upd r [] = id := by funext kv; simp [w03_upd]
    rw [this, List.map_id]
  | k :: ks, rm => by
    rw [List.foldl_cons, w03_foldl_addKey r ks]
    unfold p08_addKey
    by_cases hk : k ∈ rm.map (·.1)
    · rw [if_pos ((w03_any_key_iff rm k).2 hk)]
      have hkeys : (rm.map (fun kv => if kv.1 == k then (kv.1, addToSetById kv.2 r) else kv)).map (·.1) = rm.map (·.1) := by
        rw [List.map_map]
        apply List.map_congr_left
        intro kv _
        simp only [Function.comp]
        split <;> rfl
      rw [hkeys, List.map_map]
      conv_rhs => rw [w03_fresh, if_pos hk]
      congr 1
      apply List.map_congr_left
      intro kv _
      obtain ⟨k0, ms⟩ := kv
      simp only [Function.comp, w03_upd]
      by_cases e : k0 = k
      · subst e
        simp only [beq_self_eq_true, if_true, List.mem_cons, true_or]
        split
        · rw [p08_addToSetById_idem]
        · rfl
      · have eb : (k0 == k) = false := by simpa using e
        simp only [eb, Bool.false_eq_true, if_false, List.mem_cons, e, false_or]
    · have hk' : ¬ rm.any (·.1 == k) = true := fun h => hk ((w03_any_key_iff rm k).1 h)
      rw [if_neg hk']
      conv_rhs => rw [w03_fresh, if_neg hk]
      rw [List.map_append, List.map_append, List.map_cons, List.map_nil, List.map_cons, List.map_nil, List.map_cons,
        List.append_assoc]
      congr 1
      · apply List.map_congr_left
        intro kv hkv
        have hne : kv.1 ≠ k := fun e => hk (e ▸ List.mem_map_of_mem hkv)
        simp only [w03_upd, List.mem_cons, hne, false_or]
      · rw [List.singleton_append]
        congr 1
        simp only [w03_upd]
        split
        · simp [addToSetById]
        · rfl

theorem w03_mem_fresh (k : String) : ∀ (ks seen : List String), k ∈ w03_fresh seen ks ↔ k ∈ ks ∧ k ∉ seen
  | [], seen => by simp [w03_fresh]
  | k' :: ks, seen => by
    rw [w03_fresh]
    split
    · rename_i h
      rw [w03_mem_fresh k ks seen, List.mem_cons]
      constructor
      · rintro ⟨h1, h2⟩; exact ⟨Or.inr h1, h2⟩
      · rintro ⟨h1 | h1, h2⟩
        · exact absurd (h1 ▸ h) h2
        · exact ⟨h1, h2⟩
    · rename_i h
      rw [List.mem_cons, w03_mem_fresh k ks (seen ++ [k']), List.mem_cons, List.mem_append, List.mem_singleton]
      constructor
      · rintro (h1 | ⟨h1, h2⟩)
        · exact ⟨Or.inl h1, h1 ▸ h⟩
        · exact ⟨Or.inr h1, fun h3 => h2 (Or.inl h3)⟩
      · rintro ⟨h1 | h1, h2⟩
        · exact Or.inl h1
        · by_cases e : k = k'
          · exact Or.inl e
          · exact Or.inr ⟨h1, fun h3 => h3.elim h2 e⟩

theorem w03_fresh_nodup : ∀ (ks seen : List String), (w03_fresh seen ks).Nodup
  | [], _ => by simp [w03_fresh]
  | k :: ks, seen => by
    rw [w03_fresh]
    split
    · exact w03_fresh_nodup ks seen
    · refine List.nodup_cons.2 ⟨?_, w03_fresh_nodup ks _⟩
      rw [w03_mem_fresh]
      simp

theorem w03_fresh_eq_nil {ks seen : List String} (h : ∀ k ∈ ks, k ∈ seen) : w03_fresh seen ks = [] := by
  apply List.eq_nil_iff_forall_not_mem.2
  intro k hk
  rw [w03_mem_fresh] at hk
  exact hk.2 (h k hk.1)

/-- the exact map after `_add_reexports(module)` -/
theorem w03_addReexports_eq (api : AnaResult) (m : Module) :
    (addReexports api m).reexportMap =
      api.reexportMap.map (w03_upd m.ref (p08_importKeys m)) ++
        (w03_fresh (api.reexportMap.map (·.1)) (p08_importKeys m)).map (fun k => (k, [m.ref])) := by
  rw [p08_addReexports_eq, w03_foldl_addKey]

theorem w03_addReexports_others (api : AnaResult) (m : Module) :
    (addReexports api m).modules = api.modules ∧ (addReexports api m).classes = api.classes ∧
    (addReexports api m).functions = api.functions ∧ (addReexports api m).results = api.results ∧
    (addReexports api m).enums = api.enums ∧ (addReexports api m).enumInstances = api.enumInstances ∧
    (addReexports api m).attributes = api.attributes ∧ (addReexports api m).parameters = api.parameters :=
  ⟨rfl, rfl, rfl, rfl, rfl, rfl, rfl, rfl⟩

theorem w03_addReexports_keys (api : AnaResult) (m : Module) :
    (addReexports api m).reexportMap.map (·.1) =
      api.reexportMap.map (·.1) ++ w03_fresh (api.reexportMap.map (·.1)) (p08_importKeys m) := by
  rw [w03_addReexports_eq, List.map_append, List.map_map, List.map_map]
  congr 1
  · apply List.map_congr_left
    intro kv _
    exact w03_upd_fst _ _ _
  · exact List.map_id _

theorem w03_upd_idem (r : ModRef) (ks : List String) (kv : String × List ModRef) :
    w03_upd r ks (w03_upd r ks kv) = w03_upd r ks kv := by
  unfold w03_upd
  by_cases h : kv.1 ∈ ks
  · simp only [h, if_true, p08_addToSetById_idem]
  · simp only [h, if_false]

/-- analysing the same `__init__` module twice leaves the map as it is (exact equality) -/
theorem w03_addReexports_idem (api : AnaResult) (m : Module) :
    (addReexports (addReexports api m) m).reexportMap = (addReexports api m).reexportMap := by
  rw [w03_addReexports_eq (addReexports api m) m]
  have hall : ∀ k ∈ p08_importKeys m, k ∈ (addReexports api m).reexportMap.map (·.1) := by
    intro k hk
    rw [w03_addReexports_keys, List.mem_append, w03_mem_fresh]
    by_cases h : k ∈ api.reexportMap.map (·.1)
    · exact Or.inl h
    · exact Or.inr ⟨hk, h⟩
  rw [w03_fresh_eq_nil hall, List.map_nil, List.append_nil, w03_addReexports_eq, List.map_append, List.map_map,
    List.map_map]
  congr 1
  · apply List.map_congr_left
    intro kv _
    exact w03_upd_idem _ _ _
  · apply List.map_congr_left
    intro k hk
    rw [w03_mem_fresh] at hk
    simp only [Function.comp, w03_upd, hk.1, if_true]
    simp [addToSetById]

theorem w03_addToSetById_cases (l : List ModRef) (r : ModRef) : addToSetById l r = l ∨ addToSetById l r = l ++ [r] := by
  rw [p08_addToSetById_eq]; split
  · exact Or.inl rfl
  · exact Or.inr rfl

/-- entries are only added: every old entry keeps its key, its position and its modules (the new module may be
    appended) -/
theorem w03_addReexports_only_adds (api : AnaResult) (m : Module) :
    ∃ added, (addReexports api m).reexportMap = api.reexportMap.map (w03_upd m.ref (p08_importKeys m)) ++ added ∧
      (∀ kv ∈ added, kv.2 = [m.ref] ∧ kv.1 ∈ p08_importKeys m ∧ kv.1 ∉ api.reexportMap.map (·.1)) ∧
      ∀ kv, (w03_upd m.ref (p08_importKeys m) kv).1 = kv.1 ∧
        ((w03_upd m.ref (p08_importKeys m) kv).2 = kv.2 ∨ (w03_upd m.ref (p08_importKeys m) kv).2 = kv.2 ++ [m.ref]) := by
  refine ⟨_, w03_addReexports_eq api m, ?_, ?_⟩
  · intro kv hkv
    obtain ⟨k, hk, rfl⟩ := List.mem_map.1 hkv
    rw [w03_mem_fresh] at hk
    exact ⟨rfl, hk.1, hk.2⟩
  · intro kv
    refine ⟨w03_upd_fst _ _ _, ?_⟩
    unfold w03_upd
    split
    · exact w03_addToSetById_cases _ _
    · exact Or.inl rfl

/-! ### 4. `leave_assignmentstmt` with named steps; tables the walk leaves alone -/

def w03_addAttr (st : AnaResult × List Frame) (a : Attribute) : AnaResult × List Frame :=
  let (api, frames) := st
  match frames with
  | .fn f :: .cls c :: up' =>
    ({ api with attributes := dictSet (·.id) api.attributes a }, .fn f :: .cls { c with attributes := c.attributes ++ [a] } :: up')
  | .cls c :: up' =>
    ({ api with attributes := dictSet (·.id) api.attributes a }, .cls { c with attributes := c.attributes ++ [a] } :: up')
  | fr => (api, fr)

def w03_addInst (st : AnaResult × List Frame) (e : EnumInstance) : AnaResult × List Frame :=
  let (api, frames) := st
  match frames with
  | .enum en :: up' =>
    ({ api with enumInstances := dictSet (·.id) api.enumInstances e }, .enum { en with instances := en.instances ++ [e] } :: up')
  | fr => (api, fr)

def w03_addItem (st : AnaResult × List Frame) (i : AssignItem) : AnaResult × List Frame :=
  match i with
  | .attr a => w03_addAttr st a
  | .inst e => w03_addInst st e

def w03_leaveAssignment : V Unit := do
  let s ← get
  match s.stack with
  | .assigns items :: rest =>
    match rest with
    | [] => set { s with stack := rest }
    | parent :: up =>
      match parent with
      | .module _ => throwV .assertionError
      | .assigns _ => throwV .assertionError
      | .fn _ =>
        (match up with
         | .cls _ :: _ => pure ()
         | _ => if items.any (fun i => match i with | .attr _ => true | _ => false) then throwV .typeError else pure ())
      | _ => pure ()
      let (api, frames) := items.foldl w03_addItem (s.api, parent :: up)
      set { s with api := api, stack := frames }
  | _ => throwV .assertionError

theorem w03_leaveAssignment_eq : leaveAssignment = w03_leaveAssignment := rfl

/-- tables the walk below a module never touches, except through the two calls named in the theorems -/
structure w03_Kept (a b : AnaResult) : Prop where
  enums : b.enums = a.enums
  reexportMap : b.reexportMap = a.reexportMap

theorem w03_Kept.refl (a : AnaResult) : w03_Kept a a := ⟨rfl, rfl⟩
theorem w03_Kept.of_eq {a b : AnaResult} (h : b = a) : w03_Kept a b := h ▸ ⟨rfl, rfl⟩
theorem w03_Kept.trans {a b c : AnaResult} (h1 : w03_Kept a b) (h2 : w03_Kept b c) : w03_Kept a c :=
  ⟨h2.1.trans h1.1, h2.2.trans h1.2⟩

theorem w03_addItem_kept (st : AnaResult × List Frame) (i : AssignItem) : w03_Kept st.1 (w03_addItem st i).1 := by
  obtain ⟨api, frames⟩ := st
  cases i with
  | attr a =>
    show w03_Kept api (w03_addAttr (api, frames) a).1
    unfold w03_addAttr
    dsimp only
    split <;> exact ⟨rfl, rfl⟩
  | inst e =>
    show w03_Kept api (w03_addInst (api, frames) e).1
    unfold w03_addInst
    dsimp only
    split <;> exact ⟨rfl, rfl⟩

theorem w03_foldl_addItem_kept (items : List AssignItem) (st : AnaResult × List Frame) :
    w03_Kept st.1 (items.foldl w03_addItem st).1 := by
  induction items generalizing st with
  | nil => exact w03_Kept.refl _
  | cons i items ih => exact (w03_addItem_kept st i).trans (ih _)

theorem w03_leaveAssignment_kept {s s' : VSt} {u : Unit} (h : leaveAssignment s = .ok (u, s')) : w03_Kept s.api s'.api := by
  rw [w03_leaveAssignment_eq] at h
  unfold w03_leaveAssignment at h
  have hh := k12_get_bind_ok h; clear h; have h := hh; clear hh
  refine (?_ : k12_Ends _ (fun s' => w03_Kept s.api s'.api)).run _ _ _ h
  repeat' (first
    | with_reducible exact k12_Ends.throw _
    | with_reducible apply k12_Ends.bind
    | with_reducible apply k12_Ends.set
    | intro _
    | split
    | dsimp only)
  all_goals first
    | exact w03_Kept.refl _
    | (have e := congrArg Prod.fst ‹List.foldl w03_addItem _ _ = (_, _)›
       dsimp only at e
       rw [← e]
       exact w03_foldl_addItem_kept _ (_, _))

theorem w03_leaveFuncdef_kept {s s' : VSt} {u : Unit} (h : leaveFuncdef s = .ok (u, s')) : w03_Kept s.api s'.api := by
  obtain ⟨f, rest, _, _, hc⟩ := k12_leaveFuncdef_ok h
  rcases hc with ⟨_, e, _⟩ | ⟨p, up, _, e, _⟩
  · exact .of_eq e
  · rw [e]; exact ⟨rfl, rfl⟩

theorem w03_leaveClassdef_kept {s s' : VSt} {u : Unit} (h : leaveClassdef s = .ok (u, s')) : w03_Kept s.api s'.api := by
  unfold leaveClassdef at h
  have hh := k12_get_bind_ok h; clear h; have h := hh; clear hh
  refine (?_ : k12_Ends _ (fun s' => w03_Kept s.api s'.api)).run _ _ _ h
  repeat' (first
    | with_reducible exact k12_Ends.throw _
    | with_reducible apply k12_Ends.bind
    | with_reducible apply k12_Ends.set
    | intro _
    | split
    | dsimp only)
  all_goals exact ⟨rfl, rfl⟩

theorem w03_walkAssignment_kept {env : AEnv} {a : Assignment} {s s' : VSt} {u : Unit}
    (h : walkAssignment env a s = .ok (u, s')) : w03_Kept s.api s'.api := by
  unfold walkAssignment at h
  obtain ⟨_, s1, h1, h2⟩ := k12_bind_ok h
  obtain ⟨items, eapi, _, _⟩ := k12_enterAssignment_ok h1
  exact (w03_Kept.of_eq eapi).trans (w03_leaveAssignment_kept h2)

theorem w03_walkAssignments_kept {env : AEnv} : ∀ (l : List Assignment) {s s' : VSt} {u : PUnit},
    (forIn l PUnit.unit (fun a _ => do walkAssignment env a; pure (ForInStep.yield PUnit.unit)) : V PUnit) s = .ok (u, s') →
    w03_Kept s.api s'.api
  | [], s, s', u, h => by
    rw [List.forIn_nil] at h
    obtain ⟨_, rfl⟩ := k12_pure_ok h
    exact w03_Kept.refl _
  | a :: l, s, s', u, h => by
    rw [List.forIn_cons] at h
    obtain ⟨r, s1, h1, h2⟩ := k12_bind_ok h
    obtain ⟨_, s1', h1a, h1b⟩ := k12_bind_ok h1
    obtain ⟨rfl, rfl⟩ := k12_pure_ok h1b
    dsimp only at h2
    exact (w03_walkAssignment_kept h1a).trans (w03_walkAssignments_kept l h2)

theorem w03_walkFunc_kept {env : AEnv} {f : FuncDef} {s s' : VSt} {u : Unit} (h : walkFunc env f s = .ok (u, s')) :
    w03_Kept s.api s'.api := by
  unfold walkFunc at h
  obtain ⟨_, s1, h1, h2⟩ := k12_bind_ok h
  obtain ⟨fn, eapi, _, _, _, _⟩ := k12_enterFuncdef_ok h1
  refine (w03_Kept.of_eq eapi).trans ?_
  dsimp only at h2
  split at h2
  · obtain ⟨_, s2, h2a, h2b⟩ := k12_bind_ok h2
    exact (w03_walkAssignments_kept _ h2a).trans (w03_leaveFuncdef_kept h2b)
  · exact w03_leaveFuncdef_kept h2

/-! ### enum members -/

/-- the names an assignment target contributes to an enum (`lvalueNames`, total version) -/
def w03_targetNames : LValue → List String
  | .tuple items => items.filterMap fun i => match i with
      | .name n .. => some n
      | .member n .. => some n
      | _ => none
  | .name n .. => [n]
  | .member n .. => [n]
  | .other => []

theorem w03_lvalueNames_ok {lv : LValue} {ns : List String} (h : lvalueNames lv = .ok ns) : ns = w03_targetNames lv := by
  cases lv <;> simp only [lvalueNames, Except.ok.injEq, reduceCtorEq] at h <;> exact h.symm

def w03_mkInst (enumId : String) (n : String) : EnumInstance := { id := enumId ++ "/" ++ n, name := n }

theorem w03_enterAssignment_go_enum (env : AEnv) (a : Assignment) : ∀ (lvs : List LValue) {s s' : VSt}
    {items : List AssignItem} {en : Enum} {rest : List Frame},
    enterAssignment.go env a lvs s = .ok (items, s') → s.stack = .enum en :: rest →
    s' = s ∧ items = ((lvs.flatMap w03_targetNames).map (w03_mkInst en.id)).map AssignItem.inst
  | [], s, s', items, en, rest, h, _ => by
    unfold enterAssignment.go at h
    obtain ⟨rfl, rfl⟩ := k12_pure_ok h
    exact ⟨rfl, rfl⟩
  | lv :: lvs, s, s', items, en, rest, h, hstk => by
    unfold enterAssignment.go at h
    have hh := k12_get_bind_ok h; clear h; have h := hh; clear hh
    have hh := k12_bind_ok h; clear h; obtain ⟨here, s1, h1, h⟩ := hh
    rw [hstk] at h1
    dsimp only at h1
    cases hn : lvalueNames lv with
    | error e => rw [hn] at h1; exact (k12_throw_ok h1).elim
    | ok ns =>
      rw [hn] at h1
      obtain ⟨rfl, rfl⟩ := k12_pure_ok h1
      have hh := k12_bind_ok h; clear h; obtain ⟨more, s2, h2, h⟩ := hh
      obtain ⟨rfl, rfl⟩ := w03_enterAssignment_go_enum env a lvs h2 hstk
      obtain ⟨rfl, rfl⟩ := k12_pure_ok h
      refine ⟨rfl, ?_⟩
      rw [List.flatMap_cons, List.map_append, List.map_append, ← w03_lvalueNames_ok hn]
      simp only [List.map_map]
      rfl

theorem w03_fold_insts : ∀ (insts : List EnumInstance) (api : AnaResult) (en : Enum) (up : List Frame),
    (insts.map AssignItem.inst).foldl w03_addItem (api, .enum en :: up) =
      ({ api with enumInstances := insts.foldl (dictSet (·.id)) api.enumInstances },
       .enum { en with instances := en.instances ++ insts } :: up)
  | [], api, en, up => by
    simp only [List.map_nil, List.foldl_nil, List.append_nil]
  | e :: insts, api, en, up => by
    rw [List.map_cons, List.foldl_cons]
    show List.foldl w03_addItem
      ({ api with enumInstances := dictSet (·.id) api.enumInstances e }, .enum { en with instances := en.instances ++ [e] } :: up) _ = _
    rw [w03_fold_insts insts]
    simp only [List.foldl_cons, List.append_assoc, List.singleton_append]

/-- the instances an assignment in an enum body adds -/
def w03_assignInsts (enumId : String) (a : Assignment) : List EnumInstance :=
  (a.lvalues.flatMap w03_targetNames).map (w03_mkInst enumId)

theorem w03_walkAssignment_enum {env : AEnv} {a : Assignment} {s s' : VSt} {u : Unit} {en : Enum} {rest : List Frame}
    (h : walkAssignment env a s = .ok (u, s')) (hstk : s.stack = .enum en :: rest) :
    s'.stack = .enum { en with instances := en.instances ++ w03_assignInsts en.id a } :: rest ∧
    s'.api = { s.api with enumInstances := (w03_assignInsts en.id a).foldl (dictSet (·.id)) s.api.enumInstances } := by
  unfold walkAssignment at h
  have hh := k12_bind_ok h; clear h; obtain ⟨_, s1, h1, h2⟩ := hh
  unfold enterAssignment at h1
  have hh := k12_bind_ok h1; clear h1; obtain ⟨items, t1, h0, h1⟩ := hh
  obtain ⟨rfl, hitems⟩ := w03_enterAssignment_go_enum env a a.lvalues h0 hstk
  have hs1 := k12_modify_ok h1
  rw [w03_leaveAssignment_eq] at h2
  unfold w03_leaveAssignment at h2
  have hh := k12_get_bind_ok h2; clear h2; have h2 := hh; clear hh
  rw [hs1] at h2
  dsimp only at h2
  rw [hstk] at h2
  dsimp only at h2
  rw [hitems] at h2
  have hf := w03_fold_insts (w03_assignInsts en.id a) t1.api en rest
  unfold w03_assignInsts at hf ⊢
  rw [hf] at h2
  dsimp only at h2
  have hs' := k12_set_ok h2
  rw [hs']
  exact ⟨rfl, rfl⟩

/-- the member names of an enum body, in source order -/
def w03_enumBodyNames : List Def → List String
  | [] => []
  | .assign a :: ds => a.lvalues.flatMap w03_targetNames ++ w03_enumBodyNames ds
  | _ :: ds => w03_enumBodyNames ds

theorem w03_walkDef_enum_skip {env : AEnv} {d : Def} {s s1 : VSt} {u : Unit} (hd : ∀ a, d ≠ .assign a)
    (h : walkDef env .enum d s = .ok (u, s1)) : s1 = s := by
  cases d with
  | assign a => exact absurd rfl (hd a)
  | func f => unfold walkDef at h; rw [if_pos (by decide)] at h; exact (k12_pure_ok h).2
  | decorator f => unfold walkDef at h; rw [if_pos (by decide)] at h; exact (k12_pure_ok h).2
  | overloaded impl => unfold walkDef at h; rw [if_pos (by decide)] at h; exact (k12_pure_ok h).2
  | cls name fullname bases removed defs => unfold walkDef at h; rw [if_pos (by decide)] at h; exact (k12_pure_ok h).2
  | docExpr a b => unfold walkDef at h; exact (k12_pure_ok h).2
  | other k => unfold walkDef at h; exact (k12_pure_ok h).2

theorem w03_enumBodyNames_skip {d : Def} (ds : List Def) (hd : ∀ a, d ≠ .assign a) :
    w03_enumBodyNames (d :: ds) = w03_enumBodyNames ds := by
  cases d with
  | assign a => exact absurd rfl (hd a)
  | _ => rfl

theorem w03_walkDefs_enum (env : AEnv) : ∀ (defs : List Def) {s s' : VSt} {u : Unit} {en : Enum} {rest : List Frame},
    walkDefs env .enum defs s = .ok (u, s') → s.stack = .enum en :: rest →
    s'.stack = .enum { en with instances := en.instances ++ (w03_enumBodyNames defs).map (w03_mkInst en.id) } :: rest ∧
    s'.api = { s.api with enumInstances :=
      ((w03_enumBodyNames defs).map (w03_mkInst en.id)).foldl (dictSet (·.id)) s.api.enumInstances }
  | [], s, s', u, en, rest, h, hstk => by
    unfold walkDefs at h
    obtain ⟨_, rfl⟩ := k12_pure_ok h
    constructor
    · rw [hstk]; simp only [w03_enumBodyNames, List.map_nil, List.append_nil]
    · simp only [w03_enumBodyNames, List.map_nil, List.foldl_nil]
  | d :: ds, s, s', u, en, rest, h, hstk => by
    unfold walkDefs at h
    have hh := k12_bind_ok h; clear h; obtain ⟨_, s1, h1, h2⟩ := hh
    by_cases hd : ∃ a, d = .assign a
    · obtain ⟨a, rfl⟩ := hd
      unfold walkDef at h1
      rw [if_neg (by decide)] at h1
      obtain ⟨e1, e2⟩ := w03_walkAssignment_enum h1 hstk
      obtain ⟨e3, e4⟩ := w03_walkDefs_enum env ds h2 e1
      rw [e3, e4, e2]
      simp only [w03_enumBodyNames, w03_assignInsts, List.map_append, List.foldl_append, List.append_assoc]
      exact ⟨trivial, trivial⟩
    · have hd' : ∀ a, d ≠ .assign a := fun a e => hd ⟨a, e⟩
      have e1 := w03_walkDef_enum_skip hd' h1
      subst e1
      rw [w03_enumBodyNames_skip ds hd']
      exact w03_walkDefs_enum env ds h2 hstk

/-- the walk of an enum class: `enter_enumdef`, the body, `leave_enumdef` -/
theorem w03_walk_enumClass {env : AEnv} {mode : WalkMode} {name fullname : String} {bases removed : List BaseExpr}
    {defs : List Def} {s s' : VSt} {u : Unit}
    (h : walkDef env mode (.cls name fullname bases removed defs) s = .ok (u, s')) (hm : mode ≠ .enum)
    (he : isEnumClass bases = true) :
    ∃ e : Enum, e.id = joinWith "/" (k12_segs s.stack ++ [name]) ∧ e.name = name ∧
      e.instances = (w03_enumBodyNames defs).map (w03_mkInst e.id) ∧
      ((∃ md up, s.stack = .module md :: up ∧ s'.stack = .module { md with enums := md.enums ++ [e] } :: up ∧
          s'.api = { s.api with enumInstances := e.instances.foldl (dictSet (·.id)) s.api.enumInstances,
                                enums := dictSet (·.id) s.api.enums e }) ∨
       ((∀ md up, s.stack ≠ .module md :: up) ∧ s'.stack = s.stack ∧
          s'.api = { s.api with enumInstances := e.instances.foldl (dictSet (·.id)) s.api.enumInstances })) := by
  unfold walkDef at h
  have hm' : ¬ (mode == WalkMode.enum) = true := by simpa using hm
  rw [if_neg hm', if_pos he] at h
  have hh := k12_bind_ok h; clear h; obtain ⟨_, s1, h1, h⟩ := hh
  have hh := k12_bind_ok h; clear h; obtain ⟨_, s2, h2, h3⟩ := hh
  obtain ⟨e0, eapi, estk, eok, ename⟩ := k12_enterEnumdef_ok h1
  obtain ⟨estk2, eapi2⟩ := w03_walkDefs_enum env defs h2 estk
  rw [eok.instances, List.nil_append] at estk2
  refine ⟨{ e0 with instances := (w03_enumBodyNames defs).map (w03_mkInst e0.id) }, eok.id_eq.trans (by rw [ename]), ename, rfl, ?_⟩
  unfold leaveEnumdef at h3
  have hh := k12_get_bind_ok h3; clear h3; have h3 := hh; clear hh
  rw [estk2] at h3
  dsimp only at h3
  rcases hs : s.stack with _ | ⟨fr, up⟩
  · rw [hs] at h3
    dsimp only at h3
    have hs' := k12_set_ok h3
    refine Or.inr ⟨by simp, ?_, ?_⟩
    · rw [hs']
    · rw [hs', eapi2, eapi]
  · rw [hs] at h3
    cases fr
    case module md =>
      dsimp only at h3
      have hs' := k12_set_ok h3
      refine Or.inl ⟨md, up, rfl, ?_, ?_⟩
      · rw [hs']
      · rw [hs', eapi2, eapi]
    all_goals
      dsimp only at h3
      have hs' := k12_set_ok h3
      refine Or.inr ⟨by simp, ?_, ?_⟩
      · rw [hs']
      · rw [hs', eapi2, eapi]

theorem w03_leaveClassdef_api {s s' : VSt} {u : Unit} (h : leaveClassdef s = .ok (u, s')) :
    ∃ cs, s'.api = { s.api with classes := cs } := by
  unfold leaveClassdef at h
  have hh := k12_get_bind_ok h; clear h; have h := hh; clear hh
  refine (?_ : k12_Ends _ (fun s' => ∃ cs, s'.api = { s.api with classes := cs })).run _ _ _ h
  repeat' (first
    | with_reducible exact k12_Ends.throw _
    | with_reducible apply k12_Ends.bind
    | with_reducible apply k12_Ends.set
    | intro _
    | split
    | dsimp only)
  all_goals exact ⟨_, rfl⟩

theorem w03_Step_insts {a : AnaResult} {s : List Frame} {e : List Function} {cs : List Class} {a' : AnaResult}
    {s' : List Frame} (h : k12_Step a s e cs a' s') (k : String) (hk : k ∈ a.enumInstances.map (·.id)) :
    k ∈ a'.enumInstances.map (·.id) := by
  cases h with
  | addInst en up x _ => exact k12_sub_dictSet _ _ _ k hk
  | _ => exact hk

theorem w03_Steps_insts {a : AnaResult} {s : List Frame} {e : List Function} {cs : List Class} {a' : AnaResult}
    {s' : List Frame} (h : k12_Steps a s e cs a' s') (k : String) (hk : k ∈ a.enumInstances.map (·.id)) :
    k ∈ a'.enumInstances.map (·.id) :=
  k12_Steps_inv (fun a _ => k ∈ a.enumInstances.map (·.id)) (fun _ _ _ _ _ _ hs hi => w03_Step_insts hs k hi) h hk

/-! ### the enums of the source, as the analyser records them -/

/-- `(id, name, member names)` of the enum class a definition contributes to the `enums` table: only an enum class
    directly below a module does -/
def w03_defEnums (pre : List String) (mode : WalkMode) : Def → List (String × String × List String)
  | .cls name _ bases _ defs =>
    if mode == .module && isEnumClass bases then [(joinWith "/" (pre ++ [name]), name, w03_enumBodyNames defs)] else []
  | _ => []

def w03_defsEnums (pre : List String) (mode : WalkMode) : List Def → List (String × String × List String)
  | [] => []
  | d :: ds => w03_defEnums pre mode d ++ w03_defsEnums pre mode ds

mutual
/-- the ids of ALL enum members the walk records (enum classes below a module or below classes, at any depth) -/
def w03_defInsts (pre : List String) (mode : WalkMode) : Def → List String
  | .cls name _ bases _ defs =>
    if mode == .enum then []
    else if isEnumClass bases then (w03_enumBodyNames defs).map (fun n => joinWith "/" (pre ++ [name]) ++ "/" ++ n)
    else w03_defsInsts (pre ++ [name]) .cls defs
  | .func _ => []
  | .decorator _ => []
  | .overloaded _ => []
  | .assign _ => []
  | .docExpr _ _ => []
  | .other _ => []
def w03_defsInsts (pre : List String) (mode : WalkMode) : List Def → List String
  | [] => []
  | d :: ds => w03_defInsts pre mode d ++ w03_defsInsts pre mode ds
end

def w03_EnumMatch (p : String × String × List String) (e : Enum) : Prop :=
  e.id = p.1 ∧ e.name = p.2.1 ∧ e.instances = p.2.2.map (w03_mkInst e.id)

structure w03_WalkEnums (s s' : VSt) (src : List (String × String × List String)) (insts : List String) : Prop where
  enums : ∃ es, List.Forall₂ w03_EnumMatch src es ∧ s'.api.enums = es.foldl (dictSet (·.id)) s.api.enums
  rm : s'.api.reexportMap = s.api.reexportMap
  insts : ∀ i ∈ insts, i ∈ s'.api.enumInstances.map (·.id)

theorem w03_WalkEnums.of_kept {s s' : VSt} (h : w03_Kept s.api s'.api) : w03_WalkEnums s s' [] [] :=
  ⟨⟨[], List.Forall₂.nil, h.enums⟩, h.reexportMap, fun _ hi => absurd hi List.not_mem_nil⟩

theorem w03_WalkEnums.trans {s s1 s2 : VSt} {a b : List (String × String × List String)} {ia ib : List String}
    (h1 : w03_WalkEnums s s1 a ia) (h2 : w03_WalkEnums s1 s2 b ib)
    (mono : ∀ i ∈ s1.api.enumInstances.map (·.id), i ∈ s2.api.enumInstances.map (·.id)) :
    w03_WalkEnums s s2 (a ++ b) (ia ++ ib) := by
  obtain ⟨es1, hm1, he1⟩ := h1.enums
  obtain ⟨es2, hm2, he2⟩ := h2.enums
  refine ⟨⟨es1 ++ es2, List.rel_append hm1 hm2, by rw [List.foldl_append, ← he1, he2]⟩, h2.rm.trans h1.rm, ?_⟩
  intro i hi
  rcases List.mem_append.1 hi with hi | hi
  · exact mono i (h1.insts i hi)
  · exact h2.insts i hi

theorem w03_defsEnums_nonmodule (pre : List String) {mode : WalkMode} (hm : mode ≠ .module) :
    ∀ ds : List Def, w03_defsEnums pre mode ds = []
  | [] => rfl
  | d :: ds => by
    have hm' : (mode == WalkMode.module) = false := by simpa using hm
    rw [w03_defsEnums, w03_defsEnums_nonmodule pre hm ds, List.append_nil]
    cases d <;> simp [w03_defEnums, hm']

theorem w03_WalkOk_mono {s s' : VSt} {a : List (String × FuncDef)} {b : List String} (h : k12_WalkOk s s' a b) :
    ∀ i ∈ s.api.enumInstances.map (·.id), i ∈ s'.api.enumInstances.map (·.id) := by
  obtain ⟨_, _, hsteps, _⟩ := h
  exact fun i hi => w03_Steps_insts hsteps i hi

theorem w03_defEnums_cls (pre : List String) (mode : WalkMode) (name fullname : String) (bases removed : List BaseExpr)
    (defs : List Def) : w03_defEnums pre mode (.cls name fullname bases removed defs) =
      if mode == .module && isEnumClass bases then [(joinWith "/" (pre ++ [name]), name, w03_enumBodyNames defs)] else [] := rfl

theorem w03_modeTop_module {mode : WalkMode} {md : Module} {up : List Frame} (h : k12_ModeTop mode (.module md :: up)) :
    mode = .module := by
  cases mode with
  | module => rfl
  | cls => simp [k12_ModeTop, k12_topKind, k12_shape, k12_frameSig, k12_kind, k12_modeKind] at h
  | enum => simp [k12_ModeTop, k12_topKind, k12_shape, k12_frameSig, k12_kind, k12_modeKind] at h

theorem w03_modeTop_cls {mode : WalkMode} {c : Class} {up : List Frame} (h : k12_ModeTop mode (.cls c :: up)) :
    mode = .cls := by
  cases mode with
  | cls => rfl
  | module => simp [k12_ModeTop, k12_topKind, k12_shape, k12_frameSig, k12_kind, k12_modeKind] at h
  | enum => simp [k12_ModeTop, k12_topKind, k12_shape, k12_frameSig, k12_kind, k12_modeKind] at h

mutual
theorem w03_walkDef_enums (env : AEnv) (mode : WalkMode) : (d : Def) → ∀ {s s' : VSt} {u : Unit},
    walkDef env mode d s = .ok (u, s') → s.stack ≠ [] → k12_ModeTop mode s.stack →
    w03_WalkEnums s s' (w03_defEnums (k12_segs s.stack) mode d) (w03_defInsts (k12_segs s.stack) mode d)
  | .func f, s, s', u, h, _, _ => by
    unfold walkDef at h
    unfold w03_defInsts
    show w03_WalkEnums s s' [] []
    split at h
    · obtain ⟨_, rfl⟩ := k12_pure_ok h; exact .of_kept (.refl _)
    · exact .of_kept (w03_walkFunc_kept h)
  | .decorator f, s, s', u, h, _, _ => by
    unfold walkDef at h
    unfold w03_defInsts
    show w03_WalkEnums s s' [] []
    split at h
    · obtain ⟨_, rfl⟩ := k12_pure_ok h; exact .of_kept (.refl _)
    · exact .of_kept (w03_walkFunc_kept h)
  | .overloaded impl, s, s', u, h, _, _ => by
    unfold walkDef at h
    unfold w03_defInsts
    show w03_WalkEnums s s' [] []
    split at h
    · obtain ⟨_, rfl⟩ := k12_pure_ok h; exact .of_kept (.refl _)
    · cases impl with
      | some f => exact .of_kept (w03_walkFunc_kept h)
      | none => exact .of_kept (.of_eq (k12_walkNone_ok h).1)
  | .assign a, s, s', u, h, _, _ => by
    unfold walkDef at h
    unfold w03_defInsts
    show w03_WalkEnums s s' [] []
    split at h
    · obtain ⟨_, rfl⟩ := k12_pure_ok h; exact .of_kept (.refl _)
    · exact .of_kept (w03_walkAssignment_kept h)
  | .docExpr _ _, s, s', u, h, _, _ => by
    unfold walkDef at h
    unfold w03_defInsts
    show w03_WalkEnums s s' [] []
    obtain ⟨_, rfl⟩ := k12_pure_ok h; exact .of_kept (.refl _)
  | .other _, s, s', u, h, _, _ => by
    unfold walkDef at h
    unfold w03_defInsts
    show w03_WalkEnums s s' [] []
    obtain ⟨_, rfl⟩ := k12_pure_ok h; exact .of_kept (.refl _)
  | .cls name fullname bases removed defs, s, s', u, h, hne, hmt => by
    by_cases hm : mode = .enum
    · subst hm
      unfold walkDef at h
      rw [if_pos (by decide)] at h
      obtain ⟨_, rfl⟩ := k12_pure_ok h
      rw [w03_defEnums_cls, show (WalkMode.enum == WalkMode.module && isEnumClass bases) = false from rfl,
        if_neg (by decide)]
      unfold w03_defInsts
      rw [if_pos (by decide)]
      exact .of_kept (.refl _)
    have hm' : ¬ (mode == WalkMode.enum) = true := by simpa using hm
    by_cases he : isEnumClass bases = true
    · obtain ⟨e, eid, ename, einst, hcase⟩ := w03_walk_enumClass h hm he
      have hinsts : ∀ api : AnaResult, ∀ i ∈ (w03_enumBodyNames defs).map (fun n => joinWith "/" (k12_segs s.stack ++ [name]) ++ "/" ++ n),
          i ∈ (e.instances.foldl (dictSet (·.id)) api.enumInstances).map (·.id) := by
        intro api i hi
        rw [k12_foldl_dictSet_ids]
        right
        rw [einst, List.map_map]
        obtain ⟨n, hn, rfl⟩ := List.mem_map.1 hi
        exact List.mem_map.2 ⟨n, hn, by simp only [Function.comp, w03_mkInst, eid]⟩
      rw [w03_defEnums_cls]
      unfold w03_defInsts
      rw [if_neg hm', if_pos he]
      rcases hcase with ⟨md, up, hstk, _, hapi⟩ | ⟨hnm, _, hapi⟩
      · have hmode : mode = .module := w03_modeTop_module (hstk ▸ hmt)
        subst hmode
        rw [he, if_pos (by decide)]
        refine ⟨⟨[e], List.Forall₂.cons ⟨eid, ename, einst⟩ List.Forall₂.nil, by rw [hapi]; rfl⟩, by rw [hapi], ?_⟩
        rw [hapi]
        exact hinsts s.api
      · have hmode : (mode == WalkMode.module) = false := by
          cases mode with
          | module =>
            rcases k12_ParentOk_cases (Or.inl hmt) with ⟨m, up, hs⟩ | ⟨p, up, hs⟩
            · exact absurd hs (hnm m up)
            · exact absurd (w03_modeTop_cls (hs ▸ hmt)) (by decide)
          | cls => rfl
          | enum => exact absurd rfl hm
        rw [hmode, Bool.false_and, if_neg (by decide)]
        refine ⟨⟨[], List.Forall₂.nil, by rw [hapi]; rfl⟩, by rw [hapi], ?_⟩
        rw [hapi]
        exact hinsts s.api
    · have hef : isEnumClass bases = false := Bool.eq_false_iff.2 he
      have hwe := h
      unfold walkDef at h
      rw [if_neg hm', if_neg he] at h
      have hh := k12_bind_ok h; clear h; obtain ⟨_, s1, h1, h⟩ := hh
      have hh := k12_bind_ok h; clear h; obtain ⟨_, s2, h2, h3⟩ := hh
      obtain ⟨c, eapi, estk, cok, cname, _⟩ := k12_enterClassdef_ok h1
      have hne1 : s1.stack ≠ [] := by rw [estk]; simp
      have ih := w03_walkDefs_enums env .cls defs h2 hne1 (by rw [estk]; rfl)
      have hsegs : k12_segs s1.stack = k12_segs s.stack ++ [name] := by
        rw [estk, k12_segs_cons]; simp only [frameSegment, Option.toList_some, cname]
      rw [hsegs, w03_defsEnums_nonmodule _ (by decide)] at ih
      obtain ⟨cs, hapi3⟩ := w03_leaveClassdef_api h3
      rw [w03_defEnums_cls]
      unfold w03_defInsts
      rw [if_neg hm', if_neg he, hef, Bool.and_false, if_neg (by decide)]
      obtain ⟨es, hes, henums⟩ := ih.enums
      cases hes
      refine ⟨⟨[], List.Forall₂.nil, ?_⟩, ?_, ?_⟩
      · rw [hapi3]; show s2.api.enums = _; rw [henums, eapi]
      · rw [hapi3]; show s2.api.reexportMap = _; rw [ih.rm, eapi]
      · intro i hi
        rw [hapi3]
        exact ih.insts i hi
theorem w03_walkDefs_enums (env : AEnv) (mode : WalkMode) : (ds : List Def) → ∀ {s s' : VSt} {u : Unit},
    walkDefs env mode ds s = .ok (u, s') → s.stack ≠ [] → k12_ModeTop mode s.stack →
    w03_WalkEnums s s' (w03_defsEnums (k12_segs s.stack) mode ds) (w03_defsInsts (k12_segs s.stack) mode ds)
  | [], s, s', u, h, _, _ => by
    unfold walkDefs at h
    unfold w03_defsEnums w03_defsInsts
    obtain ⟨_, rfl⟩ := k12_pure_ok h
    exact .of_kept (.refl _)
  | d :: ds, s, s', u, h, hne, hmt => by
    unfold walkDefs at h
    unfold w03_defsEnums w03_defsInsts
    obtain ⟨_, s1, h1, h2⟩ := k12_bind_ok h
    have r1 := w03_walkDef_enums env mode d h1 hne hmt
    have k1 := k12_walkDef_ok env mode d h1 hne hmt
    have hne1 : s1.stack ≠ [] := k12_shape_ne_nil k1.shape hne
    have hmt1 : k12_ModeTop mode s1.stack := (k12_topKind_of_shape k1.shape).trans hmt
    have r2 := w03_walkDefs_enums env mode ds h2 hne1 hmt1
    have k2 := k12_walkDefs_ok env mode ds h2 hne1 hmt1
    rw [k12_segs_eq_of_shape k1.shape] at r2
    exact r1.trans r2 (w03_WalkOk_mono k2)
end

/-! ### the module record of `enter_moduledef` -/

/-- a file is a package `__init__` iff its PATH ends in `__init__.py` -/
def w03_isPackageFile (m : SrcModule) : Bool := pyEndsWith m.path "__init__.py"

/-- the qualified imports one import statement contributes -/
def w03_importEntries : ImportStmt → List QImport
  | .import_ ids => ids.map fun (n, a) => (⟨n, a⟩ : QImport)
  | .from_ id names => names.map fun (n, a) => (⟨(if id != "" then id ++ "." else "") ++ n, a⟩ : QImport)
  | .all _ => []

def w03_wildcardOf : ImportStmt → Option String
  | .all id => some id
  | _ => none

/-- the `Module` record `enter_moduledef` pushes for a source file -/
def w03_moduleRecord (m : SrcModule) : Module :=
  { id := replaceChar m.fullname '.' "/", name := if w03_isPackageFile m then "__init__" else m.name,
    docstring := firstModuleDoc m.defs, qualifiedImports := m.imports.flatMap w03_importEntries,
    wildcardImports := m.imports.filterMap w03_wildcardOf }

theorem w03_enterModuledef_eq (m : SrcModule) (s : VSt) :
    enterModuledef m s =
      .ok ((), { s with fileFullname := m.fullname, fileName := m.name,
                        api := if w03_isPackageFile m then addReexports s.api (w03_moduleRecord m) else s.api,
                        stack := .module (w03_moduleRecord m) :: s.stack }) := rfl

theorem w03_leaveModuledef_api {s s' : VSt} {u : Unit} (h : leaveModuledef s = .ok (u, s')) :
    ∃ ms, s'.api = { s.api with modules := ms } := by
  unfold leaveModuledef at h
  have hh := k12_get_bind_ok h; clear h; have h := hh; clear hh
  refine (?_ : k12_Ends _ (fun s' => ∃ ms, s'.api = { s.api with modules := ms })).run _ _ _ h
  repeat' (first
    | with_reducible exact k12_Ends.throw _
    | with_reducible apply k12_Ends.bind
    | with_reducible apply k12_Ends.set
    | intro _
    | split
    | dsimp only)
  all_goals exact ⟨_, rfl⟩

def w03_modEnums (m : SrcModule) : List (String × String × List String) :=
  w03_defsEnums [replaceChar m.fullname '.' "/"] .module m.defs

def w03_modInsts (m : SrcModule) : List String := w03_defsInsts [replaceChar m.fullname '.' "/"] .module m.defs

/-- what one file does to the re-export map -/
def w03_addPkg (api : AnaResult) (m : SrcModule) : AnaResult :=
  if w03_isPackageFile m then addReexports api (w03_moduleRecord m) else api

theorem w03_addReexports_congr_rm {api api' : AnaResult} (h : api.reexportMap = api'.reexportMap) (m : Module) :
    (addReexports api m).reexportMap = (addReexports api' m).reexportMap := by
  rw [p08_addReexports_eq, p08_addReexports_eq, h]

theorem w03_addPkg_congr_rm {api api' : AnaResult} (h : api.reexportMap = api'.reexportMap) (m : SrcModule) :
    (w03_addPkg api m).reexportMap = (w03_addPkg api' m).reexportMap := by
  unfold w03_addPkg
  split
  · exact w03_addReexports_congr_rm h _
  · exact h

theorem w03_foldl_addPkg_congr_rm : ∀ (ms : List SrcModule) {api api' : AnaResult}, api.reexportMap = api'.reexportMap →
    (ms.foldl w03_addPkg api).reexportMap = (ms.foldl w03_addPkg api').reexportMap
  | [], _, _, h => h
  | m :: ms, _, _, h => w03_foldl_addPkg_congr_rm ms (w03_addPkg_congr_rm h m)

theorem w03_walkModule_enums {env : AEnv} {m : SrcModule} {s s' : VSt} {u : Unit} (h : walkModule env m s = .ok (u, s'))
    (hs : s.stack = []) :
    s'.stack = [] ∧
      (∃ es, List.Forall₂ w03_EnumMatch (w03_modEnums m) es ∧ s'.api.enums = es.foldl (dictSet (·.id)) s.api.enums) ∧
      s'.api.reexportMap = (w03_addPkg s.api m).reexportMap ∧
      (∀ i ∈ w03_modInsts m, i ∈ s'.api.enumInstances.map (·.id)) ∧
      (∀ i ∈ s.api.enumInstances.map (·.id), i ∈ s'.api.enumInstances.map (·.id)) := by
  have hk := k12_walkModule_ok h hs
  obtain ⟨hstk', evs, cs, hsteps, _, _⟩ := hk
  unfold walkModule at h
  have hh := k12_bind_ok h; clear h; obtain ⟨_, s0, h0, h⟩ := hh
  have e0 := k12_modify_ok h0
  have hh := k12_bind_ok h; clear h; obtain ⟨_, s1, h1, h⟩ := hh
  have hh := k12_bind_ok h; clear h; obtain ⟨_, s2, h2, h3⟩ := hh
  rw [w03_enterModuledef_eq] at h1
  simp only [Except.ok.injEq, Prod.mk.injEq] at h1
  have e1 := h1.2
  have estk : s1.stack = [.module (w03_moduleRecord m)] := by rw [← e1, e0]; dsimp only; rw [hs]
  have eapi : s1.api = w03_addPkg s.api m := by rw [← e1, e0]; rfl
  have hne1 : s1.stack ≠ [] := by rw [estk]; simp
  have ih := w03_walkDefs_enums env .module m.defs h2 hne1 (by rw [estk]; rfl)
  have hsegs : k12_segs s1.stack = [replaceChar m.fullname '.' "/"] := by rw [estk]; rfl
  rw [hsegs] at ih
  obtain ⟨ms, hapi3⟩ := w03_leaveModuledef_api h3
  obtain ⟨es, hes, henums⟩ := ih.enums
  refine ⟨hstk', ⟨es, hes, ?_⟩, ?_, ?_, fun i hi => w03_Steps_insts hsteps i hi⟩
  · rw [hapi3]; show s2.api.enums = _; rw [henums, eapi]; unfold w03_addPkg; split <;> rfl
  · rw [hapi3]; show s2.api.reexportMap = _; rw [ih.rm, eapi]
  · intro i hi
    rw [hapi3]
    exact ih.insts i hi

def w03_srcEnums : List SrcModule → List (String × String × List String)
  | [] => []
  | m :: ms => w03_modEnums m ++ w03_srcEnums ms

def w03_srcInsts : List SrcModule → List String
  | [] => []
  | m :: ms => w03_modInsts m ++ w03_srcInsts ms

theorem w03_walkModules_enums {env : AEnv} : ∀ (ms : List SrcModule) {s s' : VSt} {u : Unit},
    walkModules env ms s = .ok (u, s') → s.stack = [] →
    (∃ es, List.Forall₂ w03_EnumMatch (w03_srcEnums ms) es ∧ s'.api.enums = es.foldl (dictSet (·.id)) s.api.enums) ∧
      s'.api.reexportMap = (ms.foldl w03_addPkg s.api).reexportMap ∧
      (∀ i ∈ w03_srcInsts ms, i ∈ s'.api.enumInstances.map (·.id)) ∧
      (∀ i ∈ s.api.enumInstances.map (·.id), i ∈ s'.api.enumInstances.map (·.id))
  | [], s, s', u, h, _ => by
    unfold walkModules at h
    obtain ⟨_, rfl⟩ := k12_pure_ok h
    exact ⟨⟨[], List.Forall₂.nil, rfl⟩, rfl, fun _ hi => absurd hi List.not_mem_nil, fun _ hi => hi⟩
  | m :: ms, s, s', u, h, hs => by
    unfold walkModules at h
    obtain ⟨_, s1, h1, h2⟩ := k12_bind_ok h
    obtain ⟨hs1, ⟨es1, hm1, he1⟩, hrm1, hi1, hmono1⟩ := w03_walkModule_enums h1 hs
    obtain ⟨⟨es2, hm2, he2⟩, hrm2, hi2, hmono2⟩ := w03_walkModules_enums ms h2 hs1
    refine ⟨⟨es1 ++ es2, List.rel_append hm1 hm2, by rw [List.foldl_append, ← he1, he2]⟩, ?_, ?_,
      fun i hi => hmono2 i (hmono1 i hi)⟩
    · rw [hrm2, List.foldl_cons]
      exact w03_foldl_addPkg_congr_rm ms hrm1
    · intro i hi
      rcases List.mem_append.1 hi with hi | hi
      · exact hmono2 i (hi1 i hi)
      · exact hi2 i hi

theorem w03_analyze_enums {env : AEnv} {root : GNode} {mods : List SrcModule} {r : AnaResult} {w : List String}
    (h : analyze env root mods = .ok (r, w)) :
    (∃ es, List.Forall₂ w03_EnumMatch (w03_srcEnums mods) es ∧ r.enums = es.foldl (dictSet (·.id)) []) ∧
      r.reexportMap = (mods.foldl w03_addPkg {}).reexportMap ∧
      (∀ i ∈ w03_srcInsts mods, i ∈ r.enumInstances.map (·.id)) := by
  unfold analyze at h
  dsimp only at h
  split at h
  · exact absurd h (by simp)
  · rename_i s hrun
    simp only [Except.ok.injEq, Prod.mk.injEq] at h
    obtain ⟨h1, h2, h3, _⟩ := w03_walkModules_enums mods hrun rfl
    rw [h.1] at h1 h2 h3
    exact ⟨h1, h2, h3⟩

/-! ### 6. generic lemmas: tables built by `dictSet`, last definitions -/

theorem w03_mem_foldl_dictSet_last {α : Type} (key : α → String) (l1 : List α) (e : α) (l2 : List α) (tbl : List α)
    (h : ∀ x ∈ l2, key x ≠ key e) : e ∈ (l1 ++ e :: l2).foldl (dictSet key) tbl := by
  rw [List.foldl_append, List.foldl_cons]
  generalize hT : dictSet key (List.foldl (dictSet key) tbl l1) e = T
  have hmem : e ∈ T := hT ▸ k12_self_mem_dictSet key _ e
  clear hT
  induction l2 generalizing T with
  | nil => exact hmem
  | cons x l2 ih =>
    rw [List.foldl_cons]
    exact ih (fun y hy => h y (List.mem_cons_of_mem _ hy)) _
      (k12_mem_dictSet_of_ne key hmem (Ne.symm (h x List.mem_cons_self)))

theorem w03_forall₂_split {α β : Type} {R : α → β → Prop} : ∀ {a1 : List α} {p : α} {a2 : List α} {es : List β},
    List.Forall₂ R (a1 ++ p :: a2) es → ∃ e1 e e2, es = e1 ++ e :: e2 ∧ List.Forall₂ R a1 e1 ∧ R p e ∧ List.Forall₂ R a2 e2
  | [], p, a2, es, h => by
    cases h with
    | cons hpe hrest => exact ⟨[], _, _, rfl, List.Forall₂.nil, hpe, hrest⟩
  | x :: a1, p, a2, es, h => by
    cases h with
    | cons hxe hrest =>
      obtain ⟨e1, e, e2, rfl, h1, h2, h3⟩ := w03_forall₂_split hrest
      exact ⟨_ :: e1, e, e2, rfl, List.Forall₂.cons hxe h1, h2, h3⟩

theorem w03_forall₂_mem_right {α β : Type} {R : α → β → Prop} {as : List α} {es : List β} (h : List.Forall₂ R as es)
    {e : β} (he : e ∈ es) : ∃ a ∈ as, R a e := by
  induction h with
  | nil => simp at he
  | cons hab _ ih =>
    rcases List.mem_cons.1 he with rfl | he
    · exact ⟨_, List.mem_cons_self, hab⟩
    · obtain ⟨a, ha, hr⟩ := ih he
      exact ⟨a, List.mem_cons_of_mem _ ha, hr⟩

/-- the last entry with a given key -/
theorem w03_last_occurrence {α : Type} (key : α → String) (k : String) : ∀ (l : List α), (∃ x ∈ l, key x = k) →
    ∃ l1 p l2, l = l1 ++ p :: l2 ∧ key p = k ∧ ∀ q ∈ l2, key q ≠ k
  | [], h => by obtain ⟨x, hx, _⟩ := h; simp at hx
  | x :: l, h => by
    by_cases hl : ∃ y ∈ l, key y = k
    · obtain ⟨l1, p, l2, rfl, hp, hq⟩ := w03_last_occurrence key k l hl
      exact ⟨x :: l1, p, l2, rfl, hp, hq⟩
    · obtain ⟨y, hy, hk⟩ := h
      rcases List.mem_cons.1 hy with rfl | hy
      · exact ⟨[], y, l, rfl, hk, fun q hq e => hl ⟨q, hq, e⟩⟩
      · exact absurd ⟨y, hy, hk⟩ hl

/-! ### membership in the source lists -/

theorem w03_mem_defsEnums {pre : List String} {mode : WalkMode} {p : String × String × List String} :
    ∀ {ds : List Def} {d : Def}, d ∈ ds → p ∈ w03_defEnums pre mode d → p ∈ w03_defsEnums pre mode ds
  | d' :: ds, d, hd, hp => by
    rw [w03_defsEnums]
    rcases List.mem_cons.1 hd with rfl | hd
    · exact List.mem_append_left _ hp
    · exact List.mem_append_right _ (w03_mem_defsEnums hd hp)

theorem w03_mem_defsEnums_inv {pre : List String} {mode : WalkMode} {p : String × String × List String} :
    ∀ {ds : List Def}, p ∈ w03_defsEnums pre mode ds → ∃ d ∈ ds, p ∈ w03_defEnums pre mode d
  | [], h => by simp [w03_defsEnums] at h
  | d :: ds, h => by
    rw [w03_defsEnums] at h
    rcases List.mem_append.1 h with h | h
    · exact ⟨d, List.mem_cons_self, h⟩
    · obtain ⟨d', hd', hp⟩ := w03_mem_defsEnums_inv h
      exact ⟨d', List.mem_cons_of_mem _ hd', hp⟩

theorem w03_mem_srcEnums {p : String × String × List String} : ∀ {ms : List SrcModule} {m : SrcModule},
    m ∈ ms → p ∈ w03_modEnums m → p ∈ w03_srcEnums ms
  | m' :: ms, m, hm, hp => by
    rw [w03_srcEnums]
    rcases List.mem_cons.1 hm with rfl | hm
    · exact List.mem_append_left _ hp
    · exact List.mem_append_right _ (w03_mem_srcEnums hm hp)

theorem w03_mem_srcEnums_inv {p : String × String × List String} : ∀ {ms : List SrcModule},
    p ∈ w03_srcEnums ms → ∃ m ∈ ms, p ∈ w03_modEnums m
  | [], h => by simp [w03_srcEnums] at h
  | m :: ms, h => by
    rw [w03_srcEnums] at h
    rcases List.mem_append.1 h with h | h
    · exact ⟨m, List.mem_cons_self, h⟩
    · obtain ⟨m', hm', hp⟩ := w03_mem_srcEnums_inv h
      exact ⟨m', List.mem_cons_of_mem _ hm', hp⟩

theorem w03_mem_defsInsts {pre : List String} {mode : WalkMode} {i : String} :
    ∀ {ds : List Def} {d : Def}, d ∈ ds → i ∈ w03_defInsts pre mode d → i ∈ w03_defsInsts pre mode ds
  | d' :: ds, d, hd, hp => by
    rw [w03_defsInsts]
    rcases List.mem_cons.1 hd with rfl | hd
    · exact List.mem_append_left _ hp
    · exact List.mem_append_right _ (w03_mem_defsInsts hd hp)

theorem w03_mem_srcInsts {i : String} : ∀ {ms : List SrcModule} {m : SrcModule},
    m ∈ ms → i ∈ w03_modInsts m → i ∈ w03_srcInsts ms
  | m' :: ms, m, hm, hp => by
    rw [w03_srcInsts]
    rcases List.mem_cons.1 hm with rfl | hm
    · exact List.mem_append_left _ hp
    · exact List.mem_append_right _ (w03_mem_srcInsts hm hp)

/-- the id of a module -/
def w03_modId (m : SrcModule) : String := replaceChar m.fullname '.' "/"

theorem w03_joinWith2 (a b : String) : joinWith "/" ([a] ++ [b]) = a ++ "/" ++ b := rfl

/-- a top-level enum class is in the source list -/
theorem w03_toplevel_enum_mem {mods : List SrcModule} {m : SrcModule} {name fullname : String}
    {bases removed : List BaseExpr} {defs : List Def} (hm : m ∈ mods)
    (hc : Def.cls name fullname bases removed defs ∈ m.defs) (he : isEnumClass bases = true) :
    (w03_modId m ++ "/" ++ name, name, w03_enumBodyNames defs) ∈ w03_srcEnums mods := by
  refine w03_mem_srcEnums hm (w03_mem_defsEnums hc ?_)
  rw [w03_defEnums_cls, he, if_pos (by decide), w03_joinWith2]
  exact List.mem_singleton.2 rfl

/-- every entry of the source list is a top-level enum class of some module -/
theorem w03_srcEnums_inv {mods : List SrcModule} {p : String × String × List String} (hp : p ∈ w03_srcEnums mods) :
    ∃ m ∈ mods, ∃ name fullname bases removed defs, Def.cls name fullname bases removed defs ∈ m.defs ∧
      isEnumClass bases = true ∧ p = (w03_modId m ++ "/" ++ name, name, w03_enumBodyNames defs) := by
  obtain ⟨m, hm, hp⟩ := w03_mem_srcEnums_inv hp
  obtain ⟨d, hd, hp⟩ := w03_mem_defsEnums_inv hp
  refine ⟨m, hm, ?_⟩
  cases d with
  | cls name fullname bases removed defs =>
    rw [w03_defEnums_cls] at hp
    split at hp
    · rename_i hc
      simp only [Bool.and_eq_true] at hc
      rw [w03_joinWith2] at hp
      exact ⟨name, fullname, bases, removed, defs, hd, hc.2, List.mem_singleton.1 hp⟩
    · simp at hp
  | _ => simp [w03_defEnums] at hp

/-- the members of an enum class nested in a top-level class are in the list of recorded instance ids -/
theorem w03_nested_enum_insts_mem {mods : List SrcModule} {m : SrcModule} {cname cfull : String}
    {cbases cremoved : List BaseExpr} {cdefs : List Def} {ename efull : String} {ebases eremoved : List BaseExpr}
    {edefs : List Def} (hm : m ∈ mods) (hc : Def.cls cname cfull cbases cremoved cdefs ∈ m.defs)
    (hce : isEnumClass cbases = false) (he : Def.cls ename efull ebases eremoved edefs ∈ cdefs)
    (hee : isEnumClass ebases = true) {n : String} (hn : n ∈ w03_enumBodyNames edefs) :
    w03_modId m ++ "/" ++ cname ++ "/" ++ ename ++ "/" ++ n ∈ w03_srcInsts mods := by
  refine w03_mem_srcInsts hm (w03_mem_defsInsts hc ?_)
  unfold w03_defInsts
  rw [if_neg (by decide), hce, if_neg (by decide)]
  refine w03_mem_defsInsts he ?_
  unfold w03_defInsts
  rw [if_neg (by decide), if_pos hee, k12_joinWith3]
  exact List.mem_map.2 ⟨n, hn, rfl⟩

/-- the members of a top-level enum class are in the list of recorded instance ids -/
theorem w03_toplevel_enum_insts_mem {mods : List SrcModule} {m : SrcModule} {name fullname : String}
    {bases removed : List BaseExpr} {defs : List Def} (hm : m ∈ mods)
    (hc : Def.cls name fullname bases removed defs ∈ m.defs) (he : isEnumClass bases = true) {n : String}
    (hn : n ∈ w03_enumBodyNames defs) : w03_modId m ++ "/" ++ name ++ "/" ++ n ∈ w03_srcInsts mods := by
  refine w03_mem_srcInsts hm (w03_mem_defsInsts hc ?_)
  unfold w03_defInsts
  rw [if_neg (by decide), if_pos he, w03_joinWith2]
  exact List.mem_map.2 ⟨n, hn, rfl⟩

/-- an enum whose source entry is the last one with its id is in the table -/
theorem w03_analyze_enum_last {env : AEnv} {root : GNode} {mods : List SrcModule} {r : AnaResult} {w : List String}
    (h : analyze env root mods = .ok (r, w)) {l1 : List (String × String × List String)} {p : String × String × List String}
    {l2 : List (String × String × List String)} (hsplit : w03_srcEnums mods = l1 ++ p :: l2)
    (hlast : ∀ q ∈ l2, q.1 ≠ p.1) : ∃ e ∈ r.enums, w03_EnumMatch p e := by
  obtain ⟨⟨es, hm, he⟩, _, _⟩ := w03_analyze_enums h
  rw [hsplit] at hm
  obtain ⟨e1, e, e2, rfl, _, hpe, h2⟩ := w03_forall₂_split hm
  refine ⟨e, ?_, hpe⟩
  rw [he]
  refine w03_mem_foldl_dictSet_last _ e1 e e2 [] ?_
  intro x hx
  obtain ⟨q, hq, hqx⟩ := w03_forall₂_mem_right h2 hx
  rw [hqx.1, hpe.1]
  exact hlast q hq

/-! ### 7. the re-export map of a whole analysis -/

theorem w03_foldl_addPkg_eq : ∀ (mods : List SrcModule) (api : AnaResult),
    mods.foldl w03_addPkg api = ((mods.filter w03_isPackageFile).map w03_moduleRecord).foldl addReexports api
  | [], _ => rfl
  | m :: ms, api => by
    rw [List.foldl_cons, w03_foldl_addPkg_eq ms]
    unfold w03_addPkg
    by_cases h : w03_isPackageFile m = true
    · rw [if_pos h, List.filter_cons_of_pos h, List.map_cons, List.foldl_cons]
    · rw [if_neg h, List.filter_cons_of_neg h]

theorem w03_mem_addToSetById {l : List ModRef} {r a : ModRef} (h : a ∈ addToSetById l r) : a ∈ l ∨ a = r := by
  rcases w03_addToSetById_cases l r with e | e <;> rw [e] at h
  · exact Or.inl h
  · rcases List.mem_append.1 h with h | h
    · exact Or.inl h
    · exact Or.inr (List.mem_singleton.1 h)

/-- every module record in the map is the `ref` of one of the added modules -/
theorem w03_refs_addReexports {P : ModRef → Prop} (api : AnaResult) (m : Module) (hm : P m.ref)
    (h : ∀ kv ∈ api.reexportMap, ∀ a ∈ kv.2, P a) : ∀ kv ∈ (addReexports api m).reexportMap, ∀ a ∈ kv.2, P a := by
  intro kv hkv a ha
  rw [w03_addReexports_eq] at hkv
  rcases List.mem_append.1 hkv with hkv | hkv
  · obtain ⟨kv0, h0, rfl⟩ := List.mem_map.1 hkv
    unfold w03_upd at ha
    split at ha
    · rcases w03_mem_addToSetById ha with ha | rfl
      · exact h kv0 h0 a ha
      · exact hm
    · exact h kv0 h0 a ha
  · obtain ⟨k, _, rfl⟩ := List.mem_map.1 hkv
    rw [List.mem_singleton.1 ha]
    exact hm

theorem w03_refs_foldl {P : ModRef → Prop} : ∀ (ms : List Module) (api : AnaResult), (∀ m ∈ ms, P m.ref) →
    (∀ kv ∈ api.reexportMap, ∀ a ∈ kv.2, P a) → ∀ kv ∈ (ms.foldl addReexports api).reexportMap, ∀ a ∈ kv.2, P a
  | [], _, _, h => h
  | m :: ms, api, hm, h =>
    w03_refs_foldl ms _ (fun x hx => hm x (List.mem_cons_of_mem _ hx))
      (w03_refs_addReexports api m (hm m List.mem_cons_self) h)

/-- for modules with pairwise different ids, a module id determines the record everywhere in the map -/
theorem w03_ids_determine (ms : List Module) (hnd : (ms.map (·.id)).Nodup) :
    ∀ kv ∈ (ms.foldl addReexports {}).reexportMap, ∀ kv' ∈ (ms.foldl addReexports {}).reexportMap,
      ∀ a ∈ kv.2, ∀ b ∈ kv'.2, a.id = b.id → a = b := by
  have key := w03_refs_foldl (P := fun a => ∃ m ∈ ms, a = m.ref) ms {} (fun m hm => ⟨m, hm, rfl⟩)
    (fun kv hkv => by simp at hkv)
  intro kv hkv kv' hkv' a ha b hb hab
  obtain ⟨m1, hm1, rfl⟩ := key kv hkv a ha
  obtain ⟨m2, hm2, rfl⟩ := key kv' hkv' b hb
  have : m1 = m2 := List.inj_on_of_nodup_map hnd hm1 hm2 hab
  rw [this]

theorem w03_importEntries_from (x : String) (names : List (String × Option String)) :
    w03_importEntries (.from_ x names) =
      names.map (fun p => (⟨if x = "" then p.1 else x ++ "." ++ p.1, p.2⟩ : QImport)) := by
  unfold w03_importEntries
  apply List.map_congr_left
  intro p _
  obtain ⟨n, a⟩ := p
  by_cases hx : x = ""
  · subst hx; simp
  · have : (x != "") = true := by simpa using hx
    simp [this, hx]

/-! ### 8. the walker as a sequence of visitor calls -/

/-- the calls the walker makes on the visitor (`enter_*` / `leave_*`), and the `None` node of an overload without
    implementation -/
inductive w03_Call where
  | enterFunc (f : FuncDef)
  | leaveFunc
  | enterClass (name fullname : String) (bases removed : List BaseExpr) (defs : List Def)
  | leaveClass
  | enterEnum (name fullname : String) (defs : List Def)
  | leaveEnum
  | enterAssign (a : Assignment)
  | leaveAssign
  | visitNone

def w03_exec (env : AEnv) : w03_Call → V Unit
  | .enterFunc f => enterFuncdef env f
  | .leaveFunc => leaveFuncdef
  | .enterClass name fullname bases removed defs => enterClassdef env name fullname bases removed defs
  | .leaveClass => leaveClassdef
  | .enterEnum name fullname defs => enterEnumdef env name fullname defs
  | .leaveEnum => leaveEnumdef
  | .enterAssign a => enterAssignment env a
  | .leaveAssign => leaveAssignment
  | .visitNone => walkNone

def w03_run (env : AEnv) : List w03_Call → V Unit
  | [] => pure ()
  | c :: cs => do w03_exec env c; w03_run env cs

def w03_assignCalls (a : Assignment) : List w03_Call := [.enterAssign a, .leaveAssign]

def w03_funcCalls (f : FuncDef) : List w03_Call :=
  .enterFunc f :: ((if f.name == "__init__" then (initAssignments f.body).flatMap w03_assignCalls else []) ++ [.leaveFunc])

mutual
def w03_defCalls (mode : WalkMode) : Def → List w03_Call
  | .func f => if mode == .enum then [] else w03_funcCalls f
  | .decorator f => if mode == .enum then [] else w03_funcCalls f
  | .overloaded impl =>
    if mode == .enum then [] else (match impl with | some f => w03_funcCalls f | none => [.visitNone])
  | .cls name fullname bases removed defs =>
    if mode == .enum then []
    else if isEnumClass bases then .enterEnum name fullname defs :: (w03_defsCalls .enum defs ++ [.leaveEnum])
    else .enterClass name fullname bases removed defs :: (w03_defsCalls .cls defs ++ [.leaveClass])
  | .assign a => if mode == .module then [] else w03_assignCalls a
  | .docExpr _ _ => []
  | .other _ => []
def w03_defsCalls (mode : WalkMode) : List Def → List w03_Call
  | [] => []
  | d :: ds => w03_defCalls mode d ++ w03_defsCalls mode ds
end

theorem w03_run_append (env : AEnv) : ∀ (a b : List w03_Call), w03_run env (a ++ b) = (do w03_run env a; w03_run env b)
  | [], b => by simp only [List.nil_append, w03_run, pure_bind]
  | c :: a, b => by
    simp only [List.cons_append, w03_run, bind_assoc, w03_run_append env a b]

theorem w03_run_cons (env : AEnv) (c : w03_Call) (cs : List w03_Call) :
    w03_run env (c :: cs) = (do w03_exec env c; w03_run env cs) := rfl

theorem w03_run_singleton (env : AEnv) (c : w03_Call) : w03_run env [c] = w03_exec env c := by
  simp only [w03_run, bind_pure_comp, id_map']

theorem w03_walkAssignment_eq (env : AEnv) (a : Assignment) : walkAssignment env a = w03_run env (w03_assignCalls a) := by
  unfold walkAssignment w03_assignCalls
  rw [w03_run_cons, w03_run_singleton]
  rfl

theorem w03_forIn_assign (env : AEnv) : ∀ l : List Assignment,
    (forIn l PUnit.unit (fun a _ => do walkAssignment env a; pure (ForInStep.yield PUnit.unit)) : V PUnit) =
      w03_run env (l.flatMap w03_assignCalls)
  | [] => rfl
  | a :: l => by
    rw [List.forIn_cons, List.flatMap_cons, w03_run_append, ← w03_walkAssignment_eq, ← w03_forIn_assign env l]
    simp only [bind_assoc, pure_bind]

theorem w03_walkFunc_eq (env : AEnv) (f : FuncDef) : walkFunc env f = w03_run env (w03_funcCalls f) := by
  unfold walkFunc w03_funcCalls
  rw [w03_run_cons, w03_run_append, w03_run_singleton]
  by_cases hc : (f.name == "__init__") = true
  · simp only [hc, if_true, ← w03_forIn_assign]
    rfl
  · simp only [hc]
    rfl

mutual
theorem w03_walkDef_eq (env : AEnv) (mode : WalkMode) : (d : Def) → walkDef env mode d = w03_run env (w03_defCalls mode d)
  | .func f => by
    unfold walkDef w03_defCalls
    split
    · rfl
    · exact w03_walkFunc_eq env f
  | .decorator f => by
    unfold walkDef w03_defCalls
    split
    · rfl
    · exact w03_walkFunc_eq env f
  | .overloaded impl => by
    unfold walkDef w03_defCalls
    split
    · rfl
    · cases impl with
      | some f => exact w03_walkFunc_eq env f
      | none => exact (w03_run_singleton env .visitNone).symm
  | .cls name fullname bases removed defs => by
    unfold walkDef w03_defCalls
    split
    · rfl
    · split
      · rw [w03_run_cons, w03_run_append, w03_run_singleton, ← w03_walkDefs_eq env .enum defs]
        rfl
      · rw [w03_run_cons, w03_run_append, w03_run_singleton, ← w03_walkDefs_eq env .cls defs]
        rfl
  | .assign a => by
    unfold walkDef w03_defCalls
    split
    · rfl
    · exact w03_walkAssignment_eq env a
  | .docExpr _ _ => by unfold walkDef w03_defCalls; rfl
  | .other _ => by unfold walkDef w03_defCalls; rfl
theorem w03_walkDefs_eq (env : AEnv) (mode : WalkMode) : (ds : List Def) →
    walkDefs env mode ds = w03_run env (w03_defsCalls mode ds)
  | [] => by unfold walkDefs w03_defsCalls; rfl
  | d :: ds => by
    unfold walkDefs w03_defsCalls
    rw [w03_run_append, ← w03_walkDef_eq env mode d, ← w03_walkDefs_eq env mode ds]
end

/-! ### 9. what the walker visits, by structural recursion over the source -/

def w03_assignLabel (a : Assignment) : String × String := ("assignment", joinWith "," (a.lvalues.flatMap w03_targetNames))

/-- the label of an `enter_*` call: `(kind, name)` -/
def w03_enterLabel : w03_Call → Option (String × String)
  | .enterFunc f => some ("function", f.name)
  | .enterClass name _ _ _ _ => some ("class", name)
  | .enterEnum name _ _ => some ("enum", name)
  | .enterAssign a => some (w03_assignLabel a)
  | _ => none

/-- a function definition: the function, then — for a constructor only — the assignment statements at the top level
    of its body -/
def w03_visitedFunc (f : FuncDef) : List (String × String) :=
  ("function", f.name) :: (if f.name == "__init__" then (initAssignments f.body).map w03_assignLabel else [])

mutual
/-- `(kind, name)` of the definitions the walker enters for a definition in a given mode, in order -/
def w03_visited (mode : WalkMode) : Def → List (String × String)
  | .func f => if mode == .enum then [] else w03_visitedFunc f
  | .decorator f => if mode == .enum then [] else w03_visitedFunc f
  | .overloaded impl =>
    if mode == .enum then [] else (match impl with | some f => w03_visitedFunc f | none => [])
  | .cls name _ bases _ defs =>
    if mode == .enum then []
    else if isEnumClass bases then ("enum", name) :: w03_visitedDefs .enum defs
    else ("class", name) :: w03_visitedDefs .cls defs
  | .assign a => if mode == .module then [] else [w03_assignLabel a]
  | .docExpr _ _ => []
  | .other _ => []
def w03_visitedDefs (mode : WalkMode) : List Def → List (String × String)
  | [] => []
  | d :: ds => w03_visited mode d ++ w03_visitedDefs mode ds
end

theorem w03_visitedDefs_eq_flatMap (mode : WalkMode) : ∀ ds : List Def, w03_visitedDefs mode ds = ds.flatMap (w03_visited mode)
  | [] => by rw [w03_visitedDefs]; rfl
  | d :: ds => by rw [w03_visitedDefs, List.flatMap_cons, w03_visitedDefs_eq_flatMap mode ds]

theorem w03_labels_assigns (l : List Assignment) :
    (l.flatMap w03_assignCalls).filterMap w03_enterLabel = l.map w03_assignLabel := by
  induction l with
  | nil => rfl
  | cons a l ih =>
    rw [List.flatMap_cons, List.filterMap_append, ih]
    rfl

theorem w03_labels_func (f : FuncDef) : (w03_funcCalls f).filterMap w03_enterLabel = w03_visitedFunc f := by
  unfold w03_funcCalls w03_visitedFunc
  rw [List.filterMap_cons_some (by rfl : w03_enterLabel (.enterFunc f) = some ("function", f.name)),
    List.filterMap_append]
  split
  · rw [w03_labels_assigns]; simp [w03_enterLabel]
  · simp [w03_enterLabel]

mutual
theorem w03_labels_def (mode : WalkMode) : (d : Def) → (w03_defCalls mode d).filterMap w03_enterLabel = w03_visited mode d
  | .func f => by unfold w03_defCalls w03_visited; split; · rfl
                  · exact w03_labels_func f
  | .decorator f => by unfold w03_defCalls w03_visited; split; · rfl
                       · exact w03_labels_func f
  | .overloaded impl => by
    unfold w03_defCalls w03_visited
    split
    · rfl
    · cases impl with
      | some f => exact w03_labels_func f
      | none => rfl
  | .cls name fullname bases removed defs => by
    unfold w03_defCalls w03_visited
    split
    · rfl
    · split
      · rw [List.filterMap_cons_some (by rfl : w03_enterLabel (.enterEnum name fullname defs) = some ("enum", name)),
          List.filterMap_append, w03_labels_defs .enum defs]
        simp [w03_enterLabel]
      · rw [List.filterMap_cons_some
            (by rfl : w03_enterLabel (.enterClass name fullname bases removed defs) = some ("class", name)),
          List.filterMap_append, w03_labels_defs .cls defs]
        simp [w03_enterLabel]
  | .assign a => by unfold w03_defCalls w03_visited; split; · rfl
                    · rfl
  | .docExpr _ _ => by unfold w03_defCalls w03_visited; rfl
  | .other _ => by unfold w03_defCalls w03_visited; rfl
theorem w03_labels_defs (mode : WalkMode) : (ds : List Def) →
    (w03_defsCalls mode ds).filterMap w03_enterLabel = w03_visitedDefs mode ds
  | [] => by unfold w03_defsCalls w03_visitedDefs; rfl
  | d :: ds => by
    unfold w03_defsCalls w03_visitedDefs
    rw [List.filterMap_append, w03_labels_def mode d, w03_labels_defs mode ds]
end

/-- the names of the functions in a list of visited definitions -/
def w03_functionNames (l : List (String × String)) : List String := (l.filter (fun p => p.1 == "function")).map (·.2)

theorem w03_functionNames_append (a b : List (String × String)) :
    w03_functionNames (a ++ b) = w03_functionNames a ++ w03_functionNames b := by
  unfold w03_functionNames; rw [List.filter_append, List.map_append]

theorem w03_functionNames_func (f : FuncDef) : w03_functionNames (w03_visitedFunc f) = [f.name] := by
  unfold w03_visitedFunc w03_functionNames
  rw [List.filter_cons_of_pos (by rfl)]
  split
  · have : ∀ l : List Assignment, (l.map w03_assignLabel).filter (fun p => p.1 == "function") = [] := by
      intro l
      apply List.filter_eq_nil_iff.2
      intro p hp
      obtain ⟨a, _, rfl⟩ := List.mem_map.1 hp
      show ¬ (("assignment" : String) == "function") = true
      decide
    rw [this]; rfl
  · rfl

mutual
theorem w03_functionNames_def (pre : List String) (mode : WalkMode) : (d : Def) →
    w03_functionNames (w03_visited mode d) = (k12_defFuncs pre mode d).map (·.2.name)
  | .func f => by unfold w03_visited k12_defFuncs; split; · rfl
                  · exact w03_functionNames_func f
  | .decorator f => by unfold w03_visited k12_defFuncs; split; · rfl
                       · exact w03_functionNames_func f
  | .overloaded impl => by
    unfold w03_visited k12_defFuncs
    split
    · rfl
    · cases impl with
      | some f => exact w03_functionNames_func f
      | none => rfl
  | .cls name fullname bases removed defs => by
    unfold w03_visited k12_defFuncs
    split
    · rfl
    · split
      · rw [← w03_functionNames_defs (pre ++ [name]) .enum defs]; rfl
      · rw [← w03_functionNames_defs (pre ++ [name]) .cls defs]; rfl
  | .assign a => by unfold w03_visited k12_defFuncs; split; · rfl
                    · rfl
  | .docExpr _ _ => by unfold w03_visited k12_defFuncs; rfl
  | .other _ => by unfold w03_visited k12_defFuncs; rfl
theorem w03_functionNames_defs (pre : List String) (mode : WalkMode) : (ds : List Def) →
    w03_functionNames (w03_visitedDefs mode ds) = (k12_defsFuncs pre mode ds).map (·.2.name)
  | [] => by unfold w03_visitedDefs k12_defsFuncs; rfl
  | d :: ds => by
    unfold w03_visitedDefs k12_defsFuncs
    rw [w03_functionNames_append, List.map_append, w03_functionNames_def pre mode d, w03_functionNames_defs pre mode ds]
end

theorem w03_evs_names {src : List (String × FuncDef)} {evs : List Function} (h : List.Forall₂ k12_EvMatch src evs) :
    evs.map (·.name) = src.map (·.2.name) := by
  induction h with
  | nil => rfl
  | cons hab _ ih => rw [List.map_cons, List.map_cons, ih, hab.2.name]

/-! ### 10. the matching condition in terms of segments -/

theorem w03_fwd_iff (key : String) (path : List String) :
    (∃ i, i < path.length ∧ key = w03_fwdKey path i) ↔ ∃ a b, path = a ++ b ∧ a ≠ [] ∧ key = joinWith "." a := by
  constructor
  · rintro ⟨i, hi, rfl⟩
    refine ⟨path.take (i + 1), path.drop (i + 1), (List.take_append_drop _ _).symm, ?_, rfl⟩
    intro h
    have := congrArg List.length h
    rw [List.length_take, List.length_nil] at this
    omega
  · rintro ⟨a, b, rfl, ha, rfl⟩
    have hl : 0 < a.length := List.length_pos_iff.2 ha
    refine ⟨a.length - 1, by rw [List.length_append]; omega, ?_⟩
    unfold w03_fwdKey
    rw [show a.length - 1 + 1 = a.length by omega, List.take_left']
    rfl

theorem w03_bwd_iff (key : String) (path : List String) :
    (∃ i, i < path.length ∧ key = w03_bwdKey path i) ↔ ∃ a b, path = a ++ b ∧ b ≠ [] ∧ key = joinWith "." b := by
  constructor
  · rintro ⟨i, hi, rfl⟩
    refine ⟨path.take (path.length - (i + 1)), path.drop (path.length - (i + 1)), (List.take_append_drop _ _).symm, ?_, rfl⟩
    intro h
    have := congrArg List.length h
    rw [List.length_drop, List.length_nil] at this
    omega
  · rintro ⟨a, b, rfl, hb, rfl⟩
    have hl : 0 < b.length := List.length_pos_iff.2 hb
    refine ⟨b.length - 1, by rw [List.length_append]; omega, ?_⟩
    unfold w03_bwdKey
    rw [List.length_append, show a.length + b.length - (b.length - 1 + 1) = a.length by omega, List.drop_left']
    rfl

theorem w03_wild_iff (key : String) (path : List String) :
    (∃ i, i < path.length ∧ key = w03_wildKey path i) ↔
      ∃ a b l, path = a ++ b ++ [l] ∧ (b ≠ [] ∨ a = []) ∧ key = joinWith "." b ++ ".*" := by
  constructor
  · rintro ⟨i, hi, rfl⟩
    have hne : path ≠ [] := by intro h; rw [h] at hi; simp at hi
    have hsplit : path = path.take (path.length - 1) ++ [path.getLast hne] := by
      rw [← List.dropLast_eq_take]; exact (List.dropLast_concat_getLast hne).symm
    generalize hj : path.length - 1 - min (path.length - 1) (i + 1) = j
    refine ⟨(path.take (path.length - 1)).take j, (path.take (path.length - 1)).drop j, path.getLast hne, ?_, ?_, ?_⟩
    · rw [List.take_append_drop]; exact hsplit
    · by_cases hn : path.length - 1 = 0
      · right
        have : (path.take (path.length - 1)) = [] := by rw [hn]; rfl
        rw [this]; simp
      · left
        intro h
        have := congrArg List.length h
        rw [List.length_drop, List.length_take, List.length_nil] at this
        omega
    · unfold w03_wildKey
      rw [hj]
  · rintro ⟨a, b, l, rfl, hab, rfl⟩
    have hlen : (a ++ b ++ [l]).length = a.length + b.length + 1 := by simp [Nat.add_assoc]
    have htake : (a ++ b ++ [l]).take (a.length + b.length) = a ++ b := by
      rw [List.take_left' (by simp)]
    by_cases hb : b = []
    · have ha : a = [] := hab.resolve_left (fun h => h hb)
      subst ha hb
      exact ⟨0, by simp, rfl⟩
    · have hl : 0 < b.length := List.length_pos_iff.2 hb
      refine ⟨b.length - 1, by rw [hlen]; omega, ?_⟩
      unfold w03_wildKey
      rw [hlen, show a.length + b.length + 1 - 1 = a.length + b.length by omega, htake,
        show a.length + b.length - min (a.length + b.length) (b.length - 1 + 1) = a.length by omega, List.drop_left']
      rfl

/-- the matching condition read on the dotted segments of the qualified name: the key is a non-empty dotted PREFIX of
    the name, a non-empty dotted SUFFIX of the name, or `<suffix of the name without its last segment>.*` (a non-empty
    suffix, or the empty one when the name has a single segment) -/
theorem w03_keyMatches_iff_segments (key qname : String) :
    w03_KeyMatches key qname ↔
      (∃ a b, splitDot qname = a ++ b ∧ a ≠ [] ∧ key = joinWith "." a) ∨
      (∃ a b, splitDot qname = a ++ b ∧ b ≠ [] ∧ key = joinWith "." b) ∨
      (∃ a b l, splitDot qname = a ++ b ++ [l] ∧ (b ≠ [] ∨ a = []) ∧ key = joinWith "." b ++ ".*") := by
  rw [← w03_fwd_iff, ← w03_bwd_iff, ← w03_wild_iff]
  unfold w03_KeyMatches
  constructor
  · rintro ⟨i, hi, h | h | h⟩
    · exact Or.inl ⟨i, hi, h⟩
    · exact Or.inr (Or.inl ⟨i, hi, h⟩)
    · exact Or.inr (Or.inr ⟨i, hi, h⟩)
  · rintro (⟨i, hi, h⟩ | ⟨i, hi, h⟩ | ⟨i, hi, h⟩)
    · exact ⟨i, hi, Or.inl h⟩
    · exact ⟨i, hi, Or.inr (Or.inl h)⟩
    · exact ⟨i, hi, Or.inr (Or.inr h)⟩

/-! ### 11. the `reexported_by` field the visitor stores -/

theorem w03_getReexportedBy_congr {s t : VSt} (h : t.api = s.api) (q : String) :
    getReexportedBy t q = getReexportedBy s q := by
  unfold getReexportedBy
  rw [h]

theorem w03_enterFuncdef_reexportedBy {env : AEnv} {f : FuncDef} {s s' : VSt} {u : Unit}
    (h : enterFuncdef env f s = .ok (u, s')) :
    ∃ fn, s'.stack = .fn fn :: s.stack ∧ fn.reexportedBy = sortModRefs (getReexportedBy s f.fullname) := by
  unfold enterFuncdef at h
  have hh := k12_get_bind_ok h; clear h; have h := hh; clear hh
  have hh := k12_bind_ok h; clear h; obtain ⟨pub, t1, h1, h⟩ := hh
  have e1 : t1 = s := by
    cases hp : isPublicV s f.name f.fullname with
    | ok b => rw [hp] at h1; exact (k12_pure_ok h1).2
    | error e => rw [hp] at h1; exact (k12_throw_ok h1).elim
  rw [e1] at h
  have hh := k12_bind_ok h; clear h; obtain ⟨doc, t2, h2, h⟩ := hh
  have e2 := (k12_functionDocumentation_fr env f).run _ _ _ h2
  have hh := k12_bind_ok h; clear h; obtain ⟨_, t3, h3, h⟩ := hh
  have e3 : t3.api = t2.api ∧ t3.stack = t2.stack := by rw [k12_modify_ok h3]; exact ⟨rfl, rfl⟩
  have hh := k12_bind_ok h; clear h; obtain ⟨params, t4, h4, h⟩ := hh
  have e4 := (k12_parseParameters_fr env f _ f.args).run _ _ _ h4
  have hh := k12_get_bind_ok h; clear h; have h := hh; clear hh
  have hh := k12_bind_ok h; clear h; obtain ⟨params', t6, h6, h⟩ := hh
  have e6 := (k12_reconcileParameters_fr env _ params).run _ _ _ h6
  have hh := k12_bind_ok h; clear h; obtain ⟨rdocs, t7, h7, h⟩ := hh
  have e7 := (k12_resultDocumentation_fr env f.fullname).run _ _ _ h7
  have hh := k12_bind_ok h; clear h; obtain ⟨results, t8, h8, h⟩ := hh
  have e8 := (k12_parseResults_fr env f _ rdocs).run _ _ _ h8
  have hh := k12_bind_ok h; clear h; obtain ⟨results', t9, h9, h⟩ := hh
  have e9 := (k12_reconcileResults_fr env _ rdocs 0 results results).run _ _ _ h9
  have hh := k12_get_bind_ok h; clear h; have h := hh; clear hh
  have hs' := k12_modify_ok h
  have eapi : t9.api = s.api := by rw [e9.1, e8.1, e7.1, e6.1, e4.1, e3.1, e2.1]
  have estk : t9.stack = s.stack := by rw [e9.2, e8.2, e7.2, e6.2, e4.2, e3.2, e2.2]
  refine ⟨_, by rw [hs']; dsimp only; rw [estk], ?_⟩
  dsimp only
  rw [w03_getReexportedBy_congr eapi]

theorem w03_enterClassdef_reexportedBy {env : AEnv} {name fullname : String} {bases removed : List BaseExpr}
    {defs : List Def} {s s' : VSt} {u : Unit} (h : enterClassdef env name fullname bases removed defs s = .ok (u, s')) :
    ∃ c, s'.stack = .cls c :: s.stack ∧ c.reexportedBy = sortModRefs (getReexportedBy s fullname) := by
  unfold enterClassdef at h
  have hh := k12_get_bind_ok h; clear h; have h := hh; clear hh
  have hh := k12_bind_ok h; clear h; obtain ⟨doc, t1, h1, h⟩ := hh
  have e1 := (k12_classDocumentation_fr env fullname defs).run _ _ _ h1
  have hh := k12_bind_ok h; clear h; obtain ⟨tps, t2, h2, h⟩ := hh
  have e2 := (by k12_fr [k12_typeParameters_fr] : k12_Fr _).run _ _ _ h2
  have hh := k12_get_bind_ok h; clear h; have h := hh; clear hh
  have hh := k12_bind_ok h; clear h; obtain ⟨supers, t3, h3, h⟩ := hh
  have e3 := (by k12_fr [k12_Fr.mapM] : k12_Fr _).run _ _ _ h3
  have hh := k12_bind_ok h; clear h; obtain ⟨_, t4, h4, h⟩ := hh
  have e4 := (k12_ctorFullDoc_fr env defs).run _ _ _ h4
  have hh := k12_get_bind_ok h; clear h; have h := hh; clear hh
  have hh := k12_bind_ok h; clear h; obtain ⟨pub, t5, h5, h⟩ := hh
  have estk : t4.stack = s.stack := by rw [e4.2, e3.2, e2.2, e1.2]
  have e5 : t5 = t4 := by
    cases hp : isPublicV t4 name fullname with
    | ok b => rw [hp] at h5; exact (k12_pure_ok h5).2
    | error e => rw [hp] at h5; exact (k12_throw_ok h5).elim
  rw [e5] at h
  have hs' := k12_modify_ok h
  refine ⟨_, by rw [hs']; dsimp only; rw [estk], ?_⟩
  dsimp only
  rw [w03_getReexportedBy_congr (e2.1.trans e1.1)]

end StubGen
