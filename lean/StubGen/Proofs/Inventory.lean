/-
C12 — the inventory: helper lemmas about the analyser model (`StubGen.Model.Analyze`).

* `k12_Fr`      : frame predicate "does not change `api` and `stack`" for the read-only parts
* `k12_Step`    : the abstract transitions of the declaration stack / the tables (one per `enter*`/`leave*`)
* `k12_walk*`   : every successful walk is a sequence of abstract steps; the walker visits class definitions directly
                  below a module or a class only (`k12_ModeTop`), so every class that is left is stored (`popClsM`/`popClsC`)
* invariants over `k12_Steps`: duplicate-free tables, id forms (attributes: `<id of a class of the table>/<name>`,
  `k12_Owned`), resolved references, recorded functions, provenance of parameters, results (`k12_Steps_parts`) and
  attributes (`k12_Listed`)
* the transitions carry two event lists: the functions written to `functions` and the classes written to `classes`
-/
import StubGen.Model.Analyze
import StubGen.Proofs.TypeText
import StubGen.Proofs.Files

namespace StubGen

/-! ### the analyser monad -/

theorem k12_bind_ok {α β : Type} {x : V α} {f : α → V β} {s : VSt} {b : β} {s' : VSt}
    (h : (x >>= f) s = .ok (b, s')) : ∃ a s1, x s = .ok (a, s1) ∧ f a s1 = .ok (b, s') := by
  simp only [bind, StateT.bind, Except.bind] at h
  cases hx : x s with
  | error e => rw [hx] at h; exact absurd h (by simp)
  | ok r =>
    obtain ⟨a, s1⟩ := r
    rw [hx] at h
    exact ⟨a, s1, rfl, h⟩

theorem k12_pure_ok {α : Type} {a b : α} {s s' : VSt} (h : (pure a : V α) s = .ok (b, s')) : b = a ∧ s' = s := by
  simp only [pure, StateT.pure, Except.pure, Except.ok.injEq, Prod.mk.injEq] at h
  exact ⟨h.1.symm, h.2.symm⟩

theorem k12_get_ok {a s s' : VSt} (h : (get : V VSt) s = .ok (a, s')) : a = s ∧ s' = s := by
  simp only [get, getThe, MonadStateOf.get, StateT.get, Pure.pure, Except.pure, Except.ok.injEq, Prod.mk.injEq] at h
  exact ⟨h.1.symm, h.2.symm⟩

theorem k12_set_ok {t s s' : VSt} {u : PUnit} (h : (set t : V PUnit) s = .ok (u, s')) : s' = t := by
  simp only [MonadStateOf.set, StateT.set, Pure.pure, Except.pure, Except.ok.injEq, Prod.mk.injEq] at h
  exact h.2.symm

theorem k12_modify_ok {g : VSt → VSt} {s s' : VSt} {u : PUnit} (h : (modify g : V PUnit) s = .ok (u, s')) : s' = g s := by
  simp only [MonadState.modifyGet, MonadStateOf.modifyGet, StateT.modifyGet, Pure.pure, Except.pure, Except.ok.injEq,
    Prod.mk.injEq, _root_.modify] at h
  exact h.2.symm

theorem k12_throw_ok {α : Type} {e : PyErr} {s s' : VSt} {a : α} (h : (throwV e : V α) s = .ok (a, s')) : False := by
  simp [throwV] at h

/-! ### frame: the read-only parts of the analyser never touch `api` and `stack` -/

structure k12_Fr {α : Type} (x : V α) : Prop where
  run : ∀ (s : VSt) (a : α) (s' : VSt), x s = .ok (a, s') → s'.api = s.api ∧ s'.stack = s.stack

namespace k12_Fr
variable {α β : Type}

theorem pure (a : α) : k12_Fr (Pure.pure a : V α) := by
  refine ⟨fun s b s' h => ?_⟩
  obtain ⟨_, rfl⟩ := k12_pure_ok h
  exact ⟨rfl, rfl⟩

theorem throw (e : PyErr) : k12_Fr (throwV e : V α) := ⟨fun _ _ _ h => (k12_throw_ok h).elim⟩

theorem bind {x : V α} {f : α → V β} (hx : k12_Fr x) (hf : ∀ a, k12_Fr (f a)) : k12_Fr (x >>= f) := by
  refine ⟨fun s b s' h => ?_⟩
  obtain ⟨a, s1, h1, h2⟩ := k12_bind_ok h
  have e1 := hx.run s a s1 h1
  have e2 := (hf a).run s1 b s' h2
  exact ⟨e2.1.trans e1.1, e2.2.trans e1.2⟩

theorem get : k12_Fr (MonadState.get : V VSt) := by
  refine ⟨fun s b s' h => ?_⟩
  obtain ⟨_, rfl⟩ := k12_get_ok h
  exact ⟨rfl, rfl⟩

theorem modify {g : VSt → VSt} (hg : ∀ s, (g s).api = s.api ∧ (g s).stack = s.stack) : k12_Fr (modify g : V PUnit) := by
  refine ⟨fun s b s' h => ?_⟩
  rw [k12_modify_ok h]
  exact hg s

theorem withDoc (f : ParserState → Except PyErr (α × ParserState)) : k12_Fr (StubGen.withDoc f) := by
  refine ⟨fun s b s' h => ?_⟩
  unfold StubGen.withDoc at h
  split at h
  · exact absurd h (by simp)
  · simp only [Except.ok.injEq, Prod.mk.injEq] at h
    rw [← h.2]
    exact ⟨rfl, rfl⟩

end k12_Fr

theorem k12_warnV_fr (m : String) : k12_Fr (warnV m) := k12_Fr.modify (fun _ => ⟨rfl, rfl⟩)

open Lean in
macro "k12_fr" "[" ls:term,* "]" : tactic => do
  let alts ← ls.getElems.mapM fun l => `(tacticSeq| apply $l)
  `(tactic| repeat' (first
      | with_reducible exact k12_Fr.pure _
      | with_reducible exact k12_Fr.throw _
      | with_reducible exact k12_Fr.get
      | with_reducible exact k12_warnV_fr _
      | with_reducible exact k12_Fr.withDoc _
      | with_reducible assumption
      | ((with_reducible apply k12_Fr.modify); intro _; exact ⟨rfl, rfl⟩)
      $[| with_reducible $alts:tacticSeq]*
      | with_reducible apply k12_Fr.bind
      | intro _
      | split
      | dsimp only))

theorem k12_Fr.mapM {α β : Type} (f : α → V β) (hf : ∀ a, k12_Fr (f a)) : ∀ (l : List α), k12_Fr (l.mapM f)
  | [] => by rw [List.mapM_nil]; exact k12_Fr.pure _
  | a :: l => by
    rw [List.mapM_cons]
    exact k12_Fr.bind (hf a) (fun b => k12_Fr.bind (k12_Fr.mapM f hf l) (fun bs => k12_Fr.pure _))

theorem k12_Fr.forIn {α : Type} (f : α → PUnit → V (ForInStep PUnit)) (hf : ∀ a u, k12_Fr (f a u)) :
    ∀ (l : List α) (u : PUnit), k12_Fr (forIn l u f)
  | [], u => by rw [List.forIn_nil]; exact k12_Fr.pure _
  | a :: l, u => by
    rw [List.forIn_cons]
    refine k12_Fr.bind (hf a u) (fun r => ?_)
    cases r with
    | done b => exact k12_Fr.pure _
    | yield b => exact k12_Fr.forIn f hf l b

theorem k12_classDocumentation_fr (env : AEnv) (fn : String) (defs : List Def) : k12_Fr (classDocumentation env fn defs) := by
  unfold classDocumentation; k12_fr []

theorem k12_functionDocumentation_fr (env : AEnv) (f : FuncDef) : k12_Fr (functionDocumentation env f) := by
  unfold functionDocumentation; k12_fr []

theorem k12_parameterDocumentation_fr (env : AEnv) (a b c : String) : k12_Fr (parameterDocumentation env a b c) := by
  unfold parameterDocumentation; k12_fr []

theorem k12_attributeDocumentation_fr (env : AEnv) (a b : String) : k12_Fr (attributeDocumentation env a b) := by
  unfold attributeDocumentation; k12_fr []

theorem k12_resultDocumentation_fr (env : AEnv) (a : String) : k12_Fr (resultDocumentation env a) := by
  unfold resultDocumentation; k12_fr []

mutual
theorem k12_toAbstractNoUn_fr (env : AEnv) : (t : MType) → k12_Fr (toAbstractNoUn env t)
  | .tuple items => by
    have := k12_toAbstracts_fr env items
    unfold toAbstractNoUn; k12_fr []
  | .union items => by
    have := k12_toAbstracts_fr env items
    unfold toAbstractNoUn; k12_fr []
  | .typeVar name ub ubStr => by
    have := k12_toAbstractNoUn_fr env ub
    unfold toAbstractNoUn; k12_fr []
  | .callable args ret => by
    have := k12_toAbstracts_fr env args
    have := k12_toAbstractNoUn_fr env ret
    unfold toAbstractNoUn; k12_fr []
  | .any t missing => by unfold toAbstractNoUn; k12_fr []
  | .none => by unfold toAbstractNoUn; k12_fr []
  | .literal v => by unfold toAbstractNoUn; k12_fr []
  | .unbound name args => by
    have := k12_toAbstracts_fr env args
    unfold toAbstractNoUn; k12_fr []
  | .inst name fullname args => by
    have h1 := k12_toAbstracts_fr env args
    have h2 : ∀ k v rest, args = k :: v :: rest → k12_Fr (toAbstractNoUn env k) ∧ k12_Fr (toAbstractNoUn env v) := by
      intro k v rest he
      subst he
      exact ⟨k12_toAbstractNoUn_fr env k, k12_toAbstractNoUn_fr env v⟩
    unfold toAbstractNoUn
    k12_fr []
    · exact (h2 _ _ _ rfl).1
    · exact (h2 _ _ _ rfl).2
  | .other _ _ => by unfold toAbstractNoUn; k12_fr []
theorem k12_toAbstracts_fr (env : AEnv) : (ts : List MType) → k12_Fr (toAbstracts env ts)
  | [] => by unfold toAbstracts; k12_fr []
  | t :: ts => by
    have := k12_toAbstractNoUn_fr env t
    have := k12_toAbstracts_fr env ts
    unfold toAbstracts; k12_fr []
end

theorem k12_toAbstract_fr (env : AEnv) (t : MType) (un : Option MType) : k12_Fr (toAbstract env t un) := by
  unfold toAbstract
  k12_fr [k12_toAbstractNoUn_fr, k12_toAbstracts_fr]


theorem k12_parseParameter_fr (env : AEnv) (f : FuncDef) (fid : String) (a : Arg) : k12_Fr (parseParameter env f fid a) := by
  unfold parseParameter
  k12_fr [k12_toAbstract_fr, k12_parameterDocumentation_fr, k12_Fr.forIn]

theorem k12_parseParameters_fr (env : AEnv) (f : FuncDef) (fid : String) : (as : List Arg) → k12_Fr (parseParameters env f fid as)
  | [] => by unfold parseParameters; k12_fr []
  | a :: as => by
    have := k12_parseParameters_fr env f fid as
    unfold parseParameters; k12_fr [k12_parseParameter_fr]

theorem k12_parseResults_fr (env : AEnv) (f : FuncDef) (fid : String) (docs : List ResultDoc) : k12_Fr (parseResults env f fid docs) := by
  unfold parseResults
  k12_fr [k12_toAbstract_fr]

theorem k12_reconcileParameter_fr (env : AEnv) (fid : String) (p : Parameter) : k12_Fr (reconcileParameter env fid p) := by
  unfold reconcileParameter
  k12_fr []

theorem k12_reconcileParameters_fr (env : AEnv) (fid : String) : (ps : List Parameter) → k12_Fr (reconcileParameters env fid ps)
  | [] => by unfold reconcileParameters; k12_fr []
  | a :: as => by
    have := k12_reconcileParameters_fr env fid as
    unfold reconcileParameters; k12_fr [k12_reconcileParameter_fr]

theorem k12_reconcileResults_fr (env : AEnv) (fid : String) : (ds : List ResultDoc) → (i : Nat) → (all rs : List Result) →
    k12_Fr (reconcileResults env fid i all rs ds)
  | [], i, all, rs => by unfold reconcileResults; k12_fr []
  | d :: ds, i, all, rs => by
    have ih := k12_reconcileResults_fr env fid ds
    unfold reconcileResults; k12_fr [ih]

theorem k12_typeParameter_fr (env : AEnv) (tv : TypeVarInfo) : k12_Fr (typeParameter env tv) := by
  unfold typeParameter
  k12_fr [k12_toAbstract_fr, k12_toAbstracts_fr]

theorem k12_typeParameters_fr (env : AEnv) : (l : List (Option TypeVarInfo)) → k12_Fr (typeParameters env l)
  | [] => by unfold typeParameters; k12_fr []
  | none :: _ => by unfold typeParameters; k12_fr []
  | some tv :: rest => by
    have := k12_typeParameters_fr env rest
    unfold typeParameters; k12_fr [k12_typeParameter_fr]

theorem k12_ctorFullDoc_fr (env : AEnv) : (l : List Def) → k12_Fr (ctorFullDoc env l)
  | [] => by unfold ctorFullDoc; k12_fr []
  | .func f :: rest => by
    have := k12_ctorFullDoc_fr env rest
    unfold ctorFullDoc; k12_fr [k12_functionDocumentation_fr]
  | .decorator _ :: rest | .overloaded _ :: rest | .cls _ _ _ _ _ :: rest | .assign _ :: rest | .docExpr _ _ :: rest
  | .other _ :: rest => by
    have := k12_ctorFullDoc_fr env rest
    unfold ctorFullDoc; k12_fr []

theorem k12_createAttributeV_fr (env : AEnv) (isMember : Bool) (name fullname : String) (isVar : Bool) (var : Option VarInfo)
    (un : Option MType) (isStatic : Bool) : k12_Fr (createAttributeV env isMember name fullname isVar var un isStatic) := by
  unfold createAttributeV
  k12_fr [k12_toAbstract_fr, k12_attributeDocumentation_fr]


theorem k12_parseAttributes_one_fr (env : AEnv) (un : Option MType) (isStatic : Bool) (isMember : Bool) (name fullname : String) (isVar : Bool) (var : Option VarInfo) :
    k12_Fr (do
      let s ← get
      match attributeAlreadyDefined s name with
      | .error e => throwV e
      | .ok true => pure []
      | .ok false =>
        if isMember && !isVar then pure []
        else do
          let a ← createAttributeV env isMember name fullname isVar var un isStatic
          pure [a] : V (List Attribute)) := by
  k12_fr [k12_createAttributeV_fr]

theorem k12_parseAttributes_go_fr (one : Bool → String → String → Bool → Option VarInfo → V (List Attribute))
    (h1 : ∀ a b c d e, k12_Fr (one a b c d e)) : (l : List LValue) → k12_Fr (parseAttributes.go one l)
  | [] => by unfold parseAttributes.go; k12_fr []
  | .name n fq isVar var :: rest => by
    have ih := k12_parseAttributes_go_fr one h1 rest
    unfold parseAttributes.go; k12_fr [h1]
  | .member n fq isVar var :: rest => by
    have ih := k12_parseAttributes_go_fr one h1 rest
    unfold parseAttributes.go; k12_fr [h1]
  | .tuple _ :: rest | .other :: rest => by
    have ih := k12_parseAttributes_go_fr one h1 rest
    unfold parseAttributes.go; k12_fr [h1]

theorem k12_parseAttributes_fr (env : AEnv) (lv : LValue) (un : Option MType) (isStatic : Bool) :
    k12_Fr (parseAttributes env lv un isStatic) := by
  unfold parseAttributes
  k12_fr [k12_createAttributeV_fr, k12_parseAttributes_go_fr]

theorem k12_enterAssignment_go_fr (env : AEnv) (a : Assignment) : (l : List LValue) → k12_Fr (enterAssignment.go env a l)
  | [] => by unfold enterAssignment.go; k12_fr []
  | lv :: rest => by
    have ih := k12_enterAssignment_go_fr env a rest
    unfold enterAssignment.go; k12_fr [k12_parseAttributes_fr]


/-! ### output facts -/

structure k12_Outs {α : Type} (x : V α) (P : α → Prop) : Prop where
  run : ∀ (s : VSt) (a : α) (s' : VSt), x s = .ok (a, s') → P a

namespace k12_Outs
variable {α β : Type}

theorem pure {P : α → Prop} {a : α} (h : P a) : k12_Outs (Pure.pure a : V α) P := by
  refine ⟨fun s b s' h' => ?_⟩
  obtain ⟨rfl, _⟩ := k12_pure_ok h'
  exact h

theorem throw {P : α → Prop} (e : PyErr) : k12_Outs (throwV e : V α) P := ⟨fun _ _ _ h => (k12_throw_ok h).elim⟩

theorem bind {P : β → Prop} {x : V α} {f : α → V β} (hf : ∀ a, k12_Outs (f a) P) : k12_Outs (x >>= f) P := by
  refine ⟨fun s b s' h => ?_⟩
  obtain ⟨a, s1, _, h2⟩ := k12_bind_ok h
  exact (hf a).run s1 b s' h2

theorem bind' {Q : α → Prop} {P : β → Prop} {x : V α} {f : α → V β} (hx : k12_Outs x Q) (hf : ∀ a, Q a → k12_Outs (f a) P) :
    k12_Outs (x >>= f) P := by
  refine ⟨fun s b s' h => ?_⟩
  obtain ⟨a, s1, h1, h2⟩ := k12_bind_ok h
  exact (hf a (hx.run s a s1 h1)).run s1 b s' h2

end k12_Outs

open Lean in
macro "k12_outs" "[" ls:term,* "]" : tactic => do
  let alts ← ls.getElems.mapM fun l => `(tacticSeq| apply $l)
  `(tactic| repeat' (first
      | with_reducible exact k12_Outs.throw _
      | with_reducible assumption
      $[| with_reducible $alts:tacticSeq]*
      | with_reducible apply k12_Outs.bind
      | with_reducible apply k12_Outs.pure
      | intro _
      | split
      | dsimp only))

theorem k12_parseParameter_out (env : AEnv) (f : FuncDef) (fid : String) (a : Arg) :
    k12_Outs (parseParameter env f fid a) (fun p => p.id = fid ++ "/" ++ a.name ∧ p.name = a.name) := by
  unfold parseParameter
  k12_outs []
  all_goals exact ⟨rfl, rfl⟩


theorem k12_parseParameters_out (env : AEnv) (f : FuncDef) (fid : String) : (as : List Arg) →
    k12_Outs (parseParameters env f fid as)
      (fun ps => ps.map (·.name) = as.map (·.name) ∧ ∀ p ∈ ps, p.id = fid ++ "/" ++ p.name)
  | [] => by
    unfold parseParameters
    exact k12_Outs.pure ⟨rfl, fun _ h => absurd h List.not_mem_nil⟩
  | a :: as => by
    unfold parseParameters
    refine k12_Outs.bind' (k12_parseParameter_out env f fid a) (fun p hp => ?_)
    refine k12_Outs.bind' (k12_parseParameters_out env f fid as) (fun ps hps => ?_)
    refine k12_Outs.pure ⟨?_, ?_⟩
    · simp only [List.map_cons, hp.2, hps.1]
    · intro q hq
      rcases List.mem_cons.1 hq with rfl | hq
      · rw [hp.1, hp.2]
      · exact hps.2 q hq

theorem k12_reconcileParameter_out (env : AEnv) (fid : String) (p : Parameter) :
    k12_Outs (reconcileParameter env fid p) (fun q => q.id = p.id ∧ q.name = p.name) := by
  unfold reconcileParameter
  k12_outs []
  all_goals exact ⟨rfl, rfl⟩

theorem k12_reconcileParameters_out (env : AEnv) (fid : String) : (ps : List Parameter) →
    k12_Outs (reconcileParameters env fid ps) (fun qs => qs.map (·.name) = ps.map (·.name) ∧ qs.map (·.id) = ps.map (·.id))
  | [] => by
    unfold reconcileParameters
    exact k12_Outs.pure ⟨rfl, rfl⟩
  | a :: as => by
    unfold reconcileParameters
    refine k12_Outs.bind' (k12_reconcileParameter_out env fid a) (fun p hp => ?_)
    refine k12_Outs.bind' (k12_reconcileParameters_out env fid as) (fun ps hps => ?_)
    refine k12_Outs.pure ⟨?_, ?_⟩
    · simp only [List.map_cons, hp.2, hps.1]
    · simp only [List.map_cons, hp.1, hps.2]

/-- the results of function `fid` carry ids `fid/<name>` -/
structure k12_ResForm (fid : String) (rs : List Result) : Prop where
  all : ∀ r ∈ rs, r.id = fid ++ "/" ++ r.name

theorem k12_ResForm.nil (fid : String) : k12_ResForm fid [] := ⟨fun _ h => absurd h List.not_mem_nil⟩

theorem k12_ResForm.snoc {fid : String} {rs : List Result} (h : k12_ResForm fid rs) (name : String) (t : Option AType) :
    k12_ResForm fid (rs ++ [{ id := fid ++ "/" ++ name, name := name, type := t }]) := by
  refine ⟨fun r hr => ?_⟩
  rcases List.mem_append.1 hr with hr | hr
  · exact h.all r hr
  · rw [List.mem_singleton.1 hr]

theorem k12_foldl_inv {α β : Type} (P : β → Prop) (f : β → α → β) (hf : ∀ b a, P b → P (f b a)) :
    ∀ (l : List α) (b : β), P b → P (l.foldl f b)
  | [], _, h => h
  | a :: l, b, h => k12_foldl_inv P f hf l (f b a) (hf b a h)

theorem k12_createInferredResults_out {types : List AType} {docs : List ResultDoc} {fid : String} {rs : List Result}
    (h : createInferredResults types docs fid = .ok rs) : k12_ResForm fid rs := by
  unfold createInferredResults at h
  dsimp only at h
  split at h
  · exact absurd h (by simp)
  · split at h
    · simp only [Except.ok.injEq] at h
      subst h
      exact (k12_ResForm.nil fid).snoc _ _
    · simp only [Except.ok.injEq] at h
      subst h
      refine k12_foldl_inv (fun (acc : List Result × Nat) => k12_ResForm fid acc.1) _ ?_ _ _ (k12_ResForm.nil fid)
      intro b a hb
      obtain ⟨out, k⟩ := b
      dsimp only
      split <;> exact k12_ResForm.snoc hb _ _


theorem k12_parseResults_out (env : AEnv) (f : FuncDef) (fid : String) (docs : List ResultDoc) :
    k12_Outs (parseResults env f fid docs) (k12_ResForm fid) := by
  unfold parseResults
  k12_outs []
  all_goals first
    | exact k12_ResForm.nil fid
    | exact k12_createInferredResults_out ‹_›
    | (refine k12_foldl_inv (fun (acc : List Result × Nat) => k12_ResForm fid acc.1) _ ?_ _ _ (k12_ResForm.nil fid)
       intro b a hb
       obtain ⟨out, k⟩ := b
       dsimp only
       repeat' split
       all_goals exact k12_ResForm.snoc hb _ _)

theorem k12_ResForm.mapIdx {fid : String} {rs : List Result} (h : k12_ResForm fid rs) (i : Nat) (t : Option AType) :
    k12_ResForm fid (rs.mapIdx (fun k x => if k == i then { x with type := t } else x)) := by
  refine ⟨fun r hr => ?_⟩
  rw [List.mem_mapIdx] at hr
  obtain ⟨k, hk, rfl⟩ := hr
  have := h.all _ (List.getElem_mem hk)
  split
  · exact this
  · exact this

theorem k12_reconcileResults_out (env : AEnv) (fid : String) : (ds : List ResultDoc) → (i : Nat) → (all rs : List Result) →
    k12_ResForm fid all → k12_Outs (reconcileResults env fid i all rs ds) (k12_ResForm fid)
  | [], i, all, rs, h => by unfold reconcileResults; exact k12_Outs.pure h
  | d :: ds, i, all, rs, h => by
    have ih := k12_reconcileResults_out env fid ds
    unfold reconcileResults
    k12_outs [ih]
    all_goals first
      | exact k12_ResForm.snoc h _ _
      | exact k12_ResForm.mapIdx h _ _


/-! ### the declaration stack -/

/-- the id segments of a declaration stack, bottom first -/
def k12_segs (stk : List Frame) : List String := stk.reverse.filterMap frameSegment

theorem k12_createId_eq (s : VSt) (name : String) : createId s name = joinWith "/" (k12_segs s.stack ++ [name]) := rfl

/-- what `enter_funcdef` guarantees about the function it pushes -/
structure k12_FnOk (stk : List Frame) (fn : Function) : Prop where
  id_eq : fn.id = joinWith "/" (k12_segs stk ++ [fn.name])
  params : ∀ p ∈ fn.params, p.id = fn.id ++ "/" ++ p.name
  results : ∀ r ∈ fn.results, r.id = fn.id ++ "/" ++ r.name

/-- the recorded function carries the flags and parameter names of the source definition -/
structure k12_FnMatch (f : FuncDef) (fn : Function) : Prop where
  name : fn.name = f.name
  isStatic : fn.isStatic = f.isStatic
  isClassMethod : fn.isClassMethod = f.isClass
  isProperty : fn.isProperty = f.isProperty
  params : fn.params.map (·.name) = f.args.map (·.name)

theorem k12_isPublicV_ok_ne_nil {s : VSt} {n q : String} {b : Bool} (h : isPublicV s n q = .ok b) : s.stack ≠ [] := by
  intro he
  unfold isPublicV parentKind at h
  rw [he] at h
  simp at h

theorem k12_get_bind_ok {β : Type} {f : VSt → V β} {s s' : VSt} {b : β} (h : (get >>= f) s = .ok (b, s')) :
    f s s = .ok (b, s') := by
  obtain ⟨a, s1, h1, h2⟩ := k12_bind_ok h
  obtain ⟨e1, e2⟩ := k12_get_ok h1
  rw [e1, e2] at h2
  exact h2

theorem k12_enterFuncdef_ok {env : AEnv} {f : FuncDef} {s s' : VSt} {u : Unit} (h : enterFuncdef env f s = .ok (u, s')) :
    ∃ fn, s'.api = s.api ∧ s'.stack = .fn fn :: s.stack ∧ k12_FnOk s.stack fn ∧ k12_FnMatch f fn ∧ s.stack ≠ [] := by
  unfold enterFuncdef at h
  have hh := k12_get_bind_ok h; clear h; have h := hh; clear hh
  have hh := k12_bind_ok h; clear h; obtain ⟨pub, t1, h1, h⟩ := hh
  have hne : s.stack ≠ [] ∧ t1 = s := by
    cases hp : isPublicV s f.name f.fullname with
    | ok b =>
      rw [hp] at h1
      obtain ⟨_, e⟩ := k12_pure_ok h1
      exact ⟨k12_isPublicV_ok_ne_nil hp, e⟩
    | error e =>
      rw [hp] at h1
      exact (k12_throw_ok h1).elim
  obtain ⟨hne, e1⟩ := hne
  rw [e1] at h
  have hh := k12_bind_ok h; clear h; obtain ⟨doc, t2, h2, h⟩ := hh
  have e2 := (k12_functionDocumentation_fr env f).run _ _ _ h2
  have hh := k12_bind_ok h; clear h; obtain ⟨_, t3, h3, h⟩ := hh
  have e3 : t3.api = t2.api ∧ t3.stack = t2.stack := by rw [k12_modify_ok h3]; exact ⟨rfl, rfl⟩
  have hh := k12_bind_ok h; clear h; obtain ⟨params, t4, h4, h⟩ := hh
  have e4 := (k12_parseParameters_fr env f _ f.args).run _ _ _ h4
  have o4 := (k12_parseParameters_out env f _ f.args).run _ _ _ h4
  have hh := k12_get_bind_ok h; clear h; have h := hh; clear hh
  have hh := k12_bind_ok h; clear h; obtain ⟨params', t6, h6, h⟩ := hh
  have e6 := (k12_reconcileParameters_fr env _ params).run _ _ _ h6
  have o6 := (k12_reconcileParameters_out env _ params).run _ _ _ h6
  have hh := k12_bind_ok h; clear h; obtain ⟨rdocs, t7, h7, h⟩ := hh
  have e7 := (k12_resultDocumentation_fr env f.fullname).run _ _ _ h7
  have hh := k12_bind_ok h; clear h; obtain ⟨results, t8, h8, h⟩ := hh
  have e8 := (k12_parseResults_fr env f _ rdocs).run _ _ _ h8
  have o8 := (k12_parseResults_out env f _ rdocs).run _ _ _ h8
  have hh := k12_bind_ok h; clear h; obtain ⟨results', t9, h9, h⟩ := hh
  have e9 := (k12_reconcileResults_fr env _ rdocs 0 results results).run _ _ _ h9
  have o9 := (k12_reconcileResults_out env _ rdocs 0 results results o8).run _ _ _ h9
  have hh := k12_get_bind_ok h; clear h; have h := hh; clear hh
  have hs' := k12_modify_ok h
  have eapi : t9.api = s.api := by
    rw [e9.1, e8.1, e7.1, e6.1, e4.1, e3.1, e2.1]
  have estk : t9.stack = s.stack := by
    rw [e9.2, e8.2, e7.2, e6.2, e4.2, e3.2, e2.2]
  refine ⟨_, by rw [hs']; exact eapi, by rw [hs']; dsimp only; rw [estk], ⟨?_, ?_, ?_⟩, ⟨rfl, rfl, rfl, rfl, ?_⟩, hne⟩
  · exact k12_createId_eq s f.name
  · intro p hp
    dsimp only at hp ⊢
    obtain ⟨i, hi, rfl⟩ := List.getElem_of_mem hp
    have hi' : i < params.length := by
      have := congrArg List.length o6.1
      simp only [List.length_map] at this
      omega
    have hid : params'[i].id = params[i].id := by
      have := o6.2
      have h1 := List.getElem_map (f := fun (p : Parameter) => p.id) (l := params') (i := i) (h := by simpa using hi)
      have h2 := List.getElem_map (f := fun (p : Parameter) => p.id) (l := params) (i := i) (h := by simpa using hi')
      rw [← h1, ← h2]
      simp only [this]
    have hnm : params'[i].name = params[i].name := by
      have := o6.1
      have h1 := List.getElem_map (f := fun (p : Parameter) => p.name) (l := params') (i := i) (h := by simpa using hi)
      have h2 := List.getElem_map (f := fun (p : Parameter) => p.name) (l := params) (i := i) (h := by simpa using hi')
      rw [← h1, ← h2]
      simp only [this]
    rw [hid, hnm]
    exact o4.2 _ (List.getElem_mem hi')
  · exact o9.all
  · dsimp only
    rw [o6.1, o4.1]


structure k12_ClsOk (stk : List Frame) (c : Class) : Prop where
  id_eq : c.id = joinWith "/" (k12_segs stk ++ [c.name])
  classes : c.classes = []
  methods : c.methods = []
  ctor : c.ctor = none
  attributes : c.attributes = []

structure k12_EnumOk (stk : List Frame) (e : Enum) : Prop where
  id_eq : e.id = joinWith "/" (k12_segs stk ++ [e.name])
  instances : e.instances = []

theorem k12_enterClassdef_ok {env : AEnv} {name fullname : String} {bases removed : List BaseExpr} {defs : List Def}
    {s s' : VSt} {u : Unit} (h : enterClassdef env name fullname bases removed defs s = .ok (u, s')) :
    ∃ c, s'.api = s.api ∧ s'.stack = .cls c :: s.stack ∧ k12_ClsOk s.stack c ∧ c.name = name ∧ s.stack ≠ [] := by
  unfold enterClassdef at h
  have hh := k12_get_bind_ok h; clear h; have h := hh; clear hh
  have hh := k12_bind_ok h; clear h; obtain ⟨doc, t1, h1, h⟩ := hh
  have e1 := (k12_classDocumentation_fr env fullname defs).run _ _ _ h1
  have hh := k12_bind_ok h; clear h; obtain ⟨tps, t2, h2, h⟩ := hh
  have e2 := (by k12_fr [k12_typeParameters_fr] : k12_Fr _).run _ _ _ h2
  have hh := k12_get_bind_ok h; clear h; have h := hh; clear hh
  have hh := k12_bind_ok h; clear h; obtain ⟨supers, t3, h3, h⟩ := hh
  have e3 := (by k12_fr [k12_Fr.mapM] : k12_Fr _).run _ _ _ h3
  have hh := k12_bind_ok h; clear h; obtain ⟨_, t4, h4, h⟩ := hh
  have e4 := (k12_ctorFullDoc_fr env defs).run _ _ _ h4
  have hh := k12_get_bind_ok h; clear h; have h := hh; clear hh
  have hh := k12_bind_ok h; clear h; obtain ⟨pub, t5, h5, h⟩ := hh
  have estk : t4.stack = s.stack := by rw [e4.2, e3.2, e2.2, e1.2]
  have eapi : t4.api = s.api := by rw [e4.1, e3.1, e2.1, e1.1]
  have hne : s.stack ≠ [] ∧ t5 = t4 := by
    cases hp : isPublicV t4 name fullname with
    | ok b =>
      rw [hp] at h5
      obtain ⟨_, e⟩ := k12_pure_ok h5
      exact ⟨estk ▸ k12_isPublicV_ok_ne_nil hp, e⟩
    | error e =>
      rw [hp] at h5
      exact (k12_throw_ok h5).elim
  obtain ⟨hne, e5⟩ := hne
  rw [e5] at h
  have hs' := k12_modify_ok h
  refine ⟨_, by rw [hs']; exact eapi, by rw [hs']; dsimp only; rw [estk], ⟨?_, rfl, rfl, rfl, rfl⟩, rfl, hne⟩
  exact k12_createId_eq s name

theorem k12_enterEnumdef_ok {env : AEnv} {name fullname : String} {defs : List Def}
    {s s' : VSt} {u : Unit} (h : enterEnumdef env name fullname defs s = .ok (u, s')) :
    ∃ e, s'.api = s.api ∧ s'.stack = .enum e :: s.stack ∧ k12_EnumOk s.stack e ∧ e.name = name := by
  unfold enterEnumdef at h
  have hh := k12_get_bind_ok h; clear h; have h := hh; clear hh
  have hh := k12_bind_ok h; clear h; obtain ⟨doc, t1, h1, h⟩ := hh
  have e1 := (k12_classDocumentation_fr env fullname defs).run _ _ _ h1
  have hs' := k12_modify_ok h
  refine ⟨_, by rw [hs']; exact e1.1, by rw [hs']; dsimp only; rw [e1.2], ⟨?_, rfl⟩, rfl⟩
  exact k12_createId_eq s name

theorem k12_enterModuledef_ok {m : SrcModule} {s s' : VSt} {u : Unit} (h : enterModuledef m s = .ok (u, s')) :
    ∃ md, s'.stack = .module md :: s.stack ∧ (∃ rm, s'.api = { s.api with reexportMap := rm }) ∧
      md.id = replaceChar m.fullname '.' "/" ∧ md.classes = [] ∧ md.functions = [] ∧ md.enums = [] := by
  unfold enterModuledef at h
  have hs' := k12_modify_ok h
  rw [hs']
  refine ⟨_, rfl, ?_, rfl, rfl, rfl, rfl⟩
  dsimp only
  split
  · exact ⟨_, rfl⟩
  · exact ⟨s.api.reexportMap, rfl⟩


/-! ### attributes and enum instances: what `enter_assignmentstmt` collects -/

/-- output facts that may mention the (unchanged) declaration stack -/
structure k12_OutS {α : Type} (x : V α) (P : List Frame → α → Prop) : Prop where
  run : ∀ (s : VSt) (a : α) (s' : VSt), x s = .ok (a, s') → P s.stack a

namespace k12_OutS
variable {α β : Type}

theorem pure {P : List Frame → α → Prop} {a : α} (h : ∀ stk, P stk a) : k12_OutS (Pure.pure a : V α) P := by
  refine ⟨fun s b s' h' => ?_⟩
  obtain ⟨rfl, _⟩ := k12_pure_ok h'
  exact h _

theorem throw {P : List Frame → α → Prop} (e : PyErr) : k12_OutS (throwV e : V α) P :=
  ⟨fun _ _ _ h => (k12_throw_ok h).elim⟩

theorem bind {P : List Frame → β → Prop} {x : V α} {f : α → V β} (hx : k12_Fr x) (hf : ∀ a, k12_OutS (f a) P) :
    k12_OutS (x >>= f) P := by
  refine ⟨fun s b s' h => ?_⟩
  obtain ⟨a, s1, h1, h2⟩ := k12_bind_ok h
  have := (hf a).run s1 b s' h2
  rw [(hx.run s a s1 h1).2] at this
  exact this

theorem bind' {Q : List Frame → α → Prop} {P : List Frame → β → Prop} {x : V α} {f : α → V β} (hx : k12_Fr x)
    (hq : k12_OutS x Q) (hf : ∀ a, k12_OutS (f a) (fun stk b => Q stk a → P stk b)) : k12_OutS (x >>= f) P := by
  refine ⟨fun s b s' h => ?_⟩
  obtain ⟨a, s1, h1, h2⟩ := k12_bind_ok h
  have := (hf a).run s1 b s' h2
  rw [(hx.run s a s1 h1).2] at this
  exact this (hq.run s a s1 h1)

theorem get_bind {P : List Frame → β → Prop} {f : VSt → V β}
    (hf : ∀ s0, k12_OutS (f s0) (fun stk b => s0.stack = stk → P stk b)) : k12_OutS (get >>= f) P := by
  refine ⟨fun s b s' h => ?_⟩
  have h2 := k12_get_bind_ok h
  exact (hf s).run s b s' h2 rfl

theorem throw_bind {P : List Frame → β → Prop} {e : PyErr} {f : α → V β} : k12_OutS (throwV e >>= f) P := by
  refine ⟨fun s b s' h => ?_⟩
  obtain ⟨a, s1, h1, _⟩ := k12_bind_ok h
  exact (k12_throw_ok h1).elim

end k12_OutS

/-- the id of the class that owns the attributes assigned at this point of the walk: the class on top of the stack,
    or the class directly below the function on top of the stack -/
def k12_ownerId : List Frame → Option String
  | .fn _ :: .cls c :: _ => some c.id
  | .cls c :: _ => some c.id
  | _ => none

/-- the id `_create_attribute` computes on the stack `stk`: `<id of the owning class>/<name>` -/
def k12_AttrOk (stk : List Frame) (a : Attribute) : Prop :=
  ∃ o, k12_ownerId stk = some o ∧ a.id = o ++ "/" ++ a.name

theorem k12_parentId_ok {stk : List Frame} {s s' : VSt} {pid : String}
    (h : (match stk with
      | .fn f :: .cls c :: _ => if f.name == "__init__" then pure c.id else throwV .assertionError
      | .cls c :: _ => pure c.id
      | _ => throwV .assertionError : V String) s = .ok (pid, s')) : k12_ownerId stk = some pid ∧ s' = s := by
  split at h
  · split at h
    · obtain ⟨rfl, e⟩ := k12_pure_ok h
      exact ⟨rfl, e⟩
    · exact (k12_throw_ok h).elim
  · obtain ⟨rfl, e⟩ := k12_pure_ok h
    exact ⟨rfl, e⟩
  · exact (k12_throw_ok h).elim

theorem k12_createAttributeV_out (env : AEnv) (isMember : Bool) (name fullname : String) (isVar : Bool) (var : Option VarInfo)
    (un : Option MType) (isStatic : Bool) :
    k12_OutS (createAttributeV env isMember name fullname isVar var un isStatic) (fun stk a => k12_AttrOk stk a) := by
  refine ⟨fun s a s' h => ?_⟩
  unfold createAttributeV at h
  dsimp only at h
  by_cases hc : (!isVar && name == "") = true
  · rw [if_pos hc] at h
    obtain ⟨_, _, h1, _⟩ := k12_bind_ok h
    exact (k12_throw_ok h1).elim
  rw [if_neg hc] at h
  have hh := k12_bind_ok h; clear h; obtain ⟨ty, t1, h1, h⟩ := hh
  have e1 := (by k12_fr [k12_toAbstract_fr] : k12_Fr _).run _ _ _ h1
  have hh := k12_get_bind_ok h; clear h; have h := hh; clear hh
  have hh := k12_bind_ok h; clear h; obtain ⟨pid, t2, h2, h⟩ := hh
  have e2 := k12_parentId_ok h2
  have hh := k12_bind_ok h; clear h; obtain ⟨doc, t3, h3, h⟩ := hh
  have hh := k12_get_bind_ok h; clear h; have h := hh; clear hh
  have hh := k12_bind_ok h; clear h; obtain ⟨pub, t4, h4, h⟩ := hh
  obtain ⟨rfl, _⟩ := k12_pure_ok h
  refine ⟨pid, ?_, rfl⟩
  rw [← e1.2]
  exact e2.1

/-- what `enter_assignmentstmt` guarantees about a collected item -/
def k12_ItemOk (stk : List Frame) : AssignItem → Prop
  | .attr a => k12_AttrOk stk a
  | .inst e => ∀ en rest, stk = .enum en :: rest → e.id = en.id ++ "/" ++ e.name

structure k12_AttrsOk (stk : List Frame) (as : List Attribute) : Prop where
  all : ∀ a ∈ as, k12_AttrOk stk a

structure k12_ItemsOk (stk : List Frame) (items : List AssignItem) : Prop where
  all : ∀ it ∈ items, k12_ItemOk stk it

theorem k12_AttrsOk.nil (stk : List Frame) : k12_AttrsOk stk [] := ⟨fun _ h => absurd h List.not_mem_nil⟩
theorem k12_ItemsOk.nil (stk : List Frame) : k12_ItemsOk stk [] := ⟨fun _ h => absurd h List.not_mem_nil⟩

theorem k12_AttrsOk.append {stk : List Frame} {a b : List Attribute} (ha : k12_AttrsOk stk a) (hb : k12_AttrsOk stk b) :
    k12_AttrsOk stk (a ++ b) :=
  ⟨fun x hx => (List.mem_append.1 hx).elim (ha.all x) (hb.all x)⟩

theorem k12_ItemsOk.append {stk : List Frame} {a b : List AssignItem} (ha : k12_ItemsOk stk a) (hb : k12_ItemsOk stk b) :
    k12_ItemsOk stk (a ++ b) :=
  ⟨fun x hx => (List.mem_append.1 hx).elim (ha.all x) (hb.all x)⟩

theorem k12_AttrsOk.items {stk : List Frame} {as : List Attribute} (h : k12_AttrsOk stk as) :
    k12_ItemsOk stk (as.map AssignItem.attr) := by
  refine ⟨fun it hit => ?_⟩
  obtain ⟨a, ha, rfl⟩ := List.mem_map.1 hit
  exact h.all a ha

theorem k12_parseAttributes_one_out (env : AEnv) (un : Option MType) (isStatic : Bool) (isMember : Bool)
    (name fullname : String) (isVar : Bool) (var : Option VarInfo) :
    k12_OutS (do
      let s ← get
      match attributeAlreadyDefined s name with
      | .error e => throwV e
      | .ok true => pure []
      | .ok false =>
        if isMember && !isVar then pure []
        else do
          let a ← createAttributeV env isMember name fullname isVar var un isStatic
          pure [a] : V (List Attribute)) k12_AttrsOk := by
  refine k12_OutS.get_bind (fun s0 => ?_)
  split
  · exact k12_OutS.throw _
  · exact k12_OutS.pure (fun stk _ => k12_AttrsOk.nil stk)
  · split
    · exact k12_OutS.pure (fun stk _ => k12_AttrsOk.nil stk)
    · refine k12_OutS.bind' (k12_createAttributeV_fr ..) (k12_createAttributeV_out ..) (fun a => ?_)
      refine k12_OutS.pure ?_
      intro stk ha _
      refine ⟨fun x hx => ?_⟩
      rw [List.mem_singleton.1 hx]
      exact ha

theorem k12_parseAttributes_go_out (one : Bool → String → String → Bool → Option VarInfo → V (List Attribute))
    (h1 : ∀ a b c d e, k12_Fr (one a b c d e)) (h2 : ∀ a b c d e, k12_OutS (one a b c d e) k12_AttrsOk) :
    (l : List LValue) → k12_OutS (parseAttributes.go one l) k12_AttrsOk
  | [] => by unfold parseAttributes.go; exact k12_OutS.pure (fun stk => k12_AttrsOk.nil stk)
  | .name n fq isVar var :: rest => by
    have ih := k12_parseAttributes_go_out one h1 h2 rest
    unfold parseAttributes.go
    refine k12_OutS.bind' (h1 ..) (h2 ..) (fun a => ?_)
    refine k12_OutS.bind' (k12_parseAttributes_go_fr one h1 rest) ih (fun r => ?_)
    refine k12_OutS.pure ?_
    intro stk hr ha
    exact ha.append hr
  | .member n fq isVar var :: rest => by
    have ih := k12_parseAttributes_go_out one h1 h2 rest
    unfold parseAttributes.go
    refine k12_OutS.bind' (h1 ..) (h2 ..) (fun a => ?_)
    refine k12_OutS.bind' (k12_parseAttributes_go_fr one h1 rest) ih (fun r => ?_)
    refine k12_OutS.pure ?_
    intro stk hr ha
    exact ha.append hr
  | .tuple _ :: rest | .other :: rest => by
    have ih := k12_parseAttributes_go_out one h1 h2 rest
    unfold parseAttributes.go
    exact ih

theorem k12_parseAttributes_out (env : AEnv) (lv : LValue) (un : Option MType) (isStatic : Bool) :
    k12_OutS (parseAttributes env lv un isStatic) k12_AttrsOk := by
  unfold parseAttributes
  dsimp only
  split
  · exact k12_parseAttributes_one_out ..
  · exact k12_parseAttributes_one_out ..
  · refine k12_parseAttributes_go_out _ ?_ ?_ _
    · intro a b c d e; exact k12_parseAttributes_one_fr env un isStatic a b c d e
    · intro a b c d e; exact k12_parseAttributes_one_out env un isStatic a b c d e
  · exact k12_OutS.pure (fun stk => k12_AttrsOk.nil stk)

theorem k12_enterAssignment_go_out (env : AEnv) (a : Assignment) : (l : List LValue) →
    k12_OutS (enterAssignment.go env a l) k12_ItemsOk
  | [] => by unfold enterAssignment.go; exact k12_OutS.pure (fun stk => k12_ItemsOk.nil stk)
  | lv :: rest => by
    have ih := k12_enterAssignment_go_out env a rest
    unfold enterAssignment.go
    refine k12_OutS.get_bind (fun s0 => ?_)
    have hhere : k12_OutS (match s0.stack with
        | .cls _ :: _ => do let as ← parseAttributes env lv a.unanalyzedType true; pure (as.map AssignItem.attr)
        | .fn f :: .cls _ :: _ =>
          if f.name == "__init__" && !isNameLValue lv then do
            let as ← parseAttributes env lv a.unanalyzedType false; pure (as.map AssignItem.attr)
          else pure []
        | .enum e :: _ =>
          (match lvalueNames lv with
           | .error err => throwV err
           | .ok ns => pure (ns.map fun n => AssignItem.inst { id := e.id ++ "/" ++ n, name := n }))
        | _ => pure [] : V (List AssignItem)) (fun stk items => s0.stack = stk → k12_ItemsOk stk items) := by
      split
      · refine k12_OutS.bind' (k12_parseAttributes_fr ..) (k12_parseAttributes_out ..) (fun as => ?_)
        refine k12_OutS.pure ?_
        intro stk has _
        exact has.items
      · split
        · refine k12_OutS.bind' (k12_parseAttributes_fr ..) (k12_parseAttributes_out ..) (fun as => ?_)
          refine k12_OutS.pure ?_
          intro stk has _
          exact has.items
        · exact k12_OutS.pure (fun stk _ => k12_ItemsOk.nil stk)
      · split
        · exact k12_OutS.throw _
        · refine k12_OutS.pure ?_
          intro stk hstk
          refine ⟨fun it hit => ?_⟩
          obtain ⟨n, _, rfl⟩ := List.mem_map.1 hit
          intro en rest' he
          rename_i e0 tl0 hs0 _ _ _ _
          have he2 : Frame.enum e0 :: tl0 = Frame.enum en :: rest' := by rw [← hs0, hstk, he]
          simp only [List.cons.injEq, Frame.enum.injEq] at he2
          dsimp only
          rw [he2.1]
      · exact k12_OutS.pure (fun stk _ => k12_ItemsOk.nil stk)
    refine k12_OutS.bind' (by k12_fr [k12_parseAttributes_fr]) hhere (fun here => ?_)
    refine k12_OutS.bind' (k12_enterAssignment_go_fr env a rest) ih (fun more => ?_)
    refine k12_OutS.pure ?_
    intro stk hmore hhere' hs0
    exact (hhere' hs0).append hmore

theorem k12_enterAssignment_ok {env : AEnv} {a : Assignment} {s s' : VSt} {u : Unit} (h : enterAssignment env a s = .ok (u, s')) :
    ∃ items, s'.api = s.api ∧ s'.stack = .assigns items :: s.stack ∧ k12_ItemsOk s.stack items := by
  unfold enterAssignment at h
  have hh := k12_bind_ok h; clear h; obtain ⟨items, t1, h1, h⟩ := hh
  have e1 := (k12_enterAssignment_go_fr env a a.lvalues).run _ _ _ h1
  have o1 := (k12_enterAssignment_go_out env a a.lvalues).run _ _ _ h1
  have hs' := k12_modify_ok h
  exact ⟨items, by rw [hs']; exact e1.1, by rw [hs']; dsimp only; rw [e1.2], o1⟩


/-! ### the abstract transitions of tables and declaration stack -/

/-- `leave_funcdef`: the function, its results and its parameters go into the tables -/
def k12_apiAddFn (api : AnaResult) (f : Function) : AnaResult :=
  { api with functions := dictSet (·.id) api.functions f,
             results := f.results.foldl (dictSet (·.id)) api.results,
             parameters := f.params.foldl (dictSet (·.id)) api.parameters }

/-- `leave_funcdef`: the owner frame takes the function -/
def k12_fnParent (f : Function) : Frame → Frame
  | .module m => .module { m with functions := m.functions ++ [f] }
  | .cls c => if f.name == "__init__" then .cls { c with ctor := some f } else .cls { c with methods := c.methods ++ [f] }
  | other => other

/-- one transition; the `List Function` is the list of functions written to the `functions` table, the `List Class`
    the list of classes written to the `classes` table -/
inductive k12_Step : AnaResult → List Frame → List Function → List Class → AnaResult → List Frame → Prop
  | reexp (api : AnaResult) (stk : List Frame) (rm : List (String × List ModRef)) :
      k12_Step api stk [] [] { api with reexportMap := rm } stk
  | pushModule (api : AnaResult) (stk : List Frame) (m : Module) :
      m.classes = [] → m.functions = [] → m.enums = [] → k12_Step api stk [] [] api (.module m :: stk)
  | popModule (api : AnaResult) (m : Module) (rest : List Frame) :
      k12_Step api (.module m :: rest) [] [] { api with modules := dictSet (·.id) api.modules m } rest
  | pushFn (api : AnaResult) (stk : List Frame) (fn : Function) :
      k12_FnOk stk fn → stk ≠ [] → k12_Step api stk [] [] api (.fn fn :: stk)
  | popFn (api : AnaResult) (f : Function) (parent : Frame) (up : List Frame) :
      k12_Step api (.fn f :: parent :: up) [f] [] (k12_apiAddFn api f) (k12_fnParent f parent :: up)
  | pushCls (api : AnaResult) (stk : List Frame) (c : Class) :
      k12_ClsOk stk c → stk ≠ [] → k12_Step api stk [] [] api (.cls c :: stk)
  | popClsM (api : AnaResult) (c : Class) (m : Module) (up : List Frame) :
      k12_Step api (.cls c :: .module m :: up) [] [c] { api with classes := dictSet (·.id) api.classes c }
        (.module { m with classes := m.classes ++ [c] } :: up)
  | popClsC (api : AnaResult) (c p : Class) (up : List Frame) :
      k12_Step api (.cls c :: .cls p :: up) [] [c] { api with classes := dictSet (·.id) api.classes c }
        (.cls { p with classes := p.classes ++ [c] } :: up)
  | pushEnum (api : AnaResult) (stk : List Frame) (e : Enum) :
      k12_EnumOk stk e → stk ≠ [] → k12_Step api stk [] [] api (.enum e :: stk)
  | popEnumM (api : AnaResult) (e : Enum) (m : Module) (up : List Frame) :
      k12_Step api (.enum e :: .module m :: up) [] [] { api with enums := dictSet (·.id) api.enums e }
        (.module { m with enums := m.enums ++ [e] } :: up)
  | dropEnum (api : AnaResult) (en : Enum) (rest : List Frame) : k12_Step api (.enum en :: rest) [] [] api rest
  | addAttrF (api : AnaResult) (f : Function) (c : Class) (up : List Frame) (a : Attribute) :
      a.id = c.id ++ "/" ++ a.name →
      k12_Step api (.fn f :: .cls c :: up) [] [] { api with attributes := dictSet (·.id) api.attributes a }
        (.fn f :: .cls { c with attributes := c.attributes ++ [a] } :: up)
  | addAttrC (api : AnaResult) (c : Class) (up : List Frame) (a : Attribute) :
      a.id = c.id ++ "/" ++ a.name →
      k12_Step api (.cls c :: up) [] [] { api with attributes := dictSet (·.id) api.attributes a }
        (.cls { c with attributes := c.attributes ++ [a] } :: up)
  | addInst (api : AnaResult) (en : Enum) (up : List Frame) (e : EnumInstance) :
      e.id = en.id ++ "/" ++ e.name →
      k12_Step api (.enum en :: up) [] [] { api with enumInstances := dictSet (·.id) api.enumInstances e }
        (.enum { en with instances := en.instances ++ [e] } :: up)

inductive k12_Steps : AnaResult → List Frame → List Function → List Class → AnaResult → List Frame → Prop
  | refl (api : AnaResult) (stk : List Frame) : k12_Steps api stk [] [] api stk
  | cons {a : AnaResult} {s : List Frame} {e1 : List Function} {c1 : List Class} {a1 : AnaResult} {s1 : List Frame}
      {e2 : List Function} {c2 : List Class} {a2 : AnaResult} {s2 : List Frame} {e : List Function} {c : List Class} :
      k12_Step a s e1 c1 a1 s1 → k12_Steps a1 s1 e2 c2 a2 s2 → e = e1 ++ e2 → c = c1 ++ c2 → k12_Steps a s e c a2 s2

theorem k12_Steps.one {a : AnaResult} {s : List Frame} {e : List Function} {c : List Class} {a1 : AnaResult} {s1 : List Frame}
    (h : k12_Step a s e c a1 s1) : k12_Steps a s e c a1 s1 :=
  .cons h (.refl _ _) (List.append_nil e).symm (List.append_nil c).symm

theorem k12_Steps.trans {a : AnaResult} {s : List Frame} {e1 : List Function} {c1 : List Class} {a1 : AnaResult}
    {s1 : List Frame} {e2 : List Function} {c2 : List Class} {a2 : AnaResult} {s2 : List Frame}
    (h1 : k12_Steps a s e1 c1 a1 s1) (h2 : k12_Steps a1 s1 e2 c2 a2 s2) :
    ∀ e c, e = e1 ++ e2 → c = c1 ++ c2 → k12_Steps a s e c a2 s2 := by
  induction h1 with
  | refl => intro e c he hc; rw [he, hc, List.nil_append, List.nil_append]; exact h2
  | cons hs _ he1 hc1 ih =>
    intro e c he hc
    refine .cons hs (ih h2 _ _ rfl rfl) ?_ ?_
    · rw [he, he1, List.append_assoc]
    · rw [hc, hc1, List.append_assoc]

theorem k12_Steps.trans0 {a : AnaResult} {s : List Frame} {a1 : AnaResult} {s1 : List Frame}
    {e2 : List Function} {c2 : List Class} {a2 : AnaResult} {s2 : List Frame}
    (h1 : k12_Steps a s [] [] a1 s1) (h2 : k12_Steps a1 s1 e2 c2 a2 s2) : k12_Steps a s e2 c2 a2 s2 :=
  h1.trans h2 _ _ (List.nil_append _).symm (List.nil_append _).symm

theorem k12_Steps.trans0' {a : AnaResult} {s : List Frame} {a1 : AnaResult} {s1 : List Frame}
    {e1 : List Function} {c1 : List Class} {a2 : AnaResult} {s2 : List Frame}
    (h1 : k12_Steps a s e1 c1 a1 s1) (h2 : k12_Steps a1 s1 [] [] a2 s2) : k12_Steps a s e1 c1 a2 s2 :=
  h1.trans h2 _ _ (List.append_nil _).symm (List.append_nil _).symm

/-- the kind of a frame: 0 module, 1 class, 2 function, 3 enum, 4 assignment -/
def k12_kind : Frame → Nat
  | .module _ => 0
  | .cls _ => 1
  | .fn _ => 2
  | .enum _ => 3
  | .assigns _ => 4

/-- the id of the declaration of a frame -/
def k12_frameId : Frame → String
  | .module m => m.id
  | .cls c => c.id
  | .fn f => f.id
  | .enum e => e.id
  | .assigns _ => ""

/-- kind, id segment and id of a frame -/
def k12_frameSig (fr : Frame) : Nat × Option String × String := (k12_kind fr, frameSegment fr, k12_frameId fr)

/-- the kinds, segments and ids of the frames (`k12_segs` is computed from the segments) -/
def k12_shape (stk : List Frame) : List (Nat × Option String × String) := stk.map k12_frameSig

theorem k12_segs_eq_of_shape {stk stk' : List Frame} (h : k12_shape stk = k12_shape stk') : k12_segs stk = k12_segs stk' := by
  unfold k12_segs
  have e : ∀ l : List Frame, l.reverse.filterMap frameSegment = ((l.map k12_frameSig).reverse).filterMap (·.2.1) := by
    intro l
    rw [← List.map_reverse, List.filterMap_map]
    rfl
  rw [e, e]
  unfold k12_shape at h
  rw [h]

theorem k12_fnParent_sig (f : Function) (p : Frame) : k12_frameSig (k12_fnParent f p) = k12_frameSig p := by
  cases p with
  | cls c =>
    show k12_frameSig (if f.name == "__init__" then _ else _) = _
    split <;> rfl
  | _ => rfl

theorem k12_fnParent_segment (f : Function) (p : Frame) : frameSegment (k12_fnParent f p) = frameSegment p :=
  congrArg (·.2.1) (k12_fnParent_sig f p)

/-- the kind of the top frame -/
def k12_topKind (stk : List Frame) : Option Nat := (k12_shape stk).head?.map (·.1)

theorem k12_topKind_of_shape {stk stk' : List Frame} (h : k12_shape stk' = k12_shape stk) : k12_topKind stk' = k12_topKind stk := by
  unfold k12_topKind; rw [h]

/-- a class definition is visited below a module or a class only -/
def k12_ParentOk (stk : List Frame) : Prop := k12_topKind stk = some 0 ∨ k12_topKind stk = some 1

theorem k12_ParentOk_cases {stk : List Frame} (h : k12_ParentOk stk) :
    (∃ m up, stk = .module m :: up) ∨ (∃ p up, stk = .cls p :: up) := by
  cases stk with
  | nil => rcases h with h | h <;> simp [k12_topKind, k12_shape] at h
  | cons fr up =>
    cases fr with
    | module m => exact Or.inl ⟨m, up, rfl⟩
    | cls p => exact Or.inr ⟨p, up, rfl⟩
    | _ => rcases h with h | h <;> simp [k12_topKind, k12_shape, k12_frameSig, k12_kind] at h

/-! ### the `leave_*` functions as transitions -/

theorem k12_leaveFuncdef_ok {s s' : VSt} {u : Unit} (h : leaveFuncdef s = .ok (u, s')) :
    ∃ f rest, s.stack = .fn f :: rest ∧ k12_shape s'.stack = k12_shape rest ∧
      ((rest = [] ∧ s'.api = s.api ∧ s'.stack = []) ∨
       (∃ parent up, rest = parent :: up ∧ s'.api = k12_apiAddFn s.api f ∧ s'.stack = k12_fnParent f parent :: up)) := by
  unfold leaveFuncdef at h
  have hh := k12_get_bind_ok h; clear h; have h := hh; clear hh
  cases hstk : s.stack with
  | nil => rw [hstk] at h; exact (k12_throw_ok h).elim
  | cons fr rest =>
    rw [hstk] at h
    cases fr with
    | fn f =>
      dsimp only at h
      cases rest with
      | nil =>
        have hs' := k12_set_ok h
        refine ⟨f, [], rfl, by rw [hs'], Or.inl ⟨rfl, by rw [hs'], by rw [hs']⟩⟩
      | cons parent up =>
        have hs' := k12_set_ok h
        refine ⟨f, parent :: up, rfl, ?_, Or.inr ⟨parent, up, rfl, ?_, ?_⟩⟩
        · rw [hs']
          show k12_shape (_ :: up) = _
          unfold k12_shape
          simp only [List.map_cons]
          congr 1
          exact k12_fnParent_sig f parent
        · rw [hs']; rfl
        · rw [hs']; rfl
    | _ => exact (k12_throw_ok h).elim


theorem k12_leaveClassdef_ok {s s' : VSt} {u : Unit} (h : leaveClassdef s = .ok (u, s'))
    (hk : ∀ c rest, s.stack = .cls c :: rest → k12_ParentOk rest) :
    ∃ c rest, s.stack = .cls c :: rest ∧ k12_shape s'.stack = k12_shape rest ∧
      k12_Step s.api s.stack [] [c] s'.api s'.stack := by
  unfold leaveClassdef at h
  have hh := k12_get_bind_ok h; clear h; have h := hh; clear hh
  cases hstk : s.stack with
  | nil => rw [hstk] at h; exact (k12_throw_ok h).elim
  | cons fr rest =>
    rw [hstk] at h
    cases fr with
    | cls c =>
      dsimp only at h
      refine ⟨c, rest, rfl, ?_⟩
      rcases k12_ParentOk_cases (hk c rest hstk) with ⟨m, up, rfl⟩ | ⟨p, up, rfl⟩
      · have hs' := k12_set_ok h
        rw [hs']
        exact ⟨rfl, k12_Step.popClsM _ _ _ _⟩
      · have hs' := k12_set_ok h
        rw [hs']
        exact ⟨rfl, k12_Step.popClsC _ _ _ _⟩
    | _ => exact (k12_throw_ok h).elim

theorem k12_leaveEnumdef_ok {s s' : VSt} {u : Unit} (h : leaveEnumdef s = .ok (u, s')) :
    ∃ e rest, s.stack = .enum e :: rest ∧ k12_shape s'.stack = k12_shape rest ∧
      k12_Step s.api s.stack [] [] s'.api s'.stack := by
  unfold leaveEnumdef at h
  have hh := k12_get_bind_ok h; clear h; have h := hh; clear hh
  cases hstk : s.stack with
  | nil => rw [hstk] at h; exact (k12_throw_ok h).elim
  | cons fr rest =>
    rw [hstk] at h
    cases fr with
    | enum e =>
      dsimp only at h
      refine ⟨e, rest, rfl, ?_⟩
      split at h
      · have hs' := k12_set_ok h
        rw [hs']
        exact ⟨rfl, k12_Step.popEnumM _ _ _ _⟩
      · have hs' := k12_set_ok h
        rw [hs']
        exact ⟨rfl, k12_Step.dropEnum _ _ _⟩
    | _ => exact (k12_throw_ok h).elim

theorem k12_leaveModuledef_ok {s s' : VSt} {u : Unit} (h : leaveModuledef s = .ok (u, s')) :
    ∃ m rest, s.stack = .module m :: rest ∧ s'.stack = rest ∧
      k12_Step s.api s.stack [] [] s'.api s'.stack := by
  unfold leaveModuledef at h
  have hh := k12_get_bind_ok h; clear h; have h := hh; clear hh
  cases hstk : s.stack with
  | nil => rw [hstk] at h; exact (k12_throw_ok h).elim
  | cons fr rest =>
    rw [hstk] at h
    cases fr with
    | module m =>
      dsimp only at h
      have hs' := k12_set_ok h
      rw [hs']
      exact ⟨m, rest, rfl, rfl, k12_Step.popModule _ _ _⟩
    | _ => exact (k12_throw_ok h).elim


theorem k12_foldl_inv_mem {α β : Type} (P : β → Prop) (f : β → α → β) :
    ∀ (l : List α) (b : β), (∀ b a, a ∈ l → P b → P (f b a)) → P b → P (l.foldl f b)
  | [], _, _, h => h
  | a :: l, b, hf, h =>
    k12_foldl_inv_mem P f l (f b a) (fun b' a' ha' => hf b' a' (List.mem_cons_of_mem _ ha'))
      (hf b a List.mem_cons_self h)

theorem k12_AttrOk_of_owner {stk stk' : List Frame} {a : Attribute} (h : k12_ownerId stk' = k12_ownerId stk)
    (ha : k12_AttrOk stk a) : k12_AttrOk stk' a := by
  unfold k12_AttrOk at ha ⊢
  rw [h]
  exact ha

theorem k12_AttrOk_fn {f : Function} {c : Class} {up : List Frame} {a : Attribute}
    (h : k12_AttrOk (.fn f :: .cls c :: up) a) : a.id = c.id ++ "/" ++ a.name := by
  obtain ⟨o, ho, hid⟩ := h
  have : c.id = o := Option.some.inj ho
  rw [this]; exact hid

theorem k12_AttrOk_cls {c : Class} {up : List Frame} {a : Attribute}
    (h : k12_AttrOk (.cls c :: up) a) : a.id = c.id ++ "/" ++ a.name := by
  obtain ⟨o, ho, hid⟩ := h
  have : c.id = o := Option.some.inj ho
  rw [this]; exact hid

/-- the invariant of the loop in `leave_assignmentstmt` -/
structure k12_AssignInv (api0 : AnaResult) (frames0 : List Frame) (st : AnaResult × List Frame) : Prop where
  steps : k12_Steps api0 frames0 [] [] st.1 st.2
  shape : k12_shape st.2 = k12_shape frames0
  top : ∀ en rest, st.2 = .enum en :: rest → ∃ en0 rest0, frames0 = .enum en0 :: rest0 ∧ en0.id = en.id
  topFn : ∀ f rest, frames0 = .fn f :: rest → ∃ rest', st.2 = .fn f :: rest'
  owner : k12_ownerId st.2 = k12_ownerId frames0

/-- facts about the final state -/
structure k12_Ends {α : Type} (x : V α) (Q : VSt → Prop) : Prop where
  run : ∀ (s : VSt) (a : α) (s' : VSt), x s = .ok (a, s') → Q s'

theorem k12_Ends.throw {α : Type} {Q : VSt → Prop} (e : PyErr) : k12_Ends (throwV e : V α) Q :=
  ⟨fun _ _ _ h => (k12_throw_ok h).elim⟩

theorem k12_Ends.bind {α β : Type} {Q : VSt → Prop} {x : V α} {f : α → V β} (hf : ∀ a, k12_Ends (f a) Q) :
    k12_Ends (x >>= f) Q := by
  refine ⟨fun s b s' h => ?_⟩
  obtain ⟨a, s1, _, h2⟩ := k12_bind_ok h
  exact (hf a).run s1 b s' h2

theorem k12_Ends.set {Q : VSt → Prop} {t : VSt} (h : Q t) : k12_Ends (set t : V PUnit) Q := by
  refine ⟨fun s b s' h' => ?_⟩
  rw [k12_set_ok h']
  exact h

theorem k12_leaveAssignment_ok {s s' : VSt} {u : Unit} (h : leaveAssignment s = .ok (u, s')) :
    ∃ items rest, s.stack = .assigns items :: rest ∧
      (k12_ItemsOk rest items → k12_Steps s.api rest [] [] s'.api s'.stack ∧ k12_shape s'.stack = k12_shape rest ∧
        ∀ f r, rest = .fn f :: r → ∃ r', s'.stack = .fn f :: r') := by
  unfold leaveAssignment at h
  have hh := k12_get_bind_ok h; clear h; have h := hh; clear hh
  cases hstk : s.stack with
  | nil => rw [hstk] at h; exact (k12_throw_ok h).elim
  | cons fr rest =>
    rw [hstk] at h
    cases fr with
    | assigns items =>
      dsimp only at h
      refine ⟨items, rest, rfl, fun hok => ?_⟩
      cases rest with
      | nil =>
        have hs' := k12_set_ok h
        rw [hs']
        exact ⟨k12_Steps.refl _ _, rfl, fun f r he => by simp at he⟩
      | cons parent up =>
        dsimp only at h
        refine (?_ : k12_Ends _ (fun s' => k12_Steps s.api (parent :: up) [] [] s'.api s'.stack ∧
          k12_shape s'.stack = k12_shape (parent :: up) ∧
          ∀ f r, parent :: up = .fn f :: r → ∃ r', s'.stack = .fn f :: r')).run _ _ _ h
        repeat' (first
          | with_reducible exact k12_Ends.throw _
          | with_reducible apply k12_Ends.bind
          | with_reducible apply k12_Ends.set
          | intro _
          | split
          | dsimp only)
        all_goals
          clear h
          suffices key : k12_AssignInv s.api _ (List.foldl _ _ items) from
            ⟨key.steps, key.shape, key.topFn⟩
          refine k12_foldl_inv_mem (k12_AssignInv _ _) _ items _ ?_
            ⟨k12_Steps.refl _ _, rfl, fun en rest he => ⟨en, rest, he, rfl⟩, fun f rest he => ⟨rest, he⟩, rfl⟩
          · intro st it hit hst
            obtain ⟨api, frames⟩ := st
            have hitem := hok.all it hit
            cases it with
            | attr a =>
              dsimp only
              have ha : k12_AttrOk frames a := k12_AttrOk_of_owner hst.owner hitem
              split
              · rename_i f c up'
                refine ⟨hst.steps.trans0' (k12_Steps.one (k12_Step.addAttrF _ _ _ _ _ (k12_AttrOk_fn ha))), ?_, ?_, ?_, ?_⟩
                · rw [← hst.shape]; rfl
                · intro en rest he
                  simp at he
                · intro f0 rest0 he
                  obtain ⟨r', hr'⟩ := hst.topFn f0 rest0 he
                  simp only [List.cons.injEq, Frame.fn.injEq] at hr'
                  exact ⟨_, by rw [hr'.1]⟩
                · rw [← hst.owner]; rfl
              · rename_i c up'
                refine ⟨hst.steps.trans0' (k12_Steps.one (k12_Step.addAttrC _ _ _ _ (k12_AttrOk_cls ha))), ?_, ?_, ?_, ?_⟩
                · rw [← hst.shape]; rfl
                · intro en rest he
                  simp at he
                · intro f0 rest0 he
                  obtain ⟨r', hr'⟩ := hst.topFn f0 rest0 he
                  simp at hr'
                · rw [← hst.owner]; rfl
              · exact hst
            | inst e =>
              dsimp only
              split
              · rename_i en up'
                obtain ⟨en0, rest0, h0, hid⟩ := hst.top en up' rfl
                have he : e.id = en.id ++ "/" ++ e.name := by
                  rw [← hid]
                  exact hitem en0 rest0 h0
                refine ⟨hst.steps.trans0' (k12_Steps.one (k12_Step.addInst _ _ _ _ he)), ?_, ?_, ?_, ?_⟩
                · rw [← hst.shape]; rfl
                · intro en' rest he'
                  simp only [List.cons.injEq, Frame.enum.injEq] at he'
                  refine ⟨en0, rest0, h0, ?_⟩
                  rw [hid, ← he'.1]
                · intro f0 rest1 he'
                  obtain ⟨r', hr'⟩ := hst.topFn f0 rest1 he'
                  simp at hr'
                · rw [← hst.owner]; rfl
              · exact hst
    | _ => exact (k12_throw_ok h).elim


theorem k12_walkAssignment_ok {env : AEnv} {a : Assignment} {s s' : VSt} {u : Unit} (h : walkAssignment env a s = .ok (u, s')) :
    k12_Steps s.api s.stack [] [] s'.api s'.stack ∧ k12_shape s'.stack = k12_shape s.stack ∧
      ∀ f r, s.stack = .fn f :: r → ∃ r', s'.stack = .fn f :: r' := by
  unfold walkAssignment at h
  obtain ⟨_, s1, h1, h2⟩ := k12_bind_ok h
  obtain ⟨items, eapi, estk, hok⟩ := k12_enterAssignment_ok h1
  obtain ⟨items', rest, hstk, hres⟩ := k12_leaveAssignment_ok h2
  rw [estk] at hstk
  simp only [List.cons.injEq, Frame.assigns.injEq] at hstk
  obtain ⟨rfl, rfl⟩ := hstk
  rw [eapi] at hres
  exact hres hok

theorem k12_walkAssignments_ok {env : AEnv} : ∀ (l : List Assignment) {s s' : VSt} {u : PUnit},
    (forIn l PUnit.unit (fun a _ => do walkAssignment env a; pure (ForInStep.yield PUnit.unit)) : V PUnit) s = .ok (u, s') →
    k12_Steps s.api s.stack [] [] s'.api s'.stack ∧ k12_shape s'.stack = k12_shape s.stack ∧
      ∀ f r, s.stack = .fn f :: r → ∃ r', s'.stack = .fn f :: r'
  | [], s, s', u, h => by
    rw [List.forIn_nil] at h
    obtain ⟨_, rfl⟩ := k12_pure_ok h
    exact ⟨k12_Steps.refl _ _, rfl, fun f r he => ⟨r, he⟩⟩
  | a :: l, s, s', u, h => by
    rw [List.forIn_cons] at h
    obtain ⟨r, s1, h1, h2⟩ := k12_bind_ok h
    obtain ⟨_, s1', h1a, h1b⟩ := k12_bind_ok h1
    obtain ⟨rfl, rfl⟩ := k12_pure_ok h1b
    dsimp only at h2
    have ih := k12_walkAssignments_ok l h2
    have h0 := k12_walkAssignment_ok h1a
    refine ⟨h0.1.trans0 ih.1, ih.2.1.trans h0.2.1, fun f r he => ?_⟩
    obtain ⟨r', hr'⟩ := h0.2.2 f r he
    exact ih.2.2 f r' hr'


theorem k12_shape_tail {a b : Frame} {l l' : List Frame} (h : k12_shape (a :: l) = k12_shape (b :: l')) :
    k12_shape l = k12_shape l' := by
  unfold k12_shape at h ⊢
  simp only [List.map_cons, List.cons.injEq] at h
  exact h.2

theorem k12_shape_ne_nil {l l' : List Frame} (h : k12_shape l = k12_shape l') (hl : l' ≠ []) : l ≠ [] := by
  intro he
  subst he
  cases l' with
  | nil => exact hl rfl
  | cons a l' => simp [k12_shape] at h

theorem k12_walkFunc_ok {env : AEnv} {f : FuncDef} {s s' : VSt} {u : Unit} (h : walkFunc env f s = .ok (u, s')) :
    ∃ fn, k12_Steps s.api s.stack [fn] [] s'.api s'.stack ∧ k12_shape s'.stack = k12_shape s.stack ∧
      fn.id = joinWith "/" (k12_segs s.stack ++ [f.name]) ∧ k12_FnMatch f fn := by
  unfold walkFunc at h
  obtain ⟨_, s1, h1, h2⟩ := k12_bind_ok h
  obtain ⟨fn, eapi, estk, hok, hm, hne⟩ := k12_enterFuncdef_ok h1
  have hpush : k12_Steps s.api s.stack [] [] s1.api s1.stack := by
    rw [eapi, estk]
    exact k12_Steps.one (k12_Step.pushFn _ _ _ hok hne)
  -- the constructor's assignments
  have hmid : ∃ s2 : VSt, leaveFuncdef s2 = .ok (u, s') ∧ k12_Steps s1.api s1.stack [] [] s2.api s2.stack ∧
      k12_shape s2.stack = k12_shape s1.stack ∧ ∃ r', s2.stack = .fn fn :: r' := by
    dsimp only at h2
    split at h2
    · obtain ⟨_, s2, h2a, h2b⟩ := k12_bind_ok h2
      have := k12_walkAssignments_ok _ h2a
      exact ⟨s2, h2b, this.1, this.2.1, this.2.2 fn s.stack estk⟩
    · exact ⟨s1, h2, k12_Steps.refl _ _, rfl, s.stack, estk⟩
  obtain ⟨s2, hleave, hsteps2, hshape2, r', hstk2⟩ := hmid
  obtain ⟨f', rest, hstk, hshape3, hcase⟩ := k12_leaveFuncdef_ok hleave
  rw [hstk2] at hstk
  simp only [List.cons.injEq, Frame.fn.injEq] at hstk
  obtain ⟨rfl, rfl⟩ := hstk
  have hsh : k12_shape r' = k12_shape s.stack := by
    rw [hstk2, estk] at hshape2
    exact k12_shape_tail hshape2
  have hr' : r' ≠ [] := k12_shape_ne_nil hsh hne
  rcases hcase with ⟨he, _⟩ | ⟨parent, up, he, eapi3, estk3⟩
  · exact absurd he hr'
  · refine ⟨fn, ?_, hshape3.trans hsh, ?_, hm⟩
    · refine (hpush.trans0 hsteps2).trans0 ?_
      rw [hstk2, he, eapi3, estk3]
      exact k12_Steps.one (k12_Step.popFn _ _ _ _)
    · rw [hok.id_eq, hm.name]


/-! ### the functions of the source, in the order the walker records them -/

mutual
/-- `(id, definition)` of every function the walker records below the id prefix `pre` -/
def k12_defFuncs (pre : List String) (mode : WalkMode) : Def → List (String × FuncDef)
  | .func f => if mode == .enum then [] else [(joinWith "/" (pre ++ [f.name]), f)]
  | .decorator f => if mode == .enum then [] else [(joinWith "/" (pre ++ [f.name]), f)]
  | .overloaded impl =>
    if mode == .enum then [] else (match impl with | some f => [(joinWith "/" (pre ++ [f.name]), f)] | none => [])
  | .cls name _ bases _ defs =>
    if mode == .enum then []
    else if isEnumClass bases then k12_defsFuncs (pre ++ [name]) .enum defs
    else k12_defsFuncs (pre ++ [name]) .cls defs
  | .assign _ => []
  | .docExpr _ _ => []
  | .other _ => []
def k12_defsFuncs (pre : List String) (mode : WalkMode) : List Def → List (String × FuncDef)
  | [] => []
  | d :: ds => k12_defFuncs pre mode d ++ k12_defsFuncs pre mode ds
end

mutual
/-- the id of every class the walker stores below the id prefix `pre`, in the order `leave_classdef` stores them -/
def k12_defClasses (pre : List String) (mode : WalkMode) : Def → List String
  | .func _ => []
  | .decorator _ => []
  | .overloaded _ => []
  | .cls name _ bases _ defs =>
    if mode == .enum then []
    else if isEnumClass bases then k12_defsClasses (pre ++ [name]) .enum defs
    else k12_defsClasses (pre ++ [name]) .cls defs ++ [joinWith "/" (pre ++ [name])]
  | .assign _ => []
  | .docExpr _ _ => []
  | .other _ => []
def k12_defsClasses (pre : List String) (mode : WalkMode) : List Def → List String
  | [] => []
  | d :: ds => k12_defClasses pre mode d ++ k12_defsClasses pre mode ds
end

def k12_EvMatch (p : String × FuncDef) (fn : Function) : Prop := fn.id = p.1 ∧ k12_FnMatch p.2 fn

/-- a successful (part of the) walk: a sequence of transitions that keeps the shape of the stack, records
    exactly the functions `src` and stores exactly the classes with the ids `csrc` -/
def k12_WalkOk (s s' : VSt) (src : List (String × FuncDef)) (csrc : List String) : Prop :=
  ∃ evs cs, k12_Steps s.api s.stack evs cs s'.api s'.stack ∧ k12_shape s'.stack = k12_shape s.stack ∧
    List.Forall₂ k12_EvMatch src evs ∧ cs.map (·.id) = csrc

theorem k12_WalkOk.shape {s s' : VSt} {a : List (String × FuncDef)} {b : List String} (h : k12_WalkOk s s' a b) :
    k12_shape s'.stack = k12_shape s.stack := by
  obtain ⟨_, _, _, h2, _⟩ := h
  exact h2

theorem k12_WalkOk.refl {s s' : VSt} (h1 : s'.api = s.api) (h2 : s'.stack = s.stack) : k12_WalkOk s s' [] [] :=
  ⟨[], [], by rw [h1, h2]; exact k12_Steps.refl _ _, by rw [h2], List.Forall₂.nil, rfl⟩

theorem k12_WalkOk.trans {s s1 s2 : VSt} {a b : List (String × FuncDef)} {ca cb : List String}
    (h1 : k12_WalkOk s s1 a ca) (h2 : k12_WalkOk s1 s2 b cb) : k12_WalkOk s s2 (a ++ b) (ca ++ cb) := by
  obtain ⟨e1, c1, hs1, hsh1, hm1, hc1⟩ := h1
  obtain ⟨e2, c2, hs2, hsh2, hm2, hc2⟩ := h2
  exact ⟨e1 ++ e2, c1 ++ c2, hs1.trans hs2 _ _ rfl rfl, hsh2.trans hsh1, List.rel_append hm1 hm2,
    by rw [List.map_append, hc1, hc2]⟩

theorem k12_walkFunc_walkOk {env : AEnv} {f : FuncDef} {s s' : VSt} {u : Unit} (h : walkFunc env f s = .ok (u, s')) :
    k12_WalkOk s s' [(joinWith "/" (k12_segs s.stack ++ [f.name]), f)] [] := by
  obtain ⟨fn, h1, h2, h3, h4⟩ := k12_walkFunc_ok h
  exact ⟨[fn], [], h1, h2, List.Forall₂.cons ⟨h3, h4⟩ List.Forall₂.nil, rfl⟩

theorem k12_walkNone_ok {s s' : VSt} {u : Unit} (h : walkNone s = .ok (u, s')) : s'.api = s.api ∧ s'.stack = s.stack := by
  unfold walkNone at h
  have hh := k12_get_bind_ok h; clear h; have h := hh; clear hh
  split at h
  · exact (k12_throw_ok h).elim
  · rw [k12_set_ok h]
    exact ⟨rfl, rfl⟩

theorem k12_segs_cons (fr : Frame) (stk : List Frame) : k12_segs (fr :: stk) = k12_segs stk ++ (frameSegment fr).toList := by
  unfold k12_segs
  rw [List.reverse_cons, List.filterMap_append]
  congr 1

theorem k12_bracket {s s1 s2 s3 : VSt} {fr fr2 : Frame} {rest : List Frame} {src : List (String × FuncDef)}
    {csrc : List String} {cs3 : List Class}
    (hpush : k12_Steps s.api s.stack [] [] s1.api s1.stack) (estk : s1.stack = fr :: s.stack) (hmid : k12_WalkOk s1 s2 src csrc)
    (hstk2 : s2.stack = fr2 :: rest) (hsh3 : k12_shape s3.stack = k12_shape rest)
    (hpop : k12_Step s2.api s2.stack [] cs3 s3.api s3.stack) :
    k12_WalkOk s s3 src (csrc ++ cs3.map (·.id)) ∧ k12_frameSig fr2 = k12_frameSig fr := by
  obtain ⟨evs, cs, hsteps, hsh, hm, hc⟩ := hmid
  rw [hstk2, estk] at hsh
  refine ⟨⟨evs, cs ++ cs3, (hpush.trans0 hsteps).trans (k12_Steps.one hpop) _ _ (List.append_nil _).symm rfl, ?_, hm,
    by rw [List.map_append, hc]⟩, ?_⟩
  · exact hsh3.trans (k12_shape_tail hsh)
  · simp only [k12_shape, List.map_cons, List.cons.injEq] at hsh
    exact hsh.1

/-- the kind of frame below which the walker selects children in the given mode -/
def k12_modeKind : WalkMode → Nat
  | .module => 0
  | .cls => 1
  | .enum => 3

/-- the walker is in mode `mode` only directly below a frame of the matching kind -/
def k12_ModeTop (mode : WalkMode) (stk : List Frame) : Prop := k12_topKind stk = some (k12_modeKind mode)

theorem k12_ModeTop.parentOk {mode : WalkMode} {stk : List Frame} (h : k12_ModeTop mode stk) (hm : ¬ (mode == .enum) = true) :
    k12_ParentOk stk := by
  cases mode with
  | module => exact Or.inl h
  | cls => exact Or.inr h
  | enum => exact absurd rfl hm

mutual
theorem k12_walkDef_ok (env : AEnv) (mode : WalkMode) : (d : Def) → ∀ {s s' : VSt} {u : Unit},
    walkDef env mode d s = .ok (u, s') → s.stack ≠ [] → k12_ModeTop mode s.stack →
    k12_WalkOk s s' (k12_defFuncs (k12_segs s.stack) mode d) (k12_defClasses (k12_segs s.stack) mode d)
  | .func f, s, s', u, h, _, _ => by
    unfold walkDef at h
    unfold k12_defFuncs k12_defClasses
    split at h
    · rename_i hm
      rw [if_pos hm]
      obtain ⟨_, rfl⟩ := k12_pure_ok h
      exact k12_WalkOk.refl rfl rfl
    · rename_i hm
      rw [if_neg hm]
      exact k12_walkFunc_walkOk h
  | .decorator f, s, s', u, h, _, _ => by
    unfold walkDef at h
    unfold k12_defFuncs k12_defClasses
    split at h
    · rename_i hm
      rw [if_pos hm]
      obtain ⟨_, rfl⟩ := k12_pure_ok h
      exact k12_WalkOk.refl rfl rfl
    · rename_i hm
      rw [if_neg hm]
      exact k12_walkFunc_walkOk h
  | .overloaded impl, s, s', u, h, _, _ => by
    unfold walkDef at h
    unfold k12_defFuncs k12_defClasses
    split at h
    · rename_i hm
      rw [if_pos hm]
      obtain ⟨_, rfl⟩ := k12_pure_ok h
      exact k12_WalkOk.refl rfl rfl
    · rename_i hm
      rw [if_neg hm]
      cases impl with
      | some f => exact k12_walkFunc_walkOk h
      | none =>
        have := k12_walkNone_ok h
        exact k12_WalkOk.refl this.1 this.2
  | .cls name fullname bases removed defs, s, s', u, h, hne, hmt => by
    unfold walkDef at h
    unfold k12_defFuncs k12_defClasses
    split at h
    · rename_i hm
      rw [if_pos hm, if_pos hm]
      obtain ⟨_, rfl⟩ := k12_pure_ok h
      exact k12_WalkOk.refl rfl rfl
    · rename_i hm
      rw [if_neg hm, if_neg hm]
      split at h
      · rename_i he
        rw [if_pos he, if_pos he]
        obtain ⟨_, s1, h1, h⟩ := k12_bind_ok h
        obtain ⟨_, s2, h2, h3⟩ := k12_bind_ok h
        obtain ⟨e, eapi, estk, eok, ename⟩ := k12_enterEnumdef_ok h1
        have hne1 : s1.stack ≠ [] := by rw [estk]; simp
        have ih := k12_walkDefs_ok env .enum defs h2 hne1 (by rw [estk]; rfl)
        have hsegs : k12_segs s1.stack = k12_segs s.stack ++ [name] := by
          rw [estk, k12_segs_cons]; simp only [frameSegment, Option.toList_some, ename]
        rw [hsegs] at ih
        obtain ⟨e', rest, hstk2, hsh3, hstep⟩ := k12_leaveEnumdef_ok h3
        have hb := (k12_bracket (by rw [eapi, estk]; exact k12_Steps.one (k12_Step.pushEnum _ _ _ eok hne))
          estk ih hstk2 hsh3 hstep).1
        rw [List.map_nil, List.append_nil] at hb
        exact hb
      · rename_i he
        rw [if_neg he, if_neg he]
        obtain ⟨_, s1, h1, h⟩ := k12_bind_ok h
        obtain ⟨_, s2, h2, h3⟩ := k12_bind_ok h
        obtain ⟨c, eapi, estk, cok, cname, _⟩ := k12_enterClassdef_ok h1
        have hne1 : s1.stack ≠ [] := by rw [estk]; simp
        have ih := k12_walkDefs_ok env .cls defs h2 hne1 (by rw [estk]; rfl)
        have hsegs : k12_segs s1.stack = k12_segs s.stack ++ [name] := by
          rw [estk, k12_segs_cons]; simp only [frameSegment, Option.toList_some, cname]
        rw [hsegs] at ih
        have hk : ∀ c' rest, s2.stack = .cls c' :: rest → k12_ParentOk rest := by
          intro c' rest he2
          have hsh := ih.shape
          rw [he2, estk] at hsh
          have := k12_topKind_of_shape (k12_shape_tail hsh)
          unfold k12_ParentOk
          rw [this]
          exact hmt.parentOk hm
        obtain ⟨c', rest, hstk2, hsh3, hstep⟩ := k12_leaveClassdef_ok h3 hk
        have hb := k12_bracket (by rw [eapi, estk]; exact k12_Steps.one (k12_Step.pushCls _ _ _ cok hne))
          estk ih hstk2 hsh3 hstep
        have hid : c'.id = joinWith "/" (k12_segs s.stack ++ [name]) := by
          have := congrArg (·.2.2) hb.2
          rw [← cname, ← cok.id_eq]
          exact this
        have hb1 := hb.1
        rw [List.map_cons, List.map_nil, hid] at hb1
        exact hb1
  | .assign a, s, s', u, h, _, _ => by
    unfold walkDef at h
    unfold k12_defFuncs k12_defClasses
    split at h
    · obtain ⟨_, rfl⟩ := k12_pure_ok h
      exact k12_WalkOk.refl rfl rfl
    · have := k12_walkAssignment_ok h
      exact ⟨[], [], this.1, this.2.1, List.Forall₂.nil, rfl⟩
  | .docExpr _ _, s, s', u, h, _, _ => by
    unfold walkDef at h
    unfold k12_defFuncs k12_defClasses
    obtain ⟨_, rfl⟩ := k12_pure_ok h
    exact k12_WalkOk.refl rfl rfl
  | .other _, s, s', u, h, _, _ => by
    unfold walkDef at h
    unfold k12_defFuncs k12_defClasses
    obtain ⟨_, rfl⟩ := k12_pure_ok h
    exact k12_WalkOk.refl rfl rfl
theorem k12_walkDefs_ok (env : AEnv) (mode : WalkMode) : (ds : List Def) → ∀ {s s' : VSt} {u : Unit},
    walkDefs env mode ds s = .ok (u, s') → s.stack ≠ [] → k12_ModeTop mode s.stack →
    k12_WalkOk s s' (k12_defsFuncs (k12_segs s.stack) mode ds) (k12_defsClasses (k12_segs s.stack) mode ds)
  | [], s, s', u, h, _, _ => by
    unfold walkDefs at h
    unfold k12_defsFuncs k12_defsClasses
    obtain ⟨_, rfl⟩ := k12_pure_ok h
    exact k12_WalkOk.refl rfl rfl
  | d :: ds, s, s', u, h, hne, hmt => by
    unfold walkDefs at h
    unfold k12_defsFuncs k12_defsClasses
    obtain ⟨_, s1, h1, h2⟩ := k12_bind_ok h
    have r1 := k12_walkDef_ok env mode d h1 hne hmt
    have hne1 : s1.stack ≠ [] := k12_shape_ne_nil r1.shape hne
    have r2 := k12_walkDefs_ok env mode ds h2 hne1 ((k12_topKind_of_shape r1.shape).trans hmt)
    rw [k12_segs_eq_of_shape r1.shape] at r2
    exact r1.trans r2
end


/-- the functions of one source module / of all analysed modules, with the ids the analyser gives them -/
def k12_modFuncs (m : SrcModule) : List (String × FuncDef) :=
  k12_defsFuncs [replaceChar m.fullname '.' "/"] .module m.defs

def k12_srcFuncs : List SrcModule → List (String × FuncDef)
  | [] => []
  | m :: ms => k12_modFuncs m ++ k12_srcFuncs ms

/-- the ids of the classes of one source module / of all analysed modules, in the order the analyser stores them -/
def k12_modClasses (m : SrcModule) : List String :=
  k12_defsClasses [replaceChar m.fullname '.' "/"] .module m.defs

def k12_srcClasses : List SrcModule → List String
  | [] => []
  | m :: ms => k12_modClasses m ++ k12_srcClasses ms

theorem k12_walkModule_ok {env : AEnv} {m : SrcModule} {s s' : VSt} {u : Unit} (h : walkModule env m s = .ok (u, s'))
    (hs : s.stack = []) :
    s'.stack = [] ∧ ∃ evs cs, k12_Steps s.api [] evs cs s'.api [] ∧ List.Forall₂ k12_EvMatch (k12_modFuncs m) evs ∧
      cs.map (·.id) = k12_modClasses m := by
  unfold walkModule at h
  obtain ⟨_, s0, h0, h⟩ := k12_bind_ok h
  have e0 : s0.api = s.api ∧ s0.stack = s.stack := by rw [k12_modify_ok h0]; exact ⟨rfl, rfl⟩
  obtain ⟨_, s1, h1, h⟩ := k12_bind_ok h
  obtain ⟨_, s2, h2, h3⟩ := k12_bind_ok h
  obtain ⟨md, estk, ⟨rm, eapi⟩, eid, ec, ef, ee⟩ := k12_enterModuledef_ok h1
  rw [e0.2, hs] at estk
  rw [e0.1] at eapi
  have hne1 : s1.stack ≠ [] := by rw [estk]; simp
  have ih := k12_walkDefs_ok env .module m.defs h2 hne1 (by rw [estk]; rfl)
  have hsegs : k12_segs s1.stack = [replaceChar m.fullname '.' "/"] := by
    rw [estk, k12_segs_cons]; simp only [frameSegment, Option.toList_some, eid]; rfl
  rw [hsegs] at ih
  obtain ⟨evs, cs, hsteps, hsh, hm, hcs⟩ := ih
  obtain ⟨md', rest, hstk2, hstk3, hpop⟩ := k12_leaveModuledef_ok h3
  have hrest : rest = [] := by
    rw [hstk2, estk] at hsh
    have := k12_shape_tail hsh
    cases rest with
    | nil => rfl
    | cons a l => simp [k12_shape] at this
  subst hrest
  refine ⟨hstk3, evs, cs, ?_, hm, hcs⟩
  have hpush : k12_Steps s.api [] [] [] s1.api s1.stack := by
    rw [eapi, estk]
    exact .cons (k12_Step.reexp s.api [] rm) (k12_Steps.one (k12_Step.pushModule _ [] md ec ef ee)) rfl rfl
  have := (hpush.trans0 hsteps).trans0' (k12_Steps.one hpop)
  rw [hstk3] at this
  exact this

theorem k12_walkModules_ok {env : AEnv} : ∀ (ms : List SrcModule) {s s' : VSt} {u : Unit},
    walkModules env ms s = .ok (u, s') → s.stack = [] →
    s'.stack = [] ∧ ∃ evs cs, k12_Steps s.api [] evs cs s'.api [] ∧ List.Forall₂ k12_EvMatch (k12_srcFuncs ms) evs ∧
      cs.map (·.id) = k12_srcClasses ms
  | [], s, s', u, h, hs => by
    unfold walkModules at h
    obtain ⟨_, rfl⟩ := k12_pure_ok h
    exact ⟨hs, [], [], k12_Steps.refl _ _, List.Forall₂.nil, rfl⟩
  | m :: ms, s, s', u, h, hs => by
    unfold walkModules at h
    obtain ⟨_, s1, h1, h2⟩ := k12_bind_ok h
    obtain ⟨hs1, e1, c1, hst1, hm1, hc1⟩ := k12_walkModule_ok h1 hs
    obtain ⟨hs2, e2, c2, hst2, hm2, hc2⟩ := k12_walkModules_ok ms h2 hs1
    exact ⟨hs2, e1 ++ e2, c1 ++ c2, hst1.trans hst2 _ _ rfl rfl, List.rel_append hm1 hm2,
      by rw [List.map_append, hc1, hc2]; rfl⟩

/-- every successful analysis is a sequence of abstract transitions from the empty tables -/
theorem k12_analyze_steps {env : AEnv} {root : GNode} {mods : List SrcModule} {r : AnaResult} {w : List String}
    (h : analyze env root mods = .ok (r, w)) :
    ∃ evs cs, k12_Steps {} [] evs cs r [] ∧ List.Forall₂ k12_EvMatch (k12_srcFuncs mods) evs ∧
      cs.map (·.id) = k12_srcClasses mods := by
  unfold analyze at h
  dsimp only at h
  split at h
  · exact absurd h (by simp)
  · rename_i s hrun
    simp only [Except.ok.injEq, Prod.mk.injEq] at h
    obtain ⟨_, evs, cs, hsteps, hm, hcs⟩ := k12_walkModules_ok mods hrun rfl
    rw [h.1] at hsteps
    exact ⟨evs, cs, hsteps, hm, hcs⟩


/-! ### `dictSet` -/

section dictSet
variable {α : Type} (key : α → String)

theorem k12_dictSet_map (tbl : List α) (v : α) :
    (dictSet key tbl v).map key = if key v ∈ tbl.map key then tbl.map key else tbl.map key ++ [key v] := by
  unfold dictSet
  by_cases h : tbl.any (fun x => key x == key v) = true
  · rw [if_pos h]
    have hm : key v ∈ tbl.map key := by
      rw [List.any_eq_true] at h
      obtain ⟨x, hx, he⟩ := h
      exact List.mem_map.2 ⟨x, hx, by simpa using he⟩
    rw [if_pos hm, List.map_map]
    apply List.map_congr_left
    intro x _
    simp only [Function.comp]
    split
    · rename_i he; exact (by simpa using he : key x = key v).symm
    · rfl
  · rw [if_neg h]
    have hm : ¬ key v ∈ tbl.map key := by
      intro hm
      apply h
      obtain ⟨x, hx, he⟩ := List.mem_map.1 hm
      exact List.any_eq_true.2 ⟨x, hx, by simpa using he⟩
    rw [if_neg hm, List.map_append]
    rfl

theorem k12_dictSet_nodup {tbl : List α} (v : α) (h : (tbl.map key).Nodup) : ((dictSet key tbl v).map key).Nodup := by
  rw [k12_dictSet_map]
  split
  · exact h
  · rename_i hm
    rw [List.nodup_append]
    exact ⟨h, List.nodup_singleton _, fun a ha b hb => by rw [List.mem_singleton.1 hb]; exact fun e => hm (e ▸ ha)⟩

theorem k12_dictSet_ids (tbl : List α) (v : α) (k : String) :
    k ∈ (dictSet key tbl v).map key ↔ k ∈ tbl.map key ∨ k = key v := by
  rw [k12_dictSet_map]
  split
  · rename_i hm
    constructor
    · exact Or.inl
    · rintro (h | rfl)
      · exact h
      · exact hm
  · simp only [List.mem_append, List.mem_singleton]

theorem k12_mem_dictSet {tbl : List α} {v x : α} (h : x ∈ dictSet key tbl v) : x = v ∨ x ∈ tbl := by
  unfold dictSet at h
  split at h
  · obtain ⟨y, hy, he⟩ := List.mem_map.1 h
    split at he
    · exact Or.inl he.symm
    · exact Or.inr (he ▸ hy)
  · rcases List.mem_append.1 h with h | h
    · exact Or.inr h
    · exact Or.inl (List.mem_singleton.1 h)

theorem k12_self_mem_dictSet (tbl : List α) (v : α) : v ∈ dictSet key tbl v := by
  unfold dictSet
  split
  · rename_i h
    rw [List.any_eq_true] at h
    obtain ⟨x, hx, he⟩ := h
    exact List.mem_map.2 ⟨x, hx, by rw [if_pos he]⟩
  · exact List.mem_append_right _ (List.mem_singleton.2 rfl)

theorem k12_mem_dictSet_of_ne {tbl : List α} {v x : α} (hx : x ∈ tbl) (hne : key x ≠ key v) : x ∈ dictSet key tbl v := by
  unfold dictSet
  split
  · refine List.mem_map.2 ⟨x, hx, ?_⟩
    rw [if_neg]
    simpa using hne
  · exact List.mem_append_left _ hx

theorem k12_foldl_dictSet_nodup {tbl : List α} (vs : List α) (h : (tbl.map key).Nodup) :
    ((vs.foldl (dictSet key) tbl).map key).Nodup :=
  k12_foldl_inv (fun t => (t.map key).Nodup) _ (fun _ v hb => k12_dictSet_nodup key v hb) vs tbl h

theorem k12_foldl_dictSet_ids (vs : List α) : ∀ (tbl : List α) (k : String),
    k ∈ (vs.foldl (dictSet key) tbl).map key ↔ k ∈ tbl.map key ∨ k ∈ vs.map key := by
  induction vs with
  | nil => intro tbl k; simp
  | cons v vs ih =>
    intro tbl k
    rw [List.foldl_cons, ih, k12_dictSet_ids]
    simp only [List.map_cons, List.mem_cons]
    tauto

theorem k12_mem_foldl_dictSet (vs : List α) : ∀ {tbl : List α} {x : α}, x ∈ vs.foldl (dictSet key) tbl → x ∈ vs ∨ x ∈ tbl := by
  induction vs with
  | nil => intro tbl x h; exact Or.inr h
  | cons v vs ih =>
    intro tbl x h
    rw [List.foldl_cons] at h
    rcases ih h with h | h
    · exact Or.inl (List.mem_cons_of_mem _ h)
    · rcases k12_mem_dictSet key h with rfl | h
      · exact Or.inl List.mem_cons_self
      · exact Or.inr h

end dictSet

/-! ### sorted id lists -/

theorem k12_sortStrings_strict {l : List String} (h : l.Nodup) : (sortStrings l).Pairwise (· < ·) :=
  ((sortStrings_pairwise_le l).and ((sortStrings_perm l).nodup_iff.2 h)).imp (fun h => lt_of_le_of_ne h.1 h.2)

theorem k12_Steps_inv (I : AnaResult → List Frame → Prop)
    (hstep : ∀ a s e c a' s', k12_Step a s e c a' s' → I a s → I a' s') :
    ∀ {a s e c a' s'}, k12_Steps a s e c a' s' → I a s → I a' s' := by
  intro a s e c a' s' h
  induction h with
  | refl => exact id
  | cons h1 _ _ _ ih => exact fun hi => ih (hstep _ _ _ _ _ _ h1 hi)

/-! ### invariant 1: no table holds two entries with the same id -/

structure k12_NodupTables (api : AnaResult) : Prop where
  modules : (api.modules.map (·.id)).Nodup
  classes : (api.classes.map (·.id)).Nodup
  functions : (api.functions.map (·.id)).Nodup
  results : (api.results.map (·.id)).Nodup
  enums : (api.enums.map (·.id)).Nodup
  enumInstances : (api.enumInstances.map (·.id)).Nodup
  attributes : (api.attributes.map (·.id)).Nodup
  parameters : (api.parameters.map (·.id)).Nodup

theorem k12_NodupTables_step {a : AnaResult} {s : List Frame} {e : List Function} {cs : List Class} {a' : AnaResult}
    {s' : List Frame} (h : k12_Step a s e cs a' s') (hi : k12_NodupTables a) : k12_NodupTables a' := by
  cases h with
  | reexp => exact ⟨hi.1, hi.2, hi.3, hi.4, hi.5, hi.6, hi.7, hi.8⟩
  | pushModule | pushFn | pushCls | pushEnum | dropEnum => exact hi
  | popModule m => exact ⟨k12_dictSet_nodup _ _ hi.1, hi.2, hi.3, hi.4, hi.5, hi.6, hi.7, hi.8⟩
  | popFn f =>
    exact ⟨hi.1, hi.2, k12_dictSet_nodup _ _ hi.3, k12_foldl_dictSet_nodup _ _ hi.4, hi.5, hi.6, hi.7,
      k12_foldl_dictSet_nodup _ _ hi.8⟩
  | popClsM | popClsC => exact ⟨hi.1, k12_dictSet_nodup _ _ hi.2, hi.3, hi.4, hi.5, hi.6, hi.7, hi.8⟩
  | popEnumM => exact ⟨hi.1, hi.2, hi.3, hi.4, k12_dictSet_nodup _ _ hi.5, hi.6, hi.7, hi.8⟩
  | addAttrF | addAttrC => exact ⟨hi.1, hi.2, hi.3, hi.4, hi.5, hi.6, k12_dictSet_nodup _ _ hi.7, hi.8⟩
  | addInst => exact ⟨hi.1, hi.2, hi.3, hi.4, hi.5, k12_dictSet_nodup _ _ hi.6, hi.7, hi.8⟩

theorem k12_analyze_nodup {env : AEnv} {root : GNode} {mods : List SrcModule} {r : AnaResult} {w : List String}
    (h : analyze env root mods = .ok (r, w)) : k12_NodupTables r := by
  obtain ⟨evs, _, hsteps, _, _⟩ := k12_analyze_steps h
  exact k12_Steps_inv (fun a _ => k12_NodupTables a) (fun _ _ _ _ _ _ hs hi => k12_NodupTables_step hs hi) hsteps
    ⟨List.nodup_nil, List.nodup_nil, List.nodup_nil, List.nodup_nil, List.nodup_nil, List.nodup_nil, List.nodup_nil,
      List.nodup_nil⟩


/-! ### invariant 2: the form of the ids -/

/-- `id = <owner>/<name>` -/
def k12_Form (id name : String) : Prop := ∃ owner, id = owner ++ "/" ++ name

theorem k12_joinWith_cons2 (sep x y : String) (t : List String) :
    joinWith sep (x :: y :: t) = x ++ sep ++ joinWith sep (y :: t) := rfl

theorem k12_joinWith_snoc (sep : String) (a : String) : ∀ (l : List String), l ≠ [] →
    joinWith sep (l ++ [a]) = joinWith sep l ++ sep ++ a
  | [], h => absurd rfl h
  | [x], _ => rfl
  | x :: y :: t, _ => by
    have ih := k12_joinWith_snoc sep a (y :: t) (by simp)
    simp only [List.cons_append] at ih ⊢
    rw [k12_joinWith_cons2, ih, k12_joinWith_cons2]
    simp only [String.append_assoc]

/-- the bottom frame of the stack has an id segment (it is a module in every reachable state) -/
def k12_rooted (stk : List Frame) : Prop := ∀ o, (k12_shape stk).getLast? = some o → o.2.1 ≠ none

theorem k12_rooted_nil : k12_rooted [] := by intro o h; simp [k12_shape] at h

theorem k12_rooted_of_shape {stk stk' : List Frame} (h : k12_shape stk' = k12_shape stk) (hr : k12_rooted stk) :
    k12_rooted stk' := by
  unfold k12_rooted; rw [h]; exact hr

theorem k12_rooted_tail {fr : Frame} {rest : List Frame} (hr : k12_rooted (fr :: rest)) : k12_rooted rest := by
  intro o ho
  apply hr o
  cases rest with
  | nil => simp [k12_shape] at ho
  | cons a l =>
    simp only [k12_shape, List.map_cons] at ho ⊢
    rw [List.getLast?_cons_cons]
    exact ho

theorem k12_rooted_push {fr : Frame} {stk : List Frame} (hr : k12_rooted stk) (hne : stk ≠ []) : k12_rooted (fr :: stk) := by
  intro o ho
  apply hr o
  cases stk with
  | nil => exact absurd rfl hne
  | cons a l =>
    simp only [k12_shape, List.map_cons] at ho ⊢
    rw [List.getLast?_cons_cons] at ho
    exact ho

theorem k12_rooted_pushModule {m : Module} {stk : List Frame} (hr : k12_rooted stk) : k12_rooted (.module m :: stk) := by
  cases stk with
  | nil =>
    intro o ho
    simp only [k12_shape, List.map_cons, List.map_nil, List.getLast?_singleton, Option.some.injEq] at ho
    rw [← ho]; simp [k12_frameSig, frameSegment]
  | cons a l => exact k12_rooted_push hr (by simp)

theorem k12_segs_ne_nil {stk : List Frame} (hr : k12_rooted stk) (hne : stk ≠ []) : k12_segs stk ≠ [] := by
  have e : k12_segs stk = ((k12_shape stk).reverse).filterMap (·.2.1) := by
    unfold k12_segs k12_shape
    rw [← List.map_reverse, List.filterMap_map]
    rfl
  rw [e]
  have hsh : k12_shape stk ≠ [] := by
    unfold k12_shape
    simpa using hne
  obtain ⟨init, o, hio⟩ : ∃ init o, k12_shape stk = init ++ [o] := by
    refine ⟨(k12_shape stk).dropLast, (k12_shape stk).getLast hsh, ?_⟩
    exact (List.dropLast_append_getLast hsh).symm
  have ho := hr o (by rw [hio]; simp)
  rw [hio, List.reverse_append]
  obtain ⟨k, o, i⟩ := o
  cases o with
  | none => exact absurd rfl ho
  | some x => simp

theorem k12_form_of_id_eq {stk : List Frame} {id name : String} (hr : k12_rooted stk) (hne : stk ≠ [])
    (h : id = joinWith "/" (k12_segs stk ++ [name])) : k12_Form id name :=
  ⟨joinWith "/" (k12_segs stk), by rw [h, k12_joinWith_snoc _ _ _ (k12_segs_ne_nil hr hne)]⟩

def k12_FrameForm : Frame → Prop
  | .cls c => k12_Form c.id c.name ∧ ∀ a ∈ c.attributes, a.id = c.id ++ "/" ++ a.name
  | .fn f => k12_Form f.id f.name ∧ (∀ p ∈ f.params, p.id = f.id ++ "/" ++ p.name) ∧
      (∀ r ∈ f.results, r.id = f.id ++ "/" ++ r.name)
  | .enum e => k12_Form e.id e.name
  | _ => True

/-- `id` is the id of a class of the table or of a class that is still open (on the declaration stack) -/
def k12_Owned (api : AnaResult) (stk : List Frame) (id : String) : Prop :=
  (∃ c ∈ api.classes, c.id = id) ∨ (∃ c, Frame.cls c ∈ stk ∧ c.id = id)

/-- the id of an attribute: `<id of its class>/<name>` -/
def k12_AttrForm (api : AnaResult) (stk : List Frame) (a : Attribute) : Prop :=
  ∃ o, k12_Owned api stk o ∧ a.id = o ++ "/" ++ a.name

structure k12_FormInv (api : AnaResult) (stk : List Frame) : Prop where
  rooted : k12_rooted stk
  frames : ∀ fr ∈ stk, k12_FrameForm fr
  classes : ∀ x ∈ api.classes, k12_FrameForm (.cls x)
  functions : ∀ x ∈ api.functions, k12_FrameForm (.fn x)
  enums : ∀ x ∈ api.enums, k12_Form x.id x.name
  enumInstances : ∀ x ∈ api.enumInstances, k12_Form x.id x.name
  parameters : ∀ p ∈ api.parameters, ∃ fn ∈ api.functions, p.id = fn.id ++ "/" ++ p.name
  results : ∀ r ∈ api.results, ∃ fn ∈ api.functions, r.id = fn.id ++ "/" ++ r.name
  attributes : ∀ a ∈ api.attributes, k12_AttrForm api stk a

theorem k12_dictSet_exists_id {α : Type} (key : α → String) {tbl : List α} (v : α) {x : α} (hx : x ∈ tbl) :
    ∃ y ∈ dictSet key tbl v, key y = key x := by
  by_cases h : key x = key v
  · exact ⟨v, k12_self_mem_dictSet key tbl v, h.symm⟩
  · exact ⟨x, k12_mem_dictSet_of_ne key hx h, rfl⟩

theorem k12_fnParent_form (f : Function) {p : Frame} (h : k12_FrameForm p) : k12_FrameForm (k12_fnParent f p) := by
  cases p with
  | cls c =>
    show k12_FrameForm (if f.name == "__init__" then _ else _)
    split <;> exact h
  | _ => exact h

theorem k12_Owned.of_sub {a a' : AnaResult} {s s' : List Frame} {id : String} (h : k12_Owned a s id)
    (hc : ∀ c ∈ a.classes, ∃ c' ∈ a'.classes, c'.id = c.id)
    (hs : ∀ c, Frame.cls c ∈ s → (∃ c' ∈ a'.classes, c'.id = c.id) ∨ (∃ c', Frame.cls c' ∈ s' ∧ c'.id = c.id)) :
    k12_Owned a' s' id := by
  rcases h with ⟨c, hc', rfl⟩ | ⟨c, hc', rfl⟩
  · exact Or.inl (hc c hc')
  · exact hs c hc'

/-- every class of the table and every open class stays, with its id, in the table or open after a transition -/
theorem k12_Owned_step {a : AnaResult} {s : List Frame} {e : List Function} {cs : List Class} {a' : AnaResult}
    {s' : List Frame} (h : k12_Step a s e cs a' s') {id : String} (ho : k12_Owned a s id) : k12_Owned a' s' id := by
  have keep : ∀ {tbl : List Class} (c : Class), c ∈ tbl → ∃ c' ∈ tbl, c'.id = c.id := fun c hc => ⟨c, hc, rfl⟩
  cases h with
  | reexp => exact ho
  | pushModule _ m _ _ _ =>
    exact ho.of_sub (fun c hc => keep c hc) (fun c hc => Or.inr ⟨c, List.mem_cons_of_mem _ hc, rfl⟩)
  | popModule m rest =>
    refine ho.of_sub (fun c hc => keep c hc) (fun c hc => Or.inr ⟨c, ?_, rfl⟩)
    rcases List.mem_cons.1 hc with hc | hc
    · exact absurd hc (by simp)
    · exact hc
  | pushFn _ fn _ _ =>
    exact ho.of_sub (fun c hc => keep c hc) (fun c hc => Or.inr ⟨c, List.mem_cons_of_mem _ hc, rfl⟩)
  | popFn f parent up =>
    refine ho.of_sub (fun c hc => keep c hc) (fun c hc => Or.inr ?_)
    rcases List.mem_cons.1 hc with hc | hc
    · exact absurd hc (by simp)
    rcases List.mem_cons.1 hc with hc | hc
    · subst hc
      refine ⟨if f.name == "__init__" then { c with ctor := some f } else { c with methods := c.methods ++ [f] },
        ?_, ?_⟩
      · refine List.mem_cons.2 (Or.inl ?_)
        show _ = (if f.name == "__init__" then _ else _)
        split <;> rfl
      · split <;> rfl
    · exact ⟨c, List.mem_cons_of_mem _ hc, rfl⟩
  | pushCls _ c _ _ =>
    exact ho.of_sub (fun c hc => keep c hc) (fun c hc => Or.inr ⟨c, List.mem_cons_of_mem _ hc, rfl⟩)
  | popClsM c m up =>
    refine ho.of_sub (fun x hx => k12_dictSet_exists_id (·.id) c hx) (fun x hx => ?_)
    rcases List.mem_cons.1 hx with hx | hx
    · simp only [Frame.cls.injEq] at hx
      subst hx
      exact Or.inl ⟨x, k12_self_mem_dictSet _ _ _, rfl⟩
    rcases List.mem_cons.1 hx with hx | hx
    · exact absurd hx (by simp)
    · exact Or.inr ⟨x, List.mem_cons_of_mem _ hx, rfl⟩
  | popClsC c p up =>
    refine ho.of_sub (fun x hx => k12_dictSet_exists_id (·.id) c hx) (fun x hx => ?_)
    rcases List.mem_cons.1 hx with hx | hx
    · simp only [Frame.cls.injEq] at hx
      subst hx
      exact Or.inl ⟨x, k12_self_mem_dictSet _ _ _, rfl⟩
    rcases List.mem_cons.1 hx with hx | hx
    · simp only [Frame.cls.injEq] at hx
      subst hx
      exact Or.inr ⟨_, List.mem_cons_self, rfl⟩
    · exact Or.inr ⟨x, List.mem_cons_of_mem _ hx, rfl⟩
  | pushEnum _ en _ _ =>
    exact ho.of_sub (fun c hc => keep c hc) (fun c hc => Or.inr ⟨c, List.mem_cons_of_mem _ hc, rfl⟩)
  | popEnumM en m up =>
    refine ho.of_sub (fun c hc => keep c hc) (fun c hc => Or.inr ⟨c, ?_, rfl⟩)
    rcases List.mem_cons.1 hc with hc | hc
    · exact absurd hc (by simp)
    rcases List.mem_cons.1 hc with hc | hc
    · exact absurd hc (by simp)
    · exact List.mem_cons_of_mem _ hc
  | dropEnum en rest =>
    refine ho.of_sub (fun c hc => keep c hc) (fun c hc => Or.inr ⟨c, ?_, rfl⟩)
    rcases List.mem_cons.1 hc with hc | hc
    · exact absurd hc (by simp)
    · exact hc
  | addAttrF f c up att _ =>
    refine ho.of_sub (fun c hc => keep c hc) (fun x hx => Or.inr ?_)
    rcases List.mem_cons.1 hx with hx | hx
    · exact absurd hx (by simp)
    rcases List.mem_cons.1 hx with hx | hx
    · simp only [Frame.cls.injEq] at hx
      subst hx
      exact ⟨_, List.mem_cons_of_mem _ List.mem_cons_self, rfl⟩
    · exact ⟨x, List.mem_cons_of_mem _ (List.mem_cons_of_mem _ hx), rfl⟩
  | addAttrC c up att _ =>
    refine ho.of_sub (fun c hc => keep c hc) (fun x hx => Or.inr ?_)
    rcases List.mem_cons.1 hx with hx | hx
    · simp only [Frame.cls.injEq] at hx
      subst hx
      exact ⟨_, List.mem_cons_self, rfl⟩
    · exact ⟨x, List.mem_cons_of_mem _ hx, rfl⟩
  | addInst en up inst _ =>
    refine ho.of_sub (fun c hc => keep c hc) (fun c hc => Or.inr ⟨c, ?_, rfl⟩)
    rcases List.mem_cons.1 hc with hc | hc
    · exact absurd hc (by simp)
    · exact List.mem_cons_of_mem _ hc

theorem k12_AttrForm_step {a : AnaResult} {s : List Frame} {e : List Function} {cs : List Class} {a' : AnaResult}
    {s' : List Frame} (h : k12_Step a s e cs a' s') {x : Attribute} (hx : k12_AttrForm a s x) : k12_AttrForm a' s' x := by
  obtain ⟨o, ho, hid⟩ := hx
  exact ⟨o, k12_Owned_step h ho, hid⟩

theorem k12_FormInv_step {a : AnaResult} {s : List Frame} {e : List Function} {cs : List Class} {a' : AnaResult}
    {s' : List Frame} (h : k12_Step a s e cs a' s') (hi : k12_FormInv a s) : k12_FormInv a' s' := by
  have hattr : ∀ x ∈ a.attributes, k12_AttrForm a' s' x := fun x hx => k12_AttrForm_step h (hi.attributes x hx)
  cases h with
  | reexp => exact ⟨hi.1, hi.2, hi.3, hi.4, hi.5, hi.6, hi.7, hi.8, hattr⟩
  | pushModule _ m _ _ _ =>
    exact { hi with rooted := k12_rooted_pushModule hi.rooted,
                    frames := fun fr hfr => (List.mem_cons.1 hfr).elim (fun e => e ▸ trivial) (hi.frames fr),
                    attributes := hattr }
  | popModule m rest =>
    exact ⟨k12_rooted_tail hi.rooted, fun fr hfr => hi.frames fr (List.mem_cons_of_mem _ hfr), hi.3, hi.4, hi.5, hi.6,
      hi.7, hi.8, hattr⟩
  | pushFn _ fn hok hne =>
    refine { hi with rooted := k12_rooted_push hi.rooted hne,
                     frames := fun fr hfr => (List.mem_cons.1 hfr).elim (fun e => ?_) (hi.frames fr),
                     attributes := hattr }
    rw [e]
    exact ⟨k12_form_of_id_eq hi.rooted hne hok.id_eq, hok.params, hok.results⟩
  | popFn f parent up =>
    have hf := hi.frames (.fn f) List.mem_cons_self
    have hfuncs : ∀ x ∈ a.functions, ∃ y ∈ dictSet (·.id) a.functions f, y.id = x.id :=
      fun x hx => k12_dictSet_exists_id (·.id) f hx
    refine ⟨?_, ?_, hi.classes, ?_, hi.enums, hi.enumInstances, ?_, ?_, hattr⟩
    · refine k12_rooted_of_shape ?_ (k12_rooted_tail hi.rooted)
      show k12_shape (_ :: up) = k12_shape (parent :: up)
      simp only [k12_shape, List.map_cons, k12_fnParent_sig]
    · intro fr hfr
      rcases List.mem_cons.1 hfr with rfl | hfr
      · exact k12_fnParent_form f (hi.frames parent (List.mem_cons_of_mem _ List.mem_cons_self))
      · exact hi.frames fr (List.mem_cons_of_mem _ (List.mem_cons_of_mem _ hfr))
    · intro x hx
      rcases k12_mem_dictSet _ hx with rfl | hx
      · exact hf
      · exact hi.functions x hx
    · intro p hp
      rcases k12_mem_foldl_dictSet _ _ hp with hp | hp
      · exact ⟨f, k12_self_mem_dictSet _ _ _, hf.2.1 p hp⟩
      · obtain ⟨fn, hfn, hid⟩ := hi.parameters p hp
        obtain ⟨y, hy, hyid⟩ := hfuncs fn hfn
        exact ⟨y, hy, by rw [hid, ← hyid]⟩
    · intro p hp
      rcases k12_mem_foldl_dictSet _ _ hp with hp | hp
      · exact ⟨f, k12_self_mem_dictSet _ _ _, hf.2.2 p hp⟩
      · obtain ⟨fn, hfn, hid⟩ := hi.results p hp
        obtain ⟨y, hy, hyid⟩ := hfuncs fn hfn
        exact ⟨y, hy, by rw [hid, ← hyid]⟩
  | pushCls _ c hok hne =>
    refine { hi with rooted := k12_rooted_push hi.rooted hne,
                     frames := fun fr hfr => (List.mem_cons.1 hfr).elim (fun e => ?_) (hi.frames fr),
                     attributes := hattr }
    rw [e]
    exact ⟨k12_form_of_id_eq hi.rooted hne hok.id_eq, by rw [hok.attributes]; exact fun _ h => absurd h List.not_mem_nil⟩
  | popClsM c m up =>
    refine ⟨k12_rooted_tail hi.rooted, ?_, ?_, hi.4, hi.5, hi.6, hi.7, hi.8, hattr⟩
    · intro fr hfr
      rcases List.mem_cons.1 hfr with rfl | hfr
      · trivial
      · exact hi.frames fr (List.mem_cons_of_mem _ (List.mem_cons_of_mem _ hfr))
    · intro x hx
      rcases k12_mem_dictSet _ hx with rfl | hx
      · exact hi.frames (.cls x) List.mem_cons_self
      · exact hi.classes x hx
  | popClsC c p up =>
    refine ⟨k12_rooted_tail hi.rooted, ?_, ?_, hi.4, hi.5, hi.6, hi.7, hi.8, hattr⟩
    · intro fr hfr
      rcases List.mem_cons.1 hfr with rfl | hfr
      · exact hi.frames (.cls p) (List.mem_cons_of_mem _ List.mem_cons_self)
      · exact hi.frames fr (List.mem_cons_of_mem _ (List.mem_cons_of_mem _ hfr))
    · intro x hx
      rcases k12_mem_dictSet _ hx with rfl | hx
      · exact hi.frames (.cls x) List.mem_cons_self
      · exact hi.classes x hx
  | pushEnum _ en hok hne =>
    refine { hi with rooted := k12_rooted_push hi.rooted hne,
                     frames := fun fr hfr => (List.mem_cons.1 hfr).elim (fun e => ?_) (hi.frames fr),
                     attributes := hattr }
    rw [e]
    exact k12_form_of_id_eq hi.rooted hne hok.id_eq
  | popEnumM en m up =>
    refine ⟨k12_rooted_tail hi.rooted, ?_, hi.3, hi.4, ?_, hi.6, hi.7, hi.8, hattr⟩
    · intro fr hfr
      rcases List.mem_cons.1 hfr with rfl | hfr
      · trivial
      · exact hi.frames fr (List.mem_cons_of_mem _ (List.mem_cons_of_mem _ hfr))
    · intro x hx
      rcases k12_mem_dictSet _ hx with rfl | hx
      · exact hi.frames (.enum x) List.mem_cons_self
      · exact hi.enums x hx
  | dropEnum en rest =>
    exact { hi with rooted := k12_rooted_tail hi.rooted,
                    frames := fun fr hfr => hi.frames fr (List.mem_cons_of_mem _ hfr),
                    attributes := hattr }
  | addAttrF f c up att hok =>
    refine ⟨k12_rooted_of_shape rfl hi.rooted, ?_, hi.3, hi.4, hi.5, hi.6, hi.7, hi.8, ?_⟩
    · intro fr hfr
      rcases List.mem_cons.1 hfr with rfl | hfr
      · exact hi.frames _ List.mem_cons_self
      · rcases List.mem_cons.1 hfr with rfl | hfr
        · have hc := hi.frames (.cls c) (List.mem_cons_of_mem _ List.mem_cons_self)
          exact ⟨hc.1, fun x hx => (List.mem_append.1 hx).elim (hc.2 x)
            (fun e => by rw [List.mem_singleton.1 e]; exact hok)⟩
        · exact hi.frames fr (List.mem_cons_of_mem _ (List.mem_cons_of_mem _ hfr))
    · intro x hx
      rcases k12_mem_dictSet _ hx with rfl | hx
      · exact ⟨c.id, Or.inr ⟨_, List.mem_cons_of_mem _ List.mem_cons_self, rfl⟩, hok⟩
      · exact hattr x hx
  | addAttrC c up att hok =>
    refine ⟨k12_rooted_of_shape rfl hi.rooted, ?_, hi.3, hi.4, hi.5, hi.6, hi.7, hi.8, ?_⟩
    · intro fr hfr
      rcases List.mem_cons.1 hfr with rfl | hfr
      · have hc := hi.frames (.cls c) List.mem_cons_self
        exact ⟨hc.1, fun x hx => (List.mem_append.1 hx).elim (hc.2 x)
          (fun e => by rw [List.mem_singleton.1 e]; exact hok)⟩
      · exact hi.frames fr (List.mem_cons_of_mem _ hfr)
    · intro x hx
      rcases k12_mem_dictSet _ hx with rfl | hx
      · exact ⟨c.id, Or.inr ⟨_, List.mem_cons_self, rfl⟩, hok⟩
      · exact hattr x hx
  | addInst en up inst hid =>
    refine ⟨k12_rooted_of_shape rfl hi.rooted, ?_, hi.3, hi.4, hi.5, ?_, hi.7, hi.8, hattr⟩
    · intro fr hfr
      rcases List.mem_cons.1 hfr with rfl | hfr
      · exact hi.frames (.enum en) List.mem_cons_self
      · exact hi.frames fr (List.mem_cons_of_mem _ hfr)
    · intro x hx
      rcases k12_mem_dictSet _ hx with rfl | hx
      · exact ⟨en.id, hid⟩
      · exact hi.enumInstances x hx

theorem k12_AttrForm_nil {api : AnaResult} {a : Attribute} (h : k12_AttrForm api [] a) :
    ∃ c ∈ api.classes, a.id = c.id ++ "/" ++ a.name := by
  obtain ⟨o, ho, hid⟩ := h
  rcases ho with ⟨c, hc, rfl⟩ | ⟨c, hc, _⟩
  · exact ⟨c, hc, hid⟩
  · exact absurd hc List.not_mem_nil

theorem k12_analyze_forms {env : AEnv} {root : GNode} {mods : List SrcModule} {r : AnaResult} {w : List String}
    (h : analyze env root mods = .ok (r, w)) : k12_FormInv r [] := by
  obtain ⟨evs, _, hsteps, _, _⟩ := k12_analyze_steps h
  refine k12_Steps_inv k12_FormInv (fun _ _ _ _ _ _ hs hi => k12_FormInv_step hs hi) hsteps ?_
  exact ⟨k12_rooted_nil, fun _ h => absurd h List.not_mem_nil, fun _ h => absurd h List.not_mem_nil,
    fun _ h => absurd h List.not_mem_nil, fun _ h => absurd h List.not_mem_nil, fun _ h => absurd h List.not_mem_nil,
    fun _ h => absurd h List.not_mem_nil, fun _ h => absurd h List.not_mem_nil, fun _ h => absurd h List.not_mem_nil⟩


/-! ### invariant 3: every referenced id has an entry -/

def k12_FnR (api : AnaResult) (f : Function) : Prop :=
  (∀ p ∈ f.params, p.id ∈ api.parameters.map (·.id)) ∧ (∀ r ∈ f.results, r.id ∈ api.results.map (·.id))

def k12_ClsR (api : AnaResult) (c : Class) : Prop :=
  (∀ x ∈ c.classes, x.id ∈ api.classes.map (·.id)) ∧ (∀ x ∈ c.methods, x.id ∈ api.functions.map (·.id)) ∧
  (∀ x, c.ctor = some x → x.id ∈ api.functions.map (·.id)) ∧ (∀ x ∈ c.attributes, x.id ∈ api.attributes.map (·.id))

def k12_EnumR (api : AnaResult) (e : Enum) : Prop := ∀ x ∈ e.instances, x.id ∈ api.enumInstances.map (·.id)

def k12_ModR (api : AnaResult) (m : Module) : Prop :=
  (∀ x ∈ m.classes, x.id ∈ api.classes.map (·.id)) ∧ (∀ x ∈ m.functions, x.id ∈ api.functions.map (·.id)) ∧
  (∀ x ∈ m.enums, x.id ∈ api.enums.map (·.id))

def k12_FrameR (api : AnaResult) : Frame → Prop
  | .module m => k12_ModR api m
  | .cls c => k12_ClsR api c
  | .enum e => k12_EnumR api e
  | _ => True

/-- the id sets of the tables only grow -/
structure k12_Sub (a b : AnaResult) : Prop where
  classes : ∀ k, k ∈ a.classes.map (·.id) → k ∈ b.classes.map (·.id)
  functions : ∀ k, k ∈ a.functions.map (·.id) → k ∈ b.functions.map (·.id)
  results : ∀ k, k ∈ a.results.map (·.id) → k ∈ b.results.map (·.id)
  enums : ∀ k, k ∈ a.enums.map (·.id) → k ∈ b.enums.map (·.id)
  enumInstances : ∀ k, k ∈ a.enumInstances.map (·.id) → k ∈ b.enumInstances.map (·.id)
  attributes : ∀ k, k ∈ a.attributes.map (·.id) → k ∈ b.attributes.map (·.id)
  parameters : ∀ k, k ∈ a.parameters.map (·.id) → k ∈ b.parameters.map (·.id)

theorem k12_FnR.mono {a b : AnaResult} (h : k12_Sub a b) {f : Function} (hf : k12_FnR a f) : k12_FnR b f :=
  ⟨fun p hp => h.parameters _ (hf.1 p hp), fun r hr => h.results _ (hf.2 r hr)⟩

theorem k12_ClsR.mono {a b : AnaResult} (h : k12_Sub a b) {c : Class} (hc : k12_ClsR a c) : k12_ClsR b c :=
  ⟨fun x hx => h.classes _ (hc.1 x hx), fun x hx => h.functions _ (hc.2.1 x hx),
   fun x hx => h.functions _ (hc.2.2.1 x hx), fun x hx => h.attributes _ (hc.2.2.2 x hx)⟩

theorem k12_EnumR.mono {a b : AnaResult} (h : k12_Sub a b) {e : Enum} (he : k12_EnumR a e) : k12_EnumR b e :=
  fun x hx => h.enumInstances _ (he x hx)

theorem k12_ModR.mono {a b : AnaResult} (h : k12_Sub a b) {m : Module} (hm : k12_ModR a m) : k12_ModR b m :=
  ⟨fun x hx => h.classes _ (hm.1 x hx), fun x hx => h.functions _ (hm.2.1 x hx), fun x hx => h.enums _ (hm.2.2 x hx)⟩

theorem k12_FrameR.mono {a b : AnaResult} (h : k12_Sub a b) {fr : Frame} (hf : k12_FrameR a fr) : k12_FrameR b fr := by
  cases fr with
  | module m => exact k12_ModR.mono h hf
  | cls c => exact k12_ClsR.mono h hf
  | enum e => exact k12_EnumR.mono h hf
  | _ => trivial

structure k12_RefInv (api : AnaResult) (stk : List Frame) : Prop where
  modules : ∀ m ∈ api.modules, k12_ModR api m
  classes : ∀ c ∈ api.classes, k12_ClsR api c
  functions : ∀ f ∈ api.functions, k12_FnR api f
  enums : ∀ e ∈ api.enums, k12_EnumR api e
  frames : ∀ fr ∈ stk, k12_FrameR api fr

theorem k12_RefInv.mono {a b : AnaResult} {stk : List Frame} (h : k12_Sub a b) (hi : k12_RefInv a stk)
    (hm : b.modules = a.modules) (hc : b.classes = a.classes) (hf : b.functions = a.functions) (he : b.enums = a.enums) :
    k12_RefInv b stk :=
  ⟨fun m hx => k12_ModR.mono h (hi.modules m (hm ▸ hx)), fun m hx => k12_ClsR.mono h (hi.classes m (hc ▸ hx)),
   fun m hx => k12_FnR.mono h (hi.functions m (hf ▸ hx)), fun m hx => k12_EnumR.mono h (hi.enums m (he ▸ hx)),
   fun fr hfr => k12_FrameR.mono h (hi.frames fr hfr)⟩

theorem k12_RefInv.frames' {a : AnaResult} {stk stk' : List Frame} (hi : k12_RefInv a stk)
    (h : ∀ fr ∈ stk', k12_FrameR a fr) : k12_RefInv a stk' :=
  ⟨hi.modules, hi.classes, hi.functions, hi.enums, h⟩

theorem k12_Sub.refl (a : AnaResult) : k12_Sub a a :=
  ⟨fun _ h => h, fun _ h => h, fun _ h => h, fun _ h => h, fun _ h => h, fun _ h => h, fun _ h => h⟩

theorem k12_sub_dictSet {α : Type} (key : α → String) (tbl : List α) (v : α) :
    ∀ k, k ∈ tbl.map key → k ∈ (dictSet key tbl v).map key :=
  fun k hk => (k12_dictSet_ids key tbl v k).2 (Or.inl hk)

theorem k12_new_dictSet {α : Type} (key : α → String) (tbl : List α) (v : α) : key v ∈ (dictSet key tbl v).map key :=
  (k12_dictSet_ids key tbl v _).2 (Or.inr rfl)

theorem k12_RefInv_step {a : AnaResult} {s : List Frame} {e : List Function} {cs : List Class} {a' : AnaResult}
    {s' : List Frame} (h : k12_Step a s e cs a' s') (hi : k12_RefInv a s) : k12_RefInv a' s' := by
  cases h with
  | reexp =>
    exact k12_RefInv.mono (a := a) ⟨fun _ h => h, fun _ h => h, fun _ h => h, fun _ h => h, fun _ h => h, fun _ h => h,
      fun _ h => h⟩ hi rfl rfl rfl rfl
  | pushModule _ m h1 h2 h3 =>
    refine hi.frames' (fun fr hfr => (List.mem_cons.1 hfr).elim (fun e => ?_) (hi.frames fr))
    rw [e]
    refine ⟨?_, ?_, ?_⟩
    · rw [h1]; exact fun _ h => absurd h List.not_mem_nil
    · rw [h2]; exact fun _ h => absurd h List.not_mem_nil
    · rw [h3]; exact fun _ h => absurd h List.not_mem_nil
  | popModule m rest =>
    have hm : k12_ModR a m := hi.frames (.module m) List.mem_cons_self
    refine ⟨?_, hi.classes, hi.functions, hi.enums, fun fr hfr => hi.frames fr (List.mem_cons_of_mem _ hfr)⟩
    intro x hx
    rcases k12_mem_dictSet _ hx with rfl | hx
    · exact hm
    · exact hi.modules x hx
  | pushFn _ fn hok hne =>
    exact hi.frames' (fun fr hfr => (List.mem_cons.1 hfr).elim (fun e => e ▸ trivial) (hi.frames fr))
  | popFn f parent up =>
    have hsub : k12_Sub a (k12_apiAddFn a f) :=
      ⟨fun _ h => h, k12_sub_dictSet _ _ _, fun k hk => (k12_foldl_dictSet_ids _ _ _ k).2 (Or.inl hk), fun _ h => h,
       fun _ h => h, fun _ h => h, fun k hk => (k12_foldl_dictSet_ids _ _ _ k).2 (Or.inl hk)⟩
    have hnew : f.id ∈ (k12_apiAddFn a f).functions.map (·.id) := k12_new_dictSet _ _ _
    have hfr : k12_FnR (k12_apiAddFn a f) f :=
      ⟨fun p hp => (k12_foldl_dictSet_ids _ _ _ _).2 (Or.inr (List.mem_map.2 ⟨p, hp, rfl⟩)),
       fun p hp => (k12_foldl_dictSet_ids _ _ _ _).2 (Or.inr (List.mem_map.2 ⟨p, hp, rfl⟩))⟩
    refine ⟨fun m hx => k12_ModR.mono hsub (hi.modules m hx), fun m hx => k12_ClsR.mono hsub (hi.classes m hx), ?_,
      fun m hx => k12_EnumR.mono hsub (hi.enums m hx), ?_⟩
    · intro x hx
      rcases k12_mem_dictSet _ hx with rfl | hx
      · exact hfr
      · exact k12_FnR.mono hsub (hi.functions x hx)
    · intro fr hfr'
      rcases List.mem_cons.1 hfr' with rfl | hfr'
      · have hp := k12_FrameR.mono hsub (hi.frames parent (List.mem_cons_of_mem _ List.mem_cons_self))
        cases parent with
        | module m =>
          refine ⟨hp.1, ?_, hp.2.2⟩
          intro x hx
          rcases List.mem_append.1 hx with hx | hx
          · exact hp.2.1 x hx
          · rw [List.mem_singleton.1 hx]; exact hnew
        | cls c =>
          show k12_FrameR _ (if f.name == "__init__" then _ else _)
          split
          · refine ⟨hp.1, hp.2.1, ?_, hp.2.2.2⟩
            intro x hx
            simp only [Option.some.injEq] at hx
            rw [← hx]; exact hnew
          · refine ⟨hp.1, ?_, hp.2.2.1, hp.2.2.2⟩
            intro x hx
            rcases List.mem_append.1 hx with hx | hx
            · exact hp.2.1 x hx
            · rw [List.mem_singleton.1 hx]; exact hnew
        | _ => exact hp
      · exact k12_FrameR.mono hsub (hi.frames fr (List.mem_cons_of_mem _ (List.mem_cons_of_mem _ hfr')))
  | pushCls _ c hok hne =>
    refine hi.frames' (fun fr hfr => (List.mem_cons.1 hfr).elim (fun e => ?_) (hi.frames fr))
    rw [e]
    refine ⟨?_, ?_, ?_, ?_⟩
    · rw [hok.classes]; exact fun _ h => absurd h List.not_mem_nil
    · rw [hok.methods]; exact fun _ h => absurd h List.not_mem_nil
    · rw [hok.ctor]; exact fun _ h => absurd h (by simp)
    · rw [hok.attributes]; exact fun _ h => absurd h List.not_mem_nil
  | popClsM c m up =>
    have hsub : k12_Sub a { a with classes := dictSet (·.id) a.classes c } :=
      { k12_Sub.refl a with classes := k12_sub_dictSet _ _ _ }
    have hc := k12_FrameR.mono hsub (hi.frames (.cls c) List.mem_cons_self)
    refine ⟨fun m hx => k12_ModR.mono hsub (hi.modules m hx), ?_, fun m hx => k12_FnR.mono hsub (hi.functions m hx),
      fun m hx => k12_EnumR.mono hsub (hi.enums m hx), ?_⟩
    · intro x hx
      rcases k12_mem_dictSet _ hx with rfl | hx
      · exact hc
      · exact k12_ClsR.mono hsub (hi.classes x hx)
    · intro fr hfr'
      rcases List.mem_cons.1 hfr' with rfl | hfr'
      · have hp := k12_FrameR.mono hsub (hi.frames (.module m) (List.mem_cons_of_mem _ List.mem_cons_self))
        refine ⟨?_, hp.2.1, hp.2.2⟩
        intro x hx
        rcases List.mem_append.1 hx with hx | hx
        · exact hp.1 x hx
        · rw [List.mem_singleton.1 hx]; exact k12_new_dictSet _ _ _
      · exact k12_FrameR.mono hsub (hi.frames fr (List.mem_cons_of_mem _ (List.mem_cons_of_mem _ hfr')))
  | popClsC c p up =>
    have hsub : k12_Sub a { a with classes := dictSet (·.id) a.classes c } :=
      { k12_Sub.refl a with classes := k12_sub_dictSet _ _ _ }
    have hc := k12_FrameR.mono hsub (hi.frames (.cls c) List.mem_cons_self)
    refine ⟨fun m hx => k12_ModR.mono hsub (hi.modules m hx), ?_, fun m hx => k12_FnR.mono hsub (hi.functions m hx),
      fun m hx => k12_EnumR.mono hsub (hi.enums m hx), ?_⟩
    · intro x hx
      rcases k12_mem_dictSet _ hx with rfl | hx
      · exact hc
      · exact k12_ClsR.mono hsub (hi.classes x hx)
    · intro fr hfr'
      rcases List.mem_cons.1 hfr' with rfl | hfr'
      · have hp := k12_FrameR.mono hsub (hi.frames (.cls p) (List.mem_cons_of_mem _ List.mem_cons_self))
        refine ⟨?_, hp.2.1, hp.2.2.1, hp.2.2.2⟩
        intro x hx
        rcases List.mem_append.1 hx with hx | hx
        · exact hp.1 x hx
        · rw [List.mem_singleton.1 hx]; exact k12_new_dictSet _ _ _
      · exact k12_FrameR.mono hsub (hi.frames fr (List.mem_cons_of_mem _ (List.mem_cons_of_mem _ hfr')))
  | pushEnum _ en hok hne =>
    refine hi.frames' (fun fr hfr => (List.mem_cons.1 hfr).elim (fun e => ?_) (hi.frames fr))
    rw [e]
    show k12_EnumR _ en
    unfold k12_EnumR
    rw [hok.instances]; exact fun _ h => absurd h List.not_mem_nil
  | popEnumM en m up =>
    have hsub : k12_Sub a { a with enums := dictSet (·.id) a.enums en } :=
      { k12_Sub.refl a with enums := k12_sub_dictSet _ _ _ }
    have hc := k12_FrameR.mono hsub (hi.frames (.enum en) List.mem_cons_self)
    refine ⟨fun m hx => k12_ModR.mono hsub (hi.modules m hx), fun m hx => k12_ClsR.mono hsub (hi.classes m hx),
      fun m hx => k12_FnR.mono hsub (hi.functions m hx), ?_, ?_⟩
    · intro x hx
      rcases k12_mem_dictSet _ hx with rfl | hx
      · exact hc
      · exact k12_EnumR.mono hsub (hi.enums x hx)
    · intro fr hfr'
      rcases List.mem_cons.1 hfr' with rfl | hfr'
      · have hp := k12_FrameR.mono hsub (hi.frames (.module m) (List.mem_cons_of_mem _ List.mem_cons_self))
        refine ⟨hp.1, hp.2.1, ?_⟩
        intro x hx
        rcases List.mem_append.1 hx with hx | hx
        · exact hp.2.2 x hx
        · rw [List.mem_singleton.1 hx]; exact k12_new_dictSet _ _ _
      · exact k12_FrameR.mono hsub (hi.frames fr (List.mem_cons_of_mem _ (List.mem_cons_of_mem _ hfr')))
  | dropEnum en rest => exact hi.frames' (fun fr hfr => hi.frames fr (List.mem_cons_of_mem _ hfr))
  | addAttrF f c up att hok =>
    have hsub : k12_Sub a { a with attributes := dictSet (·.id) a.attributes att } :=
      { k12_Sub.refl a with attributes := k12_sub_dictSet _ _ _ }
    refine (hi.mono hsub rfl rfl rfl rfl).frames' ?_
    intro fr hfr'
    rcases List.mem_cons.1 hfr' with rfl | hfr'
    · trivial
    · rcases List.mem_cons.1 hfr' with rfl | hfr'
      · have hp := k12_FrameR.mono hsub (hi.frames (.cls c) (List.mem_cons_of_mem _ List.mem_cons_self))
        refine ⟨hp.1, hp.2.1, hp.2.2.1, ?_⟩
        intro x hx
        rcases List.mem_append.1 hx with hx | hx
        · exact hp.2.2.2 x hx
        · rw [List.mem_singleton.1 hx]; exact k12_new_dictSet _ _ _
      · exact k12_FrameR.mono hsub (hi.frames fr (List.mem_cons_of_mem _ (List.mem_cons_of_mem _ hfr')))
  | addAttrC c up att hok =>
    have hsub : k12_Sub a { a with attributes := dictSet (·.id) a.attributes att } :=
      { k12_Sub.refl a with attributes := k12_sub_dictSet _ _ _ }
    refine (hi.mono hsub rfl rfl rfl rfl).frames' ?_
    intro fr hfr'
    rcases List.mem_cons.1 hfr' with rfl | hfr'
    · have hp := k12_FrameR.mono hsub (hi.frames (.cls c) List.mem_cons_self)
      refine ⟨hp.1, hp.2.1, hp.2.2.1, ?_⟩
      intro x hx
      rcases List.mem_append.1 hx with hx | hx
      · exact hp.2.2.2 x hx
      · rw [List.mem_singleton.1 hx]; exact k12_new_dictSet _ _ _
    · exact k12_FrameR.mono hsub (hi.frames fr (List.mem_cons_of_mem _ hfr'))
  | addInst en up inst hid =>
    have hsub : k12_Sub a { a with enumInstances := dictSet (·.id) a.enumInstances inst } :=
      { k12_Sub.refl a with enumInstances := k12_sub_dictSet _ _ _ }
    refine (hi.mono hsub rfl rfl rfl rfl).frames' ?_
    intro fr hfr'
    rcases List.mem_cons.1 hfr' with rfl | hfr'
    · have hp := k12_FrameR.mono hsub (hi.frames (.enum en) List.mem_cons_self)
      intro x hx
      rcases List.mem_append.1 hx with hx | hx
      · exact hp x hx
      · rw [List.mem_singleton.1 hx]; exact k12_new_dictSet _ _ _
    · exact k12_FrameR.mono hsub (hi.frames fr (List.mem_cons_of_mem _ hfr'))

theorem k12_analyze_refs {env : AEnv} {root : GNode} {mods : List SrcModule} {r : AnaResult} {w : List String}
    (h : analyze env root mods = .ok (r, w)) : k12_RefInv r [] := by
  obtain ⟨evs, _, hsteps, _, _⟩ := k12_analyze_steps h
  refine k12_Steps_inv k12_RefInv (fun _ _ _ _ _ _ hs hi => k12_RefInv_step hs hi) hsteps ?_
  exact ⟨fun _ h => absurd h List.not_mem_nil, fun _ h => absurd h List.not_mem_nil,
    fun _ h => absurd h List.not_mem_nil, fun _ h => absurd h List.not_mem_nil, fun _ h => absurd h List.not_mem_nil⟩


/-! ### the `functions` table is the fold of the recorded functions -/

theorem k12_Step_functions {a : AnaResult} {s : List Frame} {e : List Function} {cs : List Class} {a' : AnaResult}
    {s' : List Frame} (h : k12_Step a s e cs a' s') : a'.functions = e.foldl (dictSet (·.id)) a.functions := by
  cases h <;> rfl

theorem k12_Steps_functions {a : AnaResult} {s : List Frame} {e : List Function} {cs : List Class} {a' : AnaResult}
    {s' : List Frame} (h : k12_Steps a s e cs a' s') : a'.functions = e.foldl (dictSet (·.id)) a.functions := by
  induction h with
  | refl => rfl
  | cons h1 _ he _ ih => rw [ih, k12_Step_functions h1, he, List.foldl_append]

/-! ### parameters and results come from the recorded functions -/

theorem k12_Step_parts {a : AnaResult} {s : List Frame} {e : List Function} {cs : List Class} {a' : AnaResult}
    {s' : List Frame} (h : k12_Step a s e cs a' s') :
    (∀ p ∈ a'.parameters, p ∈ a.parameters ∨ ∃ f ∈ e, p ∈ f.params) ∧
    (∀ x ∈ a'.results, x ∈ a.results ∨ ∃ f ∈ e, x ∈ f.results) := by
  cases h with
  | popFn f parent up =>
    refine ⟨fun p hp => ?_, fun x hx => ?_⟩
    · rcases k12_mem_foldl_dictSet _ _ hp with hp | hp
      · exact Or.inr ⟨f, List.mem_singleton.2 rfl, hp⟩
      · exact Or.inl hp
    · rcases k12_mem_foldl_dictSet _ _ hx with hx | hx
      · exact Or.inr ⟨f, List.mem_singleton.2 rfl, hx⟩
      · exact Or.inl hx
  | _ => exact ⟨fun _ hp => Or.inl hp, fun _ hx => Or.inl hx⟩

theorem k12_Steps_parts {a : AnaResult} {s : List Frame} {e : List Function} {cs : List Class} {a' : AnaResult}
    {s' : List Frame} (h : k12_Steps a s e cs a' s') :
    (∀ p ∈ a'.parameters, p ∈ a.parameters ∨ ∃ f ∈ e, p ∈ f.params) ∧
    (∀ x ∈ a'.results, x ∈ a.results ∨ ∃ f ∈ e, x ∈ f.results) := by
  induction h with
  | refl => exact ⟨fun _ hp => Or.inl hp, fun _ hx => Or.inl hx⟩
  | cons h1 _ he _ ih =>
    have h0 := k12_Step_parts h1
    subst he
    refine ⟨fun p hp => ?_, fun x hx => ?_⟩
    · rcases ih.1 p hp with hp | ⟨f, hf, hp⟩
      · rcases h0.1 p hp with hp | ⟨f, hf, hp⟩
        · exact Or.inl hp
        · exact Or.inr ⟨f, List.mem_append_left _ hf, hp⟩
      · exact Or.inr ⟨f, List.mem_append_right _ hf, hp⟩
    · rcases ih.2 x hx with hx | ⟨f, hf, hx⟩
      · rcases h0.2 x hx with hx | ⟨f, hf, hx⟩
        · exact Or.inl hx
        · exact Or.inr ⟨f, List.mem_append_left _ hf, hx⟩
      · exact Or.inr ⟨f, List.mem_append_right _ hf, hx⟩

/-- without two writes to one key the table is the list of the written values -/
theorem k12_foldl_dictSet_of_nodup {α : Type} (key : α → String) : ∀ (vs tbl : List α),
    ((tbl ++ vs).map key).Nodup → vs.foldl (dictSet key) tbl = tbl ++ vs
  | [], tbl, _ => by simp
  | v :: vs, tbl, h => by
    have hv : dictSet key tbl v = tbl ++ [v] := by
      unfold dictSet
      rw [if_neg]
      intro hany
      rw [List.any_eq_true] at hany
      obtain ⟨x, hx, he⟩ := hany
      rw [List.map_append, List.nodup_append] at h
      exact h.2.2 (key x) (List.mem_map.2 ⟨x, hx, rfl⟩) (key v) (List.mem_map.2 ⟨v, List.mem_cons_self, rfl⟩)
        (by simpa using he)
    rw [List.foldl_cons, hv, k12_foldl_dictSet_of_nodup key vs (tbl ++ [v]) (by simpa using h)]
    simp

theorem k12_evs_ids {src : List (String × FuncDef)} {evs : List Function} (h : List.Forall₂ k12_EvMatch src evs) :
    evs.map (·.id) = src.map (·.1) := by
  induction h with
  | nil => rfl
  | cons hq _ ih => rw [List.map_cons, List.map_cons, ih, hq.1]

/-- if no two visited function definitions get the same id, every parameter and every result of the tables is
    listed by a function of the table -/
theorem k12_analyze_parts {env : AEnv} {root : GNode} {mods : List SrcModule} {r : AnaResult} {w : List String}
    (h : analyze env root mods = .ok (r, w)) (hu : ((k12_srcFuncs mods).map (·.1)).Nodup) :
    (∀ p ∈ r.parameters, ∃ f ∈ r.functions, p ∈ f.params) ∧ (∀ x ∈ r.results, ∃ f ∈ r.functions, x ∈ f.results) := by
  obtain ⟨evs, _, hsteps, hm, _⟩ := k12_analyze_steps h
  have hfun : r.functions = evs := by
    rw [k12_Steps_functions hsteps]
    have := k12_foldl_dictSet_of_nodup (fun (f : Function) => f.id) evs [] (by rw [List.nil_append, k12_evs_ids hm]; exact hu)
    rw [List.nil_append] at this
    exact this
  have hp := k12_Steps_parts hsteps
  rw [hfun]
  refine ⟨fun p hp' => ?_, fun x hx => ?_⟩
  · rcases hp.1 p hp' with h0 | h0
    · exact absurd h0 List.not_mem_nil
    · exact h0
  · rcases hp.2 x hx with h0 | h0
    · exact absurd h0 List.not_mem_nil
    · exact h0

/-! ### attributes come from the stored classes -/

theorem k12_Step_classes {a : AnaResult} {s : List Frame} {e : List Function} {cs : List Class} {a' : AnaResult}
    {s' : List Frame} (h : k12_Step a s e cs a' s') : a'.classes = cs.foldl (dictSet (·.id)) a.classes := by
  cases h <;> rfl

theorem k12_Steps_classes {a : AnaResult} {s : List Frame} {e : List Function} {cs : List Class} {a' : AnaResult}
    {s' : List Frame} (h : k12_Steps a s e cs a' s') : a'.classes = cs.foldl (dictSet (·.id)) a.classes := by
  induction h with
  | refl => rfl
  | cons h1 _ _ hc ih => rw [ih, k12_Step_classes h1, hc, List.foldl_append]

/-- the attribute is listed by one of the classes `P` (the classes stored so far) or by a class that is still open -/
def k12_Listed (P : List Class) (stk : List Frame) (x : Attribute) : Prop :=
  (∃ c ∈ P, x ∈ c.attributes) ∨ (∃ c, Frame.cls c ∈ stk ∧ x ∈ c.attributes)

theorem k12_Listed.of_sub {P P' : List Class} {s s' : List Frame} {x : Attribute} (h : k12_Listed P s x)
    (hP : ∀ c ∈ P, c ∈ P') (hs : ∀ c, Frame.cls c ∈ s → x ∈ c.attributes → k12_Listed P' s' x) : k12_Listed P' s' x := by
  rcases h with ⟨c, hc, hx⟩ | ⟨c, hc, hx⟩
  · exact Or.inl ⟨c, hP c hc, hx⟩
  · exact hs c hc hx

theorem k12_Listed_step {a : AnaResult} {s : List Frame} {e : List Function} {cs : List Class} {a' : AnaResult}
    {s' : List Frame} (h : k12_Step a s e cs a' s') {P P' : List Class} (hP : ∀ c ∈ P, c ∈ P') (hcs : ∀ c ∈ cs, c ∈ P')
    {x : Attribute} (hx : k12_Listed P s x) : k12_Listed P' s' x := by
  cases h with
  | reexp => exact hx.of_sub hP (fun c hc hm => Or.inr ⟨c, hc, hm⟩)
  | pushModule _ m _ _ _ => exact hx.of_sub hP (fun c hc hm => Or.inr ⟨c, List.mem_cons_of_mem _ hc, hm⟩)
  | popModule m rest =>
    refine hx.of_sub hP (fun c hc hm => Or.inr ⟨c, ?_, hm⟩)
    rcases List.mem_cons.1 hc with hc | hc
    · exact absurd hc (by simp)
    · exact hc
  | pushFn _ fn _ _ => exact hx.of_sub hP (fun c hc hm => Or.inr ⟨c, List.mem_cons_of_mem _ hc, hm⟩)
  | popFn f parent up =>
    refine hx.of_sub hP (fun c hc hm => Or.inr ?_)
    rcases List.mem_cons.1 hc with hc | hc
    · exact absurd hc (by simp)
    rcases List.mem_cons.1 hc with hc | hc
    · subst hc
      refine ⟨if f.name == "__init__" then { c with ctor := some f } else { c with methods := c.methods ++ [f] },
        ?_, ?_⟩
      · refine List.mem_cons.2 (Or.inl ?_)
        show _ = (if f.name == "__init__" then _ else _)
        split <;> rfl
      · split <;> exact hm
    · exact ⟨c, List.mem_cons_of_mem _ hc, hm⟩
  | pushCls _ c _ _ => exact hx.of_sub hP (fun c hc hm => Or.inr ⟨c, List.mem_cons_of_mem _ hc, hm⟩)
  | popClsM c m up =>
    refine hx.of_sub hP (fun y hy hm => ?_)
    rcases List.mem_cons.1 hy with hy | hy
    · simp only [Frame.cls.injEq] at hy
      subst hy
      exact Or.inl ⟨y, hcs y (List.mem_singleton.2 rfl), hm⟩
    rcases List.mem_cons.1 hy with hy | hy
    · exact absurd hy (by simp)
    · exact Or.inr ⟨y, List.mem_cons_of_mem _ hy, hm⟩
  | popClsC c p up =>
    refine hx.of_sub hP (fun y hy hm => ?_)
    rcases List.mem_cons.1 hy with hy | hy
    · simp only [Frame.cls.injEq] at hy
      subst hy
      exact Or.inl ⟨y, hcs y (List.mem_singleton.2 rfl), hm⟩
    rcases List.mem_cons.1 hy with hy | hy
    · simp only [Frame.cls.injEq] at hy
      subst hy
      exact Or.inr ⟨_, List.mem_cons_self, hm⟩
    · exact Or.inr ⟨y, List.mem_cons_of_mem _ hy, hm⟩
  | pushEnum _ en _ _ => exact hx.of_sub hP (fun c hc hm => Or.inr ⟨c, List.mem_cons_of_mem _ hc, hm⟩)
  | popEnumM en m up =>
    refine hx.of_sub hP (fun c hc hm => Or.inr ⟨c, ?_, hm⟩)
    rcases List.mem_cons.1 hc with hc | hc
    · exact absurd hc (by simp)
    rcases List.mem_cons.1 hc with hc | hc
    · exact absurd hc (by simp)
    · exact List.mem_cons_of_mem _ hc
  | dropEnum en rest =>
    refine hx.of_sub hP (fun c hc hm => Or.inr ⟨c, ?_, hm⟩)
    rcases List.mem_cons.1 hc with hc | hc
    · exact absurd hc (by simp)
    · exact hc
  | addAttrF f c up att _ =>
    refine hx.of_sub hP (fun y hy hm => Or.inr ?_)
    rcases List.mem_cons.1 hy with hy | hy
    · exact absurd hy (by simp)
    rcases List.mem_cons.1 hy with hy | hy
    · simp only [Frame.cls.injEq] at hy
      subst hy
      exact ⟨_, List.mem_cons_of_mem _ List.mem_cons_self, List.mem_append_left _ hm⟩
    · exact ⟨y, List.mem_cons_of_mem _ (List.mem_cons_of_mem _ hy), hm⟩
  | addAttrC c up att _ =>
    refine hx.of_sub hP (fun y hy hm => Or.inr ?_)
    rcases List.mem_cons.1 hy with hy | hy
    · simp only [Frame.cls.injEq] at hy
      subst hy
      exact ⟨_, List.mem_cons_self, List.mem_append_left _ hm⟩
    · exact ⟨y, List.mem_cons_of_mem _ hy, hm⟩
  | addInst en up inst _ =>
    refine hx.of_sub hP (fun c hc hm => Or.inr ⟨c, ?_, hm⟩)
    rcases List.mem_cons.1 hc with hc | hc
    · exact absurd hc (by simp)
    · exact List.mem_cons_of_mem _ hc

theorem k12_ListedInv_step {a : AnaResult} {s : List Frame} {e : List Function} {cs : List Class} {a' : AnaResult}
    {s' : List Frame} (h : k12_Step a s e cs a' s') {P : List Class} (hi : ∀ x ∈ a.attributes, k12_Listed P s x) :
    ∀ x ∈ a'.attributes, k12_Listed (P ++ cs) s' x := by
  have hold : ∀ x, k12_Listed P s x → k12_Listed (P ++ cs) s' x :=
    fun x hx => k12_Listed_step h (fun c hc => List.mem_append_left _ hc) (fun c hc => List.mem_append_right _ hc) hx
  cases h with
  | addAttrF f c up att _ =>
    intro x hx
    rcases k12_mem_dictSet _ hx with rfl | hx
    · exact Or.inr ⟨_, List.mem_cons_of_mem _ List.mem_cons_self, List.mem_append_right _ (List.mem_singleton.2 rfl)⟩
    · exact hold x (hi x hx)
  | addAttrC c up att _ =>
    intro x hx
    rcases k12_mem_dictSet _ hx with rfl | hx
    · exact Or.inr ⟨_, List.mem_cons_self, List.mem_append_right _ (List.mem_singleton.2 rfl)⟩
    · exact hold x (hi x hx)
  | _ => exact fun x hx => hold x (hi x hx)

theorem k12_ListedInv_steps {a : AnaResult} {s : List Frame} {e : List Function} {cs : List Class} {a' : AnaResult}
    {s' : List Frame} (h : k12_Steps a s e cs a' s') : ∀ {P : List Class}, (∀ x ∈ a.attributes, k12_Listed P s x) →
    ∀ x ∈ a'.attributes, k12_Listed (P ++ cs) s' x := by
  induction h with
  | refl => intro P hi; rw [List.append_nil]; exact hi
  | cons h1 _ _ hc ih =>
    intro P hi
    have := ih (k12_ListedInv_step h1 hi)
    rw [hc, ← List.append_assoc]
    exact this

/-- if no two visited class definitions get the same id, every attribute of the table is listed by a class of the table -/
theorem k12_analyze_attrs {env : AEnv} {root : GNode} {mods : List SrcModule} {r : AnaResult} {w : List String}
    (h : analyze env root mods = .ok (r, w)) (hu : (k12_srcClasses mods).Nodup) :
    ∀ x ∈ r.attributes, ∃ c ∈ r.classes, x ∈ c.attributes := by
  obtain ⟨evs, cs, hsteps, _, hcs⟩ := k12_analyze_steps h
  have hcls : r.classes = cs := by
    rw [k12_Steps_classes hsteps]
    have := k12_foldl_dictSet_of_nodup (fun (c : Class) => c.id) cs [] (by rw [List.nil_append, hcs]; exact hu)
    rw [List.nil_append] at this
    exact this
  intro x hx
  have := k12_ListedInv_steps hsteps (P := []) (fun _ h0 => absurd h0 List.not_mem_nil) x hx
  rw [List.nil_append] at this
  rw [hcls]
  rcases this with h0 | ⟨c, hc, _⟩
  · exact h0
  · exact absurd hc List.not_mem_nil

/-- the last definition with id `id` in the walk order -/
def k12_lastDef (id : String) (src : List (String × FuncDef)) : Option FuncDef :=
  (src.reverse.find? (fun p => p.1 == id)).map (·.2)

theorem k12_lastDef_recorded_aux (tbl : List Function) : ∀ {rsrc : List (String × FuncDef)} {revs : List Function},
    List.Forall₂ k12_EvMatch rsrc revs → ∀ {id : String} {p : String × FuncDef}, rsrc.find? (fun p => p.1 == id) = some p →
    ∃ fn ∈ revs.foldr (fun v t => dictSet (·.id) t v) tbl, fn.id = id ∧ k12_FnMatch p.2 fn := by
  intro rsrc revs h
  induction h with
  | nil => intro id p hp; simp at hp
  | @cons q fn rsrc revs hq _ ih =>
    intro id p hp
    rw [List.foldr_cons]
    rw [List.find?_cons] at hp
    split at hp
    · rename_i hqid
      simp only [Option.some.injEq] at hp
      subst hp
      exact ⟨fn, k12_self_mem_dictSet _ _ _, by rw [hq.1]; simpa using hqid, hq.2⟩
    · rename_i hqid
      obtain ⟨fn', hfn', hid', hm'⟩ := ih hp
      refine ⟨fn', k12_mem_dictSet_of_ne _ hfn' ?_, hid', hm'⟩
      rw [hid', hq.1]
      intro e
      rw [e] at hqid
      simp at hqid

theorem k12_lastDef_recorded {src : List (String × FuncDef)} {evs : List Function} (h : List.Forall₂ k12_EvMatch src evs)
    {id : String} {f : FuncDef} (hl : k12_lastDef id src = some f) :
    ∃ fn ∈ evs.foldl (dictSet (·.id)) [], fn.id = id ∧ k12_FnMatch f fn := by
  unfold k12_lastDef at hl
  cases hp : src.reverse.find? (fun p => p.1 == id) with
  | none => rw [hp] at hl; simp at hl
  | some p =>
    rw [hp] at hl
    simp only [Option.map_some, Option.some.injEq] at hl
    have := k12_lastDef_recorded_aux [] (List.rel_reverse h) hp
    rw [List.foldr_reverse] at this
    rw [← hl]
    exact this

theorem k12_analyze_lastDef {env : AEnv} {root : GNode} {mods : List SrcModule} {r : AnaResult} {w : List String}
    (h : analyze env root mods = .ok (r, w)) {id : String} {f : FuncDef} (hl : k12_lastDef id (k12_srcFuncs mods) = some f) :
    ∃ fn ∈ r.functions, fn.id = id ∧ k12_FnMatch f fn := by
  obtain ⟨evs, _, hsteps, hm, _⟩ := k12_analyze_steps h
  rw [k12_Steps_functions hsteps]
  exact k12_lastDef_recorded hm hl

theorem k12_lastDef_of_unique {src : List (String × FuncDef)} {id : String} {f : FuncDef} (hmem : (id, f) ∈ src)
    (huniq : ∀ p ∈ src, p.1 = id → p.2 = f) : k12_lastDef id src = some f := by
  unfold k12_lastDef
  cases hp : src.reverse.find? (fun p => p.1 == id) with
  | none =>
    have := List.find?_eq_none.1 hp (id, f) (List.mem_reverse.2 hmem)
    simp at this
  | some p =>
    have h1 := List.find?_some hp
    have h2 := List.mem_of_find?_eq_some hp
    simp only [Option.map_some, Option.some.injEq]
    exact huniq p (List.mem_reverse.1 h2) (by simpa using h1)

theorem k12_mem_defsFuncs {pre : List String} {mode : WalkMode} {p : String × FuncDef} : ∀ {ds : List Def} {d : Def},
    d ∈ ds → p ∈ k12_defFuncs pre mode d → p ∈ k12_defsFuncs pre mode ds
  | [], _, h, _ => absurd h List.not_mem_nil
  | d0 :: ds, d, h, hp => by
    unfold k12_defsFuncs
    rcases List.mem_cons.1 h with rfl | h
    · exact List.mem_append_left _ hp
    · exact List.mem_append_right _ (k12_mem_defsFuncs h hp)

theorem k12_mem_srcFuncs {p : String × FuncDef} : ∀ {ms : List SrcModule} {m : SrcModule},
    m ∈ ms → p ∈ k12_modFuncs m → p ∈ k12_srcFuncs ms
  | [], _, h, _ => absurd h List.not_mem_nil
  | m0 :: ms, m, h, hp => by
    unfold k12_srcFuncs
    rcases List.mem_cons.1 h with rfl | h
    · exact List.mem_append_left _ hp
    · exact List.mem_append_right _ (k12_mem_srcFuncs h hp)

/-- a top-level function of a module is in the list of recorded functions -/
theorem k12_toplevel_mem_srcFuncs {mods : List SrcModule} {m : SrcModule} {f : FuncDef} (hm : m ∈ mods)
    (hd : Def.func f ∈ m.defs ∨ Def.decorator f ∈ m.defs) :
    (replaceChar m.fullname '.' "/" ++ "/" ++ f.name, f) ∈ k12_srcFuncs mods := by
  refine k12_mem_srcFuncs hm ?_
  unfold k12_modFuncs
  rcases hd with hd | hd
  · refine k12_mem_defsFuncs hd ?_
    unfold k12_defFuncs
    rw [if_neg (by decide)]
    exact List.mem_singleton.2 rfl
  · refine k12_mem_defsFuncs hd ?_
    unfold k12_defFuncs
    rw [if_neg (by decide)]
    exact List.mem_singleton.2 rfl

/-- a top-level overloaded function with an implementation is in the list of recorded functions -/
theorem k12_toplevel_overloaded_mem_srcFuncs {mods : List SrcModule} {m : SrcModule} {f : FuncDef} (hm : m ∈ mods)
    (hd : Def.overloaded (some f) ∈ m.defs) :
    (replaceChar m.fullname '.' "/" ++ "/" ++ f.name, f) ∈ k12_srcFuncs mods := by
  refine k12_mem_srcFuncs hm ?_
  unfold k12_modFuncs
  refine k12_mem_defsFuncs hd ?_
  unfold k12_defFuncs
  rw [if_neg (by decide)]
  exact List.mem_singleton.2 rfl

theorem k12_joinWith3 (a b c : String) : joinWith "/" ([a] ++ [b] ++ [c]) = a ++ "/" ++ b ++ "/" ++ c := by
  show joinWith "/" [a, b, c] = _
  rw [k12_joinWith_cons2, k12_joinWith_cons2]
  show a ++ "/" ++ (b ++ "/" ++ c) = _
  simp only [String.append_assoc]

/-- a method of a top-level class is in the list of recorded functions -/
theorem k12_method_mem_srcFuncs {mods : List SrcModule} {m : SrcModule} {name fullname : String}
    {bases removed : List BaseExpr} {defs : List Def} {f : FuncDef} (hm : m ∈ mods)
    (hc : Def.cls name fullname bases removed defs ∈ m.defs) (he : isEnumClass bases = false)
    (hd : Def.func f ∈ defs ∨ Def.decorator f ∈ defs) :
    (replaceChar m.fullname '.' "/" ++ "/" ++ name ++ "/" ++ f.name, f) ∈ k12_srcFuncs mods := by
  refine k12_mem_srcFuncs hm ?_
  unfold k12_modFuncs
  refine k12_mem_defsFuncs hc ?_
  unfold k12_defFuncs
  rw [if_neg (by decide), he, if_neg (by decide)]
  rcases hd with hd | hd
  · refine k12_mem_defsFuncs hd ?_
    unfold k12_defFuncs
    rw [if_neg (by decide), k12_joinWith3]
    exact List.mem_singleton.2 rfl
  · refine k12_mem_defsFuncs hd ?_
    unfold k12_defFuncs
    rw [if_neg (by decide), k12_joinWith3]
    exact List.mem_singleton.2 rfl


end StubGen
