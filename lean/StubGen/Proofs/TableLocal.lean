/-
C18, analyser half: the walk of a module does not read the API TABLES that other modules filled.

A two-run simulation (same shape as the `opts.warn` simulation of `Proofs/Reconcile`): every function of the analyser is run
from a state `s` and from `t18_setT s u` — the same state with ALL tables of the API object (`modules`, `classes`,
`functions`, `results`, `enums`, `enumInstances`, `attributes`, `parameters`) replaced by those of an arbitrary `u`, the
re-export map kept.  The two runs return the same value and end in states that again differ in those tables only, or raise
the same error.  Hence the declaration stack — in particular the `Module` record being built — the docstring cache, the
type-variable set and the warning log evolve identically: the only channels through which one module can influence the
analysis of another are the alias table, the re-export map the package `__init__` files built, and the docstring tree.
-/
import StubGen.Proofs.Reconcile

namespace StubGen

/-- `s` with the tables of its API object replaced by those of `u` (the re-export map is kept) -/
@[reducible] def t18_setT (s : VSt) (u : AnaResult) : VSt := { s with api := { u with reexportMap := s.api.reexportMap } }

@[simp] theorem t18_setT_stack (s : VSt) (u : AnaResult) : (t18_setT s u).stack = s.stack := rfl
@[simp] theorem t18_setT_typeVars (s : VSt) (u : AnaResult) : (t18_setT s u).typeVars = s.typeVars := rfl
@[simp] theorem t18_setT_doc (s : VSt) (u : AnaResult) : (t18_setT s u).doc = s.doc := rfl
@[simp] theorem t18_setT_warnings (s : VSt) (u : AnaResult) : (t18_setT s u).warnings = s.warnings := rfl
@[simp] theorem t18_setT_fileFullname (s : VSt) (u : AnaResult) : (t18_setT s u).fileFullname = s.fileFullname := rfl
@[simp] theorem t18_setT_fileName (s : VSt) (u : AnaResult) : (t18_setT s u).fileName = s.fileName := rfl
@[simp] theorem t18_setT_seenNone (s : VSt) (u : AnaResult) : (t18_setT s u).seenNone = s.seenNone := rfl
@[simp] theorem t18_setT_reexportMap (s : VSt) (u : AnaResult) : (t18_setT s u).api.reexportMap = s.api.reexportMap := rfl
theorem t18_setT_self (s : VSt) : t18_setT s s.api = s := rfl

/-- two outcomes agree up to the API tables: the same value and `t' = t` with the tables of `t'`, or the same error -/
def t18_Rel {α : Type} : Except PyErr (α × VSt) → Except PyErr (α × VSt) → Prop
  | .ok (a, t), .ok (a', t') => a = a' ∧ t' = t18_setT t t'.api
  | .error e, .error e' => e = e'
  | _, _ => False

/-- `x` and `x'`, run from states that differ in the API tables only, agree up to the API tables -/
structure t18_Sim {α : Type} (x x' : V α) : Prop where
  run : ∀ (s : VSt) (u : AnaResult), t18_Rel (x s) (x' (t18_setT s u))

namespace t18_Sim
variable {α β : Type}

theorem pure (a : α) : t18_Sim (Pure.pure a : V α) (Pure.pure a) :=
  ⟨fun _ _ => ⟨rfl, rfl⟩⟩

theorem throw (e : PyErr) : t18_Sim (throwV e : V α) (throwV e) :=
  ⟨fun _ _ => rfl⟩

theorem bind {x x' : V α} {f f' : α → V β} (hx : t18_Sim x x') (hf : ∀ a, t18_Sim (f a) (f' a)) :
    t18_Sim (x >>= f) (x' >>= f') := by
  refine ⟨fun s u => ?_⟩
  have h := hx.run s u
  simp only [Bind.bind, StateT.bind, Except.bind]
  revert h
  cases x s with
  | error e =>
    cases x' (t18_setT s u) with
    | error e' => exact fun h => h
    | ok r' => exact fun h => h.elim
  | ok r =>
    obtain ⟨a, t⟩ := r
    cases x' (t18_setT s u) with
    | error e' => exact fun h => h.elim
    | ok r' =>
      obtain ⟨a', t'⟩ := r'
      rintro ⟨rfl, ht⟩
      have := (hf a).run t t'.api
      rw [← ht] at this
      exact this

theorem get_bind {f f' : VSt → V β} (hf : ∀ s u, t18_Sim (f s) (f' (t18_setT s u))) :
    t18_Sim (get >>= f) (get >>= f') :=
  ⟨fun s u => (hf s u).run s u⟩

theorem modify {g g' : VSt → VSt} (hg : ∀ s u, g' (t18_setT s u) = t18_setT (g s) (g' (t18_setT s u)).api) :
    t18_Sim (modify g : V PUnit) (modify g') :=
  ⟨fun s u => ⟨rfl, hg s u⟩⟩

theorem set {t t' : VSt} (ht : t' = t18_setT t t'.api) : t18_Sim (set t : V PUnit) (set t') :=
  ⟨fun _ _ => ⟨rfl, ht⟩⟩

theorem warn (m : String) : t18_Sim (warnV m) (warnV m) :=
  ⟨fun _ _ => ⟨rfl, rfl⟩⟩

theorem ite {c : Prop} {d1 d2 : Decidable c} {x y x' y' : V α} (h1 : c → t18_Sim x x') (h2 : ¬c → t18_Sim y y') :
    t18_Sim (@_root_.ite _ c d1 x y) (@_root_.ite _ c d2 x' y') := by
  by_cases h : c
  · rw [if_pos h, if_pos h]; exact h1 h
  · rw [if_neg h, if_neg h]; exact h2 h

theorem withDoc (f : ParserState → Except PyErr (α × ParserState)) : t18_Sim (withDoc f) (withDoc f) := by
  refine ⟨fun s u => ?_⟩
  show t18_Rel (match f s.doc with | .error e => .error e | .ok (a, d) => .ok (a, { s with doc := d }))
    (match f s.doc with | .error e => .error e | .ok (a, d) => .ok (a, { t18_setT s u with doc := d }))
  cases f s.doc with
  | error e => exact rfl
  | ok r => exact ⟨rfl, rfl⟩

end t18_Sim

/-! #### functions that read the state, but none of the tables -/

@[simp] theorem t18_createId_t (s : VSt) (u : AnaResult) (n : String) : createId (t18_setT s u) n = createId s n := rfl
@[simp] theorem t18_bottomModule_t (s : VSt) (u : AnaResult) : bottomModule (t18_setT s u) = bottomModule s := rfl
@[simp] theorem t18_findAlias_t (env : AEnv) (s : VSt) (u : AnaResult) (n k : String) :
    findAlias env (t18_setT s u) n k = findAlias env s n k := rfl
@[simp] theorem t18_isPublicV_t (s : VSt) (u : AnaResult) (n q : String) :
    isPublicV (t18_setT s u) n q = isPublicV s n q := rfl
@[simp] theorem t18_getReexportedBy_t (s : VSt) (u : AnaResult) (q : String) :
    getReexportedBy (t18_setT s u) q = getReexportedBy s q := rfl
@[simp] theorem t18_attributeAlreadyDefined_t (s : VSt) (u : AnaResult) (n : String) :
    attributeAlreadyDefined (t18_setT s u) n = attributeAlreadyDefined s n := rfl

open Lean in
macro "t18_sim" "[" ls:term,* "]" : tactic => do
  let alts ← ls.getElems.mapM fun l => `(tacticSeq| apply $l)
  `(tactic| repeat' (first
      | with_reducible exact t18_Sim.pure _
      | with_reducible exact t18_Sim.throw _
      | with_reducible exact t18_Sim.warn _
      | with_reducible exact t18_Sim.withDoc _
      | with_reducible assumption
      | ((with_reducible apply t18_Sim.modify); intro _ _; rfl)
      | ((with_reducible apply t18_Sim.set); rfl)
      | ((with_reducible apply t18_Sim.get_bind); intro _ _)
      $[| with_reducible $alts:tacticSeq]*
      | with_reducible apply t18_Sim.bind
      | with_reducible apply t18_Sim.ite
      | intro _
      | (dsimp only [t18_setT_stack, t18_setT_typeVars, t18_setT_doc, t18_setT_warnings, t18_setT_fileFullname,
          t18_setT_fileName, t18_setT_seenNone, t18_setT_reexportMap, t18_createId_t, t18_bottomModule_t, t18_findAlias_t,
          t18_isPublicV_t, t18_getReexportedBy_t, t18_attributeAlreadyDefined_t])
      | split))

section
variable (env : AEnv)

theorem t18_classDocumentation_sim (fullname : String) (defs : List Def) :
    t18_Sim (classDocumentation env fullname defs) (classDocumentation env fullname defs) := by
  unfold classDocumentation
  t18_sim []

theorem t18_functionDocumentation_sim (f : FuncDef) :
    t18_Sim (functionDocumentation env f) (functionDocumentation env f) := by
  unfold functionDocumentation
  t18_sim []

theorem t18_parameterDocumentation_sim (fq pname parent : String) :
    t18_Sim (parameterDocumentation env fq pname parent) (parameterDocumentation env fq pname parent) := by
  unfold parameterDocumentation
  t18_sim []

theorem t18_attributeDocumentation_sim (parent name : String) :
    t18_Sim (attributeDocumentation env parent name) (attributeDocumentation env parent name) := by
  unfold attributeDocumentation
  t18_sim []

theorem t18_resultDocumentation_sim (fq : String) :
    t18_Sim (resultDocumentation env fq) (resultDocumentation env fq) := by
  unfold resultDocumentation
  t18_sim []

end

mutual
theorem t18_toAbstractNoUn_sim (env : AEnv) :
    (t : MType) → t18_Sim (toAbstractNoUn env t) (toAbstractNoUn env t)
  | .tuple items => by
    have := t18_toAbstracts_sim env items
    unfold toAbstractNoUn
    t18_sim []
  | .union items => by
    have := t18_toAbstracts_sim env items
    unfold toAbstractNoUn
    t18_sim []
  | .typeVar name ub ubStr => by
    have := t18_toAbstractNoUn_sim env ub
    unfold toAbstractNoUn
    t18_sim []
  | .callable args ret => by
    have := t18_toAbstracts_sim env args
    have := t18_toAbstractNoUn_sim env ret
    unfold toAbstractNoUn
    t18_sim []
  | .any t missing => by
    unfold toAbstractNoUn
    t18_sim []
  | .none => by
    unfold toAbstractNoUn
    t18_sim []
  | .literal v => by
    unfold toAbstractNoUn
    t18_sim []
  | .unbound name args => by
    have := t18_toAbstracts_sim env args
    unfold toAbstractNoUn
    t18_sim []
  | .inst name fullname [] => by
    have := t18_toAbstracts_sim env []
    unfold toAbstractNoUn
    t18_sim []
  | .inst name fullname [k] => by
    have := t18_toAbstracts_sim env [k]
    unfold toAbstractNoUn
    t18_sim []
  | .inst name fullname (k :: v :: rest) => by
    have := t18_toAbstracts_sim env (k :: v :: rest)
    have := t18_toAbstractNoUn_sim env k
    have := t18_toAbstractNoUn_sim env v
    unfold toAbstractNoUn
    t18_sim []
  | .other _ _ => by
    unfold toAbstractNoUn
    t18_sim []
theorem t18_toAbstracts_sim (env : AEnv) :
    (ts : List MType) → t18_Sim (toAbstracts env ts) (toAbstracts env ts)
  | [] => by
    unfold toAbstracts
    t18_sim []
  | t :: ts => by
    have := t18_toAbstractNoUn_sim env t
    have := t18_toAbstracts_sim env ts
    unfold toAbstracts
    t18_sim []
end

theorem t18_Sim.forIn {α β : Type} {f f' : α → β → V (ForInStep β)} (hf : ∀ a b, t18_Sim (f a b) (f' a b)) :
    ∀ (l : List α) (b : β), t18_Sim (forIn l b f) (forIn l b f')
  | [], b => by
    rw [List.forIn_nil, List.forIn_nil]
    exact t18_Sim.pure _
  | a :: l, b => by
    rw [List.forIn_cons, List.forIn_cons]
    refine t18_Sim.bind (hf a b) (fun r => ?_)
    cases r with
    | done b' => exact t18_Sim.pure _
    | yield b' => exact t18_Sim.forIn hf l b'

theorem t18_Sim.mapM {α β : Type} {f f' : α → V β} (hf : ∀ a, t18_Sim (f a) (f' a)) :
    ∀ (l : List α), t18_Sim (l.mapM f) (l.mapM f')
  | [] => by
    rw [List.mapM_nil, List.mapM_nil]
    exact t18_Sim.pure _
  | a :: l => by
    rw [List.mapM_cons, List.mapM_cons]
    exact t18_Sim.bind (hf a) (fun b => t18_Sim.bind (t18_Sim.mapM hf l) (fun bs => t18_Sim.pure _))

/-- two optional computations: both absent, or both present and in simulation -/
structure t18_OptSim {α : Type} (o o' : Option (V α)) : Prop where
  run : match o, o' with
    | some v, some v' => t18_Sim v v'
    | none, none => True
    | _, _ => False

theorem t18_OptSim.none {α : Type} : t18_OptSim (none : Option (V α)) none := ⟨trivial⟩
theorem t18_OptSim.some {α : Type} {v v' : V α} (h : t18_Sim v v') : t18_OptSim (some v) (some v') := ⟨h⟩

theorem t18_Sim.optMatch {o o' : Option (V AType)} {d d' : V AType} (h : t18_OptSim o o') (hd : t18_Sim d d') :
    t18_Sim (match (generalizing := false) o with | some v => v | none => d)
      (match (generalizing := false) o' with | some v => v | none => d') := by
  obtain ⟨h⟩ := h
  cases o <;> cases o' <;> first | exact hd | exact h | exact h.elim

section
variable (env : AEnv)

theorem t18_toAbstract_sim (t : MType) (un : Option MType) :
    t18_Sim (toAbstract env t un) (toAbstract env t un) := by
  unfold toAbstract
  dsimp only
  apply t18_Sim.optMatch
  · repeat' (first
      | exact t18_OptSim.none
      | apply t18_OptSim.some
      | split)
    all_goals t18_sim [t18_toAbstractNoUn_sim, t18_toAbstracts_sim]
  · exact t18_toAbstractNoUn_sim env t

theorem t18_parseParameter_sim (f : FuncDef) (fid : String) (a : Arg) :
    t18_Sim (parseParameter env f fid a) (parseParameter env f fid a) := by
  unfold parseParameter
  t18_sim [t18_toAbstract_sim, t18_parameterDocumentation_sim, t18_Sim.forIn]

theorem t18_parseParameters_sim (f : FuncDef) (fid : String) :
    ∀ (as : List Arg), t18_Sim (parseParameters env f fid as) (parseParameters env f fid as)
  | [] => by
    unfold parseParameters
    t18_sim []
  | a :: as => by
    have := t18_parseParameters_sim f fid as
    unfold parseParameters
    t18_sim [t18_parseParameter_sim]

theorem t18_parseResults_sim (f : FuncDef) (fid : String) (docs : List ResultDoc) :
    t18_Sim (parseResults env f fid docs) (parseResults env f fid docs) := by
  unfold parseResults
  t18_sim [t18_toAbstract_sim]

end

section
variable (env : AEnv)

theorem t18_reconcileParameter_sim (fid : String) (p : Parameter) :
    t18_Sim (reconcileParameter env fid p) (reconcileParameter env fid p) := by
  refine ⟨fun s u => ?_⟩
  rw [l14_reconcileParameter_run, l14_reconcileParameter_run]
  exact ⟨rfl, rfl⟩

theorem t18_reconcileParameters_sim (fid : String) :
    ∀ (ps : List Parameter), t18_Sim (reconcileParameters env fid ps) (reconcileParameters env fid ps)
  | [] => by
    unfold reconcileParameters
    t18_sim []
  | p :: ps => by
    have := t18_reconcileParameters_sim fid ps
    unfold reconcileParameters
    t18_sim [t18_reconcileParameter_sim]

theorem t18_reconcileResults_sim (fid : String) (i : Nat) (all rs : List Result) (docs : List ResultDoc) :
    t18_Sim (reconcileResults env fid i all rs docs) (reconcileResults env fid i all rs docs) := by
  refine ⟨fun s u => ?_⟩
  rw [l14_reconcileResults_run, l14_reconcileResults_run]
  exact ⟨rfl, rfl⟩

theorem t18_enterFuncdef_sim (f : FuncDef) : t18_Sim (enterFuncdef env f) (enterFuncdef env f) := by
  unfold enterFuncdef
  t18_sim [t18_functionDocumentation_sim, t18_parseParameters_sim, t18_reconcileParameters_sim,
    t18_resultDocumentation_sim, t18_parseResults_sim, t18_reconcileResults_sim]

theorem t18_leaveFuncdef_sim : t18_Sim leaveFuncdef leaveFuncdef := by
  unfold leaveFuncdef
  t18_sim []

end

section
variable (env : AEnv)

theorem t18_createAttributeV_sim (isMember : Bool) (name fullname : String) (isVar : Bool) (var : Option VarInfo)
    (un : Option MType) (isStatic : Bool) :
    t18_Sim (createAttributeV env isMember name fullname isVar var un isStatic)
      (createAttributeV env isMember name fullname isVar var un isStatic) := by
  unfold createAttributeV
  t18_sim [t18_toAbstract_sim, t18_attributeDocumentation_sim]

end

theorem t18_parseAttributes_go_sim {one one' : Bool → String → String → Bool → Option VarInfo → V (List Attribute)}
    (h : ∀ m n fq iv var, t18_Sim (one m n fq iv var) (one' m n fq iv var)) :
    ∀ (items : List LValue), t18_Sim (parseAttributes.go one items) (parseAttributes.go one' items)
  | [] => by
    unfold parseAttributes.go
    t18_sim []
  | .name n fq isVar var :: rest => by
    have := t18_parseAttributes_go_sim h rest
    unfold parseAttributes.go
    t18_sim [h]
  | .member n fq isVar var :: rest => by
    have := t18_parseAttributes_go_sim h rest
    unfold parseAttributes.go
    t18_sim [h]
  | .tuple _ :: rest => by
    have := t18_parseAttributes_go_sim h rest
    unfold parseAttributes.go
    t18_sim [h]
  | .other :: rest => by
    have := t18_parseAttributes_go_sim h rest
    unfold parseAttributes.go
    t18_sim [h]

section
variable (env : AEnv)

theorem t18_parseAttributes_sim (lv : LValue) (un : Option MType) (isStatic : Bool) :
    t18_Sim (parseAttributes env lv un isStatic) (parseAttributes env lv un isStatic) := by
  unfold parseAttributes
  dsimp only
  have h : ∀ (m : Bool) (n fq : String) (iv : Bool) (var : Option VarInfo),
      t18_Sim (do
          let s ← get
          match attributeAlreadyDefined s n with
            | Except.error e => throwV e
            | Except.ok true => pure []
            | Except.ok false =>
              if (m && !iv) = true then pure []
              else do
                let a ← createAttributeV env m n fq iv var un isStatic
                pure [a] : V (List Attribute))
        (do
          let s ← get
          match attributeAlreadyDefined s n with
            | Except.error e => throwV e
            | Except.ok true => pure []
            | Except.ok false =>
              if (m && !iv) = true then pure []
              else do
                let a ← createAttributeV env m n fq iv var un isStatic
                pure [a]) := by
    intro m n fq iv var
    t18_sim [t18_createAttributeV_sim]
  cases lv with
  | name n fq isVar var => exact h _ _ _ _ _
  | member n fq isVar var => exact h _ _ _ _ _
  | tuple items => exact t18_parseAttributes_go_sim h items
  | other => exact t18_Sim.pure _

theorem t18_enterAssignment_go_sim (a : Assignment) :
    ∀ (lvs : List LValue), t18_Sim (enterAssignment.go env a lvs) (enterAssignment.go env a lvs)
  | [] => by
    unfold enterAssignment.go
    t18_sim []
  | lv :: rest => by
    have := t18_enterAssignment_go_sim a rest
    unfold enterAssignment.go
    t18_sim [t18_parseAttributes_sim]

theorem t18_enterAssignment_sim (a : Assignment) :
    t18_Sim (enterAssignment env a) (enterAssignment env a) := by
  unfold enterAssignment
  t18_sim [t18_enterAssignment_go_sim]

/-- a fold over pairs (tables, frames) whose step never lets the tables influence the frames or the re-export map -/
def t18_PairRel (x x' : AnaResult × List Frame) : Prop := x.2 = x'.2 ∧ x'.1.reexportMap = x.1.reexportMap

theorem t18_foldl_pair {ι : Type} (step : AnaResult × List Frame → ι → AnaResult × List Frame)
    (hstep : ∀ x x' i, t18_PairRel x x' → t18_PairRel (step x i) (step x' i)) :
    ∀ (items : List ι) (x x' : AnaResult × List Frame), t18_PairRel x x' →
      t18_PairRel (items.foldl step x) (items.foldl step x')
  | [], _, _, h => h
  | i :: items, x, x', h => t18_foldl_pair step hstep items _ _ (hstep x x' i h)

theorem t18_set_fold {ι : Type} (step : AnaResult × List Frame → ι → AnaResult × List Frame)
    (hstep : ∀ x x' i, t18_PairRel x x' → t18_PairRel (step x i) (step x' i))
    (s : VSt) (u : AnaResult) (fr : List Frame) (items : List ι) :
    ({ s with api := (items.foldl step ({ u with reexportMap := s.api.reexportMap }, fr)).1,
              stack := (items.foldl step ({ u with reexportMap := s.api.reexportMap }, fr)).2 } : VSt)
      = t18_setT { s with api := (items.foldl step (s.api, fr)).1, stack := (items.foldl step (s.api, fr)).2 }
          (items.foldl step ({ u with reexportMap := s.api.reexportMap }, fr)).1 := by
  obtain ⟨h1, h2⟩ := t18_foldl_pair step hstep items (s.api, fr) ({ u with reexportMap := s.api.reexportMap }, fr) ⟨rfl, rfl⟩
  unfold t18_setT
  simp only
  rw [← h1, ← h2]

theorem t18_leaveAssignment_sim : t18_Sim leaveAssignment leaveAssignment := by
  unfold leaveAssignment
  t18_sim []
  all_goals
    apply t18_Sim.set
    refine t18_set_fold _ ?_ _ _ _ _
    intro x x' i h
    obtain ⟨A, fr⟩ := x
    obtain ⟨A', fr'⟩ := x'
    obtain ⟨h1, h2⟩ := h
    simp only at h1 h2
    subst h1
    cases i <;> (dsimp only; split <;> exact ⟨rfl, h2⟩)

theorem t18_walkAssignment_sim (a : Assignment) :
    t18_Sim (walkAssignment env a) (walkAssignment env a) := by
  unfold walkAssignment
  t18_sim [t18_enterAssignment_sim, t18_leaveAssignment_sim]

end

section
variable (env : AEnv)

theorem t18_typeParameter_sim (tv : TypeVarInfo) :
    t18_Sim (typeParameter env tv) (typeParameter env tv) := by
  unfold typeParameter
  t18_sim [t18_toAbstract_sim, t18_toAbstracts_sim]

theorem t18_typeParameters_sim :
    ∀ (l : List (Option TypeVarInfo)), t18_Sim (typeParameters env l) (typeParameters env l)
  | [] => by
    unfold typeParameters
    t18_sim []
  | none :: _ => by
    unfold typeParameters
    t18_sim []
  | some tv :: rest => by
    have := t18_typeParameters_sim rest
    unfold typeParameters
    t18_sim [t18_typeParameter_sim]

theorem t18_ctorFullDoc_sim : ∀ (defs : List Def), t18_Sim (ctorFullDoc env defs) (ctorFullDoc env defs)
  | [] => by
    unfold ctorFullDoc
    t18_sim []
  | .func f :: rest => by
    have := t18_ctorFullDoc_sim rest
    unfold ctorFullDoc
    t18_sim [t18_functionDocumentation_sim]
  | .decorator _ :: rest => by
    have := t18_ctorFullDoc_sim rest
    unfold ctorFullDoc
    t18_sim []
  | .overloaded _ :: rest => by
    have := t18_ctorFullDoc_sim rest
    unfold ctorFullDoc
    t18_sim []
  | .cls .. :: rest => by
    have := t18_ctorFullDoc_sim rest
    unfold ctorFullDoc
    t18_sim []
  | .assign _ :: rest => by
    have := t18_ctorFullDoc_sim rest
    unfold ctorFullDoc
    t18_sim []
  | .docExpr .. :: rest => by
    have := t18_ctorFullDoc_sim rest
    unfold ctorFullDoc
    t18_sim []
  | .other _ :: rest => by
    have := t18_ctorFullDoc_sim rest
    unfold ctorFullDoc
    t18_sim []

theorem t18_enterClassdef_sim (name fullname : String) (bases removed : List BaseExpr) (defs : List Def) :
    t18_Sim (enterClassdef env name fullname bases removed defs)
      (enterClassdef env name fullname bases removed defs) := by
  unfold enterClassdef
  t18_sim [t18_classDocumentation_sim, t18_typeParameters_sim, t18_ctorFullDoc_sim, t18_Sim.mapM]

theorem t18_leaveClassdef_sim : t18_Sim leaveClassdef leaveClassdef := by
  unfold leaveClassdef
  t18_sim []

theorem t18_enterEnumdef_sim (name fullname : String) (defs : List Def) :
    t18_Sim (enterEnumdef env name fullname defs) (enterEnumdef env name fullname defs) := by
  unfold enterEnumdef
  t18_sim [t18_classDocumentation_sim]

theorem t18_leaveEnumdef_sim : t18_Sim leaveEnumdef leaveEnumdef := by
  unfold leaveEnumdef
  t18_sim []

theorem t18_enterModuledef_sim (m : SrcModule) : t18_Sim (enterModuledef m) (enterModuledef m) := by
  unfold enterModuledef
  t18_sim []

theorem t18_leaveModuledef_sim : t18_Sim leaveModuledef leaveModuledef := by
  unfold leaveModuledef
  t18_sim []

theorem t18_walkNone_sim : t18_Sim walkNone walkNone := by
  unfold walkNone
  t18_sim []

theorem t18_walkFunc_sim (f : FuncDef) : t18_Sim (walkFunc env f) (walkFunc env f) := by
  unfold walkFunc
  t18_sim [t18_enterFuncdef_sim, t18_leaveFuncdef_sim, t18_walkAssignment_sim, t18_Sim.forIn]

end

mutual
theorem t18_walkDef_sim (env : AEnv) (mode : WalkMode) :
    (d : Def) → t18_Sim (walkDef env mode d) (walkDef env mode d)
  | .func f => by
    unfold walkDef
    t18_sim [t18_walkFunc_sim]
  | .decorator f => by
    unfold walkDef
    t18_sim [t18_walkFunc_sim]
  | .overloaded impl => by
    unfold walkDef
    t18_sim [t18_walkFunc_sim, t18_walkNone_sim]
  | .cls name fullname bases removed defs => by
    have h1 := t18_walkDefs_sim env .enum defs
    have h2 := t18_walkDefs_sim env .cls defs
    unfold walkDef
    t18_sim [t18_enterEnumdef_sim, t18_leaveEnumdef_sim, t18_enterClassdef_sim, t18_leaveClassdef_sim]
  | .assign a => by
    unfold walkDef
    t18_sim [t18_walkAssignment_sim]
  | .docExpr _ _ => by
    unfold walkDef
    t18_sim []
  | .other _ => by
    unfold walkDef
    t18_sim []
theorem t18_walkDefs_sim (env : AEnv) (mode : WalkMode) :
    (ds : List Def) → t18_Sim (walkDefs env mode ds) (walkDefs env mode ds)
  | [] => by
    unfold walkDefs
    t18_sim []
  | d :: ds => by
    have h1 := t18_walkDef_sim env mode d
    have h2 := t18_walkDefs_sim env mode ds
    unfold walkDefs
    t18_sim []
end

section
variable (env : AEnv)

theorem t18_walkModule_sim (m : SrcModule) : t18_Sim (walkModule env m) (walkModule env m) := by
  unfold walkModule
  t18_sim [t18_enterModuledef_sim, t18_walkDefs_sim, t18_leaveModuledef_sim]

theorem t18_walkModules_sim :
    ∀ (ms : List SrcModule), t18_Sim (walkModules env ms) (walkModules env ms)
  | [] => by
    unfold walkModules
    t18_sim []
  | m :: ms => by
    have := t18_walkModules_sim ms
    unfold walkModules
    t18_sim [t18_walkModule_sim]

end

end StubGen
