/-
Lexical validity of the strings `json.dump` writes (`Model/ApiDict.jsonStr`): what stands between the quotes is a sequence of
unescaped characters (≥ U+0020, neither `"` nor `\`) and of escape sequences of RFC 8259 (`\" \\ \/ \b \f \n \r \t \uXXXX`).
-/
import StubGen.Model.ApiDict

namespace StubGen

def isHexChar (c : Char) : Bool :=
  (48 ≤ c.toNat && c.toNat ≤ 57) || (97 ≤ c.toNat && c.toNat ≤ 102) || (65 ≤ c.toNat && c.toNat ≤ 70)

def isSimpleEscape (c : Char) : Bool := c = '"' || c = '\\' || c = '/' || c = 'b' || c = 'f' || c = 'n' || c = 'r' || c = 't'

/-- recogniser of the body of a JSON string literal (RFC 8259 §7); `fuel` bounds the number of steps -/
def jsonBodyOkAux : Nat → List Char → Bool
  | _, [] => true
  | 0, _ :: _ => false
  | fuel + 1, c :: rest =>
    if c = '\\' then
      match rest with
      | 'u' :: a :: b :: c' :: d :: rest' => isHexChar a && isHexChar b && isHexChar c' && isHexChar d && jsonBodyOkAux fuel rest'
      | e :: rest' => isSimpleEscape e && jsonBodyOkAux fuel rest'
      | [] => false
    else (c != '"' && decide (32 ≤ c.toNat)) && jsonBodyOkAux fuel rest

/-- the body of a JSON string literal: accepted by the recogniser with some (hence any larger, `jsonBodyOkAux_mono`) fuel -/
def JsonBodyOk (l : List Char) : Prop := ∃ fuel, jsonBodyOkAux fuel l = true

theorem jsonBodyOkAux_mono : ∀ (fuel : Nat) (l : List Char), jsonBodyOkAux fuel l = true → ∀ k, jsonBodyOkAux (fuel + k) l = true
  | _, [], _, _ => by simp [jsonBodyOkAux]
  | 0, _ :: _, h, _ => by simp [jsonBodyOkAux] at h
  | fuel + 1, c :: rest, h, k => by
    have e : fuel + 1 + k = (fuel + k) + 1 := by omega
    rw [e]
    unfold jsonBodyOkAux at h ⊢
    by_cases hc : c = '\\'
    · simp only [hc, if_true] at h ⊢
      split at h
      · rename_i a b c' d rest'
        simp only [Bool.and_eq_true] at h ⊢
        exact ⟨h.1, jsonBodyOkAux_mono fuel rest' h.2 k⟩
      · rename_i e rest' _
        simp only [Bool.and_eq_true] at h ⊢
        exact ⟨h.1, jsonBodyOkAux_mono fuel rest' h.2 k⟩
      · cases h
    · simp only [hc, if_false, Bool.and_eq_true] at h ⊢
      exact ⟨h.1, jsonBodyOkAux_mono fuel rest h.2 k⟩

theorem hexDigit_isHex : ∀ n, n < 16 → isHexChar (hexDigit n) = true := by decide

theorem hex4_isHex (n : Nat) : (hex4 n).all isHexChar = true := by
  simp only [hex4, List.all_cons, List.all_nil, Bool.and_true, Bool.and_eq_true]
  exact ⟨hexDigit_isHex _ (Nat.mod_lt _ (by decide)), hexDigit_isHex _ (Nat.mod_lt _ (by decide)),
    hexDigit_isHex _ (Nat.mod_lt _ (by decide)), hexDigit_isHex _ (Nat.mod_lt _ (by decide))⟩

/-- one `\uXXXX` escape in front of a valid body -/
theorem bodyOk_u (n fuel : Nat) (rest : List Char) (h : jsonBodyOkAux fuel rest = true) :
    jsonBodyOkAux (fuel + 1) ('\\' :: 'u' :: hex4 n ++ rest) = true := by
  have hh := hex4_isHex n
  simp only [hex4, List.all_cons, List.all_nil, Bool.and_true, Bool.and_eq_true] at hh
  simp only [hex4, List.cons_append, List.nil_append, jsonBodyOkAux, if_true, Bool.and_eq_true]
  exact ⟨⟨⟨⟨hh.1, hh.2.1⟩, hh.2.2.1⟩, hh.2.2.2⟩, h⟩

theorem bodyOk_simple (e : Char) (he : isSimpleEscape e = true) (hu : e ≠ 'u') (fuel : Nat) (rest : List Char)
    (h : jsonBodyOkAux fuel rest = true) : jsonBodyOkAux (fuel + 1) ('\\' :: e :: rest) = true := by
  unfold jsonBodyOkAux
  simp only [if_true]
  split
  · rename_i heq
    injection heq with h1 _
    exact absurd h1 hu
  · rename_i heq
    injection heq with h1 h2
    subst h1 h2
    simp [he, h]
  · rename_i heq; cases heq

/-- the escape of one character in front of a valid body is a valid body (with at most two more steps) -/
theorem bodyOk_escapeChar (c : Char) (fuel : Nat) (rest : List Char) (h : jsonBodyOkAux fuel rest = true) :
    jsonBodyOkAux (fuel + 2) (jsonEscapeChar c ++ rest) = true := by
  have h1 := jsonBodyOkAux_mono fuel rest h 1
  unfold jsonEscapeChar
  split
  · exact bodyOk_simple '\\' (by decide) (by decide) (fuel + 1) rest h1
  split
  · exact bodyOk_simple '"' (by decide) (by decide) (fuel + 1) rest h1
  split
  · exact bodyOk_simple 'n' (by decide) (by decide) (fuel + 1) rest h1
  split
  · exact bodyOk_simple 'r' (by decide) (by decide) (fuel + 1) rest h1
  split
  · exact bodyOk_simple 't' (by decide) (by decide) (fuel + 1) rest h1
  split
  · exact bodyOk_simple 'b' (by decide) (by decide) (fuel + 1) rest h1
  split
  · exact bodyOk_simple 'f' (by decide) (by decide) (fuel + 1) rest h1
  split
  · rename_i h1' h2' _ _ _ _ _ hp
    show jsonBodyOkAux (fuel + 1 + 1) (c :: rest) = true
    unfold jsonBodyOkAux
    have hq : ¬ c = '"' := h2'
    have hb : ¬ c = '\\' := h1'
    simp only [hb, if_false, Bool.and_eq_true, bne_iff_ne, ne_eq, hq, not_false_eq_true, decide_eq_true_eq, hp.1, true_and]
    exact h1
  split
  · exact bodyOk_u c.toNat (fuel + 1) rest h1
  · simp only [List.append_assoc, List.cons_append]
    exact bodyOk_u _ (fuel + 1) _ (bodyOk_u _ fuel rest h)

theorem bodyOk_flatMap : ∀ (l : List Char), jsonBodyOkAux (2 * l.length) (l.flatMap jsonEscapeChar) = true
  | [] => rfl
  | c :: cs => by
    have ih := bodyOk_flatMap cs
    have := bodyOk_escapeChar c (2 * cs.length) (cs.flatMap jsonEscapeChar) ih
    simp only [List.flatMap_cons, List.length_cons]
    have e : 2 * (cs.length + 1) = 2 * cs.length + 2 := by omega
    rw [e]
    exact this

/-- every string token `json.dump` writes: a quote, a valid string body, a quote — for EVERY Python string -/
theorem jsonStr_valid (s : String) :
    ∃ body, (jsonStr s).toList = '"' :: body ++ ['"'] ∧ JsonBodyOk body ∧ body = s.toList.flatMap jsonEscapeChar := by
  refine ⟨s.toList.flatMap jsonEscapeChar, ?_, ⟨_, bodyOk_flatMap s.toList⟩, rfl⟩
  unfold jsonStr
  simp [String.toList_append]

end StubGen
