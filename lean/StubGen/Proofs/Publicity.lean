/-
Helpers for C04a (analyser half of C04): what `isPublicV` (`MyPyAstVisitor._is_public`) computes.

* `s04_isPublicV_eq` — `isPublicV` = parent check, then the re-export verdict, then a pure table
  (`s04_table`) of the parent kind, the name and the qualified name;
* `s04_check_core` — `checkPublicityInReexports` reads the state through three fields only;
* Boolean/list plumbing for the existential reading of the nested `any`s.
-/
import StubGen.Model.Analyze
import StubGen.Proofs.Inventory

namespace StubGen

/-! ### small Boolean / list facts -/

theorem s04_all_not_eq_not_any {α : Type} (p : α → Bool) (l : List α) :
    l.all (fun a => !p a) = !l.any p := by
  induction l with
  | nil => rfl
  | cons a l ih => simp only [List.all_cons, List.any_cons, ih, Bool.not_or]

theorem s04_any_iff {α : Type} (p : α → Bool) (l : List α) : l.any p = true ↔ ∃ a, a ∈ l ∧ p a = true := by
  rw [List.any_eq_true]

theorem s04_ite_some_true_iff (b : Bool) : (if b = true then some true else (none : Option Bool)) = some true ↔ b = true := by
  cases b <;> simp

theorem s04_ite_none_iff (b : Bool) : (if b = true then some true else (none : Option Bool)) = none ↔ b = false := by
  cases b <;> simp

theorem s04_ite_ne_some_false (b : Bool) : (if b = true then some true else (none : Option Bool)) ≠ some false := by
  cases b <;> simp

/-! ### the pieces of `_is_public` -/

/-- `isinstance(parent, Module) or parent.is_public`, as `isPublicV` passes it to the re-export check -/
def s04_parentOk : ParentKind → Bool
  | .module => true
  | .publicClass => true
  | _ => false

/-- publicity of the class that owns the declaration (a constructor passes on the class above it) -/
def s04_owner : ParentKind → Option Bool
  | .publicClass => some true
  | .privateClass => some false
  | .initFunction o => o
  | _ => none

/-- the verdict of the re-export check as `isPublicV` consults it (not at all below a constructor) -/
def s04_viaReexport (s : VSt) (name qname : String) : Option Bool :=
  match parentKind s with
  | .initFunction _ => none
  | pk => checkPublicityInReexports s name qname (s04_parentOk pk)

/-- the pure rest of `_is_public`, once no re-export decides -/
def s04_table (pk : ParentKind) (name qname : String) : Bool :=
  if isInternal name && !pyEndsWith name "__" then false
  else match s04_owner pk with
    | some b => if name == "__init__" || !isInternal name then b
                else !(dropLast' (splitDot qname)).any isInternal
    | none => !(dropLast' (splitDot qname)).any isInternal

theorem s04_isPublicV_eq (s : VSt) (name qname : String) :
    isPublicV s name qname =
      match parentKind s with
      | .other => .error .typeError
      | pk => match s04_viaReexport s name qname with
        | some b => .ok b
        | none => .ok (s04_table pk name qname) := by
  unfold isPublicV s04_viaReexport s04_table
  cases hpk : parentKind s with
  | other => rfl
  | module =>
    dsimp only [s04_parentOk, s04_owner]
    cases checkPublicityInReexports s name qname true with
    | some b => rfl
    | none =>
      dsimp only
      split
      · rfl
      · rw [s04_all_not_eq_not_any]
  | publicClass =>
    dsimp only [s04_parentOk, s04_owner]
    cases checkPublicityInReexports s name qname true with
    | some b => rfl
    | none =>
      dsimp only
      split
      · rfl
      · split
        · rfl
        · rw [s04_all_not_eq_not_any]
  | privateClass =>
    dsimp only [s04_parentOk, s04_owner]
    cases checkPublicityInReexports s name qname false with
    | some b => rfl
    | none =>
      dsimp only
      split
      · rfl
      · split
        · rfl
        · rw [s04_all_not_eq_not_any]
  | initFunction o =>
    dsimp only [s04_owner]
    split
    · rfl
    · cases o with
      | none => dsimp only; rw [s04_all_not_eq_not_any]
      | some b =>
        dsimp only
        split
        · rfl
        · rw [s04_all_not_eq_not_any]

/-! ### the re-export check reads three fields of the state -/

/-- `_check_publicity_in_reexports` over the three things it reads: the re-export map, the file's
    qualified name and the file's name -/
def s04_checkCore (rm : List (String × List ModRef)) (moduleQname moduleName name qname : String) (parentOk : Bool) :
    Option Bool :=
  let notInternal := !isInternal name
  let packageId := joinWith "/" (dropLast' (splitDot moduleQname))
  let hit := rm.any fun kv =>
    let key := kv.1
    let moduleIsReexported := key == moduleName || key == moduleQname || key == moduleName ++ ".*" || key == moduleQname ++ ".*"
    (pyEndsWith key name || moduleIsReexported) && kv.2.any fun src =>
      let samePkg := src.id == packageId
      let stripped := pyRstrip key ".*"
      let otherPkg := stripped == qname || stripped == moduleQname
      (samePkg || otherPkg) &&
      ((moduleIsReexported &&
          (src.wildcardImports.any (fun w =>
              ((samePkg && w == moduleName) || (otherPkg && w == moduleQname)) && notInternal && parentOk)
           || src.qualifiedImports.any (fun q =>
              (q.qualifiedName == moduleName || q.qualifiedName == moduleQname)
              && ((q.alias.isNone && notInternal) || (match q.alias with | some a => !isInternal a | none => false))
              && notInternal && parentOk)))
       || (pyEndsWith key name &&
           src.qualifiedImports.any (fun q =>
              pyEndsWith qname q.qualifiedName
              && ((match q.alias with | some a => !isInternal a | none => false) || (q.alias.isNone && notInternal)))))
  if hit then some true else none

theorem s04_check_core (s : VSt) (name qname : String) (parentOk : Bool) :
    checkPublicityInReexports s name qname parentOk =
      s04_checkCore s.api.reexportMap s.fileFullname s.fileName name qname parentOk := rfl

/-- `isPublicV` reads the state through `parentKind`, the re-export map and the two file names only -/
theorem s04_isPublicV_congr {s s' : VSt} (hk : parentKind s = parentKind s')
    (hm : s.api.reexportMap = s'.api.reexportMap) (hq : s.fileFullname = s'.fileFullname)
    (hn : s.fileName = s'.fileName) (name qname : String) :
    isPublicV s name qname = isPublicV s' name qname := by
  rw [s04_isPublicV_eq, s04_isPublicV_eq]
  unfold s04_viaReexport
  simp only [s04_check_core, hk, hm, hq, hn]


/-! ### frame: the read-only parts of the analyser keep the analysed file's names

(`k12_Fr` of `Proofs/Inventory` is the same for `api` and `stack`); together they give: `isPublicV` has the
same value before and after (`s04_isPublicV_frame`). -/

structure s04_FrN {α : Type} (x : V α) : Prop where
  run : ∀ (s : VSt) (a : α) (s' : VSt), x s = .ok (a, s') →
    s'.fileFullname = s.fileFullname ∧ s'.fileName = s.fileName

namespace s04_FrN
variable {α β : Type}

theorem pure (a : α) : s04_FrN (Pure.pure a : V α) := by
  refine ⟨fun s b s' h => ?_⟩
  obtain ⟨_, rfl⟩ := k12_pure_ok h
  exact ⟨rfl, rfl⟩

theorem throw (e : PyErr) : s04_FrN (throwV e : V α) := ⟨fun _ _ _ h => (k12_throw_ok h).elim⟩

theorem bind {x : V α} {f : α → V β} (hx : s04_FrN x) (hf : ∀ a, s04_FrN (f a)) : s04_FrN (x >>= f) := by
  refine ⟨fun s b s' h => ?_⟩
  obtain ⟨a, s1, h1, h2⟩ := k12_bind_ok h
  have e1 := hx.run s a s1 h1
  have e2 := (hf a).run s1 b s' h2
  exact ⟨e2.1.trans e1.1, e2.2.trans e1.2⟩

theorem get : s04_FrN (MonadState.get : V VSt) := by
  refine ⟨fun s b s' h => ?_⟩
  obtain ⟨_, rfl⟩ := k12_get_ok h
  exact ⟨rfl, rfl⟩

theorem modify {g : VSt → VSt} (hg : ∀ s, (g s).fileFullname = s.fileFullname ∧ (g s).fileName = s.fileName) :
    s04_FrN (modify g : V PUnit) := by
  refine ⟨fun s b s' h => ?_⟩
  rw [k12_modify_ok h]
  exact hg s

theorem withDoc (f : ParserState → Except PyErr (α × ParserState)) : s04_FrN (StubGen.withDoc f) := by
  refine ⟨fun s b s' h => ?_⟩
  unfold StubGen.withDoc at h
  split at h
  · exact absurd h (by simp)
  · simp only [Except.ok.injEq, Prod.mk.injEq] at h
    rw [← h.2]
    exact ⟨rfl, rfl⟩

end s04_FrN

theorem s04_warnV_fr (m : String) : s04_FrN (warnV m) := s04_FrN.modify (fun _ => ⟨rfl, rfl⟩)

open Lean in
macro "s04_fr" "[" ls:term,* "]" : tactic => do
  let alts ← ls.getElems.mapM fun l => `(tacticSeq| apply $l)
  `(tactic| repeat' (first
      | with_reducible exact s04_FrN.pure _
      | with_reducible exact s04_FrN.throw _
      | with_reducible exact s04_FrN.get
      | with_reducible exact s04_warnV_fr _
      | with_reducible exact s04_FrN.withDoc _
      | with_reducible assumption
      | ((with_reducible apply s04_FrN.modify); intro _; exact ⟨rfl, rfl⟩)
      $[| with_reducible $alts:tacticSeq]*
      | with_reducible apply s04_FrN.bind
      | intro _
      | split
      | dsimp only))

theorem s04_FrN.mapM {α β : Type} (f : α → V β) (hf : ∀ a, s04_FrN (f a)) : ∀ (l : List α), s04_FrN (l.mapM f)
  | [] => by rw [List.mapM_nil]; exact s04_FrN.pure _
  | a :: l => by
    rw [List.mapM_cons]
    exact s04_FrN.bind (hf a) (fun b => s04_FrN.bind (s04_FrN.mapM f hf l) (fun bs => s04_FrN.pure _))

theorem s04_classDocumentation_fr (env : AEnv) (fn : String) (defs : List Def) :
    s04_FrN (classDocumentation env fn defs) := by
  unfold classDocumentation; s04_fr []

theorem s04_functionDocumentation_fr (env : AEnv) (f : FuncDef) : s04_FrN (functionDocumentation env f) := by
  unfold functionDocumentation; s04_fr []

theorem s04_attributeDocumentation_fr (env : AEnv) (a b : String) : s04_FrN (attributeDocumentation env a b) := by
  unfold attributeDocumentation; s04_fr []

mutual
theorem s04_toAbstractNoUn_fr (env : AEnv) : (t : MType) → s04_FrN (toAbstractNoUn env t)
  | .tuple items => by
    have := s04_toAbstracts_fr env items
    unfold toAbstractNoUn; s04_fr []
  | .union items => by
    have := s04_toAbstracts_fr env items
    unfold toAbstractNoUn; s04_fr []
  | .typeVar name ub ubStr => by
    have := s04_toAbstractNoUn_fr env ub
    unfold toAbstractNoUn; s04_fr []
  | .callable args ret => by
    have := s04_toAbstracts_fr env args
    have := s04_toAbstractNoUn_fr env ret
    unfold toAbstractNoUn; s04_fr []
  | .any t missing => by unfold toAbstractNoUn; s04_fr []
  | .none => by unfold toAbstractNoUn; s04_fr []
  | .literal v => by unfold toAbstractNoUn; s04_fr []
  | .unbound name args => by
    have := s04_toAbstracts_fr env args
    unfold toAbstractNoUn; s04_fr []
  | .inst name fullname args => by
    have h1 := s04_toAbstracts_fr env args
    have h2 : ∀ k v rest, args = k :: v :: rest → s04_FrN (toAbstractNoUn env k) ∧ s04_FrN (toAbstractNoUn env v) := by
      intro k v rest he
      subst he
      exact ⟨s04_toAbstractNoUn_fr env k, s04_toAbstractNoUn_fr env v⟩
    unfold toAbstractNoUn
    s04_fr []
    · exact (h2 _ _ _ rfl).1
    · exact (h2 _ _ _ rfl).2
  | .other _ _ => by unfold toAbstractNoUn; s04_fr []
theorem s04_toAbstracts_fr (env : AEnv) : (ts : List MType) → s04_FrN (toAbstracts env ts)
  | [] => by unfold toAbstracts; s04_fr []
  | t :: ts => by
    have := s04_toAbstractNoUn_fr env t
    have := s04_toAbstracts_fr env ts
    unfold toAbstracts; s04_fr []
end

theorem s04_toAbstract_fr (env : AEnv) (t : MType) (un : Option MType) : s04_FrN (toAbstract env t un) := by
  unfold toAbstract
  s04_fr [s04_toAbstractNoUn_fr, s04_toAbstracts_fr]

theorem s04_typeParameter_fr (env : AEnv) (tv : TypeVarInfo) : s04_FrN (typeParameter env tv) := by
  unfold typeParameter
  s04_fr [s04_toAbstract_fr, s04_toAbstracts_fr]

theorem s04_typeParameters_fr (env : AEnv) : (l : List (Option TypeVarInfo)) → s04_FrN (typeParameters env l)
  | [] => by unfold typeParameters; s04_fr []
  | none :: _ => by unfold typeParameters; s04_fr []
  | some tv :: rest => by
    have := s04_typeParameters_fr env rest
    unfold typeParameters; s04_fr [s04_typeParameter_fr]

theorem s04_ctorFullDoc_fr (env : AEnv) : (l : List Def) → s04_FrN (ctorFullDoc env l)
  | [] => by unfold ctorFullDoc; s04_fr []
  | .func f :: rest => by
    have := s04_ctorFullDoc_fr env rest
    unfold ctorFullDoc; s04_fr [s04_functionDocumentation_fr]
  | .decorator _ :: rest | .overloaded _ :: rest | .cls _ _ _ _ _ :: rest | .assign _ :: rest | .docExpr _ _ :: rest
  | .other _ :: rest => by
    have := s04_ctorFullDoc_fr env rest
    unfold ctorFullDoc; s04_fr []

/-- a state with the same `api`, `stack` and file names gives the same verdict -/
theorem s04_isPublicV_frame {s s' : VSt} (ha : s'.api = s.api) (hs : s'.stack = s.stack)
    (hq : s'.fileFullname = s.fileFullname) (hn : s'.fileName = s.fileName) (name qname : String) :
    isPublicV s' name qname = isPublicV s name qname :=
  s04_isPublicV_congr (by unfold parentKind; rw [hs]) (by rw [ha]) hq hn name qname

/-! ### where the verdict is stored -/

/-- `enter_funcdef`: the function pushed on the stack carries the verdict on (name, fullname) in the entry state -/
theorem s04_enterFuncdef_flag {env : AEnv} {f : FuncDef} {s s' : VSt} {u : Unit}
    (h : enterFuncdef env f s = .ok (u, s')) :
    ∃ fn, s'.stack = .fn fn :: s.stack ∧ fn.name = f.name ∧ isPublicV s f.name f.fullname = .ok fn.isPublic := by
  unfold enterFuncdef at h
  have hh := k12_get_bind_ok h; clear h; have h := hh; clear hh
  have hh := k12_bind_ok h; clear h; obtain ⟨pub, t1, h1, h⟩ := hh
  have hpub : isPublicV s f.name f.fullname = .ok pub ∧ t1 = s := by
    cases hp : isPublicV s f.name f.fullname with
    | ok b =>
      rw [hp] at h1
      obtain ⟨e, e'⟩ := k12_pure_ok h1
      rw [e]; exact ⟨rfl, e'⟩
    | error e =>
      rw [hp] at h1
      exact (k12_throw_ok h1).elim
  obtain ⟨hpub, e1⟩ := hpub
  rw [e1] at h
  have hh := k12_bind_ok h; clear h; obtain ⟨doc, t2, h2, h⟩ := hh
  have e2 := (k12_functionDocumentation_fr env f).run _ _ _ h2
  have hh := k12_bind_ok h; clear h; obtain ⟨_, t3, h3, h⟩ := hh
  have e3 : t3.api = t2.api ∧ t3.stack = t2.stack := by rw [k12_modify_ok h3]; exact ⟨rfl, rfl⟩
  have hh := k12_bind_ok h; clear h; obtain ⟨params, t4, h4, h⟩ := hh
  have e4 := (k12_parseParameters_fr env f _ f.args).run _ _ _ h4
  have hh := k12_get_bind_ok h; clear h; have h := hh; clear hh
  have hh := k12_bind_ok h; clear h; obtain ⟨params', t6, h6, h⟩ := hh
  have e6 := (k12_reconcileParameters_fr env _ params).run _ _ _ h6
  have hh := k12_bind_ok h; clear h; obtain ⟨rdocs, t7, h7, h⟩ := hh
  have e7 := (k12_resultDocumentation_fr env f.fullname).run _ _ _ h7
  have hh := k12_bind_ok h; clear h; obtain ⟨results, t8, h8, h⟩ := hh
  have e8 := (k12_parseResults_fr env f _ rdocs).run _ _ _ h8
  have hh := k12_bind_ok h; clear h; obtain ⟨results', t9, h9, h⟩ := hh
  have e9 := (k12_reconcileResults_fr env _ rdocs 0 results results).run _ _ _ h9
  have hh := k12_get_bind_ok h; clear h; have h := hh; clear hh
  have hs' := k12_modify_ok h
  have estk : t9.stack = s.stack := by
    rw [e9.2, e8.2, e7.2, e6.2, e4.2, e3.2, e2.2]
  exact ⟨_, by rw [hs']; dsimp only; rw [estk], rfl, hpub⟩

/-- `enter_classdef`: the class pushed on the stack carries the verdict on (name, fullname) in the ENTRY state
    (the documentation / type-parameter steps before the test do not change what `isPublicV` reads) -/
theorem s04_enterClassdef_flag {env : AEnv} {name fullname : String} {bases removed : List BaseExpr} {defs : List Def}
    {s s' : VSt} {u : Unit} (h : enterClassdef env name fullname bases removed defs s = .ok (u, s')) :
    ∃ c, s'.stack = .cls c :: s.stack ∧ c.name = name ∧ isPublicV s name fullname = .ok c.isPublic := by
  unfold enterClassdef at h
  have hh := k12_get_bind_ok h; clear h; have h := hh; clear hh
  have hh := k12_bind_ok h; clear h; obtain ⟨doc, t1, h1, h⟩ := hh
  have e1 := (k12_classDocumentation_fr env fullname defs).run _ _ _ h1
  have n1 := (s04_classDocumentation_fr env fullname defs).run _ _ _ h1
  have hh := k12_bind_ok h; clear h; obtain ⟨tps, t2, h2, h⟩ := hh
  have e2 := (by k12_fr [k12_typeParameters_fr] : k12_Fr _).run _ _ _ h2
  have n2 := (by s04_fr [s04_typeParameters_fr] : s04_FrN _).run _ _ _ h2
  have hh := k12_get_bind_ok h; clear h; have h := hh; clear hh
  have hh := k12_bind_ok h; clear h; obtain ⟨supers, t3, h3, h⟩ := hh
  have e3 := (by k12_fr [k12_Fr.mapM] : k12_Fr _).run _ _ _ h3
  have n3 := (by s04_fr [s04_FrN.mapM] : s04_FrN _).run _ _ _ h3
  have hh := k12_bind_ok h; clear h; obtain ⟨_, t4, h4, h⟩ := hh
  have e4 := (k12_ctorFullDoc_fr env defs).run _ _ _ h4
  have n4 := (s04_ctorFullDoc_fr env defs).run _ _ _ h4
  have hh := k12_get_bind_ok h; clear h; have h := hh; clear hh
  have hh := k12_bind_ok h; clear h; obtain ⟨pub, t5, h5, h⟩ := hh
  have estk : t4.stack = s.stack := by rw [e4.2, e3.2, e2.2, e1.2]
  have eapi : t4.api = s.api := by rw [e4.1, e3.1, e2.1, e1.1]
  have eq : t4.fileFullname = s.fileFullname := by rw [n4.1, n3.1, n2.1, n1.1]
  have en : t4.fileName = s.fileName := by rw [n4.2, n3.2, n2.2, n1.2]
  have hpub : isPublicV s name fullname = .ok pub ∧ t5 = t4 := by
    rw [← s04_isPublicV_frame eapi estk eq en]
    cases hp : isPublicV t4 name fullname with
    | ok b =>
      rw [hp] at h5
      obtain ⟨e, e'⟩ := k12_pure_ok h5
      rw [e]; exact ⟨rfl, e'⟩
    | error e =>
      rw [hp] at h5
      exact (k12_throw_ok h5).elim
  obtain ⟨hpub, e5⟩ := hpub
  rw [e5] at h
  have hs' := k12_modify_ok h
  exact ⟨_, by rw [hs']; dsimp only; rw [estk], rfl, hpub⟩

/-- the qualified name `_create_attribute` tests -/
def s04_attrQname (name fullname : String) (var : Option VarInfo) : String :=
  match var with
  | some v => if fullname == name || fullname == "" then v.fullname else fullname
  | none => fullname

/-- `_create_attribute`: the attribute carries the verdict on (name, qname) in the entry state -/
theorem s04_createAttributeV_flag {env : AEnv} {isMember : Bool} {name fullname : String} {isVar : Bool}
    {var : Option VarInfo} {un : Option MType} {isStatic : Bool} {s s' : VSt} {a : Attribute}
    (h : createAttributeV env isMember name fullname isVar var un isStatic s = .ok (a, s')) :
    a.name = name ∧ isPublicV s name (s04_attrQname name fullname var) = .ok a.isPublic := by
  unfold createAttributeV at h
  by_cases hc : (!isVar && name == "") = true
  · rw [if_pos hc] at h
    obtain ⟨_, _, h1, _⟩ := k12_bind_ok h
    exact (k12_throw_ok h1).elim
  rw [if_neg hc] at h
  dsimp only at h
  have hh := k12_bind_ok h; clear h; obtain ⟨ty, t2, h2, h⟩ := hh
  have e2 := (by k12_fr [k12_toAbstract_fr] : k12_Fr _).run _ _ _ h2
  have n2 := (by s04_fr [s04_toAbstract_fr] : s04_FrN _).run _ _ _ h2
  have hh := k12_get_bind_ok h; clear h; have h := hh; clear hh
  have hh := k12_bind_ok h; clear h; obtain ⟨pid, t3, h3, h⟩ := hh
  have e3 := (by k12_fr [] : k12_Fr _).run _ _ _ h3
  have n3 := (by s04_fr [] : s04_FrN _).run _ _ _ h3
  have hh := k12_bind_ok h; clear h; obtain ⟨doc, t4, h4, h⟩ := hh
  have e4 := (k12_attributeDocumentation_fr env pid name).run _ _ _ h4
  have n4 := (s04_attributeDocumentation_fr env pid name).run _ _ _ h4
  have hh := k12_get_bind_ok h; clear h; have h := hh; clear hh
  have hh := k12_bind_ok h; clear h; obtain ⟨pub, t5, h5, h⟩ := hh
  have estk : t4.stack = s.stack := by rw [e4.2, e3.2, e2.2]
  have eapi : t4.api = s.api := by rw [e4.1, e3.1, e2.1]
  have eq : t4.fileFullname = s.fileFullname := by rw [n4.1, n3.1, n2.1]
  have en : t4.fileName = s.fileName := by rw [n4.2, n3.2, n2.2]
  obtain ⟨ea, _⟩ := k12_pure_ok h
  rw [← s04_isPublicV_frame eapi estk eq en, ea]
  refine ⟨rfl, ?_⟩
  dsimp only
  generalize hr : isPublicV t4 name _ = r at h5
  have hr' : isPublicV t4 name (s04_attrQname name fullname var) = r := hr
  rw [hr']
  cases r with
  | ok b =>
    obtain ⟨e, _⟩ := k12_pure_ok h5
    rw [e]
  | error e => exact (k12_throw_ok h5).elim
/-- decidable equality of results, for the kernel-checked examples (`attribute [local instance]` there) -/
@[instance_reducible] def s04_decEqResult : DecidableEq (Except PyErr Bool)
  | .ok a, .ok b => if h : a = b then isTrue (by rw [h]) else isFalse (fun e => h (by cases e; rfl))
  | .error a, .error b => if h : a = b then isTrue (by rw [h]) else isFalse (fun e => h (by cases e; rfl))
  | .ok _, .error _ => isFalse (fun e => by cases e)
  | .error _, .ok _ => isFalse (fun e => by cases e)

end StubGen
