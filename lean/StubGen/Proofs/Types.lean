/-
Helper lemmas for `StubGen.Theorems.C19`: `sortDedup` canonicity, the `permMatch`
(greedy multiset match) theory for a relation that is an equivalence on the elements
involved, and the `AType`-specific lemmas (round trip, `pyEq` is an equivalence, hash keys).
-/
import StubGen.Model.Types
import Mathlib.Data.List.Sort
import Mathlib.Data.String.Basic
import Mathlib.Data.List.Perm.Basic
import Mathlib.Data.List.Forall2

namespace StubGen

open List

/-! ### `sortDedup` -/

theorem mem_insertDedup (a : String) (l : List String) (x : String) :
    x ∈ insertDedup a l ↔ x = a ∨ x ∈ l := by
  induction l with
  | nil => simp [insertDedup]
  | cons b bs ih =>
    unfold insertDedup
    split
    · simp
    · split
      · subst_vars; simp
      · simp [ih]; tauto

theorem mem_sortDedup (l : List String) (x : String) : x ∈ sortDedup l ↔ x ∈ l := by
  induction l with
  | nil => simp [sortDedup]
  | cons a as ih => simp [sortDedup, mem_insertDedup, ih]

theorem pairwise_insertDedup (a : String) (l : List String) (h : l.Pairwise (· < ·)) :
    (insertDedup a l).Pairwise (· < ·) := by
  induction l with
  | nil => simp [insertDedup]
  | cons b bs ih =>
    rw [List.pairwise_cons] at h
    unfold insertDedup
    split
    · rename_i hab
      refine List.pairwise_cons.2 ⟨?_, List.pairwise_cons.2 h⟩
      intro x hx
      rcases List.mem_cons.1 hx with rfl | hx
      · exact hab
      · exact lt_trans hab (h.1 x hx)
    · split
      · exact List.pairwise_cons.2 h
      · rename_i h1 h2
        refine List.pairwise_cons.2 ⟨?_, ih h.2⟩
        intro x hx
        rcases (mem_insertDedup a bs x).1 hx with rfl | hx
        · rcases lt_trichotomy x b with h3 | h3 | h3
          · exact absurd h3 h1
          · exact absurd h3 h2
          · exact h3
        · exact h.1 x hx

theorem pairwise_sortDedup (l : List String) : (sortDedup l).Pairwise (· < ·) := by
  induction l with
  | nil => simp [sortDedup]
  | cons a as ih => exact pairwise_insertDedup a _ ih

theorem sortDedup_congr {l l' : List String} (h : ∀ a, a ∈ l ↔ a ∈ l') :
    sortDedup l = sortDedup l' :=
  (pairwise_sortDedup l).eq_of_mem_iff (pairwise_sortDedup l')
    (fun a => by rw [mem_sortDedup, mem_sortDedup, h])

/-! ### `permMatch` -/

section PermMatch
variable {α : Type}

theorem removeFirst_some {p : α → Bool} {ys rest : List α} (h : removeFirst p ys = some rest) :
    ∃ y, p y = true ∧ ys ~ y :: rest := by
  induction ys generalizing rest with
  | nil => simp [removeFirst] at h
  | cons y ys ih =>
    unfold removeFirst at h
    split at h
    · rename_i hp
      cases h
      exact ⟨y, hp, Perm.refl _⟩
    · cases hr : removeFirst p ys with
      | none => simp [hr] at h
      | some r =>
        simp [hr] at h
        subst h
        obtain ⟨z, hz, hperm⟩ := ih hr
        exact ⟨z, hz, (hperm.cons y).trans (Perm.swap z y r)⟩

theorem removeFirst_isSome {p : α → Bool} {ys : List α} (h : ∃ y ∈ ys, p y = true) :
    ∃ rest, removeFirst p ys = some rest := by
  induction ys with
  | nil => simp at h
  | cons y ys ih =>
    unfold removeFirst
    by_cases hp : p y = true
    · simp [hp]
    · simp only [hp]
      obtain ⟨z, hz, hpz⟩ := h
      rcases List.mem_cons.1 hz with rfl | hz
      · exact absurd hpz hp
      · obtain ⟨r, hr⟩ := ih ⟨z, hz, hpz⟩
        exact ⟨y :: r, by simp [hr]⟩

/-- greedy match ⇒ a matching exists -/
theorem permMatch_forall₂ {β : Type} (R : β → α → Bool) (xs : List β) (ys : List α)
    (h : permMatch (xs.map R) ys = true) :
    ∃ ys', ys' ~ ys ∧ Forall₂ (fun x y => R x y = true) xs ys' := by
  induction xs generalizing ys with
  | nil =>
    simp [permMatch] at h
    subst h
    exact ⟨[], Perm.refl _, Forall₂.nil⟩
  | cons x xs ih =>
    simp only [List.map_cons, permMatch] at h
    cases hr : removeFirst (R x) ys with
    | none => simp [hr] at h
    | some rest =>
      simp only [hr] at h
      obtain ⟨y, hy, hperm⟩ := removeFirst_some hr
      obtain ⟨ys', hp', hf⟩ := ih rest h
      exact ⟨y :: ys', (hp'.cons y).trans hperm.symm, Forall₂.cons hy hf⟩


theorem Forall₂.exists_left' {β : Type} {P : β → α → Prop} {xs : List β} {ys : List α}
    (h : Forall₂ P xs ys) : ∀ x ∈ xs, ∃ y ∈ ys, P x y := by
  induction h with
  | nil => simp
  | cons hab _ ih =>
    intro x hx
    rcases List.mem_cons.1 hx with rfl | hx
    · exact ⟨_, List.mem_cons_self, hab⟩
    · obtain ⟨y, hy, hxy⟩ := ih x hx
      exact ⟨y, List.mem_cons_of_mem _ hy, hxy⟩

theorem Forall₂.exists_right' {β : Type} {P : β → α → Prop} {xs : List β} {ys : List α}
    (h : Forall₂ P xs ys) : ∀ y ∈ ys, ∃ x ∈ xs, P x y := by
  induction h with
  | nil => simp
  | cons hab _ ih =>
    intro y hy
    rcases List.mem_cons.1 hy with rfl | hy
    · exact ⟨_, List.mem_cons_self, hab⟩
    · obtain ⟨x, hx, hxy⟩ := ih y hy
      exact ⟨x, List.mem_cons_of_mem _ hx, hxy⟩

theorem permMatch_left {β : Type} (R : β → α → Bool) (xs : List β) (ys : List α)
    (h : permMatch (xs.map R) ys = true) : ∀ x ∈ xs, ∃ y ∈ ys, R x y = true := by
  obtain ⟨ys', hp, hf⟩ := permMatch_forall₂ R xs ys h
  intro x hx
  obtain ⟨y, hy, hxy⟩ := Forall₂.exists_left' hf x hx
  exact ⟨y, hp.subset hy, hxy⟩

theorem permMatch_right {β : Type} (R : β → α → Bool) (xs : List β) (ys : List α)
    (h : permMatch (xs.map R) ys = true) : ∀ y ∈ ys, ∃ x ∈ xs, R x y = true := by
  obtain ⟨ys', hp, hf⟩ := permMatch_forall₂ R xs ys h
  intro y hy
  exact Forall₂.exists_right' hf y (hp.symm.subset hy)

/-- `R` is an equivalence relation on the elements satisfying `S`. -/
structure EquivOn (R : α → α → Bool) (S : α → Prop) : Prop where
  refl : ∀ x, S x → R x x = true
  symm : ∀ x y, S x → S y → R x y = true → R y x = true
  trans : ∀ x y z, S x → S y → S z → R x y = true → R y z = true → R x z = true

theorem EquivOn.congr_right {R : α → α → Bool} {S : α → Prop} (E : EquivOn R S)
    {x y z : α} (hx : S x) (hy : S y) (hz : S z) (hxy : R x y = true) : R z x = R z y := by
  cases h1 : R z x <;> cases h2 : R z y <;> try rfl
  · have := E.trans z y x hz hy hx h2 (E.symm x y hx hy hxy)
    simp [h1] at this
  · have := E.trans z x y hz hx hy h1 hxy
    simp [h2] at this

theorem EquivOn.mono {R : α → α → Bool} {S T : α → Prop} (E : EquivOn R S)
    (h : ∀ x, T x → S x) : EquivOn R T :=
  ⟨fun x hx => E.refl x (h x hx), fun x y hx hy => E.symm x y (h x hx) (h y hy),
   fun x y z hx hy hz => E.trans x y z (h x hx) (h y hy) (h z hz)⟩

/-- multiset equality modulo `R`, in counting form -/
def CountEq (R : α → α → Bool) (S : α → Prop) (xs ys : List α) : Prop :=
  xs.length = ys.length ∧ ∀ z, S z → countP (R z) xs = countP (R z) ys

theorem CountEq.refl (R : α → α → Bool) (S : α → Prop) (xs : List α) : CountEq R S xs xs :=
  ⟨rfl, fun _ _ => rfl⟩

theorem CountEq.symm {R : α → α → Bool} {S : α → Prop} {xs ys : List α}
    (h : CountEq R S xs ys) : CountEq R S ys xs :=
  ⟨h.1.symm, fun z hz => (h.2 z hz).symm⟩

theorem CountEq.trans {R : α → α → Bool} {S : α → Prop} {xs ys zs : List α}
    (h : CountEq R S xs ys) (h' : CountEq R S ys zs) : CountEq R S xs zs :=
  ⟨h.1.trans h'.1, fun z hz => (h.2 z hz).trans (h'.2 z hz)⟩

theorem CountEq.of_perm {R : α → α → Bool} {S : α → Prop} {xs ys : List α}
    (h : xs ~ ys) : CountEq R S xs ys :=
  ⟨h.length_eq, fun z _ => h.countP_eq (R z)⟩

theorem CountEq.of_forall₂ {R : α → α → Bool} {S : α → Prop} (E : EquivOn R S)
    {xs ys : List α} (h : Forall₂ (fun x y => R x y = true) xs ys)
    (hxs : ∀ x ∈ xs, S x) (hys : ∀ y ∈ ys, S y) : CountEq R S xs ys := by
  induction h with
  | nil => exact CountEq.refl _ _ _
  | @cons a b l₁ l₂ hab _ ih =>
    have ih' := ih (fun x hx => hxs x (List.mem_cons_of_mem _ hx))
      (fun y hy => hys y (List.mem_cons_of_mem _ hy))
    refine ⟨by simp [ih'.1], fun z hz => ?_⟩
    rw [List.countP_cons, List.countP_cons, ih'.2 z hz,
      E.congr_right (hxs a List.mem_cons_self) (hys b List.mem_cons_self) hz hab]

theorem CountEq.of_permMatch {R : α → α → Bool} {S : α → Prop} (E : EquivOn R S)
    {xs ys : List α} (hxs : ∀ x ∈ xs, S x) (hys : ∀ y ∈ ys, S y)
    (h : permMatch (xs.map R) ys = true) : CountEq R S xs ys := by
  obtain ⟨ys', hp, hf⟩ := permMatch_forall₂ R xs ys h
  exact (CountEq.of_forall₂ E hf hxs (fun y hy => hys y (hp.subset hy))).trans (CountEq.of_perm hp)

theorem CountEq.permMatch {R : α → α → Bool} {S : α → Prop} (E : EquivOn R S)
    {xs ys : List α} (hxs : ∀ x ∈ xs, S x) (hys : ∀ y ∈ ys, S y)
    (h : CountEq R S xs ys) : permMatch (xs.map R) ys = true := by
  induction xs generalizing ys with
  | nil =>
    have : ys = [] := List.length_eq_zero_iff.1 h.1.symm
    subst this
    simp [StubGen.permMatch]
  | cons x xs ih =>
    have hSx := hxs x List.mem_cons_self
    have hpos : 0 < countP (R x) ys := by
      rw [← h.2 x hSx, List.countP_cons, E.refl x hSx]
      simp
    obtain ⟨y0, hy0, hRy0⟩ := List.countP_pos_iff.1 hpos
    obtain ⟨rest, hr⟩ := removeFirst_isSome (p := R x) ⟨y0, hy0, hRy0⟩
    obtain ⟨y, hy, hperm⟩ := removeFirst_some hr
    have hSy : S y := hys y (hperm.symm.subset List.mem_cons_self)
    have hrest : ∀ y' ∈ rest, S y' := fun y' hy' =>
      hys y' (hperm.symm.subset (List.mem_cons_of_mem _ hy'))
    simp only [List.map_cons, StubGen.permMatch, hr]
    apply ih (fun x' hx' => hxs x' (List.mem_cons_of_mem _ hx')) hrest
    constructor
    · have := h.1
      rw [hperm.length_eq] at this
      simpa using this
    · intro z hz
      have := h.2 z hz
      rw [hperm.countP_eq, List.countP_cons, List.countP_cons,
        E.congr_right hSx hSy hz hy] at this
      omega

theorem permMatch_iff_countEq {R : α → α → Bool} {S : α → Prop} (E : EquivOn R S)
    {xs ys : List α} (hxs : ∀ x ∈ xs, S x) (hys : ∀ y ∈ ys, S y) :
    permMatch (xs.map R) ys = true ↔ CountEq R S xs ys :=
  ⟨CountEq.of_permMatch E hxs hys, CountEq.permMatch E hxs hys⟩

end PermMatch
/-! ### consequences for equivalences -/

section
variable {α : Type} {R : α → α → Bool} {S : α → Prop}

theorem permMatch_refl_of (E : EquivOn R S) {xs : List α} (hxs : ∀ x ∈ xs, S x) :
    permMatch (xs.map R) xs = true :=
  CountEq.permMatch E hxs hxs (CountEq.refl _ _ _)

theorem permMatch_symm_of (E : EquivOn R S) {xs ys : List α} (hxs : ∀ x ∈ xs, S x)
    (hys : ∀ y ∈ ys, S y) (h : permMatch (xs.map R) ys = true) :
    permMatch (ys.map R) xs = true :=
  CountEq.permMatch E hys hxs (CountEq.of_permMatch E hxs hys h).symm

theorem permMatch_trans_of (E : EquivOn R S) {xs ys zs : List α} (hxs : ∀ x ∈ xs, S x)
    (hys : ∀ y ∈ ys, S y) (hzs : ∀ z ∈ zs, S z) (h : permMatch (xs.map R) ys = true)
    (h' : permMatch (ys.map R) zs = true) : permMatch (xs.map R) zs = true :=
  CountEq.permMatch E hxs hzs
    ((CountEq.of_permMatch E hxs hys h).trans (CountEq.of_permMatch E hys hzs h'))

theorem permMatch_of_perm (E : EquivOn R S) {xs ys : List α} (hxs : ∀ x ∈ xs, S x)
    (h : xs ~ ys) : permMatch (xs.map R) ys = true :=
  CountEq.permMatch E hxs (fun y hy => hxs y (h.symm.subset hy)) (CountEq.of_perm h)
end

/-! ### `AType` lemmas -/

theorem eqFns_eq_map (ts : List AType) : AType.eqFns ts = ts.map AType.pyEq := by
  induction ts with
  | nil => simp [AType.eqFns]
  | cons t ts ih => simp [AType.eqFns, ih]

theorem hashKeyL_eq_map (ts : List AType) : AType.hashKeyL ts = ts.map AType.hashKey := by
  induction ts with
  | nil => simp [AType.hashKeyL]
  | cons t ts ih => simp [AType.hashKeyL, ih]

theorem strSetEq_iff (a b : List String) :
    strSetEq a b = true ↔ (∀ x, x ∈ a ↔ x ∈ b) := by
  simp only [strSetEq, Bool.and_eq_true, List.all_eq_true, List.contains_iff_mem]
  constructor
  · rintro ⟨h1, h2⟩ x; exact ⟨h1 x, h2 x⟩
  · intro h; exact ⟨fun x => (h x).1, fun x => (h x).2⟩

theorem litEquiv : EquivOn Lit.pyEq (fun _ => True) := by
  refine ⟨?_, ?_, ?_⟩
  · intro x _; simp [Lit.pyEq]
  · intro x y _ _ h; simp [Lit.pyEq] at h ⊢; exact h.symm
  · intro x y z _ _ _ h h'; simp [Lit.pyEq] at h h' ⊢; exact h.trans h'

theorem boundary_pyEq_iff (b : String) (mn mx : Bnd) (mi xi : Bool) (b' : String) (mn' mx' : Bnd)
    (mi' xi' : Bool) :
    (AType.boundary b mn mx mi xi).pyEq (AType.boundary b' mn' mx' mi' xi') = true ↔
      b = b' ∧ mn = mn' ∧ mi = mi' ∧ mx = mx' ∧ (mx = .str "Infinity" ∨ xi = xi') := by
  simp only [AType.pyEq]
  split
  · rename_i h
    simp only [Bool.and_eq_true, beq_iff_eq] at h
    obtain ⟨⟨⟨h1, h2⟩, h3⟩, h4⟩ := h
    subst h1 h2 h3 h4
    split
    · rename_i h5
      simp only [beq_iff_eq] at h5
      simp [h5]
    · rename_i h5
      simp only [beq_iff_eq] at h5
      simp [h5]
  · rename_i h
    simp only [Bool.and_eq_true, beq_iff_eq] at h
    simp only [Bool.false_eq_true, false_iff]
    rintro ⟨h1, h2, h3, h4, _⟩
    exact h ⟨⟨⟨h1, h2⟩, h3⟩, h4⟩

theorem size_mem {ts : List AType} {m : Nat} (h : sizeOf ts < m) : ∀ x ∈ ts, sizeOf x < m :=
  fun _ hx => Nat.lt_trans (List.sizeOf_lt_of_mem hx) h

/-! ### round trip -/

theorem collectStrs_map (vs : List String) :
    FromDict.collectStrs (parseList (vs.map PyVal.str)) = .ok vs := by
  induction vs with
  | nil => simp [parseList, FromDict.collectStrs]
  | cons v vs ih => simp [parseList, parse, FromDict.collectStrs, FromDict.asStrLit, ih]

theorem collectLits_map (ls : List Lit) :
    FromDict.collectLits (parseList (ls.map Lit.toPy)) = .ok ls := by
  induction ls with
  | nil => simp [parseList, FromDict.collectLits]
  | cons l ls ih =>
    cases l <;> simp [parseList, parse, FromDict.collectLits, FromDict.asLit, Lit.toPy, ih]

mutual
theorem parse_toDict : (t : AType) → parse t.toDict = .ty (.ok t)
  | .unknown => by simp [AType.toDict, parse, parseItems, FromDict.build, assocGet?]
  | .named n q => by
      simp [AType.toDict, parse, parseItems, FromDict.build, assocGet?, FromDict.getStr]
  | .namedSeq n q ts => by
      have := collect_toDictL ts
      simp [AType.toDict, parse, parseItems, FromDict.build, assocGet?, FromDict.getStr,
        FromDict.getTypes, this]
  | .enum vs => by
      simp [AType.toDict, parse, parseItems, FromDict.build, assocGet?, collectStrs_map]
  | .boundary b mn mx mi xi => by
      cases mn <;> cases mx <;>
      simp [AType.toDict, parse, parseItems, FromDict.build, assocGet?, FromDict.getStr,
        FromDict.getBnd, FromDict.getBool, Bnd.toPy]
  | .union ts => by
      have := collect_toDictL ts
      simp [AType.toDict, parse, parseItems, FromDict.build, assocGet?, FromDict.getTypes, this]
  | .list ts => by
      have := collect_toDictL ts
      simp [AType.toDict, parse, parseItems, FromDict.build, assocGet?, FromDict.getTypes, this]
  | .dict k v => by
      have h1 := parse_toDict k
      have h2 := parse_toDict v
      simp [AType.toDict, parse, parseItems, FromDict.build, assocGet?, FromDict.getType,
        FromDict.asType, h1, h2]
  | .callable ps r => by
      have h1 := collect_toDictL ps
      have h2 := parse_toDict r
      simp [AType.toDict, parse, parseItems, FromDict.build, assocGet?, FromDict.getType,
        FromDict.getTypes, FromDict.asType, h1, h2]
  | .set ts => by
      have := collect_toDictL ts
      simp [AType.toDict, parse, parseItems, FromDict.build, assocGet?, FromDict.getTypes, this]
  | .literal ls => by
      simp [AType.toDict, parse, parseItems, FromDict.build, assocGet?, collectLits_map]
  | .final t => by
      have h1 := parse_toDict t
      simp [AType.toDict, parse, parseItems, FromDict.build, assocGet?, FromDict.getType,
        FromDict.asType, h1]
  | .tuple ts => by
      have := collect_toDictL ts
      simp [AType.toDict, parse, parseItems, FromDict.build, assocGet?, FromDict.getTypes, this]
  | .typeVar n => by
      simp [AType.toDict, parse, parseItems, FromDict.build, assocGet?, FromDict.getStr]
  | .typeVarB n u => by
      have h1 := parse_toDict u
      simp [AType.toDict, parse, parseItems, FromDict.build, assocGet?, FromDict.getStr,
        FromDict.asType, h1]
theorem collect_toDictL : (ts : List AType) →
    FromDict.collect (parseList (AType.toDictL ts)) = .ok ts
  | [] => by simp [AType.toDictL, parseList, FromDict.collect]
  | t :: ts => by
      have h1 := parse_toDict t
      have h2 := collect_toDictL ts
      simp [AType.toDictL, parseList, FromDict.collect, FromDict.asType, h1, h2]
end

theorem fromDict_toDict (t : AType) : AType.fromDict t.toDict = .ok t := by
  simp [AType.fromDict, parse_toDict, FromDict.asType]

/-! ### `pyEq` is an equivalence relation -/

/-- closes `sizeOf x < n` goals from hypotheses `sizeOf (C … x …) < n + 1` -/
macro "szt" : tactic => `(tactic|
  (simp only [AType.namedSeq.sizeOf_spec, AType.union.sizeOf_spec, AType.list.sizeOf_spec,
     AType.callable.sizeOf_spec, AType.set.sizeOf_spec, AType.tuple.sizeOf_spec,
     AType.dict.sizeOf_spec, AType.final.sizeOf_spec, AType.typeVarB.sizeOf_spec] at *
   omega))

theorem pyEq_refl_step (n : Nat) (E : EquivOn AType.pyEq (fun a => sizeOf a < n))
    (a : AType) (ha : sizeOf a < n + 1) : a.pyEq a = true := by
  cases a
  case unknown => simp [AType.pyEq]
  case named => simp [AType.pyEq]
  case namedSeq nm q ts =>
    simp only [AType.pyEq, eqFns_eq_map, beq_self_eq_true, Bool.and_true]
    exact permMatch_refl_of E (size_mem (by szt))
  case enum vs => simp [AType.pyEq, strSetEq_iff]
  case boundary => simp [boundary_pyEq_iff]
  case union ts =>
    simp only [AType.pyEq, eqFns_eq_map]
    exact permMatch_refl_of E (size_mem (by szt))
  case list ts =>
    simp only [AType.pyEq, eqFns_eq_map]
    exact permMatch_refl_of E (size_mem (by szt))
  case dict k v =>
    simp only [AType.pyEq, Bool.and_eq_true]
    exact ⟨E.refl k (by szt), E.refl v (by szt)⟩
  case callable ps r =>
    simp only [AType.pyEq, eqFns_eq_map, Bool.and_eq_true]
    exact ⟨permMatch_refl_of E (size_mem (by szt)), E.refl r (by szt)⟩
  case set ts =>
    simp only [AType.pyEq, eqFns_eq_map]
    exact permMatch_refl_of E (size_mem (by szt))
  case literal ls =>
    simp only [AType.pyEq]
    exact permMatch_refl_of litEquiv (fun _ _ => trivial)
  case final t =>
    simp only [AType.pyEq]
    exact E.refl t (by szt)
  case tuple ts =>
    simp only [AType.pyEq, eqFns_eq_map]
    exact permMatch_refl_of E (size_mem (by szt))
  case typeVar => simp [AType.pyEq]
  case typeVarB nm u =>
    simp only [AType.pyEq, beq_self_eq_true, Bool.true_and]
    exact E.refl u (by szt)

theorem pyEq_symm_step (n : Nat) (E : EquivOn AType.pyEq (fun a => sizeOf a < n))
    (a b : AType) (ha : sizeOf a < n + 1) (hb : sizeOf b < n + 1) (h : a.pyEq b = true) :
    b.pyEq a = true := by
  cases a <;> cases b <;> (try (simp [AType.pyEq] at h; done))
  case unknown.unknown => simp [AType.pyEq]
  case named.named =>
    simp [AType.pyEq] at h ⊢
    exact ⟨h.1.symm, h.2.symm⟩
  case namedSeq.namedSeq nm q ts nm' q' ts' =>
    simp only [AType.pyEq, eqFns_eq_map, Bool.and_eq_true, beq_iff_eq] at h ⊢
    exact ⟨⟨permMatch_symm_of E (size_mem (by szt)) (size_mem (by szt)) h.1.1, h.1.2.symm⟩,
      h.2.symm⟩
  case enum.enum vs vs' =>
    simp only [AType.pyEq, strSetEq_iff] at h ⊢
    exact fun x => (h x).symm
  case boundary.boundary =>
    rw [boundary_pyEq_iff] at h ⊢
    obtain ⟨rfl, rfl, rfl, rfl, h5⟩ := h
    exact ⟨rfl, rfl, rfl, rfl, h5.imp id Eq.symm⟩
  case union.union ts ts' =>
    simp only [AType.pyEq, eqFns_eq_map] at h ⊢
    exact permMatch_symm_of E (size_mem (by szt)) (size_mem (by szt)) h
  case list.list ts ts' =>
    simp only [AType.pyEq, eqFns_eq_map] at h ⊢
    exact permMatch_symm_of E (size_mem (by szt)) (size_mem (by szt)) h
  case dict.dict k v k' v' =>
    simp only [AType.pyEq, Bool.and_eq_true] at h ⊢
    exact ⟨E.symm k k' (by szt) (by szt) h.1, E.symm v v' (by szt) (by szt) h.2⟩
  case callable.callable ps r ps' r' =>
    simp only [AType.pyEq, eqFns_eq_map, Bool.and_eq_true] at h ⊢
    exact ⟨permMatch_symm_of E (size_mem (by szt)) (size_mem (by szt)) h.1,
      E.symm r r' (by szt) (by szt) h.2⟩
  case set.set ts ts' =>
    simp only [AType.pyEq, eqFns_eq_map] at h ⊢
    exact permMatch_symm_of E (size_mem (by szt)) (size_mem (by szt)) h
  case literal.literal ls ls' =>
    simp only [AType.pyEq] at h ⊢
    exact permMatch_symm_of litEquiv (fun _ _ => trivial) (fun _ _ => trivial) h
  case final.final t t' =>
    simp only [AType.pyEq] at h ⊢
    exact E.symm t t' (by szt) (by szt) h
  case tuple.tuple ts ts' =>
    simp only [AType.pyEq, eqFns_eq_map] at h ⊢
    exact permMatch_symm_of E (size_mem (by szt)) (size_mem (by szt)) h
  case typeVar.typeVar =>
    simp [AType.pyEq] at h ⊢
    exact h.symm
  case typeVarB.typeVarB nm u nm' u' =>
    simp only [AType.pyEq, Bool.and_eq_true, beq_iff_eq] at h ⊢
    exact ⟨h.1.symm, E.symm u u' (by szt) (by szt) h.2⟩


theorem pyEq_trans_step (n : Nat) (E : EquivOn AType.pyEq (fun a => sizeOf a < n))
    (a b c : AType) (ha : sizeOf a < n + 1) (hb : sizeOf b < n + 1) (hc : sizeOf c < n + 1)
    (h : a.pyEq b = true) (h' : b.pyEq c = true) : a.pyEq c = true := by
  cases a <;> cases b <;> (try (simp [AType.pyEq] at h; done)) <;>
    cases c <;> (try (simp [AType.pyEq] at h'; done))
  case unknown.unknown.unknown => simp [AType.pyEq]
  case named.named.named =>
    simp [AType.pyEq] at h h' ⊢
    exact ⟨h.1.trans h'.1, h.2.trans h'.2⟩
  case namedSeq.namedSeq.namedSeq nm q ts nm' q' ts' nm'' q'' ts'' =>
    simp only [AType.pyEq, eqFns_eq_map, Bool.and_eq_true, beq_iff_eq] at h h' ⊢
    exact ⟨⟨permMatch_trans_of E (size_mem (by szt)) (size_mem (by szt)) (size_mem (by szt))
      h.1.1 h'.1.1, h.1.2.trans h'.1.2⟩, h.2.trans h'.2⟩
  case enum.enum.enum vs vs' vs'' =>
    simp only [AType.pyEq, strSetEq_iff] at h h' ⊢
    exact fun x => (h x).trans (h' x)
  case boundary.boundary.boundary =>
    rw [boundary_pyEq_iff] at h h' ⊢
    obtain ⟨rfl, rfl, rfl, rfl, h5⟩ := h
    obtain ⟨rfl, rfl, rfl, rfl, h5'⟩ := h'
    refine ⟨rfl, rfl, rfl, rfl, ?_⟩
    rcases h5 with h5 | h5
    · exact Or.inl h5
    · exact h5'.imp id (fun e => h5.trans e)
  case union.union.union ts ts' ts'' =>
    simp only [AType.pyEq, eqFns_eq_map] at h h' ⊢
    exact permMatch_trans_of E (size_mem (by szt)) (size_mem (by szt)) (size_mem (by szt)) h h'
  case list.list.list ts ts' ts'' =>
    simp only [AType.pyEq, eqFns_eq_map] at h h' ⊢
    exact permMatch_trans_of E (size_mem (by szt)) (size_mem (by szt)) (size_mem (by szt)) h h'
  case dict.dict.dict k v k' v' k'' v'' =>
    simp only [AType.pyEq, Bool.and_eq_true] at h h' ⊢
    exact ⟨E.trans k k' k'' (by szt) (by szt) (by szt) h.1 h'.1,
      E.trans v v' v'' (by szt) (by szt) (by szt) h.2 h'.2⟩
  case callable.callable.callable ps r ps' r' ps'' r'' =>
    simp only [AType.pyEq, eqFns_eq_map, Bool.and_eq_true] at h h' ⊢
    exact ⟨permMatch_trans_of E (size_mem (by szt)) (size_mem (by szt)) (size_mem (by szt))
      h.1 h'.1, E.trans r r' r'' (by szt) (by szt) (by szt) h.2 h'.2⟩
  case set.set.set ts ts' ts'' =>
    simp only [AType.pyEq, eqFns_eq_map] at h h' ⊢
    exact permMatch_trans_of E (size_mem (by szt)) (size_mem (by szt)) (size_mem (by szt)) h h'
  case literal.literal.literal ls ls' ls'' =>
    simp only [AType.pyEq] at h h' ⊢
    exact permMatch_trans_of litEquiv (fun _ _ => trivial) (fun _ _ => trivial)
      (fun _ _ => trivial) h h'
  case final.final.final t t' t'' =>
    simp only [AType.pyEq] at h h' ⊢
    exact E.trans t t' t'' (by szt) (by szt) (by szt) h h'
  case tuple.tuple.tuple ts ts' ts'' =>
    simp only [AType.pyEq, eqFns_eq_map] at h h' ⊢
    exact permMatch_trans_of E (size_mem (by szt)) (size_mem (by szt)) (size_mem (by szt)) h h'
  case typeVar.typeVar.typeVar =>
    simp [AType.pyEq] at h h' ⊢
    exact h.trans h'
  case typeVarB.typeVarB.typeVarB nm u nm' u' nm'' u'' =>
    simp only [AType.pyEq, Bool.and_eq_true, beq_iff_eq] at h h' ⊢
    exact ⟨h.1.trans h'.1, E.trans u u' u'' (by szt) (by szt) (by szt) h.2 h'.2⟩

theorem pyEq_equivOn_lt (n : Nat) : EquivOn AType.pyEq (fun a => sizeOf a < n) := by
  induction n with
  | zero => exact ⟨fun _ h => absurd h (Nat.not_lt_zero _), fun _ _ h => absurd h (Nat.not_lt_zero _),
      fun _ _ _ h => absurd h (Nat.not_lt_zero _)⟩
  | succ n ih =>
    exact ⟨pyEq_refl_step n ih, pyEq_symm_step n ih, pyEq_trans_step n ih⟩

/-- `AType.pyEq` is an equivalence relation. -/
theorem pyEq_equiv : EquivOn AType.pyEq (fun _ => True) := by
  refine ⟨fun a _ => ?_, fun a b _ _ => ?_, fun a b c _ _ _ => ?_⟩
  · exact (pyEq_equivOn_lt (sizeOf a + 1)).refl a (Nat.lt_succ_self _)
  · exact (pyEq_equivOn_lt (sizeOf a + sizeOf b + 1)).symm a b (by omega) (by omega)
  · exact (pyEq_equivOn_lt (sizeOf a + sizeOf b + sizeOf c + 1)).trans a b c
      (by omega) (by omega) (by omega)

/-! ### `==` implies equal hash keys -/

theorem permMatch_map_mem_iff {α β : Type} (R : α → α → Bool) (f : α → β) {xs ys : List α}
    (h : permMatch (xs.map R) ys = true)
    (hf : ∀ x ∈ xs, ∀ y, R x y = true → f x = f y) : ∀ k, k ∈ xs.map f ↔ k ∈ ys.map f := by
  intro k
  simp only [List.mem_map]
  constructor
  · rintro ⟨x, hx, rfl⟩
    obtain ⟨y, hy, hxy⟩ := permMatch_left R xs ys h x hx
    exact ⟨y, hy, (hf x hx y hxy).symm⟩
  · rintro ⟨y, hy, rfl⟩
    obtain ⟨x, hx, hxy⟩ := permMatch_right R xs ys h y hy
    exact ⟨x, hx, hf x hx y hxy⟩

theorem fsetKey_congr {l l' : List String} (h : ∀ a, a ∈ l ↔ a ∈ l') : fsetKey l = fsetKey l' := by
  simp only [fsetKey, sortDedup_congr h]

theorem Lit.hashKey_norm (a : Lit) : a.norm.hashKey = a.hashKey := by
  cases a with
  | bool b => cases b <;> decide
  | _ => rfl

theorem Lit.hashKey_of_pyEq (a b : Lit) (h : a.pyEq b = true) : a.hashKey = b.hashKey := by
  simp only [Lit.pyEq, beq_iff_eq] at h
  rw [← Lit.hashKey_norm a, ← Lit.hashKey_norm b, h]

theorem hashKey_of_pyEq_lt (n : Nat) :
    ∀ a b : AType, sizeOf a < n → a.pyEq b = true → a.hashKey = b.hashKey := by
  induction n with
  | zero => intro a b h; exact absurd h (Nat.not_lt_zero _)
  | succ n ih =>
    intro a b ha h
    cases a <;> cases b <;> (try (simp [AType.pyEq] at h; done))
    case unknown.unknown => rfl
    case named.named =>
      simp [AType.pyEq] at h
      simp [AType.hashKey, h.1, h.2]
    case namedSeq.namedSeq nm q ts nm' q' ts' =>
      simp only [AType.pyEq, eqFns_eq_map, Bool.and_eq_true, beq_iff_eq] at h
      obtain ⟨⟨h1, rfl⟩, rfl⟩ := h
      simp only [AType.hashKey, hashKeyL_eq_map]
      apply fsetKey_congr
      intro k
      have := permMatch_map_mem_iff _ AType.hashKey h1
        (fun x hx y hxy => ih x y (size_mem (by szt) x hx) hxy) k
      simp only [List.mem_cons, this]
    case enum.enum vs vs' =>
      simp only [AType.pyEq, strSetEq_iff] at h
      simp only [AType.hashKey]
      congr 2
      apply fsetKey_congr
      intro k
      simp only [List.mem_map, h]
    case boundary.boundary =>
      rw [boundary_pyEq_iff] at h
      obtain ⟨rfl, rfl, rfl, rfl, h5⟩ := h
      rcases h5 with rfl | rfl
      · simp [AType.hashKey]
      · rfl
    case union.union ts ts' =>
      simp only [AType.pyEq, eqFns_eq_map] at h
      simp only [AType.hashKey, hashKeyL_eq_map]
      exact fsetKey_congr (permMatch_map_mem_iff _ AType.hashKey h
        (fun x hx y hxy => ih x y (size_mem (by szt) x hx) hxy))
    case list.list ts ts' =>
      simp only [AType.pyEq, eqFns_eq_map] at h
      simp only [AType.hashKey, hashKeyL_eq_map]
      exact fsetKey_congr (permMatch_map_mem_iff _ AType.hashKey h
        (fun x hx y hxy => ih x y (size_mem (by szt) x hx) hxy))
    case dict.dict k v k' v' =>
      simp only [AType.pyEq, Bool.and_eq_true] at h
      simp only [AType.hashKey, ih k k' (by szt) h.1, ih v v' (by szt) h.2]
    case callable.callable ps r ps' r' =>
      simp only [AType.pyEq, eqFns_eq_map, Bool.and_eq_true] at h
      simp only [AType.hashKey, hashKeyL_eq_map, ih r r' (by szt) h.2]
      apply fsetKey_congr
      intro k
      have := permMatch_map_mem_iff _ AType.hashKey h.1
        (fun x hx y hxy => ih x y (size_mem (by szt) x hx) hxy) k
      simp only [List.mem_cons, this]
    case set.set ts ts' =>
      simp only [AType.pyEq, eqFns_eq_map] at h
      simp only [AType.hashKey, hashKeyL_eq_map]
      exact fsetKey_congr (permMatch_map_mem_iff _ AType.hashKey h
        (fun x hx y hxy => ih x y (size_mem (by szt) x hx) hxy))
    case literal.literal ls ls' =>
      simp only [AType.pyEq] at h
      simp only [AType.hashKey]
      exact fsetKey_congr (permMatch_map_mem_iff _ Lit.hashKey h
        (fun x _ y hxy => Lit.hashKey_of_pyEq x y hxy))
    case final.final t t' =>
      simp only [AType.pyEq] at h
      simp only [AType.hashKey, ih t t' (by szt) h]
    case tuple.tuple ts ts' =>
      simp only [AType.pyEq, eqFns_eq_map] at h
      simp only [AType.hashKey, hashKeyL_eq_map]
      exact fsetKey_congr (permMatch_map_mem_iff _ AType.hashKey h
        (fun x hx y hxy => ih x y (size_mem (by szt) x hx) hxy))
    case typeVar.typeVar =>
      simp [AType.pyEq] at h
      simp [AType.hashKey, h]
    case typeVarB.typeVarB nm u nm' u' =>
      simp only [AType.pyEq, Bool.and_eq_true, beq_iff_eq] at h
      simp only [AType.hashKey, h.1, ih u u' (by szt) h.2]

theorem hashKey_of_pyEq (a b : AType) (h : a.pyEq b = true) : a.hashKey = b.hashKey :=
  hashKey_of_pyEq_lt (sizeOf a + 1) a b (Nat.lt_succ_self _) h

/-! ### permutations -/

theorem eqFns_permMatch_of_perm {ts ts' : List AType} (h : ts ~ ts') :
    permMatch (AType.eqFns ts) ts' = true := by
  rw [eqFns_eq_map]
  exact permMatch_of_perm pyEq_equiv (fun _ _ => trivial) h

theorem lits_permMatch_of_perm {ls ls' : List Lit} (h : ls ~ ls') :
    permMatch (ls.map Lit.pyEq) ls' = true :=
  permMatch_of_perm litEquiv (fun _ _ => trivial) h

end StubGen
