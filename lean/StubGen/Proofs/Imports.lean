/-
Helper lemmas for `StubGen.Theorems.C11` (imports of a stub file).  All names are prefixed `q11_`.

* `q11_effect`: the state transformer `addToImports` implements, as a pure function, with the closed form
  `q11_addToImports_eq` (success and failure) and the branch lemmas;
* `q11_RegQ`: "the class path `q` is registered or exempt in state `st`" (the exact disjunction of the code);
  `q11_Ext`: the state order "imports and placeholder classes only grow, the module identity is fixed";
* `q11_leaves`: the named types occurring in a type; `q11_typeStr_reg`: every one is registered after `typeStr`;
* `q11_MonoAt` and the tactic `q11_mono [lemmas]`: every function of the generator up to `createClassString`,
  `createFunctions`, `createClasses` is monotone w.r.t. `q11_Ext`;
* `q11_importLine` / `q11_importBlock`: the text `createImportsString` prints;
* the decomposition of `callGenerator` and `createReexportElements` into reset / body / import block;
* the placeholder stub `createStubFiles` writes for every class path in `outside`.
-/
import StubGen.Proofs.Files
import StubGen.Proofs.Markers
import StubGen.Proofs.TypeText
import StubGen.Proofs.Emission

namespace StubGen

open List

/-! ### 1. `addToImports` as a pure state transformer -/

/-- class paths `addToImports` ignores without looking at the state: `builtins.X`, `typing.Any`, and names
    without a module path (one dot-segment) -/
def q11_exempt (q : String) : Bool :=
  ((splitDot q).head? == some "builtins" && (splitDot q).length == 2) || q == "typing.Any"
    || (splitDot q).length == 1

/-- the same-module test of `addToImports`: the dotted id of the module being generated is a SUBSTRING of
    the class path -/
def q11_sameModule (st : St) (q : String) : Bool := pyIn (replaceChar st.moduleId '/' ".") q

/-- the class of the package the path is resolved to: the first class (in table order) whose id is connected to
    the path (`isPathConnectedToClass`) -/
def q11_found (env : Env) (q : String) : Option Class :=
  env.api.classes.find? fun c => isPathConnectedToClass env.api.reexportMap (replaceChar q '.' "/") c.id

/-- the path under which a class of the package is imported: below its shortest public re-export if there is
    one, else its own dotted id -/
def q11_classTarget (env : Env) (c : Class) : String :=
  let cq := replaceChar c.id '/' "."
  let name := lastD "" (splitDot cq)
  let sh := (shortestPublicReexport env.api.reexportMap name cq false).1
  if sh != "" then sh ++ "." ++ name else cq

/-- the class path that is registered for the request `q` -/
def q11_target (env : Env) (q : String) : String :=
  match q11_found env q with
  | some c => if q11_classTarget env c != "" then q11_classTarget env c else q
  | none => q

/-- the effect of a successful `addToImports env q` -/
def q11_effect (env : Env) (q : String) (st : St) : St :=
  if q11_exempt q || q11_sameModule st q then st
  else
    let s1 := if (q11_found env q).isNone then { st with outside := insertSet (q11_target env q) st.outside } else st
    if replaceChar (q11_target env q) '.' "/" != getModuleId st
    then { s1 with imports := insertSet (q11_target env q) s1.imports } else s1

theorem q11_getModuleId_true (s : St) : getModuleId s true = s.moduleId := by
  simp [getModuleId]

theorem q11_target_of_none {env : Env} {q : String} (h : q11_found env q = none) : q11_target env q = q := by
  unfold q11_target; rw [h]

/-- closed form of `addToImports`: `ValueError` for the empty path, else `q11_effect` -/
theorem q11_addToImports_eq (env : Env) (q : String) (st : St) :
    addToImports env q st = if q = "" then .error .valueError else .ok ((), q11_effect env q st) := by
  unfold addToImports
  by_cases hq : q = ""
  · subst hq; rfl
  · rw [if_neg hq, if_neg (by simpa using hq)]
    dsimp only
    unfold q11_effect q11_exempt q11_sameModule
    by_cases h1 : (((splitDot q).head? == some "builtins" && (splitDot q).length == 2) || q == "typing.Any") = true
    · rw [if_pos h1]
      simp only [h1, Bool.true_or, if_true]
      rfl
    · rw [if_neg h1]
      have h1' : (((splitDot q).head? == some "builtins" && (splitDot q).length == 2) || q == "typing.Any") = false := by
        simpa using h1
      by_cases h2 : ((splitDot q).length == 1) = true
      · rw [if_pos h2]
        simp only [h2, Bool.or_true, Bool.true_or, if_true]
        rfl
      · rw [if_neg h2]
        have h2' : ((splitDot q).length == 1) = false := by simpa using h2
        rw [h1', h2']
        simp only [Bool.false_or]
        have hget : (get : G St) st = .ok (st, st) := rfl
        rw [bind_apply, hget]
        dsimp only
        rw [q11_getModuleId_true]
        by_cases h3 : pyIn (replaceChar st.moduleId '/' ".") q = true
        · simp only [h3, Bool.not_true, Bool.false_eq_true, if_false, if_true]
          rfl
        · have h3' : pyIn (replaceChar st.moduleId '/' ".") q = false := by simpa using h3
          simp only [h3', Bool.not_false, if_true, Bool.false_eq_true, if_false]
          unfold q11_target q11_found q11_classTarget
          generalize List.find? (fun c => isPathConnectedToClass env.api.reexportMap (replaceChar q '.' "/") c.id)
            env.api.classes = found
          cases found with
          | none =>
            have he : ("" != "") = false := by decide
            have hg : ∀ x, getModuleId { st with outside := x } = getModuleId st := fun _ => rfl
            simp only [he, Bool.false_eq_true, if_false, Bool.not_false, if_true, Option.isNone_none, hg]
            rfl
          | some c =>
            simp only [Bool.not_true, Bool.false_eq_true, if_false, Option.isNone_some]
            rfl

theorem q11_addToImports_ok {env : Env} {q : String} {st st' : St} {u : Unit}
    (h : addToImports env q st = .ok (u, st')) : q ≠ "" ∧ st' = q11_effect env q st := by
  rw [q11_addToImports_eq] at h
  split at h
  · exact absurd h (by simp)
  · rename_i hq
    simp only [Except.ok.injEq, Prod.mk.injEq] at h
    exact ⟨hq, h.2.symm⟩

theorem q11_wp_addToImports {env : Env} {q : String} {st : St} {Q : Unit → St → Prop}
    (h : q ≠ "" → Q () (q11_effect env q st)) : wp (addToImports env q) Q st := by
  intro u st' hr
  obtain ⟨hq, rfl⟩ := q11_addToImports_ok hr
  exact h hq

/-! #### the fields of `q11_effect` -/

theorem q11_effect_onlyIO (env : Env) (q : String) (st : St) : OnlyIO st (q11_effect env q st) := by
  unfold q11_effect
  apply OnlyIO.ite
  · exact OnlyIO.refl st
  · dsimp only
    apply OnlyIO.ite
    · apply OnlyIO.imports
      apply OnlyIO.ite
      · exact OnlyIO.outside _ (OnlyIO.refl st)
      · exact OnlyIO.refl st
    · apply OnlyIO.ite
      · exact OnlyIO.outside _ (OnlyIO.refl st)
      · exact OnlyIO.refl st

theorem q11_effect_skip {env : Env} {q : String} {st : St}
    (h : q11_exempt q = true ∨ q11_sameModule st q = true) : q11_effect env q st = st := by
  unfold q11_effect
  rw [if_pos (by simpa using h)]

theorem q11_effect_imports {env : Env} {q : String} {st : St}
    (h1 : q11_exempt q = false) (h2 : q11_sameModule st q = false) :
    (q11_effect env q st).imports =
      if replaceChar (q11_target env q) '.' "/" = getModuleId st then st.imports
      else insertSet (q11_target env q) st.imports := by
  unfold q11_effect
  rw [h1, h2]
  simp only [Bool.or_self, Bool.false_eq_true, if_false, bne_iff_ne, ne_eq, ite_not]
  split
  · split <;> rfl
  · split <;> rfl

theorem q11_effect_outside {env : Env} {q : String} {st : St}
    (h1 : q11_exempt q = false) (h2 : q11_sameModule st q = false) :
    (q11_effect env q st).outside =
      if q11_found env q = none then insertSet q st.outside else st.outside := by
  unfold q11_effect
  rw [h1, h2]
  simp only [Bool.or_self, Bool.false_eq_true, if_false, bne_iff_ne, ne_eq, ite_not]
  cases hf : q11_found env q with
  | none =>
    rw [q11_target_of_none hf]
    simp only [Option.isNone_none, if_true]
    split <;> rfl
  | some c =>
    simp only [Option.isNone_some, Bool.false_eq_true, if_false, reduceCtorEq]
    split <;> rfl

/-! ### 2. the state order and "registered or exempt" -/

/-- `s'` has at least the imports and placeholder classes of `s`, and the same module identity -/
structure q11_Ext (s s' : St) : Prop where
  imports : s.imports ⊆ s'.imports
  outside : s.outside ⊆ s'.outside
  moduleId : s'.moduleId = s.moduleId
  reexportModuleId : s'.reexportModuleId = s.reexportModuleId
  creatingReexport : s'.creatingReexport = s.creatingReexport

theorem q11_Ext.refl (s : St) : q11_Ext s s := ⟨fun _ h => h, fun _ h => h, rfl, rfl, rfl⟩

theorem q11_Ext.trans {a b c : St} (h : q11_Ext a b) (h' : q11_Ext b c) : q11_Ext a c :=
  ⟨fun _ x => h'.imports (h.imports x), fun _ x => h'.outside (h.outside x), h'.moduleId.trans h.moduleId,
   h'.reexportModuleId.trans h.reexportModuleId, h'.creatingReexport.trans h.creatingReexport⟩

theorem q11_Ext.getModuleId {s s' : St} (h : q11_Ext s s') : getModuleId s' = getModuleId s := by
  unfold StubGen.getModuleId
  rw [h.moduleId, h.reexportModuleId, h.creatingReexport]

theorem q11_Ext.of_grows {s s' : St} (h : St.Grows s s') : q11_Ext s s' :=
  ⟨h.imports, h.outside, h.moduleId, h.reexportModuleId, h.creatingReexport⟩

/-- a state that differs only in fields other than `imports`, `outside` and the module identity -/
theorem q11_Ext.of_eq {s s' : St} (h1 : s'.imports = s.imports) (h2 : s'.outside = s.outside)
    (h3 : s'.moduleId = s.moduleId) (h4 : s'.reexportModuleId = s.reexportModuleId)
    (h5 : s'.creatingReexport = s.creatingReexport) : q11_Ext s s' :=
  ⟨by rw [h1]; exact fun _ h => h, by rw [h2]; exact fun _ h => h, h3, h4, h5⟩

theorem q11_effect_ext (env : Env) (q : String) (st : St) : q11_Ext st (q11_effect env q st) := by
  obtain ⟨_, _, _, _, h5, h6, h7⟩ := q11_effect_onlyIO env q st
  by_cases h : q11_exempt q = true ∨ q11_sameModule st q = true
  · rw [q11_effect_skip h]; exact q11_Ext.refl st
  · have h1 : q11_exempt q = false := by
      cases hh : q11_exempt q with
      | true => exact absurd (Or.inl hh) h
      | false => rfl
    have h2 : q11_sameModule st q = false := by
      cases hh : q11_sameModule st q with
      | true => exact absurd (Or.inr hh) h
      | false => rfl
    refine ⟨?_, ?_, h5, h6, h7⟩
    · rw [q11_effect_imports h1 h2]
      split
      · exact fun _ h => h
      · exact subset_insertSet _ _
    · rw [q11_effect_outside h1 h2]
      split
      · exact subset_insertSet _ _
      · exact fun _ h => h

/-- The class path `q` is registered or exempt in state `st` — the disjunction `addToImports` implements:
    (b1) the path is ignored (`builtins.X`, `typing.Any`, no module path);
    (b2) the dotted id of the module being generated is a substring of the path;
    (c)  the path resolves to a class of the package, and the resolved path is imported, or it spells the
         id of the stub being written;
    (d)  the path resolves to no class of the package: it is queued for a placeholder stub, and it is
         imported, or it spells the id of the stub being written. -/
def q11_RegQ (env : Env) (st : St) (q : String) : Prop :=
  q11_exempt q = true
  ∨ q11_sameModule st q = true
  ∨ ((q11_found env q).isSome = true ∧
      (q11_target env q ∈ st.imports ∨ replaceChar (q11_target env q) '.' "/" = getModuleId st))
  ∨ (q11_found env q = none ∧ q ∈ st.outside ∧
      (q ∈ st.imports ∨ replaceChar q '.' "/" = getModuleId st))

theorem q11_RegQ.mono {env : Env} {s s' : St} {q : String} (he : q11_Ext s s') (h : q11_RegQ env s q) :
    q11_RegQ env s' q := by
  unfold q11_RegQ q11_sameModule at *
  rw [he.getModuleId, he.moduleId]
  rcases h with h | h | ⟨h1, h2⟩ | ⟨h1, h2, h3⟩
  · exact Or.inl h
  · exact Or.inr (Or.inl h)
  · exact Or.inr (Or.inr (Or.inl ⟨h1, h2.imp (fun x => he.imports x) id⟩))
  · exact Or.inr (Or.inr (Or.inr ⟨h1, he.outside h2, h3.imp (fun x => he.imports x) id⟩))

theorem q11_mem_insertSet_self (a : String) (l : List String) : a ∈ insertSet a l :=
  (mem_insertSet_mk a l a).2 (Or.inr rfl)

/-- after `addToImports env q` the path `q` is registered or exempt -/
theorem q11_effect_reg (env : Env) (q : String) (st : St) : q11_RegQ env (q11_effect env q st) q := by
  have hext := q11_effect_ext env q st
  by_cases h1 : q11_exempt q = true
  · exact Or.inl h1
  by_cases h2 : q11_sameModule st q = true
  · refine Or.inr (Or.inl ?_)
    unfold q11_sameModule at *
    rw [hext.moduleId]; exact h2
  have h1' : q11_exempt q = false := by simpa using h1
  have h2' : q11_sameModule st q = false := by simpa using h2
  unfold q11_RegQ
  rw [hext.getModuleId, q11_effect_imports h1' h2', q11_effect_outside h1' h2']
  cases hf : q11_found env q with
  | some c =>
    refine Or.inr (Or.inr (Or.inl ⟨rfl, ?_⟩))
    by_cases h3 : replaceChar (q11_target env q) '.' "/" = getModuleId st
    · exact Or.inr h3
    · rw [if_neg h3]; exact Or.inl (q11_mem_insertSet_self _ _)
  | none =>
    refine Or.inr (Or.inr (Or.inr ⟨rfl, ?_, ?_⟩))
    · simp only [if_true]; exact q11_mem_insertSet_self _ _
    · rw [q11_target_of_none hf]
      by_cases h3 : replaceChar q '.' "/" = getModuleId st
      · exact Or.inr h3
      · rw [if_neg h3]; exact Or.inl (q11_mem_insertSet_self _ _)

/-! ### 3. the named types inside a type -/

/-- an occurrence of a class name in a type: a `NamedType` or the head of a `NamedSequenceType` -/
inductive q11_Leaf where
  | named (name qname : String)
  | seq (name qname : String)
  /-- a superclass listed after `sub` (name = last dot-segment of the path) -/
  | super (name qname : String)

def q11_Leaf.qname : q11_Leaf → String
  | .named _ q => q
  | .seq _ q => q
  | .super _ q => q

def q11_Leaf.name : q11_Leaf → String
  | .named n _ => n
  | .seq n _ => n
  | .super n _ => n

/-- rendered through the built-in table (only a `NamedType` is looked up there) -/
def q11_Leaf.builtin : q11_Leaf → Bool
  | .named n _ => (builtinName n).isSome
  | .seq _ _ => false
  | .super _ _ => false

mutual
/-- the class-name occurrences of a type, in rendering order (the upper bound stored in a type-variable
    type is not part of the rendered type: `typeStr` prints the variable's name only) -/
def q11_leaves : AType → List q11_Leaf
  | .named n q => [.named n q]
  | .namedSeq n q ts => q11_leavesL ts ++ [.seq n q]
  | .final t => q11_leaves t
  | .callable ps r => q11_leavesL ps ++ q11_leaves r
  | .set ts => q11_leavesL ts
  | .list ts => q11_leavesL ts
  | .union ts => q11_leavesL ts
  | .tuple ts => q11_leavesL ts
  | .dict k v => q11_leaves k ++ q11_leaves v
  | .unknown => []
  | .literal _ => []
  | .typeVar _ => []
  | .typeVarB _ _ => []
  | .enum _ => []
  | .boundary .. => []
def q11_leavesL : List AType → List q11_Leaf
  | [] => []
  | t :: ts => q11_leaves t ++ q11_leavesL ts
end

/-- registered or exempt, for an occurrence -/
def q11_RegLeaf (env : Env) (st : St) (l : q11_Leaf) : Prop :=
  l.builtin = true ∨ q11_RegQ env st l.qname

theorem q11_RegLeaf.mono {env : Env} {s s' : St} {l : q11_Leaf} (he : q11_Ext s s') (h : q11_RegLeaf env s l) :
    q11_RegLeaf env s' l := h.imp id (q11_RegQ.mono he)

/-- state transition of a rendering: the state grew, and every occurrence in `L` is registered or exempt -/
structure q11_RG (env : Env) (st : St) (L : List q11_Leaf) (st' : St) : Prop where
  ext : q11_Ext st st'
  reg : ∀ l ∈ L, q11_RegLeaf env st' l

theorem q11_RG.refl (env : Env) (st : St) : q11_RG env st [] st := ⟨q11_Ext.refl st, fun _ h => nomatch h⟩

theorem q11_RG.trans {env : Env} {s0 s1 s2 : St} {L1 L2 : List q11_Leaf}
    (h1 : q11_RG env s0 L1 s1) (h2 : q11_RG env s1 L2 s2) : q11_RG env s0 (L1 ++ L2) s2 := by
  refine ⟨h1.ext.trans h2.ext, fun l hl => ?_⟩
  rcases List.mem_append.1 hl with h | h
  · exact (h1.reg l h).mono h2.ext
  · exact h2.reg l h

theorem q11_RG.cast {env : Env} {s0 s1 : St} {L L' : List q11_Leaf} (h : q11_RG env s0 L s1) (e : L = L') :
    q11_RG env s0 L' s1 := e ▸ h

/-- adding pending markers does not matter -/
theorem q11_RG.todos {env : Env} {s0 s1 : St} {L : List q11_Leaf} (h : q11_RG env s0 L s1) (x : List String) :
    q11_RG env s0 L { s1 with todos := x } :=
  ⟨h.ext.trans (q11_Ext.of_eq rfl rfl rfl rfl rfl), fun l hl =>
    (h.reg l hl).mono (q11_Ext.of_eq rfl rfl rfl rfl rfl)⟩

/-- occurrences that are exempt whatever the state -/
def q11_LeafExempt (l : q11_Leaf) : Prop := l.builtin = true ∨ q11_exempt l.qname = true

theorem q11_RG.exempt {env : Env} {s0 s1 : St} {L L' : List q11_Leaf} (h : q11_RG env s0 L s1)
    (h' : ∀ l ∈ L', q11_LeafExempt l) : q11_RG env s0 (L ++ L') s1 := by
  refine ⟨h.ext, fun l hl => ?_⟩
  rcases List.mem_append.1 hl with hl | hl
  · exact h.reg l hl
  · exact (h' l hl).imp id Or.inl

theorem q11_addToImports_rg (env : Env) (q : String) (st : St) (l : q11_Leaf) (hl : l.qname = q) :
    wp (addToImports env q) (fun _ st' => q11_RG env st [l] st') st := by
  apply q11_wp_addToImports
  intro _
  refine ⟨q11_effect_ext env q st, fun l' hl' => ?_⟩
  have : l' = l := by simpa using hl'
  subst this
  exact Or.inr (hl ▸ q11_effect_reg env _ st)

theorem q11_exempt_builtinsNone : q11_exempt "builtins.None" = true := by decide

theorem q11_leaves_of_isLiteral {t : AType} (h : isLiteral t = true) : q11_leaves t = [] := by
  cases t <;> simp [isLiteral] at h
  simp [q11_leaves]

theorem q11_leaves_of_isNoneNamed {t : AType} (h : isNoneNamed t = true) :
    ∀ l ∈ q11_leaves t, q11_LeafExempt l := by
  cases t <;> simp [isNoneNamed] at h
  subst h
  intro l hl
  simp only [q11_leaves, List.mem_singleton] at hl
  subst hl
  exact Or.inr q11_exempt_builtinsNone

theorem q11_leavesL_exempt {ts : List AType} (h : ∀ t ∈ ts, isLiteral t = true ∨ isNoneNamed t = true) :
    ∀ l ∈ q11_leavesL ts, q11_LeafExempt l := by
  induction ts with
  | nil => intro l hl; simp [q11_leavesL] at hl
  | cons t ts ih =>
    intro l hl
    rw [q11_leavesL, List.mem_append] at hl
    rcases hl with hl | hl
    · rcases h t (by simp) with ht | ht
      · rw [q11_leaves_of_isLiteral ht] at hl; simp at hl
      · exact q11_leaves_of_isNoneNamed ht l hl
    · exact ih (fun t' h' => h t' (by simp [h'])) l hl

/-- first literal shortcut of the union rendering -/
theorem q11_union_case1 {ts : List AType}
    (h : ((ts.filter (fun t => !isLiteral t)).length == 1 &&
      (ts.filter (fun t => !isLiteral t)).any isNoneNamed) = true) :
    ∀ t ∈ ts, isLiteral t = true ∨ isNoneNamed t = true := by
  simp only [Bool.and_eq_true, beq_iff_eq] at h
  obtain ⟨h1, h2⟩ := h
  intro t ht
  cases hl : isLiteral t with
  | true => exact Or.inl rfl
  | false =>
    right
    have hm : t ∈ ts.filter (fun t => !isLiteral t) := by simp [ht, hl]
    match hf : ts.filter (fun t => !isLiteral t), h1 with
    | [x], _ =>
      rw [hf] at hm h2
      simp at hm h2
      rw [hm]; exact h2

/-- second literal shortcut -/
theorem q11_union_case2 {ts : List AType}
    (h : (ts.length == 2 && (ts.filter isLiteral).length == 1 && ts.any isNoneNamed) = true) :
    ∀ t ∈ ts, isLiteral t = true ∨ isNoneNamed t = true := by
  simp only [Bool.and_eq_true, beq_iff_eq] at h
  obtain ⟨⟨h1, h2⟩, h3⟩ := h
  match ts, h1 with
  | [a, b], _ =>
    simp only [List.any_cons, List.any_nil, Bool.or_false, Bool.or_eq_true] at h3
    simp only [List.filter_cons, List.filter_nil] at h2
    intro t ht
    simp only [List.mem_cons, List.not_mem_nil, or_false] at ht
    cases ha : isLiteral a <;> cases hb : isLiteral b <;> simp [ha, hb] at h2
    · rcases h3 with h3 | h3
      · rcases ht with rfl | rfl
        · exact Or.inr h3
        · exact Or.inl hb
      · have := not_isLiteral_of_isNoneNamed h3
        simp [hb] at this
    · rcases h3 with h3 | h3
      · have := not_isLiteral_of_isNoneNamed h3
        simp [ha] at this
      · rcases ht with rfl | rfl
        · exact Or.inl ha
        · exact Or.inr h3

mutual
theorem q11_typeStr_rg (env : Env) : (t : AType) → ∀ st,
    wp (typeStr env t) (fun _ st' => q11_RG env st (q11_leaves t) st') st
  | .named name qname, st => by
    rw [typeStr]
    split
    · rename_i b hb
      rw [wp_pure]
      refine ⟨q11_Ext.refl st, fun l hl => ?_⟩
      simp only [q11_leaves, List.mem_singleton] at hl
      subst hl
      exact Or.inl (by simp [q11_Leaf.builtin, hb])
    · rw [wp_bind]
      refine wp_conseq (q11_addToImports_rg env qname st (.named name qname) rfl) ?_; intro _ s1 h1
      split
      · exact wp_throwG.2 trivial
      · simp only [wp_bind, wp_get, wp_ite, wp_addTodo, wp_pure]
        exact ⟨fun _ => (h1.todos _).cast (by simp [q11_leaves]), fun _ => h1.cast (by simp [q11_leaves])⟩
  | .final t, st => by
    rw [typeStr]
    exact wp_conseq (q11_typeStr_rg env t st) fun _ _ h => h.cast (by simp [q11_leaves])
  | .callable params ret, st => by
    rw [typeStr, wp_bind]
    refine wp_conseq (q11_typeStrsNamed_rg env "param_" 1 params st) ?_; intro ps s1 h1
    split
    · rename_i ts
      rw [wp_bind]
      refine wp_conseq (q11_typeStrsNamed_rg env "result_" 1 ts s1) ?_; intro rs s2 h2
      rw [wp_pure]
      exact (h1.trans h2).cast (by simp [q11_leaves])
    · simp only [wp_ite, wp_bind, wp_pure]
      refine ⟨?_, ?_⟩
      · intro hn
        refine (h1.exempt (L' := q11_leaves ret) ?_).cast (by simp [q11_leaves])
        cases ret <;> simp [namedNone] at hn
        subst hn
        intro l hl
        simp only [q11_leaves, List.mem_singleton] at hl
        subst hl
        exact Or.inl (by show (builtinName "None").isSome = true; decide)
      · intro _
        refine wp_conseq (q11_typeStr_rg env ret s1) ?_; intro r s2 h2
        exact (h1.trans h2).cast (by simp [q11_leaves])
  | .set ts, st => by
    rw [typeStr, wp_bind]
    refine wp_conseq (q11_typeStrs_rg env ts st) ?_; intro types s1 h1
    simp only [wp_bind, wp_addTodo, wp_ite, wp_pure]
    have h2 := (h1.todos (insertSet "no set support" s1.todos)).cast (L' := q11_leaves (.set ts)) (by simp [q11_leaves])
    exact ⟨fun _ => h2, fun _ => ⟨fun _ => h2.todos _, fun _ => h2⟩⟩
  | .list ts, st => by
    rw [typeStr, wp_bind]
    refine wp_conseq (q11_typeStrs_rg env ts st) ?_; intro types s1 h1
    simp only [wp_bind, wp_addTodo, wp_ite, wp_pure]
    have h2 := h1.cast (L' := q11_leaves (.list ts)) (by simp [q11_leaves])
    exact ⟨fun _ => h2, fun _ => ⟨fun _ => h2.todos _, fun _ => h2⟩⟩
  | .namedSeq name q ts, st => by
    rw [typeStr, wp_bind]
    refine wp_conseq (q11_typeStrs_rg env ts st) ?_; intro types s0 h0
    rw [wp_bind]
    refine wp_conseq (q11_addToImports_rg env q s0 (.seq name q) rfl) ?_; intro _ s1 hi
    have h2 := (h0.trans hi).cast (L' := q11_leaves (.namedSeq name q ts)) (by simp [q11_leaves])
    simp only [wp_bind, wp_addTodo, wp_ite, wp_pure]
    exact ⟨fun _ => h2, fun _ => ⟨fun _ => h2.todos _, fun _ => h2⟩⟩
  | .unknown, st => by
    rw [typeStr]
    simp only [wp_bind, wp_addTodo, wp_pure]
    exact ((q11_RG.refl env st).todos _).cast (by simp [q11_leaves])
  | .union ts, st => by
    rw [typeStr]
    simp only [wp_ite, wp_bind, wp_pure]
    refine ⟨fun _ => ⟨?_, ?_⟩, fun _ => ⟨?_, ?_⟩⟩
    · intro h
      exact ((q11_RG.refl env st).exempt (q11_leavesL_exempt (q11_union_case1 h))).cast (by simp [q11_leaves])
    · intro _
      refine wp_conseq (q11_typeStrsSkipLit_rg env ts st) ?_; intro rs s1 h1
      exact h1.cast (by simp [q11_leaves])
    · intro h
      exact ((q11_RG.refl env st).exempt (q11_leavesL_exempt (q11_union_case2 h))).cast (by simp [q11_leaves])
    · intro _
      refine wp_conseq (q11_typeStrs_rg env ts st) ?_; intro rs s1 h1
      exact h1.cast (by simp [q11_leaves])
  | .tuple ts, st => by
    rw [typeStr]
    simp only [wp_bind, wp_addTodo]
    refine wp_conseq (q11_typeStrs_rg env ts _) ?_; intro types s1 h1
    rw [wp_pure]
    have e : q11_Ext st { st with todos := insertSet "no tuple support" st.todos } :=
      q11_Ext.of_eq rfl rfl rfl rfl rfl
    exact ⟨e.trans h1.ext, fun l hl => h1.reg l (by simpa [q11_leaves] using hl)⟩
  | .dict k v, st => by
    rw [typeStr, wp_bind]
    refine wp_conseq (q11_typeStr_rg env k st) ?_; intro ks s1 h1
    rw [wp_bind]
    refine wp_conseq (q11_typeStr_rg env v s1) ?_; intro vs s2 h2
    rw [wp_pure]
    exact (h1.trans h2).cast (by simp [q11_leaves])
  | .literal ls, st => by
    rw [typeStr, wp_pure]; exact (q11_RG.refl env st).cast (by simp [q11_leaves])
  | .typeVar name, st => by
    rw [typeStr, wp_pure]; exact (q11_RG.refl env st).cast (by simp [q11_leaves])
  | .typeVarB name _, st => by
    rw [typeStr, wp_pure]; exact (q11_RG.refl env st).cast (by simp [q11_leaves])
  | .enum _, st => by
    rw [typeStr]; exact wp_throwG.2 trivial
  | .boundary .., st => by
    rw [typeStr]; exact wp_throwG.2 trivial
theorem q11_typeStrs_rg (env : Env) : (ts : List AType) → ∀ st,
    wp (typeStrs env ts) (fun _ st' => q11_RG env st (q11_leavesL ts) st') st
  | [], st => by
    rw [typeStrs, wp_pure]
    exact (q11_RG.refl env st).cast (by simp [q11_leavesL])
  | t :: ts, st => by
    rw [typeStrs, wp_bind]
    refine wp_conseq (q11_typeStr_rg env t st) ?_; intro a s1 h1
    rw [wp_bind]
    refine wp_conseq (q11_typeStrs_rg env ts s1) ?_; intro as s2 h2
    rw [wp_pure]
    exact (h1.trans h2).cast (by simp [q11_leavesL])
theorem q11_typeStrsSkipLit_rg (env : Env) : (ts : List AType) → ∀ st,
    wp (typeStrsSkipLit env ts) (fun _ st' => q11_RG env st (q11_leavesL ts) st') st
  | [], st => by
    rw [typeStrsSkipLit, wp_pure]
    exact (q11_RG.refl env st).cast (by simp [q11_leavesL])
  | t :: ts, st => by
    rw [typeStrsSkipLit]
    split
    · rename_i hl
      refine wp_conseq (q11_typeStrsSkipLit_rg env ts st) ?_; intro _ s1 h1
      exact h1.cast (by simp [q11_leavesL, q11_leaves_of_isLiteral hl])
    · rw [wp_bind]
      refine wp_conseq (q11_typeStr_rg env t st) ?_; intro a s1 h1
      rw [wp_bind]
      refine wp_conseq (q11_typeStrsSkipLit_rg env ts s1) ?_; intro as s2 h2
      rw [wp_pure]
      exact (h1.trans h2).cast (by simp [q11_leavesL])
theorem q11_typeStrsNamed_rg (env : Env) (pre : String) (i : Nat) : (ts : List AType) → ∀ st,
    wp (typeStrsNamed env pre i ts) (fun _ st' => q11_RG env st (q11_leavesL ts) st') st
  | [], st => by
    rw [typeStrsNamed, wp_pure]
    exact (q11_RG.refl env st).cast (by simp [q11_leavesL])
  | t :: ts, st => by
    rw [typeStrsNamed, wp_bind]
    refine wp_conseq (q11_typeStr_rg env t st) ?_; intro a s1 h1
    rw [wp_bind]
    refine wp_conseq (q11_typeStrsNamed_rg env pre (i + 1) ts s1) ?_; intro as s2 h2
    rw [wp_pure]
    exact (h1.trans h2).cast (by simp [q11_leavesL])
end

/-! ### 4. every function of the generator only adds to `imports` / `outside` -/

/-- running `x` from a state above `s0` ends in a state above `s0` -/
structure q11_MonoAt {α : Type} (s0 : St) (x : G α) : Prop where
  run : ∀ (s : St) (a : α) (s' : St), q11_Ext s0 s → x s = .ok (a, s') → q11_Ext s0 s'

namespace q11_MonoAt
variable {α β : Type} {s0 : St}

theorem pure (a : α) : q11_MonoAt s0 (Pure.pure a : G α) := by
  refine ⟨fun s b s' hs h => ?_⟩
  obtain ⟨_, rfl⟩ := G_pure_ok h
  exact hs

theorem throw (e : PyErr) : q11_MonoAt s0 (throwG e : G α) := by
  refine ⟨fun s b s' _ h => ?_⟩
  exact absurd h (by simp [throwG])

theorem bind {x : G α} {f : α → G β} (hx : q11_MonoAt s0 x) (hf : ∀ a, q11_MonoAt s0 (f a)) :
    q11_MonoAt s0 (x >>= f) := by
  refine ⟨fun s b s' hs h => ?_⟩
  obtain ⟨a, s1, h1, h2⟩ := G_bind_ok h
  exact (hf a).run s1 b s' (hx.run s a s1 hs h1) h2

theorem get_bind {f : St → G β} (hf : ∀ s : St, q11_Ext s0 s → q11_MonoAt s0 (f s)) :
    q11_MonoAt s0 (get >>= f) := by
  refine ⟨fun s b s' hs h => ?_⟩
  obtain ⟨a, s1, h1, h2⟩ := G_bind_ok h
  obtain ⟨rfl, rfl⟩ := G_get_ok h1
  exact (hf _ hs).run _ b s' hs h2

theorem set {t : St} (ht : q11_Ext s0 t) : q11_MonoAt s0 (set t : G PUnit) := by
  refine ⟨fun s b s' _ h => ?_⟩
  simp only [MonadStateOf.set, StateT.set, Pure.pure, Except.pure, Except.ok.injEq, Prod.mk.injEq] at h
  rw [← h.2]; exact ht

/-- `set` of a state that agrees with a state above `s0` on the five fields -/
theorem set' {t s : St} (hs : q11_Ext s0 s) (h1 : t.imports = s.imports) (h2 : t.outside = s.outside)
    (h3 : t.moduleId = s.moduleId) (h4 : t.reexportModuleId = s.reexportModuleId)
    (h5 : t.creatingReexport = s.creatingReexport) : q11_MonoAt s0 (MonadStateOf.set t : G PUnit) :=
  q11_MonoAt.set (hs.trans (q11_Ext.of_eq h1 h2 h3 h4 h5))

theorem modify {g : St → St} (hg : ∀ s, q11_Ext s (g s)) : q11_MonoAt s0 (modify g : G PUnit) := by
  refine ⟨fun s b s' hs h => ?_⟩
  rw [G_modify_ok h]
  exact hs.trans (hg s)

end q11_MonoAt

theorem q11_addTodo_mono (s0 : St) (k : String) : q11_MonoAt s0 (addTodo k) :=
  q11_MonoAt.modify (fun _ => q11_Ext.of_eq rfl rfl rfl rfl rfl)

theorem q11_logEmit_mono (s0 : St) (k i : String) : q11_MonoAt s0 (logEmit k i) :=
  q11_MonoAt.modify (fun _ => q11_Ext.of_eq rfl rfl rfl rfl rfl)

open Lean in
/-- walk through a `do` block (as `keeps` of `Proofs/Files.lean`) -/
macro "q11_mono" "[" ls:term,* "]" : tactic => do
  let alts ← ls.getElems.mapM fun l => `(tacticSeq| apply $l)
  `(tactic| repeat' (first
      | with_reducible exact q11_MonoAt.pure _
      | with_reducible exact q11_MonoAt.throw _
      | with_reducible exact q11_addTodo_mono _ _
      | with_reducible exact q11_logEmit_mono _ _ _
      | with_reducible assumption
      | ((with_reducible apply q11_MonoAt.modify); intro _; exact q11_Ext.of_eq rfl rfl rfl rfl rfl)
      | ((with_reducible apply q11_MonoAt.set'); (with_reducible assumption); (with_reducible rfl);
          (with_reducible rfl); (with_reducible rfl); (with_reducible rfl); (with_reducible rfl))
      | ((with_reducible apply q11_MonoAt.get_bind); intro _ _)
      $[| with_reducible $alts:tacticSeq]*
      | with_reducible apply q11_MonoAt.bind
      | intro _
      | split
      | dsimp only))

theorem q11_mono_of_at {α : Type} {x : G α} (hx : ∀ s0, q11_MonoAt s0 x) {s s' : St} {a : α}
    (h : x s = .ok (a, s')) : q11_Ext s s' :=
  (hx s).run s a s' (q11_Ext.refl s) h

theorem q11_addToImports_mono (s0 : St) (env : Env) (q : String) : q11_MonoAt s0 (addToImports env q) := by
  refine ⟨fun s a s' hs h => ?_⟩
  obtain ⟨_, rfl⟩ := q11_addToImports_ok h
  exact hs.trans (q11_effect_ext env q s)

theorem q11_hasNodeShorterReexport_mono (s0 : St) (n : String) (r : List ModRef) (node : Node) :
    q11_MonoAt s0 (hasNodeShorterReexport n r node) := by
  unfold hasNodeShorterReexport
  q11_mono []

theorem q11_MonoAt.mapM {α β : Type} {s0 : St} (f : α → G β) (hf : ∀ a, q11_MonoAt s0 (f a)) :
    ∀ (l : List α), q11_MonoAt s0 (l.mapM f)
  | [] => by rw [List.mapM_nil]; exact q11_MonoAt.pure _
  | a :: l => by
    rw [List.mapM_cons]
    exact q11_MonoAt.bind (hf a) (fun b => q11_MonoAt.bind (q11_MonoAt.mapM f hf l) (fun bs => q11_MonoAt.pure _))

theorem q11_createTodoMsg_mono (s0 : St) (indent : String) : q11_MonoAt s0 (createTodoMsg indent) := by
  unfold createTodoMsg
  q11_mono [q11_MonoAt.mapM]

theorem q11_typeStr_mono (s0 : St) (env : Env) (t : AType) : q11_MonoAt s0 (typeStr env t) :=
  ⟨fun s a s' hs h => hs.trans (q11_typeStr_rg env t s a s' h).ext⟩

theorem q11_typeStrOpt_mono (s0 : St) (env : Env) (t : Option AType) : q11_MonoAt s0 (typeStrOpt env t) := by
  unfold typeStrOpt
  q11_mono [q11_typeStr_mono]

theorem q11_defaultString_mono (s0 : St) (a : Assign) (d : DefaultVal) : q11_MonoAt s0 (defaultString a d) := by
  unfold defaultString
  q11_mono []

theorem q11_createParameter_mono (s0 : St) (env : Env) (p : Parameter) : q11_MonoAt s0 (createParameter env p) := by
  unfold createParameter
  q11_mono [q11_typeStr_mono, q11_defaultString_mono]

theorem q11_createParameters_mono (s0 : St) (env : Env) :
    (ps : List Parameter) → q11_MonoAt s0 (createParameters env ps)
  | [] => by unfold createParameters; q11_mono []
  | p :: ps => by
    have := q11_createParameters_mono s0 env ps
    unfold createParameters
    q11_mono [q11_createParameter_mono]

theorem q11_createParameterString_mono (s0 : St) (env : Env) (ps : List Parameter) (indent : String) (b : Bool) :
    q11_MonoAt s0 (createParameterString env ps indent b) := by
  unfold createParameterString
  q11_mono [q11_createParameters_mono]

theorem q11_createResults_mono (s0 : St) (env : Env) : (rs : List Result) → q11_MonoAt s0 (createResults env rs)
  | [] => by unfold createResults; q11_mono []
  | r :: rs => by
    have := q11_createResults_mono s0 env rs
    unfold createResults
    q11_mono [q11_typeStr_mono]

theorem q11_createResultString_mono (s0 : St) (env : Env) (rs : List Result) :
    q11_MonoAt s0 (createResultString env rs) := by
  unfold createResultString
  q11_mono [q11_createResults_mono]

theorem q11_typeVarStrings_mono (s0 : St) (env : Env) (b : Bool) :
    (tvs : List TypeVar) → q11_MonoAt s0 (typeVarStrings env b tvs)
  | [] => by unfold typeVarStrings; q11_mono []
  | tv :: tvs => by
    have := q11_typeVarStrings_mono s0 env b tvs
    unfold typeVarStrings
    q11_mono [q11_typeStr_mono]

theorem q11_createFunctionString_mono (s0 : St) (env : Env) (f : Function) (indent : String) (b1 b2 : Bool) :
    q11_MonoAt s0 (createFunctionString env f indent b1 b2) := by
  unfold createFunctionString
  q11_mono [q11_hasNodeShorterReexport_mono, q11_createParameterString_mono, q11_typeVarStrings_mono,
    q11_createResultString_mono, q11_createTodoMsg_mono]

theorem q11_createPropertyFunctionString_mono (s0 : St) (env : Env) (f : Function) (indent : String) :
    q11_MonoAt s0 (createPropertyFunctionString env f indent) := by
  unfold createPropertyFunctionString
  q11_mono [q11_typeStr_mono, q11_createTodoMsg_mono]

theorem q11_createAttribute_mono (s0 : St) (env : Env) (a : Attribute) (inner : String) :
    q11_MonoAt s0 (createAttribute env a inner) := by
  unfold createAttribute
  q11_mono [q11_typeStrOpt_mono, q11_createTodoMsg_mono]

theorem q11_createAttributes_mono (s0 : St) (env : Env) (inner : String) :
    (as : List Attribute) → q11_MonoAt s0 (createAttributes env inner as)
  | [] => by unfold createAttributes; q11_mono []
  | a :: as => by
    have := q11_createAttributes_mono s0 env inner as
    unfold createAttributes
    q11_mono [q11_createAttribute_mono]

theorem q11_createClassAttributeString_mono (s0 : St) (env : Env) (as : List Attribute) (inner : String) :
    q11_MonoAt s0 (createClassAttributeString env as inner) := by
  unfold createClassAttributeString
  q11_mono [q11_createAttributes_mono]

theorem q11_createMethods_mono (s0 : St) (env : Env) (inner : String) (b : Bool) (ad : List String) :
    (ms : List Function) → q11_MonoAt s0 (createMethods env inner b ad ms)
  | [] => by unfold createMethods; q11_mono []
  | m :: ms => by
    have := q11_createMethods_mono s0 env inner b ad ms
    unfold createMethods
    q11_mono [q11_createPropertyFunctionString_mono, q11_createFunctionString_mono]

theorem q11_createClassMethodString_mono (s0 : St) (env : Env) (ms : List Function) (inner : String) (b : Bool)
    (ad : List String) : q11_MonoAt s0 (createClassMethodString env ms inner b ad) := by
  unfold createClassMethodString
  q11_mono [q11_createMethods_mono]

theorem q11_varianceKeyword_mono (s0 : St) (v : Variance) : q11_MonoAt s0 (varianceKeyword v) := by
  unfold varianceKeyword
  q11_mono []

theorem q11_typeParamStrings_mono (s0 : St) (env : Env) :
    (tps : List TypeParam) → q11_MonoAt s0 (typeParamStrings env tps)
  | [] => by unfold typeParamStrings; q11_mono []
  | tp :: tps => by
    have := q11_typeParamStrings_mono s0 env tps
    unfold typeParamStrings
    q11_mono [q11_varianceKeyword_mono, q11_typeStr_mono]

theorem q11_innerClassesG_mono (s0 : St) (render : Class → G String) (hr : ∀ c, q11_MonoAt s0 (render c)) :
    (cs : List Class) → q11_MonoAt s0 (innerClassesG render cs)
  | [] => by unfold innerClassesG; q11_mono []
  | c :: cs => by
    have := q11_innerClassesG_mono s0 render hr cs
    unfold innerClassesG
    q11_mono [hr]

theorem q11_superclassesG_mono (s0 : St) (env : Env) (inline : String → G String)
    (hr : ∀ c, q11_MonoAt s0 (inline c)) : (scs : List String) → q11_MonoAt s0 (superclassesG env inline scs)
  | [] => by unfold superclassesG; q11_mono []
  | sc :: scs => by
    have := q11_superclassesG_mono s0 env inline hr scs
    unfold superclassesG
    q11_mono [hr, q11_addToImports_mono]

theorem q11_internalSupersG_mono (s0 : St) (inline : String → G String) (hr : ∀ c, q11_MonoAt s0 (inline c)) :
    (scs : List String) → q11_MonoAt s0 (internalSupersG inline scs)
  | [] => by unfold internalSupersG; q11_mono []
  | sc :: scs => by
    have := q11_internalSupersG_mono s0 inline hr scs
    unfold internalSupersG
    q11_mono [hr]

mutual
theorem q11_createClassString_mono (s0 : St) (env : Env) : (fuel : Nat) → (c : Class) → (indent : String) →
    (b : Bool) → q11_MonoAt s0 (createClassString env fuel c indent b)
  | 0, _, _, _ => by unfold createClassString; q11_mono []
  | fuel + 1, c, indent, b => by
    have h1 := fun c i b => q11_createClassString_mono s0 env fuel c i b
    have h2 := fun sc i ad => q11_createInternalClassString_mono s0 env fuel sc i ad
    unfold createClassString
    q11_mono [q11_hasNodeShorterReexport_mono, q11_createParameterString_mono, q11_typeParamStrings_mono,
      q11_createTodoMsg_mono, q11_createClassAttributeString_mono, q11_innerClassesG_mono,
      q11_createClassMethodString_mono, q11_superclassesG_mono, h1, h2]
theorem q11_createInternalClassString_mono (s0 : St) (env : Env) : (fuel : Nat) → (sc : String) →
    (inner : String) → (ad : List String) → q11_MonoAt s0 (createInternalClassString env fuel sc inner ad)
  | 0, _, _, _ => by unfold createInternalClassString; q11_mono []
  | fuel + 1, sc, inner, ad => by
    have h1 := fun c i b => q11_createClassString_mono s0 env fuel c i b
    have h2 := fun sc i ad => q11_createInternalClassString_mono s0 env fuel sc i ad
    unfold createInternalClassString
    q11_mono [q11_createClassMethodString_mono, q11_innerClassesG_mono, q11_internalSupersG_mono, h1, h2]
end

theorem q11_createImportsString_mono (s0 : St) (env : Env) : q11_MonoAt s0 (createImportsString env) := by
  unfold createImportsString
  q11_mono []

theorem q11_createFunctions_mono (s0 : St) (env : Env) (inRe : Bool) :
    (fs : List Function) → q11_MonoAt s0 (createFunctions env inRe fs)
  | [] => by unfold createFunctions; q11_mono []
  | f :: fs => by
    have := q11_createFunctions_mono s0 env inRe fs
    unfold createFunctions
    q11_mono [q11_createFunctionString_mono]

theorem q11_createClasses_mono (s0 : St) (env : Env) (inRe : Bool) :
    (cs : List Class) → q11_MonoAt s0 (createClasses env inRe cs)
  | [] => by unfold createClasses; q11_mono []
  | c :: cs => by
    have := q11_createClasses_mono s0 env inRe cs
    unfold createClasses
    q11_mono [q11_createClassString_mono]

theorem q11_createModuleString_mono (s0 : St) (env : Env) (m : Module) :
    q11_MonoAt s0 (createModuleString env m) := by
  unfold createModuleString
  q11_mono [q11_createFunctions_mono, q11_createClasses_mono, q11_createImportsString_mono]

/-! ### 5. the superclass loop -/

/-- after the superclass loop every public superclass (last dot-segment without `_` prefix) is registered or
    exempt, whatever the inlining function does as long as it is monotone -/
theorem q11_superclassesG_reg (env : Env) (inline : String → G String)
    (hin : ∀ sc s0, q11_MonoAt s0 (inline sc)) : (scs : List String) → ∀ st,
    wp (superclassesG env inline scs) (fun _ st' => q11_Ext st st' ∧
      ∀ sc ∈ scs, isInternal (lastD "" (splitDot sc)) = false → q11_RegQ env st' sc) st
  | [], st => by
    rw [superclassesG, wp_pure]
    exact ⟨q11_Ext.refl st, fun _ h => nomatch h⟩
  | sc :: scs, st => by
    rw [superclassesG]
    dsimp only
    split
    · rename_i hpub
      have hpub' : isInternal (lastD "" (splitDot sc)) = false := by simpa using hpub
      rw [wp_bind]
      apply q11_wp_addToImports
      intro _
      rw [wp_bind]
      refine wp_conseq (q11_superclassesG_reg env inline hin scs _) ?_
      rintro ⟨names, text⟩ s2 ⟨he, hr⟩
      rw [wp_pure]
      refine ⟨(q11_effect_ext env sc st).trans he, fun sc' hsc' hp => ?_⟩
      rcases List.mem_cons.1 hsc' with rfl | hsc'
      · exact (q11_effect_reg env _ st).mono he
      · exact hr sc' hsc' hp
    · rename_i hpriv
      have hpriv' : isInternal (lastD "" (splitDot sc)) = true := by simpa using hpriv
      rw [wp_bind]
      intro t s1 h1
      have he1 : q11_Ext st s1 := q11_mono_of_at (fun s0 => hin sc s0) h1
      rw [wp_bind]
      refine wp_conseq (q11_superclassesG_reg env inline hin scs s1) ?_
      rintro ⟨names, text⟩ s2 ⟨he, hr⟩
      rw [wp_pure]
      refine ⟨he1.trans he, fun sc' hsc' hp => ?_⟩
      rcases List.mem_cons.1 hsc' with rfl | hsc'
      · rw [hpriv'] at hp; exact absurd hp (by simp)
      · exact hr sc' hsc' hp

/-! ### 6. the import block -/

/-- the line `createImportsString` prints for a registered class path: the path without its last dot-segment,
    converted to the naming convention and keyword-escaped segment by segment, and the last segment, converted
    (as a non-class name) and keyword-escaped; there is never an `as` clause -/
def q11_importLine (safe : Bool) (imp : String) : String :=
  "from " ++ escapePath (convertPath (joinWith "." (dropLast' (splitDot imp))) safe) ++ " import "
    ++ escapeKeyword (convertName (lastD "" (splitDot imp)) safe)

/-- the lines of the import block: one per registered path, sorted -/
def q11_importLines (safe : Bool) (imports : List String) : List String :=
  sortStrings (imports.map (q11_importLine safe))

def q11_importBlock (safe : Bool) (imports : List String) : String :=
  if imports.isEmpty then "" else "\n" ++ joinWith "\n" (q11_importLines safe imports) ++ "\n"

theorem q11_createImportsString_eq (env : Env) (st : St) :
    createImportsString env st = .ok (q11_importBlock env.safe st.imports, st) := by
  unfold createImportsString q11_importBlock
  have hget : (get : G St) st = .ok (st, st) := rfl
  rw [bind_apply, hget]
  dsimp only
  split <;> rfl

theorem q11_mem_importLines (safe : Bool) (imports : List String) (line : String) :
    line ∈ q11_importLines safe imports ↔ ∃ imp ∈ imports, line = q11_importLine safe imp := by
  unfold q11_importLines
  rw [mem_sortStrings, List.mem_map]
  constructor
  · rintro ⟨imp, h, rfl⟩; exact ⟨imp, h, rfl⟩
  · rintro ⟨imp, h, rfl⟩; exact ⟨imp, h, rfl⟩

/-! ### 7. one stub file: reset, body, import block -/

/-- the enum part of a module stub -/
def q11_enumText (env : Env) (m : Module) : String :=
  String.join (m.enums.map fun e => "\n" ++ createEnumString env e ++ "\n")

/-- is the module published through a re-export (then nothing is moved out of it)? -/
def q11_modInRe (env : Env) (m : Module) : Bool :=
  (shortestPublicReexport env.api.reexportMap m.name "" true).1 != ""

theorem q11_createModuleString_decomp {env : Env} {m : Module} {s0 : St} {text pkg : String} {st' : St}
    (h : createModuleString env m s0 = .ok ((text, pkg), st')) :
    ∃ sA sB t1 t2,
      createFunctions env (q11_modInRe env m) m.functions s0 = .ok (t1, sA)
      ∧ createClasses env (q11_modInRe env m) m.classes sA = .ok (t2, sB)
      ∧ q11_Ext s0 sA ∧ q11_Ext sA sB
      ∧ st'.imports = sB.imports ∧ st'.outside = sB.outside ∧ q11_Ext sB st'
      ∧ pkg = modulePackage env m
      ∧ text = moduleDoc m ++ packageHeader env pkg ++ q11_importBlock env.safe sB.imports ++ t1 ++ t2
          ++ q11_enumText env m := by
  unfold createModuleString at h
  rcases hsp : shortestPublicReexport env.api.reexportMap m.name "" true with ⟨sp, al⟩
  rw [hsp] at h
  simp only at h
  have hh := G_bind_ok h; clear h; obtain ⟨t1, sA, h1, h⟩ := hh
  have hh := G_bind_ok h; clear h; obtain ⟨t2, sB, h2, h⟩ := hh
  have hh := G_bind_ok h; clear h; obtain ⟨_, s3, h3, h⟩ := hh
  have e3 := G_modify_ok h3
  have hh := G_bind_ok h; clear h; obtain ⟨imports, s4, h4, h⟩ := hh
  rw [q11_createImportsString_eq] at h4
  simp only [Except.ok.injEq, Prod.mk.injEq] at h4
  obtain ⟨hi, hs4⟩ := h4
  obtain ⟨h, hst⟩ := G_pure_ok h
  simp only [Prod.mk.injEq] at h
  obtain ⟨ht, hp⟩ := h
  have hre : q11_modInRe env m = (sp != "") := by unfold q11_modInRe; rw [hsp]
  have hp' : pkg = modulePackage env m := by
    unfold modulePackage; rw [hsp]; exact hp
  have hs3i : s3.imports = sB.imports := by rw [e3]
  have hs3o : s3.outside = sB.outside := by rw [e3]
  refine ⟨sA, sB, t1, t2, by rw [hre]; exact h1, by rw [hre]; exact h2,
    q11_mono_of_at (fun s0 => q11_createFunctions_mono s0 env _ _) h1,
    q11_mono_of_at (fun s0 => q11_createClasses_mono s0 env _ _) h2,
    by rw [hst, ← hs4, hs3i], by rw [hst, ← hs4, hs3o],
    by rw [hst, ← hs4, e3]; exact q11_Ext.of_eq rfl rfl rfl rfl rfl, hp', ?_⟩
  rw [ht, ← hi, hs3i, hp]
  unfold moduleDoc q11_enumText
  simp only [String.append_assoc]

/-- the state in which the body of a module stub starts -/
def q11_moduleStart (m : Module) (st : St) : St :=
  let s1 := { st with log := st.log ++ [("module", m.id)] }
  let s2 := if s1.creatingReexport then { s1 with reexportModuleId := m.id } else { s1 with moduleId := m.id }
  { s2 with reexportModuleId := "", classGenerics := [], imports := [], todos := [] }

theorem q11_callGenerator_eq (env : Env) (m : Module) (st : St) :
    callGenerator env m st = createModuleString env m (q11_moduleStart m st) := rfl

/-- the state in which the body of a re-export stub starts -/
def q11_reexportStart (moduleId : String) (el : Node) (st : St) : St :=
  let s1 := { st with imports := [], classGenerics := [] }
  let s2 := if s1.creatingReexport then { s1 with reexportModuleId := moduleId ++ "/" ++ el.name }
            else { s1 with moduleId := moduleId ++ "/" ++ el.name }
  { s2 with log := s2.log ++ [("restub", moduleId ++ "/" ++ el.name)] }

/-- the body of a re-export stub -/
def q11_reexportBody (env : Env) (el : Node) : G String :=
  match el with
  | .cls c => createClassString env (classFuel env) c "" true
  | .fn f => createFunctionString env f "" false true

theorem q11_createReexportElements_cons {env : Env} {moduleId : String} {el : Node} {els : List Node} {st st' : St}
    {ds : List StubData} (h : createReexportElements env moduleId (el :: els) st = .ok (ds, st')) :
    ∃ body sB rest,
      (q11_reexportStart moduleId el st).imports = []
      ∧ q11_reexportBody env el (q11_reexportStart moduleId el st) = .ok (body, sB)
      ∧ q11_Ext (q11_reexportStart moduleId el st) sB
      ∧ createReexportElements env moduleId els sB = .ok (rest, st')
      ∧ ds = { dir := getModuleId sB, name := el.name,
               text := packageHeader env (joinWith "." (dropLast' (splitSlash (getModuleId sB))))
                 ++ q11_importBlock env.safe sB.imports ++ "\n" ++ body ++ "\n",
               isPackageModule := true } :: rest := by
  unfold createReexportElements at h
  have hh := G_bind_ok h; clear h; obtain ⟨_, s1, h1, h⟩ := hh
  have e1 := G_modify_ok h1
  have hh := G_bind_ok h; clear h; obtain ⟨_, s2, h2, h⟩ := hh
  unfold setModuleId at h2
  have e2 := G_modify_ok h2
  have hh := G_bind_ok h; clear h; obtain ⟨_, s3, h3, h⟩ := hh
  unfold logEmit at h3
  have e3 := G_modify_ok h3
  have hh := G_bind_ok h; clear h; obtain ⟨sa, s3', h4, h⟩ := hh
  rw [(G_get_ok h4).1, (G_get_ok h4).2] at h
  clear h4
  dsimp only at h
  have hh := G_bind_ok h; clear h; obtain ⟨body, s4, h5, h⟩ := hh
  have hh := G_bind_ok h; clear h; obtain ⟨imports, s5, h6, h⟩ := hh
  rw [q11_createImportsString_eq] at h6
  simp only [Except.ok.injEq, Prod.mk.injEq] at h6
  obtain ⟨hi, hs5⟩ := h6
  subst hs5
  have hh := G_bind_ok h; clear h; obtain ⟨sb, s5', h7, h⟩ := hh
  rw [(G_get_ok h7).1, (G_get_ok h7).2] at h
  clear h7
  try dsimp only at h
  have hh := G_bind_ok h; clear h; obtain ⟨rest, s6, h8, h⟩ := hh
  obtain ⟨h, hst⟩ := G_pure_ok h
  have hstart : s3 = q11_reexportStart moduleId el st := by
    rw [e3, e2, e1]; rfl
  rw [hstart] at h5 h
  have hbody : q11_reexportBody env el (q11_reexportStart moduleId el st) = .ok (body, s4) := by
    unfold q11_reexportBody
    cases el <;> exact h5
  have hext : q11_Ext (q11_reexportStart moduleId el st) s4 := by
    cases el with
    | cls c => exact q11_mono_of_at (fun s0 => q11_createClassString_mono s0 env _ c "" true) hbody
    | fn f => exact q11_mono_of_at (fun s0 => q11_createFunctionString_mono s0 env f "" false true) hbody
  have himp : (q11_reexportStart moduleId el st).imports = [] := by
    unfold q11_reexportStart
    dsimp only
    split <;> rfl
  refine ⟨body, s4, rest, himp, hbody, hext, by rw [hst]; exact h8, ?_⟩
  rw [h, ← hi, ← hext.getModuleId]

/-! ### 8. placeholder stubs -/

/-- the class name a placeholder stub declares for class path `c` -/
def q11_placeholderClassName (safe : Bool) (c : String) : String :=
  escapeKeyword (convertName (lastD "" (splitDot c)) safe true)

/-- the name the import line for class path `c` mentions -/
def q11_importedName (safe : Bool) (c : String) : String :=
  escapeKeyword (convertName (lastD "" (splitDot c)) safe)

/-- the package path both the import line and the placeholder's package line spell -/
def q11_packageText (safe : Bool) (c : String) : String :=
  escapePath (convertPath (joinWith "." (dropLast' (splitDot c))) safe)

theorem q11_importLine_eq (safe : Bool) (c : String) :
    q11_importLine safe c = "from " ++ q11_packageText safe c ++ " import " ++ q11_importedName safe c := rfl

theorem q11_outsideHeader_eq (safe : Bool) (c : String) :
    ∃ ann, outsideHeader safe c = ann ++ "package " ++ q11_packageText safe c ++ "\n"
      ∧ (ann = "" ∨ ann = "@PythonModule(\"" ++ joinWith "." (dropLast' (splitDot c)) ++ "\")\n") := by
  unfold outsideHeader outsidePyPath q11_packageText
  split
  · exact ⟨_, rfl, Or.inr rfl⟩
  · exact ⟨"", rfl, Or.inl rfl⟩

theorem q11_outsideClassText_eq (safe : Bool) (c : String) :
    ∃ ann, outsideClassText (lastD "" (splitDot c)) safe = ann ++ "\nclass " ++ q11_placeholderClassName safe c ++ "\n"
      ∧ (ann = "" ∨ ann = "\n" ++ nameAnnotation (lastD "" (splitDot c))) := by
  unfold outsideClassText q11_placeholderClassName
  dsimp only
  split
  · exact ⟨_, rfl, Or.inr rfl⟩
  · exact ⟨"", rfl, Or.inl rfl⟩

/-- every class path handed to the placeholder loop gets an operation on its file: a `write` of package
    header and class, or an `append` of the class -/
theorem q11_outsideWrites_each (safe : Bool) : ∀ (cs created existing : List String) (ops : List WriteOp),
    outsideWrites safe cs created existing = .ok ops → ∀ c ∈ cs, ∃ op ∈ ops, op.path = outsideFile c
      ∧ ((op.mode = .append ∧ op.text = outsideClassText (lastD "" (splitDot c)) safe)
         ∨ (op.mode = .write ∧ op.text = outsideHeader safe c ++ outsideClassText (lastD "" (splitDot c)) safe))
  | [], _, _, _, _, c, hc => nomatch hc
  | c0 :: cs, created, existing, ops, h, c, hc => by
    obtain ⟨op0, created', ops', hr, hr2, rfl⟩ := outsideWrites_cons_ok h
    rcases List.mem_cons.1 hc with rfl | hc
    · obtain ⟨_, hp, _, hcase⟩ := createOutsidePackageClass_ok hr
      refine ⟨op0, by simp, hp, ?_⟩
      rcases hcase with ⟨hm, ht, _⟩ | ⟨hm, ht, _⟩
      · exact Or.inl ⟨hm, ht⟩
      · exact Or.inr ⟨hm, ht⟩
    · obtain ⟨op, hop, hr⟩ := q11_outsideWrites_each safe cs created' _ ops' hr2 c hc
      exact ⟨op, List.mem_cons_of_mem _ hop, hr⟩

theorem q11_createStubFiles_placeholder {safe : Bool} {stubs : List StubData} {outside pre : List String}
    {ops : List WriteOp} (h : createStubFiles safe stubs outside pre = .ok ops) :
    ∀ c ∈ outside, ∃ op ∈ ops, op.path = outsideFile c
      ∧ ((op.mode = .append ∧ op.text = outsideClassText (lastD "" (splitDot c)) safe)
         ∨ (op.mode = .write ∧ op.text = outsideHeader safe c ++ outsideClassText (lastD "" (splitDot c)) safe)) := by
  obtain ⟨oops, ho, rfl⟩ := createStubFiles_ok h
  intro c hc
  obtain ⟨op, hop, hr⟩ := q11_outsideWrites_each safe _ _ _ oops ho c ((mem_sortStrings c outside).2 hc)
  exact ⟨op, List.mem_append_right _ hop, hr⟩

/-- every class path `addToImports` queues for a placeholder has a module path (a dot) -/
theorem q11_effect_outside_dotted {env : Env} {q : String} {st : St} (c : String)
    (hc : c ∈ (q11_effect env q st).outside) : c ∈ st.outside ∨ (c = q ∧ '.' ∈ q.toList) := by
  by_cases h : q11_exempt q = true ∨ q11_sameModule st q = true
  · rw [q11_effect_skip h] at hc; exact Or.inl hc
  · have h1 : q11_exempt q = false := by
      cases hh : q11_exempt q with
      | true => exact absurd (Or.inl hh) h
      | false => rfl
    have h2 : q11_sameModule st q = false := by
      cases hh : q11_sameModule st q with
      | true => exact absurd (Or.inr hh) h
      | false => rfl
    rw [q11_effect_outside h1 h2] at hc
    split at hc
    · rcases (mem_insertSet_mk _ _ _).1 hc with hc | rfl
      · exact Or.inl hc
      · refine Or.inr ⟨rfl, ?_⟩
        unfold q11_exempt at h1
        simp only [Bool.or_eq_false_iff] at h1
        have hlen : (splitDot c).length ≠ 1 := by simpa using h1.2
        by_contra hn
        have h0 := (dropLast'_splitDot_eq_nil c).2 hn
        have hne : splitDot c ≠ [] := pySplit_ne_nil '.' c
        match hq : splitDot c with
        | [] => exact hne hq
        | [_] => rw [hq] at hlen; exact hlen rfl
        | a :: b :: r => rw [hq] at h0; simp [dropLast'] at h0
    · exact Or.inl hc

/-! ### 9. exact outcome of rendering a `NamedType` -/

theorem q11_typeStr_named_ok {env : Env} {name qname : String} {st st' : St} {text : String}
    (h : typeStr env (.named name qname) st = .ok (text, st')) :
    (∃ b, builtinName name = some b ∧ text = b ∧ st' = st)
    ∨ (builtinName name = none ∧ qname ≠ "" ∧ name ≠ "" ∧ text = escapeKeyword name
        ∧ ∃ td, st' = { q11_effect env qname st with todos := td }) := by
  rw [typeStr] at h
  cases hb : builtinName name with
  | some b =>
    rw [hb] at h
    obtain ⟨e1, e2⟩ := G_pure_ok h
    exact Or.inl ⟨b, rfl, e1, e2⟩
  | none =>
    rw [hb] at h
    right
    have hh := G_bind_ok h; clear h; obtain ⟨_, s1, h1, h⟩ := hh
    obtain ⟨hq, rfl⟩ := q11_addToImports_ok h1
    cases hc : name.toList with
    | nil =>
      rw [hc] at h
      exact absurd h (by simp [throwG])
    | cons c tl =>
      rw [hc] at h
      dsimp only at h
      have hne : name ≠ "" := by
        intro e; rw [e] at hc; simp at hc
      have hh := G_bind_ok h; clear h; obtain ⟨sa, s2, h2, h⟩ := hh
      obtain ⟨rfl, rfl⟩ := G_get_ok h2
      split at h
      · have hh := G_bind_ok h; clear h; obtain ⟨_, s3, h3, h⟩ := hh
        unfold addTodo at h3
        have e3 := G_modify_ok h3
        obtain ⟨rfl, rfl⟩ := G_pure_ok h
        exact ⟨rfl, hq, hne, rfl, _, e3⟩
      · obtain ⟨rfl, rfl⟩ := G_pure_ok h
        exact ⟨rfl, hq, hne, rfl, (q11_effect env qname st).todos, rfl⟩

/-! ### 10. end to end: the class names in the signature of a function are registered -/

/-- every successful run of `x` grows the state and leaves the occurrences `L` registered or exempt -/
structure q11_Regs (env : Env) (L : List q11_Leaf) {α : Type} (x : G α) : Prop where
  run : ∀ st a st', x st = .ok (a, st') → q11_RG env st L st'

namespace q11_Regs
variable {env : Env} {α β : Type}

theorem of_mono {x : G α} (h : ∀ s0, q11_MonoAt s0 x) : q11_Regs env [] x :=
  ⟨fun _ _ _ hr => ⟨q11_mono_of_at h hr, fun _ hl => nomatch hl⟩⟩

theorem pure (a : α) : q11_Regs env [] (Pure.pure a : G α) := of_mono (fun _ => q11_MonoAt.pure a)

theorem bind {L1 L2 : List q11_Leaf} {x : G α} {f : α → G β} (hx : q11_Regs env L1 x)
    (hf : ∀ a, q11_Regs env L2 (f a)) : q11_Regs env (L1 ++ L2) (x >>= f) := by
  refine ⟨fun st b st' h => ?_⟩
  obtain ⟨a, s1, h1, h2⟩ := G_bind_ok h
  exact (hx.run st a s1 h1).trans ((hf a).run s1 b st' h2)

/-- fewer occurrences, or occurrences that are exempt anyway -/
theorem weaken {L L' : List q11_Leaf} {x : G α} (hx : q11_Regs env L x)
    (h : ∀ l ∈ L', l ∈ L ∨ q11_LeafExempt l) : q11_Regs env L' x := by
  refine ⟨fun st a st' hr => ⟨(hx.run st a st' hr).ext, fun l hl => ?_⟩⟩
  rcases h l hl with h1 | h1
  · exact (hx.run st a st' hr).reg l h1
  · exact h1.imp id Or.inl

theorem cast {L L' : List q11_Leaf} {x : G α} (hx : q11_Regs env L x) (e : L = L') : q11_Regs env L' x := e ▸ hx

end q11_Regs

theorem q11_typeStr_regs (env : Env) (t : AType) : q11_Regs env (q11_leaves t) (typeStr env t) :=
  ⟨fun st a st' h => q11_typeStr_rg env t st a st' h⟩

/-- the class-name occurrences in the type of a parameter -/
def q11_paramLeaves (p : Parameter) : List q11_Leaf :=
  match p.type with
  | some t => q11_leaves t
  | none => []

def q11_paramsLeaves (ps : List Parameter) : List q11_Leaf := ps.flatMap q11_paramLeaves

theorem q11_leaves_vararg (a : Assign) (t : AType) :
    q11_leaves (match a, t with
      | .positionalVararg, .tuple ts => AType.list ts
      | _, t => t) = q11_leaves t := by
  split <;> simp [q11_leaves]

theorem q11_RG.of_ext {env : Env} {st st' : St} (h : q11_Ext st st') : q11_RG env st [] st' :=
  ⟨h, fun _ hl => nomatch hl⟩

theorem q11_RG.ext_left {env : Env} {s0 s1 s2 : St} {L : List q11_Leaf} (he : q11_Ext s0 s1)
    (h : q11_RG env s1 L s2) : q11_RG env s0 L s2 := ((q11_RG.of_ext he).trans h).cast (List.nil_append _)

theorem q11_RG.ext_right {env : Env} {s0 s1 s2 : St} {L : List q11_Leaf} (h : q11_RG env s0 L s1)
    (he : q11_Ext s1 s2) : q11_RG env s0 L s2 := (h.trans (q11_RG.of_ext he)).cast (List.append_nil _)

theorem q11_createParameter_regs (env : Env) (p : Parameter) :
    q11_Regs env (q11_paramLeaves p) (createParameter env p) := by
  refine ⟨fun st a st' h => ?_⟩
  unfold createParameter at h
  have hh := G_bind_ok h; clear h; obtain ⟨tv, s1, h1, h⟩ := hh
  have he2 : q11_Ext s1 st' := q11_mono_of_at (fun s0 => by q11_mono []) h
  refine q11_RG.ext_right ?_ he2
  clear h he2
  unfold q11_paramLeaves
  cases hp : p.type with
  | none =>
    rw [hp] at h1
    dsimp only at h1
    exact q11_RG.of_ext (q11_mono_of_at (fun s0 => by q11_mono []) h1)
  | some t =>
    rw [hp] at h1
    dsimp only at h1
    split at h1 <;>
    · have hh := G_bind_ok h1; clear h1; obtain ⟨value, s2, h2, h1⟩ := hh
      have he1 : q11_Ext st s2 := q11_mono_of_at (fun s0 => by q11_mono [q11_defaultString_mono]) h2
      have hh := G_bind_ok h1; clear h1; obtain ⟨ts, s3, h3, h1⟩ := hh
      obtain ⟨_, rfl⟩ := G_pure_ok h1
      exact q11_RG.ext_left he1 (((q11_typeStr_regs env _).run _ _ _ h3).cast (q11_leaves_vararg _ _))

theorem q11_createParameters_regs (env : Env) :
    (ps : List Parameter) → q11_Regs env (q11_paramsLeaves ps) (createParameters env ps)
  | [] => by unfold createParameters; exact q11_Regs.pure _
  | p :: ps => by
    unfold createParameters
    refine (q11_Regs.bind (q11_createParameter_regs env p) (fun _ =>
      (q11_Regs.bind (L2 := []) (q11_createParameters_regs env ps) (fun _ => q11_Regs.pure _)))).cast ?_
    simp [q11_paramsLeaves]

/-- the parameters that are printed: all but `self` -/
def q11_shownParams (params : List Parameter) (isInstanceMethod : Bool) : List Parameter :=
  if isInstanceMethod then params.drop 1 else params

theorem q11_createParameterString_regs (env : Env) (params : List Parameter) (indent : String) (im : Bool) :
    q11_Regs env (q11_paramsLeaves (q11_shownParams params im)) (createParameterString env params indent im) := by
  unfold createParameterString
  dsimp only
  refine (q11_Regs.bind (L2 := []) (q11_createParameters_regs env _)
    (fun _ => q11_Regs.of_mono (fun s0 => by q11_mono []))).cast (by simp [q11_shownParams])

/-- the class-name occurrences in the types of the results -/
def q11_resultLeaves (rs : List Result) : List q11_Leaf :=
  rs.flatMap fun r => match r.type with
    | some t => q11_leaves t
    | none => []

theorem q11_createResults_regs (env : Env) :
    (rs : List Result) → q11_Regs env (q11_resultLeaves rs) (createResults env rs)
  | [] => by unfold createResults; exact q11_Regs.pure _
  | r :: rs => by
    unfold createResults
    cases hr : r.type with
    | none =>
      dsimp only
      exact (q11_createResults_regs env rs).cast (by simp [q11_resultLeaves, hr])
    | some t =>
      dsimp only
      refine (q11_Regs.bind (q11_typeStr_regs env t) (fun _ =>
        (q11_Regs.bind (L2 := []) (q11_createResults_regs env rs) (fun _ => q11_Regs.pure _)))).cast ?_
      simp [q11_resultLeaves, hr]

theorem q11_resultLeaves_onlyNone {rs : List Result} (h : Spec.onlyNoneResult rs = true) :
    ∀ l ∈ q11_resultLeaves rs, q11_LeafExempt l := by
  match rs, h with
  | [r], h =>
    have h' : Spec.isNoneResult r = true := h
    unfold Spec.isNoneResult at h'
    intro l hl
    simp only [q11_resultLeaves, List.flatMap_cons, List.flatMap_nil, List.append_nil] at hl
    cases ht : r.type with
    | none => rw [ht] at hl; simp at hl
    | some t =>
      rw [ht] at hl h'
      dsimp only at hl
      cases t <;> simp at h'
      subst h'
      simp only [q11_leaves, List.mem_singleton] at hl
      subst hl
      exact Or.inr q11_exempt_builtinsNone

theorem q11_createResultString_regs (env : Env) (rs : List Result) :
    q11_Regs env (q11_resultLeaves rs) (createResultString env rs) := by
  rw [mk_createResultString_eq]
  split
  · rename_i honly
    exact (q11_Regs.pure (env := env) "").weaken (fun l hl => Or.inr (q11_resultLeaves_onlyNone honly l hl))
  · unfold mk_resultStringBody
    exact (q11_Regs.bind (L2 := []) (q11_createResults_regs env rs)
      (fun r => q11_Regs.of_mono (fun s0 => by q11_mono []))).cast (by simp)

/-- the class-name occurrences in the signature of a function (the bounds of its type variables are not
    tracked here) -/
def q11_funLeaves (f : Function) (isMethod : Bool) : List q11_Leaf :=
  q11_paramsLeaves (q11_shownParams f.params (!f.isStatic && isMethod)) ++ q11_resultLeaves f.results

theorem q11_wp_ext {α : Type} {x : G α} (h : ∀ s0, q11_MonoAt s0 x) (st : St) :
    wp x (fun _ st' => q11_Ext st st') st := fun _ _ hr => q11_mono_of_at h hr

theorem q11_functionBody_regs (env : Env) (f : Function) (indent : String) (isMethod : Bool) :
    q11_Regs env (q11_funLeaves f isMethod) (functionBody env f indent isMethod) := by
  refine ⟨fun st => ?_⟩
  show wp (functionBody env f indent isMethod) (fun _ st' => q11_RG env st (q11_funLeaves f isMethod) st') st
  unfold functionBody
  simp only [wp_bind, wp_logEmit, wp_condTodo]
  have e1 : q11_Ext st (if f.isClassMethod = true then
      { ({ st with log := st.log ++ [("fun", f.id)] } : St) with
        todos := insertSet "class_method" ({ st with log := st.log ++ [("fun", f.id)] } : St).todos }
      else { st with log := st.log ++ [("fun", f.id)] }) := by
    split <;> exact q11_Ext.of_eq rfl rfl rfl rfl rfl
  refine wp_conseq ((q11_createParameterString_regs env _ _ _).run _) ?_; intro fp s3 r3
  refine wp_conseq (q11_wp_ext (fun s0 => q11_typeVarStrings_mono s0 env _ _) _) ?_; intro tvs s4 e4
  refine wp_conseq ((q11_createResultString_regs env _).run _) ?_; intro rs s5 r5
  refine wp_conseq (q11_wp_ext (fun s0 => q11_createTodoMsg_mono s0 _) _) ?_; intro todo s6 e6
  rw [wp_pure]
  exact q11_RG.ext_left e1 ((r3.ext_right e4).trans (r5.ext_right e6))

/-- a function that is not moved to a re-export stub has the class names of its signature registered -/
theorem q11_createFunctionString_reg (env : Env) (f : Function) (indent : String) (isMethod inRe : Bool) (st : St) :
    wp (createFunctionString env f indent isMethod inRe) (fun _ st' => q11_Ext st st' ∧
      (n03_movedB (getModuleId st) isMethod inRe f.reexportedBy = false →
        ∀ l ∈ q11_funLeaves f isMethod, q11_RegLeaf env st' l)) st := by
  intro text st' h
  refine ⟨q11_mono_of_at (fun s0 => q11_createFunctionString_mono s0 env f indent isMethod inRe) h, fun hm => ?_⟩
  rw [createFunctionString_eq] at h
  split at h
  · rename_i hc
    have hh := G_bind_ok h; clear h; obtain ⟨b, s1, h1, h⟩ := hh
    obtain ⟨hb, hs1⟩ := n03_hasNodeShorterReexport_wp _ _ _ st b s1 h1
    have hbf : b = false := by
      rw [hb]
      unfold n03_movedB at hm
      simp only [Bool.and_eq_true, Bool.not_eq_true'] at hc
      rw [hc.1, hc.2] at hm
      simpa using hm
    subst hbf
    simp only [Bool.false_eq_true, if_false] at hs1 h
    subst hs1
    exact ((q11_functionBody_regs env f indent isMethod).run _ _ _ h).reg
  · exact ((q11_functionBody_regs env f indent isMethod).run _ _ _ h).reg

/-- the module-level functions of a stub: every public function that stays in the stub has the class names of
    its signature registered at the end -/
theorem q11_createFunctions_reg (env : Env) (inRe : Bool) : (fs : List Function) → ∀ st,
    wp (createFunctions env inRe fs) (fun _ st' => q11_Ext st st' ∧
      ∀ f ∈ fs, f.isPublic = true → n03_movedB (getModuleId st) false inRe f.reexportedBy = false →
        ∀ l ∈ q11_funLeaves f false, q11_RegLeaf env st' l) st
  | [], st => by
    rw [createFunctions, wp_pure]
    exact ⟨q11_Ext.refl st, fun _ h => nomatch h⟩
  | f :: fs, st => by
    rw [createFunctions, wp_bind]
    intro t s1 h1
    have he1 : q11_Ext st s1 := by
      split at h1
      · exact q11_mono_of_at (fun s0 => q11_createFunctionString_mono s0 env f "" false inRe) h1
      · obtain ⟨_, rfl⟩ := G_pure_ok h1; exact q11_Ext.refl _
    rw [wp_bind]
    refine wp_conseq (q11_createFunctions_reg env inRe fs s1) ?_
    rintro rest s2 ⟨he2, hr2⟩
    rw [wp_pure]
    refine ⟨he1.trans he2, fun f' hf' hpub hmv l hl => ?_⟩
    rcases List.mem_cons.1 hf' with rfl | hf'
    · rw [if_pos hpub] at h1
      exact ((q11_createFunctionString_reg env f' "" false inRe st t s1 h1).2 hmv l hl).mono he2
    · exact hr2 f' hf' hpub (by rw [he1.getModuleId]; exact hmv) l hl

/-! ### 11. end to end: the class names in a class block -/

theorem q11_Regs.wp {env : Env} {L : List q11_Leaf} {α : Type} {x : G α} (h : q11_Regs env L x) (st : St) :
    StubGen.wp x (fun _ st' => q11_RG env st L st') st := h.run st

def q11_typeParamLeaves (tps : List TypeParam) : List q11_Leaf :=
  tps.flatMap fun tp => match tp.type with
    | some t => q11_leaves t
    | none => []

theorem q11_typeParamStrings_regs (env : Env) :
    (tps : List TypeParam) → q11_Regs env (q11_typeParamLeaves tps) (typeParamStrings env tps)
  | [] => by unfold typeParamStrings; exact q11_Regs.pure _
  | tp :: tps => by
    refine ⟨fun st => ?_⟩
    show StubGen.wp (typeParamStrings env (tp :: tps)) (fun _ st' => q11_RG env st _ st') st
    rw [typeParamStrings]
    simp only [wp_bind]
    refine wp_conseq (q11_wp_ext (fun s0 => q11_varianceKeyword_mono s0 _) _) ?_; intro dir s1 e1
    cases ht : tp.type with
    | none =>
      simp only [wp_pure]
      refine wp_conseq ((q11_typeParamStrings_regs env tps).wp _) ?_; intro rest s2 r2
      exact (q11_RG.ext_left e1 r2).cast (by simp [q11_typeParamLeaves, ht])
    | some t =>
      simp only [wp_bind, wp_pure]
      refine wp_conseq ((q11_typeStr_regs env t).wp _) ?_; intro ts s2 r2
      refine wp_conseq ((q11_typeParamStrings_regs env tps).wp _) ?_; intro rest s3 r3
      exact ((q11_RG.ext_left e1 r2).trans r3).cast (by simp [q11_typeParamLeaves, ht])

/-- the class-name occurrences in the type of an attribute that is printed -/
def q11_attrLeaves (a : Attribute) : List q11_Leaf :=
  if a.isPublic && !isTypeVarType a.type then
    (match a.type with
     | some t => q11_leaves t
     | none => [])
  else []

theorem q11_createAttribute_regs (env : Env) (a : Attribute) (inner : String) :
    q11_Regs env (q11_attrLeaves a) (createAttribute env a inner) := by
  refine ⟨fun st => ?_⟩
  show StubGen.wp (createAttribute env a inner) (fun _ st' => q11_RG env st _ st') st
  unfold createAttribute q11_attrLeaves
  rw [wp_ite]
  refine ⟨fun h => ?_, fun h => ?_⟩
  · rw [wp_pure]
    have : a.isPublic = false := by simpa using h
    simp only [this, Bool.false_and, Bool.false_eq_true, if_false]
    exact q11_RG.refl env st
  rw [wp_ite]
  refine ⟨fun h2 => ?_, fun h2 => ?_⟩
  · rw [wp_pure]
    simp only [h2, Bool.not_true, Bool.and_false, Bool.false_eq_true, if_false]
    exact q11_RG.refl env st
  have hp : a.isPublic = true := by simpa using h
  have hv : isTypeVarType a.type = false := by simpa using h2
  simp only [hp, hv, Bool.not_false, Bool.and_self, if_true]
  simp only [wp_bind, wp_logEmit]
  have e1 : q11_Ext st { st with log := st.log ++ [("attr", a.id)] } := q11_Ext.of_eq rfl rfl rfl rfl rfl
  have r2 : StubGen.wp (typeStrOpt env a.type) (fun _ st' => q11_RG env { st with log := st.log ++ [("attr", a.id)] }
      (match a.type with
       | some t => q11_leaves t
       | none => []) st') { st with log := st.log ++ [("attr", a.id)] } := by
    cases a.type with
    | none => rw [typeStrOpt, wp_pure]; exact q11_RG.refl env _
    | some t => rw [typeStrOpt]; exact (q11_typeStr_regs env t).wp _
  refine wp_conseq r2 ?_; intro t s2 r2
  simp only [wp_condTodo, wp_bind]
  refine wp_conseq (q11_wp_ext (fun s0 => q11_createTodoMsg_mono s0 _) _) ?_; intro todo s3 e3
  rw [wp_pure]
  have e2' : ∀ (c : Prop) [Decidable c], q11_Ext s2 (if c then
      { s2 with todos := insertSet "attr without type" s2.todos } else s2) := by
    intro c _
    split
    · exact q11_Ext.of_eq rfl rfl rfl rfl rfl
    · exact q11_Ext.refl _
  exact q11_RG.ext_left e1 (r2.ext_right ((e2' _).trans e3))

def q11_attrsLeaves (as : List Attribute) : List q11_Leaf := as.flatMap q11_attrLeaves

theorem q11_createAttributes_regs (env : Env) (inner : String) :
    (as : List Attribute) → q11_Regs env (q11_attrsLeaves as) (createAttributes env inner as)
  | [] => by unfold createAttributes; exact q11_Regs.pure _
  | a :: as => by
    refine ⟨fun st => ?_⟩
    show StubGen.wp (createAttributes env inner (a :: as)) (fun _ st' => q11_RG env st _ st') st
    rw [createAttributes]
    simp only [wp_bind]
    refine wp_conseq ((q11_createAttribute_regs env a inner).wp _) ?_; intro r s1 r1
    refine wp_conseq ((q11_createAttributes_regs env inner as).wp _) ?_; rintro ⟨texts, names⟩ s2 r2
    have : q11_RG env st (q11_attrsLeaves (a :: as)) s2 := (r1.trans r2).cast (by simp [q11_attrsLeaves])
    dsimp only
    split <;> (rw [wp_pure]; exact this)

theorem q11_createClassAttributeString_regs (env : Env) (as : List Attribute) (inner : String) :
    q11_Regs env (q11_attrsLeaves as) (createClassAttributeString env as inner) := by
  refine ⟨fun st => ?_⟩
  show StubGen.wp (createClassAttributeString env as inner) (fun _ st' => q11_RG env st _ st') st
  unfold createClassAttributeString
  simp only [wp_bind]
  refine wp_conseq ((q11_createAttributes_regs env inner as).wp _) ?_; rintro ⟨texts, names⟩ s1 r1
  dsimp only
  rw [wp_pure]; exact r1

theorem q11_leavesL_filterMap (rs : List Result) :
    q11_leavesL (rs.filterMap (·.type)) = q11_resultLeaves rs := by
  induction rs with
  | nil => simp [q11_leavesL, q11_resultLeaves]
  | cons r rs ih =>
    have ih' : q11_leavesL (rs.filterMap (·.type)) = rs.flatMap fun r => match r.type with
        | some t => q11_leaves t
        | none => [] := ih
    cases ht : r.type with
    | none => simp [ht, q11_resultLeaves, ih']
    | some t => simp [ht, q11_resultLeaves, q11_leavesL, ih']

theorem q11_createPropertyFunctionString_regs (env : Env) (f : Function) (indent : String) :
    q11_Regs env (q11_resultLeaves f.results) (createPropertyFunctionString env f indent) := by
  refine ⟨fun st => ?_⟩
  show StubGen.wp (createPropertyFunctionString env f indent) (fun _ st' => q11_RG env st _ st') st
  unfold createPropertyFunctionString
  simp only [wp_bind, wp_logEmit]
  have e1 : q11_Ext st { st with log := st.log ++ [("prop", f.id)] } := q11_Ext.of_eq rfl rfl rfl rfl rfl
  refine wp_conseq ((q11_typeStr_regs env _).wp _) ?_; intro t s2 r2
  refine wp_conseq (q11_wp_ext (fun s0 => q11_createTodoMsg_mono s0 _) _) ?_; intro todo s3 e3
  rw [wp_pure]
  exact ((q11_RG.ext_left e1 r2).ext_right e3).cast (by simp [q11_leaves, q11_leavesL_filterMap])

/-- the class-name occurrences in the methods of a class block that are printed -/
def q11_methodsLeaves (isInternalClass : Bool) (ad : List String) (ms : List Function) : List q11_Leaf :=
  ms.flatMap fun m =>
    if methodSkipped m isInternalClass ad then []
    else if m.isProperty then q11_resultLeaves m.results else q11_funLeaves m true

theorem q11_createMethods_regs (env : Env) (inner : String) (isInt : Bool) (ad : List String) :
    (ms : List Function) → q11_Regs env (q11_methodsLeaves isInt ad ms) (createMethods env inner isInt ad ms)
  | [] => by unfold createMethods; exact q11_Regs.pure _
  | m :: ms => by
    refine ⟨fun st => ?_⟩
    show StubGen.wp (createMethods env inner isInt ad (m :: ms)) (fun _ st' => q11_RG env st _ st') st
    rw [createMethods]
    rw [wp_ite]
    refine ⟨fun h => ?_, fun h => ?_⟩
    · exact wp_conseq ((q11_createMethods_regs env inner isInt ad ms).wp _) fun _ _ r =>
        r.cast (by simp [q11_methodsLeaves, h])
    have h' : methodSkipped m isInt ad = false := by simpa using h
    rw [wp_ite]
    refine ⟨fun hp => ?_, fun hp => ?_⟩
    · simp only [wp_bind]
      refine wp_conseq ((q11_createPropertyFunctionString_regs env m inner).wp _) ?_; intro t s1 r1
      refine wp_conseq ((q11_createMethods_regs env inner isInt ad ms).wp _) ?_; rintro ⟨props, meths, names⟩ s2 r2
      dsimp only
      rw [wp_pure]
      exact (r1.trans r2).cast (by simp [q11_methodsLeaves, h', hp])
    · have hp' : m.isProperty = false := by simpa using hp
      simp only [wp_bind]
      have r0 : StubGen.wp (createFunctionString env m inner true) (fun _ st' => q11_RG env st (q11_funLeaves m true) st') st := by
        intro t s1 h1
        obtain ⟨he, hr⟩ := q11_createFunctionString_reg env m inner true false st t s1 h1
        exact ⟨he, hr (by simp [n03_movedB])⟩
      refine wp_conseq r0 ?_; intro t s1 r1
      refine wp_conseq ((q11_createMethods_regs env inner isInt ad ms).wp _) ?_; rintro ⟨props, meths, names⟩ s2 r2
      dsimp only
      rw [wp_pure]
      exact (r1.trans r2).cast (by simp [q11_methodsLeaves, h', hp'])

theorem q11_createClassMethodString_regs (env : Env) (ms : List Function) (inner : String) (isInt : Bool)
    (ad : List String) :
    q11_Regs env (q11_methodsLeaves isInt ad ms) (createClassMethodString env ms inner isInt ad) := by
  refine ⟨fun st => ?_⟩
  show StubGen.wp (createClassMethodString env ms inner isInt ad) (fun _ st' => q11_RG env st _ st') st
  unfold createClassMethodString
  simp only [wp_bind]
  refine wp_conseq ((q11_createMethods_regs env inner isInt ad ms).wp _) ?_; rintro ⟨props, meths, names⟩ s1 r1
  dsimp only
  rw [wp_pure]; exact r1

/-- the public superclasses, as occurrences -/
def q11_superLeaves (scs : List String) : List q11_Leaf :=
  (scs.filter fun sc => !isInternal (lastD "" (splitDot sc))).map fun sc => .super (lastD "" (splitDot sc)) sc

theorem q11_superclassesG_regs (env : Env) (inline : String → G String)
    (hin : ∀ sc s0, q11_MonoAt s0 (inline sc)) (scs : List String) :
    q11_Regs env (q11_superLeaves scs) (superclassesG env inline scs) := by
  refine ⟨fun st r st' h => ?_⟩
  obtain ⟨he, hr⟩ := q11_superclassesG_reg env inline hin scs st r st' h
  refine ⟨he, fun l hl => ?_⟩
  unfold q11_superLeaves at hl
  rw [List.mem_map] at hl
  obtain ⟨sc, hsc, rfl⟩ := hl
  rw [List.mem_filter] at hsc
  exact Or.inr (hr sc hsc.1 (by simpa using hsc.2))

/-- the class-name occurrences in the constructor of a class block -/
def q11_ctorLeaves (c : Class) : List q11_Leaf :=
  if c.isAbstract then []
  else match c.ctor with
    | some ctor => q11_paramsLeaves (q11_shownParams ctor.params true)
    | none => []

/-- the class-name occurrences in a class block (the methods of INLINED private superclasses are not tracked) -/
def q11_classLeaves : Nat → Class → List q11_Leaf
  | 0, _ => []
  | fuel + 1, c =>
    q11_ctorLeaves c ++ (if !c.typeParams.isEmpty || !(match c.ctor with
        | some ctor => ctor.typeVars
        | none => []).isEmpty then q11_typeParamLeaves c.typeParams else [])
      ++ q11_attrsLeaves c.attributes
      ++ (c.classes.filter (·.isPublic)).flatMap (q11_classLeaves fuel)
      ++ q11_methodsLeaves false [] c.methods
      ++ (if !c.renderedSupers.isEmpty && !c.isAbstract then q11_superLeaves c.renderedSupers else [])

theorem q11_innerClassesG_regs (env : Env) (render : Class → G String) (F : Class → List q11_Leaf)
    (hr : ∀ c, q11_Regs env (F c) (render c)) :
    (cs : List Class) → q11_Regs env (cs.flatMap F) (innerClassesG render cs)
  | [] => by unfold innerClassesG; exact q11_Regs.pure _
  | c :: cs => by
    refine ⟨fun st => ?_⟩
    show StubGen.wp (innerClassesG render (c :: cs)) (fun _ st' => q11_RG env st _ st') st
    rw [innerClassesG]
    simp only [wp_bind]
    refine wp_conseq ((hr c).wp _) ?_; intro t s1 r1
    refine wp_conseq ((q11_innerClassesG_regs env render F hr cs).wp _) ?_; intro rest s2 r2
    rw [wp_pure]
    exact (r1.trans r2).cast (by simp)

theorem q11_wp_ite_rg {env : Env} {α : Type} {b : Bool} {x y : G α} {L1 L2 : List q11_Leaf}
    (hx : q11_Regs env L1 x) (hy : q11_Regs env L2 y) (s : St) :
    wp (if b = true then x else y) (fun _ st' => q11_RG env s (if b = true then L1 else L2) st') s := by
  cases b with
  | false => simp only [Bool.false_eq_true, if_false]; exact hy.wp s
  | true => simp only [if_true]; exact hx.wp s

theorem q11_classBody_regs (env : Env) (fuel : Nat) (c : Class) (indent : String)
    (ih : ∀ ic ind, q11_Regs env (q11_classLeaves fuel ic) (createClassString env fuel ic ind true)) :
    q11_Regs env (q11_classLeaves (fuel + 1) c) (classBody env fuel c indent) := by
  refine ⟨fun st => ?_⟩
  show StubGen.wp (classBody env fuel c indent) (fun _ st' => q11_RG env st _ st') st
  unfold classBody
  simp only [wp_bind, wp_logEmit]
  have e0 : q11_Ext st { st with log := st.log ++ [("class", c.id)] } := q11_Ext.of_eq rfl rfl rfl rfl rfl
  -- constructor
  refine wp_conseq (q11_wp_ite_rg (env := env) (L1 := []) (L2 := match c.ctor with
      | some ctor => q11_paramsLeaves (q11_shownParams ctor.params true)
      | none => []) (q11_Regs.pure _) ?_ _) ?_
  · refine ⟨fun s a s' h => ?_⟩
    have hh := G_bind_ok h; clear h; obtain ⟨p, s1, h1, h⟩ := hh
    obtain ⟨_, rfl⟩ := G_pure_ok h
    cases hc : c.ctor with
    | none =>
      rw [hc] at h1
      obtain ⟨_, rfl⟩ := G_pure_ok h1
      exact q11_RG.refl env _
    | some ctor =>
      rw [hc] at h1
      exact (q11_createParameterString_regs env ctor.params indent true).run _ _ _ h1
  intro ci s1 r1
  -- the generics of the surrounding class are put aside
  rw [wp_get, wp_modify]
  generalize hs1 : ({ s1 with classGenerics := [] } : St) = s1'
  have e1 : q11_Ext s1 s1' := by rw [← hs1]; exact q11_Ext.of_eq rfl rfl rfl rfl rfl
  -- type parameters
  refine wp_conseq (q11_wp_ite_rg (env := env) (L1 := q11_typeParamLeaves c.typeParams) (L2 := [])
    ((q11_Regs.bind (L2 := []) (q11_typeParamStrings_regs env c.typeParams)
      (fun items => q11_Regs.of_mono (fun s0 => by q11_mono []))).cast (List.append_nil _))
    (q11_Regs.pure _) _) ?_
  intro vi s2 r2
  refine wp_conseq (q11_wp_ext (fun s0 => q11_createTodoMsg_mono s0 _) _) ?_; intro t1 s3 e3
  refine wp_conseq ((q11_createClassAttributeString_regs env c.attributes _).wp _) ?_
  rintro ⟨attrText, attrNames⟩ s4 r4
  dsimp only
  refine wp_conseq ((q11_innerClassesG_regs env _ (q11_classLeaves fuel)
    (fun ic => ih ic (indent ++ indentation)) _).wp _) ?_
  intro innerText s5 r5
  refine wp_conseq ((q11_createClassMethodString_regs env c.methods _ false []).wp _) ?_
  rintro ⟨methodText, methodNames⟩ s6 r6
  dsimp only
  -- superclasses
  refine wp_conseq (q11_wp_ite_rg (env := env) (L1 := q11_superLeaves c.renderedSupers) (L2 := [])
    ((q11_Regs.bind (L2 := []) (q11_superclassesG_regs env _
        (fun sc s0 => q11_createInternalClassString_mono s0 env fuel sc _ _) c.renderedSupers)
      (fun r => q11_Regs.of_mono (fun s0 => by q11_mono []))).cast (List.append_nil _))
    (q11_Regs.pure _) _) ?_
  rintro ⟨superInfo, superMethodsText, nNames⟩ s7 r7
  dsimp only
  simp only [wp_condTodo, wp_bind]
  refine wp_conseq (q11_wp_ext (fun s0 => q11_createTodoMsg_mono s0 _) _) ?_; intro t2 s8 e8
  rw [wp_modify]
  generalize hs9 : ({ s8 with classGenerics := s1.classGenerics } : St) = s9
  have e8' : q11_Ext s8 s9 := by rw [← hs9]; exact q11_Ext.of_eq rfl rfl rfl rfl rfl
  simp only [wp_logEmit, wp_ite, wp_pure]
  have e7 : ∀ (cnd : Prop) [Decidable cnd], q11_Ext s7 (if cnd then
      { s7 with todos := insertSet "multiple_inheritance" s7.todos } else s7) := by
    intro cnd _
    split
    · exact q11_Ext.of_eq rfl rfl rfl rfl rfl
    · exact q11_Ext.refl _
  have e9 : q11_Ext s9 { s9 with log := s9.log ++ [("endclass", c.id)] } := q11_Ext.of_eq rfl rfl rfl rfl rfl
  have fin : q11_RG env st (q11_classLeaves (fuel + 1) c) { s9 with log := s9.log ++ [("endclass", c.id)] } := by
    have := ((((((q11_RG.ext_left e0 r1).ext_right e1).trans (r2.ext_right e3)).trans r4).trans r5).trans r6).trans
      (r7.ext_right ((((e7 _).trans e8).trans e8').trans e9))
    refine this.cast ?_
    simp only [q11_classLeaves, q11_ctorLeaves]
    rfl
  exact ⟨fun _ => fin, fun _ => fin⟩

theorem q11_createClassString_regs (env : Env) : (fuel : Nat) → ∀ (c : Class) (indent : String),
    q11_Regs env (q11_classLeaves fuel c) (createClassString env fuel c indent true)
  | 0, c, indent => ⟨fun st => by
      show StubGen.wp (createClassString env 0 c indent true) _ st
      rw [createClassString]; exact wp_throwG.2 trivial⟩
  | fuel + 1, c, indent => by
    have ih := fun ic ind => q11_createClassString_regs env fuel ic ind
    rw [createClassString_eq]
    simp only [Bool.not_true, Bool.false_eq_true, if_false]
    exact q11_classBody_regs env fuel c indent ih

/-- a class that is not moved to a re-export stub has the class names of its block registered -/
theorem q11_createClassString_reg (env : Env) (fuel : Nat) (c : Class) (indent : String) (inRe : Bool) (st : St) :
    wp (createClassString env fuel c indent inRe) (fun _ st' => q11_Ext st st' ∧
      (n03_movedB (getModuleId st) false inRe c.reexportedBy = false →
        ∀ l ∈ q11_classLeaves fuel c, q11_RegLeaf env st' l)) st := by
  intro text st' h
  refine ⟨q11_mono_of_at (fun s0 => q11_createClassString_mono s0 env fuel c indent inRe) h, fun hm => ?_⟩
  cases fuel with
  | zero => intro l hl; simp [q11_classLeaves] at hl
  | succ fuel =>
    have hbody := q11_classBody_regs env fuel c indent (fun ic ind => q11_createClassString_regs env fuel ic ind)
    rw [createClassString_eq] at h
    split at h
    · rename_i hc
      have hh := G_bind_ok h; clear h; obtain ⟨b, s1, h1, h⟩ := hh
      obtain ⟨hb, hs1⟩ := n03_hasNodeShorterReexport_wp _ _ _ st b s1 h1
      have hbf : b = false := by
        rw [hb]
        unfold n03_movedB at hm
        have hc' : inRe = false := by simpa using hc
        rw [hc'] at hm
        simpa using hm
      subst hbf
      simp only [Bool.false_eq_true, if_false] at hs1 h
      subst hs1
      exact (hbody.run _ _ _ h).reg
    · exact (hbody.run _ _ _ h).reg

/-- the classes of a module stub -/
theorem q11_createClasses_reg (env : Env) (inRe : Bool) : (cs : List Class) → ∀ st,
    wp (createClasses env inRe cs) (fun _ st' => q11_Ext st st' ∧
      ∀ c ∈ cs, c.isPublic = true → c.inheritsFromException = false →
        n03_movedB (getModuleId st) false inRe c.reexportedBy = false →
        ∀ l ∈ q11_classLeaves (classFuel env) c, q11_RegLeaf env st' l) st
  | [], st => by
    rw [createClasses, wp_pure]
    exact ⟨q11_Ext.refl st, fun _ h => nomatch h⟩
  | c :: cs, st => by
    rw [createClasses, wp_bind]
    intro t s1 h1
    have he1 : q11_Ext st s1 := by
      split at h1
      · exact q11_mono_of_at (fun s0 => q11_createClassString_mono s0 env _ c "" inRe) h1
      · obtain ⟨_, rfl⟩ := G_pure_ok h1; exact q11_Ext.refl _
    rw [wp_bind]
    refine wp_conseq (q11_createClasses_reg env inRe cs s1) ?_
    rintro rest s2 ⟨he2, hr2⟩
    rw [wp_pure]
    refine ⟨he1.trans he2, fun c' hc' hpub hex hmv l hl => ?_⟩
    rcases List.mem_cons.1 hc' with rfl | hc'
    · rw [if_pos (by simp [hpub, hex])] at h1
      exact ((q11_createClassString_reg env _ c' "" inRe st t s1 h1).2 hmv l hl).mono he2
    · exact hr2 c' hc' hpub hex (by rw [he1.getModuleId]; exact hmv) l hl

end StubGen
