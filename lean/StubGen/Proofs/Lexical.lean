/-
Helper lemmas for `StubGen.Theorems.C02` (lexical half: identifiers, string literals, comments).
Every lemma name starts with `lx_`.
-/
import StubGen.Model.Gen
import StubGen.Spec.Tokens
import StubGen.Proofs.Naming
import StubGen.Theorems.Tables
import StubGen.Theorems.C09

namespace StubGen

open Spec

/-! ### keywords and back-quotes -/

theorem lx_backquote_ne (n : String) : "`" ++ n ++ "`" ≠ n := by
  intro h
  have := congrArg String.length h
  have h1 : ("`" : String).length = 1 := by decide
  simp only [String.length_append, h1] at this
  omega

/-- the generated escape table and the specification's keyword list have the same members
    (`Tables.escape_table_exact` one way, `Tables.keywords_escaped` the other) -/
theorem lx_table_contains (n : String) : Generated.keywords.contains n = isKeyword n := by
  unfold isKeyword
  rw [Bool.eq_iff_iff]
  simp only [List.contains_iff_mem]
  constructor
  · exact Tables.escape_table_exact.2 n
  · intro h
    have h1 := Tables.keywords_escaped n h
    unfold escapeKeyword at h1
    split at h1
    · rename_i hc; simpa using hc
    · exact absurd h1.symm (lx_backquote_ne n)

theorem lx_escapeKeyword_eq (n : String) :
    escapeKeyword n = if isKeyword n then "`" ++ n ++ "`" else n := by
  unfold escapeKeyword
  rw [lx_table_contains]
  rfl

theorem lx_escapeKeyword_of_keyword {n : String} (h : isKeyword n = true) :
    escapeKeyword n = "`" ++ n ++ "`" := by
  rw [lx_escapeKeyword_eq, if_pos h]

theorem lx_escapeKeyword_of_not_keyword {n : String} (h : isKeyword n = false) : escapeKeyword n = n := by
  rw [lx_escapeKeyword_eq]; simp [h]

/-- every keyword is itself a legal identifier (so the back-quoted form is a token) -/
theorem lx_keywords_ident : ∀ k ∈ keywords33, isIdent k.toList = true := by decide

theorem lx_quoted_toList (k : String) : ("`" ++ k ++ "`").toList = '`' :: (k.toList ++ ['`']) := by
  simp [String.toList_append]

theorem lx_quoted_token {k : String} (h : isIdent k.toList = true) : isIdentToken ("`" ++ k ++ "`") = true := by
  unfold isIdentToken
  rw [lx_quoted_toList]
  simp [isQuotedIdentL, h]

theorem lx_escapeKeyword_token {n : String} (h : isIdent n.toList = true) :
    isIdentToken (escapeKeyword n) = true := by
  rw [lx_escapeKeyword_eq]
  split
  · exact lx_quoted_token h
  · rename_i hk
    simp [isIdentToken, h, hk]

/-! ### identifier characters -/

theorem lx_convertible_isIdent {cs : List Char} (h : Convertible cs = true) : isIdent cs = true := by
  unfold Convertible at h
  simp only [Bool.and_eq_true] at h
  obtain ⟨hall, hhead⟩ := h
  cases cs with
  | nil => simp [lstripChar] at hhead
  | cons c t =>
    simp only [List.all_cons, Bool.and_eq_true] at hall
    simp only [isIdent, Bool.and_eq_true]
    refine ⟨?_, hall.2⟩
    by_cases hc : c = '_'
    · subst hc; decide
    · simp only [lstripChar, hc, if_false] at hhead
      simp [isIdentStart, hhead]

theorem lx_identChar_plain {c : Char} (h : isIdentChar c = true) : isPlainStringChar c = true := by
  unfold isPlainStringChar
  simp only [Bool.and_eq_true, bne_iff_ne, ne_eq]
  refine ⟨⟨⟨?_, ?_⟩, ?_⟩, ?_⟩ <;> (intro e; subst e; revert h; decide)

theorem lx_identStart_identChar {c : Char} (h : isIdentStart c = true) : isIdentChar c = true := by
  unfold isIdentStart at h
  unfold isIdentChar
  simp only [Bool.or_eq_true] at h ⊢
  rcases h with h | h
  · left; simp [Char.isAlphanum, h]
  · right; exact h

theorem lx_isIdent_all {cs : List Char} (h : isIdent cs = true) : cs.all isIdentChar = true := by
  cases cs with
  | nil => simp [isIdent] at h
  | cons c t =>
    simp only [isIdent, Bool.and_eq_true] at h
    simp only [List.all_cons, Bool.and_eq_true]
    exact ⟨lx_identStart_identChar h.1, h.2⟩

theorem lx_all_identChar_safe {cs : List Char} (h : cs.all isIdentChar = true) : stringBodySafe cs = true := by
  unfold stringBodySafe
  rw [List.all_eq_true] at h ⊢
  intro c hc
  exact lx_identChar_plain (h c hc)

/-- identifier characters contain no quote, backslash or newline -/
theorem lx_isIdent_safe {cs : List Char} (h : isIdent cs = true) : stringBodySafe cs = true :=
  lx_all_identChar_safe (lx_isIdent_all h)

theorem lx_convertible_safe {cs : List Char} (h : Convertible cs = true) : stringBodySafe cs = true :=
  lx_isIdent_safe (lx_convertible_isIdent h)

/-! ### string literals -/

theorem lx_stringRest_safe {cs : List Char} (h : stringBodySafe cs = true) : stringRest false (cs ++ ['"']) = true := by
  induction cs with
  | nil => simp [stringRest]
  | cons c t ih =>
    unfold stringBodySafe at h ih
    simp only [List.all_cons, Bool.and_eq_true] at h
    have hc := h.1
    unfold isPlainStringChar at hc
    simp only [Bool.and_eq_true, bne_iff_ne, ne_eq] at hc
    obtain ⟨⟨⟨h1, h2⟩, h3⟩, h4⟩ := hc
    have ih' := ih h.2
    show stringRest false (c :: (t ++ ['"'])) = true
    unfold stringRest
    simp [h1, h2, h3, h4, ih']

/-- the escaped body of any Python string, then the closing quote -/
theorem lx_escapeStringChar_cases (c : Char) :
    (c = '\\' ∧ escapeStringChar c = ['\\', '\\']) ∨ (c = '"' ∧ escapeStringChar c = ['\\', '"']) ∨
    (c = '\n' ∧ escapeStringChar c = ['\\', 'n']) ∨ (c = '\r' ∧ escapeStringChar c = ['\\', 'r']) ∨
    (c ≠ '\\' ∧ c ≠ '"' ∧ c ≠ '\n' ∧ c ≠ '\r' ∧ escapeStringChar c = [c]) := by
  unfold escapeStringChar
  by_cases h1 : c = '\\'
  · left; subst h1; exact ⟨rfl, by decide⟩
  · by_cases h2 : c = '"'
    · right; left; subst h2; exact ⟨rfl, by decide⟩
    · by_cases h3 : c = '\n'
      · right; right; left; subst h3; exact ⟨rfl, by decide⟩
      · by_cases h4 : c = '\r'
        · right; right; right; left; subst h4; exact ⟨rfl, by decide⟩
        · right; right; right; right
          exact ⟨h1, h2, h3, h4, by simp [h1, h2, h3, h4]⟩

theorem lx_stringRest_escaped (cs : List Char) : stringRest false (cs.flatMap escapeStringChar ++ ['"']) = true := by
  induction cs with
  | nil => simp [stringRest]
  | cons c t ih =>
    rw [List.flatMap_cons, List.append_assoc]
    rcases lx_escapeStringChar_cases c with ⟨_, h⟩ | ⟨_, h⟩ | ⟨_, h⟩ | ⟨_, h⟩ | ⟨h1, h2, h3, h4, h⟩
    · rw [h]; simp [stringRest, isEscapeChar, ih]
    · rw [h]; simp [stringRest, isEscapeChar, ih]
    · rw [h]; simp [stringRest, isEscapeChar, ih]
    · rw [h]; simp [stringRest, isEscapeChar, ih]
    · rw [h]
      show stringRest false (c :: (t.flatMap escapeStringChar ++ ['"'])) = true
      unfold stringRest
      simp [h1, h2, h3, h4, ih]

/-- EVERY Python string is written as exactly one closed `STRING` token (repair d913d69) -/
theorem lx_escape_closed (s : String) : isStringToken (escapeStringLiteral s) = true := by
  unfold isStringToken escapeStringLiteral
  rw [String.toList_ofList]
  exact lx_stringRest_escaped s.toList

theorem lx_string_closed {s : String} (h : stringBodySafe s.toList = true) :
    isStringToken ("\"" ++ s ++ "\"") = true := by
  unfold isStringToken
  have : ("\"" ++ s ++ "\"").toList = '"' :: (s.toList ++ ['"']) := by simp [String.toList_append]
  rw [this]
  exact lx_stringRest_safe h

/-! ### successful runs of the generator monad -/

theorem lx_bind_ok {α β : Type} {x : G α} {f : α → G β} {st : St} {r : β × St}
    (h : (x >>= f) st = .ok r) : ∃ a s1, x st = .ok (a, s1) ∧ f a s1 = .ok r := by
  change (StateT.bind x f) st = _ at h
  unfold StateT.bind at h
  cases hx : x st with
  | error e => rw [hx] at h; simp [bind, Except.bind] at h
  | ok v =>
    obtain ⟨a, s1⟩ := v
    rw [hx] at h
    exact ⟨a, s1, rfl, by simpa [bind, Except.bind] using h⟩

theorem lx_pure_ok {α : Type} {a : α} {st : St} {r : α × St} (h : (pure a : G α) st = .ok r) : r = (a, st) := by
  change Except.ok (a, st) = Except.ok r at h
  cases h; rfl

/-- every successful run of `x` returns a value satisfying `P` -/
def lx_Outs {α : Type} (x : G α) (P : α → Prop) : Prop := ∀ st r, x st = .ok r → P r.1

theorem lx_Outs_pure {α : Type} {a : α} {P : α → Prop} (h : P a) : lx_Outs (pure a : G α) P := by
  intro st r hr; rw [lx_pure_ok hr]; exact h

theorem lx_Outs_bind {α β : Type} {x : G α} {f : α → G β} {P : β → Prop} (h : ∀ a, lx_Outs (f a) P) :
    lx_Outs (x >>= f) P := by
  intro st r hr
  obtain ⟨a, s1, -, h2⟩ := lx_bind_ok hr
  exact h a s1 r h2

theorem lx_Outs_ite {α : Type} {c : Prop} [Decidable c] {x y : G α} {P : α → Prop}
    (hx : lx_Outs x P) (hy : lx_Outs y P) : lx_Outs (if c then x else y) P := by
  split <;> assumption

/-- name and annotation of a rendered parameter do not depend on its type and default value -/
theorem lx_createParameter_outs (env : Env) (p : Parameter) :
    lx_Outs (createParameter env p) (fun out =>
      out.name = escapeKeyword (convertName p.name env.safe) ∧
      out.annotation = (if convertName p.name env.safe ≠ p.name then "@PythonName(\"" ++ p.name ++ "\") " else "")) := by
  unfold createParameter
  apply lx_Outs_bind
  rintro ⟨typeString, value⟩
  simp only []
  repeat' (first | apply lx_Outs_ite | (apply lx_Outs_bind; intro _) | apply lx_Outs_pure)
  all_goals
    refine ⟨rfl, ?_⟩
    by_cases hc : convertName p.name env.safe = p.name
    · simp [hc]
    · simp [hc, nameAnnotation, Generated.nameAnnotation, String.append_assoc]

/-! ### `splitOnChar` / `joinWith` -/

theorem lx_splitOnChar_cons (sep c : Char) (cs : List Char) :
    splitOnChar sep (c :: cs) = match splitOnChar sep cs with
      | [] => [[]]
      | p :: ps => if c = sep then [] :: p :: ps else (c :: p) :: ps := by
  rw [splitOnChar]; rfl

theorem lx_splitOnChar_append_sep (sep : Char) (a r : List Char) (h : sep ∉ a) :
    splitOnChar sep (a ++ sep :: r) = a :: splitOnChar sep r := by
  induction a with
  | nil =>
    show splitOnChar sep (sep :: r) = _
    rw [lx_splitOnChar_cons]
    split
    · rename_i he; exact absurd he (splitOnChar_ne_nil sep r)
    · rename_i q qs he; simp [he]
  | cons c a ih =>
    simp only [List.mem_cons, not_or] at h
    show splitOnChar sep (c :: (a ++ sep :: r)) = _
    rw [lx_splitOnChar_cons, ih h.2]
    have : ¬ c = sep := fun e => h.1 e.symm
    simp [this]

theorem lx_pySplit_of_not_mem (sep : Char) (x : String) (h : sep ∉ x.toList) : pySplit x sep = [x] := by
  simp [pySplit, splitOnChar_of_not_mem sep _ h]

theorem lx_pySplit_joinWith (sep : Char) (xs : List String) (hne : xs ≠ [])
    (h : ∀ x ∈ xs, sep ∉ x.toList) : pySplit (joinWith (String.singleton sep) xs) sep = xs := by
  induction xs with
  | nil => exact absurd rfl hne
  | cons a rest ih =>
    cases rest with
    | nil => simpa [joinWith] using lx_pySplit_of_not_mem sep a (h a (by simp))
    | cons b rest =>
      have ih' := ih (by simp) (fun x hx => h x (by simp [hx]))
      have ha := h a (by simp)
      unfold pySplit at ih' ⊢
      have : (joinWith (String.singleton sep) (a :: b :: rest)).toList
          = a.toList ++ sep :: (joinWith (String.singleton sep) (b :: rest)).toList := by
        simp [joinWith, String.toList_append]
      rw [this, lx_splitOnChar_append_sep sep _ _ ha, List.map_cons, ih']
      simp

theorem lx_pySplit_ne_nil (s : String) (sep : Char) : pySplit s sep ≠ [] := by
  unfold pySplit
  intro h
  exact splitOnChar_ne_nil sep s.toList (List.map_eq_nil_iff.mp h)

/-! ### dotted paths -/

theorem lx_dot_not_identChar {c : Char} (h : isIdentChar c = true) : c ≠ '.' := by
  intro e; subst e; revert h; decide

theorem lx_escapeKeyword_no_dot {n : String} (h : isIdent n.toList = true) : '.' ∉ (escapeKeyword n).toList := by
  have hall := List.all_eq_true.mp (lx_isIdent_all h)
  have hn : '.' ∉ n.toList := fun hm => lx_dot_not_identChar (hall _ hm) rfl
  rw [lx_escapeKeyword_eq]
  split
  · rw [lx_quoted_toList]
    simp only [List.mem_cons, List.mem_append, List.not_mem_nil, or_false, not_or]
    exact ⟨by decide, hn, by decide⟩
  · exact hn

theorem lx_escapePath_segments (p : String) (h : ∀ s ∈ pySplit p '.', isIdent s.toList = true) :
    pySplit (escapePath p) '.' = (pySplit p '.').map escapeKeyword := by
  unfold escapePath
  have : ("." : String) = String.singleton '.' := by decide
  rw [this]
  apply lx_pySplit_joinWith
  · intro e; exact lx_pySplit_ne_nil p '.' (List.map_eq_nil_iff.mp e)
  · intro x hx
    obtain ⟨n, hn, rfl⟩ := List.mem_map.mp hx
    exact lx_escapeKeyword_no_dot (h n hn)

theorem lx_escapePath_qualified (p : String) (h : ∀ s ∈ pySplit p '.', isIdent s.toList = true) :
    isQualifiedToken (escapePath p) = true := by
  unfold isQualifiedToken
  rw [lx_escapePath_segments p h, List.all_eq_true]
  intro x hx
  obtain ⟨n, hn, rfl⟩ := List.mem_map.mp hx
  exact lx_escapeKeyword_token (h n hn)

/-! ### the camel-case conversion applied to a whole dotted path -/

theorem lx_toLower_eq_dot (c : Char) : c.toLower = '.' ↔ c = '.' := by
  by_cases hu : c.isUpper
  · constructor
    · intro he
      have h1 : c.toLower.isLower = c.isAlpha := Char.isLower_toLower_eq_isAlpha c
      have h2 : c.isAlpha = true := by simp [Char.isAlpha, hu]
      rw [he, h2] at h1; exact absurd h1 (by decide)
    · intro e; subst e; exact absurd hu (by decide)
  · rw [Char.toLower_eq_of_not_isUpper hu]

theorem lx_splitOnChar_map (sep : Char) (f : Char → Char) (hf : ∀ c, f c = sep ↔ c = sep) (cs : List Char) :
    splitOnChar sep (cs.map f) = (splitOnChar sep cs).map (List.map f) := by
  induction cs with
  | nil => simp [splitOnChar]
  | cons c cs ih =>
    rw [List.map_cons, lx_splitOnChar_cons, lx_splitOnChar_cons, ih]
    cases hs : splitOnChar sep cs with
    | nil => exact absurd hs (splitOnChar_ne_nil sep cs)
    | cons q qs =>
      by_cases hc : c = sep
      · subst hc
        have : f c = c := (hf c).mpr rfl
        simp [this]
      · have : ¬ f c = sep := fun e => hc ((hf c).mp e)
        simp [hc, this]

theorem lx_splitOnChar_filter (sep u : Char) (hu : u ≠ sep) (cs : List Char) :
    splitOnChar sep (cs.filter (· ≠ u)) = (splitOnChar sep cs).map (List.filter (· ≠ u)) := by
  induction cs with
  | nil => simp [splitOnChar]
  | cons c cs ih =>
    rw [lx_splitOnChar_cons]
    cases hs : splitOnChar sep cs with
    | nil => exact absurd hs (splitOnChar_ne_nil sep cs)
    | cons q qs =>
      rw [hs] at ih
      by_cases hc : c = u
      · have h1 : ¬ c = sep := fun e => hu (hc.symm.trans e)
        have h2 : (c :: cs).filter (· ≠ u) = cs.filter (· ≠ u) := by simp [hc]
        rw [h2, ih]
        subst hc
        simp [h1]
      · have : (c :: cs).filter (· ≠ u) = c :: cs.filter (· ≠ u) := by simp [hc]
        rw [this, lx_splitOnChar_cons, ih]
        by_cases h2 : c = sep
        · simp [h2]
        · simp [h2, hc]

/-- a word that agrees, up to ASCII case, with the non-underscore characters of a convertible name
    is a legal identifier -/
theorem lx_ident_of_lower {seg r : List Char} (h : Convertible seg = true)
    (hL : r.map Char.toLower = (seg.filter (· ≠ '_')).map Char.toLower) : isIdent r = true := by
  unfold Convertible at h
  simp only [Bool.and_eq_true] at h
  obtain ⟨hall, hhead⟩ := h
  split at hhead
  · simp at hhead
  · rename_i a t hstrip
    have ha : a ≠ '_' := by intro e; rw [e] at hhead; exact absurd hhead (by decide)
    have hF : seg.filter (· ≠ '_') = a :: t.filter (· ≠ '_') := by
      rw [← filter_lstrip, hstrip]; simp [ha]
    have hchars : ∀ y ∈ r, isIdentChar y = true := by
      intro y hy
      have : y.toLower ∈ r.map Char.toLower := List.mem_map_of_mem hy
      rw [hL] at this
      obtain ⟨c, hc, hcy⟩ := List.mem_map.mp this
      simp only [List.mem_filter, ne_eq, decide_not, Bool.not_eq_eq_eq_not, Bool.not_true,
        decide_eq_false_iff_not] at hc
      have hci : isIdentChar c = true := List.all_eq_true.mp hall c hc.1
      have hca : c.isAlphanum = true := by
        simp only [isIdentChar, Bool.or_eq_true, beq_iff_eq] at hci
        rcases hci with h1 | h1
        · exact h1
        · exact absurd h1 hc.2
      have : y.isAlphanum = true := by
        rw [← isAlphanum_toLower y, ← hcy, isAlphanum_toLower c]; exact hca
      simp [isIdentChar, this]
    rw [hF] at hL
    cases r with
    | nil => simp at hL
    | cons x xs =>
      simp only [List.map_cons, List.cons.injEq] at hL
      have hx : x.isAlpha = true := by
        rw [← Char.isAlpha_toLower_eq_isAlpha x, hL.1, Char.isAlpha_toLower_eq_isAlpha a]; exact hhead
      simp only [isIdent, isIdentStart, hx, Bool.true_or, Bool.true_and, List.all_eq_true]
      intro y hy
      exact hchars y (by simp [hy])

/-- segment by segment, the converted path consists, up to ASCII case, of the non-underscore
    characters of the original path -/
theorem lx_convertedPath_segments_lower (p : String) (hp : p ≠ "_") :
    (splitOnChar '.' (convertName p true).toList).map (List.map Char.toLower)
      = (splitOnChar '.' p.toList).map (fun seg => (seg.filter (· ≠ '_')).map Char.toLower) := by
  have hL := C09.convert_on_letters p false hp
  have := congrArg (splitOnChar '.') hL
  rw [lx_splitOnChar_map '.' Char.toLower lx_toLower_eq_dot, lx_splitOnChar_map '.' Char.toLower lx_toLower_eq_dot,
    lx_splitOnChar_filter '.' '_' (by decide)] at this
  rw [this, List.map_map]
  rfl

theorem lx_convertedPath_segments_ident (p : String) (h : ∀ s ∈ pySplit p '.', Convertible s.toList = true) :
    ∀ s ∈ pySplit (convertName p true) '.', isIdent s.toList = true := by
  have hp : p ≠ "_" := by
    intro e; subst e; revert h; decide
  have hseg := lx_convertedPath_segments_lower p hp
  intro s hs
  unfold pySplit at hs h
  obtain ⟨q, hq, rfl⟩ := List.mem_map.mp hs
  have : q.map Char.toLower ∈ (splitOnChar '.' (convertName p true).toList).map (List.map Char.toLower) :=
    List.mem_map_of_mem hq
  rw [hseg] at this
  obtain ⟨seg, hseg', he⟩ := List.mem_map.mp this
  have hc : Convertible seg = true := by
    have := h (String.ofList seg) (List.mem_map_of_mem hseg')
    simpa using this
  rw [String.toList_ofList]
  exact lx_ident_of_lower hc he.symm

/-! ### block comments: scanning for `*/`

`lx_scan b l`: run over `l`, `b` = "the previous character was `*`"; `none` as soon as `*/` is
complete, otherwise the final state. -/

def lx_scan : Bool → List Char → Option Bool
  | b, [] => some b
  | b, c :: cs => if b && c = '/' then none else lx_scan (c = '*') cs

theorem lx_scan_append (b : Bool) (x y : List Char) :
    lx_scan b (x ++ y) = (lx_scan b x).bind (fun b' => lx_scan b' y) := by
  induction x generalizing b with
  | nil => simp [lx_scan]
  | cons c x ih =>
    simp only [List.cons_append, lx_scan]
    split
    · rfl
    · exact ih _

theorem lx_scan_mono (l : List Char) (h : (lx_scan true l).isSome = true) : (lx_scan false l).isSome = true := by
  cases l with
  | nil => simp [lx_scan]
  | cons c cs =>
    simp only [lx_scan, Bool.true_and, Bool.false_and, Bool.false_eq_true, if_false] at h ⊢
    split at h
    · simp at h
    · exact h

theorem lx_scan_prefix (b : Bool) (x y : List Char) (h : (lx_scan b (x ++ y)).isSome = true) :
    (lx_scan b x).isSome = true := by
  rw [lx_scan_append] at h
  cases hx : lx_scan b x with
  | none => rw [hx] at h; simp at h
  | some _ => rfl

theorem lx_scan_suffix (b : Bool) (x y : List Char) (h : (lx_scan b (x ++ y)).isSome = true) :
    (lx_scan false y).isSome = true := by
  rw [lx_scan_append] at h
  cases hx : lx_scan b x with
  | none => rw [hx] at h; simp at h
  | some b1 =>
    rw [hx] at h
    simp only [Option.bind_some] at h
    cases b1 with
    | false => exact h
    | true => exact lx_scan_mono y h

theorem lx_scan_infix {p l : List Char} (hi : p <:+: l) (h : (lx_scan false l).isSome = true) :
    (lx_scan false p).isSome = true := by
  obtain ⟨s, t, rfl⟩ := hi
  exact lx_scan_suffix false s p (lx_scan_prefix false (s ++ p) t h)

/-- `lx_scan` finds exactly the occurrences `isInfixOfL` finds -/
theorem lx_scan_none_iff (b : Bool) (l : List Char) :
    lx_scan b l = none ↔ (b = true ∧ l.head? = some '/') ∨ isInfixOfL ['*', '/'] l = true := by
  induction l generalizing b with
  | nil => simp [lx_scan, isInfixOfL]
  | cons c cs ih =>
    have hpre : isPrefixOfL ['*', '/'] (c :: cs) = true ↔ (c = '*' ∧ cs.head? = some '/') := by
      cases cs with
      | nil => simp [isPrefixOfL]
      | cons d ds =>
        simp only [isPrefixOfL, Bool.and_true, Bool.and_eq_true, beq_iff_eq, List.head?_cons, Option.some.injEq]
        constructor
        · rintro ⟨h1, h2⟩; exact ⟨h1.symm, h2.symm⟩
        · rintro ⟨h1, h2⟩; exact ⟨h1.symm, h2.symm⟩
    simp only [lx_scan, isInfixOfL, Bool.or_eq_true, List.head?_cons, Option.some.injEq]
    by_cases hb : (b && decide (c = '/')) = true
    · simp only [hb, if_true, true_iff]
      simp only [Bool.and_eq_true, decide_eq_true_eq] at hb
      exact Or.inl hb
    · rw [if_neg hb, ih, hpre]
      simp only [Bool.and_eq_true, decide_eq_true_eq] at hb ⊢
      constructor
      · rintro (h | h)
        · exact Or.inr (Or.inl h)
        · exact Or.inr (Or.inr h)
      · rintro (h | h | h)
        · exact absurd h hb
        · exact Or.inl h
        · exact Or.inr h

theorem lx_safe_iff (s : String) : commentBodySafe s = true ↔ (lx_scan false s.toList).isSome = true := by
  unfold commentBodySafe pyIn
  have h2 : ("*/" : String).toList = ['*', '/'] := by decide
  rw [h2]
  have := lx_scan_none_iff false s.toList
  simp only [Bool.false_eq_true, false_and, false_or] at this
  rw [Bool.not_eq_true', ← Bool.not_eq_true, ← this]
  cases lx_scan false s.toList <;> simp

/-- the comment recogniser accepts `mid ++ "*/"` when `mid ++ "*"` has no terminator -/
theorem lx_commentRest_of_scan (b : Bool) (mid : List Char) (h : (lx_scan b (mid ++ ['*'])).isSome = true) :
    commentRest b (mid ++ ['*', '/']) = true := by
  induction mid generalizing b with
  | nil => simp [commentRest]
  | cons c m ih =>
    simp only [List.cons_append, lx_scan, commentRest] at h ⊢
    split
    · rename_i hc; rw [if_pos hc] at h; simp at h
    · rename_i hc; rw [if_neg hc] at h; exact ih _ h

theorem lx_scan_nl (b : Bool) (t : List Char) : lx_scan b ('\n' :: t) = lx_scan false t := by
  cases b <;> rfl

theorem lx_scan_sp (b : Bool) (t : List Char) : lx_scan b (' ' :: t) = lx_scan false t := by
  cases b <;> rfl

theorem lx_scan_star (b : Bool) (t : List Char) : lx_scan b ('*' :: t) = lx_scan true t := by
  cases b <;> rfl

/-! ### stripping and splitting give infixes -/

theorem lx_lstripSet_suffix (set l : List Char) : lstripSet set l <:+ l := by
  induction l with
  | nil => simp [lstripSet]
  | cons c cs ih =>
    unfold lstripSet
    split
    · exact ih.trans (List.suffix_cons c cs)
    · exact List.suffix_refl _

theorem lx_pyLstrip_infix (s chars : String) : (pyLstrip s chars).toList <:+: s.toList := by
  simp only [pyLstrip, String.toList_ofList]
  exact (lx_lstripSet_suffix _ _).isInfix

theorem lx_pyRstrip_infix (s chars : String) : (pyRstrip s chars).toList <:+: s.toList := by
  simp only [pyRstrip, String.toList_ofList]
  have := lx_lstripSet_suffix chars.toList s.toList.reverse
  rw [← List.reverse_prefix, List.reverse_reverse] at this
  exact this.isInfix

theorem lx_splitOnChar_infix (sep : Char) (cs : List Char) : ∀ p ∈ splitOnChar sep cs, p <:+: cs := by
  induction cs with
  | nil => simp [splitOnChar]
  | cons c cs ih =>
    rw [lx_splitOnChar_cons]
    cases hs : splitOnChar sep cs with
    | nil => exact absurd hs (splitOnChar_ne_nil sep cs)
    | cons q qs =>
      rw [hs] at ih
      have hq : q <+: cs := by
        -- the first part is a prefix
        clear ih
        induction cs generalizing q qs with
        | nil => simp [splitOnChar] at hs; rw [hs.1]; exact List.prefix_refl _
        | cons d ds ihd =>
          rw [lx_splitOnChar_cons] at hs
          cases hs' : splitOnChar sep ds with
          | nil => exact absurd hs' (splitOnChar_ne_nil sep ds)
          | cons r rs =>
            rw [hs'] at hs
            by_cases hd : d = sep
            · simp [hd] at hs; rw [hs.1]; exact List.nil_prefix
            · simp [hd] at hs
              rw [← hs.1]
              exact List.prefix_cons_inj d |>.mpr (ihd r rs hs')
      have hrest : ∀ p ∈ qs, p <:+: c :: cs := fun p hp =>
        (ih p (by simp [hp])).trans (List.suffix_cons c cs).isInfix
      show ∀ p ∈ (if c = sep then [] :: q :: qs else (c :: q) :: qs), p <:+: c :: cs
      by_cases hcs : c = sep
      · rw [if_pos hcs]
        intro p hp
        simp only [List.mem_cons] at hp
        rcases hp with rfl | rfl | hp
        · exact List.nil_infix
        · exact (ih p (by simp)).trans (List.suffix_cons c cs).isInfix
        · exact hrest p hp
      · rw [if_neg hcs]
        intro p hp
        simp only [List.mem_cons] at hp
        rcases hp with rfl | hp
        · exact ((List.prefix_cons_inj c).mpr hq).isInfix
        · exact hrest p hp

/-! ### documentation comments -/

theorem lx_descriptionLines_scan (indent : String) (bi : Bool) (hi : lx_scan false indent.toList = some bi)
    (rest : List String) (hr : ∀ part ∈ rest, (lx_scan false part.toList).isSome = true) (b : Bool) :
    lx_scan b ((String.join (rest.map fun part =>
      if part != "" then "\n" ++ indent ++ " * " ++ part else "\n" ++ indent ++ " *")).toList ++ ['\n']) = some false := by
  induction rest generalizing b with
  | nil => simp [lx_scan_nl, lx_scan]
  | cons part rest ih =>
    have ih' := ih (fun q hq => hr q (by simp [hq]))
    obtain ⟨bp, hbp⟩ := Option.isSome_iff_exists.mp (hr part (by simp))
    simp only [List.map_cons, String.join_cons, String.toList_append, List.append_assoc]
    split
    · have : ("\n" ++ indent ++ " * " ++ part).toList = '\n' :: (indent.toList ++ ' ' :: '*' :: ' ' :: part.toList) := by
        simp [String.toList_append]
      rw [this, List.cons_append, lx_scan_nl, List.append_assoc, lx_scan_append, hi]
      simp only [Option.bind_some, List.cons_append, lx_scan_sp, lx_scan_star]
      rw [lx_scan_append, hbp]
      exact ih' bp
    · have : ("\n" ++ indent ++ " *").toList = '\n' :: (indent.toList ++ [' ', '*']) := by
        simp [String.toList_append]
      rw [this, List.cons_append, lx_scan_nl, List.append_assoc, lx_scan_append, hi]
      simp only [Option.bind_some, List.cons_append, lx_scan_sp, lx_scan_star, List.nil_append]
      exact ih' true

theorem lx_descriptionPart_scan (d indent : String) (hd : commentBodySafe d = true)
    (hi : commentBodySafe indent = true) :
    lx_scan false (descriptionPart d indent).toList = some false := by
  obtain ⟨bi, hbi⟩ := Option.isSome_iff_exists.mp ((lx_safe_iff indent).mp hi)
  have hd' := (lx_safe_iff d).mp hd
  have hparts : ∀ part ∈ splitLines (pyLstrip (pyRstrip d "\n") "\n"), (lx_scan false part.toList).isSome = true := by
    intro part hp
    unfold splitLines pySplit at hp
    obtain ⟨q, hq, rfl⟩ := List.mem_map.mp hp
    rw [String.toList_ofList]
    have h1 := lx_splitOnChar_infix '\n' _ q hq
    exact lx_scan_infix ((h1.trans (lx_pyLstrip_infix _ _)).trans (lx_pyRstrip_infix _ _)) hd'
  unfold descriptionPart
  simp only []
  cases hs : splitLines (pyLstrip (pyRstrip d "\n") "\n") with
  | nil => exact absurd hs (lx_pySplit_ne_nil _ '\n')
  | cons first rest =>
    rw [hs] at hparts
    obtain ⟨bf, hbf⟩ := Option.isSome_iff_exists.mp (hparts first (by simp))
    have : ("\n" : String).toList = ['\n'] := by decide
    simp only [String.toList_append, this, List.append_assoc]
    rw [lx_scan_append, hbf]
    exact lx_descriptionLines_scan indent bi hbi rest (fun q hq => hparts q (by simp [hq])) bf

theorem lx_descriptionPart_safe (d indent : String) (hd : commentBodySafe d = true)
    (hi : commentBodySafe indent = true) : commentBodySafe (descriptionPart d indent) = true := by
  rw [lx_safe_iff, lx_descriptionPart_scan d indent hd hi]; rfl

theorem lx_sdsDocstringDescription_form (d indent : String) (hne : d ≠ "") :
    sdsDocstringDescription d indent
      = indent ++ ("/**\n" ++ (indent ++ " * " ++ descriptionPart d indent) ++ indent ++ " */") ++ "\n" := by
  unfold sdsDocstringDescription
  have : (d == "") = false := by simpa using hne
  simp only [this, Bool.false_eq_true, if_false, String.append_assoc]
  rfl

/-- the documentation comment is one closed block comment: the first `*/` after the opener is the
    final one -/
theorem lx_docComment_token (d indent : String) (hd : commentBodySafe d = true)
    (hi : commentBodySafe indent = true) :
    isCommentToken ("/**\n" ++ (indent ++ " * " ++ descriptionPart d indent) ++ indent ++ " */") = true := by
  obtain ⟨bi, hbi⟩ := Option.isSome_iff_exists.mp ((lx_safe_iff indent).mp hi)
  have hdp := lx_descriptionPart_scan d indent hd hi
  unfold isCommentToken
  have : ("/**\n" ++ (indent ++ " * " ++ descriptionPart d indent) ++ indent ++ " */").toList
      = '/' :: '*' :: (('*' :: '\n' :: (indent.toList ++ ' ' :: '*' :: ' ' :: ((descriptionPart d indent).toList
          ++ (indent.toList ++ [' '])))) ++ ['*', '/']) := by
    simp [String.toList_append]
  rw [this]
  show commentRest false _ = true
  apply lx_commentRest_of_scan
  simp only [List.cons_append, lx_scan_star, lx_scan_nl, List.append_assoc]
  rw [lx_scan_append, hbi]
  simp only [Option.bind_some, lx_scan_sp, lx_scan_star]
  rw [lx_scan_append, hdp]
  simp only [Option.bind_some]
  rw [lx_scan_append, hbi]
  simp [lx_scan]

theorem lx_spaces_safe (indent : String) (h : indent.toList.all (· = ' ') = true) :
    commentBodySafe indent = true := by
  rw [lx_safe_iff]
  rw [List.all_eq_true] at h
  generalize indent.toList = l at h
  induction l with
  | nil => rfl
  | cons c cs ih =>
    have hc : c = ' ' := by simpa using h c (by simp)
    subst hc
    rw [lx_scan_sp]
    exact ih (fun x hx => h x (by simp [hx]))

/-- a dotted path whose segments have safe string bodies has a safe string body -/
theorem lx_path_safe (p : String) (h : ∀ s ∈ pySplit p '.', stringBodySafe s.toList = true) :
    stringBodySafe p.toList = true := by
  unfold stringBodySafe
  rw [List.all_eq_true]
  intro c hc
  by_cases hd : c = '.'
  · subst hd; decide
  · have : c ∈ (splitOnChar '.' p.toList).flatten := by
      rw [flatten_splitOnChar]; simp [hc, hd]
    obtain ⟨seg, hseg, hcs⟩ := List.mem_flatten.mp this
    have := h (String.ofList seg) (List.mem_map_of_mem hseg)
    rw [String.toList_ofList] at this
    exact List.all_eq_true.mp this c hcs

/-! ### import lines: `dropLast'` / `lastD` of the split path -/

theorem lx_mem_dropLast' {α : Type} (l : List α) : ∀ x ∈ dropLast' l, x ∈ l := by
  induction l with
  | nil => simp [dropLast']
  | cons a t ih =>
    cases t with
    | nil => simp [dropLast']
    | cons b t =>
      intro x hx
      simp only [dropLast', List.mem_cons] at hx
      rcases hx with rfl | hx
      · simp
      · exact List.mem_cons_of_mem _ (ih x hx)

theorem lx_lastD_mem {α : Type} (d : α) (l : List α) (h : l ≠ []) : lastD d l ∈ l := by
  induction l with
  | nil => exact absurd rfl h
  | cons a t ih =>
    cases t with
    | nil => simp [lastD]
    | cons b t => simp only [lastD]; exact List.mem_cons_of_mem _ (ih (by simp))

theorem lx_dropLast'_ne_nil {α : Type} (l : List α) (h : 2 ≤ l.length) : dropLast' l ≠ [] := by
  match l, h with
  | a :: b :: t, _ => simp [dropLast']

theorem lx_pySplit_no_sep (s : String) (sep : Char) : ∀ x ∈ pySplit s sep, sep ∉ x.toList := by
  intro x hx
  unfold pySplit at hx
  obtain ⟨q, hq, rfl⟩ := List.mem_map.mp hx
  rw [String.toList_ofList]
  exact mem_splitOnChar_not_sep sep _ q hq

/-- the module part of an import: splitting it again gives the same segments -/
theorem lx_pySplit_module_part (imp : String) (h : 2 ≤ (pySplit imp '.').length) :
    pySplit (joinWith "." (dropLast' (pySplit imp '.'))) '.' = dropLast' (pySplit imp '.') := by
  have : ("." : String) = String.singleton '.' := by decide
  rw [this]
  exact lx_pySplit_joinWith '.' _ (lx_dropLast'_ne_nil _ h)
    (fun x hx => lx_pySplit_no_sep imp '.' x (lx_mem_dropLast' _ x hx))

/-! ### the conversion as a one-pass automaton -/

/-- `up` = "the next character starts a new word" -/
def lx_walk : Bool → List Char → List Char
  | _, [] => []
  | up, c :: cs => if c = '_' then lx_walk true cs else (if up then c.toUpper else c) :: lx_walk false cs

theorem lx_capJoin_walk (l : List Char) :
    capJoin (splitOnChar '_' l) = lx_walk true l ∧
    ∀ p ps, splitOnChar '_' l = p :: ps → p ++ capJoin ps = lx_walk false l := by
  induction l with
  | nil => simp [splitOnChar, capJoin, lx_walk]
  | cons c cs ih =>
    rw [lx_splitOnChar_cons]
    cases hs : splitOnChar '_' cs with
    | nil => exact absurd hs (splitOnChar_ne_nil _ cs)
    | cons q qs =>
      rw [hs] at ih
      have ih2 := ih.2 q qs rfl
      by_cases hc : c = '_'
      · subst hc
        simp only [if_true, lx_walk]
        refine ⟨by simpa [capJoin] using ih.1, ?_⟩
        intro p ps he
        simp only [List.cons.injEq] at he
        rw [← he.1, ← he.2]
        simpa using ih.1
      · simp only [hc, if_false, lx_walk]
        refine ⟨by simp [capJoin, capitalize, ih2], ?_⟩
        intro p ps he
        simp only [List.cons.injEq] at he
        rw [← he.1, ← he.2]
        simp [ih2]

theorem lx_walk_underscores (b : Bool) (u : List Char) (h : ∀ x ∈ u, x = '_') : lx_walk b u = [] := by
  induction u generalizing b with
  | nil => rfl
  | cons c cs ih =>
    have hc : c = '_' := h c (by simp)
    simp only [lx_walk, hc, if_true]
    exact ih _ (fun x hx => h x (by simp [hx]))

theorem lx_walk_append_underscores (b : Bool) (x u : List Char) (h : ∀ y ∈ u, y = '_') :
    lx_walk b (x ++ u) = lx_walk b x := by
  induction x generalizing b with
  | nil => simpa [lx_walk] using lx_walk_underscores b u h
  | cons c cs ih =>
    simp only [List.cons_append, lx_walk]
    split
    · exact ih _
    · rw [ih]

theorem lx_walk_dot (b : Bool) (seg rest : List Char) :
    lx_walk b (seg ++ '.' :: rest) = lx_walk b seg ++ '.' :: lx_walk false rest := by
  induction seg generalizing b with
  | nil =>
    have : ('.' : Char).toUpper = '.' := by decide
    cases b <;> simp [lx_walk, this]
  | cons c cs ih =>
    simp only [List.cons_append, lx_walk]
    split
    · exact ih _
    · rw [ih]; rfl

theorem lx_drop_leading (cs : List Char) : cs.drop (leadingUnderscores cs) = lstripChar '_' cs := by
  induction cs with
  | nil => rfl
  | cons c cs ih =>
    unfold leadingUnderscores lstripChar
    split
    · simpa using ih
    · rfl

/-- the slice `name[start:-end]` is the left-stripped name minus some trailing underscores -/
theorem lx_cleaned (cs : List Char) : ∃ u, (∀ x ∈ u, x = '_') ∧
    lstripChar '_' cs = (cs.take (cs.length - leadingUnderscores cs.reverse)).drop (leadingUnderscores cs) ++ u := by
  refine ⟨(cs.drop (cs.length - leadingUnderscores cs.reverse)).drop
    (leadingUnderscores cs - (cs.take (cs.length - leadingUnderscores cs.reverse)).length), ?_, ?_⟩
  · intro x hx
    have hx' : x ∈ cs.drop (cs.length - leadingUnderscores cs.reverse) := List.mem_of_mem_drop hx
    have : x ∈ cs.reverse.take (leadingUnderscores cs.reverse) := by
      rw [List.take_reverse]; simpa using hx'
    exact leadingUnderscores_take cs.reverse x this
  · rw [← lx_drop_leading, ← List.drop_append, List.take_append_drop]

theorem lx_convertChars_walk (cs : List Char) (h : cs ≠ ['_']) :
    convertChars cs false = lx_walk false (lstripChar '_' cs) := by
  obtain ⟨u, hu, he⟩ := lx_cleaned cs
  rw [he, lx_walk_append_underscores _ _ _ hu]
  unfold convertChars
  simp only [h, if_false, Bool.false_eq_true]
  cases hs : splitOnChar '_' ((cs.take (cs.length - leadingUnderscores cs.reverse)).drop (leadingUnderscores cs)) with
  | nil => exact absurd hs (splitOnChar_ne_nil _ _)
  | cons p ps => exact (lx_capJoin_walk _).2 p ps hs


/-! ### dotted paths, list level -/

def lx_joinL : List (List Char) → List Char
  | [] => []
  | [a] => a
  | a :: b :: rest => a ++ '.' :: lx_joinL (b :: rest)

theorem lx_joinL_split (cs : List Char) : lx_joinL (splitOnChar '.' cs) = cs := by
  induction cs with
  | nil => rfl
  | cons c cs ih =>
    rw [lx_splitOnChar_cons]
    cases hs : splitOnChar '.' cs with
    | nil => exact absurd hs (splitOnChar_ne_nil _ cs)
    | cons q qs =>
      rw [hs] at ih
      by_cases hc : c = '.'
      · simp only [hc, if_true, lx_joinL, List.nil_append, ih]
      · simp only [hc, if_false]
        cases qs with
        | nil => simp only [lx_joinL] at ih ⊢; rw [ih]
        | cons r rs => simp only [lx_joinL, List.cons_append] at ih ⊢; rw [ih]

theorem lx_joinWith_toList (xs : List String) : (joinWith "." xs).toList = lx_joinL (xs.map String.toList) := by
  induction xs with
  | nil => rfl
  | cons a rest ih =>
    cases rest with
    | nil => rfl
    | cons b rest =>
      simp only [joinWith, List.map_cons, lx_joinL, String.toList_append] at ih ⊢
      rw [ih]
      have : (".": String).toList = ['.'] := by decide
      rw [this]; simp

theorem lx_walk_joinL (segs : List (List Char)) :
    lx_walk false (lx_joinL segs) = lx_joinL (segs.map (lx_walk false)) := by
  induction segs with
  | nil => rfl
  | cons a rest ih =>
    cases rest with
    | nil => rfl
    | cons b rest =>
      simp only [List.map_cons, lx_joinL] at ih ⊢
      rw [lx_walk_dot, ih]

theorem lx_lstrip_append (a b : List Char) (h : lstripChar '_' a ≠ []) :
    lstripChar '_' (a ++ b) = lstripChar '_' a ++ b := by
  induction a with
  | nil => simp [lstripChar] at h
  | cons c cs ih =>
    simp only [List.cons_append, lstripChar] at h ⊢
    split
    · rename_i hc; rw [if_pos hc] at h; exact ih h
    · rfl

theorem lx_lstrip_joinL (s1 : List Char) (rest : List (List Char)) (h : lstripChar '_' s1 ≠ []) :
    lstripChar '_' (lx_joinL (s1 :: rest)) = lx_joinL (lstripChar '_' s1 :: rest) := by
  cases rest with
  | nil => rfl
  | cons b rest => simp only [lx_joinL]; exact lx_lstrip_append _ _ h

theorem lx_convertible_lstrip {s : List Char} (h : Convertible s = true) :
    lstripChar '_' s ≠ [] ∧ s ≠ ['_'] := by
  unfold Convertible at h
  simp only [Bool.and_eq_true] at h
  constructor
  · intro e; rw [e] at h; simp at h
  · intro e; rw [e] at h; simp [lstripChar] at h

/-- converting the whole path = converting segment by segment, when no segment but the first
    starts with an underscore -/
theorem lx_convertChars_joinL (s1 : List Char) (rest : List (List Char))
    (hc : ∀ s ∈ s1 :: rest, Convertible s = true) (hr : ∀ s ∈ rest, lstripChar '_' s = s) :
    convertChars (lx_joinL (s1 :: rest)) false = lx_joinL ((s1 :: rest).map (convertChars · false)) := by
  have h1 := lx_convertible_lstrip (hc s1 (by simp))
  have hne : lx_joinL (s1 :: rest) ≠ ['_'] := by
    intro e
    have := lx_lstrip_joinL s1 rest h1.1
    rw [e] at this
    cases rest with
    | nil => simp only [lx_joinL] at this; exact h1.1 this.symm
    | cons b rest =>
      simp only [lx_joinL, lstripChar] at this
      have := congrArg List.length this
      simp at this
  rw [lx_convertChars_walk _ hne, lx_lstrip_joinL s1 rest h1.1, lx_walk_joinL]
  simp only [List.map_cons]
  rw [← lx_convertChars_walk s1 h1.2]
  congr 2
  apply List.map_congr_left
  intro s hs
  rw [lx_convertChars_walk s (lx_convertible_lstrip (hc s (by simp [hs]))).2, hr s hs]


theorem lx_not_startsWith_lstrip (l : List Char) (h : isPrefixOfL ['_'] l = false) : lstripChar '_' l = l := by
  cases l with
  | nil => rfl
  | cons c cs =>
    simp only [isPrefixOfL, Bool.and_true, beq_eq_false_iff_ne, ne_eq] at h
    have : ¬ c = '_' := fun e => h e.symm
    simp [lstripChar, this]

theorem lx_convertName_toList_of_convertible (s : List Char) (h : Convertible s = true) :
    (convertName (String.ofList s) true).toList = convertChars s false := by
  have hne : String.ofList s ≠ "_" := by
    intro e
    have := congrArg String.toList e
    rw [String.toList_ofList] at this
    exact (lx_convertible_lstrip h).2 this
  simp [convertName, hne]

theorem lx_convertedPath_exact (p : String) (h : ∀ s ∈ pySplit p '.', Convertible s.toList = true)
    (hin : ∀ s ∈ (pySplit p '.').tail, pyStartsWith s "_" = false) :
    convertName p true = joinWith "." ((pySplit p '.').map (convertName · true)) := by
  have hp : p ≠ "_" := by intro e; subst e; revert h; decide
  apply String.ext
  rw [lx_joinWith_toList]
  unfold pySplit at h hin ⊢
  have hsplit := lx_joinL_split p.toList
  cases hs : splitOnChar '.' p.toList with
  | nil => exact absurd hs (splitOnChar_ne_nil _ _)
  | cons s1 rest =>
    rw [hs] at h hin hsplit
    have hc : ∀ s ∈ s1 :: rest, Convertible s = true := by
      intro s hs'
      have := h (String.ofList s) (List.mem_map_of_mem hs')
      simpa using this
    have hr : ∀ s ∈ rest, lstripChar '_' s = s := by
      intro s hs'
      have := hin (String.ofList s) (by simpa using List.mem_map_of_mem (f := String.ofList) hs')
      have h2 : isPrefixOfL ['_'] s = false := by simpa [pyStartsWith] using this
      exact lx_not_startsWith_lstrip s h2
    have hl : (convertName p true).toList = convertChars p.toList false := by simp [convertName, hp]
    rw [hl, ← hsplit, lx_convertChars_joinL s1 rest hc hr]
    congr 1
    simp only [List.map_map]
    apply List.map_congr_left
    intro s hs'
    simp only [Function.comp]
    exact (lx_convertName_toList_of_convertible s (hc s hs')).symm

end StubGen
